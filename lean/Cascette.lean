-- This module serves as the root of the `Cascette` library.
-- Import modules here that should be built as part of the library.
import Cascette.Basic
