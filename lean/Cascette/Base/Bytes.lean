/-
Base/Bytes — byte and word helpers shared by all models.
No imports outside Lean core, so every Model/Spec/Driver file can be linked into a native exe.
Word assembly is written with `Nat` arithmetic (`b0 + 256*b1 + …`): that is what
`u32::from_le_bytes` computes, and it keeps the goals inside what `omega`/`bv_omega` decide.
-/
namespace Cascette

abbrev Byte := BitVec 8
abbrev Bytes := List Byte
abbrev W32 := BitVec 32

/-- little-endian 32-bit word from four bytes (Rust `u32::from_le_bytes`). -/
def le32 (b0 b1 b2 b3 : Byte) : W32 :=
  BitVec.ofNat 32 (b0.toNat + 256 * b1.toNat + 65536 * b2.toNat + 16777216 * b3.toNat)

/-- byte `i` (0 = least significant) of a 32-bit word. -/
def byteOf (w : W32) (i : Nat) : Byte := BitVec.ofNat 8 (w.toNat / 256 ^ i)

/-- Rust `u32::to_le_bytes`. -/
def toLe32 (w : W32) : Bytes := [byteOf w 0, byteOf w 1, byteOf w 2, byteOf w 3]

theorem le32_toLe32 (w : W32) : le32 (byteOf w 0) (byteOf w 1) (byteOf w 2) (byteOf w 3) = w := by
  unfold le32 byteOf; bv_omega

theorem byteOf_le32 (b0 b1 b2 b3 : Byte) :
    toLe32 (le32 b0 b1 b2 b3) = [b0, b1, b2, b3] := by
  unfold toLe32 le32 byteOf
  simp only [List.cons.injEq, and_true]
  refine ⟨?_, ?_, ?_, ?_⟩ <;> bv_omega

theorem le32_eq_append (b0 b1 b2 b3 : Byte) :
    le32 b0 b1 b2 b3 = (b3 ++ b2 ++ b1 ++ b0 : BitVec 32) := by
  apply BitVec.eq_of_toNat_eq
  simp only [le32, BitVec.toNat_append, BitVec.toNat_ofNat]
  rw [← Nat.shiftLeft_add_eq_or_of_lt (by omega), ← Nat.shiftLeft_add_eq_or_of_lt (by omega),
    ← Nat.shiftLeft_add_eq_or_of_lt (by omega)]
  simp only [Nat.shiftLeft_eq]
  omega

/-- byte-wise XOR then word assembly = word assembly then word XOR. -/
theorem le32_xor (a0 a1 a2 a3 b0 b1 b2 b3 : Byte) :
    le32 (a0 ^^^ b0) (a1 ^^^ b1) (a2 ^^^ b2) (a3 ^^^ b3) = le32 a0 a1 a2 a3 ^^^ le32 b0 b1 b2 b3 := by
  simp only [le32_eq_append]
  show (((a3 ^^^ b3) ++ (a2 ^^^ b2) ++ (a1 ^^^ b1) ++ (a0 ^^^ b0) : BitVec (8+8+8+8))) =
    ((a3 ++ a2 ++ a1 ++ a0 : BitVec (8+8+8+8)) ^^^ (b3 ++ b2 ++ b1 ++ b0 : BitVec (8+8+8+8)))
  simp only [BitVec.xor_append]

/-- XOR two byte strings position-wise (result has the length of the first). -/
def xorBytes : Bytes → Bytes → Bytes
  | [], _ => []
  | a :: as, [] => a :: as
  | a :: as, b :: bs => (a ^^^ b) :: xorBytes as bs

end Cascette
