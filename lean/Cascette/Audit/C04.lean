import Cascette.Props.C04
import Cascette.Proofs.ArchiveTie
open Cascette.Props.C04
#print axioms read_ok_iff_mapped
#print axioms archive_write_read_any_mode
#print axioms read_after_writes
#print axioms written_object_read_back
#print axioms container_content_agnostic
#print axioms truncated_never_for_written
#print axioms remapFixed_remapsOnChange
#print axioms read_after_writes_pinned_counterexample
#print axioms read_after_writes_fixed_witness
#print axioms installation_reopen_loses_index
#print axioms installation_read_eq_written_partial
#print axioms installation_double_decode_pinned_witness
#print axioms installation_blte_shaped_fixed_witness
#print axioms installation_read_eq_written
#print axioms installation_written_object_read_back
#print axioms open_then_initialize_is_reopen
#print axioms installation_data_never_lost
#print axioms uninitialized_write_truncated_pinned
#print axioms archive_write_without_open_truncated_pinned
#print axioms archive_write_without_open_appends
#print axioms uninitialized_write_replaces_bucket
#print axioms write_limits_are_placeAt
#print axioms no_limit_at_1GiB
#print axioms idx_offset_cut_to_30_bits
#print axioms offset_past_1GiB_wraps_after_reopen
#print axioms idx_offset_wrap_witness
#print axioms tabulated_steps_are_the_model
#print axioms chunked_steps_are_the_model
#print axioms update_section_overflow_entry_survives_reopen_witness
-- translator tie: constants / predicates extracted from the current Rust source (lib/rs2lean_archive.py) = what the model computes with
#print axioms Cascette.Proofs.ArchiveTie.header_size_tie
#print axioms Cascette.Proofs.ArchiveTie.archive_limits_tie
#print axioms Cascette.Proofs.ArchiveTie.remap_tie
#print axioms Cascette.Proofs.ArchiveTie.remap_src_remapsOnChange
#print axioms Cascette.Proofs.ArchiveTie.create_tie
#print axioms Cascette.Proofs.ArchiveTie.write_file_tie
#print axioms Cascette.Proofs.ArchiveTie.read_bounds_tie
#print axioms Cascette.Proofs.ArchiveTie.sniff_tie
#print axioms Cascette.Proofs.ArchiveTie.placeAt_tie
#print axioms Cascette.Proofs.ArchiveTie.offset_check_order_tie
#print axioms Cascette.Proofs.ArchiveTie.localHeader_tie
#print axioms Cascette.Proofs.ArchiveTie.layout_tie
#print axioms Cascette.Proofs.ArchiveTie.localHeader_shape
#print axioms Cascette.Proofs.ArchiveTie.idx_offset_tie
