import Cascette.Props.C16
open Cascette.Props.C16
#print axioms patchers_eq_spec
#print axioms patchers_agree
#print axioms apply_length_or_error
#print axioms emit_step
#print axioms simple_correct
#print axioms simple_total
#print axioms chunked_correct
#print axioms suffix_correct
#print axioms search_in_bounds
#print axioms suffix_real_search_correct
#print axioms pinned_chunked_ctl
#print axioms pinned_chunked_wrong_bytes
#print axioms pinned_chunked_empty_new_fails
#print axioms pinned_chunked_partial
#print axioms codec_roundtrip
#print axioms simple_bytes_roundtrip
#print axioms chunked_bytes_roundtrip
#print axioms suffix_bytes_roundtrip
#print axioms chunked_total
#print axioms stream_caller_size_witness
#print axioms stream_length_is_callers_partial
