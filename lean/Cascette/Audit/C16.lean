import Cascette.Props.C16
import Cascette.Proofs.ZbsdiffTie
open Cascette.Props.C16
#print axioms patchers_eq_spec
#print axioms patchers_agree
#print axioms apply_length_or_error
#print axioms emit_step
#print axioms simple_correct
#print axioms simple_total
#print axioms chunked_correct
#print axioms suffix_correct
#print axioms search_in_bounds
#print axioms suffix_real_search_correct
#print axioms pinned_chunked_ctl
#print axioms pinned_chunked_wrong_bytes
#print axioms pinned_chunked_empty_new_fails
#print axioms pinned_chunked_partial
#print axioms codec_roundtrip
#print axioms simple_bytes_roundtrip
#print axioms chunked_bytes_roundtrip
#print axioms suffix_bytes_roundtrip
#print axioms chunked_total
#print axioms stream_caller_size_witness
#print axioms stream_length_is_callers_partial
-- whole patch bytes: header + zlib framing (zlib a parameter)
#print axioms storeZ_lawful
#print axioms header_roundtrip
#print axioms container_roundtrip
#print axioms container_parse_build
#print axioms patch_bytes_blocks
#print axioms simple_patch_bytes_roundtrip
#print axioms chunked_patch_bytes_roundtrip
#print axioms suffix_patch_bytes_roundtrip
#print axioms suffix_real_patch_bytes_roundtrip
#print axioms suffix_any_block_size_patch_bytes_roundtrip
#print axioms build_bytes_total
#print axioms apply_patch_bytes_length_or_error
#print axioms patch_bytes_patchers_agree
#print axioms apply_patch_bytes_eq_applyBytes
-- control-entry codec at the i64 limits
#print axioms offtout_i64_roundtrip
#print axioms offtout_i64_min_witness
#print axioms offtin_negative_zero
#print axioms offtin_never_min
#print axioms codec_canonical
-- streaming patcher over a short-reading Read + Seek source
#print axioms read_exact_short_reads
#print axioms stream_short_reads_agree
#print axioms short_reads_bytes_agree
#print axioms stream_unseekable_fails
-- Rust -> Lean tie (lib/rs2lean_zbsdiff.py, Generated/ZbsdiffSrc)
#print axioms Cascette.Proofs.ZbsdiffTie.signature_tie
#print axioms Cascette.Proofs.ZbsdiffTie.endianness_tie
#print axioms Cascette.Proofs.ZbsdiffTie.layout_tie
#print axioms Cascette.Proofs.ZbsdiffTie.limits_tie
#print axioms Cascette.Proofs.ZbsdiffTie.header_valid_tie
#print axioms Cascette.Proofs.ZbsdiffTie.entry_guard_tie
#print axioms Cascette.Proofs.ZbsdiffTie.record_loop_tie
#print axioms Cascette.Proofs.ZbsdiffTie.record_tie
#print axioms Cascette.Proofs.ZbsdiffTie.sign_mask_tie
#print axioms Cascette.Proofs.ZbsdiffTie.chunked_params_tie
#print axioms Cascette.Proofs.ZbsdiffTie.chunked_step_tie
#print axioms Cascette.Proofs.ZbsdiffTie.default_block_tie
#print axioms Cascette.Proofs.ZbsdiffTie.optimized_builder_tie
#print axioms Cascette.Proofs.ZbsdiffTie.buffer_tie
#print axioms Cascette.Proofs.ZbsdiffTie.block_order_tie
