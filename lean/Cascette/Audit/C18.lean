import Cascette.Props.C18
open Cascette.Props.C18
#print axioms validate_iff_disjoint
#print axioms validate_sorts
#print axioms refuse_leaves_file
#print axioms mover_buffer_sizing
#print axioms chunked_forward_copy_safe
#print axioms compact_in_place_safe
#print axioms chunked_move_data_safe
#print axioms compact_empty_set_counterexample
#print axioms compact_empty_set_noop
#print axioms compact_eq_concat_live_partial
#print axioms live_bytes_fit
#print axioms bytes_saved_truthful
#print axioms plan_never_panics
#print axioms plan_no_clobber
#print axioms plan_moves_disjoint
#print axioms plan_within_size
#print axioms plan_src_ne_dst
#print axioms plan_moves_whole_frozen_sources
#print axioms plan_sources_moved_once
#print axioms plan_total_truthful
#print axioms archive_compact_keeps_written
#print axioms archive_compact_noop_on_reachable
