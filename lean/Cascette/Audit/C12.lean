import Cascette.Props.C12
open Cascette.Props.C12
#print axioms ml_get_first_holder
#print axioms ml_getv_first_holder
#print axioms ml_found_in_lower_only
#print axioms ml_put_to_layer_found
#print axioms ml_remove_all_layers
#print axioms ml_clear_all_layers
#print axioms ml_absent_get_none
#print axioms ml_absent_preserved
#print axioms ml_removed_not_served
#print axioms ml_cleared_not_served
#print axioms ml_getv_none_eq_get
#print axioms ml_batch_get_eq_gets
#print axioms ml_batch_put_eq_puts
#print axioms ml_validation_sound
#print axioms ml_validation_sound_md5
#print axioms ml_putv_sound
#print axioms ml_corrupt_dropped_everywhere
#print axioms ml_corrupt_not_served_later
#print axioms ml_no_self_deadlock
#print axioms ml_self_deadlock_pinned
#print axioms ml_latest_put_counterexample
#print axioms ml_shadowed_counterexample
#print axioms ml_latest_put_partial
#print axioms ml_get_latest_or_none_partial
