import Cascette.Props.C09
import Cascette.Proofs.CryptoTie
open Cascette.Props.C09
#print axioms salsa20_model_eq_spec
#print axioms salsa20_iv_len_guard
#print axioms salsa20_decrypt_encrypt
#print axioms salsa20_piecewise
#print axioms salsa20_length
#print axioms hashlittle2_eq_spec
#print axioms hashlittle_eq_spec
#print axioms jenkins96_parts
#print axioms arc4_key_len_guard
#print axioms arc4_decrypt_encrypt
#print axioms arc4_piecewise
#print axioms simd_memcmp_eq_scalar
#print axioms simd_mem_equal_eq_scalar
#print axioms simd_memmem_eq_scalar
#print axioms simd_memset_eq_scalar
#print axioms simd_memcpy_eq_scalar
-- translator tie: definitions generated from the current Rust source = model definitions
#print axioms Cascette.Proofs.CryptoTie.quarter_round_tie
#print axioms Cascette.Proofs.CryptoTie.round_body_tie
#print axioms Cascette.Proofs.CryptoTie.generate_tie
#print axioms Cascette.Proofs.CryptoTie.generate_idioms_tie
#print axioms Cascette.Proofs.CryptoTie.refill_tie
#print axioms Cascette.Proofs.CryptoTie.init_state_tie
#print axioms Cascette.Proofs.CryptoTie.mix_tie
#print axioms Cascette.Proofs.CryptoTie.final_mix_tie
#print axioms Cascette.Proofs.CryptoTie.hashlittle_block_tie
#print axioms Cascette.Proofs.CryptoTie.hashlittle2_block_tie
#print axioms Cascette.Proofs.CryptoTie.hashlittle_tail_tie
#print axioms Cascette.Proofs.CryptoTie.hashlittle2_tail_tie
#print axioms Cascette.Proofs.CryptoTie.hashlittle_init_tie
#print axioms Cascette.Proofs.CryptoTie.hashlittle2_init_tie
