import Cascette.Props.C09
import Cascette.Proofs.CryptoTie
open Cascette.Props.C09
#print axioms salsa20_model_eq_spec
#print axioms salsa20_iv_len_guard
#print axioms salsa20_decrypt_encrypt
#print axioms salsa20_piecewise
#print axioms salsa20_length
#print axioms salsa20_ecrypt_known_answer
#print axioms hashlittle2_eq_spec
#print axioms hashlittle_eq_spec
#print axioms jenkins96_parts
#print axioms or_top_bit
#print axioms checksum_a_def
#print axioms hash_guard_def
#print axioms arc4_key_len_guard
#print axioms arc4_decrypt_encrypt
#print axioms arc4_piecewise
#print axioms arc4_model_eq_spec
#print axioms arc4_stream_eq_spec
#print axioms arc4_index_in_bounds
#print axioms arc4_sbox_permutation
#print axioms rc4_spec_permutation
#print axioms rc4_spec_known_answers
#print axioms simd_memcmp_eq_scalar
#print axioms simd_mem_equal_eq_scalar
#print axioms simd_memmem_eq_scalar
#print axioms simd_memset_eq_scalar
#print axioms simd_memcpy_eq_scalar
-- translator tie: definitions generated from the current Rust source = model definitions
#print axioms Cascette.Proofs.CryptoTie.quarter_round_tie
#print axioms Cascette.Proofs.CryptoTie.round_body_tie
#print axioms Cascette.Proofs.CryptoTie.generate_tie
#print axioms Cascette.Proofs.CryptoTie.generate_idioms_tie
#print axioms Cascette.Proofs.CryptoTie.refill_tie
#print axioms Cascette.Proofs.CryptoTie.init_state_tie
#print axioms Cascette.Proofs.CryptoTie.mix_tie
#print axioms Cascette.Proofs.CryptoTie.final_mix_tie
#print axioms Cascette.Proofs.CryptoTie.hashlittle_block_tie
#print axioms Cascette.Proofs.CryptoTie.hashlittle2_block_tie
#print axioms Cascette.Proofs.CryptoTie.hashlittle_tail_tie
#print axioms Cascette.Proofs.CryptoTie.hashlittle2_tail_tie
#print axioms Cascette.Proofs.CryptoTie.hashlittle_init_tie
#print axioms Cascette.Proofs.CryptoTie.hashlittle2_init_tie
-- translator tie, extension: ARC4 KSA/PRGA/apply_keystream, Salsa20 apply_keystream loop, hashlittle control flow
#print axioms Cascette.Proofs.CryptoTie.slice_swap_tie
#print axioms Cascette.Proofs.CryptoTie.arc4_next_tie
#print axioms Cascette.Proofs.CryptoTie.arc4_init_tie
#print axioms Cascette.Proofs.CryptoTie.arc4_ksa_tie
#print axioms Cascette.Proofs.CryptoTie.arc4_new_tie
#print axioms Cascette.Proofs.CryptoTie.arc4_apply_tie
#print axioms Cascette.Proofs.CryptoTie.arc4_idioms_tie
#print axioms Cascette.Proofs.CryptoTie.salsa_apply_body_tie
#print axioms Cascette.Proofs.CryptoTie.salsa_apply_tie
#print axioms Cascette.Proofs.CryptoTie.hashlittle_len_tie
#print axioms Cascette.Proofs.CryptoTie.hashlittle_assembly_tie
#print axioms Cascette.Proofs.CryptoTie.hashlittle2_assembly_tie
