import Cascette.Props.C09
open Cascette.Props.C09
#print axioms salsa20_model_eq_spec
#print axioms salsa20_iv_len_guard
#print axioms salsa20_decrypt_encrypt
#print axioms salsa20_piecewise
#print axioms salsa20_length
#print axioms hashlittle2_eq_spec
#print axioms hashlittle_eq_spec
#print axioms jenkins96_parts
#print axioms arc4_key_len_guard
#print axioms arc4_decrypt_encrypt
#print axioms arc4_piecewise
