import Cascette.Props.C01
import Cascette.Proofs.BlteTie
open Cascette.Props.C01
#print axioms blte_roundtrip_full_counterexample
#print axioms blte_roundtrip_partial
#print axioms blte_roundtrip
#print axioms blte_table_truthful
#print axioms blte_error_not_garbage
#print axioms zero_chunk_size_rejected
#print axioms unusable_mode_rejected
#print axioms payload_mode_byte_irrelevant
#print axioms empty_encrypted_decodes
#print axioms blte_parse_serialize
#print axioms chunking_covers_payload
#print axioms compress_roundtrip
#print axioms compress_table_truthful
#print axioms compress_is_builder_program
#print axioms compress_zero_chunk_size_rejected
#print axioms single_chunk_roundtrip
#print axioms multi_chunk_roundtrip
#print axioms multi_chunk_extended_roundtrip
#print axioms blte_decompress_without_keys
#print axioms frame_mode_rejected_by_encoder
#print axioms frame_chunk_rejected_by_decoder
#print axioms frame_container_rejected
#print axioms nested_mode_byte_rejected
#print axioms nested_container_is_content
-- translator tie: header arithmetic / wire constants extracted from the current Rust source = what the model computes with
#print axioms Cascette.Proofs.BlteTie.magic_tie
#print axioms Cascette.Proofs.BlteTie.mode_byte_tie
#print axioms Cascette.Proofs.BlteTie.header_size_tie
#print axioms Cascette.Proofs.BlteTie.build_header_size_tie
#print axioms Cascette.Proofs.BlteTie.header_size_ext_tie
#print axioms Cascette.Proofs.BlteTie.chunk_count_limit_tie
#print axioms Cascette.Proofs.BlteTie.count_bytes_tie
#print axioms Cascette.Proofs.BlteTie.count_read_tie
#print axioms Cascette.Proofs.BlteTie.table_flag_tie
#print axioms Cascette.Proofs.BlteTie.table_flag_read_tie
#print axioms Cascette.Proofs.BlteTie.row_size_tie
#print axioms Cascette.Proofs.BlteTie.default_chunk_size_tie
#print axioms Cascette.Proofs.BlteTie.enc_floor_tie
#print axioms Cascette.Proofs.BlteTie.enc_header_tie
