import Cascette.Props.C01
open Cascette.Props.C01
#print axioms blte_roundtrip_full_counterexample
#print axioms blte_roundtrip_partial
#print axioms blte_roundtrip
#print axioms blte_table_truthful
#print axioms blte_error_not_garbage
#print axioms zero_chunk_size_rejected
#print axioms unusable_mode_rejected
#print axioms payload_mode_byte_irrelevant
#print axioms empty_encrypted_decodes
#print axioms blte_parse_serialize
#print axioms chunking_covers_payload
