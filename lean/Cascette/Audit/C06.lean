import Cascette.Props.C06
open Cascette.Props.C06
#print axioms atomic_replace_crash_safe
#print axioms atomic_replace_complete
#print axioms save_index_crash_safe
#print axioms save_index_failure_keeps_old
#print axioms save_all_per_bucket_crash_safe
#print axioms residency_save_crash_safe
#print axioms disk_cache_write_crash_safe
#print axioms lru_checkpoint_crash_safe
#print axioms lru_checkpoint_complete
#print axioms lru_checkpoint_pinned_counter
#print axioms idx_tmp_not_index_name
#print axioms lru_tmp_not_generation_name
#print axioms disk_cache_tmp_suffix_counter
#print axioms disk_cache_leftover_tmp_counter
#print axioms journal_torn_header_counter
#print axioms journal_torn_entry_counter
#print axioms journal_unsynced_counter
#print axioms journal_record_torn_write_safe_partial
#print axioms cutAt_is_cut
#print axioms dirImage_sound
#print axioms dirImage_asis_sound
