import Cascette.Props.C08
open Cascette.Props.C08
#print axioms fixed_point_of_laws
#print axioms install_parse_build
#print axioms install_parse_wf
#print axioms install_accepted_is_own_rebuild
#print axioms install_fixed_point
#print axioms zbs_parse_build
#print axioms zbs_parse_wf
#print axioms zbs_accepted_is_own_rebuild
#print axioms zbs_fixed_point
#print axioms size_parse_build
#print axioms size_parse_wf
#print axioms size_accepted_is_own_rebuild
#print axioms size_fixed_point
#print axioms size_overwide_esize_rejected_by_validate
#print axioms root_accepted_not_rebuildable_witness
#print axioms root_build_some_partial
