import Cascette.Props.C08
open Cascette.Props.C08
#print axioms fixed_point_of_laws
#print axioms install_parse_build
#print axioms install_parse_wf
#print axioms install_accepted_is_own_rebuild
#print axioms install_fixed_point
#print axioms zbs_parse_build
#print axioms zbs_parse_wf
#print axioms zbs_accepted_is_own_rebuild
#print axioms zbs_fixed_point
