import Cascette.Props.C17
open Cascette.Props.C17

#print axioms lru_refines_textbook_counter
#print axioms lru_iter_zero_key_counter
#print axioms lru_refines_textbook_partial
#print axioms lru_refines_textbook_no_reload
#print axioms len_le_cap
#print axioms no_capacity_loss
#print axioms touch_present_mru
#print axioms reload_id_counter
#print axioms reload_id_partial
#print axioms latest_is_loadable
#print axioms lru_file_codec_roundtrip
#print axioms ptr_zero_key_reload_witness
#print axioms ptr_refines_seq
#print axioms ptr_no_capacity_loss
#print axioms ptr_touch_present_mru
#print axioms ptr_refines_textbook_no_reload
#print axioms ptr_refines_textbook_partial
#print axioms ptr_refines_seq_full
#print axioms ptr_refines_textbook_full
#print axioms ptr_no_capacity_loss_full
#print axioms ptr_reload_id_partial
#print axioms ptr_touch_present_mru_full
#print axioms ptr_checkpoint_file_wellformed
#print axioms reload_sees_last_checkpoint_counter
#print axioms reload_sees_last_checkpoint_counter_reopen
#print axioms reload_sees_last_checkpoint_partial
#print axioms reset_keeps_generation
#print axioms ptr_refines_textbook_full_shutdown
#print axioms ptr_reload_sees_last_checkpoint
