import Cascette.Props.C14
open Cascette.Props.C14
#print axioms attempts_le_max_plus_one
#print axioms attempts_eq_spec
#print axioms sleeps_le_max_attempts
#print axioms one_sleep_between_attempts
#print axioms stops_at_first_ok
#print axioms stops_at_first_fatal
#print axioms returns_last_error
#print axioms result_is_last_attempt
#print axioms never_reads_past_decision
#print axioms delay_is_hint_or_backoff
#print axioms backoff_le_max
#print axioms backoff_nondecreasing
#print axioms delay_bounds
#print axioms hint_only_from_rate_limited
#print axioms no_panic
#print axioms terminates
#print axioms pinned_first_delay_exceeds_max
#print axioms pinned_panics_on_rejected_product
#print axioms pinned_panics_on_jitter_overflow
#print axioms fromEnv_ranges
#print axioms fromEnv_every_value_reachable
#print axioms fromEnv_unset_is_default
#print axioms env_policy_safe
#print axioms cdn_status_retry_iff
#print axioms cdn_client_error_single_request
#print axioms cdn_at_most_four_requests
