import Cascette.Props.C11
open Cascette.Props.C11
#print axioms mem_books_pending
#print axioms mem_books_quiescent_partial
#print axioms mem_get_reads_some_put
#print axioms mem_expired_get_deletes_fresh_put_witness
#print axioms mem_counter_drift_expired_race_witness
#print axioms mem_clear_races_put_witness
