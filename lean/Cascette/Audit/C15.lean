import Cascette.Props.C15
open Cascette.Props.C15
#print axioms client_reads_server_versions_partial
#print axioms client_reads_server_cdns_partial
#print axioms client_reads_server_summary_partial
#print axioms newest_is_max_build_time
#print axioms newest_first_among_equals
#print axioms v1_checksum_verifies
#print axioms v1_checksum_rejects
#print axioms malformed_closed
#print axioms unknown_product_closed
#print axioms clean_instance
#print axioms witness_pipe
#print axioms witness_linebreak
#print axioms witness_build_not_i64
#print axioms witness_keyring_not_hex
#print axioms witness_edge_blank
#print axioms witness_summary_hash
#print axioms witness_mime_lookalike
#print axioms witness_seqn_overflow
#print axioms witness_boundary
