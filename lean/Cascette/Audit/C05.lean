import Cascette.Props.C05
open Cascette.Props.C05
#print axioms index_refines_map
#print axioms index_refines_map_partial
#print axioms index_refines_map_durable
#print axioms reload_is_last_write
#print axioms reload_without_save_witness
#print axioms iter_agrees_with_lookup
#print axioms flush_preserves_abs
#print axioms merge_sorted_distinct
#print axioms bsearch_finds
#print axioms append_full_iff
#print axioms pack_unpack
#print axioms pack_masks_beyond_limits
#print axioms save_load_id
#print axioms idx_parse_serialise
#print axioms save_load_id_bytes
#print axioms idx_layout
#print axioms idx_empty_file_bytes
#print axioms load_sort_is_stable
#print axioms zero_key_lost_on_reload
#print axioms wide_id_on_reload
#print axioms remove_pinned_lies
#print axioms remove_fixed_witness
#print axioms residency_refines_map
#print axioms scan_keys_no_duplicates
#print axioms residency_count_counts_span
