import Cascette.Props.C03
open Cascette.Props.C03
#print axioms paged_find_eq_lookup
#print axioms all_flavours_eq_linear_scan
#print axioms batch_eq_map_single
#print axioms enc_find_encoding_eq_lookup
#print axioms enc_find_espec_eq_lookup
#print axioms enc_batch_eq_lookup
#print axioms enc_zero_ekey_counter_witness
#print axioms toc_search_sound
#print axioms block_search_eq_linear_scan
#print axioms toc_search_complete
#print axioms toc_search_eq_lookup
#print axioms group_find_eq_linear_scan
#print axioms root_header_roundtrip_partial
#print axioms root_ext_header_roundtrip
#print axioms root_header_ambiguity_counter_witness
#print axioms fdid_delta_roundtrip
#print axioms root_parse_build
#print axioms root_resolve_eq_inserted
#print axioms root_lookup_entries_eq_inserted
#print axioms root_own_flags_lookup_hits
#print axioms resolver_chain
#print axioms tvfs_path_roundtrip_partial
#print axioms tvfs_name_255_counter_witness
