import Cascette.Props.C02
open Cascette.Props.C02
#print axioms blte_no_panic
#print axioms blte_alloc_bounded
#print axioms blte_capped_bounded
#print axioms blte_table_rows_fit
#print axioms encoding_no_panic
#print axioms encoding_alloc_bounded
#print axioms install_no_panic
#print axioms install_alloc_bounded
#print axioms download_no_panic
#print axioms download_alloc_bounded
#print axioms size_no_panic
#print axioms size_alloc_bounded
#print axioms pindex_no_panic_alloc_bounded
#print axioms zbsdiff_no_panic
#print axioms zbsdiff_alloc_bounded
#print axioms tvfs_depth_bounded
#print axioms tvfs_nest_600_refused
#print axioms shmem_pid_no_panic_alloc_bounded
#print axioms idx_no_panic_alloc_bounded_loop_advances
#print axioms aidx_footer_no_panic
#print axioms aidx_footer_former_witness_rejected
#print axioms aidx_footer_no_panic_partial
