/-
Proofs/DiskConc — invariants of the interleaving model of DiskCache (Model/DiskConc).

1. books: `index.insert/remove` and the counter arithmetic of put / remove / the not-indexed
   path of get happen in ONE step (under the index write lock), so `entry_count = |index|` and
   `disk_usage = Σ size` hold at every moment of every schedule of put / contains / remove
   programs, whatever the file names are (shared temporary names included).
2. puts by threads that own disjoint file names: every step of a thread leaves the names,
   inodes and index entries of the other threads alone, so no rename fails and after each put
   the index entry and the file are the value put.
-/
import Cascette.Model.DiskConc
import Cascette.Proofs.MemConc
namespace Cascette.Proofs.DiskConc
open Cascette.Spec.CacheMap (Key Val)
open Cascette.Spec.Interleave
open Cascette.Model.CacheAssoc Cascette.Proofs.CacheAssoc
open Cascette.Model.DiskConc
open Cascette.Proofs.MemConc (stepAt_cases runSched_inv mem_of_getElem?)

variable (L : Layout)

def sizeSum (ix : Index) : Nat := sumBy (fun e : DEntry => e.size) ix

/-- the books are right: `entry_count` = number of index entries, `disk_usage` = sum of sizes -/
structure DBooks (s : State) : Prop where
  nodup : NoDup s.index
  count : s.count = (s.index.length : Int)
  bytes : s.bytes = (sizeSum s.index : Int)

theorem books_indexPut {s : State} (a : PutArgs) (h : DBooks s) : DBooks (indexPut s a) := by
  unfold indexPut
  cases hl : lookup a.k s.index with
  | some old =>
    have h1 := length_erase h.nodup hl
    have h2 := sumBy_erase (fun e : DEntry => e.size) h.nodup hl
    refine ⟨nodup_cons_erase _ h.nodup, ?_, ?_⟩
    · show s.count = (((a.k, _) :: erase a.k s.index).length : Int)
      rw [h.count, List.length_cons]; omega
    · show s.bytes + (((a.v.length : Nat) : Int) - (old.size : Int)) = (sizeSum ((a.k, _) :: erase a.k s.index) : Int)
      rw [h.bytes]; unfold sizeSum at *; rw [sumBy_cons]; simp only at h2 ⊢; omega
  | none =>
    have h1 : erase a.k s.index = s.index := erase_of_lookup_none hl
    refine ⟨nodup_cons_erase _ h.nodup, ?_, ?_⟩
    · show s.count + 1 = (((a.k, _) :: erase a.k s.index).length : Int)
      rw [h.count, h1, List.length_cons]; omega
    · show s.bytes + ((a.v.length : Nat) : Int) = (sizeSum ((a.k, _) :: erase a.k s.index) : Int)
      rw [h.bytes, h1]; unfold sizeSum; rw [sumBy_cons]; simp only; omega

/-- operations / program counters outside `get` (whose removal paths decrement by what the get
saw earlier — see the witnesses in Props/C11) -/
def OpNG : Op → Prop
  | .get _ => False
  | _ => True

instance (op : Op) : Decidable (OpNG op) := by cases op <;> unfold OpNG <;> infer_instance

def PcNG : Pc → Prop
  | .gExpired _ _ => False
  | .gRead _ _ => False
  | .gTouch _ _ => False
  | _ => True

def ThreadNG (t : Thread) : Prop := PcNG t.pc ∧ ∀ op ∈ t.todo, OpNG op

theorem startOp_books {s : State} {op : Op} (h : DBooks s) (hop : OpNG op) :
    DBooks (startOp L s op).1 ∧ PcNG (startOp L s op).2.1 := by
  cases op with
  | get k => cases hop
  | contains k =>
    simp only [startOp]
    split <;> exact ⟨h, trivial⟩
  | put k v sh => exact ⟨h, trivial⟩
  | remove k =>
    simp only [startOp]
    split
    case h_2 hl => exact ⟨⟨h.nodup, h.count, h.bytes⟩, trivial⟩
    case h_1 e hl =>
      have h1 := length_erase h.nodup hl
      have h2 := sumBy_erase (fun e : DEntry => e.size) h.nodup hl
      refine ⟨⟨nodup_erase h.nodup, ?_, ?_⟩, trivial⟩
      · show s.count - 1 = ((erase k s.index).length : Int)
        rw [h.count]; omega
      · show s.bytes - (e.size : Int) = (sizeSum (erase k s.index) : Int)
        rw [h.bytes]; unfold sizeSum; omega

theorem contOp_books {s : State} {pc : Pc} (h : DBooks s) (hpc : PcNG pc) :
    DBooks (contOp L s pc).1 ∧ PcNG (contOp L s pc).2.1 := by
  cases pc with
  | idle => exact ⟨h, trivial⟩
  | gExpired k sz => cases hpc
  | gRead k sz => cases hpc
  | gTouch k v => cases hpc
  | pOpen a => exact ⟨⟨h.nodup, h.count, h.bytes⟩, trivial⟩
  | pWrite a i => exact ⟨⟨h.nodup, h.count, h.bytes⟩, trivial⟩
  | pRename a =>
    simp only [contOp]
    split
    · exact ⟨⟨h.nodup, h.count, h.bytes⟩, trivial⟩
    · exact ⟨h, trivial⟩
  | pIndex a => exact ⟨books_indexPut a h, trivial⟩

theorem step_idle_nil {s : State} {t : Thread} (hpc : t.pc = .idle) (htd : t.todo = []) :
    step L s t = (s, t, []) := by
  unfold step; rw [if_pos hpc, htd]

theorem step_idle_cons {s : State} {t : Thread} {op : Op} {rest : List Op} (hpc : t.pc = .idle)
    (htd : t.todo = op :: rest) :
    step L s t = ((startOp L s op).1,
      { pc := (startOp L s op).2.1, todo := rest,
        results := t.results ++ (startOp L s op).2.2.map (fun o => (op, o)) }, []) := by
  unfold step; rw [if_pos hpc, htd]

theorem step_cont {s : State} {t : Thread} (hpc : t.pc ≠ .idle) :
    step L s t = ((contOp L s t.pc).1,
      { pc := (contOp L s t.pc).2.1, todo := t.todo,
        results := t.results ++ (match pcOp t.pc with
                                 | some op => (contOp L s t.pc).2.2.map (fun o => (op, o))
                                 | none => []) }, []) := by
  unfold step; rw [if_neg hpc]; rfl

theorem step_books {s : State} {t : Thread} (h : DBooks s) (ht : ThreadNG t) :
    DBooks (step L s t).1 ∧ ThreadNG (step L s t).2.1 := by
  by_cases hpc : t.pc = .idle
  · cases htd : t.todo with
    | nil => rw [step_idle_nil L hpc htd]; exact ⟨h, ht⟩
    | cons op rest =>
      rw [step_idle_cons L hpc htd]
      have hop : OpNG op := ht.2 op (by rw [htd]; exact List.mem_cons_self)
      have := startOp_books L h hop
      exact ⟨this.1, this.2, fun o ho => ht.2 o (by rw [htd]; exact List.mem_cons_of_mem _ ho)⟩
  · rw [step_cont L hpc]
    have := contOp_books L h ht.1
    exact ⟨this.1, this.2, ht.2⟩

structure BInv (y : Sys State Thread Unit) : Prop where
  books : DBooks y.shared
  ok : ∀ t ∈ y.threads, ThreadNG t

theorem binv_stepAt (y : Sys State Thread Unit) (i : Nat) (h : BInv y) :
    BInv (stepAt (machine L) y i) := by
  rcases stepAt_cases (machine L) y i with heq | ⟨t, hget, _, heq⟩
  · rw [heq]; exact h
  · rw [heq]
    have hst := step_books L h.books (h.ok t (mem_of_getElem? hget))
    refine ⟨hst.1, ?_⟩
    intro u hu
    rcases List.mem_or_eq_of_mem_set hu with hu | rfl
    · exact h.ok u hu
    · exact hst.2

theorem binv_sys {s0 : State} {progs : List (List Op)} (hb : DBooks s0)
    (hp : ∀ p ∈ progs, ∀ op ∈ p, OpNG op) : BInv (sys s0 progs) := by
  refine ⟨hb, ?_⟩
  intro t ht
  obtain ⟨p, hp', rfl⟩ := List.mem_map.mp ht
  exact ⟨trivial, hp p hp'⟩

/-! ## the directory: well-formedness and what each call leaves alone -/

structure FsOk (fs : Fs) : Prop where
  valid : ∀ p i, lookup p fs.dir = some i → i < fs.inodes.length
  inj : ∀ p p' i, lookup p fs.dir = some i → lookup p' fs.dir = some i → p = p'

theorem fsOk_empty : FsOk Fs.empty := ⟨fun _ _ h => (by cases h), fun _ _ _ h _ => (by cases h)⟩

/-- a call that touches only the names in `P` -/
def PathFrame (fs fs' : Fs) (P : Path → Prop) : Prop :=
  ∀ p, ¬ P p → lookup p fs'.dir = lookup p fs.dir ∧ fs'.read p = fs.read p

theorem read_eq {fs : Fs} {p : Path} {i : Nat} (h : lookup p fs.dir = some i) : fs.read p = fs.inodes[i]? := by
  unfold Fs.read; rw [h]

theorem openTrunc_spec {fs : Fs} (p : Path) (h : FsOk fs) :
    FsOk (fs.openTrunc p).1 ∧ lookup p (fs.openTrunc p).1.dir = some (fs.openTrunc p).2 ∧
    (fs.openTrunc p).1.read p = some [] ∧ PathFrame fs (fs.openTrunc p).1 (· = p) := by
  unfold Fs.openTrunc
  cases hl : lookup p fs.dir with
  | some i =>
    have hi := h.valid p i hl
    refine ⟨⟨?_, h.inj⟩, hl, ?_, ?_⟩
    · intro p' i' h'; simp only [List.length_set]; exact h.valid p' i' h'
    · show Fs.read { fs with inodes := fs.inodes.set i [] } p = some []
      rw [read_eq (fs := { fs with inodes := fs.inodes.set i [] }) hl]
      simp only [List.getElem?_set_self hi]
    · intro p' hp'
      refine ⟨rfl, ?_⟩
      show Fs.read { fs with inodes := fs.inodes.set i [] } p' = fs.read p'
      unfold Fs.read
      cases hl' : lookup p' fs.dir with
      | none => rfl
      | some i' =>
        have hne : i ≠ i' := fun e => hp' (h.inj p' p i' hl' (e ▸ hl))
        simp only [List.getElem?_set_ne hne]
  | none =>
    refine ⟨⟨?_, ?_⟩, lookup_cons_self _ _ _, ?_, ?_⟩
    · intro p' i' h'
      simp only [List.length_append, List.length_singleton]
      by_cases e : p' = p
      · subst e; rw [lookup_cons_self] at h'; cases h'; omega
      · rw [lookup_cons_ne e] at h'; have := h.valid p' i' h'; omega
    · intro p1 p2 i' h1 h2
      by_cases e1 : p1 = p <;> by_cases e2 : p2 = p
      · rw [e1, e2]
      · subst e1; rw [lookup_cons_self] at h1; cases h1
        rw [lookup_cons_ne e2] at h2; exact absurd (h.valid _ _ h2) (Nat.lt_irrefl _)
      · subst e2; rw [lookup_cons_self] at h2; cases h2
        rw [lookup_cons_ne e1] at h1; exact absurd (h.valid _ _ h1) (Nat.lt_irrefl _)
      · rw [lookup_cons_ne e1] at h1; rw [lookup_cons_ne e2] at h2; exact h.inj _ _ _ h1 h2
    · show Fs.read { dir := (p, fs.inodes.length) :: fs.dir, inodes := fs.inodes ++ [[]] } p = some []
      rw [read_eq (fs := { dir := (p, fs.inodes.length) :: fs.dir, inodes := fs.inodes ++ [[]] }) (lookup_cons_self _ _ _)]
      simp
    · intro p' hp'
      have hp'' : p' ≠ p := hp'
      refine ⟨lookup_cons_ne hp'' _ _, ?_⟩
      show Fs.read { dir := (p, fs.inodes.length) :: fs.dir, inodes := fs.inodes ++ [[]] } p' = fs.read p'
      unfold Fs.read
      simp only [lookup_cons_ne hp'']
      cases hl' : lookup p' fs.dir with
      | none => rfl
      | some i' =>
        have := h.valid p' i' hl'
        simp only [List.getElem?_append_left this]

theorem writeAt_spec {fs : Fs} {p : Path} {i : Nat} {old : Val} (data : Val) (h : FsOk fs)
    (hl : lookup p fs.dir = some i) (hr : fs.read p = some old) :
    FsOk (fs.writeAt i data) ∧ (fs.writeAt i data).read p = some (data ++ old.drop data.length) ∧
    PathFrame fs (fs.writeAt i data) (· = p) := by
  have hi := h.valid p i hl
  rw [read_eq hl] at hr
  unfold Fs.writeAt
  rw [hr]
  refine ⟨⟨?_, h.inj⟩, ?_, ?_⟩
  · intro p' i' h'; simp only [List.length_set]; exact h.valid p' i' h'
  · show Fs.read { fs with inodes := fs.inodes.set i (data ++ old.drop data.length) } p = _
    rw [read_eq (fs := { fs with inodes := fs.inodes.set i (data ++ old.drop data.length) }) hl]
    simp only [List.getElem?_set_self hi]
  · intro p' hp'
    refine ⟨rfl, ?_⟩
    show Fs.read { fs with inodes := fs.inodes.set i (data ++ old.drop data.length) } p' = fs.read p'
    unfold Fs.read
    cases hl' : lookup p' fs.dir with
    | none => rfl
    | some i' =>
      have hne : i ≠ i' := fun e => hp' (h.inj p' p i' hl' (e ▸ hl))
      simp only [List.getElem?_set_ne hne]

theorem rename_spec {fs : Fs} {src dst : Path} {v : Val} (h : FsOk fs) (hne : src ≠ dst)
    (hr : fs.read src = some v) :
    ∃ fs', fs.rename src dst = some fs' ∧ FsOk fs' ∧ fs'.read dst = some v ∧
      PathFrame fs fs' (fun p => p = src ∨ p = dst) := by
  unfold Fs.rename
  cases hl : lookup src fs.dir with
  | none => unfold Fs.read at hr; rw [hl] at hr; cases hr
  | some i =>
    rw [read_eq hl] at hr
    simp only [if_neg hne]
    refine ⟨_, rfl, ⟨?_, ?_⟩, ?_, ?_⟩
    · intro p' i' h'
      show i' < fs.inodes.length
      by_cases e : p' = dst
      · subst e; rw [lookup_cons_self] at h'; cases h'; exact h.valid _ _ hl
      · rw [lookup_cons_ne e] at h'
        exact h.valid _ _ (lookup_erase_some (lookup_erase_some h'))
    · have key : ∀ p2 i', p2 ≠ dst → lookup p2 ((dst, i) :: erase dst (erase src fs.dir)) = some i' →
          lookup p2 fs.dir = some i' ∧ p2 ≠ src := by
        intro p2 i' e2 h2
        rw [lookup_cons_ne e2, lookup_erase_ne e2] at h2
        refine ⟨lookup_erase_some h2, ?_⟩
        intro e; subst e; rw [lookup_erase_self] at h2; cases h2
      intro p1 p2 i' h1 h2
      by_cases e1 : p1 = dst <;> by_cases e2 : p2 = dst
      · rw [e1, e2]
      · subst e1; rw [lookup_cons_self] at h1; cases h1
        have := key p2 _ e2 h2
        exact absurd (h.inj _ _ _ this.1 hl) this.2
      · subst e2; rw [lookup_cons_self] at h2; cases h2
        have := key p1 _ e1 h1
        exact absurd (h.inj _ _ _ this.1 hl) this.2
      · exact h.inj _ _ _ (key p1 _ e1 h1).1 (key p2 _ e2 h2).1
    · show Fs.read { fs with dir := (dst, i) :: erase dst (erase src fs.dir) } dst = some v
      rw [read_eq (fs := { fs with dir := (dst, i) :: erase dst (erase src fs.dir) }) (lookup_cons_self _ _ _)]
      exact hr
    · intro p' hp'
      have e1 : p' ≠ src := fun e => hp' (Or.inl e)
      have e2 : p' ≠ dst := fun e => hp' (Or.inr e)
      have hd : lookup p' ((dst, i) :: erase dst (erase src fs.dir)) = lookup p' fs.dir := by
        rw [lookup_cons_ne e2, lookup_erase_ne e2, lookup_erase_ne e1]
      refine ⟨hd, ?_⟩
      show Fs.read { fs with dir := (dst, i) :: erase dst (erase src fs.dir) } p' = fs.read p'
      unfold Fs.read
      simp only [hd]

/-! ## puts by threads that own disjoint file names -/

variable (own : Key → Nat)

/-- what the file names must satisfy: entry names differ per key, a temporary name is never an
entry name, and only keys of one owner (thread) may share a temporary name -/
structure Sep : Prop where
  finInj : ∀ k k', L.fin k = L.fin k' → k = k'
  tmpFin : ∀ k k', L.tmp k ≠ L.fin k'
  tmpOwn : ∀ k k', L.tmp k = L.tmp k' → own k = own k'

/-- value and TTL class of the last put of `k` among the answers -/
def lastPut (rs : List (Op × Out)) (k : Key) : Option (Val × Bool) :=
  rs.foldl (fun acc r => match r.1 with
    | .put k' v sh => if k' = k then some (v, sh) else acc
    | _ => acc) none

theorem lastPut_append_put (rs : List (Op × Out)) (k k' : Key) (v : Val) (sh : Bool) (o : Out) :
    lastPut (rs ++ [(Op.put k' v sh, o)]) k = if k' = k then some (v, sh) else lastPut rs k := by
  unfold lastPut; rw [List.foldl_append]; rfl

/-- the index entry and the entry file of `k` are exactly that put -/
def Stored (s : State) (k : Key) : Option (Val × Bool) → Prop
  | none => True
  | some (v, sh) => lookup k s.index = some { size := v.length, short := sh } ∧ s.fs.read (L.fin k) = some v

def PutOwn (i : Nat) : Op → Prop
  | .put k _ _ => own k = i
  | _ => False

def pcKey : Pc → Option Key
  | .pOpen a => some a.k
  | .pWrite a _ => some a.k
  | .pRename a => some a.k
  | .pIndex a => some a.k
  | _ => none

/-- what a thread inside a put knows about its own files -/
def PcI (i : Nat) (s : State) : Pc → Prop
  | .idle => True
  | .pOpen a => own a.k = i
  | .pWrite a ino => own a.k = i ∧ lookup (L.tmp a.k) s.fs.dir = some ino ∧ s.fs.read (L.tmp a.k) = some []
  | .pRename a => own a.k = i ∧ s.fs.read (L.tmp a.k) = some a.v
  | .pIndex a => own a.k = i ∧ s.fs.read (L.fin a.k) = some a.v
  | _ => False

structure TI (i : Nat) (s : State) (t : Thread) : Prop where
  todo : ∀ op ∈ t.todo, PutOwn own i op
  pc : PcI L own i s t.pc
  res : ∀ r ∈ t.results, r.2 = Out.unit ∧ PutOwn own i r.1
  retr : ∀ k, own k = i → pcKey t.pc ≠ some k → Stored L s k (lastPut t.results k)
  lp : ∀ k, lastPut t.results k ≠ none → own k = i

/-- a step that touches only the files and the index entry of key `kk` -/
def KeyFrame (s s' : State) (kk : Key) : Prop :=
  PathFrame s.fs s'.fs (fun p => p = L.tmp kk ∨ p = L.fin kk) ∧ ∀ k, k ≠ kk → lookup k s'.index = lookup k s.index

variable {L own}

theorem stored_frame (hS : Sep L own) {s s' : State} {kk k : Key} (hf : KeyFrame L s s' kk) (hk : k ≠ kk)
    {o : Option (Val × Bool)} (h : Stored L s k o) : Stored L s' k o := by
  cases o with
  | none => trivial
  | some p =>
    obtain ⟨v, sh⟩ := p
    have hp : ¬ (L.fin k = L.tmp kk ∨ L.fin k = L.fin kk) := by
      rintro (e | e)
      · exact hS.tmpFin kk k e.symm
      · exact hk (hS.finInj _ _ e)
    exact ⟨(hf.2 k hk).trans h.1, ((hf.1 _ hp).2).trans h.2⟩

theorem pcI_frame (hS : Sep L own) {s s' : State} {kk : Key} {i : Nat} (hf : KeyFrame L s s' kk)
    (hk : own kk ≠ i) {pc : Pc} (h : PcI L own i s pc) : PcI L own i s' pc := by
  have ht : ∀ k, own k = i → ¬ (L.tmp k = L.tmp kk ∨ L.tmp k = L.fin kk) := by
    intro k hki
    rintro (e | e)
    · exact hk (by rw [← hS.tmpOwn _ _ e]; exact hki)
    · exact hS.tmpFin _ _ e
  have hfn : ∀ k, own k = i → ¬ (L.fin k = L.tmp kk ∨ L.fin k = L.fin kk) := by
    intro k hki
    rintro (e | e)
    · exact hS.tmpFin kk k e.symm
    · exact hk (by rw [← hS.finInj _ _ e]; exact hki)
  cases pc with
  | idle => trivial
  | pOpen a => exact h
  | pWrite a ino =>
    obtain ⟨h1, h2, h3⟩ := h
    exact ⟨h1, ((hf.1 _ (ht _ h1)).1).trans h2, ((hf.1 _ (ht _ h1)).2).trans h3⟩
  | pRename a => exact ⟨h.1, ((hf.1 _ (ht _ h.1)).2).trans h.2⟩
  | pIndex a => exact ⟨h.1, ((hf.1 _ (hfn _ h.1)).2).trans h.2⟩
  | gExpired k sz => cases h
  | gRead k sz => cases h
  | gTouch k v => cases h

theorem TI_frame (hS : Sep L own) {s s' : State} {kk : Key} {i : Nat} {t : Thread} (hf : KeyFrame L s s' kk)
    (hk : own kk ≠ i) (h : TI L own i s t) : TI L own i s' t :=
  ⟨h.todo, pcI_frame hS hf hk h.pc, h.res,
   fun k hki hpk => stored_frame hS hf (fun e => hk (e ▸ hki)) (h.retr k hki hpk), h.lp⟩

theorem indexPut_fs (s : State) (a : PutArgs) : (indexPut s a).fs = s.fs := by
  unfold indexPut; split <;> rfl

theorem indexPut_lookup_self (s : State) (a : PutArgs) :
    lookup a.k (indexPut s a).index = some { size := a.v.length, short := a.short } := by
  unfold indexPut; split <;> exact lookup_cons_self _ _ _

theorem indexPut_lookup_ne (s : State) (a : PutArgs) {k : Key} (hk : k ≠ a.k) :
    lookup k (indexPut s a).index = lookup k s.index := by
  unfold indexPut; split <;> (show lookup k ((a.k, _) :: erase a.k s.index) = _; rw [lookup_cons_ne hk, lookup_erase_ne hk])

/-- one step of a thread that owns its file names: the directory stays well-formed, the
thread's own invariant is re-established, and the step touched the files of one of its own
keys only -/
theorem step_TI (hS : Sep L own) {s : State} {t : Thread} {j : Nat} (hf : FsOk s.fs) (ht : TI L own j s t) :
    FsOk (step L s t).1.fs ∧ TI L own j (step L s t).1 (step L s t).2.1 ∧
    ((step L s t).1 = s ∨ ∃ kk, own kk = j ∧ KeyFrame L s (step L s t).1 kk) := by
  obtain ⟨pc, todo, results⟩ := t
  obtain ⟨htodo, hpc, hres, hretr, hlp⟩ := ht
  simp only at htodo hpc hres hretr hlp
  cases pc with
  | gExpired k sz => cases hpc
  | gRead k sz => cases hpc
  | gTouch k v => cases hpc
  | idle =>
    cases todo with
    | nil => exact ⟨hf, ⟨htodo, hpc, hres, hretr, hlp⟩, Or.inl rfl⟩
    | cons op rest =>
      have hop := htodo op List.mem_cons_self
      cases op with
      | get k => cases hop
      | contains k => cases hop
      | remove k => cases hop
      | put k v sh =>
        have hstep : step L s ⟨.idle, .put k v sh :: rest, results⟩ =
            (s, ⟨.pOpen ⟨k, v, sh⟩, rest, results ++ []⟩, []) := rfl
        rw [hstep, List.append_nil]
        refine ⟨hf, ⟨fun o ho => htodo o (List.mem_cons_of_mem _ ho), hop, hres, ?_, hlp⟩, Or.inl rfl⟩
        intro k' hk' _
        exact hretr k' hk' (by simp [pcKey])
  | pOpen a =>
    have hstep : step L s ⟨.pOpen a, todo, results⟩ =
        ({ s with fs := (s.fs.openTrunc (L.tmp a.k)).1 }, ⟨.pWrite a (s.fs.openTrunc (L.tmp a.k)).2, todo, results ++ []⟩, []) := rfl
    rw [hstep, List.append_nil]
    obtain ⟨h1, h2, h3, h4⟩ := openTrunc_spec (L.tmp a.k) hf
    have hkf : KeyFrame L s { s with fs := (s.fs.openTrunc (L.tmp a.k)).1 } a.k :=
      ⟨fun p hp => h4 p (fun e => hp (Or.inl e)), fun _ _ => rfl⟩
    refine ⟨h1, ⟨htodo, ⟨hpc, h2, h3⟩, hres, ?_, hlp⟩, Or.inr ⟨a.k, hpc, hkf⟩⟩
    intro k hk hne
    have hne' : k ≠ a.k := fun e => hne (by simp [pcKey, e])
    exact stored_frame hS hkf hne' (hretr k hk (by simp [pcKey]; exact fun e => hne' e.symm))
  | pWrite a ino =>
    have hstep : step L s ⟨.pWrite a ino, todo, results⟩ =
        ({ s with fs := s.fs.writeAt ino a.v }, ⟨.pRename a, todo, results ++ []⟩, []) := rfl
    rw [hstep, List.append_nil]
    obtain ⟨ho, hl, hr⟩ := hpc
    obtain ⟨h1, h2, h4⟩ := writeAt_spec a.v hf hl hr
    have hkf : KeyFrame L s { s with fs := s.fs.writeAt ino a.v } a.k :=
      ⟨fun p hp => h4 p (fun e => hp (Or.inl e)), fun _ _ => rfl⟩
    refine ⟨h1, ⟨htodo, ⟨ho, by simpa using h2⟩, hres, ?_, hlp⟩, Or.inr ⟨a.k, ho, hkf⟩⟩
    intro k hk hne
    have hne' : k ≠ a.k := fun e => hne (by simp [pcKey, e])
    exact stored_frame hS hkf hne' (hretr k hk (by simp [pcKey]; exact fun e => hne' e.symm))
  | pRename a =>
    obtain ⟨ho, hr⟩ := hpc
    obtain ⟨fs', hren, h1, h2, h4⟩ := rename_spec (dst := L.fin a.k) hf (hS.tmpFin a.k a.k) hr
    have hstep : step L s ⟨.pRename a, todo, results⟩ =
        ({ s with fs := fs' }, ⟨.pIndex a, todo, results ++ []⟩, []) := by
      simp only [step, contOp, hren, pcOp]
      rfl
    rw [hstep, List.append_nil]
    have hkf : KeyFrame L s { s with fs := fs' } a.k := ⟨h4, fun _ _ => rfl⟩
    refine ⟨h1, ⟨htodo, ⟨ho, h2⟩, hres, ?_, hlp⟩, Or.inr ⟨a.k, ho, hkf⟩⟩
    intro k hk hne
    have hne' : k ≠ a.k := fun e => hne (by simp [pcKey, e])
    exact stored_frame hS hkf hne' (hretr k hk (by simp [pcKey]; exact fun e => hne' e.symm))
  | pIndex a =>
    have hstep : step L s ⟨.pIndex a, todo, results⟩ =
        (indexPut s a, ⟨.idle, todo, results ++ [(.put a.k a.v a.short, .unit)]⟩, []) := rfl
    rw [hstep]
    obtain ⟨ho, hr⟩ := hpc
    have hkf : KeyFrame L s (indexPut s a) a.k :=
      ⟨fun p _ => by rw [indexPut_fs]; exact ⟨rfl, rfl⟩, fun k hk => indexPut_lookup_ne s a hk⟩
    refine ⟨by rw [indexPut_fs]; exact hf, ⟨htodo, trivial, ?_, ?_, ?_⟩, Or.inr ⟨a.k, ho, hkf⟩⟩
    · intro r hr'
      rcases List.mem_append.mp hr' with h | h
      · exact hres r h
      · simp only [List.mem_singleton] at h; subst h; exact ⟨rfl, ho⟩
    · intro k hk _
      show Stored L (indexPut s a) k (lastPut (results ++ [(.put a.k a.v a.short, .unit)]) k)
      rw [lastPut_append_put]
      by_cases e : a.k = k
      · rw [if_pos e]; subst e
        exact ⟨indexPut_lookup_self s a, by rw [indexPut_fs]; exact hr⟩
      · rw [if_neg e]
        exact stored_frame hS hkf (fun e' => e e'.symm) (hretr k hk (by simp [pcKey]; exact e))
    · intro k hk
      show own k = j
      rw [show (Thread.mk Pc.idle todo (results ++ [(Op.put a.k a.v a.short, Out.unit)])).results =
        results ++ [(Op.put a.k a.v a.short, Out.unit)] from rfl, lastPut_append_put] at hk
      by_cases e : a.k = k
      · rw [← e]; exact ho
      · rw [if_neg e] at hk; exact hlp k hk

variable (L own)

/-- the system invariant: a well-formed directory and every thread's own invariant -/
structure AInv (y : Sys State Thread Unit) : Prop where
  fs : FsOk y.shared.fs
  threads : ∀ i t, y.threads[i]? = some t → TI L own i y.shared t

variable {L own}

theorem ainv_stepAt (hS : Sep L own) (y : Sys State Thread Unit) (j : Nat) (h : AInv L own y) :
    AInv L own (stepAt (machine L) y j) := by
  rcases stepAt_cases (machine L) y j with heq | ⟨t, hget, _, heq⟩
  · rw [heq]; exact h
  · rw [heq]
    obtain ⟨h1, h2, h3⟩ := step_TI hS h.fs (h.threads j t hget)
    refine ⟨h1, ?_⟩
    intro i u hu
    show TI L own i (step L y.shared t).1 u
    have hu' : (y.threads.set j (step L y.shared t).2.1)[i]? = some u := hu
    rw [List.getElem?_set] at hu'
    by_cases e : j = i
    · subst e
      have hlt : j < y.threads.length := (List.getElem?_eq_some_iff.mp hget).1
      simp only [if_true, hlt] at hu'
      cases hu'
      exact h2
    · rw [if_neg e] at hu'
      have hti := h.threads i u hu'
      rcases h3 with h3 | ⟨kk, hk, hkf⟩
      · rw [h3]; exact hti
      · exact TI_frame hS hkf (by rw [hk]; exact e) hti

theorem ainv_sys {s0 : State} {progs : List (List Op)} (hf : FsOk s0.fs)
    (hp : ∀ i p, progs[i]? = some p → ∀ op ∈ p, PutOwn own i op) : AInv L own (sys s0 progs) := by
  refine ⟨hf, ?_⟩
  intro i t ht
  have ht' : (progs.map Thread.new)[i]? = some t := ht
  rw [List.getElem?_map] at ht'
  cases hpi : progs[i]? with
  | none => rw [hpi] at ht'; cases ht'
  | some p =>
    rw [hpi] at ht'; cases ht'
    exact ⟨hp i p hpi, trivial, fun r hr => (by cases hr), fun _ _ _ => trivial, fun k hk => absurd rfl hk⟩

theorem putOwn_opNG {i : Nat} {op : Op} (h : PutOwn own i op) : OpNG op := by
  cases op <;> first | trivial | cases h

end Cascette.Proofs.DiskConc
