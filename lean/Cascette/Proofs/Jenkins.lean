/-
Proofs/Jenkins — the 12-case byte-by-byte tail and the block loop of the Rust lookup3 port
compute Bob Jenkins' `hashlittle` / `hashlittle2`.
-/
import Cascette.Model.Jenkins
namespace Cascette.Proofs.Jenkins
open Cascette
open Cascette.Spec.Lookup3 (mix final words3 absorb)
open Cascette.Model.Jenkins

/-- every arm of the tail `match` adds exactly the zero-padded little-endian words. -/
theorem tailAdd_eq (a b c : W32) (k : Bytes) (h1 : 1 ≤ k.length) (h12 : k.length ≤ 12) :
    tailAdd a b c k = some (a + (words3 k).1, b + (words3 k).2.1, c + (words3 k).2.2) := by
  match k, h1, h12 with
  | [k0], _, _ | [k0,k1], _, _ | [k0,k1,k2], _, _ | [k0,k1,k2,k3], _, _
  | [k0,k1,k2,k3,k4], _, _ | [k0,k1,k2,k3,k4,k5], _, _ | [k0,k1,k2,k3,k4,k5,k6], _, _
  | [k0,k1,k2,k3,k4,k5,k6,k7], _, _ | [k0,k1,k2,k3,k4,k5,k6,k7,k8], _, _
  | [k0,k1,k2,k3,k4,k5,k6,k7,k8,k9], _, _ | [k0,k1,k2,k3,k4,k5,k6,k7,k8,k9,k10], _, _
  | [k0,k1,k2,k3,k4,k5,k6,k7,k8,k9,k10,k11], _, _ =>
    simp only [tailAdd, words3, List.cons_append, List.nil_append, List.replicate, le32,
      Option.some.injEq, Prod.mk.injEq]
    refine ⟨?_, ?_, ?_⟩ <;> bv_omega

/-- the pattern-matching block loop agrees with the spec's `while length > 12` loop and leaves a
tail of 1..12 bytes for non-empty input. -/
theorem blocks_absorb (a b c : W32) (k : Bytes) :
    absorb k a b c = absorb (blocks a b c k).2 (blocks a b c k).1.1 (blocks a b c k).1.2.1
      (blocks a b c k).1.2.2 ∧
    (blocks a b c k).2.length ≤ 12 ∧ (k ≠ [] → (blocks a b c k).2 ≠ []) := by
  fun_induction blocks a b c k with
  | case1 a b c k0 k1 k2 k3 k4 k5 k6 k7 k8 k9 k10 k11 k12 rest a' b' c' x y z hmix ih =>
    obtain ⟨ih1, ih2, ih3⟩ := ih
    refine ⟨?_, ih2, fun _ => ih3 (by simp)⟩
    rw [absorb]
    simp only [List.length_cons, gt_iff_lt, show 12 < rest.length + 1 + 1 + 1 + 1 + 1 + 1 + 1 + 1 + 1 + 1 + 1 + 1 + 1 by omega,
      ↓reduceDIte, words3, List.cons_append, List.drop_succ_cons, List.drop_zero]
    simp only [a', b', c'] at hmix
    rw [hmix]
    exact ih1
  | case2 a b c k hk =>
    refine ⟨rfl, ?_, fun h => h⟩
    simp only
    match k, hk with
    | [], _ | [_], _ | [_,_], _ | [_,_,_], _ | [_,_,_,_], _ | [_,_,_,_,_], _ | [_,_,_,_,_,_], _
    | [_,_,_,_,_,_,_], _ | [_,_,_,_,_,_,_,_], _ | [_,_,_,_,_,_,_,_,_], _
    | [_,_,_,_,_,_,_,_,_,_], _ | [_,_,_,_,_,_,_,_,_,_,_], _ | [_,_,_,_,_,_,_,_,_,_,_,_], _ => simp
    | _ :: _ :: _ :: _ :: _ :: _ :: _ :: _ :: _ :: _ :: _ :: _ :: _ :: _, hk => exact absurd rfl (hk _ _ _ _ _ _ _ _ _ _ _ _ _ _)

theorem absorb_tail (k : Bytes) (a b c : W32) (h1 : 1 ≤ k.length) (h12 : k.length ≤ 12) :
    absorb k a b c = final (a + (words3 k).1) (b + (words3 k).2.1) (c + (words3 k).2.2) := by
  rw [absorb]
  have : ¬ k.length > 12 := by omega
  have h0 : ¬ k.length = 0 := by omega
  simp only [this, ↓reduceDIte, h0, ↓reduceIte]

theorem len32_eq (n : Nat) (h : n < 2 ^ 32) : len32 n = BitVec.ofNat 32 n := by
  simp only [len32, h, ↓reduceIte]

/-- common core: for non-empty input the model's `blocks`+`tailAdd`+`final` is the spec's `absorb`. -/
theorem model_absorb (k : Bytes) (a b c : W32) (hne : k ≠ []) :
    ∃ t a' b' c', blocks a b c k = ((a', b', c'), t) ∧
      tailAdd a' b' c' t = some (a' + (words3 t).1, b' + (words3 t).2.1, c' + (words3 t).2.2) ∧
      absorb k a b c = final (a' + (words3 t).1) (b' + (words3 t).2.1) (c' + (words3 t).2.2) := by
  obtain ⟨h1, h2, h3⟩ := blocks_absorb a b c k
  have hne' := h3 hne
  have hlen : 1 ≤ (blocks a b c k).2.length := by
    cases hb : (blocks a b c k).2 with
    | nil => exact absurd hb hne'
    | cons _ _ => simp
  refine ⟨(blocks a b c k).2, (blocks a b c k).1.1, (blocks a b c k).1.2.1, (blocks a b c k).1.2.2,
    rfl, tailAdd_eq _ _ _ _ hlen h2, ?_⟩
  rw [h1, absorb_tail _ _ _ _ hlen h2]

/-- C09 `hashlittle2_eq_spec` -/
theorem hashlittle2_eq_spec (k : Bytes) (pc pb : W32) (hlen : k.length < 2 ^ 32) :
    hashlittle2 k pc pb = Spec.Lookup3.hashlittle2 k pc pb := by
  unfold hashlittle2 Spec.Lookup3.hashlittle2
  rw [len32_eq _ hlen]
  cases k with
  | nil => simp [absorb]
  | cons x xs =>
    obtain ⟨t, a', b', c', hb, ht, ha⟩ := model_absorb (x :: xs)
      (0xdeadbeef + BitVec.ofNat 32 (x :: xs).length + pc)
      (0xdeadbeef + BitVec.ofNat 32 (x :: xs).length + pc)
      (0xdeadbeef + BitVec.ofNat 32 (x :: xs).length + pc + pb) (by simp)
    simp only [List.isEmpty_cons, Bool.false_eq_true, ↓reduceIte, hb, ht, ha]

/-- C09 `hashlittle_eq_spec` -/
theorem hashlittle_eq_spec (k : Bytes) (initval : W32) (hlen : k.length < 2 ^ 32) :
    hashlittle k initval = Spec.Lookup3.hashlittle k initval := by
  unfold hashlittle Spec.Lookup3.hashlittle
  rw [len32_eq _ hlen]
  cases k with
  | nil => simp [absorb]
  | cons x xs =>
    obtain ⟨t, a', b', c', hb, ht, ha⟩ := model_absorb (x :: xs)
      (0xdeadbeef + BitVec.ofNat 32 (x :: xs).length + initval)
      (0xdeadbeef + BitVec.ofNat 32 (x :: xs).length + initval)
      (0xdeadbeef + BitVec.ofNat 32 (x :: xs).length + initval) (by simp)
    simp only [List.isEmpty_cons, Bool.false_eq_true, ↓reduceIte, hb, ht, ha]

end Cascette.Proofs.Jenkins
