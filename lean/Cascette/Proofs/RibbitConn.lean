/-
Proofs/RibbitConn — isolation of the per-connection tasks of the Ribbit TCP server
(Model/RibbitConn): helper lemmas for Props/C15.
-/
import Cascette.Model.RibbitConn
namespace Cascette.Proofs.RibbitConn
open Cascette.Model.Bpsv Cascette.Model.Ribbit Cascette.Model.RibbitConn

/-! ### an event touches only its own socket -/

theorem getConn_cons (σ : Conns) (i j : Nat) (c : ConnSt) :
    getConn ((i, c) :: σ) j = if j = i then c else getConn σ j := by
  unfold getConn
  by_cases h : j = i
  · subst h; simp [List.lookup]
  · have : (j == i) = false := by simpa using h
    simp [List.lookup, this, h]

theorem getConn_srvStep (sh : Shared) (σ : Conns) (i j : Nat) (e : Ev) :
    getConn (srvStep sh σ i e).1 j =
      if j = i then (connStep sh (getConn σ i) e).1 else getConn σ j := by
  unfold srvStep
  exact getConn_cons σ i j _

theorem outsOf_append (i : Nat) (a b : List (Nat × Out)) : outsOf i (a ++ b) = outsOf i a ++ outsOf i b := by
  simp [outsOf, List.filterMap_append]

theorem outsOf_tag_same (i : Nat) (o : Option Out) :
    outsOf i (o.map (fun x => (i, x))).toList = o.toList := by
  cases o <;> simp [outsOf]

theorem outsOf_tag_other (i j : Nat) (h : ¬ j = i) (o : Option Out) :
    outsOf i (o.map (fun x => (j, x))).toList = [] := by
  cases o <;> simp [outsOf, h]

/-- **the trace of socket `i` under any interleaving = the trace of socket `i` alone.** -/
theorem srvRun_proj (sh : Shared) (evs : List (Nat × Ev)) (σ : Conns) (i : Nat) :
    getConn (srvRun sh σ evs).1 i = (connRun sh (getConn σ i) (proj i evs)).1 ∧
    outsOf i (srvRun sh σ evs).2 = (connRun sh (getConn σ i) (proj i evs)).2 := by
  induction evs generalizing σ with
  | nil => exact ⟨rfl, rfl⟩
  | cons p rest ih =>
    obtain ⟨j, e⟩ := p
    have ih' := ih (srvStep sh σ j e).1
    rw [getConn_srvStep] at ih'
    simp only [srvRun]
    rw [outsOf_append]
    by_cases hji : j = i
    · subst hji
      have hp : proj j ((j, e) :: rest) = e :: proj j rest := by simp [proj]
      rw [hp]
      simp only [↓reduceIte] at ih'
      simp only [connRun]
      refine ⟨ih'.1, ?_⟩
      rw [ih'.2]
      congr 1
      exact outsOf_tag_same j _
    · have hp : proj i ((j, e) :: rest) = proj i rest := by
        simp [proj, hji]
      have hij : ¬ i = j := fun h => hji h.symm
      rw [hp]
      simp only [if_neg hij] at ih'
      refine ⟨ih'.1, ?_⟩
      rw [ih'.2]
      have : outsOf i (srvStep sh σ j e).2.toList = [] := outsOf_tag_other i j hji _
      rw [this]; rfl

/-! ### one socket: one command, at most one output, determined by the socket's own bytes -/

theorem connRun_done (sh : Shared) (es : List Ev) : connRun sh .done es = (.done, []) := by
  induction es with
  | nil => rfl
  | cons e es ih => simp [connRun, connStep, ih]

theorem firstLine_nolf (l : List Nat) (h : 10 ∉ l) : firstLine l = l := by
  induction l with
  | nil => rfl
  | cons b bs ih =>
    have hb : b ≠ 10 := fun e => h (by simp [e])
    simp [firstLine, hb, ih (fun m => h (by simp [m]))]

theorem firstLine_append (a b : List Nat) (h : 10 ∈ a) : firstLine (a ++ b) = firstLine a := by
  induction a with
  | nil => cases h
  | cons x xs ih =>
    by_cases hx : x = 10
    · simp [firstLine, hx]
    · have : 10 ∈ xs := by
        simp only [List.mem_cons] at h
        rcases h with h | h
        · exact absurd h.symm hx
        · exact h
      simp [firstLine, hx, ih this]

/-- at most one output per socket, whatever arrives. -/
theorem connRun_outputs_le_one (sh : Shared) (es : List Ev) (c : ConnSt) :
    (connRun sh c es).2.length ≤ 1 := by
  induction es generalizing c with
  | nil => simp [connRun]
  | cons e es ih =>
    simp only [connRun]
    cases c with
    | done => simp [connStep, connRun_done]
    | reading buf =>
      cases e with
      | accept => simpa [connStep] using ih _
      | data bs =>
        simp only [connStep]
        split
        · simp [connRun_done]
        · simpa using ih _
      | eof =>
        simp only [connStep]
        split <;> simp [connRun_done]
      | timeout => simp [connStep, connRun_done]

/-- the bytes a client sends, in any segmentation, then a half-close (and whatever else after):
the output is `connAnswer` of the concatenated bytes. -/
theorem connRun_chunks (sh : Shared) (chunks : List (List Nat)) (rest : List Ev) (buf : List Nat)
    (hbuf : 10 ∉ buf) :
    (connRun sh (.reading buf) (chunks.map .data ++ .eof :: rest)).2 =
      [connAnswer sh (buf ++ chunks.flatten)] := by
  induction chunks generalizing buf with
  | nil =>
    simp only [List.map_nil, List.nil_append, connRun, connStep, List.flatten_nil, List.append_nil]
    unfold connAnswer
    by_cases hb : buf = []
    · simp [hb, connRun_done]
    · simp [hb, connRun_done, firstLine_nolf buf hbuf]
  | cons bs more ih =>
    simp only [List.map_cons, List.cons_append, connRun, connStep, List.flatten_cons]
    by_cases hlf : (buf ++ bs).contains 10 = true
    · have hmem : 10 ∈ buf ++ bs := by simpa using hlf
      have hne : buf ++ (bs ++ more.flatten) ≠ [] := by
        intro e
        rw [← List.append_assoc] at e
        have := List.append_eq_nil_iff.mp e
        rw [this.1] at hmem; cases hmem
      simp only [hlf, ↓reduceIte, connRun_done, Option.toList_some, List.append_nil]
      unfold connAnswer
      rw [if_neg hne, ← List.append_assoc, firstLine_append _ _ hmem]
    · have hno : 10 ∉ buf ++ bs := by simpa using hlf
      simp only [hlf, Bool.false_eq_true, ↓reduceIte, Option.toList_none, List.nil_append]
      rw [ih (buf ++ bs) hno, List.append_assoc]

/-- a complete line needs no half-close: once the LF has arrived the answer is out. -/
theorem connRun_line (sh : Shared) (chunks : List (List Nat)) (rest : List Ev) (buf : List Nat)
    (hbuf : 10 ∉ buf) (hlf : 10 ∈ chunks.flatten) :
    (connRun sh (.reading buf) (chunks.map .data ++ rest)).2 =
      [answer sh (firstLine (buf ++ chunks.flatten))] := by
  induction chunks generalizing buf with
  | nil => cases hlf
  | cons bs more ih =>
    simp only [List.map_cons, List.cons_append, connRun, connStep, List.flatten_cons]
    by_cases hc : (buf ++ bs).contains 10 = true
    · have hmem : 10 ∈ buf ++ bs := by simpa using hc
      simp only [hc, ↓reduceIte, connRun_done, Option.toList_some, List.append_nil]
      rw [← List.append_assoc, firstLine_append _ _ hmem]
    · have hno : 10 ∉ buf ++ bs := by simpa using hc
      have hmore : 10 ∈ more.flatten := by
        simp only [List.flatten_cons, List.mem_append] at hlf
        rcases hlf with h | h
        · exact absurd (List.mem_append_right buf h) hno
        · exact h
      simp only [hc, Bool.false_eq_true, ↓reduceIte, Option.toList_none, List.nil_append]
      rw [ih (buf ++ bs) hno hmore, List.append_assoc]

/-- bytes without a line end and no half-close / timeout: the task waits and says nothing. -/
theorem connRun_held (sh : Shared) (chunks : List (List Nat)) (buf : List Nat)
    (h : 10 ∉ buf ++ chunks.flatten) :
    connRun sh (.reading buf) (chunks.map .data) = (.reading (buf ++ chunks.flatten), []) := by
  induction chunks generalizing buf with
  | nil => simp [connRun]
  | cons bs more ih =>
    have hno : 10 ∉ buf ++ bs := by
      intro hm; apply h
      simp only [List.flatten_cons, List.mem_append] at hm ⊢
      rcases hm with hm | hm
      · exact .inl hm
      · exact .inr (.inl hm)
    have hc : (buf ++ bs).contains 10 = false := by simpa using hno
    simp only [List.map_cons, connRun, connStep, hc, Bool.false_eq_true, ↓reduceIte,
      Option.toList_none, List.nil_append, List.flatten_cons]
    rw [ih (buf ++ bs) (by simpa [List.append_assoc] using h), List.append_assoc]

/-! ### a socket that has only been accepted (zero bytes so far) is no step of anything -/

theorem connStep_accept (sh : Shared) (c : ConnSt) : connStep sh c .accept = (c, none) := by
  cases c <;> rfl

theorem connRun_accept (sh : Shared) (c : ConnSt) (es : List Ev) :
    connRun sh c (.accept :: es) = connRun sh c es := by
  simp [connRun, connStep_accept]

/-- dropping the `accept` events of a socket's own trace changes neither its outputs nor the state
its task ends in. -/
theorem connRun_filter_accept (sh : Shared) (es : List Ev) (c : ConnSt) :
    connRun sh c (es.filter (· ≠ .accept)) = connRun sh c es := by
  induction es generalizing c with
  | nil => rfl
  | cons e es ih =>
    by_cases he : e = .accept
    · subst he
      rw [connRun_accept]
      simpa using ih c
    · have : (e :: es).filter (· ≠ .accept) = e :: es.filter (· ≠ .accept) := by simp [he]
      rw [this]
      simp only [connRun, ih]

theorem proj_filter_accept (i : Nat) (evs : List (Nat × Ev)) :
    proj i (evs.filter (fun p => p.2 ≠ .accept)) = (proj i evs).filter (· ≠ .accept) := by
  induction evs with
  | nil => rfl
  | cons p rest ih =>
    obtain ⟨j, e⟩ := p
    by_cases he : e = .accept <;> by_cases hj : j = i <;> simp [proj, he, hj] at ih ⊢ <;> exact ih

end Cascette.Proofs.RibbitConn
