/-
Proofs/CompactionPlan — the greedy merge planner (`plan_archive_merge`): loop invariant and
its consequences on the segment population. Core Lean only.
-/
import Cascette.Model.Compaction
namespace Cascette.Proofs.CompactionPlan
open Cascette Cascette.Spec.Compaction Cascette.Model.Compaction

theorem nodup_idx {l : List Nat} (h : l.Nodup) {i j a : Nat} (hi : l[i]? = some a)
    (hj : l[j]? = some a) : i = j := by
  obtain ⟨hi', hia⟩ := List.getElem?_eq_some_iff.1 hi
  obtain ⟨hj', hja⟩ := List.getElem?_eq_some_iff.1 hj
  have hp := List.pairwise_iff_getElem.1 h
  by_cases hne : i = j
  · exact hne
  · rcases Nat.lt_or_gt_of_ne hne with hlt | hgt
    · exact absurd (hia.trans hja.symm) (hp i j hi' hj' hlt)
    · exact absurd (hja.trans hia.symm) (hp j i hj' hi' hgt)

/-- per-move facts carried through the greedy loop (`k` = position of the destination in the
sorted source list, `j` = position of the moved source). -/
def MoveOk (srcs : List (Nat × Nat)) (segSize di du pos : Nat) (m : Move) : Prop :=
  ∃ k j ek, k ≤ di ∧ k < j ∧ j < pos ∧ srcs[k]? = some ek ∧ ek.1 = m.dst ∧ ek.2 ≤ m.dstOff ∧
    srcs[j]? = some (m.src, m.len) ∧ m.srcOff = 0 ∧ m.dstOff + m.len ≤ segSize ∧
    (k = di → m.dstOff + m.len ≤ du)

structure GInv (srcs : List (Nat × Nat)) (segSize di du pos : Nat) (p : Plan) : Prop where
  moves : ∀ m ∈ p.moves, MoveOk srcs segSize di du pos m
  ordered : p.moves.Pairwise (fun a b => a.dst = b.dst → a.dstOff + a.len ≤ b.dstOff)
  srcsDistinct : p.moves.Pairwise (fun a b => a.src ≠ b.src)
  total : p.total = (p.moves.map (·.len)).sum
  dest : ∃ e, srcs[di]? = some e ∧ e.2 ≤ du

theorem MoveOk.mono {srcs segSize di du pos m} (h : MoveOk srcs segSize di du pos m) :
    MoveOk srcs segSize di du (pos + 1) m := by
  obtain ⟨k, j, ek, h1, h2, h3, h4⟩ := h
  exact ⟨k, j, ek, h1, h2, by omega, h4⟩

theorem greedy_inv (srcs : List (Nat × Nat)) (segSize : Nat)
    (hnd : (srcs.map Prod.fst).Nodup) :
    ∀ (rest : List (Nat × Nat)) (di du pos : Nat) (p : Plan),
      srcs.drop pos = rest → di < pos → GInv srcs segSize di du pos p →
      ∃ p' di' du', greedy srcs segSize rest di du p = some p' ∧
        GInv srcs segSize di' du' (pos + rest.length) p' := by
  intro rest
  induction rest with
  | nil =>
    intro di du pos p _ _ hinv
    exact ⟨p, di, du, rfl, by simpa using hinv⟩
  | cons hd rest ih =>
    intro di du pos p hdrop hlt hinv
    obtain ⟨sseg, sused⟩ := hd
    obtain ⟨e, he, hedu⟩ := hinv.dest
    obtain ⟨dseg, dused⟩ := e
    have hpos : srcs[pos]? = some (sseg, sused) := by
      have := congrArg (fun l => l[0]?) hdrop
      simpa [List.getElem?_drop] using this
    have hdrop' : srcs.drop (pos + 1) = rest := by
      rw [← List.drop_drop, hdrop]; rfl
    have hlen : pos + (((sseg, sused) :: rest).length) = (pos + 1) + rest.length := by
      simp only [List.length_cons]; omega
    rw [greedy, he]
    simp only
    split
    · rename_i hfit
      rw [hlen]
      apply ih di (du + sused) (pos + 1) _ hdrop' (by omega)
      constructor
      · intro m hm
        simp only [List.mem_append, List.mem_singleton] at hm
        rcases hm with hm | rfl
        · obtain ⟨k, j, ek, h1, h2, h3, h4, h5, h6, h7, h8, h9, h10⟩ := hinv.moves m hm
          exact ⟨k, j, ek, h1, h2, by omega, h4, h5, h6, h7, h8, h9, fun hk => by have := h10 hk; omega⟩
        · exact ⟨di, pos, (dseg, dused), Nat.le_refl _, hlt, by omega, he, rfl, hedu, hpos, rfl,
            hfit, fun _ => Nat.le_refl _⟩
      · simp only
        rw [List.pairwise_append]
        refine ⟨hinv.ordered, List.pairwise_singleton _ _, ?_⟩
        intro a ha b hb hab
        simp only [List.mem_singleton] at hb
        subst hb
        simp only at hab ⊢
        obtain ⟨k, j, ek, h1, h2, h3, h4, h5, h6, h7, h8, h9, h10⟩ := hinv.moves a ha
        have hk : k = di := by
          apply nodup_idx hnd (a := dseg)
          · rw [List.getElem?_map, h4]; simp [h5, hab]
          · rw [List.getElem?_map, he]; rfl
        exact h10 hk
      · simp only
        rw [List.pairwise_append]
        refine ⟨hinv.srcsDistinct, List.pairwise_singleton _ _, ?_⟩
        intro a ha b hb
        simp only [List.mem_singleton] at hb
        subst hb
        simp only
        obtain ⟨k, j, ek, h1, h2, h3, h4, h5, h6, h7, h8, h9, h10⟩ := hinv.moves a ha
        intro heq
        have : j = pos := by
          apply nodup_idx hnd (a := sseg)
          · rw [List.getElem?_map, h7]; simp [heq]
          · rw [List.getElem?_map, hpos]; rfl
        omega
      · simp only [List.map_append, List.sum_append, List.map_cons, List.map_nil, List.sum_cons,
          List.sum_nil, hinv.total, Nat.add_zero]
      · exact ⟨(dseg, dused), he, by simp only; omega⟩
    · rename_i hnofit
      cases hnext : srcs[di + 1]? with
      | none =>
        simp only
        refine ⟨p, di, du, rfl, ?_⟩
        constructor
        · intro m hm
          obtain ⟨k, j, ek, h1, h2, h3, h4⟩ := hinv.moves m hm
          exact ⟨k, j, ek, h1, h2, by omega, h4⟩
        · exact hinv.ordered
        · exact hinv.srcsDistinct
        · exact hinv.total
        · exact hinv.dest
      | some e' =>
        obtain ⟨nseg, nused⟩ := e'
        simp only
        rw [hlen]
        have hdi : di + 1 < pos + 1 := by omega
        apply ih (di + 1) nused (pos + 1) p hdrop' hdi
        constructor
        · intro m hm
          obtain ⟨k, j, ek, h1, h2, h3, h4, h5, h6, h7, h8, h9, h10⟩ := hinv.moves m hm
          exact ⟨k, j, ek, by omega, h2, by omega, h4, h5, h6, h7, h8, h9, fun hk => by omega⟩
        · exact hinv.ordered
        · exact hinv.srcsDistinct
        · exact hinv.total
        · exact ⟨(nseg, nused), hnext, Nat.le_refl _⟩


theorem u16idx_small {i : Nat} (h : i < 65536) : u16idx i = i := by
  unfold u16idx; rw [if_pos (by omega)]

theorem collect_mem (p : Nat → Bool) : ∀ (segs : List Seg) (i0 : Nat) (e : Nat × Nat),
    e ∈ collectSources p segs i0 →
    ∃ j s, segs[j]? = some s ∧ e = (u16idx (i0 + j), s.used) ∧ s.frozen = true ∧ 0 < s.used ∧
      p s.used = true := by
  intro segs
  induction segs with
  | nil => intro i0 e h; simp [collectSources] at h
  | cons s r ih =>
    intro i0 e h
    rw [collectSources] at h
    split at h
    · rename_i hc
      simp only [Bool.and_eq_true, decide_eq_true_eq] at hc
      rcases List.mem_cons.1 h with rfl | h
      · exact ⟨0, s, rfl, rfl, hc.1, hc.2.2, hc.2.1⟩
      · obtain ⟨j, s', h1, h2, h3⟩ := ih (i0 + 1) e h
        exact ⟨j + 1, s', by simpa using h1, by rw [h2]; congr 2; omega, h3⟩
    · obtain ⟨j, s', h1, h2, h3⟩ := ih (i0 + 1) e h
      exact ⟨j + 1, s', by simpa using h1, by rw [h2]; congr 2; omega, h3⟩

theorem collect_nodup (p : Nat → Bool) : ∀ (segs : List Seg) (i0 : Nat),
    i0 + segs.length ≤ 65536 → ((collectSources p segs i0).map Prod.fst).Nodup := by
  intro segs
  induction segs with
  | nil => intro i0 _; simp [collectSources]
  | cons s r ih =>
    intro i0 hl
    simp only [List.length_cons] at hl
    rw [collectSources]
    split
    · simp only [List.map_cons, List.nodup_cons]
      refine ⟨?_, ih (i0 + 1) (by omega)⟩
      intro hmem
      obtain ⟨e, he, hfst⟩ := List.mem_map.1 hmem
      obtain ⟨j, s', h1, h2, _⟩ := collect_mem p r (i0 + 1) e he
      have hj : j < r.length := (List.getElem?_eq_some_iff.1 h1).1
      rw [h2] at hfst
      simp only at hfst
      rw [u16idx_small (by omega), u16idx_small (by omega)] at hfst
      omega
    · exact ih (i0 + 1) (by omega)

/-- what the planner guarantees for one move, stated on the segment population. -/
def MoveSafe (p : Nat → Bool) (segSize : Nat) (segs : List Seg) (m : Move) : Prop :=
  ∃ sd ss, segs[m.dst]? = some sd ∧ segs[m.src]? = some ss ∧
    sd.used ≤ m.dstOff ∧ m.dstOff + m.len ≤ segSize ∧ m.src ≠ m.dst ∧
    m.srcOff = 0 ∧ m.len = ss.used ∧ 0 < ss.used ∧
    ss.frozen = true ∧ sd.frozen = true ∧ p ss.used = true ∧ p sd.used = true

theorem planMerge_spec (p : Nat → Bool) (segSize : Nat) (segs : List Seg)
    (hlen : segs.length ≤ 65536) :
    ∃ plan, planMerge p segSize segs = some plan ∧
      (∀ m ∈ plan.moves, MoveSafe p segSize segs m) ∧
      plan.moves.Pairwise (fun a b => a.dst = b.dst → a.dstOff + a.len ≤ b.dstOff) ∧
      plan.moves.Pairwise (fun a b => a.src ≠ b.src) ∧
      plan.total = (plan.moves.map (·.len)).sum := by
  unfold planMerge
  simp only
  split
  · exact ⟨{}, rfl, (by intro m hm; cases hm), List.Pairwise.nil, List.Pairwise.nil, rfl⟩
  · have hperm : (sortSources (collectSources p segs 0)).Perm (collectSources p segs 0) :=
      List.mergeSort_perm _ _
    have hnd : ((sortSources (collectSources p segs 0)).map Prod.fst).Nodup :=
      ((hperm.map Prod.fst).nodup_iff).2 (collect_nodup p segs 0 (by omega))
    generalize sortSources (collectSources p segs 0) = sorted at hperm hnd
    cases sorted with
    | nil => exact ⟨{}, rfl, (by intro m hm; cases hm), List.Pairwise.nil, List.Pairwise.nil, rfl⟩
    | cons first rest =>
      simp only
      have hinit : GInv (first :: rest) segSize 0 first.2 1 {} :=
        ⟨(by intro m hm; cases hm), List.Pairwise.nil, List.Pairwise.nil, rfl,
          ⟨first, rfl, Nat.le_refl _⟩⟩
      obtain ⟨plan, di', du', hg, hinv⟩ :=
        greedy_inv (first :: rest) segSize hnd rest 0 first.2 1 {} rfl (by omega) hinit
      refine ⟨plan, hg, ?_, hinv.ordered, hinv.srcsDistinct, hinv.total⟩
      intro m hm
      obtain ⟨k, j, ek, h1, h2, h3, h4, h5, h6, h7, h8, h9, h10⟩ := hinv.moves m hm
      have hek : ek ∈ collectSources p segs 0 := hperm.subset (List.mem_of_getElem? h4)
      have hes : (m.src, m.len) ∈ collectSources p segs 0 := hperm.subset (List.mem_of_getElem? h7)
      obtain ⟨jd, sd, d1, d2, d3, d4, d5⟩ := collect_mem p segs 0 ek hek
      obtain ⟨js, ss, s1, s2, s3, s4, s5⟩ := collect_mem p segs 0 _ hes
      have hjd : jd < segs.length := (List.getElem?_eq_some_iff.1 d1).1
      have hjs : js < segs.length := (List.getElem?_eq_some_iff.1 s1).1
      rw [Nat.zero_add, u16idx_small (by omega)] at d2 s2
      have hsrc : m.src = js := (Prod.mk.inj s2).1
      have hml : m.len = ss.used := (Prod.mk.inj s2).2
      have hdst : m.dst = jd := by rw [← h5, d2]
      have hdu : ek.2 = sd.used := by rw [d2]
      refine ⟨sd, ss, by rw [hdst]; exact d1, by rw [hsrc]; exact s1, by omega, h9, ?_, h8, hml,
        s4, s3, d3, s5, d5⟩
      intro heq
      have : k = j := by
        apply nodup_idx hnd (a := m.dst)
        · rw [List.getElem?_map, h4]; simp [h5]
        · rw [List.getElem?_map, h7]; simp [heq]
      omega

end Cascette.Proofs.CompactionPlan
