/-
Proofs/RootFile — root header codec (both layouts, both endiannesses, both heuristics), the
FileDataID delta codec, the block codec of every version (V1 interleaved, V2/V3 and V4 separated
arrays), the block loop, and the whole-file statement parse (build blocks) = the inserted blocks in
builder order, with the lookups expressed over the inserted records.
-/
import Cascette.Model.RootFile
namespace Cascette.Proofs.RootFile
open Cascette.Model.RootFile

theorem rd32_w32 (l : Bool) (n : Nat) (rest : Bytes) (h : n < 4294967296) :
    rd32 l (w32 l n ++ rest) = some (n, rest) := by
  cases l
  · simp only [w32, Bool.false_eq_true, ↓reduceIte, be32, List.cons_append, List.nil_append, rd32,
      Option.some.injEq, Prod.mk.injEq, and_true]
    omega
  · simp only [w32, ↓reduceIte, le32, List.cons_append, List.nil_append, rd32,
      Option.some.injEq, Prod.mk.injEq, and_true]
    omega

theorem w32_length (l : Bool) (n : Nat) : (w32 l n).length = 4 := by
  cases l <;> simp [w32, be32, le32]

/-- the window in which a classic V2 header is mistaken for an extended one by `RootHeader::read` -/
def Ambiguous (total named : Nat) : Prop := 16 ≤ total ∧ total < 100 ∧ named < 10

theorem magic_take (l : Bool) (rest : Bytes) :
    takeN 4 ((if l then tsfm else mfst) ++ rest) = some (if l then tsfm else mfst, rest) := by
  cases l <;> simp [takeN, tsfm, mfst]

theorem magic_little (l : Bool) : ((if l then tsfm else mfst) == tsfm) = l := by
  cases l <;> decide

/-- classic header outside the ambiguous window: `read` returns it and stops right after it;
`detect` says V2 -/
theorem classic_roundtrip (l : Bool) (t n : Nat) (rest : Bytes) (ht : t < 4294967296) (hn : n < 4294967296)
    (h : ¬ Ambiguous t n) :
    Header.read ((Header.classic l t n).write ++ rest) = some (Header.classic l t n, rest) ∧
    detect ((Header.classic l t n).write ++ rest) = some (Header.classic l t n).version := by
  unfold Ambiguous at h
  constructor
  · simp only [Header.write, List.append_assoc, Header.read, magic_take, magic_little,
      rd32_w32 l t _ ht, rd32_w32 l n _ hn]
    have : ¬ (16 ≤ t ∧ t < 100 ∧ n < 10 ∧ n < t) := by omega
    simp [this]
  · simp only [Header.write, List.append_assoc, detect, magic_take, magic_little,
      rd32_w32 l t _ ht, rd32_w32 l n _ hn, Header.version]
    have : ¬ (16 ≤ t ∧ t < 100 ∧ 1 ≤ n ∧ n ≤ 4) := by omega
    cases l <;> simp [this, tsfm, mfst]

/-- extended header as the builder writes it (header_size 20, version 1..4) -/
theorem ext_roundtrip (l : Bool) (v t n : Nat) (rest : Bytes) (hv : 1 ≤ v ∧ v ≤ 4)
    (ht : t < 4294967296) (hn : n < 4294967296) :
    Header.read ((Header.ext l 20 v t n 0).write ++ rest) = some (Header.ext l 20 v t n 0, rest) ∧
    detect ((Header.ext l 20 v t n 0).write ++ rest) = some (Header.ext l 20 v t n 0).version := by
  have e : (Header.ext l 20 v t n 0).write ++ rest =
      (if l then tsfm else mfst) ++ (w32 l 20 ++ (w32 l v ++ (w32 l t ++ (w32 l n ++ rest)))) := by
    simp [Header.write]
  rw [e]
  constructor
  · unfold Header.read
    rw [magic_take]
    simp only [magic_little]
    rw [rd32_w32 l 20 _ (by omega)]
    simp only
    rw [rd32_w32 l v _ (by omega)]
    simp only
    have : (16 ≤ 20 ∧ 20 < 100 ∧ v < 10 ∧ v < 20) := by omega
    rw [if_pos this, rd32_w32 l t _ ht]
    simp only
    rw [rd32_w32 l n _ hn]
    simp
  · unfold detect
    rw [magic_take]
    simp only [magic_little]
    have hm : ((if l then tsfm else mfst) = mfst ∨ (if l then tsfm else mfst) = tsfm) := by
      cases l <;> simp
    rw [if_pos hm, rd32_w32 l 20 _ (by omega)]
    simp only
    rw [rd32_w32 l v _ (by omega)]
    simp only
    have : (16 ≤ 20 ∧ 20 < 100 ∧ 1 ≤ v ∧ v ≤ 4) := by omega
    rw [if_pos this]
    have hv' : v = 1 ∨ v = 2 ∨ v = 3 ∨ v = 4 := by omega
    rcases hv' with rfl | rfl | rfl | rfl <;> simp [Header.version]

/-! ### delta coding -/

theorem delta_go (rest : List Nat) : ∀ (prev : Nat), prev < M32 → (∀ x ∈ rest, x < M32) →
    decodeDeltas.go ((prev + 1) % M32) (encodeDeltas.go prev rest) = rest := by
  induction rest with
  | nil => intro prev _ _; rfl
  | cons c rest ih =>
    intro prev hp hall
    have hc : c < M32 := hall c (List.mem_cons_self ..)
    simp only [encodeDeltas.go, decodeDeltas.go]
    have hid : ((prev + 1) % M32 + (c % M32 + M32 - prev % M32 + M32 - 1) % M32) % M32 = c := by
      unfold M32 at *; omega
    rw [hid, ih c hc (fun x hx => hall x (List.mem_cons_of_mem _ hx))]

/-- decode ∘ encode = id for EVERY sequence of 32-bit FileDataIDs (ascending or not: the Rust uses
wrapping arithmetic in both directions) -/
theorem delta_roundtrip (ids : List Nat) (h : ∀ x ∈ ids, x < M32) :
    decodeDeltas (encodeDeltas ids) = ids := by
  cases ids with
  | nil => rfl
  | cons f rest =>
    have hf : f < M32 := h f (List.mem_cons_self ..)
    simp only [encodeDeltas, decodeDeltas, decodeDeltas.go]
    have h0 : (0 + f % M32) % M32 = f := by unfold M32 at *; omega
    rw [h0, delta_go rest f hf (fun x hx => h x (List.mem_cons_of_mem _ hx))]

/-! ## whole file: `RootBuilder::build` → `RootFile::parse` → `resolve_by_id` / `resolve_by_hash` -/

theorem v4_content (c : Nat) (h : c < 1099511627776) :
    (c % 4294967296) ||| ((c / 4294967296 % 256) <<< 32) = c := by
  have := Nat.shiftLeft_add_eq_or_of_lt (b := c % 4294967296) (i := 32) (by omega) (c / 4294967296 % 256)
  rw [Nat.or_comm, ← this, Nat.shiftLeft_eq]
  omega

theorem rd32_le32 (n : Nat) (rest : Bytes) (h : n < 4294967296) : rd32 true (le32 n ++ rest) = some (n, rest) := by
  have := rd32_w32 true n rest h
  simpa [w32] using this

theorem rd64_le64 (n : Nat) (rest : Bytes) (h : n < 18446744073709551616) :
    rd64le (le64 n ++ rest) = some (n, rest) := by
  unfold rd64le le64
  rw [List.append_assoc, rd32_le32 _ _ (by omega)]
  simp only
  rw [rd32_le32 _ _ (by omega)]
  simp only [Option.some.injEq, Prod.mk.injEq, and_true]
  omega

theorem takeN_append (a rest : Bytes) : takeN a.length (a ++ rest) = some (a, rest) := by
  unfold takeN
  simp

/-- reading back `n` items written one after the other -/
theorem readMany_flatMap {α β : Type} (rd : Bytes → Option (β × Bytes)) (wr : α → Bytes) (f : α → β) :
    ∀ (as : List α), (∀ a ∈ as, ∀ rest, rd (wr a ++ rest) = some (f a, rest)) → ∀ rest,
    readMany rd as.length (as.flatMap wr ++ rest) = some (as.map f, rest) := by
  intro as
  induction as with
  | nil => intro _ rest; rfl
  | cons a t ih =>
    intro h rest
    simp only [List.length_cons, List.flatMap_cons, List.append_assoc, readMany]
    rw [h a (List.mem_cons_self ..)]
    simp only
    rw [ih (fun x hx => h x (List.mem_cons_of_mem _ hx))]
    rfl

theorem M32_pos : 0 < M32 := by unfold M32; omega

theorem encodeDeltas_go_length (l : List Nat) : ∀ p, (encodeDeltas.go p l).length = l.length := by
  induction l with
  | nil => intro p; rfl
  | cons a t ih => intro p; simp [encodeDeltas.go, ih]

theorem encodeDeltas_length (l : List Nat) : (encodeDeltas l).length = l.length := by
  cases l with
  | nil => rfl
  | cons a t => simp [encodeDeltas, encodeDeltas_go_length]

theorem encodeDeltas_go_lt (l : List Nat) : ∀ p, ∀ d ∈ encodeDeltas.go p l, d < M32 := by
  induction l with
  | nil => intro p d hd; cases hd
  | cons a t ih =>
    intro p d hd
    simp only [encodeDeltas.go, List.mem_cons] at hd
    rcases hd with hd | hd
    · rw [hd]; exact Nat.mod_lt _ M32_pos
    · exact ih _ d hd

theorem encodeDeltas_lt (l : List Nat) : ∀ d ∈ encodeDeltas l, d < M32 := by
  cases l with
  | nil => intro d hd; cases hd
  | cons a t =>
    intro d hd
    simp only [encodeDeltas, List.mem_cons] at hd
    rcases hd with hd | hd
    · rw [hd]; exact Nat.mod_lt _ M32_pos
    · exact encodeDeltas_go_lt _ _ d hd

theorem mkRecs_some (recs : List Rec) (h : ∀ r ∈ recs, r.nameHash.isSome = true) :
    mkRecs (recs.map (·.fdid)) (recs.map (·.ckey)) (recs.map fun r => some (r.nameHash.getD 0)) = recs := by
  induction recs with
  | nil => rfl
  | cons r t ih =>
    simp only [List.map_cons, mkRecs]
    rw [ih (fun x hx => h x (List.mem_cons_of_mem _ hx))]
    have := h r (List.mem_cons_self ..)
    cases r with
    | mk f c nh =>
      cases nh with
      | none => cases this
      | some v => rfl

theorem mkRecs_none (recs : List Rec) (h : ∀ r ∈ recs, r.nameHash = none) :
    mkRecs (recs.map (·.fdid)) (recs.map (·.ckey)) (List.replicate recs.length none) = recs := by
  induction recs with
  | nil => rfl
  | cons r t ih =>
    simp only [List.map_cons, List.length_cons, List.replicate_succ, mkRecs]
    rw [ih (fun x hx => h x (List.mem_cons_of_mem _ hx))]
    have := h r (List.mem_cons_self ..)
    cases r with
    | mk f c nh => simp only at this; subst this; rfl


/-- what the property assumes of one (locale, content) block handed to the builder -/
structure GoodBlock (v : Version) (l c : Nat) (recs : List Rec) : Prop where
  n_pos : 0 < recs.length
  n_le : recs.length ≤ 1000000
  loc : l < 4294967296
  content : c < (if v = .v4 then 1099511627776 else 4294967296)
  fdid : ∀ r ∈ recs, r.fdid < M32
  ckey : ∀ r ∈ recs, r.ckey.length = 16
  named : ∀ r ∈ recs, r.nameHash.isSome = (v == .v1 || hasNames c)
  hash : ∀ r ∈ recs, r.nameHash.getD 0 < 18446744073709551616

def mkBlock (l c : Nat) (recs : List Rec) : Block := { numRecords := recs.length, locale := l, content := c, recs := recs }

theorem deltas_read (recs : List Rec) (rest : Bytes) :
    readMany (rd32 true) recs.length ((encodeDeltas (recs.map (·.fdid))).flatMap le32 ++ rest)
      = some (encodeDeltas (recs.map (·.fdid)), rest) := by
  have h := readMany_flatMap (rd32 true) le32 id (encodeDeltas (recs.map (·.fdid)))
    (fun a ha rest => rd32_le32 a rest (by have := encodeDeltas_lt _ a ha; unfold M32 at this; exact this)) rest
  rw [encodeDeltas_length, List.length_map, List.map_id] at h
  exact h

theorem ckeys_read (recs : List Rec) (hk : ∀ r ∈ recs, r.ckey.length = 16) (rest : Bytes) :
    readMany (takeN 16) recs.length (recs.flatMap (·.ckey) ++ rest) = some (recs.map (·.ckey), rest) :=
  readMany_flatMap (takeN 16) (·.ckey) (·.ckey) recs
    (fun a ha rest => by have := takeN_append a.ckey rest; rw [hk a ha] at this; exact this) rest

theorem hashes_read (recs : List Rec) (hh : ∀ r ∈ recs, r.nameHash.getD 0 < 18446744073709551616) (rest : Bytes) :
    readMany rd64le recs.length ((recs.flatMap fun r => le64 (r.nameHash.getD 0)) ++ rest)
      = some (recs.map (fun r => r.nameHash.getD 0), rest) :=
  readMany_flatMap rd64le (fun r => le64 (r.nameHash.getD 0)) (fun r => r.nameHash.getD 0) recs
    (fun a ha rest => rd64_le64 _ rest (hh a ha)) rest

theorem separated_roundtrip (l c : Nat) (recs : List Rec) (rest : Bytes)
    (hf : ∀ r ∈ recs, r.fdid < M32) (hk : ∀ r ∈ recs, r.ckey.length = 16)
    (hn : ∀ r ∈ recs, r.nameHash.isSome = hasNames c)
    (hh : ∀ r ∈ recs, r.nameHash.getD 0 < 18446744073709551616) :
    parseSeparated recs.length l c
      ((encodeDeltas (recs.map (·.fdid))).flatMap le32 ++ (recs.flatMap (·.ckey) ++
        ((if hasNames c then recs.flatMap fun r => le64 (r.nameHash.getD 0) else []) ++ rest)))
      = some (mkBlock l c recs, rest) := by
  unfold parseSeparated
  rw [deltas_read]
  simp only
  rw [ckeys_read recs hk]
  simp only
  have hdr : decodeDeltas (encodeDeltas (recs.map (·.fdid))) = recs.map (·.fdid) :=
    delta_roundtrip _ (by intro x hx; obtain ⟨r, hr, rfl⟩ := List.mem_map.1 hx; exact hf r hr)
  by_cases hc : hasNames c = true
  · simp only [hc, ↓reduceIte]
    rw [hashes_read recs hh]
    simp only [List.map_map]
    rw [hdr]
    have := mkRecs_some recs (fun r hr => by rw [hn r hr, hc])
    simp only [Function.comp_def]
    rw [this]; rfl
  · have hc' : hasNames c = false := by simpa using hc
    simp only [hc', Bool.false_eq_true, ↓reduceIte, List.nil_append]
    rw [hdr]
    have := mkRecs_none recs (fun r hr => by
      have := hn r hr
      rw [hc'] at this
      cases h : r.nameHash with
      | none => rfl
      | some v => rw [h] at this; cases this)
    rw [this]; rfl


theorem v1pairs_read (recs : List Rec) (hk : ∀ r ∈ recs, r.ckey.length = 16)
    (hh : ∀ r ∈ recs, r.nameHash.getD 0 < 18446744073709551616) (rest : Bytes) :
    readMany rdCkHash recs.length
      ((recs.flatMap fun r => r.ckey ++ le64 (r.nameHash.getD 0)) ++ rest)
      = some (recs.map (fun r => (r.ckey, r.nameHash.getD 0)), rest) :=
  readMany_flatMap _ (fun r => r.ckey ++ le64 (r.nameHash.getD 0)) (fun r => (r.ckey, r.nameHash.getD 0)) recs
    (fun a ha rest => by
      have h1 := takeN_append a.ckey (le64 (a.nameHash.getD 0) ++ rest)
      rw [hk a ha] at h1
      simp only [rdCkHash, List.append_assoc, h1, rd64_le64 _ rest (hh a ha)]) rest

theorem block_roundtrip (v : Version) (l c : Nat) (recs : List Rec) (rest : Bytes) (g : GoodBlock v l c recs) :
    Block.parse v (Block.write v (mkBlock l c recs) ++ rest) = some (mkBlock l c recs, rest) := by
  obtain ⟨hpos, hle, hl, hc, hf, hk, hn, hh⟩ := g
  have hn0 : ¬ recs.length = 0 := by omega
  have hgt : ¬ recs.length > 1000000 := by omega
  have hlen : recs.length < 4294967296 := by omega
  cases v with
  | v1 =>
    simp only [reduceCtorEq, ↓reduceIte] at hc
    have hcm : c % M32 = c := Nat.mod_eq_of_lt (by unfold M32; exact hc)
    simp only [Block.write, Block.parse, mkBlock, hn0, ↓reduceIte, List.append_assoc, hcm,
      rd32_le32 _ _ hlen, rd32_le32 _ _ hc, rd32_le32 _ _ hl, hgt, false_or, deltas_read]
    have hdr : decodeDeltas (encodeDeltas (recs.map (·.fdid))) = recs.map (·.fdid) :=
      delta_roundtrip _ (by intro x hx; obtain ⟨r, hr, rfl⟩ := List.mem_map.1 hx; exact hf r hr)
    rw [v1pairs_read recs hk hh]
    simp only [hdr, List.map_map, Function.comp_def]
    rw [mkRecs_some recs (fun r hr => by rw [hn r hr]; rfl)]
  | v2 =>
    simp only [reduceCtorEq, ↓reduceIte] at hc
    have hcm : c % M32 = c := Nat.mod_eq_of_lt (by unfold M32; exact hc)
    have hn' : ∀ r ∈ recs, r.nameHash.isSome = hasNames c := fun r hr => by rw [hn r hr]; rfl
    simp only [Block.write, Block.parse, mkBlock, hn0, ↓reduceIte, List.append_assoc, hcm,
      rd32_le32 _ _ hlen, rd32_le32 _ _ hc, rd32_le32 _ _ hl, rd32_le32 0 _ (by omega), List.cons_append,
      List.nil_append, hgt, false_or, Nat.or_zero, Nat.zero_shiftLeft]
    exact separated_roundtrip l c recs rest hf hk hn' hh
  | v3 =>
    simp only [reduceCtorEq, ↓reduceIte] at hc
    have hcm : c % M32 = c := Nat.mod_eq_of_lt (by unfold M32; exact hc)
    have hn' : ∀ r ∈ recs, r.nameHash.isSome = hasNames c := fun r hr => by rw [hn r hr]; rfl
    simp only [Block.write, Block.parse, mkBlock, hn0, ↓reduceIte, List.append_assoc, hcm,
      rd32_le32 _ _ hlen, rd32_le32 _ _ hc, rd32_le32 _ _ hl, rd32_le32 0 _ (by omega), List.cons_append,
      List.nil_append, hgt, false_or, Nat.or_zero, Nat.zero_shiftLeft]
    exact separated_roundtrip l c recs rest hf hk hn' hh
  | v4 =>
    simp only [↓reduceIte] at hc
    have hn' : ∀ r ∈ recs, r.nameHash.isSome = hasNames c := fun r hr => by rw [hn r hr]; rfl
    have hlo : c % M32 < 4294967296 := Nat.mod_lt _ (by unfold M32; omega)
    have h5 : ∀ (x : Bytes), takeN 5 (le32 0 ++ (0 :: x)) = some ([0, 0, 0, 0, 0], x) := by
      intro x; simp [takeN, le32]
    have hcv : c % M32 ||| (c / M32 % 256) <<< 32 = c := v4_content c hc
    simp only [Block.write, Block.parse, mkBlock, hn0, ↓reduceIte, List.append_assoc,
      rd32_le32 _ _ hlen, rd32_le32 _ _ hlo, rd32_le32 _ _ hl, List.cons_append,
      List.nil_append, hgt, false_or, h5, hcv]
    exact separated_roundtrip l c recs rest hf hk hn' hh


theorem write_ne_nil (v : Version) (b : Block) : (Block.write v b).isEmpty = false := by
  cases v <;> simp [Block.write, le32]

/-- the block loop reads back every written block, in order -/
theorem parseBlocks_roundtrip (v : Version) : ∀ (bls : List (Nat × Nat × List Rec)) (acc : List Block) (fuel : Nat),
    (∀ b ∈ bls, GoodBlock v b.1 b.2.1 b.2.2) → bls.length < fuel →
    parseBlocks v fuel (bls.flatMap fun b => Block.write v (mkBlock b.1 b.2.1 b.2.2)) acc
      = some (acc ++ bls.map fun b => mkBlock b.1 b.2.1 b.2.2) := by
  intro bls
  induction bls with
  | nil =>
    intro acc fuel _ hf
    cases fuel with
    | zero => omega
    | succ f => simp [parseBlocks]
  | cons b t ih =>
    intro acc fuel hg hf
    cases fuel with
    | zero => omega
    | succ f =>
      have hb := hg b (List.mem_cons_self ..)
      simp only [List.flatMap_cons, parseBlocks]
      have hne : (Block.write v (mkBlock b.1 b.2.1 b.2.2) ++
          List.flatMap (fun b => Block.write v (mkBlock b.1 b.2.1 b.2.2)) t).isEmpty = false := by
        have := write_ne_nil v (mkBlock b.1 b.2.1 b.2.2)
        cases h : Block.write v (mkBlock b.1 b.2.1 b.2.2) with
        | nil => rw [h] at this; cases this
        | cons x xs => rfl
      rw [hne]
      simp only [Bool.false_eq_true, ↓reduceIte]
      rw [block_roundtrip v _ _ _ _ hb]
      simp only
      have hpos : (mkBlock b.1 b.2.1 b.2.2).numRecords > 0 := hb.n_pos
      rw [if_pos hpos, ih _ f (fun x hx => hg x (List.mem_cons_of_mem _ hx)) (by simp only [List.length_cons] at hf; omega)]
      simp

theorem le32_not_magic (n : Nat) (h : n ≤ 1000000) : ¬ (le32 n = mfst ∨ le32 n = tsfm) := by
  unfold le32 mfst tsfm
  simp only [List.cons.injEq, and_true]
  omega

theorem detect_v1 (v : Version) (b : Block) (rest : Bytes) (hv : v = .v1) (h : b.recs.length ≤ 1000000) :
    detect (Block.write v b ++ rest) = some .v1 := by
  subst hv
  have e : Block.write .v1 b ++ rest = le32 b.recs.length ++ (le32 (b.content % M32) ++ (le32 b.locale ++
      ((if b.recs.length = 0 then [] else (encodeDeltas (b.recs.map (·.fdid))).flatMap le32 ++
        b.recs.flatMap fun r => r.ckey ++ le64 (r.nameHash.getD 0)) ++ rest))) := by
    simp [Block.write]
  rw [e]
  unfold detect
  have ht : takeN 4 (le32 b.recs.length ++ (le32 (b.content % M32) ++ (le32 b.locale ++
      ((if b.recs.length = 0 then [] else (encodeDeltas (b.recs.map (·.fdid))).flatMap le32 ++
        b.recs.flatMap fun r => r.ckey ++ le64 (r.nameHash.getD 0)) ++ rest)))) = some (le32 b.recs.length, _) :=
    takeN_append (le32 b.recs.length) _
  rw [ht]
  simp only
  rw [if_neg (le32_not_magic _ h)]


def sortRecs (recs : List Rec) : List Rec := recs.mergeSort fun a b => a.fdid ≤ b.fdid

/-- the blocks in the order and with the record order `RootBuilder::build` writes them -/
def builtBlocks (blocks : List (Nat × Nat × List Rec)) : List (Nat × Nat × List Rec) :=
  (blocks.mergeSort fun a b => a.1 < b.1 || (a.1 == b.1 && a.2.1 ≤ b.2.1)).map fun b => (b.1, b.2.1, sortRecs b.2.2)

def totalOf (blocks : List (Nat × Nat × List Rec)) : Nat := (blocks.map fun b => b.2.2.length).sum
def namedOf (blocks : List (Nat × Nat × List Rec)) : Nat :=
  (blocks.map fun b => (b.2.2.filter (·.nameHash.isSome)).length).sum

theorem named_le_total (blocks : List (Nat × Nat × List Rec)) : namedOf blocks ≤ totalOf blocks := by
  unfold namedOf totalOf
  induction blocks with
  | nil => simp
  | cons b t ih =>
    simp only [List.map_cons, List.sum_cons]
    have := List.length_filter_le (fun (r : Rec) => r.nameHash.isSome) b.2.2
    omega

theorem GoodBlock.sorted {v : Version} {l c : Nat} {recs : List Rec} (g : GoodBlock v l c recs) :
    GoodBlock v l c (sortRecs recs) := by
  have hp : (sortRecs recs).Perm recs := List.mergeSort_perm _ _
  have hm : ∀ r, r ∈ sortRecs recs → r ∈ recs := fun r hr => hp.mem_iff.1 hr
  have hl : (sortRecs recs).length = recs.length := hp.length_eq
  exact ⟨hl ▸ g.n_pos, hl ▸ g.n_le, g.loc, g.content, fun r hr => g.fdid r (hm r hr), fun r hr => g.ckey r (hm r hr),
    fun r hr => g.named r (hm r hr), fun r hr => g.hash r (hm r hr)⟩

theorem builtBlocks_good (v : Version) (blocks : List (Nat × Nat × List Rec))
    (hg : ∀ b ∈ blocks, GoodBlock v b.1 b.2.1 b.2.2) : ∀ b ∈ builtBlocks blocks, GoodBlock v b.1 b.2.1 b.2.2 := by
  intro b hb
  unfold builtBlocks at hb
  obtain ⟨b0, hb0, rfl⟩ := List.mem_map.1 hb
  exact (hg b0 ((List.mergeSort_perm _ _).mem_iff.1 hb0)).sorted

theorem length_le_flatMap {α : Type} (f : α → Bytes) (l : List α) (h : ∀ a ∈ l, (f a).isEmpty = false) :
    l.length ≤ (l.flatMap f).length := by
  induction l with
  | nil => simp
  | cons a t ih =>
    simp only [List.flatMap_cons, List.length_append, List.length_cons]
    have := h a (List.mem_cons_self ..)
    have h1 : 0 < (f a).length := by
      cases hfa : f a with
      | nil => rw [hfa] at this; cases this
      | cons x xs => simp
    have := ih (fun x hx => h x (List.mem_cons_of_mem _ hx))
    omega

/-- the byte string `RootBuilder::build` emits, in terms of `builtBlocks` -/
theorem build_eq (v : Version) (blocks : List (Nat × Nat × List Rec)) (hne : blocks ≠ []) :
    build v blocks = some ((match v with
      | .v1 => []
      | .v2 => (Header.classic true (totalOf blocks) (namedOf blocks)).write
      | .v3 => (Header.ext true 20 3 (totalOf blocks) (namedOf blocks) 0).write
      | .v4 => (Header.ext true 20 4 (totalOf blocks) (namedOf blocks) 0).write) ++
      (builtBlocks blocks).flatMap fun b => Block.write v (mkBlock b.1 b.2.1 b.2.2)) := by
  unfold build
  have : blocks.isEmpty = false := by cases blocks with | nil => exact absurd rfl hne | cons _ _ => rfl
  simp only [this, Bool.false_eq_true, ↓reduceIte, Option.some.injEq]
  unfold builtBlocks
  rw [List.flatMap_map]
  congr 1


/-- the header value `RootFile::parse` reports for a built file -/
def headerOf (v : Version) (blocks : List (Nat × Nat × List Rec)) : Option Header :=
  match v with
  | .v1 => none
  | .v2 => some (Header.classic true (totalOf blocks) (namedOf blocks))
  | .v3 => some (Header.ext true 20 3 (totalOf blocks) (namedOf blocks) 0)
  | .v4 => some (Header.ext true 20 4 (totalOf blocks) (namedOf blocks) 0)

/-- **whole-file round trip.** -/
theorem parse_build (v : Version) (blocks : List (Nat × Nat × List Rec)) (hne : blocks ≠ [])
    (hg : ∀ b ∈ blocks, GoodBlock v b.1 b.2.1 b.2.2) (htot : totalOf blocks < 4294967296)
    (hamb : v = .v2 → ¬ Ambiguous (totalOf blocks) (namedOf blocks)) :
    ∃ bytes, build v blocks = some bytes ∧
      parse bytes = some { version := v, header := headerOf v blocks,
                           blocks := (builtBlocks blocks).map fun b => mkBlock b.1 b.2.1 b.2.2 } := by
  have hnamed : namedOf blocks < 4294967296 := Nat.lt_of_le_of_lt (named_le_total blocks) htot
  have hgb := builtBlocks_good v blocks hg
  have hfuel : (builtBlocks blocks).length <
      ((builtBlocks blocks).flatMap fun b => Block.write v (mkBlock b.1 b.2.1 b.2.2)).length + 1 :=
    Nat.lt_succ_of_le (length_le_flatMap _ _ (fun a _ => write_ne_nil v _))
  have hloop := parseBlocks_roundtrip v (builtBlocks blocks) [] _ hgb hfuel
  simp only [List.nil_append] at hloop
  refine ⟨_, build_eq v blocks hne, ?_⟩
  cases v with
  | v1 =>
    simp only [List.nil_append]
    -- the first block's record count is not a header magic
    have hbne : builtBlocks blocks ≠ [] := by
      unfold builtBlocks
      intro h
      have := congrArg List.length h
      simp only [List.length_map, List.length_mergeSort, List.length_nil] at this
      exact hne (List.length_eq_zero_iff.1 this)
    cases hb : builtBlocks blocks with
    | nil => exact absurd hb hbne
    | cons b t =>
      rw [hb] at hloop hgb
      have hdet : detect (((b :: t).flatMap fun b => Block.write .v1 (mkBlock b.1 b.2.1 b.2.2))) = some .v1 := by
        rw [List.flatMap_cons]
        exact detect_v1 .v1 _ _ rfl (hgb b (List.mem_cons_self ..)).n_le
      unfold parse
      rw [hdet]
      simp only
      rw [hloop]
      rfl
  | v2 =>
    obtain ⟨hread, hdet⟩ := classic_roundtrip true (totalOf blocks) (namedOf blocks)
      ((builtBlocks blocks).flatMap fun b => Block.write .v2 (mkBlock b.1 b.2.1 b.2.2)) htot hnamed (hamb rfl)
    unfold parse
    simp only [hdet, hread, Header.version]
    rw [hloop]
    rfl
  | v3 =>
    obtain ⟨hread, hdet⟩ := ext_roundtrip true 3 (totalOf blocks) (namedOf blocks)
      ((builtBlocks blocks).flatMap fun b => Block.write .v3 (mkBlock b.1 b.2.1 b.2.2)) (by omega) htot hnamed
    unfold parse
    simp only [hdet, hread, Header.version]
    simp only [Nat.reduceEqDiff, or_self, ↓reduceIte]
    rw [hloop]
    rfl
  | v4 =>
    obtain ⟨hread, hdet⟩ := ext_roundtrip true 4 (totalOf blocks) (namedOf blocks)
      ((builtBlocks blocks).flatMap fun b => Block.write .v4 (mkBlock b.1 b.2.1 b.2.2)) (by omega) htot hnamed
    unfold parse
    simp only [hdet, hread, Header.version]
    simp only [Nat.reduceEqDiff, or_self, ↓reduceIte, ge_iff_le, Nat.le_refl]
    rw [hloop]
    rfl


/-! ### lookups over the parsed blocks -/

/-- common shape of `resolve_by_id` / `resolve_by_hash`: first (block, record) pair, in block and
record order, whose record satisfies `q` and whose block matches the locale/content query -/
def resolveGen (q : Rec → Bool) (bls : List Block) (locale content : Nat) : Option Bytes :=
  (bls.flatMap fun b => (b.recs.filter q).map fun r => (b, r)).find?
    (fun br => entryMatches br.1.locale br.1.content locale content) |>.map (·.2.ckey)

theorem resolveById_eq (p : Parsed) (fdid l c : Nat) :
    p.resolveById fdid l c = resolveGen (·.fdid == fdid) p.blocks l c := rfl
theorem resolveByHash_eq (p : Parsed) (h l c : Nat) :
    p.resolveByHash h l c = resolveGen (·.nameHash == some h) p.blocks l c := rfl

theorem resolveGen_some (q : Rec → Bool) (bls : List Block) (l c : Nat) (ck : Bytes)
    (h : resolveGen q bls l c = some ck) :
    ∃ b ∈ bls, ∃ r ∈ b.recs, q r = true ∧ entryMatches b.locale b.content l c = true ∧ r.ckey = ck := by
  unfold resolveGen at h
  simp only [Option.map_eq_some_iff] at h
  obtain ⟨⟨b, r⟩, hf, rfl⟩ := h
  have hm := List.mem_of_find?_eq_some hf
  have hp := List.find?_some hf
  simp only [List.mem_flatMap, List.mem_map, List.mem_filter] at hm
  obtain ⟨b', hb', r', ⟨hr', hq⟩, e⟩ := hm
  cases e
  exact ⟨b, hb', r, hr', hq, hp, rfl⟩

theorem resolveGen_none (q : Rec → Bool) (bls : List Block) (l c : Nat) :
    resolveGen q bls l c = none ↔
      ∀ b ∈ bls, ∀ r ∈ b.recs, q r = true → entryMatches b.locale b.content l c = false := by
  unfold resolveGen
  simp only [Option.map_eq_none_iff, List.find?_eq_none, List.mem_flatMap, List.mem_map, List.mem_filter,
    Bool.not_eq_true]
  constructor
  · intro h b hb r hr hq
    exact h (b, r) ⟨b, hb, r, ⟨hr, hq⟩, rfl⟩
  · rintro h ⟨b, r⟩ ⟨b', hb', r', ⟨hr', hq⟩, e⟩
    cases e
    exact h b hb' r hr' hq

/-- the parsed blocks hold exactly the inserted records -/
theorem mem_built (blocks : List (Nat × Nat × List Rec)) (b : Block) :
    b ∈ (builtBlocks blocks).map (fun b => mkBlock b.1 b.2.1 b.2.2) ↔
      ∃ b0 ∈ blocks, b = mkBlock b0.1 b0.2.1 (sortRecs b0.2.2) := by
  unfold builtBlocks
  simp only [List.mem_map, List.map_map]
  constructor
  · rintro ⟨b0, hb0, rfl⟩
    exact ⟨b0, (List.mergeSort_perm _ _).mem_iff.1 hb0, rfl⟩
  · rintro ⟨b0, hb0, rfl⟩
    exact ⟨b0, (List.mergeSort_perm _ _).mem_iff.2 hb0, rfl⟩

theorem mem_sortRecs (recs : List Rec) (r : Rec) : r ∈ sortRecs recs ↔ r ∈ recs :=
  (List.mergeSort_perm _ _).mem_iff

/-- lookups on the built-and-parsed block list in terms of the INSERTED records -/
theorem resolveGen_built (q : Rec → Bool) (blocks : List (Nat × Nat × List Rec)) (l c : Nat) :
    (∀ ck, resolveGen q ((builtBlocks blocks).map fun b => mkBlock b.1 b.2.1 b.2.2) l c = some ck →
      ∃ b ∈ blocks, ∃ r ∈ b.2.2, q r = true ∧ entryMatches b.1 b.2.1 l c = true ∧ r.ckey = ck) ∧
    (resolveGen q ((builtBlocks blocks).map fun b => mkBlock b.1 b.2.1 b.2.2) l c = none ↔
      ∀ b ∈ blocks, ∀ r ∈ b.2.2, q r = true → entryMatches b.1 b.2.1 l c = false) := by
  constructor
  · intro ck h
    obtain ⟨b, hb, r, hr, hq, hm, e⟩ := resolveGen_some q _ l c ck h
    obtain ⟨b0, hb0, rfl⟩ := (mem_built blocks b).1 hb
    exact ⟨b0, hb0, r, (mem_sortRecs _ r).1 hr, hq, hm, e⟩
  · rw [resolveGen_none]
    constructor
    · intro h b0 hb0 r hr hq
      exact h _ ((mem_built blocks _).2 ⟨b0, hb0, rfl⟩) r ((mem_sortRecs _ r).2 hr) hq
    · intro h b hb r hr hq
      obtain ⟨b0, hb0, rfl⟩ := (mem_built blocks b).1 hb
      exact h b0 hb0 r ((mem_sortRecs _ r).1 hr) hq

/-- "exactly the inserted value": if an inserted record satisfies `q` and matches the query, and every
other inserted record that does so carries the same content key, that key is returned -/
theorem resolveGen_built_exact (q : Rec → Bool) (blocks : List (Nat × Nat × List Rec)) (l c : Nat)
    (b : Nat × Nat × List Rec) (hb : b ∈ blocks) (r : Rec) (hr : r ∈ b.2.2) (hq : q r = true)
    (hm : entryMatches b.1 b.2.1 l c = true)
    (hu : ∀ b' ∈ blocks, ∀ r' ∈ b'.2.2, q r' = true → entryMatches b'.1 b'.2.1 l c = true → r'.ckey = r.ckey) :
    resolveGen q ((builtBlocks blocks).map fun b => mkBlock b.1 b.2.1 b.2.2) l c = some r.ckey := by
  obtain ⟨h1, h2⟩ := resolveGen_built q blocks l c
  cases h : resolveGen q ((builtBlocks blocks).map fun b => mkBlock b.1 b.2.1 b.2.2) l c with
  | none =>
    have := h2.1 h b hb r hr hq
    rw [hm] at this; cases this
  | some ck =>
    obtain ⟨b', hb', r', hr', hq', hm', e⟩ := h1 ck h
    rw [← e, hu b' hb' r' hr' hq' hm']


/-! ### the lookup tables' entry lists (`RootLookupTables`, `get_entries_by_*`) -/

/-- the observable part of an entry that does not depend on the block order -/
def Entry.flagsKey (e : Entry) : Nat × Nat × Bytes := (e.locale, e.content, e.ckey)

/-- what was handed to the builder for one map key: (locale, content flags, content key) of every
inserted record the key selects -/
def insertedEntries (q : Rec → Bool) (blocks : List (Nat × Nat × List Rec)) : List (Nat × Nat × Bytes) :=
  blocks.flatMap fun b => (b.2.2.filter q).map fun r => (b.1, b.2.1, r.ckey)

theorem resolveGen_cons (q : Rec → Bool) (b : Block) (rest : List Block) (l c : Nat) :
    resolveGen q (b :: rest) l c =
      (if entryMatches b.locale b.content l c then
        match (b.recs.filter q).head? with
        | some r => some r.ckey
        | none => resolveGen q rest l c
       else resolveGen q rest l c) := by
  unfold resolveGen
  simp only [List.flatMap_cons, List.find?_append, List.find?_map]
  by_cases h : entryMatches b.locale b.content l c = true
  · simp only [h, if_true]
    cases hf : b.recs.filter q with
    | nil => simp
    | cons r rs => simp [Function.comp_def, h]
  · simp only [h]
    have : List.find? ((fun br : Block × Rec => entryMatches br.1.locale br.1.content l c) ∘ fun r => (b, r)) (b.recs.filter q) = none := by
      simp [List.find?_eq_none, Function.comp_def, h]
    simp [this]

theorem entries_find_cons (q : Rec → Bool) (b : Block) (rest : List Block) (i l c : Nat) :
    ((entriesFrom q i (b :: rest)).find? (fun e => entryMatches e.locale e.content l c)).map (·.ckey) =
      (if entryMatches b.locale b.content l c then
        match (b.recs.filter q).head? with
        | some r => some r.ckey
        | none => ((entriesFrom q (i+1) rest).find? (fun e => entryMatches e.locale e.content l c)).map (·.ckey)
       else ((entriesFrom q (i+1) rest).find? (fun e => entryMatches e.locale e.content l c)).map (·.ckey)) := by
  simp only [entriesFrom, List.find?_append, List.find?_map]
  by_cases h : entryMatches b.locale b.content l c = true
  · simp only [h, if_true]
    cases hf : b.recs.filter q with
    | nil => simp
    | cons r rs => simp [Function.comp_def, h]
  · simp only [h]
    have : List.find? ((fun e : Entry => entryMatches e.locale e.content l c) ∘ fun r => ({ blockIndex := i, locale := b.locale, content := b.content, ckey := r.ckey } : Entry)) (b.recs.filter q) = none := by
      simp [List.find?_eq_none, Function.comp_def, h]
    simp [this]

/-- `resolve_by_*` as the code computes it — `find` over the key's entry list — is the first-match
scan over the blocks -/
theorem resolveGen_eq_find_entries (q : Rec → Bool) (l c : Nat) : ∀ (bls : List Block) (i : Nat),
    resolveGen q bls l c = ((entriesFrom q i bls).find? (fun e => entryMatches e.locale e.content l c)).map (·.ckey) := by
  intro bls
  induction bls with
  | nil => intro i; rfl
  | cons b rest ih =>
    intro i
    rw [resolveGen_cons, entries_find_cons, ih (i + 1)]

theorem entriesFrom_flags (q : Rec → Bool) : ∀ (bls : List Block) (i : Nat),
    (entriesFrom q i bls).map Entry.flagsKey =
      bls.flatMap fun b => (b.recs.filter q).map fun r => (b.locale, b.content, r.ckey) := by
  intro bls
  induction bls with
  | nil => intro i; rfl
  | cons b rest ih =>
    intro i
    simp only [entriesFrom, List.map_append, List.map_map, List.flatMap_cons, ih (i + 1)]
    rfl

theorem perm_flatMap_pointwise {α β : Type} (l : List α) (f g : α → List β) (h : ∀ a ∈ l, (f a).Perm (g a)) :
    (l.flatMap f).Perm (l.flatMap g) := by
  induction l with
  | nil => exact List.Perm.refl _
  | cons a rest ih =>
    simp only [List.flatMap_cons]
    exact List.Perm.append (h a (by simp)) (ih fun x hx => h x (by simp [hx]))

/-- the entry list of a key on the built-and-parsed block list is a PERMUTATION of the inserted
records of that key with their own block's flags: one entry per inserted record, none merged -/
theorem entries_built_perm (q : Rec → Bool) (blocks : List (Nat × Nat × List Rec)) (i : Nat) :
    ((entriesFrom q i ((builtBlocks blocks).map fun b => mkBlock b.1 b.2.1 b.2.2)).map Entry.flagsKey).Perm
      (insertedEntries q blocks) := by
  rw [entriesFrom_flags]
  unfold builtBlocks insertedEntries
  simp only [List.flatMap_map, List.map_map]
  refine List.Perm.trans (List.Perm.flatMap_right _ (List.mergeSort_perm _ _)) ?_
  refine perm_flatMap_pointwise _ _ _ ?_
  intro b _
  simp only [mkBlock, Function.comp]
  exact ((List.mergeSort_perm _ _).filter q).map _

/-- every entry names (by `block_index`) a block of the list that has the entry's flags and holds a
record of the key with the entry's content key; indices start at `i` -/
theorem entriesFrom_index (q : Rec → Bool) : ∀ (bls : List Block) (i : Nat) (e : Entry), e ∈ entriesFrom q i bls →
    ∃ b, bls[e.blockIndex - i]? = some b ∧ i ≤ e.blockIndex ∧ e.locale = b.locale ∧ e.content = b.content ∧
      ∃ r ∈ b.recs, q r = true ∧ r.ckey = e.ckey := by
  intro bls
  induction bls with
  | nil => intro i e h; simp [entriesFrom] at h
  | cons b rest ih =>
    intro i e h
    simp only [entriesFrom, List.mem_append, List.mem_map, List.mem_filter] at h
    rcases h with ⟨r, ⟨hr, hq⟩, rfl⟩ | h
    · exact ⟨b, by simp, Nat.le_refl _, rfl, rfl, r, hr, hq, rfl⟩
    · obtain ⟨b', hb', hi, h1, h2, h3⟩ := ih (i + 1) e h
      refine ⟨b', ?_, by omega, h1, h2, h3⟩
      have : e.blockIndex - i = (e.blockIndex - (i + 1)) + 1 := by omega
      rw [this, List.getElem?_cons_succ]
      exact hb'

/-- a block's own flags satisfy the query made of them (non-zero locale mask) -/
theorem entryMatches_self (l c : Nat) (hl : l ≠ 0) : entryMatches l c l c = true := by
  unfold entryMatches
  simp [Nat.and_self, hl]

end Cascette.Proofs.RootFile
