/-
Proofs/RootFile — root header codec (both layouts, both endiannesses, both heuristics) and the
FileDataID delta codec.
-/
import Cascette.Model.RootFile
namespace Cascette.Proofs.RootFile
open Cascette.Model.RootFile

theorem rd32_w32 (l : Bool) (n : Nat) (rest : Bytes) (h : n < 4294967296) :
    rd32 l (w32 l n ++ rest) = some (n, rest) := by
  cases l
  · simp only [w32, Bool.false_eq_true, ↓reduceIte, be32, List.cons_append, List.nil_append, rd32,
      Option.some.injEq, Prod.mk.injEq, and_true]
    omega
  · simp only [w32, ↓reduceIte, le32, List.cons_append, List.nil_append, rd32,
      Option.some.injEq, Prod.mk.injEq, and_true]
    omega

theorem w32_length (l : Bool) (n : Nat) : (w32 l n).length = 4 := by
  cases l <;> simp [w32, be32, le32]

/-- the window in which a classic V2 header is mistaken for an extended one by `RootHeader::read` -/
def Ambiguous (total named : Nat) : Prop := 16 ≤ total ∧ total < 100 ∧ named < 10

theorem magic_take (l : Bool) (rest : Bytes) :
    takeN 4 ((if l then tsfm else mfst) ++ rest) = some (if l then tsfm else mfst, rest) := by
  cases l <;> simp [takeN, tsfm, mfst]

theorem magic_little (l : Bool) : ((if l then tsfm else mfst) == tsfm) = l := by
  cases l <;> decide

/-- classic header outside the ambiguous window: `read` returns it and stops right after it;
`detect` says V2 -/
theorem classic_roundtrip (l : Bool) (t n : Nat) (rest : Bytes) (ht : t < 4294967296) (hn : n < 4294967296)
    (h : ¬ Ambiguous t n) :
    Header.read ((Header.classic l t n).write ++ rest) = some (Header.classic l t n, rest) ∧
    detect ((Header.classic l t n).write ++ rest) = some (Header.classic l t n).version := by
  unfold Ambiguous at h
  constructor
  · simp only [Header.write, List.append_assoc, Header.read, magic_take, magic_little,
      rd32_w32 l t _ ht, rd32_w32 l n _ hn]
    have : ¬ (16 ≤ t ∧ t < 100 ∧ n < 10 ∧ n < t) := by omega
    simp [this]
  · simp only [Header.write, List.append_assoc, detect, magic_take, magic_little,
      rd32_w32 l t _ ht, rd32_w32 l n _ hn, Header.version]
    have : ¬ (16 ≤ t ∧ t < 100 ∧ 1 ≤ n ∧ n ≤ 4) := by omega
    cases l <;> simp [this, tsfm, mfst]

/-- extended header as the builder writes it (header_size 20, version 1..4) -/
theorem ext_roundtrip (l : Bool) (v t n : Nat) (rest : Bytes) (hv : 1 ≤ v ∧ v ≤ 4)
    (ht : t < 4294967296) (hn : n < 4294967296) :
    Header.read ((Header.ext l 20 v t n 0).write ++ rest) = some (Header.ext l 20 v t n 0, rest) ∧
    detect ((Header.ext l 20 v t n 0).write ++ rest) = some (Header.ext l 20 v t n 0).version := by
  have e : (Header.ext l 20 v t n 0).write ++ rest =
      (if l then tsfm else mfst) ++ (w32 l 20 ++ (w32 l v ++ (w32 l t ++ (w32 l n ++ rest)))) := by
    simp [Header.write]
  rw [e]
  constructor
  · unfold Header.read
    rw [magic_take]
    simp only [magic_little]
    rw [rd32_w32 l 20 _ (by omega)]
    simp only
    rw [rd32_w32 l v _ (by omega)]
    simp only
    have : (16 ≤ 20 ∧ 20 < 100 ∧ v < 10 ∧ v < 20) := by omega
    rw [if_pos this, rd32_w32 l t _ ht]
    simp only
    rw [rd32_w32 l n _ hn]
    simp
  · unfold detect
    rw [magic_take]
    simp only [magic_little]
    have hm : ((if l then tsfm else mfst) = mfst ∨ (if l then tsfm else mfst) = tsfm) := by
      cases l <;> simp
    rw [if_pos hm, rd32_w32 l 20 _ (by omega)]
    simp only
    rw [rd32_w32 l v _ (by omega)]
    simp only
    have : (16 ≤ 20 ∧ 20 < 100 ∧ 1 ≤ v ∧ v ≤ 4) := by omega
    rw [if_pos this]
    have hv' : v = 1 ∨ v = 2 ∨ v = 3 ∨ v = 4 := by omega
    rcases hv' with rfl | rfl | rfl | rfl <;> simp [Header.version]

/-! ### delta coding -/

theorem delta_go (rest : List Nat) : ∀ (prev : Nat), prev < M32 → (∀ x ∈ rest, x < M32) →
    decodeDeltas.go ((prev + 1) % M32) (encodeDeltas.go prev rest) = rest := by
  induction rest with
  | nil => intro prev _ _; rfl
  | cons c rest ih =>
    intro prev hp hall
    have hc : c < M32 := hall c (List.mem_cons_self ..)
    simp only [encodeDeltas.go, decodeDeltas.go]
    have hid : ((prev + 1) % M32 + (c % M32 + M32 - prev % M32 + M32 - 1) % M32) % M32 = c := by
      unfold M32 at *; omega
    rw [hid, ih c hc (fun x hx => hall x (List.mem_cons_of_mem _ hx))]

/-- decode ∘ encode = id for EVERY sequence of 32-bit FileDataIDs (ascending or not: the Rust uses
wrapping arithmetic in both directions) -/
theorem delta_roundtrip (ids : List Nat) (h : ∀ x ∈ ids, x < M32) :
    decodeDeltas (encodeDeltas ids) = ids := by
  cases ids with
  | nil => rfl
  | cons f rest =>
    have hf : f < M32 := h f (List.mem_cons_self ..)
    simp only [encodeDeltas, decodeDeltas, decodeDeltas.go]
    have h0 : (0 + f % M32) % M32 = f := by unfold M32 at *; omega
    rw [h0, delta_go rest f hf (fun x hx => h x (List.mem_cons_of_mem _ hx))]

end Cascette.Proofs.RootFile
