/-
Proofs/Encoding — the encoding-table instance of the paged-table theorems: what
`Builder.buildParse` (EncodingBuilder::build → EncodingFile::build → EncodingFile::parse) produces
and what the three lookups return on it.
-/
import Cascette.Proofs.Paged
import Cascette.Model.Encoding
namespace Cascette.Proofs.Encoding
open Cascette.Model.Paged Cascette.Model.Encoding Cascette.Proofs.Paged

theorem mem_especTable_aux (l : List ESpec) : ∀ (acc : List ESpec) (s : ESpec), (s ∈ acc ∨ s ∈ l) →
    s ∈ l.foldl (fun t s => if t.contains s then t else t ++ [s]) acc := by
  induction l with
  | nil => intro acc s h; simpa using h
  | cons x xs ih =>
    intro acc s h
    simp only [List.foldl_cons]
    apply ih
    by_cases hc : acc.contains x = true
    · simp only [hc, ↓reduceIte]
      rcases h with h | h
      · exact Or.inl h
      · simp only [List.mem_cons] at h
        rcases h with h | h
        · subst h; exact Or.inl (by simpa using hc)
        · exact Or.inr h
    · simp only [hc]
      rcases h with h | h
      · exact Or.inl (by simp [h])
      · simp only [List.mem_cons] at h
        rcases h with h | h
        · subst h; exact Or.inl (by simp)
        · exact Or.inr h

theorem mem_especTable (l : List ESpec) (s : ESpec) (h : s ∈ l) : s ∈ especTable l :=
  mem_especTable_aux l [] s (Or.inr h)

theorem especTable_get (l : List ESpec) (s : ESpec) (h : s ∈ l) :
    (especTable l)[(especTable l).idxOf s]? = some s := by
  have hm := mem_especTable l s h
  have hlt : (especTable l).idxOf s < (especTable l).length := List.idxOf_lt_length_iff.2 hm
  rw [List.getElem?_eq_getElem hlt, List.getElem_idxOf hlt]

/-- the entry `EncodingBuilder::build_ekey_pages` makes of an inserted (key, espec, size) -/
def mkE (b : Builder) (x : Key × ESpec × Nat) : EEntry :=
  { ekey := x.1, especIdx := (especTable (b.eentries.map (·.2.1))).idxOf x.2.1, size := x.2.2 }

theorem buildParse_some (b : Builder) (f : File) (hb : b.buildParse = some f) :
    f.ctable = (mkTable CEntry.ckey (paginate CEntry.bytes b.cpage (sortBy CEntry.ckey b.centries) [] 0)).map
        (fun (fp : Key × List CEntry) => (fp.1, fp.2.takeWhile (fun e => !CEntry.isPad e))) ∧
    f.etable = (mkTable EEntry.ekey (paginate EEntry.bytes b.epage ((sortBy (·.1) b.eentries).map (mkE b)) [] 0)).map
        (fun (fp : Key × List EEntry) => (fp.1, fp.2.takeWhile (fun e => !EEntry.isPad e))) ∧
    f.especs = especTable (b.eentries.map (·.2.1)) := by
  unfold Builder.buildParse at hb
  simp only at hb
  split at hb
  · cases hb
  · simp only [Option.some.injEq] at hb
    subst hb
    refine ⟨?_, ?_, rfl⟩
    · simp only [parsePage]
    · simp only [parsePage]
      have : (List.map (fun (x : Key × ESpec × Nat) =>
          match x with
          | (k, s, n) => ({ ekey := k, especIdx := (especTable (b.eentries.map (·.2.1))).idxOf s, size := n } : EEntry))
          (sortBy (·.1) b.eentries)) = (sortBy (·.1) b.eentries).map (mkE b) := by
        apply List.map_congr_left
        intro ⟨k, s, n⟩ _
        rfl
      rw [this]

theorem sortBy_perm {ε : Type} (key : ε → Key) (l : List ε) : (sortBy key l).Perm l :=
  List.mergeSort_perm _ _

/-- CKey side: after build → serialize → parse, the page-index lookup returns exactly the inserted
entry of that content key, and nothing for a key that was not inserted. -/
theorem ckey_find (b : Builder) (f : File) (hb : b.buildParse = some f)
    (hd : Distinct CEntry.ckey b.centries) (hpad : ∀ e ∈ b.centries, e.isPad = false) (k : Key) :
    f.ctable.find CEntry.ckey k = some (Spec.Lookup.lookup CEntry.ckey b.centries k) := by
  obtain ⟨hc, _, _⟩ := buildParse_some b f hb
  rw [hc, parse_pages_id]
  · exact paged_find_eq_lookup CEntry.ckey CEntry.bytes b.cpage b.centries hd k
  · intro e he
    rw [paginate_flatten] at he
    simp only [List.nil_append] at he
    exact hpad e ((sortBy_perm _ _).mem_iff.1 he)

theorem ckey_indexSorted (b : Builder) (f : File) (hb : b.buildParse = some f)
    (hd : Distinct CEntry.ckey b.centries) (hpad : ∀ e ∈ b.centries, e.isPad = false) :
    IndexSorted f.ctable ∧ ∀ k, f.ctable.find CEntry.ckey k = some (findRec CEntry.ckey f.ctable k) := by
  obtain ⟨hc, _, _⟩ := buildParse_some b f hb
  have hid : f.ctable = mkTable CEntry.ckey (paginate CEntry.bytes b.cpage (sortBy CEntry.ckey b.centries) [] 0) := by
    rw [hc, parse_pages_id]
    intro e he
    rw [paginate_flatten] at he
    simp only [List.nil_append] at he
    exact hpad e ((sortBy_perm _ _).mem_iff.1 he)
  have hs : IndexSorted f.ctable := by
    rw [hid]
    exact paged_indexSorted _ _ _ _ (sort_strict CEntry.ckey b.centries hd)
  exact ⟨hs, fun k => find_eq_findRec _ _ k hs⟩

/-- EKey side -/
theorem ekey_find (b : Builder) (f : File) (hb : b.buildParse = some f)
    (hd : Distinct (fun (x : Key × ESpec × Nat) => x.1) b.eentries)
    (hpad : ∀ x ∈ b.eentries, (mkE b x).isPad = false) (k : Key) :
    f.etable.find EEntry.ekey k =
      some ((Spec.Lookup.lookup (fun (x : Key × ESpec × Nat) => x.1) b.eentries k).map (mkE b)) := by
  obtain ⟨_, he, _⟩ := buildParse_some b f hb
  rw [he, parse_pages_id]
  · have hs : ((sortBy (·.1) b.eentries).map (mkE b)).Pairwise (fun a b => klt a.ekey b.ekey = true) := by
      rw [List.pairwise_map]
      exact sort_strict (fun (x : Key × ESpec × Nat) => x.1) b.eentries hd
    rw [paged_find_sorted EEntry.ekey EEntry.bytes b.epage _ hs k, List.find?_map]
    simp only [Spec.Lookup.lookup]
    congr 2
    exact (scan_perm (fun (x : Key × ESpec × Nat) => x.1) (sortBy_perm _ _).symm hd k).symm
  · intro e he'
    rw [paginate_flatten] at he'
    simp only [List.nil_append, List.mem_map] at he'
    obtain ⟨x, hx, rfl⟩ := he'
    exact hpad x ((sortBy_perm _ _).mem_iff.1 hx)

end Cascette.Proofs.Encoding
