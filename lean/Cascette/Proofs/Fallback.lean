/-
Proofs/Fallback — lemmas about the fallback chain and the cache steps of Model/Fallback.
-/
import Cascette.Spec.Fallback
namespace Cascette.Proofs.Fallback
open Cascette.Model.Fallback Cascette.Spec.Fallback



variable {τ α : Type}

/-- the straight-line Rust code is the generic chain over the permitted protocols. -/
theorem queryWithFallback_eq_chain (c : Config) (o : Tr → Except Err α) :
    queryWithFallback c o = chain o none (permitted c) := by
  obtain ⟨hs, hp⟩ := c
  cases hs <;> cases hp <;>
    simp only [queryWithFallback, permitted, chain, if_true, if_false, Bool.false_eq_true,
      List.nil_append, List.cons_append, List.append_nil, Option.getD_none, Option.getD_some] <;>
    (rcases o .https with e1 | d1 <;> rcases o .http with e2 | d2 <;> rcases o .tcp with e3 | d3 <;>
      simp <;>
      (try (cases h1 : shouldRetry e1 <;> simp)) <;>
      (try (cases h2 : shouldRetry e2 <;> simp)))




theorem chain_ok_step (o : τ → Except Err α) (last : Option Err) (t : τ) (post : List τ) (d : α)
    (h : o t = .ok d) : chain o last (t :: post) = ([t], .ok d) := by
  cases post <;> simp [chain, h]

theorem chain_refuse_step (o : τ → Except Err α) (last : Option Err) (t : τ) (post : List τ) (e : Err)
    (h : o t = .error e) (hr : shouldRetry e = false) (hp : post ≠ []) :
    chain o last (t :: post) = ([t], .error e) := by
  cases post with
  | nil => exact absurd rfl hp
  | cons a as => simp [chain, h, hr]

theorem chain_last_step (o : τ → Except Err α) (last : Option Err) (t : τ) (e : Err)
    (h : o t = .error e) : chain o last [t] = ([t], .error (last.getD e)) := by
  simp [chain, h]

theorem chain_skip_transient (o : τ → Except Err α) :
    ∀ (pre : List τ) (last : Option Err) (rest : List τ), (∀ x ∈ pre, Transient o x) → rest ≠ [] →
      chain o last (pre ++ rest) =
        (pre ++ (chain o (lastErr o last pre) rest).1, (chain o (lastErr o last pre) rest).2) := by
  intro pre
  induction pre with
  | nil => intro last rest _ _; simp [lastErr]
  | cons x xs ih =>
    intro last rest hpre hrest
    obtain ⟨e, he, hre⟩ := hpre x (by simp)
    have hne : xs ++ rest ≠ [] := by simp [hrest]
    obtain ⟨a, as, has⟩ := List.exists_cons_of_ne_nil hne
    have := ih (some e) rest (fun y hy => hpre y (by simp [hy])) hrest
    simp only [List.cons_append, has, chain, he, hre, if_true, lastErr]
    rw [← has, this]

/-- the complete description of a run of the chain. -/
theorem chain_decomp (o : τ → Except Err α) :
    ∀ (ts : List τ) (last : Option Err), ts ≠ [] →
      ∃ pre t post, ts = pre ++ t :: post ∧ (∀ x ∈ pre, Transient o x) ∧
        (chain o last ts).1 = pre ++ [t] ∧
        ((∃ d, o t = .ok d ∧ (chain o last ts).2 = .ok d) ∨
         (∃ e, post ≠ [] ∧ o t = .error e ∧ shouldRetry e = false ∧ (chain o last ts).2 = .error e) ∨
         (∃ e, post = [] ∧ o t = .error e ∧
            (chain o last ts).2 = .error ((lastErr o last pre).getD e))) := by
  intro ts
  induction ts with
  | nil => intro _ h; exact absurd rfl h
  | cons t rest ih =>
    intro last _
    cases hot : o t with
    | ok d =>
      refine ⟨[], t, rest, rfl, by simp, ?_, Or.inl ⟨d, hot, ?_⟩⟩ <;> simp [chain_ok_step o last t rest d hot]
    | error e =>
      cases rest with
      | nil =>
        refine ⟨[], t, [], rfl, by simp, ?_, Or.inr (Or.inr ⟨e, rfl, hot, ?_⟩)⟩ <;>
          simp [chain_last_step o last t e hot, lastErr]
      | cons a as =>
        cases hr : shouldRetry e with
        | false =>
          refine ⟨[], t, a :: as, rfl, by simp, ?_, Or.inr (Or.inl ⟨e, by simp, hot, hr, ?_⟩)⟩ <;>
            simp [chain_refuse_step o last t (a :: as) e hot hr (by simp)]
        | true =>
          obtain ⟨pre, t0, post, hts, hpre, htr, hres⟩ := ih (some e) (by simp)
          refine ⟨t :: pre, t0, post, by simp [hts], ?_, ?_, ?_⟩
          · intro x hx
            simp at hx
            rcases hx with rfl | hx
            · exact ⟨e, hot, hr⟩
            · exact hpre x hx
          · simp [chain, hot, hr, htr]
          · simp only [chain, hot, hr, if_true, lastErr]
            exact hres

/-- conversely: any decomposition with a transient prefix determines the run. -/
theorem chain_of_decomp (o : τ → Except Err α) (last : Option Err) (pre : List τ) (t : τ) (post : List τ)
    (hpre : ∀ x ∈ pre, Transient o x) :
    (∀ d, o t = .ok d → chain o last (pre ++ t :: post) = (pre ++ [t], .ok d)) ∧
    (∀ e, o t = .error e → shouldRetry e = false → post ≠ [] →
        chain o last (pre ++ t :: post) = (pre ++ [t], .error e)) ∧
    (∀ e, o t = .error e → post = [] →
        chain o last (pre ++ t :: post) = (pre ++ [t], .error ((lastErr o last pre).getD e))) := by
  have hs := chain_skip_transient o pre last (t :: post) hpre (by simp)
  refine ⟨?_, ?_, ?_⟩
  · intro d hd; rw [hs, chain_ok_step o _ t post d hd]
  · intro e he hr hp; rw [hs, chain_refuse_step o _ t post e he hr hp]
  · intro e he hp; subst hp; rw [hs, chain_last_step o _ t e he]



section assoc
variable {κ β : Type} [DecidableEq κ]

@[simp] theorem alookup_aerase_same (l : List (κ × β)) (k : κ) : alookup (aerase l k) k = none := by
  induction l with
  | nil => simp [aerase, alookup]
  | cons p t ih =>
    obtain ⟨k', v⟩ := p
    by_cases h : k' = k <;> simp [aerase, alookup, h, ih]

theorem alookup_aerase_ne (l : List (κ × β)) (k k' : κ) (h : k' ≠ k) :
    alookup (aerase l k) k' = alookup l k' := by
  induction l with
  | nil => simp [aerase, alookup]
  | cons p t ih =>
    obtain ⟨k0, v⟩ := p
    by_cases h0 : k0 = k
    · subst h0
      have : ¬ k0 = k' := fun h' => h h'.symm
      simp [aerase, alookup, ih, this]
    · by_cases h1 : k0 = k'
      · subst h1; simp [aerase, alookup, h0]
      · simp [aerase, alookup, h0, h1, ih]

@[simp] theorem alookup_ainsert_same (l : List (κ × β)) (k : κ) (v : β) :
    alookup (ainsert l k v) k = some v := by simp [ainsert, alookup]

theorem alookup_ainsert_ne (l : List (κ × β)) (k k' : κ) (v : β) (h : k' ≠ k) :
    alookup (ainsert l k v) k' = alookup l k' := by
  have : ¬ k = k' := fun h' => h h'.symm
  simp [ainsert, alookup, this, alookup_aerase_ne l k k' h]

/-- erasing never makes a binding appear. -/
theorem alookup_aerase_some (l : List (κ × β)) (k k' : κ) (v : β)
    (h : alookup (aerase l k) k' = some v) : alookup l k' = some v := by
  by_cases hk : k' = k
  · subst hk; simp at h
  · rwa [alookup_aerase_ne l k k' hk] at h
end assoc



/-! ### cache steps -/


variable {κ α : Type} [DecidableEq κ]

def Holds (st : CState κ α) (c : Nat) (k : κ) (d : α) (e : Nat) : Prop :=
  (st.disk = true → alookup st.files k = some (.doc d) ∧ alookup st.idx (c, k) = some (some e) ∧
      ∀ c', c' ≠ c → alookup st.idx (c', k) = none ∨ alookup st.idx (c', k) = some none) ∧
  (st.disk = false → alookup st.mem (c, k) = some (.doc d, e))

omit [DecidableEq κ] in
theorem pair_ne_of_key {c c' : Nat} {k k' : κ} (h : k' ≠ k) : (c', k') ≠ (c, k) :=
  fun h' => h (Prod.ext_iff.1 h').2
omit [DecidableEq κ] in
theorem pair_ne_of_client {c c' : Nat} {k k' : κ} (h : c' ≠ c) : (c', k') ≠ (c, k) :=
  fun h' => h (Prod.ext_iff.1 h').1

/-- a lookup by anybody on another key leaves what `c` holds for `k` untouched. -/
theorem holds_get_otherkey (st : CState κ α) (c c' : Nat) (k k' : κ) (d : α) (e now : Nat)
    (h : Holds st c k d e) (hk : k' ≠ k) : Holds (cacheGet st c' k' now).1 c k d e := by
  have hk' : k ≠ k' := fun x => hk x.symm
  have hp : ∀ c0 : Nat, (c0, k) ≠ (c', k') := fun c0 => pair_ne_of_key hk'
  obtain ⟨disk, files, idx, mem⟩ := st
  cases disk
  · simp only [Holds, Bool.false_eq_true, false_implies, true_and, forall_const] at h
    unfold cacheGet
    simp only [Bool.false_eq_true, if_false]
    repeat' split
    all_goals simp [Holds, alookup_aerase_ne _ _ _ (hp _), h]
  · simp only [Holds, forall_const, Bool.true_eq_false, false_implies, and_true] at h
    obtain ⟨hf, hi, ho⟩ := h
    unfold cacheGet
    simp only [if_true]
    repeat' split
    all_goals
      simp only [Holds, forall_const, Bool.true_eq_false, false_implies, and_true,
        alookup_aerase_ne _ _ _ hk', alookup_aerase_ne _ _ _ (hp _), alookup_ainsert_ne _ _ _ _ (hp _)]
      exact ⟨hf, hi, ho⟩

theorem holds_put_otherkey (st : CState κ α) (c c' : Nat) (k k' : κ) (d : α) (e x : Nat) (b : Blob α)
    (h : Holds st c k d e) (hk : k' ≠ k) : Holds (cachePut st c' k' b x) c k d e := by
  have hk' : k ≠ k' := fun x => hk x.symm
  have hp : ∀ c0 : Nat, (c0, k) ≠ (c', k') := fun c0 => pair_ne_of_key hk'
  obtain ⟨disk, files, idx, mem⟩ := st
  cases disk
  · simp only [Holds, Bool.false_eq_true, false_implies, true_and, forall_const] at h
    simp [cachePut, Holds, alookup_ainsert_ne _ _ _ _ (hp _), h]
  · simp only [Holds, forall_const, Bool.true_eq_false, false_implies, and_true] at h
    obtain ⟨hf, hi, ho⟩ := h
    simp only [cachePut, if_true, Holds, forall_const, Bool.true_eq_false, false_implies, and_true,
      alookup_ainsert_ne _ _ _ _ hk', alookup_ainsert_ne _ _ _ _ (hp _)]
    exact ⟨hf, hi, ho⟩

theorem cacheGet_disk (st : CState κ α) (c : Nat) (k : κ) (now : Nat) :
    (cacheGet st c k now).1.disk = st.disk := by
  unfold cacheGet
  repeat' split
  all_goals rfl

theorem cachePut_disk (st : CState κ α) (c : Nat) (k : κ) (b : Blob α) (x : Nat) :
    (cachePut st c k b x).disk = st.disk := by
  unfold cachePut; split <;> rfl

theorem holds_get_self (st : CState κ α) (c : Nat) (k : κ) (d : α) (e now : Nat)
    (h : Holds st c k d e) (hnow : now < e) :
    cacheGet st c k now = (st, .ok (some (.doc d))) := by
  unfold cacheGet
  cases hd : st.disk with
  | true =>
    obtain ⟨hf, hi, _⟩ := h.1 hd
    have : ¬ e ≤ now := by omega
    simp [hi, hf, expired, this]
  | false =>
    have hm := h.2 hd
    have : ¬ e ≤ now := by omega
    simp [hm, this]




/-- what `query` asks of the network on a cache miss. -/
def net (cfg : Config) (ep : Ep κ) (o : Tr → Except Err α) : List Tr × Except Err α :=
  if ep.tcpOnly then ([Tr.tcp], o .tcp) else queryWithFallback cfg o

/-- the four exits of `query`. -/
theorem query_exits (cfg : Config) (st : CState κ α) (c now : Nat) (ep : Ep κ) (o : Tr → Except Err α) :
    (ep.valid = false ∧ query cfg st c now ep o = (st, [], .error .invalidEndpoint)) ∨
    (ep.valid = true ∧ ∃ e, (cacheGet st c ep.key now).2 = .error e ∧
        query cfg st c now ep o = ((cacheGet st c ep.key now).1, [], .error e)) ∨
    (ep.valid = true ∧ ∃ d, (cacheGet st c ep.key now).2 = .ok (some (.doc d)) ∧
        query cfg st c now ep o = ((cacheGet st c ep.key now).1, [], .ok d)) ∨
    (ep.valid = true ∧ ((cacheGet st c ep.key now).2 = .ok none ∨ (cacheGet st c ep.key now).2 = .ok (some .junk)) ∧
        ((∃ e, (net cfg ep o).2 = .error e ∧
            query cfg st c now ep o = ((cacheGet st c ep.key now).1, (net cfg ep o).1, .error e)) ∨
         (∃ d, (net cfg ep o).2 = .ok d ∧
            query cfg st c now ep o =
              (cachePut (cacheGet st c ep.key now).1 c ep.key (.doc d) (now + ep.ttl), (net cfg ep o).1, .ok d)))) := by
  unfold query net
  cases hv : ep.valid with
  | false => left; simp
  | true =>
    right
    simp only [Bool.not_true, Bool.false_eq_true, if_false, true_and]
    rcases hg : cacheGet st c ep.key now with ⟨st1, g⟩
    rcases g with e | g
    · left; exact ⟨e, rfl, rfl⟩
    · right
      rcases g with _ | b
      · right
        refine ⟨Or.inl rfl, ?_⟩
        simp only
        rcases hn : (if ep.tcpOnly = true then ([Tr.tcp], o Tr.tcp) else queryWithFallback cfg o) with ⟨tr, r⟩
        rcases r with e | d
        · left; exact ⟨e, rfl, rfl⟩
        · right; exact ⟨d, rfl, rfl⟩
      · rcases b with d | _
        · left; exact ⟨d, rfl, rfl⟩
        · right
          refine ⟨Or.inr rfl, ?_⟩
          simp only
          rcases hn : (if ep.tcpOnly = true then ([Tr.tcp], o Tr.tcp) else queryWithFallback cfg o) with ⟨tr, r⟩
          rcases r with e | d
          · left; exact ⟨e, rfl, rfl⟩
          · right; exact ⟨d, rfl, rfl⟩



/-- a lookup by another client on the same key: (disk) it is served the same document from the
shared file and adopts it without expiry; what `c` holds is untouched. -/
theorem holds_get_other_client (st : CState κ α) (c c' : Nat) (k : κ) (d : α) (e now : Nat)
    (h : Holds st c k d e) (hc : c' ≠ c) :
    Holds (cacheGet st c' k now).1 c k d e ∧
      (st.disk = true → (cacheGet st c' k now).2 = .ok (some (.doc d))) := by
  have hp : (c, k) ≠ (c', k) := pair_ne_of_client (fun x => hc x.symm)
  obtain ⟨disk, files, idx, mem⟩ := st
  cases disk
  · simp only [Holds, Bool.false_eq_true, false_implies, true_and, forall_const] at h
    unfold cacheGet
    simp only [Bool.false_eq_true, if_false, false_implies, and_true]
    repeat' split
    all_goals simp [Holds, alookup_aerase_ne _ _ _ hp, h]
  · simp only [Holds, forall_const, Bool.true_eq_false, false_implies, and_true] at h
    obtain ⟨hf, hi, ho⟩ := h
    unfold cacheGet
    simp only [if_true, forall_const]
    rcases ho c' hc with hn | hn
    · simp only [hn, hf, Holds, forall_const, Bool.true_eq_false, false_implies, and_true,
        alookup_ainsert_ne _ _ _ _ hp, hi, true_and]
      intro c'' hc''
      by_cases h2 : c'' = c'
      · subst h2; right; simp
      · rw [alookup_ainsert_ne _ _ _ _ (pair_ne_of_client h2)]; exact ho c'' hc''
    · simp only [hn, hf, expired, Bool.false_eq_true, if_false, Holds, forall_const,
        Bool.true_eq_false, false_implies, and_true, hi, true_and]
      exact ho

/-- memory mode: another client's store does not touch what `c` holds. -/
theorem holds_put_other_client_mem (st : CState κ α) (c c' : Nat) (k k' : κ) (d : α) (e x : Nat)
    (b : Blob α) (h : Holds st c k d e) (hc : c' ≠ c) (hd : st.disk = false) :
    Holds (cachePut st c' k' b x) c k d e := by
  have hp : (c, k) ≠ (c', k') := pair_ne_of_client (fun x => hc x.symm)
  obtain ⟨disk, files, idx, mem⟩ := st
  simp only at hd; subst hd
  simp only [Holds, Bool.false_eq_true, false_implies, true_and, forall_const] at h
  simp [cachePut, Holds, alookup_ainsert_ne _ _ _ _ hp, h]

/-- the history steps that leave `c`'s entry for `k` (valid until `e`) in place: anything on
another key, anything by another client, `c`'s own queries before `e`. -/
def Quiet (c : Nat) (k : κ) (e : Nat) : Op κ α → Prop
  | .query c' now ep _ => ep.key ≠ k ∨ c' ≠ c ∨ now < e
  | .corrupt k' => k' ≠ k

theorem holds_query (cfg : Config) (st : CState κ α) (c c' : Nat) (k : κ) (d : α) (e now : Nat)
    (ep : Ep κ) (o : Tr → Except Err α) (h : Holds st c k d e)
    (hq : ep.key ≠ k ∨ c' ≠ c ∨ now < e) :
    Holds (query cfg st c' now ep o).1 c k d e ∧
      (ep.key = k → ep.valid = true → (c' = c ∨ st.disk = true) →
        (query cfg st c' now ep o).2 = ([], .ok d)) := by
  by_cases hk : ep.key = k
  · -- same key
    by_cases hc : c' = c
    · subst hc
      have hnow : now < e := by
        rcases hq with h1 | h1 | h1
        · exact absurd hk h1
        · exact absurd rfl h1
        · exact h1
      have hg := holds_get_self st c' k d e now h hnow
      rcases query_exits cfg st c' now ep o with ⟨hv, hx⟩ | ⟨hv, e', he, _⟩ | ⟨hv, d', hd', hx⟩ | ⟨hv, hm, _⟩
      · rw [hx]; exact ⟨h, fun _ hv' => by rw [hv] at hv'; cases hv'⟩
      · rw [hk, hg] at he; cases he
      · rw [hk, hg] at hd'
        simp only [Except.ok.injEq, Option.some.injEq, Blob.doc.injEq] at hd'
        subst hd'
        rw [hx, hk, hg]; exact ⟨h, fun _ _ _ => rfl⟩
      · rw [hk, hg] at hm; rcases hm with hm | hm <;> cases hm
    · have hg := holds_get_other_client st c c' k d e now h hc
      cases hdisk : st.disk with
      | true =>
        have hres := hg.2 hdisk
        rcases query_exits cfg st c' now ep o with ⟨hv, hx⟩ | ⟨hv, e', he, _⟩ | ⟨hv, d', hd', hx⟩ | ⟨hv, hm, _⟩
        · rw [hx]; exact ⟨h, fun _ hv' => by rw [hv] at hv'; cases hv'⟩
        · rw [hk, hres] at he; cases he
        · rw [hk, hres] at hd'
          simp only [Except.ok.injEq, Option.some.injEq, Blob.doc.injEq] at hd'
          subst hd'
          rw [hx, hk]; exact ⟨hg.1, fun _ _ _ => rfl⟩
        · rw [hk, hres] at hm; rcases hm with hm | hm <;> cases hm
      | false =>
        have hres : ∀ x : List Tr × Except Err α, (ep.key = k → ep.valid = true → (c' = c ∨ False) → x = ([], .ok d)) :=
          fun x _ _ hcc => by rcases hcc with hcc | hcc; exact absurd hcc hc; exact hcc.elim
        have hd1 : (cacheGet st c' k now).1.disk = false := by rw [cacheGet_disk, hdisk]
        rcases query_exits cfg st c' now ep o with ⟨hv, hx⟩ | ⟨hv, e', he, hx⟩ | ⟨hv, d', hd', hx⟩ | ⟨hv, hm, ⟨e', _, hx⟩ | ⟨d', _, hx⟩⟩
        all_goals rw [hx]
        all_goals refine ⟨?_, fun a b cc => by rcases cc with cc | cc; exact absurd cc hc; cases cc⟩
        · exact h
        · rw [hk]; exact hg.1
        · rw [hk]; exact hg.1
        · rw [hk]; exact hg.1
        · rw [hk]; exact holds_put_other_client_mem _ c c' k k d e _ _ hg.1 hc hd1
  · -- other key
    have hk' : ep.key ≠ k := hk
    refine ⟨?_, fun hk2 => absurd hk2 hk⟩
    have hg := holds_get_otherkey st c c' k ep.key d e now h hk'
    rcases query_exits cfg st c' now ep o with ⟨hv, hx⟩ | ⟨hv, e', he, hx⟩ | ⟨hv, d', hd', hx⟩ | ⟨hv, hm, ⟨e', _, hx⟩ | ⟨d', _, hx⟩⟩
    all_goals rw [hx]
    · exact h
    · exact hg
    · exact hg
    · exact hg
    · exact holds_put_otherkey _ c c' k ep.key d e _ _ hg hk'

theorem holds_corrupt (st : CState κ α) (c : Nat) (k k' : κ) (d : α) (e : Nat)
    (h : Holds st c k d e) (hk : k' ≠ k) : Holds (corrupt st k').1 c k d e := by
  have hk' : k ≠ k' := fun x => hk x.symm
  obtain ⟨disk, files, idx, mem⟩ := st
  cases disk
  · simpa [corrupt] using h
  · simp only [Holds, forall_const, Bool.true_eq_false, false_implies, and_true] at h
    unfold corrupt
    simp only [if_true]
    split
    · simp only [Holds, forall_const, Bool.true_eq_false, false_implies, and_true,
        alookup_ainsert_ne _ _ _ _ hk']
      exact h
    · simpa [Holds] using h

theorem holds_run (cfg : Config) (c : Nat) (k : κ) (d : α) (e : Nat) :
    ∀ (ops : List (Op κ α)) (st : CState κ α), Holds st c k d e → (∀ op ∈ ops, Quiet c k e op) →
      Holds (run cfg st ops) c k d e := by
  intro ops
  induction ops with
  | nil => intro st h _; exact h
  | cons op rest ih =>
    intro st h hq
    have hop := hq op (by simp)
    have : Holds (step cfg st op) c k d e := by
      cases op with
      | query c' now ep o => exact (holds_query cfg st c c' k d e now ep o h hop).1
      | corrupt k' => exact holds_corrupt st c k k' d e h hop
    simpa [run] using ih (step cfg st op) this (fun x hx => hq x (by simp [hx]))

/-- after a query that went to the network and succeeded, `c` holds the answer until
`now + ttl` (given that no other client holds an expiring index entry for the key). -/
theorem holds_after_store (cfg : Config) (st st1 : CState κ α) (c now : Nat) (ep : Ep κ)
    (o : Tr → Except Err α) (tr : List Tr) (d : α)
    (hq : query cfg st c now ep o = (st1, tr, .ok d)) (htr : tr ≠ [])
    (hoth : ∀ c', c' ≠ c → alookup st.idx (c', ep.key) = none ∨ alookup st.idx (c', ep.key) = some none) :
    Holds st1 c ep.key d (now + ep.ttl) := by
  rcases query_exits cfg st c now ep o with ⟨hv, hx⟩ | ⟨hv, e', he, hx⟩ | ⟨hv, d', hd', hx⟩ | ⟨hv, hm, ⟨e', _, hx⟩ | ⟨d', _, hx⟩⟩
  all_goals rw [hx] at hq
  all_goals simp only [Prod.mk.injEq] at hq
  · exact absurd hq.2.1.symm htr
  · exact absurd hq.2.1.symm htr
  · exact absurd hq.2.1.symm htr
  · cases hq.2.2
  · obtain ⟨h1, _, h3⟩ := hq
    simp only [Except.ok.injEq] at h3
    subst h3
    rw [← h1]
    -- other clients' index entries are not touched by c's lookup
    have hoth' : ∀ c', c' ≠ c →
        alookup (cacheGet st c ep.key now).1.idx (c', ep.key) = none ∨
        alookup (cacheGet st c ep.key now).1.idx (c', ep.key) = some none := by
      intro c' hc'
      have hp : (c', ep.key) ≠ (c, ep.key) := pair_ne_of_client hc'
      have := hoth c' hc'
      obtain ⟨disk, files, idx, mem⟩ := st
      unfold cacheGet
      cases disk
      · simp only [Bool.false_eq_true, if_false]
        repeat' split
        all_goals simpa using this
      · simp only [if_true]
        repeat' split
        all_goals simp only [alookup_aerase_ne _ _ _ hp, alookup_ainsert_ne _ _ _ _ hp]
        all_goals exact this
    generalize (cacheGet st c ep.key now).1 = s at hoth'
    obtain ⟨disk, files, idx, mem⟩ := s
    cases disk
    · simp [cachePut, Holds]
    · simp only [cachePut, if_true, Holds, forall_const, Bool.true_eq_false, false_implies, and_true,
        alookup_ainsert_same, true_and]
      intro c' hc'
      rw [alookup_ainsert_ne _ _ _ _ (pair_ne_of_client hc')]
      exact hoth' c' hc'


/-! ### the network is used on a miss; expiry -/

theorem chain_trace_ne_nil {τ : Type} (o : τ → Except Err α) (last : Option Err) (ts : List τ) (h : ts ≠ []) :
    (chain o last ts).1 ≠ [] := by
  obtain ⟨pre, t, post, _, _, htr, _⟩ := chain_decomp o ts last h
  rw [htr]; simp

theorem permitted_ne_nil (c : Config) : permitted c ≠ [] := by
  unfold permitted; simp

omit [DecidableEq κ] in
theorem net_trace_ne_nil (cfg : Config) (ep : Ep κ) (o : Tr → Except Err α) : (net cfg ep o).1 ≠ [] := by
  unfold net
  split
  · simp
  · rw [queryWithFallback_eq_chain]; exact chain_trace_ne_nil o none _ (permitted_ne_nil cfg)

/-- at or after the expiry the holder's own lookup misses. -/
theorem holds_get_expired (st : CState κ α) (c : Nat) (k : κ) (d : α) (e now : Nat)
    (h : Holds st c k d e) (hnow : e ≤ now) : (cacheGet st c k now).2 = .ok none := by
  obtain ⟨disk, files, idx, mem⟩ := st
  cases disk
  · simp only [Holds, Bool.false_eq_true, false_implies, true_and, forall_const] at h
    simp [cacheGet, h, hnow]
  · simp only [Holds, forall_const, Bool.true_eq_false, false_implies, and_true] at h
    simp [cacheGet, h.2.1, expired, hnow]

/-! ### what a lookup / a failed query can put into the cache: nothing -/

/-- every blob readable after a lookup was readable before it. -/
theorem cacheGet_no_new (st : CState κ α) (c : Nat) (k : κ) (now : Nat) :
    (∀ k' b, alookup (cacheGet st c k now).1.files k' = some b → alookup st.files k' = some b) ∧
    (∀ ck v, alookup (cacheGet st c k now).1.mem ck = some v → alookup st.mem ck = some v) := by
  obtain ⟨disk, files, idx, mem⟩ := st
  unfold cacheGet
  cases disk
  · simp only [Bool.false_eq_true, if_false]
    repeat' split
    all_goals refine ⟨fun _ _ h => h, fun ck v h => ?_⟩
    all_goals first | exact h | exact alookup_aerase_some _ _ _ _ h
  · simp only [if_true]
    repeat' split
    all_goals refine ⟨fun k' b h => ?_, fun _ _ h => h⟩
    all_goals first | exact h | exact alookup_aerase_some _ _ _ _ h

/-- every document in the cache satisfies `P`. -/
def AllDocs (P : α → Prop) (st : CState κ α) : Prop :=
  (∀ k d, alookup st.files k = some (.doc d) → P d) ∧
  (∀ ck d e, alookup st.mem ck = some (.doc d, e) → P d)

theorem allDocs_get (P : α → Prop) (st : CState κ α) (c : Nat) (k : κ) (now : Nat)
    (h : AllDocs P st) : AllDocs P (cacheGet st c k now).1 := by
  obtain ⟨h1, h2⟩ := cacheGet_no_new st c k now
  exact ⟨fun k' d hd => h.1 k' d (h1 k' _ hd), fun ck d e hd => h.2 ck d e (h2 ck _ hd)⟩

theorem allDocs_put (P : α → Prop) (st : CState κ α) (c : Nat) (k : κ) (d : α) (x : Nat)
    (h : AllDocs P st) (hd : P d) : AllDocs P (cachePut st c k (.doc d) x) := by
  obtain ⟨disk, files, idx, mem⟩ := st
  unfold cachePut
  cases disk
  · simp only [Bool.false_eq_true, if_false]
    refine ⟨h.1, fun ck d' e hl => ?_⟩
    by_cases hck : ck = (c, k)
    · subst hck
      simp only [alookup_ainsert_same, Option.some.injEq, Prod.mk.injEq, Blob.doc.injEq] at hl
      rw [← hl.1]; exact hd
    · rw [alookup_ainsert_ne _ _ _ _ hck] at hl; exact h.2 ck d' e hl
  · simp only [if_true]
    refine ⟨fun k' d' hl => ?_, h.2⟩
    by_cases hk : k' = k
    · subst hk
      simp only [alookup_ainsert_same, Option.some.injEq, Blob.doc.injEq] at hl
      rw [← hl]; exact hd
    · rw [alookup_ainsert_ne _ _ _ _ hk] at hl; exact h.1 k' d' hl

theorem allDocs_corrupt (P : α → Prop) (st : CState κ α) (k : κ) (h : AllDocs P st) :
    AllDocs P (corrupt st k).1 := by
  obtain ⟨disk, files, idx, mem⟩ := st
  unfold corrupt
  cases disk
  · simpa using h
  · simp only [if_true]
    split
    · refine ⟨fun k' d' hl => ?_, h.2⟩
      by_cases hk : k' = k
      · subst hk; simp at hl
      · rw [alookup_ainsert_ne _ _ _ _ hk] at hl; exact h.1 k' d' hl
    · exact h

/-- a hit returns a document that is in the cache. -/
theorem cacheGet_hit_in (st : CState κ α) (c : Nat) (k : κ) (now : Nat) (d : α)
    (h : (cacheGet st c k now).2 = .ok (some (.doc d))) :
    alookup st.files k = some (.doc d) ∨ ∃ e, alookup st.mem (c, k) = some (.doc d, e) := by
  obtain ⟨disk, files, idx, mem⟩ := st
  unfold cacheGet at h
  cases disk
  · simp only [Bool.false_eq_true, if_false] at h
    right
    split at h
    · rename_i b e hm
      split at h
      · cases h
      · simp only [Except.ok.injEq, Option.some.injEq] at h; subst h; exact ⟨e, hm⟩
    · cases h
  · simp only [if_true] at h
    left
    split at h
    · split at h
      · cases h
      · split at h
        · rename_i b hb
          simp only [Except.ok.injEq, Option.some.injEq] at h; subst h; exact hb
        · cases h
    · split at h
      · rename_i b hb
        simp only [Except.ok.injEq, Option.some.injEq] at h; subst h; exact hb
      · cases h

omit [DecidableEq κ] in
/-- what the network returns as a success is what some transport returned as a success. -/
theorem net_ok_from_transport (cfg : Config) (ep : Ep κ) (o : Tr → Except Err α) (d : α)
    (h : (net cfg ep o).2 = .ok d) : ∃ t, o t = .ok d := by
  unfold net at h
  split at h
  · exact ⟨.tcp, h⟩
  · rw [queryWithFallback_eq_chain] at h
    obtain ⟨pre, t, post, _, _, _, hres⟩ := chain_decomp o (permitted cfg) none (permitted_ne_nil cfg)
    rcases hres with ⟨d', hd', hr⟩ | ⟨e, _, _, _, hr⟩ | ⟨e, _, _, hr⟩
    · rw [hr] at h; cases h; exact ⟨t, hd'⟩
    · rw [hr] at h; cases h
    · rw [hr] at h; cases h

end Cascette.Proofs.Fallback
