import Cascette.Model.Arc4
namespace Cascette.Proofs.Arc4
open Cascette Cascette.Model.Arc4

theorem apply_append (c : Cipher) (a b : Bytes) :
    apply c (a ++ b) =
      ((apply (apply c a).1 b).1, (apply c a).2 ++ (apply (apply c a).1 b).2) := by
  induction a generalizing c with
  | nil => simp [apply]
  | cons x xs ih => simp only [List.cons_append, apply, ih]

/-- applying the keystream of the same starting state twice is the identity. -/
theorem apply_apply (c : Cipher) (m : Bytes) : (apply c (apply c m).2).2 = m := by
  induction m generalizing c with
  | nil => rfl
  | cons b bs ih =>
    simp only [apply, ih, BitVec.xor_assoc, BitVec.xor_self, BitVec.xor_zero]

theorem apply_length (c : Cipher) (m : Bytes) : (apply c m).2.length = m.length := by
  induction m generalizing c with
  | nil => rfl
  | cons b bs ih => simp only [apply, List.length_cons, ih]

theorem new_isSome_iff (key : Bytes) : (new key).isSome ↔ 1 ≤ key.length ∧ key.length ≤ 256 := by
  unfold new
  cases key with
  | nil => simp
  | cons x xs =>
    by_cases h : (x :: xs).length > 256 <;> simp_all <;> omega

end Cascette.Proofs.Arc4
