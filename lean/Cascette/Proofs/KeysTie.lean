/-
Proofs/KeysTie — the hand-written C20 models build their texts with exactly the format strings,
separators, argument orders, slice indices, whitelists and bounds that lib/rs2lean_keys.py extracts
from the CURRENT Rust source (lean/Cascette/Generated/KeysSrc.lean, regenerated on every
`./check C20`).

If someone changes a ':' or '/' separator, a `format!` string, the order of its arguments, a slice
index (`[..2]`, `[2..4]`), the endpoint whitelist / length bound / refused segments, the minimum
key lengths, the hashed-directory arithmetic, the "tmp" extension, a constructor body or adds a
public constructor in /repo, the generated file changes and one of these theorems stops checking.

Interpretation of the generated parameters (the trusted reading of Rust's slice and format
syntax): `bslice` for `&s[a..b]` (byte offsets, `[]` where Rust would panic — every theorem that
uses it is about an `.ok` outcome, where the model has already excluded the panic), `fmtSpec` for
`{:02x}` / `{:08x}` / `{:03}`.
-/
import Cascette.Generated.KeysSrc
import Cascette.Proofs.CacheKeys
import Cascette.Model.KeysExt
namespace Cascette.Proofs.KeysTie
open Cascette.Model.Path Cascette.Model.CacheKeys Cascette.Model.DiskFs Cascette.Model.KeysExt
open Cascette.Proofs.Path Cascette.Proofs.CacheKeys
open Cascette.Generated

/-! ### key.rs -/

/-- the generated `as_cache_key` of the key type a `Key` value belongs to. -/
def srcText : Key → Str
  | .ribbit e r p => KeysSrc.RibbitKey.as_cache_key e r p
  | .config t h => KeysSrc.ConfigKey.as_cache_key t h
  | .blte e b => KeysSrc.BlteKey.as_cache_key e b
  | .content c => KeysSrc.ContentCacheKey.as_cache_key c
  | .archiveIndex n h => KeysSrc.ArchiveIndexKey.as_cache_key n h
  | .manifest t c v => KeysSrc.ManifestKey.as_cache_key t c v
  | .rootFile c p v => KeysSrc.RootFileKey.as_cache_key c p v
  | .encodingFile e pg p => KeysSrc.EncodingFileKey.as_cache_key e pg p
  | .archiveRange id s l => KeysSrc.ArchiveRangeKey.as_cache_key id s l
  | .blteBlock c b d => KeysSrc.BlteBlockKey.as_cache_key c b d

/-- every `as_cache_key` of the model is the text the Rust source builds (format strings,
`CacheKeyBuffer` push sequences, argument order, `Option` arms, raw/parsed/decompressed words). -/
theorem as_cache_key_tie (k : Key) : cacheKey k = srcText k := by
  cases k with
  | ribbit e r p =>
    cases p <;> simp [cacheKey, fields, joinSep, optMap, srcText, KeysSrc.RibbitKey.as_cache_key,
      KeysSrc.format_ribbit, sRibbit]
  | config t h =>
    simp [cacheKey, fields, joinSep, srcText, KeysSrc.ConfigKey.as_cache_key, KeysSrc.format_config,
      sConfig]
  | blte e b =>
    cases b <;> simp [cacheKey, fields, joinSep, optMap, srcText, KeysSrc.BlteKey.as_cache_key,
      KeysSrc.format_blte, sBlte, dec]
  | content c =>
    simp [cacheKey, fields, joinSep, srcText, KeysSrc.ContentCacheKey.as_cache_key, sContent]
  | archiveIndex n h =>
    simp [cacheKey, fields, joinSep, srcText, KeysSrc.ArchiveIndexKey.as_cache_key, sIndex]
  | manifest t c v =>
    cases v <;> simp [cacheKey, fields, joinSep, optMap, srcText, KeysSrc.ManifestKey.as_cache_key,
      sManifest]
  | rootFile c p v =>
    cases v <;> cases p <;> simp [cacheKey, fields, joinSep, optMap, srcText,
      KeysSrc.RootFileKey.as_cache_key, sRoot, sParsed, sRaw, dec]
  | encodingFile e pg p =>
    cases pg <;> cases p <;> simp [cacheKey, fields, joinSep, optMap, srcText,
      KeysSrc.EncodingFileKey.as_cache_key, sEncoding, sParsed, sRaw, dec]
  | archiveRange id s l =>
    simp [cacheKey, fields, joinSep, srcText, KeysSrc.ArchiveRangeKey.as_cache_key, sArchive, dec]
  | blteBlock c b d =>
    cases d <;> simp [cacheKey, fields, joinSep, srcText, KeysSrc.BlteBlockKey.as_cache_key, sBlte,
      sDecompressed, sRaw, dec]

/-- the field values the generated constructor bodies store. -/
def srcCtor : Ctor → Key
  | .ribbitNew e r => let (a, b, c) := KeysSrc.RibbitKey.new e r; .ribbit a b c
  | .ribbitWithProduct e r p => let (a, b, c) := KeysSrc.RibbitKey.with_product e r p; .ribbit a b c
  | .configNew t h => let (a, b) := KeysSrc.ConfigKey.new t h; .config a b
  | .blteNew e => let (a, b) := KeysSrc.BlteKey.new e; .blte a b
  | .blteWithBlock e i => let (a, b) := KeysSrc.BlteKey.with_block e i; .blte a b
  | .contentNew c => .content (KeysSrc.ContentCacheKey.new c)
  | .archiveIndexNew n h => let (a, b) := KeysSrc.ArchiveIndexKey.new n h; .archiveIndex a b
  | .manifestNew t c => let (a, b, d) := KeysSrc.ManifestKey.new t c; .manifest a b d
  | .manifestWithVersion t c v => let (a, b, d) := KeysSrc.ManifestKey.with_version t c v; .manifest a b d
  | .rootNewRaw c => let (a, b, d) := KeysSrc.RootFileKey.new_raw c; .rootFile a b d
  | .rootNewParsed c => let (a, b, d) := KeysSrc.RootFileKey.new_parsed c; .rootFile a b d
  | .rootWithVersion c p v => let (a, b, d) := KeysSrc.RootFileKey.with_version c p v; .rootFile a b d
  | .encodingNewRaw e => let (a, b, d) := KeysSrc.EncodingFileKey.new_raw e; .encodingFile a b d
  | .encodingNewParsed e => let (a, b, d) := KeysSrc.EncodingFileKey.new_parsed e; .encodingFile a b d
  | .encodingWithPage e pg p => let (a, b, d) := KeysSrc.EncodingFileKey.with_page e pg p; .encodingFile a b d
  | .archiveRangeNew id s l => let (a, b, d) := KeysSrc.ArchiveRangeKey.new id s l; .archiveRange a b d
  | .blteBlockNewRaw c i => let (a, b, d) := KeysSrc.BlteBlockKey.new_raw c i; .blteBlock a b d
  | .blteBlockNewDecompressed c i =>
    let (a, b, d) := KeysSrc.BlteBlockKey.new_decompressed c i; .blteBlock a b d

/-- every model constructor stores the field values the Rust constructor body stores. -/
theorem ctor_tie (c : Ctor) : c.key = srcCtor c := by cases c <;> rfl

/-- the model has one constructor for every `pub fn … -> Self` of the ten key types — no more, no
less (a constructor added to key.rs changes the generated list). -/
theorem ctor_names_tie : KeysSrc.constructor_names =
    ["RibbitKey::new", "RibbitKey::with_product", "ConfigKey::new", "BlteKey::new",
     "BlteKey::with_block", "ContentCacheKey::new", "ArchiveIndexKey::new", "ManifestKey::new",
     "ManifestKey::with_version", "RootFileKey::new_raw", "RootFileKey::new_parsed",
     "RootFileKey::with_version", "EncodingFileKey::new_raw", "EncodingFileKey::new_parsed",
     "EncodingFileKey::with_page", "ArchiveRangeKey::new", "BlteBlockKey::new_raw",
     "BlteBlockKey::new_decompressed"] := rfl

/-- constructor call → key text, end to end through the generated definitions. -/
theorem ctor_text_tie (c : Ctor) : cacheKey c.key = srcText (srcCtor c) := by
  rw [← ctor_tie]; exact as_cache_key_tie _

/-! ### disk_cache.rs -/

/-- `{:02x}` of a byte, `{:08x}` of a `u32`, `{:03}` — the reading of the format specs that occur. -/
def fmtSpec : List Char → Nat → Str
  | ['0', '2', 'x'], n => hex2 n
  | ['0', '8', 'x'], n => hexEncode ((List.range 4).reverse.map fun i => n / 256 ^ i % 256)
  | ['0', '3'], n => pad3 n
  | _, _ => []

/-- the key hash: `acc.wrapping_mul(31).wrapping_add(b)` in `u64`. -/
theorem key_hash_tie (bytes : List Nat) :
    keyHash bytes = bytes.foldl (fun acc b => (acc * KeysSrc.hash_mul % 2 ^ 64 + b) % 2 ^ 64) 0 := by
  unfold keyHash
  congr 1
  funext acc b
  simp [KeysSrc.hash_mul, Nat.mod_add_mod]

/-- the hashed directory names: `((hash >> (level * 8)) & 0xFF) as u8` printed with `{:02x}`. -/
theorem subdirs_tie (levels hash : Nat) :
    subDirs levels hash = (List.range levels).map fun l =>
      fmtSpec KeysSrc.subdir_spec ((hash >>> (l * KeysSrc.subdir_shift)) &&& KeysSrc.subdir_mask) := by
  unfold subDirs
  apply List.map_congr_left
  intro l _
  have h255 : KeysSrc.subdir_mask = 2 ^ 8 - 1 := by decide
  rw [h255, Nat.and_two_pow_sub_one_eq_mod, Nat.shiftRight_eq_div_pow]
  simp only [KeysSrc.subdir_shift, KeysSrc.subdir_spec, fmtSpec]
  rw [Nat.mul_comm l 8, Nat.pow_mul]

/-- the temporary name: `with_extension("tmp")`. -/
theorem tmp_ext_tie : tmpExt = '.' :: KeysSrc.tmp_extension ∧
    tmpExt = '.' :: KeysSrc.index_tmp_extension := by decide

/-! ### client/mod.rs, optimized.rs -/

/-- `validate_endpoint`, check by check, with the extracted bound, whitelist, prefix, separator
and refused segments. -/
theorem validate_endpoint_tie (alnum : Char → Bool) (e : Str) :
    validateEndpoint alnum e =
      if e = [] then .empty
      else if utf8Len e > KeysSrc.endpoint_max_len then .tooLong
      else if !e.all (fun c => alnum c || KeysSrc.endpoint_extra_chars.contains c) then .badChar
      else if e.head? == some KeysSrc.endpoint_abs_prefix ||
          (segsBy KeysSrc.endpoint_split_sep e).any (fun s => KeysSrc.endpoint_bad_segments.contains s)
        then .notRelative
      else .ok := by
  have hc : ∀ c, endpointCharOk alnum c = (alnum c || KeysSrc.endpoint_extra_chars.contains c) := by
    intro c
    simp only [endpointCharOk, KeysSrc.endpoint_extra_chars, List.contains_cons, List.contains_nil,
      Bool.or_false, Bool.or_assoc]
  have habs : isAbs e = (e.head? == some KeysSrc.endpoint_abs_prefix) := by
    unfold isAbs KeysSrc.endpoint_abs_prefix
    cases e with
    | nil => rfl
    | cons c r =>
      by_cases h : c = '/'
      · subst h; rfl
      · simp only [List.head?_cons]
        split
        · rename_i heq; cases heq; exact absurd rfl h
        · symm; simpa using h
  have hseg : ∀ s : Str, (s == dot || s == dotdot) = KeysSrc.endpoint_bad_segments.contains s := by
    intro s
    simp only [KeysSrc.endpoint_bad_segments, List.contains_cons, List.contains_nil, Bool.or_false,
      dot, dotdot]
  have hc' : endpointCharOk alnum = fun c => (alnum c || KeysSrc.endpoint_extra_chars.contains c) :=
    funext hc
  unfold validateEndpoint
  simp only [hc', habs, hseg, segs, KeysSrc.endpoint_max_len, KeysSrc.endpoint_split_sep]
  rfl

theorem ribbit_cache_key_tie (e : Str) : ribbitCacheKey e = KeysSrc.ribbit_cache_key e := rfl

theorem format_cache_key_tie (p e : Str) : protoCacheKey p e = KeysSrc.format_cache_key p e := by
  simp [protoCacheKey, KeysSrc.format_cache_key]

/-! ### cdn/mod.rs, cdn/range.rs -/

/-- `&s[a..b]` with byte offsets; `[]` where the Rust expression panics. -/
def bslice (s : Str) (a b : Nat) : Str :=
  match splitBytes a s with
  | none => []
  | some (_, r) =>
    match splitBytes (b - a) r with
    | none => []
    | some (x, _) => x

theorem slice24_bslice (s a b : Str) (h : slice24 s = some (a, b)) :
    a = bslice s 0 2 ∧ b = bslice s 2 4 := by
  unfold slice24 at h
  unfold bslice
  cases h1 : splitBytes 2 s with
  | none => rw [h1] at h; cases h
  | some p1 =>
    obtain ⟨a', r⟩ := p1
    rw [h1] at h
    simp only at h
    cases h2 : splitBytes 2 r with
    | none => rw [h2] at h; cases h
    | some p2 =>
      obtain ⟨b', r'⟩ := p2
      rw [h2] at h
      simp only [Option.some.injEq, Prod.mk.injEq] at h
      simp [splitBytes, h1, h2, h.1, h.2]

theorem cdn_words_tie :
    ContentType.config.text = KeysSrc.content_type_config ∧
    ContentType.data.text = KeysSrc.content_type_data ∧
    ContentType.patch.text = KeysSrc.content_type_patch ∧
    sHttps = KeysSrc.default_scheme ∧
    (∀ s, trimSlashes s = (s.reverse.dropWhile (· == KeysSrc.cdn_trim_char)).reverse) := by
  refine ⟨by decide, by decide, by decide, by decide, fun s => rfl⟩

/-- `check_key`, then the `download` cache key and `build_url`: the extracted bound, formats,
argument order and slice indices. -/
theorem download_tie (scheme : Option Str) (host basePath : Str) (ct : ContentType) (key : List Nat) :
    (downloadCacheKey basePath ct key = .invalidKey ↔ key.length < KeysSrc.check_key_min_len) ∧
    (buildUrl scheme host basePath ct key = .invalidKey ↔ key.length < KeysSrc.check_key_min_len) ∧
    (∀ v, downloadCacheKey basePath ct key = .ok v →
      v = KeysSrc.download_cache_key bslice trimSlashes basePath ct.text (hexEncode key)) ∧
    (∀ u, buildUrl scheme host basePath ct key = .ok u →
      u = KeysSrc.build_url bslice trimSlashes (scheme.getD KeysSrc.default_scheme) host basePath
        ct.text (hexEncode key)) := by
  unfold downloadCacheKey buildUrl cdnTail KeysSrc.check_key_min_len
  by_cases hlen : key.length < 2
  · simp [hlen]
  · cases hs : slice24 (hexEncode key) with
    | none => simp [hlen]
    | some p =>
      obtain ⟨a, b⟩ := p
      obtain ⟨ha, hb⟩ := slice24_bslice _ _ _ hs
      simp [hlen, joinSep, sCdn, sHttps, KeysSrc.download_cache_key, KeysSrc.build_url,
        KeysSrc.default_scheme, ← ha, ← hb]

theorem archive_key_ok_tie (k : Str) :
    archiveKeyOk k = (decide (KeysSrc.archive_key_min_len ≤ utf8Len k) && k.all isAsciiHexDigit) ∧
    archiveKeyOk k = (decide (KeysSrc.archive_name_min_len ≤ utf8Len k) && k.all isAsciiHexDigit) :=
  ⟨rfl, rfl⟩

/-- `download_archive_index` / `get_index_size`: cache key and URL. -/
theorem archive_index_tie (scheme : Option Str) (host basePath ak : Str) :
    (∀ v, archiveIndexCacheKey basePath ak = .ok v →
      v = KeysSrc.archive_index_cache_key bslice trimSlashes basePath ak) ∧
    (∀ u, archiveIndexUrl scheme host basePath ak = .ok u →
      u = KeysSrc.archive_index_url bslice trimSlashes (scheme.getD KeysSrc.default_scheme) host
        basePath ak ∧
      u = KeysSrc.index_size_url bslice trimSlashes (scheme.getD KeysSrc.default_scheme) host
        basePath ak) := by
  unfold archiveIndexCacheKey archiveIndexUrl cdnTail
  by_cases hok : archiveKeyOk ak = true
  · cases hs : slice24 ak with
    | none => simp [hok]
    | some p =>
      obtain ⟨a, b⟩ := p
      obtain ⟨ha, hb⟩ := slice24_bslice _ _ _ hs
      simp [hok, joinSep, sCdn, sHttps, sData, sIndexExt, KeysSrc.archive_index_cache_key,
        KeysSrc.archive_index_url, KeysSrc.index_size_url, KeysSrc.default_scheme, ← ha, ← hb]
  · simp [hok]

/-- `download_range`: the Range header text. -/
theorem range_header_tie (offset length : Nat) :
    rangeHeader offset length = KeysSrc.range_header offset (rangeEnd offset length) := by
  simp [rangeHeader, KeysSrc.range_header, dec]

/-- `RangeDownloader::download_archive_content`: URL with and without product path. -/
theorem archive_content_tie (host path : Str) (ppath : Option Str) (name : Str) :
    ∀ u, archiveContentUrl host path ppath name = .ok u →
      u = KeysSrc.archive_content_url bslice host path ppath name := by
  unfold archiveContentUrl archiveContentTail
  by_cases hok : archiveKeyOk name = true
  · cases hs : slice24 name with
    | none => simp [hok]
    | some p =>
      obtain ⟨a, b⟩ := p
      obtain ⟨ha, hb⟩ := slice24_bslice _ _ _ hs
      cases ppath <;>
        simp [hok, joinSep, optMap, sHttps, sData, KeysSrc.archive_content_url, ← ha, ← hb]
  · simp [hok]

/-! ### cascette-client-storage -/

theorem hexEncode_eq_flatten (l : List Nat) :
    hexEncode l = (l.map (fmtSpec ['0', '2', 'x'])).flatten := by
  induction l with
  | nil => rfl
  | cons b r ih => simp [hexEncode, fmtSpec, hex2, ih]

/-- `format_content_key_path`: the three joined slices (character offsets: the hex text is ASCII). -/
theorem content_key_path_tie (base : APath) (ekey : List Nat) :
    contentKeyPath base ekey = base ++ KeysSrc.content_key_path_parts
      (fun s a b => (s.drop a).take (b - a)) (fun s a => s.drop a) (hexEncode ekey) := by
  simp [contentKeyPath, KeysSrc.content_key_path_parts]

theorem lru_file_name_tie (dir : APath) (generation : Nat) :
    lruFilePath dir generation = dir ++ [KeysSrc.lru_file_name fmtSpec (be64 generation)] := by
  simp [lruFilePath, KeysSrc.lru_file_name, hexEncode_eq_flatten]

theorem index_file_name_tie (bucket version : Nat) :
    indexFileName bucket version = KeysSrc.index_file_name fmtSpec (bucket % 256) version := by
  simp [indexFileName, KeysSrc.index_file_name, fmtSpec, hexEncode, hex2]

theorem segment_file_name_tie (base : APath) (idx : Nat) :
    segmentDataPath base idx = base ++ [KeysSrc.segment_file_name fmtSpec idx] := by
  simp [segmentDataPath, KeysSrc.segment_file_name, fmtSpec, sData]

theorem install_check_tie : KeysSrc.install_name_checked = true := rfl

/-! ### helper for Props/C20.index_tmp_confined -/

theorem splitLastDot_append (x y : Comp) (hy : '.' ∉ y) :
    splitLastDot (x ++ '.' :: y) = some (x, y) := by
  induction x with
  | nil => simp [splitLastDot, splitLastDot_none_of_not_mem y hy]
  | cons c r ih => simp [splitLastDot, ih]

end Cascette.Proofs.KeysTie
