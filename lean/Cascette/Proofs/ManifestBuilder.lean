/-
Proofs/ManifestBuilder — invariants of the builders and refinement to Spec/TagSets:
mask length = ⌈n/8⌉ and no stale bit at or beyond `n` after every operation; every tag's
membership vector evolves exactly as the abstract program says.
-/
import Cascette.Proofs.ManifestBits
namespace Cascette.Proofs.Manifest
open Cascette Cascette.Model.Manifest Cascette.Spec.TagSets

/-! ### membership vector of a mask -/

/-- the abstraction of a mask: membership of files `0 .. n-1` -/
def memOf (n : Nat) (mask : Bytes) : List Bool := (List.range n).map (hasFile mask)

theorem length_memOf (n : Nat) (m : Bytes) : (memOf n m).length = n := by simp [memOf]

theorem getElem?_memOf (n : Nat) (m : Bytes) (j : Nat) :
    (memOf n m)[j]? = if j < n then some (hasFile m j) else none := by
  unfold memOf
  rw [List.getElem?_map]
  by_cases h : j < n
  · rw [List.getElem?_range h, if_pos h]; rfl
  · rw [List.getElem?_eq_none (by simpa using h), if_neg h]; rfl

/-- mask invariant: exactly `⌈n/8⌉` bytes, and no bit set at or beyond `n` -/
structure MaskOk (n : Nat) (m : Bytes) : Prop where
  len : m.length = maskSize n
  clean : ∀ j, n ≤ j → hasFile m j = false

theorem maskOk_zero (n : Nat) : MaskOk n (List.replicate (maskSize n) 0) :=
  ⟨by simp, fun j _ => hasFile_replicate_zero _ _⟩

theorem memOf_zero (n sz : Nat) : memOf n (List.replicate sz (0 : Byte)) = List.replicate n false := by
  apply List.ext_getElem?
  intro j
  rw [getElem?_memOf, List.getElem?_replicate, hasFile_replicate_zero]

/-- the mask step of `add_file` (both builders): grow if too short -/
def growMask (m : Bytes) (sz : Nat) : Bytes := if m.length < sz then resizeZ m sz else m

theorem hasFile_growMask (m : Bytes) (sz j : Nat) (h : m.length ≤ sz) :
    hasFile (growMask m sz) j = hasFile m j := by
  unfold growMask
  split
  · rw [hasFile_resizeZ]
    by_cases hj : j / 8 < sz
    · simp [hj]
    · simp only [hj, decide_false, Bool.false_and]
      rw [hasFile_of_length_le m j (by omega)]
  · rfl

theorem maskSize_mono (n : Nat) : maskSize n ≤ maskSize (n + 1) := by unfold maskSize; omega

theorem growMask_ok (n : Nat) (m : Bytes) (h : MaskOk n m) :
    MaskOk (n + 1) (growMask m (maskSize (n + 1))) ∧
    memOf (n + 1) (growMask m (maskSize (n + 1))) = memOf n m ++ [false] := by
  have hle : m.length ≤ maskSize (n + 1) := by rw [h.len]; exact maskSize_mono n
  refine ⟨⟨?_, fun j hj => ?_⟩, ?_⟩
  · unfold growMask
    split
    · exact length_resizeZ _ _
    · omega
  · rw [hasFile_growMask _ _ _ hle]; exact h.clean j (by omega)
  · apply List.ext_getElem?
    intro j
    rw [getElem?_memOf, hasFile_growMask _ _ _ hle, List.getElem?_append, length_memOf, getElem?_memOf]
    by_cases h1 : j < n
    · simp [h1, show j < n + 1 by omega]
    · by_cases h2 : j = n
      · subst h2; simp [h.clean j (Nat.le_refl _)]
      · simp only [h1, if_false, show ¬ j < n + 1 by omega]
        rw [List.getElem?_eq_none (by simp; omega)]

theorem addFile_ok (n i : Nat) (m : Bytes) (hi : i < n) (h : MaskOk n m) :
    MaskOk n (addFile m i) ∧ memOf n (addFile m i) = (memOf n m).set i true := by
  refine ⟨⟨?_, fun j hj => ?_⟩, ?_⟩
  · rw [length_addFile, h.len]; unfold maskSize; omega
  · rw [hasFile_addFile, h.clean j hj]
    have : (j == i) = false := by simp; omega
    simp [this]
  · apply List.ext_getElem?
    intro j
    rw [getElem?_memOf, hasFile_addFile, List.getElem?_set, length_memOf, getElem?_memOf]
    by_cases hji : i = j
    · subst hji; simp [hi]
    · have : (j == i) = false := by simp; omega
      simp [hji, this]

theorem removeFile_ok (n i : Nat) (m : Bytes) (hi : i < n) (h : MaskOk n m) :
    MaskOk n (removeFile m i) ∧ memOf n (removeFile m i) = (memOf n m).set i false := by
  refine ⟨⟨?_, fun j hj => ?_⟩, ?_⟩
  · rw [length_removeFile, h.len]
  · rw [hasFile_removeFile, h.clean j hj]; rfl
  · apply List.ext_getElem?
    intro j
    rw [getElem?_memOf, hasFile_removeFile, List.getElem?_set, length_memOf, getElem?_memOf]
    by_cases hji : i = j
    · subst hji; simp [hi]
    · have : (j != i) = true := by simp; omega
      simp [hji, this]

/-- `remove_file_shift`, install loop: deleting file `k` deletes position `k` of the vector -/
theorem instRemove_ok (n k : Nat) (m : Bytes) (hk : k < n) (h : MaskOk n m) :
    MaskOk (n - 1) (instRemoveMask m k (n - 1)) ∧
    memOf (n - 1) (instRemoveMask m k (n - 1)) = (memOf n m).eraseIdx k := by
  refine ⟨⟨length_instRemoveMask _ _ _, fun j hj => ?_⟩, ?_⟩
  · rw [hasFile_instRemoveMask]
    have : ¬ j < n - 1 := by omega
    simp [this]
  · apply List.ext_getElem?
    intro j
    rw [getElem?_memOf, hasFile_instRemoveMask, List.getElem?_eraseIdx, getElem?_memOf, getElem?_memOf]
    by_cases h1 : j < n - 1
    · by_cases h2 : j < k
      · simp [h1, h2, show j < n by omega]
      · simp [h1, h2, show j + 1 < n by omega]
    · by_cases h2 : j < k
      · omega
      · simp [h1, h2, show ¬ j + 1 < n by omega]

/-- `remove_file_shift`, download loop -/
theorem dlRemove_ok (n k : Nat) (m : Bytes) (hk : k < n) (h : MaskOk n m) :
    MaskOk (n - 1) (dlRemoveMask m k (n - 1)) ∧
    memOf (n - 1) (dlRemoveMask m k (n - 1)) = (memOf n m).eraseIdx k := by
  have hlen : n - 1 < m.length * 8 := by rw [h.len]; unfold maskSize; omega
  refine ⟨⟨length_dlRemoveMask _ _ _, fun j hj => ?_⟩, ?_⟩
  · rw [hasFile_dlRemoveMask_all]
    have : hasFile m (if j < k then j else j + 1) = false := by
      apply h.clean; split <;> omega
    simp [this]
  · apply List.ext_getElem?
    intro j
    rw [getElem?_memOf, List.getElem?_eraseIdx, getElem?_memOf, getElem?_memOf]
    by_cases h1 : j < n - 1
    · rw [hasFile_dlRemoveMask _ _ _ _ h1 hlen]
      by_cases h2 : j < k
      · simp [h1, h2, show j < n by omega]
      · simp [h1, h2, show j + 1 < n by omega]
    · by_cases h2 : j < k
      · omega
      · simp [h1, h2, show ¬ j + 1 < n by omega]


/-! ### name resolution -/

/-- first position of a name in a list of names -/
def idxOfN : List Bytes → Bytes → Option Nat
  | [], _ => none
  | n :: ns, x => if n = x then some 0 else (idxOfN ns x).map (· + 1)

theorem idxOfN_none (l : List Bytes) (x : Bytes) : idxOfN l x = none ↔ x ∉ l := by
  induction l with
  | nil => simp [idxOfN]
  | cons n ns ih =>
    unfold idxOfN
    by_cases h : n = x
    · simp [h]
    · simp only [h, if_false, Option.map_eq_none_iff, ih, List.mem_cons]
      constructor
      · intro h1 h2; rcases h2 with h2 | h2
        · exact h h2.symm
        · exact h1 h2
      · intro h1 h2; exact h1 (Or.inr h2)

theorem idxOfN_some (l : List Bytes) (x : Bytes) (i : Nat) (h : idxOfN l x = some i) :
    l[i]? = some x := by
  induction l generalizing i with
  | nil => simp [idxOfN] at h
  | cons n ns ih =>
    unfold idxOfN at h
    by_cases hn : n = x
    · simp only [hn, if_true, Option.some.injEq] at h; subst h; simp [hn]
    · simp only [hn, if_false, Option.map_eq_some_iff] at h
      obtain ⟨j, hj, rfl⟩ := h
      simp [ih j hj]

theorem idxOfN_append_fresh (l : List Bytes) (nm x : Bytes) (h : nm ∉ l) :
    idxOfN (l ++ [nm]) x = if x = nm then some l.length else idxOfN l x := by
  induction l with
  | nil =>
    simp only [List.nil_append, idxOfN, List.length_nil, Option.map_none]
    by_cases hx : nm = x
    · simp [hx]
    · have : ¬ x = nm := fun e => hx e.symm
      simp [hx, this]
  | cons n ns ih =>
    have hn : nm ≠ n := fun e => h (by simp [e])
    have hns : nm ∉ ns := fun e => h (List.mem_cons_of_mem _ e)
    simp only [List.cons_append, idxOfN, ih hns, List.length_cons]
    by_cases h1 : n = x
    · have : ¬ x = nm := fun e => hn (by rw [← e, h1])
      simp [h1, this]
    · by_cases h2 : x = nm
      · have : ¬ n = nm := fun e => hn e.symm
        subst h2
        simp [this]
      · simp [h1, h2]

/-- erasing the (unique) position of `nm` renumbers every other name's position -/
theorem idxOfN_eraseIdx (l : List Bytes) (nm x : Bytes) (ti : Nat) (hnd : l.Nodup)
    (hti : idxOfN l nm = some ti) :
    idxOfN (l.eraseIdx ti) x =
      if x = nm then none else (idxOfN l x).map fun v => if v > ti then v - 1 else v := by
  induction l generalizing ti with
  | nil => simp [idxOfN] at hti
  | cons n ns ih =>
    have hnn : n ∉ ns := (List.nodup_cons.mp hnd).1
    have hnd' : ns.Nodup := (List.nodup_cons.mp hnd).2
    unfold idxOfN at hti
    by_cases hn : n = nm
    · simp only [hn, if_true, Option.some.injEq] at hti
      subst hti
      subst hn
      simp only [List.eraseIdx_zero, List.tail_cons]
      by_cases hx : x = n
      · subst hx
        simp only [if_true]
        exact (idxOfN_none _ _).mpr hnn
      · have : ¬ n = x := fun e => hx e.symm
        simp only [hx, if_false, idxOfN, this]
        cases idxOfN ns x with
        | none => rfl
        | some v => simp
    · simp only [hn, if_false, Option.map_eq_some_iff] at hti
      obtain ⟨tj, htj, rfl⟩ := hti
      simp only [List.eraseIdx_cons_succ, idxOfN]
      rw [ih tj hnd' htj]
      by_cases hx : x = nm
      · subst hx
        have : ¬ n = x := hn
        simp [this]
      · by_cases h1 : n = x
        · simp [h1, hx]
        · simp only [h1, if_false, hx]
          cases idxOfN ns x with
          | none => rfl
          | some v =>
            simp only [Option.map_some, Option.some.injEq]
            split <;> split <;> omega

theorem nmLookup_erase (m : NameMap) (k x : Bytes) :
    nmLookup (nmErase m k) x = if x = k then none else nmLookup m x := by
  induction m with
  | nil => simp [nmErase, nmLookup]
  | cons p ps ih =>
    obtain ⟨k', v⟩ := p
    unfold nmErase at ih ⊢
    by_cases h1 : k' = k
    · simp only [List.filter_cons, h1, ne_eq, not_true_eq_false, decide_false, Bool.false_eq_true, if_false, ih, nmLookup]
      by_cases h2 : x = k
      · simp [h2]
      · have : ¬ k = x := fun e => h2 e.symm
        simp [h2, this]
    · simp only [List.filter_cons, h1, ne_eq, not_false_eq_true, decide_true, if_true, nmLookup, ih]
      by_cases h2 : k' = x
      · have : ¬ x = k := fun e => h1 (by rw [h2, e])
        simp [h2, this]
      · simp [h2]

theorem nmLookup_insert (m : NameMap) (k x : Bytes) (v : Nat) :
    nmLookup (nmInsert m k v) x = if x = k then some v else nmLookup m x := by
  unfold nmInsert
  simp only [nmLookup, nmLookup_erase]
  by_cases h : k = x
  · simp [h]
  · have : ¬ x = k := fun e => h e.symm
    simp [h, this]

theorem nmLookup_mapVal (m : NameMap) (f : Nat → Nat) (x : Bytes) :
    nmLookup (m.map fun p => (p.1, f p.2)) x = (nmLookup m x).map f := by
  induction m with
  | nil => simp [nmLookup]
  | cons p ps ih =>
    obtain ⟨k', v⟩ := p
    simp only [List.map_cons, nmLookup, ih]
    split <;> simp

/-- the name map resolves every name to its position in `tags` -/
def Look (tags : List Tag) (names : NameMap) : Prop :=
  ∀ x, nmLookup names x = idxOfN (tags.map (·.name)) x

/-! ### tags as a whole -/

def absTag (n : Nat) (t : Tag) : STag := ⟨t.name, t.typ, memOf n t.mask⟩

theorem modify_eq_mapIf (tags : List Tag) (nm : Bytes) (ti : Nat) (F : Tag → Tag) (A : Tag → STag)
    (G : STag → STag) (hnd : (tags.map (·.name)).Nodup)
    (hti : idxOfN (tags.map (·.name)) nm = some ti)
    (hA : ∀ t, (A t).name = t.name) (hFG : ∀ t ∈ tags, A (F t) = G (A t)) :
    (tags.modify ti F).map A = (tags.map A).map fun s => if s.name = nm then G s else s := by
  induction tags generalizing ti with
  | nil => simp [idxOfN] at hti
  | cons t ts ih =>
    simp only [List.map_cons] at hnd hti
    have hnn : t.name ∉ ts.map (·.name) := (List.nodup_cons.mp hnd).1
    have hnd' := (List.nodup_cons.mp hnd).2
    unfold idxOfN at hti
    by_cases hn : t.name = nm
    · simp only [hn, if_true, Option.some.injEq] at hti
      subst hti
      simp only [List.modify_zero_cons, List.map_cons, hA, hn, if_true, hFG t List.mem_cons_self]
      congr 1
      rw [List.map_map]
      apply List.map_congr_left
      intro s hs
      have : ¬ s.name = nm := by
        intro e; apply hnn; rw [hn, ← e]; exact List.mem_map_of_mem hs
      simp [hA, this]
    · simp only [hn, if_false, Option.map_eq_some_iff] at hti
      obtain ⟨tj, htj, rfl⟩ := hti
      simp only [List.modify_succ_cons, List.map_cons, hA, hn, if_false]
      congr 1
      exact ih tj hnd' htj (fun s hs => hFG s (List.mem_cons_of_mem _ hs))

theorem mapIf_absent (l : List STag) (nm : Bytes) (G : STag → STag)
    (h : ∀ s ∈ l, s.name ≠ nm) : (l.map fun s => if s.name = nm then G s else s) = l := by
  induction l with
  | nil => rfl
  | cons s ss ih =>
    simp only [List.map_cons, h s List.mem_cons_self, if_false]
    rw [ih (fun s' hs' => h s' (List.mem_cons_of_mem _ hs'))]

theorem eraseIdx_eq_filter (tags : List Tag) (nm : Bytes) (ti : Nat) (A : Tag → STag)
    (hnd : (tags.map (·.name)).Nodup) (hti : idxOfN (tags.map (·.name)) nm = some ti)
    (hA : ∀ t, (A t).name = t.name) :
    (tags.eraseIdx ti).map A = (tags.map A).filter fun s => s.name ≠ nm := by
  induction tags generalizing ti with
  | nil => simp [idxOfN] at hti
  | cons t ts ih =>
    simp only [List.map_cons] at hnd hti
    have hnn : t.name ∉ ts.map (·.name) := (List.nodup_cons.mp hnd).1
    have hnd' := (List.nodup_cons.mp hnd).2
    unfold idxOfN at hti
    by_cases hn : t.name = nm
    · simp only [hn, if_true, Option.some.injEq] at hti
      subst hti
      simp only [List.eraseIdx_zero, List.tail_cons, List.map_cons, List.filter_cons, hA, hn, ne_eq,
        not_true_eq_false, decide_false, Bool.false_eq_true, if_false]
      symm
      apply List.filter_eq_self.mpr
      intro s hs
      obtain ⟨t', ht', rfl⟩ := List.mem_map.mp hs
      simp only [hA, ne_eq, decide_eq_true_eq]
      intro e; apply hnn; rw [hn, ← e]; exact List.mem_map_of_mem ht'
    · simp only [hn, if_false, Option.map_eq_some_iff] at hti
      obtain ⟨tj, htj, rfl⟩ := hti
      simp only [List.eraseIdx_cons_succ, List.map_cons, List.filter_cons, hA, hn, ne_eq,
        not_false_eq_true, decide_true, if_true]
      congr 1
      exact ih tj hnd' htj


/-! ### install builder: invariant and refinement over whole programs -/

structure IInv (b : IBuilder) : Prop where
  masks : ∀ t ∈ b.tags, MaskOk b.entries.length t.mask
  nodup : (b.tags.map (·.name)).Nodup
  look : Look b.tags b.names

def absI (b : IBuilder) : SState IEntry := ⟨b.entries, b.tags.map (absTag b.entries.length)⟩

/-- a call that returns `Err` leaves the builder as it was (the caller keeps its previous value) -/
def orKeep (b : IBuilder) : Except Err IBuilder → IBuilder
  | .ok b' => b'
  | .error _ => b

def istep (b : IBuilder) : Op IEntry → IBuilder
  | .addTag name typ => b.addTag name typ
  | .addFile f => b.addFile f
  | .assoc i name => orKeep b (b.assoc i name)
  | .dissoc i name => orKeep b (b.dissoc i name)
  | .removeFile k => orKeep b (b.removeFile k)
  | .removeTag name => orKeep b (b.removeTag name)

def irun (b : IBuilder) (ops : List (Op IEntry)) : IBuilder := ops.foldl istep b

theorem growMasks_eq (tags : List Tag) (sz : Nat) :
    growMasks tags sz = tags.map fun t => { t with mask := growMask t.mask sz } := by
  unfold growMasks
  apply List.map_congr_left
  intro t _
  unfold growMask
  split <;> rfl

theorem hasName_abs (n : Nat) (tags : List Tag) (files : List IEntry) (name : Bytes) :
    hasName (⟨files, tags.map (absTag n)⟩ : SState IEntry) name = true ↔ name ∈ tags.map (·.name) := by
  unfold hasName
  simp only [List.any_map, List.any_eq_true, Function.comp, absTag, List.mem_map]
  constructor
  · rintro ⟨t, ht, h⟩; exact ⟨t, ht, of_decide_eq_true h⟩
  · rintro ⟨t, ht, h⟩; exact ⟨t, ht, decide_eq_true h⟩

/-- the common shape of `associate_file_with_tag` / `remove_file_from_tag` -/
def bitOp (b : IBuilder) (i : Nat) (name : Bytes) (f : Bytes → Bytes) : Except Err IBuilder :=
  if i ≥ b.entries.length then .error .fileOob else
  match nmLookup b.names name with
  | none => .error .tagNotFound
  | some ti =>
    match modTag b.tags ti f with
    | .error e => .error e
    | .ok ts => .ok { b with tags := ts }

theorem assoc_eq (b : IBuilder) (i : Nat) (name : Bytes) :
    b.assoc i name = bitOp b i name (fun m => addFile m i) := rfl
theorem dissoc_eq (b : IBuilder) (i : Nat) (name : Bytes) :
    b.dissoc i name = bitOp b i name (fun m => removeFile m i) := rfl

theorem names_modify_mask (tags : List Tag) (ti : Nat) (f : Bytes → Bytes) :
    (tags.modify ti fun t => { t with mask := f t.mask }).map (·.name) = tags.map (·.name) := by
  induction tags generalizing ti with
  | nil => simp
  | cons t ts ih =>
    cases ti with
    | zero => simp
    | succ k => simp [ih k]

theorem bitOp_refines (b : IBuilder) (hI : IInv b) (i : Nat) (name : Bytes) (f : Bytes → Bytes) (v : Bool)
    (hf : ∀ m, i < b.entries.length → MaskOk b.entries.length m →
      MaskOk b.entries.length (f m) ∧ memOf b.entries.length (f m) = (memOf b.entries.length m).set i v) :
    IInv (orKeep b (bitOp b i name f)) ∧ absI (orKeep b (bitOp b i name f)) =
      (if i < (absI b).files.length ∧ hasName (absI b) name = true
        then { absI b with tags := setMem (absI b).tags i name v } else absI b) := by
  by_cases hi : i ≥ b.entries.length
  · have e : bitOp b i name f = .error .fileOob := by unfold bitOp; rw [if_pos hi]
    rw [e]
    have : ¬ i < (absI b).files.length := by simp only [absI]; omega
    simp [this, hI, orKeep]
  · have hi' : i < b.entries.length := by omega
    cases hl : nmLookup b.names name with
    | none =>
      have e : bitOp b i name f = .error .tagNotFound := by unfold bitOp; rw [if_neg hi, hl]
      rw [e]
      have hnot : name ∉ b.tags.map (·.name) := by
        rw [← idxOfN_none, ← hI.look name]; exact hl
      have : ¬ hasName (absI b) name = true := by
        unfold absI; rw [hasName_abs]; exact hnot
      simp [this, hI, orKeep]
    | some ti =>
      have hidx : idxOfN (b.tags.map (·.name)) name = some ti := by rw [← hI.look name]; exact hl
      have hget := idxOfN_some _ _ _ hidx
      have hlt : ti < b.tags.length := by
        have := (List.getElem?_eq_some_iff.mp hget).1
        simpa using this
      have e : bitOp b i name f = .ok { b with tags := b.tags.modify ti fun t => { t with mask := f t.mask } } := by
        unfold bitOp modTag; rw [if_neg hi, hl]; simp only; rw [if_neg (by omega)]
      rw [e]
      simp only [orKeep]
      have hmem : name ∈ b.tags.map (·.name) := List.mem_of_getElem? hget
      have hhas : hasName (absI b) name = true := by unfold absI; rw [hasName_abs]; exact hmem
      have hnames := names_modify_mask b.tags ti f
      refine ⟨⟨?_, ?_, ?_⟩, ?_⟩
      · intro t ht
        simp only at ht ⊢
        obtain ⟨j, hj⟩ := List.getElem?_of_mem ht
        rw [List.getElem?_modify] at hj
        cases hg : b.tags[j]? with
        | none => rw [hg] at hj; cases hj
        | some t0 =>
          rw [hg] at hj
          simp only [Option.map_eq_map, Option.map_some, Option.some.injEq] at hj
          have ht0 : t0 ∈ b.tags := List.mem_of_getElem? hg
          split at hj
          · subst hj; exact (hf _ hi' (hI.masks t0 ht0)).1
          · subst hj; exact hI.masks t0 ht0
      · simp only; rw [hnames]; exact hI.nodup
      · intro x; simp only; rw [hnames]; exact hI.look x
      · have hcond : i < (absI b).files.length ∧ hasName (absI b) name = true := ⟨by simpa [absI] using hi', hhas⟩
        rw [if_pos hcond]
        unfold absI setMem
        simp only
        congr 1
        exact modify_eq_mapIf b.tags name ti _ (absTag b.entries.length)
          (fun s => { s with mem := s.mem.set i v }) hI.nodup hidx (fun _ => rfl)
          (fun t ht => by
            unfold absTag
            simp only [(hf t.mask hi' (hI.masks t ht)).2])


theorem map_name_eraseIdx (tags : List Tag) (ti : Nat) :
    (tags.eraseIdx ti).map (·.name) = (tags.map (·.name)).eraseIdx ti := by
  induction tags generalizing ti with
  | nil => simp
  | cons t ts ih =>
    cases ti with
    | zero => simp
    | succ k => simp [ih k]

theorem ite_some {α : Type} {c : Prop} [Decidable c] {A B s' : α}
    (h : (if c then some A else some B) = some s') : (if c then A else B) = s' := by
  split at h <;> rename_i hc <;> simp only [Option.some.injEq] at h
  · rw [if_pos hc]; exact h
  · rw [if_neg hc]; exact h

theorem addTag_refines (b : IBuilder) (hI : IInv b) (name : Bytes) (typ : Nat)
    (hfresh : hasName (absI b) name = false) :
    IInv (b.addTag name typ) ∧ absI (b.addTag name typ) =
      { absI b with tags := (absI b).tags ++ [⟨name, typ, List.replicate (absI b).files.length false⟩] } := by
  have hnot : name ∉ b.tags.map (·.name) := by
    intro h
    have := (hasName_abs b.entries.length b.tags b.entries name).mpr h
    unfold absI at hfresh; rw [this] at hfresh; cases hfresh
  unfold IBuilder.addTag
  refine ⟨⟨?_, ?_, ?_⟩, ?_⟩
  · intro t ht
    simp only [List.mem_append, List.mem_singleton] at ht ⊢
    rcases ht with ht | ht
    · exact hI.masks t ht
    · subst ht; exact maskOk_zero _
  · simp only [List.map_append, List.map_cons, List.map_nil]
    rw [List.nodup_append]
    refine ⟨hI.nodup, by simp, ?_⟩
    intro a ha c hc
    simp only [List.mem_singleton] at hc
    subst hc
    intro e; subst e; exact hnot ha
  · intro x
    simp only [List.map_append, List.map_cons, List.map_nil]
    rw [nmLookup_insert, idxOfN_append_fresh _ _ _ hnot, List.length_map, hI.look x]
  · unfold absI
    simp only [List.map_append, List.map_cons, List.map_nil, absTag, memOf_zero]

theorem addFile_refines (b : IBuilder) (hI : IInv b) (f : IEntry) :
    IInv (b.addFile f) ∧ absI (b.addFile f) =
      { files := (absI b).files ++ [f], tags := (absI b).tags.map fun t => { t with mem := t.mem ++ [false] } } := by
  unfold IBuilder.addFile
  simp only [growMasks_eq]
  have hlen : (b.entries ++ [f]).length = b.entries.length + 1 := by simp
  refine ⟨⟨?_, ?_, ?_⟩, ?_⟩
  · intro t ht
    simp only [List.mem_map] at ht
    obtain ⟨t0, ht0, rfl⟩ := ht
    simp only [hlen]
    exact (growMask_ok _ _ (hI.masks t0 ht0)).1
  · simp only [List.map_map, Function.comp_def]; exact hI.nodup
  · intro x; simp only [List.map_map, Function.comp_def]; exact hI.look x
  · unfold absI
    simp only [hlen, List.map_map]
    congr 1
    apply List.map_congr_left
    intro t ht
    simp only [Function.comp, absTag, (growMask_ok _ _ (hI.masks t ht)).2]

theorem removeFile_refines (b : IBuilder) (hI : IInv b) (k : Nat) :
    IInv (orKeep b (b.removeFile k)) ∧ absI (orKeep b (b.removeFile k)) =
      (if k < (absI b).files.length then
        { files := (absI b).files.eraseIdx k, tags := (absI b).tags.map fun t => { t with mem := t.mem.eraseIdx k } }
       else absI b) := by
  unfold IBuilder.removeFile
  by_cases hk : k ≥ b.entries.length
  · rw [if_pos hk]
    have : ¬ k < (absI b).files.length := by simp only [absI]; omega
    simp [orKeep, this, hI]
  · rw [if_neg hk]
    have hk' : k < b.entries.length := by omega
    have hlen : (b.entries.eraseIdx k).length = b.entries.length - 1 := by
      rw [List.length_eraseIdx, if_pos hk']
    simp only [orKeep, hlen]
    refine ⟨⟨?_, ?_, ?_⟩, ?_⟩
    · intro t ht
      simp only [List.mem_map] at ht
      obtain ⟨t0, ht0, rfl⟩ := ht
      simp only [hlen]
      exact (instRemove_ok _ _ _ hk' (hI.masks t0 ht0)).1
    · simp only [List.map_map, Function.comp_def]; exact hI.nodup
    · intro x; simp only [List.map_map, Function.comp_def]; exact hI.look x
    · have : k < (absI b).files.length := by simpa [absI] using hk'
      rw [if_pos this]
      unfold absI
      simp only [hlen, List.map_map]
      congr 1
      apply List.map_congr_left
      intro t ht
      simp only [Function.comp, absTag, (instRemove_ok _ _ _ hk' (hI.masks t ht)).2]

theorem removeTag_refines (b : IBuilder) (hI : IInv b) (name : Bytes) :
    IInv (orKeep b (b.removeTag name)) ∧ absI (orKeep b (b.removeTag name)) =
      { absI b with tags := (absI b).tags.filter fun t => t.name ≠ name } := by
  unfold IBuilder.removeTag
  cases hl : nmLookup b.names name with
  | none =>
    have hnot : name ∉ b.tags.map (·.name) := by
      rw [← idxOfN_none, ← hI.look name]; exact hl
    simp only [orKeep]
    refine ⟨hI, ?_⟩
    unfold absI
    simp only
    congr 1
    symm
    apply List.filter_eq_self.mpr
    intro s hs
    obtain ⟨t, ht, rfl⟩ := List.mem_map.mp hs
    apply decide_eq_true
    intro e; apply hnot; rw [← e]; exact List.mem_map_of_mem ht
  | some ti =>
    have hidx : idxOfN (b.tags.map (·.name)) name = some ti := by rw [← hI.look name]; exact hl
    have hget := idxOfN_some _ _ _ hidx
    have hlt : ti < b.tags.length := by
      have := (List.getElem?_eq_some_iff.mp hget).1
      simpa using this
    simp only [if_neg (show ¬ ti ≥ b.tags.length by omega), orKeep]
    have hnames : (b.tags.eraseIdx ti).map (·.name) = (b.tags.map (·.name)).eraseIdx ti := by
      exact map_name_eraseIdx _ _
    refine ⟨⟨?_, ?_, ?_⟩, ?_⟩
    · intro t ht; exact hI.masks t (List.mem_of_mem_eraseIdx ht)
    · simp only; rw [hnames]; exact List.Nodup.sublist (List.eraseIdx_sublist _ _) hI.nodup
    · intro x
      simp only
      rw [hnames, idxOfN_eraseIdx _ name x ti hI.nodup hidx]
      have hmv := nmLookup_mapVal (nmErase b.names name) (fun v => if v > ti then v - 1 else v) x
      rw [hmv, nmLookup_erase]
      by_cases hx : x = name
      · simp [hx]
      · simp only [hx, if_false]; rw [hI.look x]
    · unfold absI
      simp only
      congr 1
      exact eraseIdx_eq_filter b.tags name ti _ hI.nodup hidx (fun _ => rfl)

/-- one step of a program: invariant kept, abstraction commutes -/
theorem istep_refines (b : IBuilder) (hI : IInv b) (op : Op IEntry) (s' : SState IEntry)
    (hs : step (absI b) op = some s') : IInv (istep b op) ∧ absI (istep b op) = s' := by
  cases op with
  | addTag name typ =>
    simp only [step] at hs
    split at hs
    · cases hs
    · rename_i hf
      have hf' : hasName (absI b) name = false := by simpa using hf
      simp only [Option.some.injEq] at hs
      subst hs
      exact addTag_refines b hI name typ hf'
  | addFile f =>
    simp only [step, Option.some.injEq] at hs
    subst hs
    exact addFile_refines b hI f
  | assoc i name =>
    have := bitOp_refines b hI i name (fun m => addFile m i) true (fun m hi hm => addFile_ok _ _ _ hi hm)
    simp only [istep, assoc_eq]
    refine ⟨this.1, ?_⟩
    rw [this.2]
    simp only [step] at hs
    exact ite_some hs
  | dissoc i name =>
    have := bitOp_refines b hI i name (fun m => removeFile m i) false (fun m hi hm => removeFile_ok _ _ _ hi hm)
    simp only [istep, dissoc_eq]
    refine ⟨this.1, ?_⟩
    rw [this.2]
    simp only [step] at hs
    exact ite_some hs
  | removeFile k =>
    have := removeFile_refines b hI k
    simp only [istep]
    refine ⟨this.1, ?_⟩
    rw [this.2]
    simp only [step] at hs
    exact ite_some hs
  | removeTag name =>
    have := removeTag_refines b hI name
    simp only [istep]
    refine ⟨this.1, ?_⟩
    rw [this.2]
    simp only [step, Option.some.injEq] at hs
    exact hs

theorem iinv_empty : IInv IBuilder.empty :=
  ⟨fun _ h => by simp [IBuilder.empty] at h, by simp [IBuilder.empty], fun _ => rfl⟩

/-- whole programs -/
theorem irun_refines (ops : List (Op IEntry)) (b : IBuilder) (hI : IInv b) (s' : SState IEntry)
    (hs : run (absI b) ops = some s') : IInv (irun b ops) ∧ absI (irun b ops) = s' := by
  induction ops generalizing b with
  | nil =>
    simp only [run, Option.some.injEq] at hs
    subst hs; exact ⟨hI, rfl⟩
  | cons op ops ih =>
    simp only [run] at hs
    cases hst : step (absI b) op with
    | none => rw [hst] at hs; cases hs
    | some s1 =>
      rw [hst] at hs
      simp only at hs
      obtain ⟨h1, h2⟩ := istep_refines b hI op s1 hst
      simp only [irun, List.foldl_cons]
      exact ih (istep b op) h1 (by rw [h2]; exact hs)

end Cascette.Proofs.Manifest
