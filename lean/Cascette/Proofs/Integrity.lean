/-
Proofs/Integrity — lemmas about the acceptor models of Model/Integrity (property C07).
Core Lean only (no Mathlib).  Every lemma is for an arbitrary hash function.
-/
import Cascette.Model.Integrity
namespace Cascette.Proofs.Integrity
open Cascette Cascette.Model.Integrity
namespace Lru
open Model.Integrity.Lru

theorem deserialize_isSome_iff (H : Hash) (d : Bytes) :
    (deserialize H d).isSome ↔ validSize d.length = true ∧ version d ≤ maxVersion ∧ stored d = H (region d) := by
  unfold deserialize
  by_cases h1 : validSize d.length = true
  · by_cases h2 : version d > maxVersion
    · simp [h1, h2]; omega
    · by_cases h3 : H (region d) = stored d
      · simp [h1, h2, h3]; omega
      · simp [h1, h2, h3]; intro _ h; exact h3 h.symm
  · simp [h1]

theorem region_take4 (d : Bytes) (h : 4 ≤ d.length) : (region d).take 4 = d.take 4 := by
  unfold region
  rw [List.append_assoc, List.take_append_of_le_length (by simp [List.length_take]; omega)]
  rw [List.take_of_length_le (by simp [List.length_take]; omega)]

theorem region_drop20 (d : Bytes) (h : 4 ≤ d.length) : (region d).drop 20 = d.drop 20 := by
  unfold region
  have : (d.take 4 ++ List.replicate 16 (0 : Byte)).length = 20 := by simp [List.length_take]; omega
  rw [List.drop_append_of_le_length (by omega), List.drop_of_length_le (by omega)]
  simp

theorem split3 (d : Bytes) : d = d.take 4 ++ slice d 4 16 ++ d.drop 20 := by
  unfold slice
  have : d.drop 20 = (d.drop 4).drop 16 := by simp [List.drop_drop]
  rw [this, List.append_assoc, List.take_append_drop, List.take_append_drop]

/-- a file of at least 4 bytes is its hashed region with the stored hash put back. -/
theorem recon (d : Bytes) (h : 4 ≤ d.length) : d = (region d).take 4 ++ stored d ++ (region d).drop 20 := by
  rw [region_take4 d h, region_drop20 d h]; exact split3 d

theorem validSize_ge (n : Nat) (h : validSize n = true) : 28 ≤ n := by
  unfold validSize headerSize at h; simp at h; omega
end Lru

theorem slice_drop (d : Bytes) (a o n : Nat) : slice (d.drop a) o n = slice d (a + o) n := by
  simp [slice, List.drop_drop]

theorem slice_cong (H : Hash) (d : Bytes) (a a' b b' n : Nat) (h1 : a = a') (h2 : b = b')
    (h : H (slice d a' n) = slice d b' 16) : H (slice d a n) = slice d b 16 := by
  rw [h1, h2]; exact h

namespace Enc
open Model.Integrity.Enc

theorem parsePages_ok (H : Hash) (pe : Bytes → Except Err Nat) (ps : Nat) :
    ∀ (idx : List (Bytes × Bytes)) (rest : Bytes) (n : Nat) (r : Bytes),
      parsePages H pe ps idx rest = .ok (n, r) →
        idx.length * ps ≤ rest.length ∧ r = rest.drop (idx.length * ps) ∧
        ∀ i (hi : i < idx.length), H (slice rest (i * ps) ps) = (idx[i]).2 := by
  intro idx
  induction idx with
  | nil => intro rest n r h; simp [parsePages] at h; simp [h.2]
  | cons e more ih =>
    intro rest n r h
    obtain ⟨fk, ck⟩ := e
    unfold parsePages at h
    split at h
    · cases h
    · rename_i hlen
      split at h
      · cases h
      · rename_i hck
        simp only [ne_eq, Decidable.not_not] at hck
        split at h
        · cases h
        · rename_i n0 _
          split at h
          · cases h
          · rename_i m r' hrec
            obtain ⟨h1, h2, h3⟩ := ih _ _ _ hrec
            simp only [Except.ok.injEq, Prod.mk.injEq] at h
            simp only [List.length_drop] at h1
            refine ⟨by simp [Nat.add_mul]; omega, ?_, ?_⟩
            · rw [← h.2, h2, List.drop_drop]; congr 1; simp [Nat.add_mul]; omega
            · intro i hi
              cases i with
              | zero => simpa [slice] using hck
              | succ j =>
                have := h3 j (by simpa using hi)
                rw [slice_drop] at this
                simp only [List.getElem_cons_succ]
                have e : (j + 1) * ps = ps + j * ps := by rw [Nat.succ_mul]; omega
                rw [e]; exact this

/-- check-before-use: a page whose MD5 differs from the index checksum stops the parse with
`ChecksumMismatch` whatever the entry parser would have done with it. -/
theorem parsePages_mismatch (H : Hash) (pe : Bytes → Except Err Nat) (ps : Nat) (fk ck : Bytes)
    (more : List (Bytes × Bytes)) (rest : Bytes) (hlen : ps ≤ rest.length) (hne : H (rest.take ps) ≠ ck) :
    parsePages H pe ps ((fk, ck) :: more) rest = .error .checksum := by
  unfold parsePages
  rw [if_neg (by omega), if_pos hne]

theorem readIndex_length (n : Nat) : ∀ (b : Bytes), (readIndex n b).length = n := by
  induction n with
  | zero => intro b; rfl
  | succ k ih => intro b; simp [readIndex, ih]

theorem readIndex_get (n : Nat) : ∀ (b : Bytes) (i : Nat) (hi : i < (readIndex n b).length),
    ((readIndex n b)[i]).2 = slice b (32 * i + 16) 16 := by
  induction n with
  | zero => intro b i hi; simp [readIndex] at hi
  | succ k ih =>
    intro b i hi
    cases i with
    | zero => simp [readIndex]
    | succ j =>
      simp only [readIndex, List.getElem_cons_succ]
      rw [ih (b.drop 32) j (by simpa [readIndex] using hi), slice_drop]; congr 1; omega

/-- offsets of the two tables in a file with header `h`. -/
def ckIndexOff (h : Header) : Nat := 22 + h.especSize
def ckPagesOff (h : Header) : Nat := ckIndexOff h + 32 * h.ckCount
def ekIndexOff (h : Header) : Nat := ckPagesOff h + h.ckCount * (h.ckKb * 1024)
def ekPagesOff (h : Header) : Nat := ekIndexOff h + 32 * h.ekCount
/-- page `i` of the CKey table and the 16 checksum bytes stored for it in the index. -/
def ckPage (h : Header) (d : Bytes) (i : Nat) : Bytes := slice d (ckPagesOff h + i * (h.ckKb * 1024)) (h.ckKb * 1024)
def ckSum (h : Header) (d : Bytes) (i : Nat) : Bytes := slice d (ckIndexOff h + (32 * i + 16)) 16
def ekPage (h : Header) (d : Bytes) (i : Nat) : Bytes := slice d (ekPagesOff h + i * (h.ekKb * 1024)) (h.ekKb * 1024)
def ekSum (h : Header) (d : Bytes) (i : Nat) : Bytes := slice d (ekIndexOff h + (32 * i + 16)) 16

theorem parse_ok_verified (H : Hash) (d : Bytes) (r : Nat × Nat) (hp : parse H d = .ok r) :
    ∃ h, readHeader d = .ok h ∧ headerOk h = true ∧
      (∀ i, i < h.ckCount → H (ckPage h d i) = ckSum h d i) ∧
      (∀ i, i < h.ekCount → H (ekPage h d i) = ekSum h d i) := by
  unfold parse at hp
  split at hp
  · cases hp
  · rename_i h hh
    refine ⟨h, hh, ?_⟩
    split at hp
    · cases hp
    · rename_i hok
      split at hp
      · cases hp
      · split at hp
        · cases hp
        · split at hp
          · cases hp
          · simp only at hp
            split at hp
            · cases hp
            · split at hp
              · cases hp
              · rename_i nc r2 hc
                split at hp
                · cases hp
                · split at hp
                  · cases hp
                  · rename_i ne r3 he
                    obtain ⟨c1, c2, c3⟩ := parsePages_ok _ _ _ _ _ _ _ hc
                    obtain ⟨e1, e2, e3⟩ := parsePages_ok _ _ _ _ _ _ _ he
                    simp only [readIndex_length] at c1 c2 c3 e1 e2 e3
                    refine ⟨by simpa using hok, ?_, ?_⟩
                    · intro i hi
                      have := c3 i hi
                      rw [readIndex_get] at this
                      simp only [slice_drop] at this
                      unfold ckPage ckSum ckPagesOff ckIndexOff
                      exact slice_cong H d _ _ _ _ _ (by omega) (by omega) this
                    · intro i hi
                      have := e3 i hi
                      rw [readIndex_get, c2] at this
                      simp only [slice_drop] at this
                      unfold ekPage ekSum ekPagesOff ekIndexOff ckPagesOff ckIndexOff
                      exact slice_cong H d _ _ _ _ _ (by omega) (by omega) this
end Enc

namespace Aidx
open Model.Integrity.Aidx

/-- the footer-hash size the parser reads at `End(-13)`. -/
def hbOf (d : Bytes) : Nat := byteAt d (d.length - 13)
/-- the 20 fixed footer bytes as located by that size. -/
def footerOf (d : Bytes) : Bytes := slice d (d.length - (20 + hbOf d)) 20
/-- the stored footer hash: the last `hbOf d` bytes. -/
def storedOf (d : Bytes) : Bytes := d.drop (d.length - hbOf d)
/-- number of hash bytes `is_valid` compares. -/
def comparedOf (d : Bytes) : Nat := min (hbOf d) (byteAt (footerOf d) 15)
def rppZero (f : Bytes) : Bool := (byteAt f 11 * 1024) / (byteAt f 14 + byteAt f 13 + byteAt f 12) == 0

theorem footerCheck_pass_iff (H : Hash) (cs : Bool) (d : Bytes) (v ob ekl cnt : Nat) :
    footerCheck H cs d = .pass v ob ekl cnt ↔
      (13 ≤ d.length ∧ hbOf d = 8 ∧ 20 + hbOf d ≤ d.length ∧ comparedOf d ≤ 8 ∧
       (storedOf d).take (comparedOf d) = ((H (hashedOf (footerOf d))).take 8).take (comparedOf d) ∧
       formatOk (footerOf d) = true ∧
       (cs = true → rppZero (footerOf d) = false ∧ d.length = expectedSize (footerOf d)) ∧
       v = byteAt (footerOf d) 8 ∧ ob = byteAt (footerOf d) 12 ∧ ekl = byteAt (footerOf d) 14 ∧
       cnt = leNat (slice (footerOf d) 16 4)) := by
  unfold footerCheck
  simp only []
  show (if d.length < 13 then Out.io else
        if hbOf d ≠ 8 then Out.format else
        if d.length < 20 + hbOf d then Out.io else
        if 8 < comparedOf d then Out.panic else
        if (storedOf d).take (comparedOf d) ≠ ((H (hashedOf (footerOf d))).take 8).take (comparedOf d) then
          (if hbOf d < 8 then Out.panic else Out.checksum) else
        if !formatOk (footerOf d) then Out.format else
        if cs && rppZero (footerOf d) then Out.format else
        if cs && d.length != expectedSize (footerOf d) then Out.size else
        Out.pass (byteAt (footerOf d) 8) (byteAt (footerOf d) 12) (byteAt (footerOf d) 14) (leNat (slice (footerOf d) 16 4))) = _ ↔ _
  by_cases h1 : d.length < 13
  · simp [h1]; omega
  rw [if_neg h1]
  by_cases h0' : hbOf d ≠ 8
  · rw [if_pos h0']; simp; intro _ h; exact absurd h h0'
  rw [if_neg h0']
  have h0 : hbOf d = 8 := Decidable.not_not.mp h0'
  have hR : ∀ P : Prop, (13 ≤ d.length ∧ hbOf d = 8 ∧ P) ↔ P :=
    fun P => ⟨fun h => h.2.2, fun h => ⟨by omega, h0, h⟩⟩
  rw [hR]
  by_cases h2 : d.length < 20 + hbOf d
  · simp [h2]; omega
  by_cases h3 : 8 < comparedOf d
  · simp [h2, h3]; omega
  by_cases h4 : (storedOf d).take (comparedOf d) = ((H (hashedOf (footerOf d))).take 8).take (comparedOf d)
  · by_cases h5 : formatOk (footerOf d) = true
    · cases cs
      · simp [h2, h3, h4, h5]
        constructor
        · rintro ⟨rfl, rfl, rfl, rfl⟩; exact ⟨by omega, by omega, rfl, rfl, rfl, rfl⟩
        · rintro ⟨_, _, rfl, rfl, rfl, rfl⟩; exact ⟨rfl, rfl, rfl, rfl⟩
      · by_cases h6 : rppZero (footerOf d) = true
        · simp [h2, h3, h4, h5, h6]
        · by_cases h7 : d.length = expectedSize (footerOf d)
          · simp [h2, h3, h4, h5, h6, ← h7]
            constructor
            · rintro ⟨rfl, rfl, rfl, rfl⟩; exact ⟨by omega, by omega, rfl, rfl, rfl, rfl⟩
            · rintro ⟨_, _, rfl, rfl, rfl, rfl⟩; exact ⟨rfl, rfl, rfl, rfl⟩
          · simp [h2, h3, h4, h5, h6, h7]
    · simp [h2, h3, h4, h5]
  · by_cases h8 : hbOf d < 8 <;> simp [h2, h3, h4, h8]

theorem formatOk_hb (f : Bytes) (h : formatOk f = true) : byteAt f 15 = 8 := by
  unfold formatOk at h; simp at h; exact h.2

/-- every accepted footer had all 8 stored hash bytes compared (since fix 6b0ee35 the size byte at
`End(-13)` must be 8). -/
theorem pass_full_compare' (H : Hash) (cs : Bool) (d : Bytes) (v ob ekl cnt : Nat)
    (hp : footerCheck H cs d = .pass v ob ekl cnt) :
    hbOf d = 8 ∧ storedOf d = (H (hashedOf (footerOf d))).take 8 ∧ (storedOf d).length = 8 := by
  obtain ⟨a1, h8, a2, _, a4, a5, _⟩ := (footerCheck_pass_iff H cs d v ob ekl cnt).mp hp
  have hc : comparedOf d = 8 := by unfold comparedOf; rw [formatOk_hb _ a5, h8]; rfl
  have hl : (storedOf d).length = 8 := by unfold storedOf; simp [List.length_drop]; omega
  rw [hc, List.take_of_length_le (by omega), List.take_take] at a4
  exact ⟨h8, by simpa using a4, hl⟩

/-- when the size byte at `End(-13)` is 8 the comparison is over all 8 stored bytes. -/
theorem pass_full_compare (H : Hash) (cs : Bool) (d : Bytes) (v ob ekl cnt : Nat)
    (hp : footerCheck H cs d = .pass v ob ekl cnt) (_h8 : hbOf d = 8) :
    storedOf d = (H (hashedOf (footerOf d))).take 8 ∧ (storedOf d).length = 8 :=
  (pass_full_compare' H cs d v ob ekl cnt hp).2

/-- the footer stage never reaches one of its two slicing panics (fix 6b0ee35). -/
theorem footerCheck_no_panic (H : Hash) (cs : Bool) (d : Bytes) : footerCheck H cs d ≠ .panic := by
  by_cases h8 : byteAt d (d.length - 13) = 8
  · unfold footerCheck
    simp only [h8]
    intro h
    repeat' split at h
    all_goals first | omega | cases h
  · unfold footerCheck
    simp only []
    by_cases h1 : d.length < 13
    · rw [if_pos h1]; intro h; cases h
    · rw [if_neg h1, if_pos h8]; intro h; cases h

/-- the 28-byte file: 16 zero bytes, then `01 00 00 04 04 04 10 08 00 00 00 00`
(size byte at `End(-13)` = 0; accepted before fix 6b0ee35 without any hash byte compared). -/
def witness : Bytes := List.replicate 16 0 ++ [1, 0, 0, 4, 4, 4, 16, 8, 0, 0, 0, 0]

theorem witness_rejected (H : Hash) (cs : Bool) : footerCheck H cs witness = .format := by
  unfold footerCheck
  have h1 : witness.length = 28 := by decide
  have h2 : byteAt witness (28 - 13) = 0 := by decide
  simp [h1, h2]

/-! ### `is_valid` by itself (the checksum stage of `footerCheck`) -/

/-- `footerCheck` as a chain of guards over the named parts of the file. -/
theorem footerCheck_eq (H : Hash) (cs : Bool) (d : Bytes) :
    footerCheck H cs d =
      (if d.length < 13 then Out.io else
        if hbOf d ≠ 8 then Out.format else
        if d.length < 20 + hbOf d then Out.io else
        if 8 < comparedOf d then Out.panic else
        if (storedOf d).take (comparedOf d) ≠ ((H (hashedOf (footerOf d))).take 8).take (comparedOf d) then
          (if hbOf d < 8 then Out.panic else Out.checksum) else
        if !formatOk (footerOf d) then Out.format else
        if cs && rppZero (footerOf d) then Out.format else
        if cs && d.length != expectedSize (footerOf d) then Out.size else
        Out.pass (byteAt (footerOf d) 8) (byteAt (footerOf d) 12) (byteAt (footerOf d) 14) (leNat (slice (footerOf d) 16 4))) := by
  unfold footerCheck
  rfl

/-- with a full-size hash field (`footer_hash_bytes ≥ 8`, 8 stored bytes) `is_valid` is EQUALITY of the
stored hash with `H(fields ‖ 0⁸)[..8]`. -/
theorem isValid_iff (H : Hash) (ft : Bytes) (hl : ft.length = 28) (h8 : 8 ≤ byteAt (ft.take 20) 15) :
    isValid H ft = true ↔ ft.drop 20 = (H (hashedOf (ft.take 20))).take 8 := by
  unfold isValid
  have hlen : (ft.drop 20).length = 8 := by simp [hl]
  simp only [hlen, Nat.min_eq_left h8, List.take_take, Nat.min_self, beq_iff_eq]
  rw [List.take_of_length_le (by omega)]

/-- the `ChecksumMismatch` answer of `ArchiveIndex::parse` / `ChunkedArchiveIndex::open` is exactly
`!footer.is_valid()` on the last 28 bytes. -/
theorem checksum_iff_isValid (H : Hash) (cs : Bool) (d : Bytes) (h28 : 28 ≤ d.length) (h8 : hbOf d = 8) :
    footerCheck H cs d = .checksum ↔ isValid H (d.drop (d.length - 28)) = false := by
  rw [footerCheck_eq]
  have e1 : footerOf d = (d.drop (d.length - 28)).take 20 := by
    unfold footerOf slice; rw [h8]
  have e2 : storedOf d = (d.drop (d.length - 28)).drop 20 := by
    unfold storedOf; rw [h8, List.drop_drop]; congr 1; omega
  have e3 : ((d.drop (d.length - 28)).drop 20).length = 8 := by
    simp [List.length_drop]; omega
  have e4 : min (storedOf d).length (byteAt (footerOf d) 15) = comparedOf d := by
    unfold comparedOf; rw [h8, e2, e3]
  unfold isValid
  simp only []
  rw [← e1, ← e2, e4]
  have hc : ¬ 8 < comparedOf d := by unfold comparedOf; rw [h8]; omega
  rw [if_neg (by omega), if_neg (by simp [h8]), if_neg (by omega), if_neg hc]
  by_cases h4 : (storedOf d).take (comparedOf d) = ((H (hashedOf (footerOf d))).take 8).take (comparedOf d)
  · rw [if_neg (by simpa using h4)]
    simp only [h4, beq_self_eq_true]
    repeat' split
    all_goals simp
  · rw [if_pos h4, if_neg (by omega)]
    simp [h4]

end Aidx

namespace Upd
open Model.Integrity.Upd

theorem validate_iff (HL : Bytes → Nat) (e : Bytes) :
    validate HL e = true ↔ leNat (e.take 4) = HL (hashedOf (fromBytes e)) % 2 ^ 31 + 2 ^ 31 := by
  unfold validate guardOf; simp [fromBytes]

end Upd

namespace Upd
open Model.Integrity.Upd

theorem len24 (e : Bytes) (h : e.length = 24) : ∃ b0 b1 b2 b3 b4 b5 b6 b7 b8 b9 b10 b11 b12 b13 b14 b15 b16 b17 b18 b19 b20 b21 b22 b23,
    e = [b0,b1,b2,b3,b4,b5,b6,b7,b8,b9,b10,b11,b12,b13,b14,b15,b16,b17,b18,b19,b20,b21,b22,b23] := by
  match e, h with
  | [b0,b1,b2,b3,b4,b5,b6,b7,b8,b9,b10,b11,b12,b13,b14,b15,b16,b17,b18,b19,b20,b21,b22,b23], _ =>
    exact ⟨_,_,_,_,_,_,_,_,_,_,_,_,_,_,_,_,_,_,_,_,_,_,_,_, rfl⟩

/-- `to_bytes ∘ from_bytes` on the hashed range: bytes `[4,22)` come back verbatim (the 5-byte
archive location packing round-trips), the status byte comes back canonicalised. -/
theorem hashedOf_fromBytes (e : Bytes) (h : e.length = 24) : hashedOf (fromBytes e) = region e := by
  obtain ⟨b0,b1,b2,b3,b4,b5,b6,b7,b8,b9,b10,b11,b12,b13,b14,b15,b16,b17,b18,b19,b20,b21,b22,b23, rfl⟩ := len24 e h
  simp only [hashedOf, fromBytes, region, slice, byteAt, beNat, leNat, be32Bytes, le32Bytes, List.drop, List.take,
    List.foldl, List.getD_cons_zero, List.getD_cons_succ, List.cons_append, List.nil_append]
  simp only [List.cons.injEq, and_true, true_and]
  refine ⟨?_, ?_, ?_, ?_, ?_, ?_, ?_, ?_, ?_⟩ <;> bv_omega
end Upd

namespace V1
open Model.Integrity.V1

theorem rfind_spec (raw : Bytes) : ∀ (b p : Nat), rfind raw b = some p →
    p < b ∧ slice raw p 10 = pfx ∧ ∀ q, p < q → q < b → slice raw q 10 ≠ pfx := by
  intro b
  induction b with
  | zero => intro p h; simp [rfind] at h
  | succ k ih =>
    intro p h
    unfold rfind at h
    split at h
    · rename_i hk
      simp only [Option.some.injEq] at h; subst h
      exact ⟨by omega, hk, fun q h1 h2 => by omega⟩
    · rename_i hk
      obtain ⟨h1, h2, h3⟩ := ih p h
      refine ⟨by omega, h2, fun q hq1 hq2 => ?_⟩
      by_cases hqk : q = k
      · subst hqk; exact hk
      · exact h3 q hq1 (by omega)

theorem take_len_eq {α} (l : List α) (k n : Nat) (hk : n ≤ k) (h : (l.take k).length = n) : l.take k = l.take n := by
  rw [List.length_take] at h
  by_cases hkl : k ≤ l.length
  · have : k = n := by omega
    rw [this]
  · rw [List.take_of_length_le (by omega), List.take_of_length_le (by omega)]

/-- the LAST `Checksum: ` governs, and everything before it is what gets hashed. -/
theorem extract_some (raw m c : Bytes) (h : extract raw = (m, some c)) :
    ∃ p, rfind raw (raw.length + 1 - 10) = some p ∧ m = raw.take p ∧ c = slice raw (p + 10) 64 ∧
      c.length = 64 ∧ c.all isHexDigit = true := by
  unfold extract at h
  split at h
  · simp at h
  · rename_i p hp
    refine ⟨p, hp, ?_⟩
    simp only at h
    split at h
    · rename_i hc
      simp only [Prod.mk.injEq, Option.some.injEq] at h
      obtain ⟨h1, h2⟩ := h
      refine ⟨h1.symm, ?_, by rw [← h2]; exact hc.2.1, by rw [← h2]; exact hc.2.2⟩
      rw [← h2]
      unfold slice at hc ⊢
      have hlen := hc.2.1
      have hle : 64 ≤ hexEnd raw p - (p + 10) := by
        have := List.length_take_le (hexEnd raw p - (p + 10)) (List.drop (p + 10) raw); rw [hlen] at this; exact this
      exact take_len_eq _ _ 64 hle hlen
    · simp at h

theorem hexc_inj : ∀ a b : Fin 16, hexc a.val = hexc b.val → a = b := by decide

theorem hexLower_inj : ∀ (x y : Bytes), hexLower x = hexLower y → x = y := by
  intro x
  induction x with
  | nil => intro y h; cases y with
    | nil => rfl
    | cons b bs => simp [hexLower] at h
  | cons a as ih =>
    intro y h
    cases y with
    | nil => simp [hexLower] at h
    | cons b bs =>
      simp only [hexLower, List.cons.injEq] at h
      obtain ⟨h1, h2, h3⟩ := h
      have e1 := hexc_inj ⟨a.toNat / 16, by omega⟩ ⟨b.toNat / 16, by omega⟩ h1
      have e2 := hexc_inj ⟨a.toNat % 16, by omega⟩ ⟨b.toNat % 16, by omega⟩ h2
      simp only [Fin.mk.injEq] at e1 e2
      have : a = b := by apply BitVec.eq_of_toNat_eq; omega
      rw [this, ih bs h3]

/-! the positive direction: a well-formed LAST line is always found, whatever the bytes before it contain -/

/-- converse of `rfind_spec`. -/
theorem rfind_eq (raw : Bytes) (p : Nat) (hp : slice raw p 10 = pfx) :
    ∀ b, p < b → (∀ q, p < q → q < b → slice raw q 10 ≠ pfx) → rfind raw b = some p := by
  intro b
  induction b with
  | zero => intro h; omega
  | succ k ih =>
    intro hlt hno
    unfold rfind
    by_cases hk : p = k
    · subst hk; rw [if_pos hp]
    · have : slice raw k 10 ≠ pfx := hno k (by omega) (by omega)
      rw [if_neg this]
      exact ih (by omega) (fun q h1 h2 => hno q h1 (by omega))

/-- an occurrence of the prefix at `j` puts `h` (0x68) at `j + 1`. -/
theorem occ_second (t : Bytes) (j : Nat) (h : slice t j 10 = pfx) : (0x68 : Byte) ∈ t.drop (j + 1) := by
  unfold slice at h
  rw [← List.tail_drop]
  match hd : t.drop j, h with
  | [], h => simp [pfx] at h
  | [x], h => simp [pfx] at h
  | x :: y :: rest, h =>
    simp only [pfx, List.take_succ_cons, List.cons.injEq] at h
    simp [h.2.1]

theorem findNl_append (l r : Bytes) (h : ∀ x ∈ l, x ≠ 0x0a) :
    findNl (l ++ r) = (findNl r).map (· + l.length) := by
  induction l with
  | nil => simp
  | cons a as ih =>
    have ha : a ≠ 0x0a := h a (by simp)
    have := ih (fun x hx => h x (by simp [hx]))
    simp only [List.cons_append, findNl, if_neg ha, this, Option.map_map, List.length_cons]
    cases findNl r <;> simp [Nat.add_assoc]

theorem byteAt_append_right (a t : Bytes) (i : Nat) : byteAt (a ++ t) (a.length + i) = byteAt t i := by
  unfold byteAt
  simp [List.getD_eq_getElem?_getD, List.getElem?_append_right]

theorem hex_ne (x : Byte) (h : isHexDigit x = true) : x ≠ 0x68 ∧ x ≠ 0x0a ∧ x ≠ 0x0d := by
  refine ⟨?_, ?_, ?_⟩ <;> (intro e; subst e; revert h; decide)

/-- the tail `pfx ++ c ++ eol` has no second occurrence of the prefix. -/
theorem no_later (c eol : Bytes) (hx : ∀ x ∈ c, isHexDigit x = true) (he : ∀ x ∈ eol, x = 0x0a ∨ x = 0x0d)
    (j : Nat) (hj : 0 < j) : slice (pfx ++ (c ++ eol)) j 10 ≠ pfx := by
  intro h
  have h1 := occ_second _ _ h
  have h2 : (0x68 : Byte) ∈ (pfx ++ (c ++ eol)).drop 2 := by
    have : j + 1 = 2 + (j - 1) := by omega
    rw [this, ← List.drop_drop] at h1
    exact List.mem_of_mem_drop h1
  simp only [pfx, List.cons_append, List.drop_succ_cons, List.drop_zero, List.mem_cons, List.mem_append, List.nil_append] at h2
  rcases h2 with h2 | h2 | h2 | h2 | h2 | h2 | h2 | h2 | h2 | h2
  all_goals first
    | (revert h2; decide)
    | exact (hex_ne _ (hx _ h2)).1 rfl
    | (rcases he _ h2 with e | e <;> revert e <;> decide)


theorem slice_append_right (a t : Bytes) (i n : Nat) : slice (a ++ t) (a.length + i) n = slice t i n := by
  unfold slice; simp

theorem hexEnd_tail (a c eol : Bytes) (hl : c.length = 64) (hx : ∀ x ∈ c, isHexDigit x = true)
    (heol : eol = [] ∨ eol = [0x0a] ∨ eol = [0x0d, 0x0a]) :
    hexEnd (a ++ (pfx ++ (c ++ eol))) a.length = a.length + 74 := by
  have hnl : ∀ x ∈ pfx ++ c, x ≠ 0x0a := by
    intro x hm
    rcases List.mem_append.mp hm with h | h
    · revert h; unfold pfx; intro h e; subst e; revert h; decide
    · exact (hex_ne _ (hx _ h)).2.1
  have hlen : (pfx ++ c).length = 74 := by simp [pfx, hl]
  have hfind : findNl ((a ++ (pfx ++ (c ++ eol))).drop a.length) = (findNl eol).map (· + 74) := by
    rw [List.drop_left, ← List.append_assoc, findNl_append _ _ hnl, hlen]
  -- the last digit is not `\r`
  have hlast : byteAt (a ++ (pfx ++ (c ++ eol))) (a.length + 73) ≠ 0x0d := by
    rw [byteAt_append_right]
    have : (73 : Nat) = pfx.length + 63 := by simp [pfx]
    rw [this, byteAt_append_right]
    unfold byteAt
    have h63 : 63 < c.length := by omega
    rw [List.getD_eq_getElem?_getD, List.getElem?_append_left h63, List.getElem?_eq_getElem h63]
    simp only [Option.getD_some]
    have := (hex_ne _ (hx _ (List.getElem_mem h63))).2.2
    intro e; apply this; apply BitVec.eq_of_toNat_eq; simpa using e
  have hle : lineEnd (a ++ (pfx ++ (c ++ eol))) a.length = a.length + 74 + (eol.length - 1) := by
    unfold lineEnd
    rw [hfind]
    rcases heol with e | e | e <;> subst e
    · simp [findNl, pfx, hl]
    · simp [findNl]
    · have : findNl ([0x0d, 0x0a] : Bytes) = some 1 := by decide
      rw [this]; simp
  unfold hexEnd
  rw [hle]
  rcases heol with e | e | e <;> subst e
  · simp only [List.length_nil, Nat.zero_sub, Nat.add_zero]
    have : a.length + 74 - 1 = a.length + 73 := by omega
    rw [this]
    split
    · rename_i h; exact absurd h.2 hlast
    · rfl
  · simp only [List.length_singleton, Nat.sub_self, Nat.add_zero]
    have : a.length + 74 - 1 = a.length + 73 := by omega
    rw [this]
    split
    · rename_i h; exact absurd h.2 hlast
    · rfl
  · have hcr : byteAt (a ++ (pfx ++ (c ++ [0x0d, 0x0a]))) (a.length + 74) = 0x0d := by
      rw [byteAt_append_right]
      have : (74 : Nat) = pfx.length + 64 := by simp [pfx]
      rw [this, byteAt_append_right]
      have : (64 : Nat) = c.length + 0 := by omega
      rw [this, byteAt_append_right]
      decide
    have : a.length + 74 + (([0x0d, 0x0a] : Bytes).length - 1) = a.length + 75 := by simp
    rw [this]
    have : a.length + 75 - 1 = a.length + 74 := by omega
    rw [this]
    split
    · rfl
    · rename_i h; exact absurd ⟨by omega, hcr⟩ h

/-- an intact, well-formed last line governs WHATEVER precedes it (`a` may contain the text
`Checksum: ` any number of times, as well-formed lines or not). -/
theorem extract_wellformed_last (a c eol : Bytes) (hl : c.length = 64) (hx : c.all isHexDigit = true)
    (heol : eol = [] ∨ eol = [0x0a] ∨ eol = [0x0d, 0x0a]) :
    extract (a ++ pfx ++ c ++ eol) = (a, some c) := by
  have hx' : ∀ x ∈ c, isHexDigit x = true := by simpa [List.all_eq_true] using hx
  have he : ∀ x ∈ eol, x = 0x0a ∨ x = 0x0d := by
    rcases heol with e | e | e <;> subst e <;> simp
  have hraw : a ++ pfx ++ c ++ eol = a ++ (pfx ++ (c ++ eol)) := by simp [List.append_assoc]
  rw [hraw]
  have hp : slice (a ++ (pfx ++ (c ++ eol))) a.length 10 = pfx := by
    have := slice_append_right a (pfx ++ (c ++ eol)) 0 10
    rw [Nat.add_zero] at this
    rw [this]; unfold slice; simp [pfx]
  have hrf : rfind (a ++ (pfx ++ (c ++ eol))) ((a ++ (pfx ++ (c ++ eol))).length + 1 - 10) = some a.length := by
    apply rfind_eq _ _ hp
    · simp [pfx, hl]; omega
    · intro q h1 _
      have : q = a.length + (q - a.length) := by omega
      rw [this, slice_append_right]
      exact no_later c eol hx' he _ (by omega)
  unfold extract
  rw [hrf]
  simp only [hexEnd_tail a c eol hl hx' heol]
  have hc : slice (a ++ (pfx ++ (c ++ eol))) (a.length + 10) (a.length + 74 - (a.length + 10)) = c := by
    have : a.length + 74 - (a.length + 10) = 64 := by omega
    rw [this, slice_append_right]
    have : (10 : Nat) = pfx.length + 0 := by simp [pfx]
    rw [this, slice_append_right]
    unfold slice
    rw [List.drop_zero, ← hl, List.take_left]
  rw [hc, if_pos ⟨by omega, hl, hx⟩, List.take_left]
end V1

namespace Cache
open Model.Integrity.Cache

theorem erase_cons (k k' v : Bytes) (r : Layer) :
    erase k ((k', v) :: r) = if k' = k then erase k r else (k', v) :: erase k r := by
  unfold erase; rw [List.filter_cons]; by_cases h : k' = k <;> simp [h]

theorem lookup_erase (k : Bytes) : ∀ l : Layer, lookup k (erase k l) = none := by
  intro l
  induction l with
  | nil => rfl
  | cons p r ih =>
    obtain ⟨k', v⟩ := p
    rw [erase_cons]
    by_cases h : k' = k
    · rw [if_pos h]; exact ih
    · rw [if_neg h]; unfold lookup; rw [if_neg h]; exact ih

theorem getValidated_sound (H : Hash) (cfg : Cfg) (s s' : List Layer) (k c v : Bytes)
    (hh : cfg.hooks = true) (h : getValidated H cfg s k (some c) = (s', .hit v)) :
    H v = c ∨ cfg.skipAbove < v.length := by
  unfold getValidated at h
  split at h
  · simp at h
  · rename_i v0 _
    simp only [hh] at h
    split at h
    · rename_i hv
      simp only [Prod.mk.injEq, Out.hit.injEq] at h
      rw [← h.2]
      unfold hooksValid hooksValidLen at hv
      simp at hv
      rcases hv with hv | hv
      · exact Or.inr hv
      · exact Or.inl hv
    · simp at h

theorem getValidated_corrupt (H : Hash) (cfg : Cfg) (s s' : List Layer) (k : Bytes) (e : Option Bytes)
    (h : getValidated H cfg s k e = (s', .corrupt)) : ∀ l ∈ s', lookup k l = none := by
  unfold getValidated at h
  split at h
  · simp at h
  · split at h
    · split at h
      · simp at h
      · simp only [Prod.mk.injEq, and_true] at h
        intro l hl
        rw [← h] at hl
        obtain ⟨l0, _, rfl⟩ := List.mem_map.mp hl
        exact lookup_erase k l0
    · simp at h

end Cache

namespace Lhdr
open Model.Integrity.Lhdr

theorem lanes_lin (bs : Bytes) : ∀ (i : Nat) (f : Nat → Byte) (j : Nat),
    lanes i bs f j = f j ^^^ lanes i bs (fun _ => 0) j := by
  induction bs with
  | nil => intro i f j; simp [lanes]
  | cons b bs ih =>
    intro i f j
    simp only [lanes]
    rw [ih (i+1) (fun j => if j = i % 4 then f j ^^^ b else f j) j,
        ih (i+1) (fun j => if j = i % 4 then (0:Byte) ^^^ b else 0) j]
    by_cases h : j = i % 4
    · simp [h, BitVec.xor_assoc]
    · simp [h]

/-- the lane a byte falls into is that byte XOR a value that does not depend on it. -/
theorem lanes_at (pre post : Bytes) : ∀ (i : Nat) (f : Nat → Byte), ∃ c : Byte, ∀ a : Byte,
    lanes i (pre ++ a :: post) f ((i + pre.length) % 4) = a ^^^ c := by
  induction pre with
  | nil =>
    intro i f
    refine ⟨f (i % 4) ^^^ lanes (i+1) post (fun _ => 0) (i % 4), fun a => ?_⟩
    simp only [List.nil_append, lanes, List.length_nil, Nat.add_zero]
    rw [lanes_lin]
    simp only [if_true]
    rw [BitVec.xor_comm (f (i % 4)) a, BitVec.xor_assoc]
  | cons p pre ih =>
    intro i f
    obtain ⟨c, hc⟩ := ih (i+1) (fun j => if j = i % 4 then f j ^^^ p else f j)
    refine ⟨c, fun a => ?_⟩
    simp only [List.cons_append, lanes, List.length_cons]
    have : (i + (pre.length + 1)) % 4 = (i + 1 + pre.length) % 4 := by congr 1; omega
    rw [this]; exact hc a

theorem xor_cancel (a x c : Byte) (h : a ^^^ c = x ^^^ c) : a = x := by
  have := congrArg (· ^^^ c) h
  simpa [BitVec.xor_assoc] using this

/-- EVERY single-byte change of a valid 30-byte local header is rejected by `validate_checksums`,
for every hash `HA`: positions `[0,26)` change one XOR lane of checksum B, positions `[26,30)` are
checksum B itself. -/
theorem single_byte_change_rejected (HA : Bytes → Nat) (base : Nat) (pre post : Bytes) (a x : Byte)
    (hlen : (pre ++ a :: post).length = 30) (hax : a ≠ x)
    (hv : validate HA base (pre ++ a :: post) = true) : validate HA base (pre ++ x :: post) = false := by
  cases hv' : validate HA base (pre ++ x :: post) with
  | false => rfl
  | true =>
    exfalso
    unfold validate at hv hv'
    simp only [Bool.and_eq_true, beq_iff_eq] at hv hv'
    have hb := hv.2
    have hb' := hv'.2
    simp only [List.length_append, List.length_cons] at hlen
    by_cases hp : pre.length < 26
    · -- the changed byte is inside the XOR range
      have hs : slice (pre ++ x :: post) 26 4 = slice (pre ++ a :: post) 26 4 := by
        unfold slice
        rw [List.drop_append, List.drop_append]
        rw [List.drop_of_length_le (by omega)]
        have : 26 - pre.length = (25 - pre.length) + 1 := by omega
        rw [this, List.drop_succ_cons, List.drop_succ_cons]
      have ht : ∀ y : Byte, (pre ++ y :: post).take 26 = pre ++ y :: post.take (25 - pre.length) := by
        intro y
        rw [List.take_append, List.take_of_length_le (by omega)]
        have : 26 - pre.length = (25 - pre.length) + 1 := by omega
        rw [this, List.take_succ_cons]
      rw [hs, hb] at hb'
      unfold checksumB at hb'
      simp only [ht] at hb'
      obtain ⟨c, hc⟩ := lanes_at pre (post.take (25 - pre.length)) base (fun _ => 0)
      simp only [List.cons.injEq, and_true] at hb'
      have hj : (base + pre.length) % 4 < 4 := Nat.mod_lt _ (by omega)
      have : lanes base (pre ++ a :: post.take (25 - pre.length)) (fun _ => 0) ((base + pre.length) % 4) =
             lanes base (pre ++ x :: post.take (25 - pre.length)) (fun _ => 0) ((base + pre.length) % 4) := by
        generalize (base + pre.length) % 4 = j at hj
        obtain ⟨h0, h1, h2, h3⟩ := hb'
        match j, hj with
        | 0, _ => exact h0
        | 1, _ => exact h1
        | 2, _ => exact h2
        | 3, _ => exact h3
      rw [hc a, hc x] at this
      exact hax (xor_cancel a x c this)
    · -- the changed byte is in the checksum B field itself
      have ht : (pre ++ x :: post).take 26 = (pre ++ a :: post).take 26 := by
        rw [List.take_append_of_le_length (by omega), List.take_append_of_le_length (by omega)]
      have hcb : checksumB base (pre ++ x :: post) = checksumB base (pre ++ a :: post) := by
        unfold checksumB; rw [ht]
      have hsl : ∀ y : Byte, slice (pre ++ y :: post) 26 4 = pre.drop 26 ++ y :: post := by
        intro y
        unfold slice
        rw [List.drop_append_of_le_length (by omega), List.take_of_length_le (by simp; omega)]
      rw [hcb, ← hb, hsl, hsl] at hb'
      have := List.append_cancel_left hb'
      simp only [List.cons.injEq, and_true] at this
      exact hax this.symm
end Lhdr

end Cascette.Proofs.Integrity
