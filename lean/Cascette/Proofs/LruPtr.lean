/-
Proofs/LruPtr — the `.lru` file codec of `lru_file.rs` round-trips (for EVERY 16-byte hash
function in place of MD5), and what `load_from_disk` rebuilds from it.
-/
import Cascette.Model.LruPtr
namespace Cascette.Proofs.LruPtr
open Cascette Cascette.Model.LruPtr

/-- an entry whose fields fit the on-disk widths (`u32`, `[u8; 9]`, `u8`). -/
def Entry.Fits (e : Entry) : Prop :=
  e.prev < 2 ^ 32 ∧ e.next < 2 ^ 32 ∧ e.ekey.length = 9 ∧ e.flags < 256

theorem u32_back (n : Nat) (h : n < 2 ^ 32) :
    (le32 (byteOf (BitVec.ofNat 32 n) 0) (byteOf (BitVec.ofNat 32 n) 1) (byteOf (BitVec.ofNat 32 n) 2)
      (byteOf (BitVec.ofNat 32 n) 3)).toNat = n := by
  rw [le32_toLe32]
  simp only [BitVec.toNat_ofNat]
  omega

theorem entry_roundtrip (e : Entry) (h : Entry.Fits e) (rest : Bytes) :
    parseEntries (entryBytes e ++ rest) = e :: parseEntries rest := by
  obtain ⟨hp, hn, hk, hf⟩ := h
  obtain ⟨prev, next, ekey, flags⟩ := e
  simp only at hp hn hk hf
  match ekey, hk with
  | [k0, k1, k2, k3, k4, k5, k6, k7, k8], _ =>
    simp only [entryBytes, u32le, toLe32, List.cons_append, List.nil_append, parseEntries,
      u32_back prev hp, u32_back next hn, BitVec.toNat_ofNat]
    have : flags % 2 ^ 8 = flags := Nat.mod_eq_of_lt (by omega)
    rw [this]

theorem body_roundtrip (es : List Entry) (h : ∀ e ∈ es, Entry.Fits e) :
    parseEntries (bodyBytes es) = es := by
  induction es with
  | nil => rfl
  | cons e es ih =>
    simp only [bodyBytes]
    rw [entry_roundtrip e (h e List.mem_cons_self), ih (fun x hx => h x (List.mem_cons_of_mem _ hx))]

theorem entryBytes_length (e : Entry) (h : Entry.Fits e) : (entryBytes e).length = 20 := by
  obtain ⟨_, _, hk, _⟩ := h
  simp [entryBytes, u32le, toLe32, hk]

theorem bodyBytes_length (es : List Entry) (h : ∀ e ∈ es, Entry.Fits e) :
    (bodyBytes es).length = 20 * es.length := by
  induction es with
  | nil => rfl
  | cons e es ih =>
    simp only [bodyBytes, List.length_append, List.length_cons,
      entryBytes_length e (h e List.mem_cons_self), ih (fun x hx => h x (List.mem_cons_of_mem _ hx))]
    omega

/-- `deserialize ∘ serialize` is the identity on everything but the hash field, for every
function `md5` returning 16 bytes: what `checkpoint_to_disk` writes, `load_from_disk` parses back
to the same header indices and the same entry array. -/
theorem codec_roundtrip (md5 : Bytes → Bytes) (hmd5 : ∀ x, (md5 x).length = 16)
    (h : Header) (es : List Entry)
    (hv : h.version ≤ 1) (hh : h.head < 2 ^ 32) (ht : h.tail < 2 ^ 32)
    (hes : ∀ e ∈ es, Entry.Fits e) :
    deserialize md5 (serialize md5 h es) =
      some ({ h with hash := md5 (headerBytes h zeros16 ++ bodyBytes es) }, es) := by
  have hlen := bodyBytes_length es hes
  generalize hd : md5 (headerBytes h zeros16 ++ bodyBytes es) = digest
  have hdl : digest.length = 16 := by rw [← hd]; exact hmd5 _
  match digest, hdl with
  | [d0, d1, d2, d3, d4, d5, d6, d7, d8, d9, d10, d11, d12, d13, d14, d15], _ =>
    have hser0 : serialize md5 h es =
        headerBytes h [d0, d1, d2, d3, d4, d5, d6, d7, d8, d9, d10, d11, d12, d13, d14, d15] ++ bodyBytes es := by
      simp only [serialize, hd]
    have hser : serialize md5 h es =
        BitVec.ofNat 8 h.version :: BitVec.ofNat 8 (h.version / 256) :: 0 :: 0 ::
        ([d0, d1, d2, d3, d4, d5, d6, d7, d8, d9, d10, d11, d12, d13, d14, d15] ++
          (byteOf (BitVec.ofNat 32 h.head) 0 :: byteOf (BitVec.ofNat 32 h.head) 1 ::
           byteOf (BitVec.ofNat 32 h.head) 2 :: byteOf (BitVec.ofNat 32 h.head) 3 ::
           byteOf (BitVec.ofNat 32 h.tail) 0 :: byteOf (BitVec.ofNat 32 h.tail) 1 ::
           byteOf (BitVec.ofNat 32 h.tail) 2 :: byteOf (BitVec.ofNat 32 h.tail) 3 :: bodyBytes es)) := by
      rw [hser0]
      simp only [headerBytes, u16le, u32le, toLe32, List.cons_append, List.nil_append]
    have hsz : ¬ ((serialize md5 h es).length < 28 ∨ ((serialize md5 h es).length - 28) % 20 ≠ 0) := by
      rw [hser]; simp only [List.length_cons, List.length_append, List.length_nil, hlen]; omega
    have hz : headerBytes h zeros16 ++ bodyBytes es =
        [BitVec.ofNat 8 h.version, BitVec.ofNat 8 (h.version / 256), 0, 0] ++ zeros16 ++
          (byteOf (BitVec.ofNat 32 h.head) 0 :: byteOf (BitVec.ofNat 32 h.head) 1 ::
           byteOf (BitVec.ofNat 32 h.head) 2 :: byteOf (BitVec.ofNat 32 h.head) 3 ::
           byteOf (BitVec.ofNat 32 h.tail) 0 :: byteOf (BitVec.ofNat 32 h.tail) 1 ::
           byteOf (BitVec.ofNat 32 h.tail) 2 :: byteOf (BitVec.ofNat 32 h.tail) 3 :: bodyBytes es) := by
      simp only [headerBytes, u16le, u32le, toLe32, List.cons_append, List.nil_append, List.append_assoc]
    have hver : (BitVec.ofNat 8 h.version).toNat + 256 * (BitVec.ofNat 8 (h.version / 256)).toNat = h.version := by
      simp only [BitVec.toNat_ofNat]; omega
    unfold deserialize
    rw [if_neg hsz, hser]
    simp only [hver, List.take_left', List.drop_left', List.length_cons, List.length_nil,
      show ¬ (1 < h.version) by omega, if_false, ← hz, hd,
      u32_back h.head hh, u32_back h.tail ht, body_roundtrip es hes, ne_eq, not_true_eq_false]
