/-
Proofs/GroupMerge — the k-way heap merge of `build_merged` (Model/ArchiveIndex.kmerge): no key of any
source archive index is lost, and every merged record is an inserted one.
-/
import Cascette.Model.ArchiveIndex
namespace Cascette.Proofs.GroupMerge
open Cascette.Model.Paged Cascette.Model.ArchiveIndex

/-- advancing the cursor of source `i` -/
def adv (srcs : List Src) (i : Nat) : List Src := srcs.modify i fun s => (s.1, s.2.tail)

theorem pickMin_some : ∀ (srcs : List Src) (i : Nat) (best : Option (Nat × Nat × Entry)) (j a : Nat) (e : Entry),
    pickMin srcs i best = some (j, a, e) →
    best = some (j, a, e) ∨ ∃ idx tl, j = i + idx ∧ srcs[idx]? = some (a, e :: tl) := by
  intro srcs
  induction srcs with
  | nil => intro i best j a e h; simp [pickMin] at h; exact Or.inl h
  | cons s rest ih =>
    intro i best j a e h
    obtain ⟨sa, sl⟩ := s
    cases sl with
    | nil =>
      simp only [pickMin] at h
      rcases ih (i + 1) best j a e h with h1 | ⟨idx, tl, hj, hg⟩
      · exact Or.inl h1
      · exact Or.inr ⟨idx + 1, tl, by omega, by simpa using hg⟩
    | cons e1 tl1 =>
      have key : ∀ b', pickMin rest (i + 1) b' = some (j, a, e) → (b' = some (i, sa, e1) ∨ b' = best) →
          best = some (j, a, e) ∨ ∃ idx tl, j = i + idx ∧ ((sa, e1 :: tl1) :: rest)[idx]? = some (a, e :: tl) := by
        intro b' hb' hor
        rcases ih (i + 1) b' j a e hb' with h1 | ⟨idx, tl, hj, hg⟩
        · rcases hor with h2 | h2
          · rw [h2] at h1
            injection h1 with h1
            injection h1 with hi h1
            injection h1 with ha he
            exact Or.inr ⟨0, tl1, by omega, by simp [ha, he]⟩
          · rw [h2] at h1; exact Or.inl h1
        · exact Or.inr ⟨idx + 1, tl, by omega, by simpa using hg⟩
      cases best with
      | none => simp only [pickMin] at h; exact key _ h (Or.inl rfl)
      | some b =>
        obtain ⟨bi, ba, be⟩ := b
        simp only [pickMin] at h
        split at h
        · exact key _ h (Or.inl rfl)
        · exact key _ h (Or.inr rfl)

theorem pickMin_none : ∀ (srcs : List Src) (i : Nat) (best : Option (Nat × Nat × Entry)),
    pickMin srcs i best = none → best = none ∧ ∀ s ∈ srcs, s.2 = [] := by
  intro srcs
  induction srcs with
  | nil => intro i best h; simp [pickMin] at h; exact ⟨h, by simp⟩
  | cons s rest ih =>
    intro i best h
    obtain ⟨sa, sl⟩ := s
    cases sl with
    | nil =>
      simp only [pickMin] at h
      obtain ⟨h1, h2⟩ := ih _ _ h
      exact ⟨h1, by intro s hs; rcases List.mem_cons.mp hs with rfl | hs; rfl; exact h2 s hs⟩
    | cons e1 tl1 =>
      cases best with
      | none => simp only [pickMin] at h; have := (ih _ _ h).1; cases this
      | some b =>
        obtain ⟨bi, ba, be⟩ := b
        simp only [pickMin] at h
        split at h
        · have := (ih _ _ h).1; cases this
        · have := (ih _ _ h).1; cases this

theorem adv_total : ∀ (srcs : List Src) (i a : Nat) (e : Entry) (tl : List Entry),
    srcs[i]? = some (a, e :: tl) → totalLen (adv srcs i) + 1 = totalLen srcs := by
  intro srcs
  induction srcs with
  | nil => intro i a e tl h; simp at h
  | cons s rest ih =>
    intro i a e tl h
    cases i with
    | zero =>
      simp at h; subst h
      simp [adv, totalLen]; omega
    | succ i =>
      simp at h
      have := ih i a e tl h
      simp [adv, totalLen] at this ⊢
      omega

theorem adv_mem : ∀ (srcs : List Src) (i a : Nat) (e0 : Entry) (tl : List Entry),
    srcs[i]? = some (a, e0 :: tl) → ∀ s ∈ srcs, ∀ e ∈ s.2, e = e0 ∨ ∃ s' ∈ adv srcs i, e ∈ s'.2 := by
  intro srcs
  induction srcs with
  | nil => intro i a e0 tl h; simp at h
  | cons s0 rest ih =>
    intro i a e0 tl h s hs e he
    cases i with
    | zero =>
      simp at h; subst h
      rcases List.mem_cons.mp hs with rfl | hs
      · rcases List.mem_cons.mp he with rfl | he
        · exact Or.inl rfl
        · exact Or.inr ⟨(a, tl), by simp [adv], he⟩
      · exact Or.inr ⟨s, by simp [adv, hs], he⟩
    | succ i =>
      simp at h
      rcases List.mem_cons.mp hs with rfl | hs
      · exact Or.inr ⟨s, by simp [adv], he⟩
      · rcases ih i a e0 tl h s hs e he with h1 | ⟨s', hs', he'⟩
        · exact Or.inl h1
        · exact Or.inr ⟨s', by simp [adv] at hs' ⊢; exact Or.inr hs', he'⟩

/-- **No key is lost by the k-way merge**: every key of every source is the key of an output
record (or equals the previous output key the loop was started with). No sortedness needed. -/
theorem kmerge_no_key_lost : ∀ (fuel : Nat) (srcs : List Src) (prev : Option Key), totalLen srcs < fuel →
    ∀ s ∈ srcs, ∀ e ∈ s.2, e.key ∈ (kmerge fuel srcs prev).map (·.key) ∨ prev = some e.key := by
  intro fuel
  induction fuel with
  | zero => intro srcs prev h; omega
  | succ fuel ih =>
    intro srcs prev hlen s hs e he
    unfold kmerge
    cases hp : pickMin srcs 0 none with
    | none =>
      have := (pickMin_none srcs 0 none hp).2 s hs
      rw [this] at he; cases he
    | some r =>
      obtain ⟨i, a, e0⟩ := r
      rcases pickMin_some srcs 0 none i a e0 hp with h | ⟨idx, tl, hi, hg⟩
      · cases h
      · have hi' : i = idx := by omega
        subst hi'
        have htot := adv_total srcs i a e0 tl hg
        have hmem := adv_mem srcs i a e0 tl hg s hs e he
        simp only []
        change (e.key ∈ List.map (·.key) (if prev == some e0.key then kmerge fuel (adv srcs i) prev
          else _ :: kmerge fuel (adv srcs i) (some e0.key)) ∨ prev = some e.key)
        by_cases hpe : prev = some e0.key
        · rw [if_pos (by simp [hpe])]
          rcases hmem with rfl | ⟨s', hs', he'⟩
          · exact Or.inr hpe
          · exact ih (adv srcs i) prev (by omega) s' hs' e he'
        · rw [if_neg (by simpa using hpe)]
          rcases hmem with rfl | ⟨s', hs', he'⟩
          · exact Or.inl (by simp)
          · rcases ih (adv srcs i) (some e0.key) (by omega) s' hs' e he' with h1 | h1
            · exact Or.inl (by simp at h1 ⊢; exact Or.inr h1)
            · exact Or.inl (by simp at h1 ⊢; exact Or.inl h1.symm)


theorem adv_sub : ∀ (srcs : List Src) (i : Nat), ∀ s' ∈ adv srcs i, ∀ e ∈ s'.2, ∃ s ∈ srcs, s.1 = s'.1 ∧ e ∈ s.2 := by
  intro srcs
  induction srcs with
  | nil => intro i s' hs'; simp [adv] at hs'
  | cons s0 rest ih =>
    intro i s' hs' e he
    cases i with
    | zero =>
      simp [adv] at hs'
      rcases hs' with rfl | hs'
      · exact ⟨s0, by simp, rfl, List.mem_of_mem_tail he⟩
      · exact ⟨s', by simp [hs'], rfl, he⟩
    | succ i =>
      simp [adv] at hs'
      rcases hs' with rfl | hs'
      · exact ⟨s', by simp, rfl, he⟩
      · obtain ⟨s, hs, h1, h2⟩ := ih i s' (by simpa [adv] using hs') e he
        exact ⟨s, by simp [hs], h1, h2⟩

/-- **Every record of the merged group is an inserted one**: key, size and offset of an entry of a
source, with that source's archive number. -/
theorem kmerge_sound : ∀ (fuel : Nat) (srcs : List Src) (prev : Option Key), ∀ g ∈ kmerge fuel srcs prev,
    ∃ s ∈ srcs, ∃ e ∈ s.2, g = { key := e.key, archive := s.1, offset := e.offset % 2 ^ 32, size := e.size } := by
  intro fuel
  induction fuel with
  | zero => intro srcs prev g hg; simp [kmerge] at hg
  | succ fuel ih =>
    intro srcs prev g hg
    unfold kmerge at hg
    cases hp : pickMin srcs 0 none with
    | none => rw [hp] at hg; simp at hg
    | some r =>
      obtain ⟨i, a, e0⟩ := r
      rw [hp] at hg
      rcases pickMin_some srcs 0 none i a e0 hp with h | ⟨idx, tl, hi, hgt⟩
      · cases h
      · have hi' : i = idx := by omega
        subst hi'
        have lift : ∀ p, g ∈ kmerge fuel (adv srcs i) p →
            ∃ s ∈ srcs, ∃ e ∈ s.2, g = { key := e.key, archive := s.1, offset := e.offset % 2 ^ 32, size := e.size } := by
          intro p hp'
          obtain ⟨s', hs', e, he, hge⟩ := ih _ _ g hp'
          obtain ⟨s, hs, h1, h2⟩ := adv_sub srcs i s' hs' e he
          exact ⟨s, hs, e, h2, by rw [h1]; exact hge⟩
        simp only [] at hg
        change g ∈ (if prev == some e0.key then kmerge fuel (adv srcs i) prev
          else _ :: kmerge fuel (adv srcs i) (some e0.key)) at hg
        split at hg
        · exact lift _ hg
        · rcases List.mem_cons.mp hg with rfl | hg
          · exact ⟨(a, e0 :: tl), List.mem_of_getElem? hgt, e0, by simp, rfl⟩
          · exact lift _ hg

end Cascette.Proofs.GroupMerge
