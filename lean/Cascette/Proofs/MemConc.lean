/-
Proofs/MemConc — invariants of the concurrent model of MemoryCache (Model/MemConc) under the
interleaving semantics of Spec/Interleave, for every schedule:
 * equation lemmas for the step function (one per branch of the Rust);
 * the fragment without expiring entries is closed under steps (`PcOk`, `NoShort`);
 * books: ghost pending deltas — `count + Σ pendC = |store|`, `bytes + Σ pendB = Σ size`;
 * provenance: every stored value was written by some put for that key;
 * linearisation log: legal sequential history, ends in the stored map, per-thread answers;
 * the background cleanup task (`Op.sweep`): books with expiring entries for put / remove /
   sweep histories (`SInv`), and a stored entry whose TTL has not ended survives every step of
   a sweeping thread (`sweepOnly_step_spares`).
-/
import Cascette.Model.MemConc
import Cascette.Proofs.MemCache
namespace Cascette.Proofs.MemConc
open Cascette.Spec.CacheMap (Key Val Ref)
open Cascette.Spec.Interleave
open Cascette.Model.CacheAssoc Cascette.Proofs.CacheAssoc
open Cascette.Model.MemCache (Config Entry Store State Policy sumSize)
open Cascette.Model.MemConc
open Cascette.Model

variable (cfg : Config) (vic : Store → Nat → List Key) (s : State)

theorem startOp_get_none {k : Key} (h : lookup k s.store = none) :
    startOp cfg s (.get k) = (s, .idle, [.val none], [.get k none]) := by
  simp only [startOp, h]

theorem startOp_get_short {k : Key} {e : Entry} (h : lookup k s.store = some e) (hs : e.short = true) :
    startOp cfg s (.get k) = (s, .xRemove true k e.size, [.val none], [.get k none]) := by
  simp only [startOp, h, hs, if_true]

theorem startOp_get_hit {k : Key} {e : Entry} (h : lookup k s.store = some e) (hs : e.short = false) :
    startOp cfg s (.get k) =
      ({ s with store := (k, { e with last := s.clock, hits := e.hits + 1 }) :: erase k s.store },
       .idle, [.val (some e.val)], [.get k (some e.val)]) := by
  simp only [startOp, h, hs]; rfl

theorem startOp_contains_none {k : Key} (h : lookup k s.store = none) :
    startOp cfg s (.contains k) = (s, .idle, [.bool false], [.contains k false]) := by
  simp only [startOp, h]

theorem startOp_contains_short {k : Key} {e : Entry} (h : lookup k s.store = some e) (hs : e.short = true) :
    startOp cfg s (.contains k) = (s, .xRemove false k e.size, [.bool false], [.contains k false]) := by
  simp only [startOp, h, hs, if_true]

theorem startOp_contains_hit {k : Key} {e : Entry} (h : lookup k s.store = some e) (hs : e.short = false) :
    startOp cfg s (.contains k) = (s, .idle, [.bool true], [.contains k true]) := by
  simp only [startOp, h, hs]; rfl

theorem startOp_put (k : Key) (v : Val) (sh : Bool) :
    startOp cfg s (.put k v sh) =
      (s, (if needsEv cfg s then Pc.pEvict ⟨k, v, sh⟩ else Pc.pInsert ⟨k, v, sh⟩), [], []) := by
  simp only [startOp]; split <;> rfl

theorem startOp_remove_some {k : Key} {e : Entry} (h : lookup k s.store = some e) :
    startOp cfg s (.remove k) = ({ s with store := erase k s.store }, .rCount e.size, [.bool true], [.remove k true]) := by
  simp only [startOp, h]

theorem startOp_remove_none {k : Key} (h : lookup k s.store = none) :
    startOp cfg s (.remove k) = (s, .idle, [.bool false], [.remove k false]) := by
  simp only [startOp, h]

theorem startOp_clear : startOp cfg s .clear = ({ s with store := [] }, .cCount, [.unit], [.clear]) := rfl

theorem contOp_xRemove_some {g : Bool} {k : Key} {sz : Nat} {e : Entry} (h : lookup k s.store = some e) :
    contOp cfg vic s (.xRemove g k sz) = ({ s with store := erase k s.store }, .xCount g sz, [], [.drop k]) := by
  simp only [contOp, h]

theorem contOp_xRemove_none {g : Bool} {k : Key} {sz : Nat} (h : lookup k s.store = none) :
    contOp cfg vic s (.xRemove g k sz) = (s, .idle, [], []) := by
  simp only [contOp, h]

theorem contOp_eRemove_some {a : PutArgs} {k : Key} {vs : List Key} {e : Entry} (h : lookup k s.store = some e) :
    contOp cfg vic s (.eRemove a k vs) = ({ s with store := erase k s.store }, .eCount a e.size vs, [], [.drop k]) := by
  simp only [contOp, h]

theorem contOp_eRemove_none {a : PutArgs} {k : Key} {vs : List Key} (h : lookup k s.store = none) :
    contOp cfg vic s (.eRemove a k vs) = (s, afterVictim a vs, [], []) := by
  simp only [contOp, h]

theorem contOp_pInsert_some {a : PutArgs} {old : Entry} (h : lookup a.k s.store = some old) :
    contOp cfg vic s (.pInsert a) =
      ({ s with store := (a.k, MemCache.newEntry s a.v a.short) :: erase a.k s.store },
       .pReplBytes (MemCache.newEntry s a.v a.short).size old.size, [.unit], [.put a.k a.v]) := by
  simp only [contOp, h]

theorem contOp_pInsert_none {a : PutArgs} (h : lookup a.k s.store = none) :
    contOp cfg vic s (.pInsert a) =
      ({ s with store := (a.k, MemCache.newEntry s a.v a.short) :: erase a.k s.store },
       .pNewCount (MemCache.newEntry s a.v a.short).size, [.unit], [.put a.k a.v]) := by
  simp only [contOp, h]

theorem startOp_sweep (ord : List Key) :
    startOp cfg s (.sweep ord) = (s, afterSweep (sweepKeys ord s.store), [.unit], []) := rfl

theorem contOp_wRemove_short {k : Key} {ks : List Key} {e : Entry} (h : lookup k s.store = some e)
    (hs : e.short = true) :
    contOp cfg vic s (.wRemove k ks) = ({ s with store := erase k s.store }, .wCount e.size ks, [], [.drop k]) := by
  simp only [contOp, h, hs, if_true]

theorem contOp_wRemove_live {k : Key} {ks : List Key} {e : Entry} (h : lookup k s.store = some e)
    (hs : e.short = false) :
    contOp cfg vic s (.wRemove k ks) = (s, afterSweep ks, [], []) := by
  simp only [contOp, h, hs]; rfl

theorem contOp_wRemove_none {k : Key} {ks : List Key} (h : lookup k s.store = none) :
    contOp cfg vic s (.wRemove k ks) = (s, afterSweep ks, [], []) := by
  simp only [contOp, h]

/-! ## fragments -/

/-- operations of the fragment without expiring entries (`clr`: is `clear` allowed?) -/
def OpOk (clr : Bool) : Op → Prop
  | .put _ _ sh => sh = false
  | .clear => clr = true
  | _ => True

instance (clr : Bool) (op : Op) : Decidable (OpOk clr op) := by
  cases op <;> unfold OpOk <;> infer_instance

def PcOk (clr : Bool) : Pc → Prop
  | .xRemove _ _ _ | .xCount _ _ | .xBytes _ _ => False
  | .wCount _ _ | .wBytes _ _ => False
  | .cCount | .cBytes => clr = true
  | .pEvict a | .eLoad a | .eSnap a _ | .eRemove a _ _ | .eCount a _ _ | .eBytes a _ _ | .pInsert a => a.short = false
  | _ => True

def ThreadOk (clr : Bool) (t : Thread) : Prop := PcOk clr t.pc ∧ ∀ op ∈ t.todo, OpOk clr op

def NoShort (st : Store) : Prop := ∀ p ∈ st, p.2.short = false

theorem noShort_erase {st : Store} (k : Key) (h : NoShort st) : NoShort (erase k st) :=
  fun p hp => h p (MemCache.mem_erase hp)

theorem noShort_lookup {st : Store} {k : Key} {e : Entry} (h : NoShort st) (hl : lookup k st = some e) :
    e.short = false := h (k, e) (mem_of_lookup hl)

theorem noShort_cons {st : Store} {k : Key} {e : Entry} (he : e.short = false) (h : NoShort st) :
    NoShort ((k, e) :: st) := by
  intro p hp
  rcases List.mem_cons.mp hp with rfl | hp
  · exact he
  · exact h p hp

theorem afterVictim_ok {clr : Bool} {a : PutArgs} (ha : a.short = false) (vs : List Key) :
    PcOk clr (afterVictim a vs) := by
  cases vs <;> exact ha

theorem afterSweep_ok {clr : Bool} (ks : List Key) : PcOk clr (afterSweep ks) := by
  cases ks <;> trivial

variable {s}

/-- the first step of an operation stays in the fragment -/
theorem startOp_ok {clr : Bool} {op : Op} (hn : NoDup s.store)
    (hs : NoShort s.store) (hop : OpOk clr op) :
    NoDup (startOp cfg s op).1.store ∧ NoShort (startOp cfg s op).1.store ∧ PcOk clr (startOp cfg s op).2.1 := by
  cases op with
  | get k =>
    cases hl : lookup k s.store with
    | none => rw [startOp_get_none cfg s hl]; exact ⟨hn, hs, trivial⟩
    | some e =>
      have hsh := noShort_lookup hs hl
      rw [startOp_get_hit cfg s hl hsh]
      exact ⟨nodup_cons_erase _ hn, noShort_cons hsh (noShort_erase k hs), trivial⟩
  | contains k =>
    cases hl : lookup k s.store with
    | none => rw [startOp_contains_none cfg s hl]; exact ⟨hn, hs, trivial⟩
    | some e =>
      rw [startOp_contains_hit cfg s hl (noShort_lookup hs hl)]; exact ⟨hn, hs, trivial⟩
  | put k v sh =>
    rw [startOp_put]
    have : sh = false := hop
    refine ⟨hn, hs, ?_⟩
    dsimp only
    split <;> exact this
  | remove k =>
    cases hl : lookup k s.store with
    | none => rw [startOp_remove_none cfg s hl]; exact ⟨hn, hs, trivial⟩
    | some e => rw [startOp_remove_some cfg s hl]; exact ⟨nodup_erase hn, noShort_erase k hs, trivial⟩
  | clear =>
    rw [startOp_clear]
    refine ⟨trivial, ?_, hop⟩
    intro p hp; cases hp
  | sweep ord => rw [startOp_sweep]; exact ⟨hn, hs, afterSweep_ok _⟩

/-- a later step of an operation stays in the fragment -/
theorem contOp_ok {clr : Bool} {pc : Pc} (hn : NoDup s.store) (hs : NoShort s.store) (hpc : PcOk clr pc) :
    NoDup (contOp cfg vic s pc).1.store ∧ NoShort (contOp cfg vic s pc).1.store ∧
      PcOk clr (contOp cfg vic s pc).2.1 := by
  cases pc with
  | idle => exact ⟨hn, hs, trivial⟩
  | xRemove g k sz => exact hpc.elim
  | xCount g sz => exact hpc.elim
  | xBytes g sz => exact hpc.elim
  | pEvict a =>
    have ha : a.short = false := hpc
    simp only [contOp]; split <;> exact ⟨hn, hs, ha⟩
  | eLoad a =>
    have ha : a.short = false := hpc
    simp only [contOp]; split <;> exact ⟨hn, hs, ha⟩
  | eSnap a n =>
    have ha : a.short = false := hpc
    simp only [contOp]; exact ⟨hn, hs, afterVictim_ok ha _⟩
  | eRemove a k vs =>
    have ha : a.short = false := hpc
    cases hl : lookup k s.store with
    | none => rw [contOp_eRemove_none cfg vic s hl]; exact ⟨hn, hs, afterVictim_ok ha _⟩
    | some e => rw [contOp_eRemove_some cfg vic s hl]; exact ⟨nodup_erase hn, noShort_erase k hs, ha⟩
  | eCount a sz vs => exact ⟨hn, hs, hpc⟩
  | eBytes a sz vs =>
    have ha : a.short = false := hpc
    exact ⟨hn, hs, afterVictim_ok ha _⟩
  | pInsert a =>
    have ha : a.short = false := hpc
    cases hl : lookup a.k s.store with
    | none =>
      rw [contOp_pInsert_none cfg vic s hl]
      exact ⟨nodup_cons_erase _ hn, noShort_cons ha (noShort_erase _ hs), trivial⟩
    | some e =>
      rw [contOp_pInsert_some cfg vic s hl]
      exact ⟨nodup_cons_erase _ hn, noShort_cons ha (noShort_erase _ hs), trivial⟩
  | pReplBytes n o => exact ⟨hn, hs, trivial⟩
  | pNewCount sz => exact ⟨hn, hs, trivial⟩
  | pNewBytes sz => exact ⟨hn, hs, trivial⟩
  | rCount sz => exact ⟨hn, hs, trivial⟩
  | rBytes sz => exact ⟨hn, hs, trivial⟩
  | cCount => exact ⟨hn, hs, hpc⟩
  | cBytes => exact ⟨hn, hs, trivial⟩
  | wRemove k ks =>
    cases hl : lookup k s.store with
    | none => rw [contOp_wRemove_none cfg vic s hl]; exact ⟨hn, hs, afterSweep_ok _⟩
    | some e => rw [contOp_wRemove_live cfg vic s hl (noShort_lookup hs hl)]; exact ⟨hn, hs, afterSweep_ok _⟩
  | wCount sz ks => exact hpc.elim
  | wBytes sz ks => exact hpc.elim

/-! ## books: pending deltas -/

/-- what the thread still owes `entry_count` -/
def pendC : Pc → Int
  | .xCount _ _ | .eCount _ _ _ | .rCount _ | .wCount _ _ => -1
  | .pNewCount _ => 1
  | _ => 0

/-- what the thread still owes `memory_usage` -/
def pendB : Pc → Int
  | .xCount _ sz | .xBytes _ sz | .eCount _ sz _ | .eBytes _ sz _ | .rCount sz | .rBytes sz => -(sz : Int)
  | .wCount sz _ | .wBytes sz _ => -(sz : Int)
  | .pReplBytes new old => (new : Int) - (old : Int)
  | .pNewCount sz | .pNewBytes sz => (sz : Int)
  | _ => 0

def cDefect (s : State) (pc : Pc) : Int := s.count + pendC pc - (s.store.length : Int)
def bDefect (s : State) (pc : Pc) : Int := s.bytes + pendB pc - (sumSize s.store : Int)

theorem pendC_afterVictim (a : PutArgs) (vs : List Key) : pendC (afterVictim a vs) = 0 := by cases vs <;> rfl
theorem pendB_afterVictim (a : PutArgs) (vs : List Key) : pendB (afterVictim a vs) = 0 := by cases vs <;> rfl

theorem pendC_afterSweep (ks : List Key) : pendC (afterSweep ks) = 0 := by cases ks <;> rfl
theorem pendB_afterSweep (ks : List Key) : pendB (afterSweep ks) = 0 := by cases ks <;> rfl

/-- the thread is neither on the expired-entry path of a reader nor inside `clear` (the two
places where the tree's counter updates are not tied to what the map access did) -/
def PcB : Pc → Prop
  | .xRemove _ _ _ | .xCount _ _ | .xBytes _ _ | .cCount | .cBytes => False
  | _ => True

theorem pcB_of_ok {pc : Pc} (h : PcOk false pc) : PcB pc := by
  cases pc <;> first | trivial | exact h.elim | cases h

theorem pcB_afterVictim (a : PutArgs) (vs : List Key) : PcB (afterVictim a vs) := by cases vs <;> trivial
theorem pcB_afterSweep (ks : List Key) : PcB (afterSweep ks) := by cases ks <;> trivial

theorem sumSize_cons (k : Key) (e : Entry) (t : Store) : sumSize ((k, e) :: t) = e.size + sumSize t := rfl

theorem startOp_books {op : Op} (hn : NoDup s.store) (hs : NoShort s.store) (hop : OpOk false op) :
    cDefect (startOp cfg s op).1 (startOp cfg s op).2.1 = cDefect s .idle ∧
    bDefect (startOp cfg s op).1 (startOp cfg s op).2.1 = bDefect s .idle := by
  cases op with
  | get k =>
    cases hl : lookup k s.store with
    | none => rw [startOp_get_none cfg s hl]; exact ⟨rfl, rfl⟩
    | some e =>
      rw [startOp_get_hit cfg s hl (noShort_lookup hs hl)]
      have h1 := length_erase hn hl
      have h2 : sumSize (erase k s.store) + e.size = sumSize s.store := sumBy_erase Entry.size hn hl
      constructor
      · simp only [cDefect, List.length_cons]; omega
      · simp only [bDefect, sumSize_cons]; omega
  | contains k =>
    cases hl : lookup k s.store with
    | none => rw [startOp_contains_none cfg s hl]; exact ⟨rfl, rfl⟩
    | some e => rw [startOp_contains_hit cfg s hl (noShort_lookup hs hl)]; exact ⟨rfl, rfl⟩
  | put k v sh =>
    rw [startOp_put]
    dsimp only
    split <;> exact ⟨rfl, rfl⟩
  | remove k =>
    cases hl : lookup k s.store with
    | none => rw [startOp_remove_none cfg s hl]; exact ⟨rfl, rfl⟩
    | some e =>
      rw [startOp_remove_some cfg s hl]
      have h1 := length_erase hn hl
      have h2 : sumSize (erase k s.store) + e.size = sumSize s.store := sumBy_erase Entry.size hn hl
      constructor
      · simp only [cDefect, pendC]; omega
      · simp only [bDefect, pendB]; omega
  | clear => cases hop
  | sweep ord =>
    rw [startOp_sweep]
    simp only [cDefect, bDefect, pendC_afterSweep, pendB_afterSweep]
    exact ⟨rfl, rfl⟩

theorem contOp_books {pc : Pc} (hn : NoDup s.store) (hpc : PcB pc) :
    cDefect (contOp cfg vic s pc).1 (contOp cfg vic s pc).2.1 = cDefect s pc ∧
    bDefect (contOp cfg vic s pc).1 (contOp cfg vic s pc).2.1 = bDefect s pc := by
  cases pc with
  | idle => exact ⟨rfl, rfl⟩
  | xRemove g k sz => exact hpc.elim
  | xCount g sz => exact hpc.elim
  | xBytes g sz => exact hpc.elim
  | pEvict a => simp only [contOp]; split <;> exact ⟨rfl, rfl⟩
  | eLoad a => simp only [contOp]; split <;> exact ⟨rfl, rfl⟩
  | eSnap a n =>
    simp only [contOp, cDefect, bDefect, pendC_afterVictim, pendB_afterVictim]
    exact ⟨rfl, rfl⟩
  | eRemove a k vs =>
    cases hl : lookup k s.store with
    | none =>
      rw [contOp_eRemove_none cfg vic s hl]
      simp only [cDefect, bDefect, pendC_afterVictim, pendB_afterVictim]
      exact ⟨rfl, rfl⟩
    | some e =>
      rw [contOp_eRemove_some cfg vic s hl]
      have h1 := length_erase hn hl
      have h2 : sumSize (erase k s.store) + e.size = sumSize s.store := sumBy_erase Entry.size hn hl
      constructor
      · simp only [cDefect, pendC]; omega
      · simp only [bDefect, pendB]; omega
  | eCount a sz vs =>
    simp only [contOp, cDefect, bDefect, pendC, pendB]
    constructor <;> first | trivial | omega
  | eBytes a sz vs =>
    simp only [contOp, cDefect, bDefect, pendC_afterVictim, pendB_afterVictim]
    simp only [pendC, pendB]
    constructor <;> first | trivial | omega
  | pInsert a =>
    cases hl : lookup a.k s.store with
    | none =>
      rw [contOp_pInsert_none cfg vic s hl]
      have h1 := erase_of_lookup_none hl
      simp only [cDefect, bDefect, pendC, pendB, List.length_cons, sumSize_cons, h1]
      constructor <;> first | trivial | omega
    | some e =>
      rw [contOp_pInsert_some cfg vic s hl]
      have h1 := length_erase hn hl
      have h2 : sumSize (erase a.k s.store) + e.size = sumSize s.store := sumBy_erase Entry.size hn hl
      constructor
      · simp only [cDefect, pendC, List.length_cons]; omega
      · simp only [bDefect, pendB, sumSize_cons]; omega
  | pReplBytes n o =>
    simp only [contOp, cDefect, bDefect, pendC, pendB]
    constructor <;> first | trivial | omega
  | pNewCount sz =>
    simp only [contOp, cDefect, bDefect, pendC, pendB]
    constructor <;> first | trivial | omega
  | pNewBytes sz =>
    simp only [contOp, cDefect, bDefect, pendC, pendB]
    constructor <;> first | trivial | omega
  | rCount sz =>
    simp only [contOp, cDefect, bDefect, pendC, pendB]
    constructor <;> first | trivial | omega
  | rBytes sz =>
    simp only [contOp, cDefect, bDefect, pendC, pendB]
    constructor <;> first | trivial | omega
  | cCount => cases hpc
  | cBytes => cases hpc
  | wRemove k ks =>
    cases hl : lookup k s.store with
    | none =>
      rw [contOp_wRemove_none cfg vic s hl]
      simp only [cDefect, bDefect, pendC_afterSweep, pendB_afterSweep]
      exact ⟨rfl, rfl⟩
    | some e =>
      by_cases hsh : e.short = true
      · -- the entry stored NOW is removed and ITS size is what the task will book
        rw [contOp_wRemove_short cfg vic s hl hsh]
        have h1 := length_erase hn hl
        have h2 : sumSize (erase k s.store) + e.size = sumSize s.store := sumBy_erase Entry.size hn hl
        constructor
        · simp only [cDefect, pendC]; omega
        · simp only [bDefect, pendB]; omega
      · have hsh : e.short = false := by simpa using hsh
        rw [contOp_wRemove_live cfg vic s hl hsh]
        simp only [cDefect, bDefect, pendC_afterSweep, pendB_afterSweep]
        exact ⟨rfl, rfl⟩
  | wCount sz ks =>
    simp only [contOp, cDefect, bDefect, pendC, pendB]
    constructor <;> first | trivial | omega
  | wBytes sz ks =>
    simp only [contOp, cDefect, bDefect, pendC_afterSweep, pendB_afterSweep]
    simp only [pendC, pendB]
    constructor <;> first | trivial | omega


/-! ## one step of a thread -/

variable (s)

theorem step_idle_nil {t : Thread} (hpc : t.pc = .idle) (htd : t.todo = []) :
    step cfg vic s t = (s, t, []) := by
  simp only [step, hpc, htd, if_true]

theorem step_idle_cons {t : Thread} {op : Op} {rest : List Op} (hpc : t.pc = .idle) (htd : t.todo = op :: rest) :
    step cfg vic s t =
      ((startOp cfg (MemCache.tick s) op).1,
       { pc := (startOp cfg (MemCache.tick s) op).2.1, todo := rest,
         results := t.results ++ (startOp cfg (MemCache.tick s) op).2.2.1.map (fun o => (op, o)) },
       (startOp cfg (MemCache.tick s) op).2.2.2) := by
  simp only [step, hpc, htd, if_true]

theorem step_cont {t : Thread} (hpc : t.pc ≠ .idle) :
    step cfg vic s t =
      ((contOp cfg vic (MemCache.tick s) t.pc).1,
       { pc := (contOp cfg vic (MemCache.tick s) t.pc).2.1, todo := t.todo,
         results := t.results ++ (match pcOp t.pc with
                                  | some op => (contOp cfg vic (MemCache.tick s) t.pc).2.2.1.map (fun o => (op, o))
                                  | none => []) },
       (contOp cfg vic (MemCache.tick s) t.pc).2.2.2) := by
  unfold step
  rw [if_neg hpc]
  rfl

variable {s}

/-- a step of a thread of the fragment stays in the fragment -/
theorem step_ok {clr : Bool} {t : Thread} (hn : NoDup s.store) (hs : NoShort s.store) (ht : ThreadOk clr t) :
    NoDup (step cfg vic s t).1.store ∧ NoShort (step cfg vic s t).1.store ∧
      ThreadOk clr (step cfg vic s t).2.1 := by
  by_cases hpc : t.pc = .idle
  · cases htd : t.todo with
    | nil => rw [step_idle_nil cfg vic s hpc htd]; exact ⟨hn, hs, ht⟩
    | cons op rest =>
      rw [step_idle_cons cfg vic s hpc htd]
      have hop : OpOk clr op := ht.2 op (by rw [htd]; exact List.mem_cons_self)
      have h := startOp_ok cfg (s := MemCache.tick s) hn hs hop
      refine ⟨h.1, h.2.1, h.2.2, ?_⟩
      intro o ho
      exact ht.2 o (by rw [htd]; exact List.mem_cons_of_mem _ ho)
  · rw [step_cont cfg vic s hpc]
    have h := contOp_ok cfg vic (s := MemCache.tick s) hn hs ht.1
    exact ⟨h.1, h.2.1, h.2.2, ht.2⟩

/-- a step moves exactly the delta it takes from the map into the thread's pending account and
out of it into the counters -/
theorem step_books {t : Thread} (hn : NoDup s.store) (hs : NoShort s.store) (ht : ThreadOk false t) :
    cDefect (step cfg vic s t).1 (step cfg vic s t).2.1.pc = cDefect s t.pc ∧
    bDefect (step cfg vic s t).1 (step cfg vic s t).2.1.pc = bDefect s t.pc := by
  by_cases hpc : t.pc = .idle
  · cases htd : t.todo with
    | nil => rw [step_idle_nil cfg vic s hpc htd]; exact ⟨rfl, rfl⟩
    | cons op rest =>
      rw [step_idle_cons cfg vic s hpc htd]
      have hop : OpOk false op := ht.2 op (by rw [htd]; exact List.mem_cons_self)
      have h := startOp_books cfg (s := MemCache.tick s) hn hs hop
      rw [hpc]
      exact h
  · rw [step_cont cfg vic s hpc]
    exact contOp_books cfg vic (s := MemCache.tick s) hn (pcB_of_ok ht.1)

/-! ## systems: any number of threads, any schedule -/

section Generic
variable {σ τ ε : Type} (m : Machine σ τ ε)

theorem stepAt_cases (y : Sys σ τ ε) (i : Nat) :
    stepAt m y i = y ∨
    ∃ t, y.threads[i]? = some t ∧ m.done t = false ∧
      stepAt m y i = { shared := (m.step y.shared t).1, threads := y.threads.set i (m.step y.shared t).2.1,
                       log := y.log ++ (m.step y.shared t).2.2.map (fun e => (i, e)) } := by
  unfold stepAt
  cases h : y.threads[i]? with
  | none => left; rfl
  | some t =>
    by_cases hd : m.done t = true
    · left; simp only [hd, if_true]
    · right
      refine ⟨t, rfl, by simpa using hd, ?_⟩
      simp only [hd]; rfl

/-- an invariant of single steps holds after every schedule -/
theorem runSched_inv (P : Sys σ τ ε → Prop) (hstep : ∀ y i, P y → P (stepAt m y i)) :
    ∀ (sched : List Nat) (y : Sys σ τ ε), P y → P (runSched m y sched) := by
  intro sched
  induction sched with
  | nil => intro y h; exact h
  | cons i rest ih => intro y h; exact ih _ (hstep y i h)

end Generic

def sumF (f : Thread → Int) : List Thread → Int
  | [] => 0
  | t :: ts => f t + sumF f ts

theorem sumF_set (f : Thread → Int) (t' : Thread) :
    ∀ (ts : List Thread) (i : Nat) (t : Thread), ts[i]? = some t →
      sumF f (ts.set i t') = sumF f ts - f t + f t' := by
  intro ts
  induction ts with
  | nil => intro i t h; cases h
  | cons a rest ih =>
    intro i t h
    cases i with
    | zero =>
      simp only [List.getElem?_cons_zero, Option.some.injEq] at h
      subst h
      simp only [List.set_cons_zero, sumF]; omega
    | succ j =>
      simp only [List.getElem?_cons_succ] at h
      simp only [List.set_cons_succ, sumF, ih j t h]; omega

theorem sumF_zero (f : Thread → Int) : ∀ (ts : List Thread), (∀ t ∈ ts, f t = 0) → sumF f ts = 0 := by
  intro ts
  induction ts with
  | nil => intro _; rfl
  | cons a rest ih =>
    intro h
    simp only [sumF, h a List.mem_cons_self, ih (fun t ht => h t (List.mem_cons_of_mem _ ht))]; rfl

theorem mem_of_getElem? {α : Type} {l : List α} {i : Nat} {a : α} (h : l[i]? = some a) : a ∈ l :=
  List.mem_of_getElem? h

/-- the books invariant with the ghost pending deltas -/
structure BInv (y : Sys State Thread Ev) : Prop where
  nodup : NoDup y.shared.store
  noshort : NoShort y.shared.store
  ok : ∀ t ∈ y.threads, ThreadOk false t
  count : y.shared.count + sumF (fun t => pendC t.pc) y.threads = (y.shared.store.length : Int)
  bytes : y.shared.bytes + sumF (fun t => pendB t.pc) y.threads = (sumSize y.shared.store : Int)

theorem binv_stepAt (y : Sys State Thread Ev) (i : Nat) (h : BInv y) :
    BInv (stepAt (machine cfg vic) y i) := by
  rcases stepAt_cases (machine cfg vic) y i with heq | ⟨t, hget, _, heq⟩
  · rw [heq]; exact h
  · rw [heq]
    have htm : t ∈ y.threads := mem_of_getElem? hget
    have hok := step_ok cfg vic h.nodup h.noshort (h.ok t htm)
    have hb := step_books cfg vic h.nodup h.noshort (h.ok t htm)
    have hc := h.count
    have hby := h.bytes
    refine ⟨hok.1, hok.2.1, ?_, ?_, ?_⟩
    · intro u hu
      rcases List.mem_or_eq_of_mem_set hu with hu | rfl
      · exact h.ok u hu
      · exact hok.2.2
    · show (step cfg vic y.shared t).1.count + sumF _ (y.threads.set i (step cfg vic y.shared t).2.1) =
        ((step cfg vic y.shared t).1.store.length : Int)
      rw [sumF_set _ _ _ _ _ hget]
      have := hb.1
      simp only [cDefect] at this
      omega
    · show (step cfg vic y.shared t).1.bytes + sumF _ (y.threads.set i (step cfg vic y.shared t).2.1) =
        (sumSize (step cfg vic y.shared t).1.store : Int)
      rw [sumF_set _ _ _ _ _ hget]
      have := hb.2
      simp only [bDefect] at this
      omega

theorem done_pc {t : Thread} (h : t.done = true) : t.pc = .idle := by
  unfold Thread.done at h
  simp only [Bool.and_eq_true, decide_eq_true_eq] at h
  exact h.1


/-- at quiescence nobody owes anything -/
theorem pend_zero_of_quiescent {ts : List Thread} (h : ts.all Thread.done = true) :
    sumF (fun t => pendC t.pc) ts = 0 ∧ sumF (fun t => pendB t.pc) ts = 0 := by
  have hd : ∀ t ∈ ts, t.pc = .idle := fun t ht => done_pc (List.all_eq_true.mp h t ht)
  constructor
  · exact sumF_zero _ ts (fun t ht => by simp only [hd t ht]; rfl)
  · exact sumF_zero _ ts (fun t ht => by simp only [hd t ht]; rfl)

theorem binv_sys {s0 : State} {progs : List (List Op)} (hn : NoDup s0.store) (hs : NoShort s0.store)
    (hc : s0.count = (s0.store.length : Int)) (hb : s0.bytes = (sumSize s0.store : Int))
    (hp : ∀ p ∈ progs, ∀ op ∈ p, OpOk false op) : BInv (sys s0 progs) := by
  have hidle : ∀ t ∈ (sys s0 progs).threads, t.pc = .idle := by
    intro t ht
    obtain ⟨p, _, rfl⟩ := List.mem_map.mp ht
    rfl
  refine ⟨hn, hs, ?_, ?_, ?_⟩
  · intro t ht
    obtain ⟨p, hp', rfl⟩ := List.mem_map.mp ht
    exact ⟨trivial, hp p hp'⟩
  · rw [sumF_zero _ _ (fun t ht => by simp only [hidle t ht]; rfl)]
    show s0.count + 0 = (s0.store.length : Int); omega
  · rw [sumF_zero _ _ (fun t ht => by simp only [hidle t ht]; rfl)]
    show s0.bytes + 0 = (sumSize s0.store : Int); omega

/-! ## provenance: stored values were written by a put for that key -/

section Wrote
variable (Wr : Key → Val → Prop)

def StoreW (st : Store) : Prop := ∀ p ∈ st, Wr p.1 p.2.val

def OpW : Op → Prop
  | .put k v _ => Wr k v
  | _ => True

def PcW : Pc → Prop
  | .pEvict a | .eLoad a | .eSnap a _ | .eRemove a _ _ | .eCount a _ _ | .eBytes a _ _ | .pInsert a => Wr a.k a.v
  | _ => True

/-- every `get` answer recorded so far is a written value -/
def ResW (rs : List (Op × Out)) : Prop :=
  ∀ r ∈ rs, ∀ k v, r.1 = .get k → r.2 = .val (some v) → Wr k v

def ThreadW (t : Thread) : Prop := PcW Wr t.pc ∧ (∀ op ∈ t.todo, OpW Wr op) ∧ ResW Wr t.results

variable {Wr}

theorem storeW_erase {st : Store} (k : Key) (h : StoreW Wr st) : StoreW Wr (erase k st) :=
  fun p hp => h p (MemCache.mem_erase hp)

theorem storeW_cons {st : Store} {k : Key} {e : Entry} (he : Wr k e.val) (h : StoreW Wr st) :
    StoreW Wr ((k, e) :: st) := by
  intro p hp
  rcases List.mem_cons.mp hp with rfl | hp
  · exact he
  · exact h p hp

theorem afterVictim_W {a : PutArgs} (ha : Wr a.k a.v) (vs : List Key) : PcW Wr (afterVictim a vs) := by
  cases vs <;> exact ha

theorem startOp_W {op : Op} (hs : StoreW Wr s.store) (hop : OpW Wr op) :
    StoreW Wr (startOp cfg s op).1.store ∧ PcW Wr (startOp cfg s op).2.1 ∧
      ∀ o ∈ (startOp cfg s op).2.2.1, ∀ k v, op = .get k → o = .val (some v) → Wr k v := by
  cases op with
  | get k =>
    cases hl : lookup k s.store with
    | none =>
      rw [startOp_get_none cfg s hl]
      refine ⟨hs, trivial, ?_⟩
      intro o ho k' v _ hv
      simp only [List.mem_singleton] at ho
      subst ho; cases hv
    | some e =>
      have hw : Wr k e.val := hs (k, e) (mem_of_lookup hl)
      by_cases hsh : e.short = true
      · rw [startOp_get_short cfg s hl hsh]
        refine ⟨hs, trivial, ?_⟩
        intro o ho k' v _ hv
        simp only [List.mem_singleton] at ho
        subst ho; cases hv
      · have hsh : e.short = false := by simpa using hsh
        rw [startOp_get_hit cfg s hl hsh]
        refine ⟨storeW_cons hw (storeW_erase k hs), trivial, ?_⟩
        intro o ho k' v hk hv
        simp only [List.mem_singleton] at ho
        subst ho
        cases hk; cases hv
        exact hw
  | contains k =>
    cases hl : lookup k s.store with
    | none =>
      rw [startOp_contains_none cfg s hl]
      exact ⟨hs, trivial, fun o _ k' v hk _ => by cases hk⟩
    | some e =>
      by_cases hsh : e.short = true
      · rw [startOp_contains_short cfg s hl hsh]
        exact ⟨hs, trivial, fun o _ k' v hk _ => by cases hk⟩
      · have hsh : e.short = false := by simpa using hsh
        rw [startOp_contains_hit cfg s hl hsh]
        exact ⟨hs, trivial, fun o _ k' v hk _ => by cases hk⟩
  | put k v sh =>
    rw [startOp_put]
    have hw : Wr k v := hop
    refine ⟨hs, ?_, fun o _ k' v' hk _ => by cases hk⟩
    dsimp only
    split <;> exact hw
  | remove k =>
    cases hl : lookup k s.store with
    | none => rw [startOp_remove_none cfg s hl]; exact ⟨hs, trivial, fun o _ k' v hk _ => by cases hk⟩
    | some e =>
      rw [startOp_remove_some cfg s hl]
      exact ⟨storeW_erase k hs, trivial, fun o _ k' v hk _ => by cases hk⟩
  | clear =>
    rw [startOp_clear]
    refine ⟨?_, trivial, fun o _ k' v hk _ => by cases hk⟩
    intro p hp; cases hp
  | sweep ord =>
    rw [startOp_sweep]
    refine ⟨hs, ?_, fun o _ k' v hk _ => by cases hk⟩
    cases sweepKeys ord s.store <;> trivial

theorem contOp_W {pc : Pc} (hs : StoreW Wr s.store) (hpc : PcW Wr pc) :
    StoreW Wr (contOp cfg vic s pc).1.store ∧ PcW Wr (contOp cfg vic s pc).2.1 := by
  cases pc with
  | idle => exact ⟨hs, trivial⟩
  | xRemove g k sz =>
    cases hl : lookup k s.store with
    | none => rw [contOp_xRemove_none cfg vic s hl]; exact ⟨hs, trivial⟩
    | some e => rw [contOp_xRemove_some cfg vic s hl]; exact ⟨storeW_erase k hs, trivial⟩
  | xCount g sz => exact ⟨hs, trivial⟩
  | xBytes g sz => exact ⟨hs, trivial⟩
  | pEvict a =>
    have ha : Wr a.k a.v := hpc
    simp only [contOp]; split <;> exact ⟨hs, ha⟩
  | eLoad a =>
    have ha : Wr a.k a.v := hpc
    simp only [contOp]; split <;> exact ⟨hs, ha⟩
  | eSnap a n =>
    have ha : Wr a.k a.v := hpc
    simp only [contOp]; exact ⟨hs, afterVictim_W ha _⟩
  | eRemove a k vs =>
    have ha : Wr a.k a.v := hpc
    cases hl : lookup k s.store with
    | none => rw [contOp_eRemove_none cfg vic s hl]; exact ⟨hs, afterVictim_W ha _⟩
    | some e => rw [contOp_eRemove_some cfg vic s hl]; exact ⟨storeW_erase k hs, ha⟩
  | eCount a sz vs => exact ⟨hs, hpc⟩
  | eBytes a sz vs =>
    have ha : Wr a.k a.v := hpc
    exact ⟨hs, afterVictim_W ha _⟩
  | pInsert a =>
    have ha : Wr a.k a.v := hpc
    cases hl : lookup a.k s.store with
    | none =>
      rw [contOp_pInsert_none cfg vic s hl]
      exact ⟨storeW_cons ha (storeW_erase _ hs), trivial⟩
    | some e =>
      rw [contOp_pInsert_some cfg vic s hl]
      exact ⟨storeW_cons ha (storeW_erase _ hs), trivial⟩
  | pReplBytes n o => exact ⟨hs, trivial⟩
  | pNewCount sz => exact ⟨hs, trivial⟩
  | pNewBytes sz => exact ⟨hs, trivial⟩
  | rCount sz => exact ⟨hs, trivial⟩
  | rBytes sz => exact ⟨hs, trivial⟩
  | cCount => exact ⟨hs, trivial⟩
  | cBytes => exact ⟨hs, trivial⟩
  | wRemove k ks =>
    have haft : PcW Wr (afterSweep ks) := by cases ks <;> trivial
    cases hl : lookup k s.store with
    | none => rw [contOp_wRemove_none cfg vic s hl]; exact ⟨hs, haft⟩
    | some e =>
      by_cases hsh : e.short = true
      · rw [contOp_wRemove_short cfg vic s hl hsh]; exact ⟨storeW_erase k hs, trivial⟩
      · have hsh : e.short = false := by simpa using hsh
        rw [contOp_wRemove_live cfg vic s hl hsh]; exact ⟨hs, haft⟩
  | wCount sz ks => exact ⟨hs, trivial⟩
  | wBytes sz ks =>
    refine ⟨hs, ?_⟩
    show PcW Wr (afterSweep ks)
    cases ks <;> trivial

theorem pcOp_not_get {pc : Pc} {op : Op} (h : pcOp pc = some op) (k : Key) : op ≠ .get k := by
  cases pc <;> simp only [pcOp] at h <;> first | (cases h; intro h'; cases h') | cases h

theorem resW_append {a b : List (Op × Out)} (ha : ResW Wr a) (hb : ResW Wr b) : ResW Wr (a ++ b) := by
  intro r hr
  rcases List.mem_append.mp hr with h | h
  · exact ha r h
  · exact hb r h

theorem step_W {t : Thread} (hs : StoreW Wr s.store) (ht : ThreadW Wr t) :
    StoreW Wr (step cfg vic s t).1.store ∧ ThreadW Wr (step cfg vic s t).2.1 := by
  by_cases hpc : t.pc = .idle
  · cases htd : t.todo with
    | nil => rw [step_idle_nil cfg vic s hpc htd]; exact ⟨hs, ht⟩
    | cons op rest =>
      rw [step_idle_cons cfg vic s hpc htd]
      have hop : OpW Wr op := ht.2.1 op (by rw [htd]; exact List.mem_cons_self)
      have h := startOp_W cfg (s := MemCache.tick s) hs hop
      refine ⟨h.1, h.2.1, ?_, ?_⟩
      · intro o ho
        exact ht.2.1 o (by rw [htd]; exact List.mem_cons_of_mem _ ho)
      · refine resW_append ht.2.2 ?_
        intro r hr k v hk hv
        obtain ⟨o, ho, rfl⟩ := List.mem_map.mp hr
        exact h.2.2 o ho k v hk hv
  · rw [step_cont cfg vic s hpc]
    have h := contOp_W cfg vic (s := MemCache.tick s) hs ht.1
    refine ⟨h.1, h.2, ht.2.1, ?_⟩
    refine resW_append ht.2.2 ?_
    cases hop : pcOp t.pc with
    | none => intro r hr; cases hr
    | some op =>
      intro r hr k v hk _
      obtain ⟨o, _, rfl⟩ := List.mem_map.mp hr
      exact absurd hk (pcOp_not_get hop k)

variable (Wr)

structure WInv (y : Sys State Thread Ev) : Prop where
  store : StoreW Wr y.shared.store
  threads : ∀ t ∈ y.threads, ThreadW Wr t

variable {Wr}

theorem winv_stepAt (y : Sys State Thread Ev) (i : Nat) (h : WInv Wr y) :
    WInv Wr (stepAt (machine cfg vic) y i) := by
  rcases stepAt_cases (machine cfg vic) y i with heq | ⟨t, hget, _, heq⟩
  · rw [heq]; exact h
  · rw [heq]
    have hst := step_W cfg vic h.store (h.threads t (mem_of_getElem? hget))
    refine ⟨hst.1, ?_⟩
    intro u hu
    rcases List.mem_or_eq_of_mem_set hu with hu | rfl
    · exact h.threads u hu
    · exact hst.2

end Wrote


/-! ## linearisation log -/

/-- the map a sequential observer sees (fragment without expiring entries) -/
def abs (st : Store) : Ref := fun k => (lookup k st).map (·.val)

theorem abs_erase (k : Key) (st : Store) : abs (erase k st) = fun k' => if k' = k then none else abs st k' := by
  funext k'
  by_cases h : k' = k
  · subst h; simp only [abs, lookup_erase_self, if_true]; rfl
  · simp only [abs, lookup_erase_ne h, h, if_false]

theorem abs_cons_erase (k : Key) (e : Entry) (st : Store) :
    abs ((k, e) :: erase k st) = fun k' => if k' = k then some e.val else abs st k' := by
  funext k'
  by_cases h : k' = k
  · subst h; simp only [abs, lookup_cons_self, if_true]; rfl
  · simp only [abs, lookup_cons_ne h, lookup_erase_ne h, h, if_false]

/-- the event an answered operation stands for -/
def evOf : Op → Out → Option Ev
  | .get k, .val o => some (.get k o)
  | .contains k, .bool b => some (.contains k b)
  | .put k v _, .unit => some (.put k v)
  | .remove k, .bool b => some (.remove k b)
  | .clear, .unit => some .clear
  | _, _ => none

def isClient : Ev → Bool
  | .drop _ => false
  | _ => true

theorem startOp_lin {op : Op} (hs : NoShort s.store) :
    Legal (abs s.store) (startOp cfg s op).2.2.2 ∧
    abs (startOp cfg s op).1.store = applyAll (abs s.store) (startOp cfg s op).2.2.2 ∧
    (startOp cfg s op).2.2.1.filterMap (evOf op) = (startOp cfg s op).2.2.2.filter isClient := by
  cases op with
  | get k =>
    cases hl : lookup k s.store with
    | none =>
      rw [startOp_get_none cfg s hl]
      refine ⟨⟨?_, trivial⟩, rfl, rfl⟩
      show none = abs s.store k
      simp only [abs, hl]; rfl
    | some e =>
      rw [startOp_get_hit cfg s hl (noShort_lookup hs hl)]
      refine ⟨⟨?_, trivial⟩, ?_, rfl⟩
      · show some e.val = abs s.store k
        simp only [abs, hl]; rfl
      · show abs ((k, _) :: erase k s.store) = abs s.store
        rw [abs_cons_erase]
        funext k'
        by_cases h : k' = k
        · subst h; simp only [if_true, abs, hl]; rfl
        · simp only [h, if_false]
  | contains k =>
    cases hl : lookup k s.store with
    | none =>
      rw [startOp_contains_none cfg s hl]
      refine ⟨⟨?_, trivial⟩, rfl, rfl⟩
      show false = (abs s.store k).isSome
      simp only [abs, hl]; rfl
    | some e =>
      rw [startOp_contains_hit cfg s hl (noShort_lookup hs hl)]
      refine ⟨⟨?_, trivial⟩, rfl, rfl⟩
      show true = (abs s.store k).isSome
      simp only [abs, hl]; rfl
  | put k v sh =>
    rw [startOp_put]
    exact ⟨trivial, rfl, rfl⟩
  | remove k =>
    cases hl : lookup k s.store with
    | none =>
      rw [startOp_remove_none cfg s hl]
      refine ⟨⟨?_, trivial⟩, ?_, rfl⟩
      · show false = (abs s.store k).isSome
        simp only [abs, hl]; rfl
      · show abs s.store = fun k' => if k' = k then none else abs s.store k'
        funext k'
        by_cases h : k' = k
        · subst h; simp only [if_true, abs, hl]; rfl
        · simp only [h, if_false]
    | some e =>
      rw [startOp_remove_some cfg s hl]
      refine ⟨⟨?_, trivial⟩, ?_, rfl⟩
      · show true = (abs s.store k).isSome
        simp only [abs, hl]; rfl
      · show abs (erase k s.store) = fun k' => if k' = k then none else abs s.store k'
        exact abs_erase k s.store
  | clear =>
    rw [startOp_clear]
    exact ⟨⟨trivial, trivial⟩, rfl, rfl⟩
  | sweep ord =>
    rw [startOp_sweep]
    exact ⟨trivial, rfl, rfl⟩

theorem contOp_lin {pc : Pc} (hpc : PcOk true pc) :
    Legal (abs s.store) (contOp cfg vic s pc).2.2.2 ∧
    abs (contOp cfg vic s pc).1.store = applyAll (abs s.store) (contOp cfg vic s pc).2.2.2 ∧
    (match pcOp pc with
     | some op => (contOp cfg vic s pc).2.2.1.filterMap (evOf op)
     | none => []) = (contOp cfg vic s pc).2.2.2.filter isClient := by
  cases pc with
  | idle => exact ⟨trivial, rfl, rfl⟩
  | xRemove g k sz => exact hpc.elim
  | xCount g sz => exact hpc.elim
  | xBytes g sz => exact hpc.elim
  | pEvict a => simp only [contOp]; split <;> exact ⟨trivial, rfl, rfl⟩
  | eLoad a => simp only [contOp]; split <;> exact ⟨trivial, rfl, rfl⟩
  | eSnap a n => exact ⟨trivial, rfl, rfl⟩
  | eRemove a k vs =>
    cases hl : lookup k s.store with
    | none => rw [contOp_eRemove_none cfg vic s hl]; exact ⟨trivial, rfl, rfl⟩
    | some e =>
      rw [contOp_eRemove_some cfg vic s hl]
      refine ⟨⟨trivial, trivial⟩, ?_, rfl⟩
      show abs (erase k s.store) = fun k' => if k' = k then none else abs s.store k'
      exact abs_erase k s.store
  | eCount a sz vs => exact ⟨trivial, rfl, rfl⟩
  | eBytes a sz vs => exact ⟨trivial, rfl, rfl⟩
  | pInsert a =>
    cases hl : lookup a.k s.store with
    | none =>
      rw [contOp_pInsert_none cfg vic s hl]
      refine ⟨⟨trivial, trivial⟩, ?_, rfl⟩
      show abs ((a.k, _) :: erase a.k s.store) = fun k' => if k' = a.k then some a.v else abs s.store k'
      exact abs_cons_erase _ _ _
    | some e =>
      rw [contOp_pInsert_some cfg vic s hl]
      refine ⟨⟨trivial, trivial⟩, ?_, rfl⟩
      show abs ((a.k, _) :: erase a.k s.store) = fun k' => if k' = a.k then some a.v else abs s.store k'
      exact abs_cons_erase _ _ _
  | pReplBytes n o => exact ⟨trivial, rfl, rfl⟩
  | pNewCount sz => exact ⟨trivial, rfl, rfl⟩
  | pNewBytes sz => exact ⟨trivial, rfl, rfl⟩
  | rCount sz => exact ⟨trivial, rfl, rfl⟩
  | rBytes sz => exact ⟨trivial, rfl, rfl⟩
  | cCount => exact ⟨trivial, rfl, rfl⟩
  | cBytes => exact ⟨trivial, rfl, rfl⟩
  | wRemove k ks =>
    cases hl : lookup k s.store with
    | none => rw [contOp_wRemove_none cfg vic s hl]; exact ⟨trivial, rfl, rfl⟩
    | some e =>
      by_cases hsh : e.short = true
      · rw [contOp_wRemove_short cfg vic s hl hsh]
        refine ⟨⟨trivial, trivial⟩, ?_, rfl⟩
        show abs (erase k s.store) = fun k' => if k' = k then none else abs s.store k'
        exact abs_erase k s.store
      · have hsh : e.short = false := by simpa using hsh
        rw [contOp_wRemove_live cfg vic s hl hsh]; exact ⟨trivial, rfl, rfl⟩
  | wCount sz ks => exact hpc.elim
  | wBytes sz ks => exact hpc.elim

/-- the client events a list of answers stands for -/
def evsOf (rs : List (Op × Out)) : List Ev := rs.filterMap (fun r => evOf r.1 r.2)

theorem evsOf_map (op : Op) (outs : List Out) :
    evsOf (outs.map (fun o => (op, o))) = outs.filterMap (evOf op) := by
  unfold evsOf
  rw [List.filterMap_map]
  rfl

/-- one step: its events are a legal continuation, they account for the change of the map,
and the answers the thread records are exactly its client events -/
theorem step_lin {t : Thread} (hs : NoShort s.store) (ht : ThreadOk true t) :
    Legal (abs s.store) (step cfg vic s t).2.2 ∧
    abs (step cfg vic s t).1.store = applyAll (abs s.store) (step cfg vic s t).2.2 ∧
    evsOf (step cfg vic s t).2.1.results = evsOf t.results ++ (step cfg vic s t).2.2.filter isClient := by
  by_cases hpc : t.pc = .idle
  · cases htd : t.todo with
    | nil =>
      rw [step_idle_nil cfg vic s hpc htd]
      refine ⟨trivial, rfl, ?_⟩
      simp only [List.filter_nil, List.append_nil]
    | cons op rest =>
      rw [step_idle_cons cfg vic s hpc htd]
      have h := startOp_lin cfg (s := MemCache.tick s) (op := op) hs
      refine ⟨h.1, h.2.1, ?_⟩
      show evsOf (t.results ++ _) = _
      unfold evsOf
      rw [List.filterMap_append]
      congr 1
      exact (evsOf_map op _).trans h.2.2
  · rw [step_cont cfg vic s hpc]
    have h := contOp_lin cfg vic (s := MemCache.tick s) ht.1
    refine ⟨h.1, h.2.1, ?_⟩
    show evsOf (t.results ++ _) = _
    unfold evsOf
    rw [List.filterMap_append]
    congr 1
    rw [← h.2.2]
    cases pcOp t.pc with
    | none => rfl
    | some op => exact evsOf_map op _

theorem legal_append : ∀ (a b : List Ev) (r : Ref), Legal r (a ++ b) ↔ Legal r a ∧ Legal (applyAll r a) b := by
  intro a
  induction a with
  | nil => intro b r; simp only [List.nil_append, Legal, true_and]; rfl
  | cons e l ih =>
    intro b r
    simp only [List.cons_append, Legal, ih, and_assoc]
    rfl

theorem applyAll_append (a b : List Ev) (r : Ref) : applyAll r (a ++ b) = applyAll (applyAll r a) b := by
  unfold applyAll; rw [List.foldl_append]

/-- the client events of thread `i` in the log, in order -/
def clientLog (i : Nat) (log : List (Nat × Ev)) : List Ev :=
  ((log.filter (fun p => p.1 == i)).map (·.2)).filter isClient

theorem clientLog_append_self (i : Nat) (log : List (Nat × Ev)) (evs : List Ev) :
    clientLog i (log ++ evs.map (fun e => (i, e))) = clientLog i log ++ evs.filter isClient := by
  unfold clientLog
  rw [List.filter_append, List.map_append, List.filter_append]
  congr 2
  induction evs with
  | nil => rfl
  | cons e l ih => simp only [List.map_cons, List.filter_cons, beq_self_eq_true, if_true, ih]

theorem clientLog_append_ne {i j : Nat} (h : i ≠ j) (log : List (Nat × Ev)) (evs : List Ev) :
    clientLog j (log ++ evs.map (fun e => (i, e))) = clientLog j log := by
  unfold clientLog
  rw [List.filter_append, List.map_append, List.filter_append]
  have : (evs.map (fun e => (i, e))).filter (fun p => p.1 == j) = [] := by
    induction evs with
    | nil => rfl
    | cons e l ih =>
      have hne : (i == j) = false := by simpa using h
      simp only [List.map_cons, List.filter_cons, hne, ih]
      rfl
  rw [this]
  simp only [List.map_nil, List.filter_nil, List.append_nil]

theorem map_snd_tag (i : Nat) (evs : List Ev) : (evs.map (fun e => (i, e))).map (·.2) = evs := by
  induction evs with
  | nil => rfl
  | cons e l ih => simp only [List.map_cons, ih]

/-- the linearisation invariant: the ghost log is a legal sequential history from the initial
map, it ends in the stored map, and every thread's answers are its client events of the log -/
structure LInv (r0 : Ref) (y : Sys State Thread Ev) : Prop where
  nodup : NoDup y.shared.store
  noshort : NoShort y.shared.store
  ok : ∀ t ∈ y.threads, ThreadOk true t
  legal : Legal r0 (y.log.map (·.2))
  final : abs y.shared.store = applyAll r0 (y.log.map (·.2))
  answers : ∀ i t, y.threads[i]? = some t → evsOf t.results = clientLog i y.log

theorem linv_stepAt {r0 : Ref} (y : Sys State Thread Ev) (i : Nat) (h : LInv r0 y) :
    LInv r0 (stepAt (machine cfg vic) y i) := by
  rcases stepAt_cases (machine cfg vic) y i with heq | ⟨t, hget, _, heq⟩
  · rw [heq]; exact h
  · rw [heq]
    have htm : t ∈ y.threads := mem_of_getElem? hget
    have hok := step_ok cfg vic h.nodup h.noshort (h.ok t htm)
    have hl := step_lin cfg vic h.noshort (h.ok t htm)
    refine ⟨hok.1, hok.2.1, ?_, ?_, ?_, ?_⟩
    · intro u hu
      rcases List.mem_or_eq_of_mem_set hu with hu | rfl
      · exact h.ok u hu
      · exact hok.2.2
    · show Legal r0 ((y.log ++ (step cfg vic y.shared t).2.2.map (fun e => (i, e))).map (·.2))
      rw [List.map_append, map_snd_tag, legal_append, ← h.final]
      exact ⟨h.legal, hl.1⟩
    · show abs (step cfg vic y.shared t).1.store =
        applyAll r0 ((y.log ++ (step cfg vic y.shared t).2.2.map (fun e => (i, e))).map (·.2))
      rw [List.map_append, map_snd_tag, applyAll_append, ← h.final]
      exact hl.2.1
    · intro j u hu
      show evsOf u.results = clientLog j (y.log ++ (step cfg vic y.shared t).2.2.map (fun e => (i, e)))
      have hu' : (y.threads.set i (step cfg vic y.shared t).2.1)[j]? = some u := hu
      by_cases hij : i = j
      · subst hij
        have hlt : i < y.threads.length := (List.getElem?_eq_some_iff.mp hget).1
        rw [List.getElem?_set_self hlt] at hu'
        cases hu'
        rw [clientLog_append_self, ← h.answers i t hget]
        exact hl.2.2
      · rw [List.getElem?_set_ne hij] at hu'
        rw [clientLog_append_ne hij]
        exact h.answers j u hu'

/-! ## the background cleanup task with expiring entries

Fragment "writers and the cleanup task": puts of ANY TTL class (expiring entries included),
removes and sweeps.  (The expired-entry path of get / contains and `clear` are the races the
tree has; they stay outside.)  The ghost pending-delta equations hold at every moment: the
sweep's `remove_if` tests and books the entry that is stored at that instant. -/

def OpSw : Op → Prop
  | .put _ _ _ | .remove _ | .sweep _ => True
  | _ => False

instance (op : Op) : Decidable (OpSw op) := by
  cases op <;> unfold OpSw <;> infer_instance

def ThreadSw (t : Thread) : Prop := PcB t.pc ∧ ∀ op ∈ t.todo, OpSw op

theorem startOp_sw {op : Op} (hn : NoDup s.store) (hop : OpSw op) :
    NoDup (startOp cfg s op).1.store ∧ PcB (startOp cfg s op).2.1 ∧
    cDefect (startOp cfg s op).1 (startOp cfg s op).2.1 = cDefect s .idle ∧
    bDefect (startOp cfg s op).1 (startOp cfg s op).2.1 = bDefect s .idle := by
  cases op with
  | get k => cases hop
  | contains k => cases hop
  | clear => cases hop
  | put k v sh =>
    rw [startOp_put]
    dsimp only
    split <;> exact ⟨hn, trivial, rfl, rfl⟩
  | remove k =>
    cases hl : lookup k s.store with
    | none => rw [startOp_remove_none cfg s hl]; exact ⟨hn, trivial, rfl, rfl⟩
    | some e =>
      rw [startOp_remove_some cfg s hl]
      have h1 := length_erase hn hl
      have h2 : sumSize (erase k s.store) + e.size = sumSize s.store := sumBy_erase Entry.size hn hl
      refine ⟨nodup_erase hn, trivial, ?_, ?_⟩
      · simp only [cDefect, pendC]; omega
      · simp only [bDefect, pendB]; omega
  | sweep ord =>
    rw [startOp_sweep]
    refine ⟨hn, pcB_afterSweep _, ?_, ?_⟩
    · simp only [cDefect, pendC_afterSweep]; rfl
    · simp only [bDefect, pendB_afterSweep]; rfl

/-- a later step keeps the keys distinct and never enters the reader's expired path or `clear` -/
theorem contOp_pcB {pc : Pc} (hn : NoDup s.store) (hpc : PcB pc) :
    NoDup (contOp cfg vic s pc).1.store ∧ PcB (contOp cfg vic s pc).2.1 := by
  cases pc with
  | idle => exact ⟨hn, trivial⟩
  | xRemove g k sz => exact hpc.elim
  | xCount g sz => exact hpc.elim
  | xBytes g sz => exact hpc.elim
  | pEvict a => simp only [contOp]; split <;> exact ⟨hn, trivial⟩
  | eLoad a => simp only [contOp]; split <;> exact ⟨hn, trivial⟩
  | eSnap a n => simp only [contOp]; exact ⟨hn, pcB_afterVictim _ _⟩
  | eRemove a k vs =>
    cases hl : lookup k s.store with
    | none => rw [contOp_eRemove_none cfg vic s hl]; exact ⟨hn, pcB_afterVictim _ _⟩
    | some e => rw [contOp_eRemove_some cfg vic s hl]; exact ⟨nodup_erase hn, trivial⟩
  | eCount a sz vs => exact ⟨hn, trivial⟩
  | eBytes a sz vs => exact ⟨hn, pcB_afterVictim _ _⟩
  | pInsert a =>
    cases hl : lookup a.k s.store with
    | none => rw [contOp_pInsert_none cfg vic s hl]; exact ⟨nodup_cons_erase _ hn, trivial⟩
    | some e => rw [contOp_pInsert_some cfg vic s hl]; exact ⟨nodup_cons_erase _ hn, trivial⟩
  | pReplBytes n o => exact ⟨hn, trivial⟩
  | pNewCount sz => exact ⟨hn, trivial⟩
  | pNewBytes sz => exact ⟨hn, trivial⟩
  | rCount sz => exact ⟨hn, trivial⟩
  | rBytes sz => exact ⟨hn, trivial⟩
  | cCount => exact hpc.elim
  | cBytes => exact hpc.elim
  | wRemove k ks =>
    cases hl : lookup k s.store with
    | none => rw [contOp_wRemove_none cfg vic s hl]; exact ⟨hn, pcB_afterSweep _⟩
    | some e =>
      by_cases hsh : e.short = true
      · rw [contOp_wRemove_short cfg vic s hl hsh]; exact ⟨nodup_erase hn, trivial⟩
      · have hsh : e.short = false := by simpa using hsh
        rw [contOp_wRemove_live cfg vic s hl hsh]; exact ⟨hn, pcB_afterSweep _⟩
  | wCount sz ks => exact ⟨hn, trivial⟩
  | wBytes sz ks => exact ⟨hn, pcB_afterSweep _⟩

theorem step_sw {t : Thread} (hn : NoDup s.store) (ht : ThreadSw t) :
    NoDup (step cfg vic s t).1.store ∧ ThreadSw (step cfg vic s t).2.1 ∧
    cDefect (step cfg vic s t).1 (step cfg vic s t).2.1.pc = cDefect s t.pc ∧
    bDefect (step cfg vic s t).1 (step cfg vic s t).2.1.pc = bDefect s t.pc := by
  by_cases hpc : t.pc = .idle
  · cases htd : t.todo with
    | nil => rw [step_idle_nil cfg vic s hpc htd]; exact ⟨hn, ht, rfl, rfl⟩
    | cons op rest =>
      rw [step_idle_cons cfg vic s hpc htd]
      have hop : OpSw op := ht.2 op (by rw [htd]; exact List.mem_cons_self)
      have h := startOp_sw cfg (s := MemCache.tick s) hn hop
      rw [hpc]
      exact ⟨h.1, ⟨h.2.1, fun o ho => ht.2 o (by rw [htd]; exact List.mem_cons_of_mem _ ho)⟩, h.2.2.1, h.2.2.2⟩
  · rw [step_cont cfg vic s hpc]
    have h := contOp_pcB cfg vic (s := MemCache.tick s) hn ht.1
    have hb := contOp_books cfg vic (s := MemCache.tick s) hn ht.1
    exact ⟨h.1, ⟨h.2, ht.2⟩, hb.1, hb.2⟩

/-- the books invariant with the ghost pending deltas, expiring entries and the cleanup task
included -/
structure SInv (y : Sys State Thread Ev) : Prop where
  nodup : NoDup y.shared.store
  ok : ∀ t ∈ y.threads, ThreadSw t
  count : y.shared.count + sumF (fun t => pendC t.pc) y.threads = (y.shared.store.length : Int)
  bytes : y.shared.bytes + sumF (fun t => pendB t.pc) y.threads = (sumSize y.shared.store : Int)

theorem sinv_stepAt (y : Sys State Thread Ev) (i : Nat) (h : SInv y) :
    SInv (stepAt (machine cfg vic) y i) := by
  rcases stepAt_cases (machine cfg vic) y i with heq | ⟨t, hget, _, heq⟩
  · rw [heq]; exact h
  · rw [heq]
    have htm : t ∈ y.threads := mem_of_getElem? hget
    have hst := step_sw cfg vic h.nodup (h.ok t htm)
    have hc := h.count
    have hby := h.bytes
    refine ⟨hst.1, ?_, ?_, ?_⟩
    · intro u hu
      rcases List.mem_or_eq_of_mem_set hu with hu | rfl
      · exact h.ok u hu
      · exact hst.2.1
    · show (step cfg vic y.shared t).1.count + sumF _ (y.threads.set i (step cfg vic y.shared t).2.1) =
        ((step cfg vic y.shared t).1.store.length : Int)
      rw [sumF_set _ _ _ _ _ hget]
      have := hst.2.2.1
      simp only [cDefect] at this
      omega
    · show (step cfg vic y.shared t).1.bytes + sumF _ (y.threads.set i (step cfg vic y.shared t).2.1) =
        (sumSize (step cfg vic y.shared t).1.store : Int)
      rw [sumF_set _ _ _ _ _ hget]
      have := hst.2.2.2
      simp only [bDefect] at this
      omega

theorem sinv_sys {s0 : State} {progs : List (List Op)} (hn : NoDup s0.store)
    (hc : s0.count = (s0.store.length : Int)) (hb : s0.bytes = (sumSize s0.store : Int))
    (hp : ∀ p ∈ progs, ∀ op ∈ p, OpSw op) : SInv (sys s0 progs) := by
  have hidle : ∀ t ∈ (sys s0 progs).threads, t.pc = .idle := by
    intro t ht
    obtain ⟨p, _, rfl⟩ := List.mem_map.mp ht
    rfl
  refine ⟨hn, ?_, ?_, ?_⟩
  · intro t ht
    obtain ⟨p, hp', rfl⟩ := List.mem_map.mp ht
    exact ⟨trivial, hp p hp'⟩
  · rw [sumF_zero _ _ (fun t ht => by simp only [hidle t ht]; rfl)]
    show s0.count + 0 = (s0.store.length : Int); omega
  · rw [sumF_zero _ _ (fun t ht => by simp only [hidle t ht]; rfl)]
    show s0.bytes + 0 = (sumSize s0.store : Int); omega

/-! ### the sweep leaves every entry alone whose TTL has not ended -/

/-- the thread is the cleanup task: between ticks or inside one -/
def IsW : Pc → Prop
  | .idle | .wRemove _ _ | .wCount _ _ | .wBytes _ _ => True
  | _ => False

def IsSweep : Op → Prop
  | .sweep _ => True
  | _ => False

instance (op : Op) : Decidable (IsSweep op) := by
  cases op <;> unfold IsSweep <;> infer_instance

/-- a thread that does nothing but sweep, wherever it stands (whatever keys it has collected) -/
def SweepOnly (t : Thread) : Prop := IsW t.pc ∧ ∀ op ∈ t.todo, IsSweep op

theorem isW_afterSweep (ks : List Key) : IsW (afterSweep ks) := by cases ks <;> trivial

/-- one step of the cleanup task, from ANY point of its loop and with ANY list of collected
keys: it stays the cleanup task, and an entry whose TTL has not ended is still stored,
unchanged, afterwards -/
theorem sweepOnly_step {t : Thread} (ht : SweepOnly t) :
    SweepOnly (step cfg vic s t).2.1 ∧
    ∀ k e, lookup k s.store = some e → e.short = false →
      lookup k (step cfg vic s t).1.store = some e := by
  by_cases hpc : t.pc = .idle
  · cases htd : t.todo with
    | nil => rw [step_idle_nil cfg vic s hpc htd]; exact ⟨ht, fun k e h _ => h⟩
    | cons op rest =>
      rw [step_idle_cons cfg vic s hpc htd]
      have hop : IsSweep op := ht.2 op (by rw [htd]; exact List.mem_cons_self)
      cases op with
      | sweep ord =>
        rw [startOp_sweep]
        exact ⟨⟨isW_afterSweep _, fun o ho => ht.2 o (by rw [htd]; exact List.mem_cons_of_mem _ ho)⟩,
               fun k e h _ => h⟩
      | get k => cases hop
      | contains k => cases hop
      | put k v sh => cases hop
      | remove k => cases hop
      | clear => cases hop
  · rw [step_cont cfg vic s hpc]
    have hw := ht.1
    cases hpc' : t.pc with
    | wRemove k' ks =>
      cases hl : lookup k' (MemCache.tick s).store with
      | none =>
        rw [contOp_wRemove_none cfg vic _ hl]
        exact ⟨⟨isW_afterSweep _, ht.2⟩, fun k e h _ => h⟩
      | some e' =>
        by_cases hsh : e'.short = true
        · rw [contOp_wRemove_short cfg vic _ hl hsh]
          refine ⟨⟨trivial, ht.2⟩, ?_⟩
          intro k e h he
          have hne : k ≠ k' := by
            intro heq
            subst heq
            have : some e = some e' := h.symm.trans hl
            cases this
            rw [he] at hsh; cases hsh
          show lookup k (erase k' s.store) = some e
          rw [lookup_erase_ne hne]; exact h
        · have hsh : e'.short = false := by simpa using hsh
          rw [contOp_wRemove_live cfg vic _ hl hsh]
          exact ⟨⟨isW_afterSweep _, ht.2⟩, fun k e h _ => h⟩
    | wCount sz ks => exact ⟨⟨trivial, ht.2⟩, fun k e h _ => h⟩
    | wBytes sz ks => exact ⟨⟨isW_afterSweep _, ht.2⟩, fun k e h _ => h⟩
    | idle => exact absurd hpc' hpc
    | xRemove g k sz => rw [hpc'] at hw; exact hw.elim
    | xCount g sz => rw [hpc'] at hw; exact hw.elim
    | xBytes g sz => rw [hpc'] at hw; exact hw.elim
    | pEvict a => rw [hpc'] at hw; exact hw.elim
    | eLoad a => rw [hpc'] at hw; exact hw.elim
    | eSnap a n => rw [hpc'] at hw; exact hw.elim
    | eRemove a k vs => rw [hpc'] at hw; exact hw.elim
    | eCount a sz vs => rw [hpc'] at hw; exact hw.elim
    | eBytes a sz vs => rw [hpc'] at hw; exact hw.elim
    | pInsert a => rw [hpc'] at hw; exact hw.elim
    | pReplBytes n o => rw [hpc'] at hw; exact hw.elim
    | pNewCount sz => rw [hpc'] at hw; exact hw.elim
    | pNewBytes sz => rw [hpc'] at hw; exact hw.elim
    | rCount sz => rw [hpc'] at hw; exact hw.elim
    | rBytes sz => rw [hpc'] at hw; exact hw.elim
    | cCount => rw [hpc'] at hw; exact hw.elim
    | cBytes => rw [hpc'] at hw; exact hw.elim

/-- a system step taken by a sweeping thread (or by nobody) spares every live entry -/
theorem stepAt_sweeper_spares (y : Sys State Thread Ev) (i : Nat)
    (hi : ∀ t, y.threads[i]? = some t → SweepOnly t) :
    (∀ (j : Nat) (t : Thread), (stepAt (machine cfg vic) y i).threads[j]? = some t →
        (∃ t0, y.threads[j]? = some t0 ∧ (SweepOnly t0 → SweepOnly t))) ∧
    ∀ k e, lookup k y.shared.store = some e → e.short = false →
      lookup k (stepAt (machine cfg vic) y i).shared.store = some e := by
  rcases stepAt_cases (machine cfg vic) y i with heq | ⟨t, hget, _, heq⟩
  · rw [heq]; exact ⟨fun j t h => ⟨t, h, id⟩, fun k e h _ => h⟩
  · rw [heq]
    have hst := sweepOnly_step cfg vic (s := y.shared) (hi t hget)
    refine ⟨?_, hst.2⟩
    intro j u hu
    have hu' : (y.threads.set i (step cfg vic y.shared t).2.1)[j]? = some u := hu
    by_cases hij : i = j
    · subst hij
      have hlt : i < y.threads.length := (List.getElem?_eq_some_iff.mp hget).1
      rw [List.getElem?_set_self hlt] at hu'
      cases hu'
      exact ⟨t, hget, fun _ => hst.1⟩
    · rw [List.getElem?_set_ne hij] at hu'
      exact ⟨u, hu', id⟩

end Cascette.Proofs.MemConc
