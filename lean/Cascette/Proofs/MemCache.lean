/-
Proofs/MemCache — invariants of Model/MemCache:
 * `Inv`     : keys distinct, `count = |store|`, `bytes = Σ size`   (preserved by every op, for
               every victim list, valid or not)
 * `RefInv`  : every unexpired stored entry carries the reference map's value for its key
 * count bound for the count-driven policies when the victim lists are ones the policy allows
 * byte bound in the only form the code guarantees (entries × largest value)
-/
import Cascette.Proofs.CacheAssoc
namespace Cascette.Proofs.MemCache
open Cascette.Spec.CacheMap (Key Val Ref)
open Cascette.Model.CacheAssoc Cascette.Model.MemCache Cascette.Proofs.CacheAssoc
open Cascette.Spec

structure Inv (s : State) : Prop where
  nodup : NoDup s.store
  count : s.count = (s.store.length : Int)
  bytes : s.bytes = (sumSize s.store : Int)

theorem inv_init : Inv init := ⟨trivial, rfl, rfl⟩

theorem inv_tick {s : State} (h : Inv s) : Inv (tick s) := ⟨h.nodup, h.count, h.bytes⟩

theorem inv_removeCounted {s : State} (k : Key) (h : Inv s) : Inv (removeCounted s k) := by
  unfold removeCounted
  split
  · rename_i e he
    have h1 := length_erase h.nodup he
    have h2 := sumBy_erase Entry.size h.nodup he
    refine ⟨nodup_erase h.nodup, ?_, ?_⟩
    · show s.count - 1 = ((erase k s.store).length : Int)
      rw [h.count]; omega
    · show s.bytes - (e.size : Int) = (sumBy Entry.size (erase k s.store) : Int)
      rw [h.bytes]; unfold sumSize; omega
  · exact h

theorem inv_evictKeys (vs : List Key) : ∀ s, Inv s → Inv (evictKeys s vs) := by
  induction vs with
  | nil => intro s h; exact h
  | cons v t ih => intro s h; exact ih _ (inv_removeCounted v h)

theorem inv_performEviction (cfg : Config) {s : State} (vs : List Key) (h : Inv s) :
    Inv (performEviction cfg s vs) := by
  unfold performEviction
  split
  · exact h
  · split
    · exact h
    · split <;> exact inv_evictKeys _ _ h

theorem inv_preEvict (cfg : Config) {s : State} (vs : List Key) (h : Inv s) : Inv (preEvict cfg s vs) := by
  unfold preEvict
  split
  · exact inv_performEviction cfg vs h
  · exact h

theorem inv_insertCounted {s : State} (k : Key) (e : Entry) (h : Inv s) : Inv (insertCounted s k e) := by
  unfold insertCounted
  split
  · rename_i old he
    have h1 := length_erase h.nodup he
    have h2 := sumBy_erase Entry.size h.nodup he
    refine ⟨nodup_cons_erase e h.nodup, ?_, ?_⟩
    · show s.count = (((k, e) :: erase k s.store).length : Int)
      rw [h.count, List.length_cons]; omega
    · show (if e.size > old.size then s.bytes + ((e.size - old.size : Nat) : Int)
            else s.bytes - ((old.size - e.size : Nat) : Int)) = (sumBy Entry.size ((k, e) :: erase k s.store) : Int)
      rw [sumBy_cons, h.bytes]; unfold sumSize
      split <;> omega
  · rename_i he
    refine ⟨nodup_cons_erase e h.nodup, ?_, ?_⟩
    · show s.count + 1 = (((k, e) :: erase k s.store).length : Int)
      rw [h.count, List.length_cons, erase_of_lookup_none he]; omega
    · show s.bytes + (e.size : Int) = (sumBy Entry.size ((k, e) :: erase k s.store) : Int)
      rw [sumBy_cons, h.bytes, erase_of_lookup_none he]; unfold sumSize; omega

theorem inv_putCore (cfg : Config) {s : State} (k : Key) (v : Val) (short : Bool) (vs : List Key)
    (h : Inv s) : Inv (putCore cfg s k v short vs) :=
  inv_insertCounted k _ (inv_preEvict cfg vs h)

theorem inv_sweep {s : State} {k : Key} {e : Entry} (he : lookup k s.store = some e) (h : Inv s) :
    Inv (sweep s k e) := by
  unfold sweep
  rw [he]
  have h1 := length_erase h.nodup he
  have h2 := sumBy_erase Entry.size h.nodup he
  refine ⟨nodup_erase h.nodup, ?_, ?_⟩
  · show s.count - 1 = ((erase k s.store).length : Int)
    rw [h.count]; omega
  · show s.bytes - (e.size : Int) = (sumBy Entry.size (erase k s.store) : Int)
    rw [h.bytes]; unfold sumSize; omega

theorem inv_get {s : State} (k : Key) (h : Inv s) : Inv (Model.MemCache.get s k).1 := by
  unfold Model.MemCache.get
  split
  · exact h
  · rename_i e he
    split
    · exact inv_sweep he h
    · have h1 := length_erase h.nodup he
      have h2 := sumBy_erase Entry.size h.nodup he
      refine ⟨nodup_cons_erase _ h.nodup, ?_, ?_⟩
      · show s.count = (((k, _) :: erase k s.store).length : Int)
        rw [h.count, List.length_cons]; omega
      · show s.bytes = (sumBy Entry.size ((k, { e with last := s.clock, hits := e.hits + 1 }) :: erase k s.store) : Int)
        rw [sumBy_cons, h.bytes]; unfold sumSize
        show (sumBy Entry.size s.store : Int) = ((e.size + sumBy Entry.size (erase k s.store) : Nat) : Int)
        omega

theorem inv_contains {s : State} (k : Key) (h : Inv s) : Inv (contains s k).1 := by
  unfold contains
  split
  · exact h
  · rename_i e he
    split
    · exact inv_sweep he h
    · exact h

theorem inv_remove {s : State} (k : Key) (h : Inv s) : Inv (remove s k).1 := by
  unfold remove
  split
  · exact inv_removeCounted k h
  · exact h

theorem inv_step (cfg : Config) {s : State} (op : Op) (h : Inv s) : Inv (step cfg s op).1 := by
  have ht := inv_tick h
  cases op with
  | put k v vs => exact inv_putCore cfg k v _ vs ht
  | putTtl k v short vs => exact inv_putCore cfg k v short vs ht
  | get k => exact inv_get k ht
  | contains k => exact inv_contains k ht
  | remove k => exact inv_remove k ht
  | clear => exact ⟨trivial, rfl, rfl⟩
  | size => exact ht
  | stats => exact ht

theorem inv_run (cfg : Config) (ops : List Op) : ∀ s, Inv s → Inv (run cfg s ops) := by
  induction ops with
  | nil => intro s h; exact h
  | cons op t ih => intro s h; exact ih _ (inv_step cfg op h)

/-! ### reference map -/

def RefInv (s : State) (r : Ref) : Prop :=
  ∀ k e, lookup k s.store = some e → e.short = false → r k = some e.val

theorem mono_removeCounted {s : State} {k k' : Key} {e : Entry}
    (h : lookup k' (removeCounted s k).store = some e) : lookup k' s.store = some e := by
  unfold removeCounted at h
  split at h
  · exact lookup_erase_some h
  · exact h

theorem mono_evictKeys (vs : List Key) : ∀ (s : State) {k' : Key} {e : Entry},
    lookup k' (evictKeys s vs).store = some e → lookup k' s.store = some e := by
  induction vs with
  | nil => intro s k' e h; exact h
  | cons v t ih => intro s k' e h; exact mono_removeCounted (ih _ h)

theorem mono_performEviction (cfg : Config) {s : State} (vs : List Key) {k' : Key} {e : Entry}
    (h : lookup k' (performEviction cfg s vs).store = some e) : lookup k' s.store = some e := by
  unfold performEviction at h
  split at h
  · exact h
  · split at h
    · exact h
    · split at h <;> exact mono_evictKeys _ _ h

theorem mono_preEvict (cfg : Config) {s : State} (vs : List Key) {k' : Key} {e : Entry}
    (h : lookup k' (preEvict cfg s vs).store = some e) : lookup k' s.store = some e := by
  unfold preEvict at h
  split at h
  · exact mono_performEviction cfg vs h
  · exact h

theorem insertCounted_store (s : State) (k : Key) (e : Entry) :
    (insertCounted s k e).store = (k, e) :: erase k s.store := by
  unfold insertCounted; split <;> rfl

theorem ref_putCore (cfg : Config) {s : State} {r : Ref} (k : Key) (v : Val) (short : Bool)
    (vs : List Key) (h : RefInv s r) :
    RefInv (putCore cfg s k v short vs) (CacheMap.step r (.put k v (!short))) := by
  intro k' e' hl hs
  unfold putCore at hl
  rw [insertCounted_store] at hl
  unfold CacheMap.step
  by_cases hk : k' = k
  · subst hk
    rw [lookup_cons_self] at hl
    cases hl
    simp only [newEntry] at hs ⊢
    simp [hs]
  · rw [lookup_cons_ne hk] at hl
    simp only [hk, if_false]
    exact h k' e' (mono_preEvict cfg vs (lookup_erase_some hl)) hs

theorem sweep_store {s : State} {k : Key} {e : Entry} (he : lookup k s.store = some e) :
    (sweep s k e).store = erase k s.store := by
  unfold sweep; rw [he]

theorem ref_get {s : State} {r : Ref} (k : Key) (h : RefInv s r) : RefInv (Model.MemCache.get s k).1 r := by
  intro k' e' hl hs
  unfold Model.MemCache.get at hl
  split at hl
  · exact h k' e' hl hs
  · rename_i e he
    split at hl
    · rw [sweep_store he] at hl; exact h k' e' (lookup_erase_some hl) hs
    · rename_i hsh
      by_cases hk : k' = k
      · subst hk
        rw [show ({ s with store := (k', { e with last := s.clock, hits := e.hits + 1 }) :: erase k' s.store } : State).store
              = (k', { e with last := s.clock, hits := e.hits + 1 }) :: erase k' s.store from rfl, lookup_cons_self] at hl
        cases hl
        exact h k' e he (by simpa using hsh)
      · rw [show ({ s with store := (k, { e with last := s.clock, hits := e.hits + 1 }) :: erase k s.store } : State).store
              = (k, { e with last := s.clock, hits := e.hits + 1 }) :: erase k s.store from rfl, lookup_cons_ne hk] at hl
        exact h k' e' (lookup_erase_some hl) hs

theorem ref_contains {s : State} {r : Ref} (k : Key) (h : RefInv s r) : RefInv (contains s k).1 r := by
  intro k' e' hl hs
  unfold contains at hl
  split at hl
  · exact h k' e' hl hs
  · rename_i e he
    split at hl
    · rw [sweep_store he] at hl; exact h k' e' (lookup_erase_some hl) hs
    · exact h k' e' hl hs

theorem ref_remove {s : State} {r : Ref} (k : Key) (h : RefInv s r) :
    RefInv (remove s k).1 (CacheMap.step r (.remove k)) := by
  intro k' e' hl hs
  unfold CacheMap.step
  unfold remove at hl
  by_cases hk : k' = k
  · subst hk
    split at hl
    · rename_i e he
      unfold removeCounted at hl
      rw [he] at hl
      rw [show ({ s with store := erase k' s.store, count := s.count - 1, bytes := s.bytes - (e.size : Int) } : State).store
            = erase k' s.store from rfl, lookup_erase_self] at hl
      cases hl
    · rename_i he
      rw [he] at hl; cases hl
  · simp only [hk, if_false]
    split at hl
    · exact h k' e' (mono_removeCounted hl) hs
    · exact h k' e' hl hs

theorem ref_tick {s : State} {r : Ref} (h : RefInv s r) : RefInv (tick s) r := h

theorem ref_step (cfg : Config) {s : State} {r : Ref} (op : Op) (h : RefInv s r) :
    RefInv (step cfg s op).1 (CacheMap.step r (absOp cfg op)) := by
  have ht := ref_tick h
  cases op with
  | put k v vs => exact ref_putCore cfg k v _ vs ht
  | putTtl k v short vs => exact ref_putCore cfg k v short vs ht
  | get k => exact ref_get k ht
  | contains k => exact ref_contains k ht
  | remove k => exact ref_remove k ht
  | clear => intro k e hl _; cases hl
  | size => exact ht
  | stats => exact ht

theorem ref_run (cfg : Config) (ops : List Op) : ∀ (s : State) (r : Ref), RefInv s r →
    RefInv (run cfg s ops) (CacheMap.run r (ops.map (absOp cfg))) := by
  induction ops with
  | nil => intro s r h; exact h
  | cons op t ih => intro s r h; exact ih _ _ (ref_step cfg op h)

theorem ref_init : RefInv init CacheMap.empty := by
  intro k e hl _; cases hl

/-- what a `get` answers, in terms of the store -/
theorem get_out (s : State) (k : Key) :
    (Model.MemCache.get s k).2 = match lookup k s.store with
                  | some e => if e.short then none else some e.val
                  | none => none := by
  unfold Model.MemCache.get
  cases hl : lookup k s.store with
  | none => rfl
  | some e =>
    dsimp only
    by_cases hs : e.short = true
    · simp [hs]
    · simp [hs]

/-! ### count bound -/

theorem distinct_cons {a : Key} {t : List Key} (h : distinct (a :: t) = true) :
    a ∉ t ∧ distinct t = true := by
  unfold distinct at h
  simp only [Bool.and_eq_true, Bool.not_eq_true', List.contains_eq_mem, decide_eq_false_iff_not] at h
  exact h

theorem evictKeys_length (vs : List Key) : ∀ (s : State), Inv s → distinct vs = true →
    (∀ k ∈ vs, (lookup k s.store).isSome = true) →
    (evictKeys s vs).store.length + vs.length = s.store.length := by
  induction vs with
  | nil => intro s _ _ _; rfl
  | cons v t ih =>
    intro s hi hd hp
    obtain ⟨hnot, hdt⟩ := distinct_cons hd
    have hv := hp v List.mem_cons_self
    obtain ⟨e, he⟩ := Option.isSome_iff_exists.mp hv
    have hlen := length_erase hi.nodup he
    have hstore : (removeCounted s v).store = erase v s.store := by
      unfold removeCounted; rw [he]
    have := ih (removeCounted s v) (inv_removeCounted v hi) hdt (by
      intro k hk
      rw [hstore, lookup_erase_ne (by intro h; subst h; exact hnot hk)]
      exact hp k (List.mem_cons_of_mem _ hk))
    show (evictKeys (removeCounted s v) t).store.length + (t.length + 1) = s.store.length
    rw [hstore] at this
    omega

theorem victimsOk_facts {p : Policy} {st : Store} {n : Nat} {vs : List Key}
    (h : victimsOk p st n vs = true) :
    distinct vs = true ∧ (∀ k ∈ vs, (lookup k st).isSome = true) ∧ vs.length = min n st.length := by
  unfold victimsOk at h
  simp only [Bool.and_eq_true, List.all_eq_true, beq_iff_eq] at h
  exact ⟨h.1.1.1, h.1.1.2, h.1.2⟩

theorem target_lt (cfg : Config) (h : 1 ≤ cfg.maxEntries) : target cfg < cfg.maxEntries := by
  unfold target; omega

/-- after the eviction step of a put there is room for one more entry -/
theorem count_preEvict (cfg : Config) (hmax : 1 ≤ cfg.maxEntries) (hp : cfg.policy ≠ .ttl) {s : State}
    (hi : Inv s) (hc : s.count ≤ (cfg.maxEntries : Int)) (vs : List Key)
    (hok : (!evicts cfg s || victimsOk cfg.policy s.store (evictN cfg s) vs) = true) :
    (preEvict cfg s vs).count + 1 ≤ (cfg.maxEntries : Int) := by
  have htl := target_lt cfg hmax
  unfold preEvict
  by_cases hne : needsEviction cfg s = true
  · rw [if_pos hne]
    unfold performEviction
    simp only [hne, Bool.not_true, Bool.false_eq_true, if_false]
    by_cases hct : s.count ≤ (target cfg : Int)
    · rw [if_pos hct]; omega
    · rw [if_neg hct]
      have hev : evicts cfg s = true := by
        unfold evicts
        simp [hne, hct, hp]
      rw [hev] at hok
      simp only [Bool.not_true, Bool.false_or] at hok
      obtain ⟨hd, hpres, hlen⟩ := victimsOk_facts hok
      have hl := evictKeys_length vs s hi hd hpres
      have hcnt := (inv_evictKeys vs s hi).count
      have hn : evictN cfg s = s.store.length - target cfg := by
        unfold evictN; rw [hi.count]; omega
      have hres : (evictKeys s vs).count = (target cfg : Int) := by
        rw [hcnt]; rw [hn] at hlen
        have : target cfg < s.store.length := by
          have := hi.count; omega
        omega
      cases hpol : cfg.policy with
      | ttl => exact absurd hpol hp
      | lru => first | omega | (dsimp only; omega)
      | lfu => first | omega | (dsimp only; omega)
      | fifo => first | omega | (dsimp only; omega)
      | random => first | omega | (dsimp only; omega)
  · rw [if_neg hne]
    have : ¬ s.count ≥ (cfg.maxEntries : Int) := by
      intro hge
      apply hne
      unfold needsEviction
      simp [hge]
    omega

theorem count_insertCounted (s : State) (k : Key) (e : Entry) : (insertCounted s k e).count ≤ s.count + 1 := by
  unfold insertCounted
  split
  · show s.count ≤ s.count + 1; omega
  · show s.count + 1 ≤ s.count + 1; omega

theorem count_sweep_le {s : State} {k : Key} {e : Entry} : (sweep s k e).count ≤ s.count := by
  unfold sweep
  split
  · show s.count - 1 ≤ s.count; omega
  · exact Int.le_refl _

theorem count_removeCounted_le (s : State) (k : Key) : (removeCounted s k).count ≤ s.count := by
  unfold removeCounted
  split
  · show s.count - 1 ≤ s.count; omega
  · exact Int.le_refl _

theorem count_step (cfg : Config) (hmax : 1 ≤ cfg.maxEntries) (hp : cfg.policy ≠ .ttl) {s : State}
    (hi : Inv s) (hc : s.count ≤ (cfg.maxEntries : Int)) (op : Op) (hok : opOk cfg s op = true) :
    (step cfg s op).1.count ≤ (cfg.maxEntries : Int) := by
  have hit := inv_tick hi
  have hct : (tick s).count ≤ (cfg.maxEntries : Int) := hc
  cases op with
  | put k v vs =>
    have h1 := count_preEvict cfg hmax hp hit hct vs hok
    have h2 := count_insertCounted (preEvict cfg (tick s) vs) k (newEntry (preEvict cfg (tick s) vs) v cfg.defaultShort)
    have h3 : (step cfg s (.put k v vs)).1.count
        = (insertCounted (preEvict cfg (tick s) vs) k (newEntry (preEvict cfg (tick s) vs) v cfg.defaultShort)).count := rfl
    omega
  | putTtl k v short vs =>
    have h1 := count_preEvict cfg hmax hp hit hct vs hok
    have h2 := count_insertCounted (preEvict cfg (tick s) vs) k (newEntry (preEvict cfg (tick s) vs) v short)
    have h3 : (step cfg s (.putTtl k v short vs)).1.count
        = (insertCounted (preEvict cfg (tick s) vs) k (newEntry (preEvict cfg (tick s) vs) v short)).count := rfl
    omega
  | get k =>
    show (Model.MemCache.get (tick s) k).1.count ≤ _
    unfold Model.MemCache.get
    split
    · exact hct
    · split
      · have := @count_sweep_le (tick s) k ‹_›; dsimp only; omega
      · exact hct
  | contains k =>
    show (contains (tick s) k).1.count ≤ _
    unfold contains
    split
    · exact hct
    · split
      · have := @count_sweep_le (tick s) k ‹_›; dsimp only; omega
      · exact hct
  | remove k =>
    show (remove (tick s) k).1.count ≤ _
    unfold remove
    split
    · have := count_removeCounted_le (tick s) k; dsimp only; omega
    · exact hct
  | clear => show (0 : Int) ≤ _; omega
  | size => exact hct
  | stats => exact hct

theorem count_run (cfg : Config) (hmax : 1 ≤ cfg.maxEntries) (hp : cfg.policy ≠ .ttl) (ops : List Op) :
    ∀ s, Inv s → s.count ≤ (cfg.maxEntries : Int) → runOk cfg s ops = true →
      (run cfg s ops).count ≤ (cfg.maxEntries : Int) := by
  induction ops with
  | nil => intro s _ hc _; exact hc
  | cons op t ih =>
    intro s hi hc hok
    unfold runOk at hok
    simp only [Bool.and_eq_true] at hok
    exact ih _ (inv_step cfg op hi) (count_step cfg hmax hp hi hc op hok.1) hok.2

/-! ### byte bound in the form the code does guarantee -/

def AllLe (B : Nat) (st : Store) : Prop := ∀ p ∈ st, p.2.size ≤ B

theorem mem_erase {α : Type} {k : Key} {l : List (Key × α)} {p : Key × α} (h : p ∈ erase k l) : p ∈ l := by
  induction l with
  | nil => cases h
  | cons q t ih =>
    obtain ⟨k2, e2⟩ := q
    unfold erase at h
    by_cases hk : k2 = k
    · simp only [hk, if_true] at h; exact List.mem_cons_of_mem _ (ih h)
    · simp only [hk, if_false] at h
      rcases List.mem_cons.mp h with heq | hm
      · rw [heq]; exact List.mem_cons_self
      · exact List.mem_cons_of_mem _ (ih hm)

theorem sumSize_le {B : Nat} {st : Store} (h : AllLe B st) : sumSize st ≤ st.length * B := by
  induction st with
  | nil => show 0 ≤ 0 * B; omega
  | cons p t ih =>
    obtain ⟨k, e⟩ := p
    have h1 : e.size ≤ B := h (k, e) List.mem_cons_self
    have h2 := ih (fun q hq => h q (List.mem_cons_of_mem _ hq))
    unfold sumSize at h2 ⊢
    rw [sumBy_cons, List.length_cons, Nat.add_mul]
    omega

theorem allLe_removeCounted {B : Nat} {s : State} (k : Key) (h : AllLe B s.store) :
    AllLe B (removeCounted s k).store := by
  unfold removeCounted
  split
  · intro p hp; exact h p (mem_erase hp)
  · exact h

theorem allLe_evictKeys {B : Nat} (vs : List Key) : ∀ s : State, AllLe B s.store → AllLe B (evictKeys s vs).store := by
  induction vs with
  | nil => intro s h; exact h
  | cons v t ih => intro s h; exact ih _ (allLe_removeCounted v h)

theorem allLe_preEvict {B : Nat} (cfg : Config) {s : State} (vs : List Key) (h : AllLe B s.store) :
    AllLe B (preEvict cfg s vs).store := by
  unfold preEvict performEviction
  split
  · split
    · exact h
    · split
      · exact h
      · split <;> exact allLe_evictKeys _ _ h
  · exact h

theorem allLe_putCore {B : Nat} (cfg : Config) {s : State} (k : Key) (v : Val) (short : Bool) (vs : List Key)
    (h : AllLe B s.store) (hv : v.length ≤ B) : AllLe B (putCore cfg s k v short vs).store := by
  unfold putCore
  rw [insertCounted_store]
  intro p hp
  rcases List.mem_cons.mp hp with heq | hm
  · rw [heq]; exact hv
  · exact allLe_preEvict cfg vs h p (mem_erase hm)

theorem allLe_sweep {B : Nat} {s : State} {k : Key} {e : Entry} (h : AllLe B s.store) : AllLe B (sweep s k e).store := by
  unfold sweep
  split
  · intro p hp; exact h p (mem_erase hp)
  · exact h

def opValLe (B : Nat) : Op → Prop
  | .put _ v _ => v.length ≤ B
  | .putTtl _ v _ _ => v.length ≤ B
  | _ => True

theorem allLe_step {B : Nat} (cfg : Config) {s : State} (op : Op) (h : AllLe B s.store) (hv : opValLe B op) :
    AllLe B (step cfg s op).1.store := by
  have ht : AllLe B (tick s).store := h
  cases op with
  | put k v vs => exact allLe_putCore cfg k v _ vs ht hv
  | putTtl k v short vs => exact allLe_putCore cfg k v short vs ht hv
  | get k =>
    show AllLe B (Model.MemCache.get (tick s) k).1.store
    unfold Model.MemCache.get
    cases hl : lookup k (tick s).store with
    | none => exact ht
    | some e =>
      dsimp only
      by_cases hs : e.short = true
      · rw [if_pos hs]; exact allLe_sweep ht
      · rw [if_neg hs]
        intro p hp
        rcases List.mem_cons.mp hp with heq | hm
        · rw [heq]; exact ht (k, e) (mem_of_lookup hl)
        · exact ht p (mem_erase hm)
  | contains k =>
    show AllLe B (contains (tick s) k).1.store
    unfold contains
    cases hl : lookup k (tick s).store with
    | none => exact ht
    | some e =>
      dsimp only
      by_cases hs : e.short = true
      · rw [if_pos hs]; exact allLe_sweep ht
      · rw [if_neg hs]; exact ht
  | remove k =>
    show AllLe B (remove (tick s) k).1.store
    unfold remove
    split
    · exact allLe_removeCounted k ht
    · exact ht
  | clear => intro p hp; cases hp
  | size => exact ht
  | stats => exact ht

theorem allLe_run {B : Nat} (cfg : Config) (ops : List Op) : ∀ s : State, AllLe B s.store →
    (∀ op ∈ ops, opValLe B op) → AllLe B (run cfg s ops).store := by
  induction ops with
  | nil => intro s h _; exact h
  | cons op t ih =>
    intro s h hv
    exact ih _ (allLe_step cfg op h (hv op List.mem_cons_self)) (fun o ho => hv o (List.mem_cons_of_mem _ ho))

end Cascette.Proofs.MemCache
