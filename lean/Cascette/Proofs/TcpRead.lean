/-
Proofs/TcpRead — lemmas about the Ribbit TCP read loop (Model/TcpRead).
-/
import Cascette.Model.TcpRead
namespace Cascette.Proofs.TcpRead
open Cascette.Model.TcpRead

/-- the loop does not see an end-of-response at an interior segment boundary. -/
def NoEarlyStop (stop : List Nat → Bool) (buf : List Nat) (segs : List (List Nat)) : Prop :=
  ∀ k, 0 < k → k < segs.length → stop (buf ++ (segs.take k).flatten) = false

/-- without an early stop (and within the size limit) the loop returns everything that was sent. -/
theorem readLoopG_all (stop : List Nat → Bool) (limit : Nat) :
    ∀ (segs : List (List Nat)) (buf : List Nat),
      (∀ s ∈ segs, s ≠ []) → NoEarlyStop stop buf segs →
      (buf ++ segs.flatten).length ≤ limit →
      readLoopG stop limit buf segs = .ok (buf ++ segs.flatten) := by
  intro segs
  induction segs with
  | nil => intro buf _ _ _; simp [readLoopG]
  | cons s rest ih =>
    intro buf hne hno hlen
    have hs : s ≠ [] := hne s (by simp)
    obtain ⟨b, s', rfl⟩ := List.exists_cons_of_ne_nil hs
    have hlen' : (buf ++ (b :: s') ++ rest.flatten).length ≤ limit := by
      simpa [List.append_assoc] using hlen
    unfold readLoopG
    simp only
    by_cases hstop : stop (buf ++ b :: s') = true
    · rw [if_pos hstop]
      cases rest with
      | nil => simp
      | cons r rs =>
        have := hno 1 (by omega) (by simp)
        simp at this
        rw [this] at hstop; cases hstop
    · rw [if_neg hstop]
      have hle : ¬ (buf ++ b :: s').length > limit := by
        have : (buf ++ b :: s').length ≤ (buf ++ (b :: s') ++ rest.flatten).length := by
          simp [List.length_append]
        omega
      rw [if_neg hle]
      have := ih (buf ++ b :: s') (fun x hx => hne x (by simp [hx])) ?_ hlen'
      · rw [this]; simp [List.append_assoc]
      · intro k hk0 hk
        have := hno (k + 1) (by omega) (by simp; omega)
        simpa [List.take_succ_cons, List.append_assoc] using this

theorem readLoopG_single (stop : List Nat → Bool) (limit : Nat) (w : List Nat)
    (h : w.length ≤ limit) : readLoopG stop limit [] [w] = .ok w := by
  cases w with
  | nil => simp [readLoopG]
  | cons b s =>
    have := readLoopG_all stop limit [b :: s] [] (by simp)
      (by intro k h0 h1; simp at h1; omega) (by simpa using h)
    simpa using this

/-- the loop returns exactly the bytes up to the first segment boundary at which `stop` holds. -/
theorem readLoopG_stops (stop : List Nat → Bool) (limit : Nat) :
    ∀ (segs : List (List Nat)) (buf : List Nat) (k : Nat),
      (∀ s ∈ segs, s ≠ []) → 0 < k → k ≤ segs.length →
      (∀ j, 0 < j → j < k → stop (buf ++ (segs.take j).flatten) = false) →
      stop (buf ++ (segs.take k).flatten) = true →
      (∀ j, j < k → (buf ++ (segs.take j).flatten).length ≤ limit) →
      readLoopG stop limit buf segs = .ok (buf ++ (segs.take k).flatten) := by
  intro segs
  induction segs with
  | nil => intro buf k _ hk0 hk; simp at hk; omega
  | cons s rest ih =>
    intro buf k hne hk0 hk hno hstop hlen
    have hs : s ≠ [] := hne s (by simp)
    obtain ⟨b, s', rfl⟩ := List.exists_cons_of_ne_nil hs
    unfold readLoopG
    simp only
    match k, hk0 with
    | 1, _ =>
      have h1 : stop (buf ++ b :: s') = true := by simpa using hstop
      rw [if_pos h1]; simp
    | k' + 2, _ =>
      have h1 : stop (buf ++ b :: s') = false := by
        have := hno 1 (by omega) (by omega); simpa using this
      have h2 : ¬ (buf ++ b :: s').length > limit := by
        have := hlen 1 (by omega); simp at this ⊢; omega
      rw [h1]; simp only [Bool.false_eq_true, if_false]; rw [if_neg h2]
      have := ih (buf ++ b :: s') (k' + 1) (fun x hx => hne x (by simp [hx])) (by omega)
        (by simp at hk; omega) ?_ ?_ ?_
      · rw [this]; simp [List.take_succ_cons, List.append_assoc]
      · intro j hj0 hj
        have := hno (j + 1) (by omega) (by omega)
        simpa [List.take_succ_cons, List.append_assoc] using this
      · simpa [List.take_succ_cons, List.append_assoc] using hstop
      · intro j hj
        have := hlen (j + 1) (by omega)
        simpa [List.take_succ_cons, List.append_assoc] using this

/-! ### the concrete end-of-response test -/

theorem containsSub_append_right (n : List Nat) :
    ∀ (a b : List Nat), containsSub n a = true → containsSub n (a ++ b) = true := by
  intro a
  induction a with
  | nil =>
    intro b h
    simp [containsSub] at h
    subst h
    cases b <;> simp [containsSub]
  | cons x xs ih =>
    intro b h
    simp only [containsSub, Bool.or_eq_true] at h
    simp only [List.cons_append, containsSub, Bool.or_eq_true]
    rcases h with h | h
    · left
      rw [List.isPrefixOf_iff_prefix] at h ⊢
      exact h.trans (by simp)
    · right; exact ih b h

theorem take_map_lower_prefix (p q : List Nat) :
    ∃ r, ((p ++ q).take 512).map lower = ((p.take 512).map lower) ++ r := by
  refine ⟨(((p ++ q).take 512).drop (p.take 512).length).map lower, ?_⟩
  rw [← List.map_append]
  congr 1
  have : (p.take 512) <+: ((p ++ q).take 512) := by
    rw [List.take_append]
    exact List.prefix_append _ _
  obtain ⟨t, ht⟩ := this
  rw [← ht]; simp

/-- MIME detection is monotone in the buffer: once detected, every longer buffer is detected. -/
theorem isV1Mime_append (p q : List Nat) (h : isV1Mime p = true) : isV1Mime (p ++ q) = true := by
  unfold isV1Mime at h ⊢
  obtain ⟨r, hr⟩ := take_map_lower_prefix p q
  simp only [Bool.and_eq_true, Bool.or_eq_true] at h ⊢
  rw [hr]
  refine ⟨containsSub_append_right _ _ _ h.1, ?_⟩
  rcases h.2 with h2 | h2
  · left; exact containsSub_append_right _ _ _ h2
  · right; exact containsSub_append_right _ _ _ h2

/-- a prefix of the segment list concatenates to a prefix of the whole response. -/
theorem take_flatten_eq (segs : List (List Nat)) (k : Nat) :
    (segs.take k).flatten = segs.flatten.take ((segs.take k).flatten.length) := by
  conv => rhs; rw [← List.take_append_drop k segs, List.flatten_append]
  simp

theorem take_flatten_length_lt (segs : List (List Nat)) (hne : ∀ s ∈ segs, s ≠ []) (k : Nat)
    (hk : k < segs.length) : (segs.take k).flatten.length < segs.flatten.length := by
  conv => rhs; rw [← List.take_append_drop k segs, List.flatten_append, List.length_append]
  have : 0 < (segs.drop k).flatten.length := by
    cases hd : segs.drop k with
    | nil => simp at hd; omega
    | cons x xs =>
      have hx : x ∈ segs := List.mem_of_mem_drop (by rw [hd]; simp)
      have := hne x hx
      cases x with
      | nil => exact absurd rfl this
      | cons a as => simp
  omega

theorem take_flatten_length_pos (segs : List (List Nat)) (hne : ∀ s ∈ segs, s ≠ []) (k : Nat)
    (hk0 : 0 < k) (hk : k < segs.length) : 0 < (segs.take k).flatten.length := by
  cases segs with
  | nil => simp at hk
  | cons s rest =>
    have := hne s (by simp)
    cases s with
    | nil => exact absurd rfl this
    | cons a as =>
      cases k with
      | zero => omega
      | succ k => simp [List.take_succ_cons]

end Cascette.Proofs.TcpRead
