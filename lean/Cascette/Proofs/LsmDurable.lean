/-
Proofs/LsmDurable — entry-level save/load of the key index: what survives `save_index` +
`load_index`, and `reload ∘ save_all` as the identity on the denoted map.
-/
import Cascette.Proofs.LsmRefine
namespace Cascette.Proofs.Lsm
open Cascette.Spec.IndexMap (Entry Op Out bucketOf stDelete nBuckets keyByte Map)
open Cascette.Model.Lsm

/-- inside the field limits the property names, and not the empty-slot key. -/
def wfE (e : Entry) : Prop := e.key ≠ 0 ∧ e.id < 1024 ∧ e.off < 2 ^ 30
def wfU (u : Upd) : Prop := u.key ≠ 0 ∧ u.id < 1024 ∧ u.off < 2 ^ 30

structure WFB (bk : Bucket) : Prop where
  s : ∀ e ∈ bk.sorted, wfE e
  l : ∀ u ∈ bk.log, wfU u

theorem unpack_pack (id off : Nat) (hid : id < 1024) (hoff : off < 2 ^ 30) :
    unpackLoc (packLoc id off) = some (id, off) := by
  unfold packLoc unpackLoc
  simp only [Option.some.injEq, Prod.mk.injEq]
  constructor <;> omega

theorem packSorted_wf {e : Entry} (h : wfE e) : packSorted? e = some e := by
  obtain ⟨hk, hid, hoff⟩ := h
  unfold packSorted?
  rw [if_neg (by omega), if_neg hk, unpack_pack e.id e.off hid hoff]

theorem packUpd_wf {u : Upd} (h : wfU u) : packUpd u = u := by
  obtain ⟨_, hid, hoff⟩ := h
  unfold packUpd
  rw [unpack_pack u.id u.off hid hoff]

theorem filterMap_id {α : Type} (f : α → Option α) (l : List α) (h : ∀ x ∈ l, f x = some x) :
    l.filterMap f = l := by
  induction l with
  | nil => rfl
  | cons x l ih =>
    rw [List.filterMap_cons, h x List.mem_cons_self]
    simp only
    rw [ih (fun y hy => h y (List.mem_cons_of_mem _ hy))]

theorem map_id' {α : Type} (f : α → α) (l : List α) (h : ∀ x ∈ l, f x = x) : l.map f = l := by
  induction l with
  | nil => rfl
  | cons x l ih =>
    rw [List.map_cons, h x List.mem_cons_self, ih (fun y hy => h y (List.mem_cons_of_mem _ hy))]

/-- `sort_by_key` does nothing to a run that is already sorted by distinct keys. -/
theorem sortByKey_sorted (l : List Entry) (hs : Sorted l) : sortByKey l = l := by
  induction l with
  | nil => rfl
  | cons e l ih =>
    unfold Sorted at hs
    rw [List.pairwise_cons] at hs
    rw [sortByKey, ih hs.2]
    cases l with
    | nil => rfl
    | cons x xs =>
      have := Nat.le_of_lt (hs.1 x List.mem_cons_self)
      simp only [insertByKey, this, if_true]

/-- **save_load_id (bucket).** `load_index (save_index b) = b` for a bucket whose sorted run is
sorted by distinct keys and whose entries are inside the field limits with non-zero keys. -/
theorem load_save (bk : Bucket) (hs : Sorted bk.sorted) (hw : WFB bk) : loadB (saveB bk) = bk := by
  unfold loadB saveB
  simp only
  rw [filterMap_id _ _ (fun e he => packSorted_wf (hw.s e he)), sortByKey_sorted _ hs]
  have : bk.pages.map (·.map packUpd) = bk.pages := by
    apply map_id'
    intro p hp
    apply map_id'
    intro u hu
    apply packUpd_wf
    apply hw.l
    unfold Bucket.log
    exact List.mem_flatten.mpr ⟨p, hp, hu⟩
  rw [this]

def WFS (s : State) : Prop := ∀ b bk, s.mem b = some bk → WFB bk

/-- a bucket that is not loaded has no file (true of every state reached from the empty one:
files are only written for loaded buckets, and `reload` loads every file). -/
def NoOrphan (s : State) : Prop := ∀ b, s.mem b = none → s.disk b = none

/-- **save_load_id (manager).** `save_all` followed by a restart (`reload`) denotes the same
map and keeps the invariant, so any further history refines the same map. -/
theorem reload_saveAll (s : State) (M : Map) (h : RelMem s M) (hw : WFS s) (ho : NoOrphan s) :
    RelMem (reload (saveAll s)) M ∧ WFS (reload (saveAll s)) ∧ NoOrphan (reload (saveAll s)) := by
  obtain ⟨hg, ha⟩ := h
  have hmem : ∀ b, (reload (saveAll s)).mem b = s.mem b := by
    intro b
    unfold reload saveAll
    simp only
    cases hm : s.mem b with
    | none => simp [ho b hm]
    | some bk =>
      simp only [Option.map_some]
      rw [load_save bk (hg b bk hm).sorted (hw b bk hm)]
  refine ⟨⟨?_, ?_⟩, ?_, ?_⟩
  · intro b bk hb; rw [hmem b] at hb; exact hg b bk hb
  · intro k
    rw [← ha k]
    unfold absS
    rw [hmem]
  · intro b bk hb; rw [hmem b] at hb; exact hw b bk hb
  · intro b hb
    rw [hmem b] at hb
    show (saveAll s).disk b = none
    unfold saveAll
    simp only
    rw [hb]
    exact ho b hb

/-! ### the two durability invariants along a history -/

/-- arguments inside the field limits the property names, key not the empty-slot key. -/
def opWF : Op → Prop
  | .add k id off _ => k ≠ 0 ∧ id < 1024 ∧ off < 2 ^ 30
  | .update k id off _ => k ≠ 0 ∧ id < 1024 ∧ off < 2 ^ 30
  | _ => True

structure Extra (s : State) : Prop where
  wf : WFS s
  no : NoOrphan s

theorem wfb_empty : WFB Bucket.empty := ⟨(by intro e he; cases he), (by intro e he; cases he)⟩

theorem extra_setMem {s : State} (hx : Extra s) (b : Nat) (bk : Bucket) (hb : WFB bk) :
    Extra (s.setMem b bk) := by
  refine ⟨?_, ?_⟩
  · intro i x hi
    unfold State.setMem at hi
    simp only at hi
    by_cases h : i = b
    · rw [if_pos h] at hi; cases hi; exact hb
    · rw [if_neg h] at hi; exact hx.wf i x hi
  · intro i hi
    unfold State.setMem at hi
    simp only at hi
    by_cases h : i = b
    · rw [if_pos h] at hi; cases hi
    · rw [if_neg h] at hi; exact hx.no i hi

theorem wfb_flushB {bk : Bucket} (hs : Sorted bk.sorted) (hw : WFB bk) : WFB (flushB bk) := by
  refine ⟨?_, (by intro e he; cases he)⟩
  intro e he
  rcases mem_flushB hs he with h | ⟨u, hu, rfl⟩
  · exact hw.s e h
  · exact hw.l u hu

theorem extra_flushBucket {s : State} (hg : Good s) (hx : Extra s) (b : Nat) :
    Extra (flushBucket s b) := by
  unfold flushBucket
  cases hm : s.mem b with
  | none => exact hx
  | some bk =>
    simp only
    split
    · exact hx
    · have h1 := extra_setMem hx b (flushB bk) (wfb_flushB (hg b bk hm).sorted (hx.wf b bk hm))
      refine ⟨h1.wf, ?_⟩
      intro i hi
      have hi' : (s.setMem b (flushB bk)).mem i = none := hi
      show (if i = b then some (saveB (flushB bk)) else (s.setMem b (flushB bk)).disk i) = none
      by_cases h : i = b
      · subst h
        simp [State.setMem] at hi'
      · rw [if_neg h]
        exact h1.no i hi'

theorem wfb_append {bk : Bucket} (hw : WFB bk) {cfg : Cfg} {pg : List (List Upd)} {u : Upd}
    (hu : wfU u) (h : appendPages cfg bk.pages u = (pg, true)) : WFB { bk with pages := pg } := by
  refine ⟨hw.s, ?_⟩
  intro x hx
  unfold Bucket.log at hx
  simp only at hx
  rw [appendPages_ok h] at hx
  rcases List.mem_append.mp hx with hx | hx
  · exact hw.l x hx
  · simp only [List.mem_singleton] at hx; subst hx; exact hu

theorem extra_appendWithFlush (cfg : Cfg) {s : State} (hg : Good s) (hx : Extra s) (b : Nat) (u : Upd)
    (hu : wfU u) : Extra (appendWithFlush cfg s b u).1 := by
  unfold appendWithFlush
  cases hm : s.mem b with
  | none => exact hx
  | some bk =>
    simp only
    cases hap : appendPages cfg bk.pages u with
    | mk pg r =>
      cases r with
      | true => exact extra_setMem hx b _ (wfb_append (hx.wf b bk hm) hu hap)
      | false =>
        simp only
        have hg1 := (flushBucket_spec s hg b).1
        have hx1 := extra_flushBucket hg hx b
        cases hm1 : (flushBucket s b).mem b with
        | none => exact hx1
        | some bk1 =>
          simp only
          cases hap1 : appendPages cfg bk1.pages u with
          | mk pg1 r1 =>
            cases r1 with
            | true => exact extra_setMem hx1 b _ (wfb_append (hx1.wf b bk1 hm1) hu hap1)
            | false => exact hx1

theorem absB_some_wf {bk : Bucket} (hw : WFB bk) {k : Nat} {e : Entry} (h : absB bk k = some e) :
    wfE e := by
  unfold absB at h
  split at h
  · rename_i u hu
    unfold findU at hu
    have hm := List.mem_of_find?_eq_some hu
    rw [List.mem_reverse] at hm
    unfold updVal at h
    split at h
    · cases h
    · simp only [Option.some.injEq] at h
      subst h
      exact hw.l u hm
  · exact hw.s e (findE_some h).1

theorem lookup_some_wf {s : State} (hg : Good s) (hx : Extra s) {k : Nat} {e : Entry}
    (h : lookup s k = some e) : wfE e ∧ e.key = k := by
  rw [lookup_eq_absS s hg] at h
  unfold absS at h
  cases hm : s.mem (bucketOf k) with
  | none => rw [hm] at h; cases h
  | some bk => rw [hm] at h; exact ⟨absB_some_wf (hx.wf _ bk hm) h, absB_some_key h⟩

theorem extra_foldl_flush (bs : List Nat) : ∀ (s : State), Good s → Extra s →
    Extra (bs.foldl flushBucket s) := by
  induction bs with
  | nil => intro s _ hx; exact hx
  | cons b bs ih =>
    intro s hg hx
    exact ih _ (flushBucket_spec s hg b).1 (extra_flushBucket hg hx b)

/-- every operation except `reload` keeps the durability invariants. -/
theorem step_extra (cfg : Cfg) (s : State) (op : Op) (hop : notReload op) (hwf : opWF op)
    (hg : Good s) (hx : Extra s) : Extra (step cfg s op).1 := by
  cases op with
  | add k id off size =>
    simp only [step]
    have h0 : Good (ensureBucket s (bucketOf k)) ∧ Extra (ensureBucket s (bucketOf k)) := by
      unfold ensureBucket
      cases hm : s.mem (bucketOf k) with
      | some bk => exact ⟨hg, hx⟩
      | none => exact ⟨good_setMem hg _ _ (goodB_empty _), extra_setMem hx _ _ wfb_empty⟩
    have := extra_appendWithFlush cfg h0.1 h0.2 (bucketOf k) ⟨k, id, off, size, 0⟩ hwf
    cases hr : appendWithFlush cfg (ensureBucket s (bucketOf k)) (bucketOf k) ⟨k, id, off, size, 0⟩ with
    | mk s1 r =>
      rw [hr] at this
      cases r <;> exact this
  | remove k =>
    simp only [step]
    cases hl : lookup s k with
    | none => exact hx
    | some e =>
      obtain ⟨hw, hk⟩ := lookup_some_wf hg hx hl
      exact extra_appendWithFlush cfg hg hx (bucketOf k) _ ⟨by rw [← hk]; exact hw.1, hw.2.1, hw.2.2⟩
  | update k id off size =>
    simp only [step]
    cases hl : lookup s k with
    | none => exact hx
    | some e => exact extra_appendWithFlush cfg hg hx (bucketOf k) _ hwf
  | status k st =>
    simp only [step]
    cases hl : lookup s k with
    | none => exact hx
    | some e =>
      obtain ⟨hw, hk⟩ := lookup_some_wf hg hx hl
      exact extra_appendWithFlush cfg hg hx (bucketOf k) _ ⟨by rw [← hk]; exact hw.1, hw.2.1, hw.2.2⟩
  | lookup k => exact hx
  | has k => exact hx
  | iter => exact hx
  | count => exact hx
  | flush b => exact extra_flushBucket hg hx b
  | flushAll => exact extra_foldl_flush _ s hg hx
  | saveAll =>
    refine ⟨hx.wf, ?_⟩
    intro b hb
    have hb' : s.mem b = none := hb
    show (saveAll s).disk b = none
    unfold saveAll
    simp only
    rw [hb']
    exact hx.no b hb'
  | clearBucket b =>
    simp only [step]
    cases hm : s.mem b with
    | none => exact hx
    | some bk => exact extra_setMem hx b _ wfb_empty
  | reload => exact absurd hop (by simp [notReload])

/-- histories in which every `reload` directly follows a `save_all`. -/
def reloadOnlyAfterSave : List Op → Prop
  | [] => True
  | .saveAll :: .reload :: rest => reloadOnlyAfterSave rest
  | .reload :: _ => False
  | _ :: rest => reloadOnlyAfterSave rest

theorem ras_cases (op : Op) (rest : List Op) (h : reloadOnlyAfterSave (op :: rest)) :
    (op = .saveAll ∧ ∃ rest', rest = .reload :: rest' ∧ reloadOnlyAfterSave rest') ∨
      (notReload op ∧ reloadOnlyAfterSave rest) := by
  cases op with
  | saveAll =>
    cases rest with
    | nil => exact Or.inr ⟨trivial, trivial⟩
    | cons o rest' =>
      cases o with
      | reload => exact Or.inl ⟨rfl, rest', rfl, h⟩
      | add _ _ _ _ => exact Or.inr ⟨trivial, h⟩
      | remove _ => exact Or.inr ⟨trivial, h⟩
      | update _ _ _ _ => exact Or.inr ⟨trivial, h⟩
      | status _ _ => exact Or.inr ⟨trivial, h⟩
      | lookup _ => exact Or.inr ⟨trivial, h⟩
      | has _ => exact Or.inr ⟨trivial, h⟩
      | iter => exact Or.inr ⟨trivial, h⟩
      | count => exact Or.inr ⟨trivial, h⟩
      | flush _ => exact Or.inr ⟨trivial, h⟩
      | flushAll => exact Or.inr ⟨trivial, h⟩
      | saveAll => exact Or.inr ⟨trivial, h⟩
      | clearBucket _ => exact Or.inr ⟨trivial, h⟩
  | reload => exact absurd h (by simp [reloadOnlyAfterSave])
  | add _ _ _ _ => exact Or.inr ⟨trivial, h⟩
  | remove _ => exact Or.inr ⟨trivial, h⟩
  | update _ _ _ _ => exact Or.inr ⟨trivial, h⟩
  | status _ _ => exact Or.inr ⟨trivial, h⟩
  | lookup _ => exact Or.inr ⟨trivial, h⟩
  | has _ => exact Or.inr ⟨trivial, h⟩
  | iter => exact Or.inr ⟨trivial, h⟩
  | count => exact Or.inr ⟨trivial, h⟩
  | flush _ => exact Or.inr ⟨trivial, h⟩
  | flushAll => exact Or.inr ⟨trivial, h⟩
  | clearBucket _ => exact Or.inr ⟨trivial, h⟩

theorem run_durable (cfg : Cfg) (hcap : 1 ≤ cfg.capPages) : ∀ (n : Nat) (ops : List Op), ops.length = n →
    ∀ (s : State) (S : SState), reloadOnlyAfterSave ops → (∀ op ∈ ops, opWF op) →
      RelMem s S.mem → Extra s →
      RelMem (run cfg s ops).1 (specRun S ops []).1.mem ∧ Extra (run cfg s ops).1 ∧
        outsOk (run cfg s ops).2 (specRun S ops []).2 := by
  intro n
  induction n using Nat.strongRecOn with
  | _ n ih =>
    intro ops hlen s S hr hw hrel hx
    cases ops with
    | nil => exact ⟨hrel, hx, trivial⟩
    | cons op rest =>
      simp only [List.length_cons] at hlen
      rcases ras_cases op rest hr with ⟨rfl, rest', rfl, hr'⟩ | ⟨hnr, hr'⟩
      · obtain ⟨h1, h2, h3⟩ := reload_saveAll s S.mem hrel hx.wf hx.no
        have hstep : (run cfg s (.saveAll :: .reload :: rest')) =
            ((run cfg (reload (saveAll s)) rest').1,
              .ok :: .ok :: (run cfg (reload (saveAll s)) rest').2) := rfl
        have hspec : specRun S (.saveAll :: .reload :: rest') [] =
            ((specRun { mem := S.mem, disk := S.mem } rest' []).1,
              some .ok :: some .ok :: (specRun { mem := S.mem, disk := S.mem } rest' []).2) := rfl
        rw [hstep, hspec]
        simp only [List.length_cons] at hlen
        obtain ⟨h4, h5, h6⟩ := ih rest'.length (by omega) rest' rfl (reload (saveAll s))
          { mem := S.mem, disk := S.mem } hr'
          (fun o ho => hw o (List.mem_cons_of_mem _ (List.mem_cons_of_mem _ ho))) h1 ⟨h2, h3⟩
        exact ⟨h4, h5, rfl, rfl, h6⟩
      · obtain ⟨h1, h2⟩ := step_mem cfg hcap s S [] op hnr hrel
        have h3 := step_extra cfg s op hnr (hw op List.mem_cons_self) hrel.1 hx
        obtain ⟨h4, h5, h6⟩ := ih rest.length (by omega) rest rfl (step cfg s op).1 (sstep S [] op).1 hr'
          (fun o ho => hw o (List.mem_cons_of_mem _ ho)) h1 h3
        exact ⟨h4, h5, h2, h6⟩

theorem extra_init : Extra State.init := ⟨(by intro b bk h; cases h), fun _ _ => rfl⟩

end Cascette.Proofs.Lsm
