/-
Proofs/BlteEntry — lemmas for the encoder entry points outside the builder
(`BlteFile::{single_chunk, multi_chunk, compress}`, `BlteHeader::multi_chunk_extended`), for
`BlteFile::decompress` (no key store) and for Frame mode / nested mode bytes (property C01).

Route: every entry point returns one of the two layouts `Layout` (single-chunk header with one
plain chunk, or a table over the chunk vector); `layout_good` turns "chunk `k` decodes at index `k`
to `plains[k]` and declares its size" (`AllGood`, Proofs/Blte) into parse∘serialize, the decoded
bytes (with and without key store) and the truth of the table, for either layout.
-/
import Cascette.Proofs.Blte
namespace Cascette.Proofs.Blte
open Cascette Cascette.Model.Blte

/-! ### `BlteFile::decompress` against `decompress_with_keys` -/

/-- whatever `decompress()` returns with `Ok`, `decompress_with_keys` returns too (an `Ok` of the
former means no chunk is encrypted, and then both run `decompress_chunk` on every chunk). -/
theorem decodePlainFrom_ok (cd : Codec) (keys : Nat → Option Bytes) :
    ∀ (cs : List Chunk) (i : Nat) (x : Bytes), decodePlainFrom cd cs = .ok x →
      decodeFrom cd keys cs i = .ok x ∧ ∀ c ∈ cs, c.mode ≠ .enc
  | [], _, x, h => ⟨by simpa [decodePlainFrom, Model.Blte.decodeFrom] using h, by simp⟩
  | c :: cs, i, x, h => by
    simp only [decodePlainFrom] at h
    split at h
    · cases h
    · rename_i p hp
      split at h
      · cases h
      · rename_i r hr
        simp only [Except.ok.injEq] at h; subst h
        have hne : c.mode ≠ .enc := by
          intro he; rw [he] at hp; cases hp
        obtain ⟨ih, hall⟩ := decodePlainFrom_ok cd keys cs (i + 1) r hr
        refine ⟨?_, ?_⟩
        · simp only [Model.Blte.decodeFrom, decodeChunk, hne, if_false, hp, ih]
        · intro c' hc'
          rcases List.mem_cons.1 hc' with rfl | h'
          · exact hne
          · exact hall c' h'

/-- with no encrypted chunk the two decoders agree (also on errors). -/
theorem decodePlainFrom_eq (cd : Codec) (keys : Nat → Option Bytes) :
    ∀ (cs : List Chunk) (i : Nat), (∀ c ∈ cs, c.mode ≠ .enc) →
      decodePlainFrom cd cs = decodeFrom cd keys cs i
  | [], _, _ => rfl
  | c :: cs, i, h => by
    have hne : c.mode ≠ .enc := h c (by simp)
    have ih := decodePlainFrom_eq cd keys cs (i + 1) (fun x hx => h x (by simp [hx]))
    simp only [decodePlainFrom, Model.Blte.decodeFrom, decodeChunk, hne, if_false, ih]

theorem firstIsEnc_false (cs : List Chunk) (h : ∀ c ∈ cs, c.mode ≠ .enc) : firstIsEnc cs = false := by
  cases cs with
  | nil => rfl
  | cons c cs => simp only [firstIsEnc, h c (by simp), decide_false]

theorem decodePlain_eq_decode (cd : Codec) (keys : Nat → Option Bytes) (f : File)
    (h : ∀ c ∈ f.chunks, c.mode ≠ .enc) : decodePlain cd f = decode cd keys f := by
  simp only [decodePlain, decode, firstIsEnc_false f.chunks h, Bool.false_eq_true, and_false,
    if_false, decodePlainFrom_eq cd keys f.chunks 0 h]

theorem decodePlain_ok_decode (cd : Codec) (keys : Nat → Option Bytes) (f : File) (x : Bytes)
    (h : decodePlain cd f = .ok x) : decode cd keys f = .ok x := by
  obtain ⟨h1, h2⟩ := decodePlainFrom_ok cd keys f.chunks 0 x h
  rw [← decodePlain_eq_decode cd keys f h2]; exact h

theorem decodePlainFrom_strip (cd : Codec) (cs : List Chunk) :
    decodePlainFrom cd (cs.map strip) = decodePlainFrom cd cs := by
  induction cs with
  | nil => rfl
  | cons c cs ih => simp only [List.map_cons, decodePlainFrom, strip, ih]

/-! ### the two layouts -/

/-- `f` is one of the two containers the encoder entry points lay out over `chunks`: the
single-chunk header over one plain chunk, or the standard table over all of them. -/
def Layout (H : Bytes → Bytes) (chunks : List Chunk) (f : File) : Prop :=
  (∃ c, chunks = [c] ∧ c.mode ≠ .enc ∧ f = ⟨0, none, [c]⟩) ∨
  (chunks ≠ [] ∧ chunks.length ≤ 0xFFFFFF ∧
    f = ⟨(12 + chunks.length * 24) % 2 ^ 32, some (chunks.map (Row.ofChunk H)), chunks⟩)

theorem build_layout (H : Bytes → Bytes) (b : Builder) (f : File) (h : build H b = .ok f) :
    Layout H b.chunks f := build_cases H b f h

theorem multiChunk_layout (H : Bytes → Bytes) (chunks : List Chunk) (f : File)
    (h : multiChunk H chunks = .ok f) : Layout H chunks f := by
  unfold multiChunk at h
  split at h
  · cases h
  · rename_i hne
    split at h
    · cases h
    · rename_i hn
      simp only [Except.ok.injEq] at h
      refine Or.inr ⟨?_, by omega, h.symm⟩
      intro he; rw [he] at hne; simp at hne

theorem chunkNew_mode (cd : Codec) (d : Bytes) (m : Mode) (c : Chunk) (h : Chunk.new cd d m = .ok c) :
    c.mode = m ∧ m ≠ .enc ∧ m ≠ .frame := by
  unfold Chunk.new at h
  split at h
  · rename_i hm
    simp only [Except.ok.injEq] at h; subst h; subst hm
    exact ⟨rfl, by decide, by decide⟩
  · split at h
    · rename_i c' hc
      simp only [Except.ok.injEq] at h; subst h
      refine ⟨rfl, ?_, ?_⟩
      · intro he; subst he; cases hc
      · intro he; subst he; cases hc
    · cases h

theorem singleChunk_layout (cd : Codec) (H : Bytes → Bytes) (d : Bytes) (m : Mode) (f : File)
    (h : singleChunk cd d m = .ok f) : ∃ c, Chunk.new cd d m = .ok c ∧ Layout H [c] f := by
  unfold singleChunk at h
  split at h
  · cases h
  · rename_i c hc
    simp only [Except.ok.injEq] at h
    have hm := chunkNew_mode cd d m c hc
    exact ⟨c, hc, Or.inl ⟨c, rfl, by rw [hm.1]; exact hm.2.1, h.symm⟩⟩

/-- both layouts read back, decode to the chunks' contents, and carry a truthful table. -/
theorem layout_good (cd : Codec) (keys : Nat → Option Bytes) (H : Bytes → Bytes)
    (hH : ∀ x, (H x).length = 16) (chunks : List Chunk) (plains : List Bytes) (f : File)
    (hl : Layout H chunks f) (hg : AllGood cd keys chunks 0 plains)
    (hsz : ∀ c ∈ chunks, 1 + c.data.length < 2 ^ 32) :
    parse (serialize f) = .ok ⟨f.headerSize, f.table, f.chunks.map strip⟩ ∧ f.chunks = chunks ∧
    decodeBytes cd keys (serialize f) = .ok plains.flatten ∧
    ((∀ c ∈ chunks, c.mode ≠ .enc) → decodePlainBytes cd (serialize f) = .ok plains.flatten) ∧
    ((∀ p ∈ plains, p.length < 2 ^ 32) →
      match f.table with
      | some rows => RowsTruthful cd keys H rows (f.chunks.map strip) 0 plains
      | none => ∃ c, f.chunks = [c]) := by
  have hd := AllGood.decodeFrom chunks 0 plains hg
  have hparse : parse (serialize f) = .ok ⟨f.headerSize, f.table, f.chunks.map strip⟩ ∧
      f.chunks = chunks ∧ (f.headerSize = 0 → firstIsEnc (f.chunks.map strip) = false) := by
    rcases hl with ⟨c, hc, hm, rfl⟩ | ⟨hne, hn, rfl⟩
    · refine ⟨parse_serialize_single c, hc.symm, fun _ => ?_⟩
      simp only [List.map_cons, List.map_nil, firstIsEnc, strip, hm, decide_false]
    · have hlt : 12 + chunks.length * 24 < 2 ^ 32 := by rw [two32]; omega
      have hmod : (12 + chunks.length * 24) % 2 ^ 32 = 12 + chunks.length * 24 :=
        Nat.mod_eq_of_lt hlt
      have hnz : (12 + chunks.length * 24) % 2 ^ 32 % 2 ^ 32 ≠ 0 := by rw [hmod, hmod]; omega
      have := parse_serialize_table H hH chunks ((12 + chunks.length * 24) % 2 ^ 32) hnz hn hsz
      refine ⟨by rw [this, hmod, hmod], rfl, fun h0 => ?_⟩
      simp only [hmod] at h0
      omega
  obtain ⟨hp, hc, h0⟩ := hparse
  refine ⟨hp, hc, ?_, ?_, ?_⟩
  · unfold decodeBytes
    rw [hp]
    unfold decode
    simp only
    by_cases hz : f.headerSize = 0
    · have h0' := h0 hz
      rw [hc] at h0'
      simp only [hz, true_and, hc, h0', Bool.false_eq_true, if_false, decodeFrom_strip, hd]
    · simp only [hz, false_and, if_false, decodeFrom_strip, hc, hd]
  · intro hne
    unfold decodePlainBytes
    rw [hp]
    simp only [decodePlain, decodePlainFrom_strip, hc, decodePlainFrom_eq cd keys chunks 0 hne, hd]
  · intro hpl
    rcases hl with ⟨c, _, _, rfl⟩ | ⟨_, _, rfl⟩
    · exact ⟨c, rfl⟩
    · exact rows_truthful cd keys H chunks 0 plains hg hsz hpl

/-! ### chunk vectors made of `ChunkData::new` chunks -/

theorem newChunks_good (cd : Codec) (law : Lawful cd) (keys : Nat → Option Bytes) :
    ∀ (ds : List (Bytes × Mode)) (i : Nat) (cs : List Chunk), newChunks cd ds = .ok cs →
      AllGood cd keys cs i (ds.map (·.1)) ∧ ∀ c ∈ cs, c.mode ≠ .enc
  | [], _, cs, h => by
    simp only [newChunks, Except.ok.injEq] at h; subst h
    exact ⟨trivial, by simp⟩
  | (d, m) :: rest, i, cs, h => by
    simp only [newChunks] at h
    split at h
    · cases h
    · rename_i c hc
      split at h
      · cases h
      · rename_i cs' hcs
        simp only [Except.ok.injEq] at h; subst h
        obtain ⟨ih, hall⟩ := newChunks_good cd law keys rest (i + 1) cs' hcs
        have hm := chunkNew_mode cd d m c hc
        refine ⟨⟨chunkNew_good cd law keys d m c i hc, ih⟩, ?_⟩
        intro c' hc'
        rcases List.mem_cons.1 hc' with rfl | h'
        · rw [hm.1]; exact hm.2.1
        · exact hall c' h'

theorem makeChunks_none_modes (cd : Codec) (mode : Mode) :
    ∀ (ps : List Bytes) (idx : Nat) (cs : List Chunk), makeChunks cd mode none ps idx = .ok cs →
      cs.length = ps.length ∧ ∀ c ∈ cs, c.mode ≠ .enc
  | [], _, cs, h => by
    simp only [makeChunks, Except.ok.injEq] at h; subst h
    exact ⟨rfl, by simp⟩
  | p :: ps, idx, cs, h => by
    simp only [makeChunks] at h
    split at h
    · cases h
    · rename_i c hc
      split at h
      · cases h
      · rename_i cs' hcs
        simp only [Except.ok.injEq] at h; subst h
        obtain ⟨hl, hall⟩ := makeChunks_none_modes cd mode ps (idx + 1) cs' hcs
        have hm := chunkNew_mode cd p mode c hc
        refine ⟨by simp [hl], ?_⟩
        intro c' hc'
        rcases List.mem_cons.1 hc' with rfl | h'
        · rw [hm.1]; exact hm.2.1
        · exact hall c' h'

/-- what `compress` returns: the chunks `ChunkData::new` makes of slices that concatenate to the
payload, in one of the two layouts. -/
theorem compress_layout (cd : Codec) (H : Bytes → Bytes) (d : Bytes) (cs : Nat) (m : Mode) (f : File)
    (h : compress cd H d cs m = .ok f) :
    ∃ ps chunks, ps.flatten = d ∧ makeChunks cd m none ps 0 = .ok chunks ∧ Layout H chunks f := by
  unfold compress at h
  split at h
  · obtain ⟨c, hc, hl⟩ := singleChunk_layout cd H d m f h
    exact ⟨[d], [c], by simp, by simp [makeChunks, makeChunk, hc], hl⟩
  · split at h
    · cases h
    · rename_i h0
      split at h
      · cases h
      · rename_i chunks hch
        exact ⟨_, chunks, splitLoop_flatten cs (by omega) _ _ (Nat.le_refl _), hch,
          multiChunk_layout H chunks f h⟩

/-- with more bytes than one chunk holds the loop makes at least two slices. -/
theorem splitLoop_two (cs : Nat) (hcs : 1 ≤ cs) (d : Bytes) (hd : cs < d.length) :
    2 ≤ (splitLoop cs d.length d).length := by
  match hn : d.length, hd with
  | n + 2, _ =>
    have hne : d ≠ [] := by intro he; rw [he] at hn; simp at hn
    have hne2 : d.drop cs ≠ [] := by
      intro he
      have := congrArg List.length he
      simp only [List.length_drop, List.length_nil] at this
      omega
    simp only [splitLoop, hne, hne2, if_false, List.length_cons]
    omega
  | 0, h => omega
  | 1, h => omega

/-! ### the extended table -/

theorem parseRows_flatMap_ext (rows : List XRow) (rest : Bytes)
    (hck : ∀ r ∈ rows, r.row.checksum.length = 16 ∧ r.dsum.length = 16)
    (hsz : ∀ r ∈ rows, r.row.csize < 2 ^ 32 ∧ r.row.dsize < 2 ^ 32) :
    parseRows true rows.length (rows.flatMap XRow.bytes ++ rest) =
      some (rows.map (·.row), rest) := by
  induction rows with
  | nil => simp [parseRows]
  | cons r rs ih =>
    have ⟨h1, h1'⟩ := hck r (by simp)
    have ⟨h2, h3⟩ := hsz r (by simp)
    have ih' := ih (fun x hx => hck x (by simp [hx])) (fun x hx => hsz x (by simp [hx]))
    have e : (r :: rs).flatMap XRow.bytes ++ rest =
        beBytes 4 r.row.csize ++ (beBytes 4 r.row.dsize ++ (r.row.checksum ++
          (r.dsum ++ (rs.flatMap XRow.bytes ++ rest)))) := by
      simp [XRow.bytes, Row.bytes, List.flatMap_cons, List.append_assoc]
    have p32 : (256 : Nat) ^ 4 = 2 ^ 32 := by decide
    rw [e]
    simp only [List.length_cons, parseRows, takeN_append _ _ _ (beBytes_length 4 _),
      takeN_append _ _ _ h1, takeN_append _ _ _ h1', ih', beNat_beBytes, p32, Nat.mod_eq_of_lt h2,
      Nat.mod_eq_of_lt h3, if_true, Option.map_some, List.map_cons]

/-- `parse ∘ serialize` on the extended layout: the reader gets the header size, the standard
columns of every row and the chunks. -/
theorem parse_serializeX (cd : Codec) (H : Bytes → Bytes) (hH : ∀ x, (H x).length = 16)
    (chunks : List Chunk) (xf : XFile) (h : multiChunkExt cd H chunks = .ok xf)
    (hsz : ∀ c ∈ chunks, 1 + c.data.length < 2 ^ 32) :
    xf.chunks = chunks ∧ xf.rows = chunks.map (XRow.ofChunk cd H) ∧
    xf.headerSize = 12 + chunks.length * 40 ∧ chunks ≠ [] ∧
    parse (serializeX xf) =
      .ok ⟨xf.headerSize, some (chunks.map (Row.ofChunk H)), chunks.map strip⟩ := by
  unfold multiChunkExt at h
  split at h
  · cases h
  · rename_i hne
    split at h
    · cases h
    · rename_i hn
      simp only [Except.ok.injEq] at h
      subst h
      have hn' : chunks.length ≤ 0xFFFFFF := by omega
      have hlt : 12 + chunks.length * 40 < 2 ^ 32 := by rw [two32]; omega
      have hmod : (12 + chunks.length * 40) % 2 ^ 32 = 12 + chunks.length * 40 :=
        Nat.mod_eq_of_lt hlt
      have hne' : chunks ≠ [] := by intro he; rw [he] at hne; simp at hne
      refine ⟨rfl, rfl, hmod, hne', ?_⟩
      obtain ⟨a, b, c, d, e4⟩ := be4 (12 + chunks.length * 40)
      obtain ⟨x, y, z, e3⟩ := be3 (chunks.map (XRow.ofChunk cd H)).length
      have v4 : beNat [a, b, c, d] = 12 + chunks.length * 40 := by
        rw [← e4, beNat_beBytes]
        have p32 : (256 : Nat) ^ 4 = 2 ^ 32 := by decide
        rw [p32, hmod]
      have v4nz : ¬ (12 + chunks.length * 40 = 0) := by omega
      have v3 : beNat [x, y, z] = chunks.length := by
        rw [← e3, beNat_beBytes, List.length_map]
        exact Nat.mod_eq_of_lt (by
          have : (256 : Nat) ^ 3 = 16777216 := by decide
          omega)
      obtain ⟨w1, w2⟩ := rows_wf H hH chunks
      have hr := parseRows_flatMap_ext (chunks.map (XRow.ofChunk cd H))
        (chunks.flatMap Chunk.bytes ++ [])
        (by
          intro r hr
          obtain ⟨c, _, rfl⟩ := List.mem_map.1 hr
          exact ⟨hH _, hH _⟩)
        (by
          intro r hr
          obtain ⟨c, _, rfl⟩ := List.mem_map.1 hr
          exact ⟨Nat.mod_lt _ (by decide), Nat.mod_lt _ (by decide)⟩)
      rw [List.length_map] at hr
      have hrows : (chunks.map (XRow.ofChunk cd H)).map (·.row) = chunks.map (Row.ofChunk H) := by
        simp [List.map_map, XRow.ofChunk, Function.comp_def]
      rw [hrows] at hr
      have hc := parseChunks_flatMap H chunks [] hsz
      rw [List.append_nil] at hr hc
      simp only [serializeX, magic, hmod, e4, e3, List.cons_append, List.nil_append, parse, ne_eq,
        not_true_eq_false, if_false, v4, v4nz, and_false, decide_true, v3, hr, hc]

/-! ### Frame mode, nested mode bytes -/

/-- `pieces` never returns an empty list of slices. -/
theorem pieces_ne_nil (cs : Nat) (d : Bytes) (ps : List Bytes) (h : pieces cs d = .ok ps) : ps ≠ [] := by
  unfold pieces at h
  split at h
  · simp only [Except.ok.injEq] at h; subst h; simp
  · split at h
    · cases h
    · rename_i h1 h2
      simp only [Except.ok.injEq] at h; subst h
      cases d with
      | nil => simp at h1
      | cons x xs => simp [splitLoop]

/-- under `with_compression(Frame)` no chunk can be made, encrypted or not. -/
theorem makeChunk_frame (cd : Codec) (enc : Option (EncSpec × Bytes)) (x : Bytes) (i : Nat) :
    makeChunk cd .frame enc x i = .error .unsupported := by
  cases enc with
  | none => simp [makeChunk, Chunk.new, compressChunk]
  | some e => simp [makeChunk, encChunk, buildInner, compressChunk]

theorem addWith_frame (cd : Codec) (b : Builder) (hm : b.mode = .frame)
    (enc : Option (EncSpec × Bytes)) (d : Bytes) : ∃ e, addWith cd b enc d = .error e := by
  unfold addWith
  cases hp : pieces b.chunkSize d with
  | error e => exact ⟨e, rfl⟩
  | ok ps =>
    cases ps with
    | nil => exact absurd rfl (pieces_ne_nil _ _ _ hp)
    | cons x xs => exact ⟨.unsupported, by simp [makeChunks, hm, makeChunk_frame]⟩

/-- a chunk list that decodes holds no Frame chunk. -/
theorem decodeFrom_ok_no_frame (cd : Codec) (keys : Nat → Option Bytes) :
    ∀ (cs : List Chunk) (i : Nat) (x : Bytes), decodeFrom cd keys cs i = .ok x →
      ∀ c ∈ cs, c.mode ≠ .frame
  | [], _, _, _ => by simp
  | c :: cs, i, x, h => by
    simp only [Model.Blte.decodeFrom] at h
    split at h
    · cases h
    · rename_i p hp
      split at h
      · cases h
      · rename_i r hr
        intro c' hc'
        rcases List.mem_cons.1 hc' with rfl | h'
        · intro hf
          simp [decodeChunk, hf, decompressChunk] at hp
        · exact decodeFrom_ok_no_frame cd keys cs (i + 1) r hr c' h'

/-- the extended rows of `ChunkData::new` chunks carry `H` of the content. -/
theorem newChunks_dsum (cd : Codec) (law : Lawful cd) (H : Bytes → Bytes) :
    ∀ (ds : List (Bytes × Mode)) (cs : List Chunk), newChunks cd ds = .ok cs →
      (cs.map (XRow.ofChunk cd H)).map (·.dsum) = ds.map fun d => H d.1
  | [], cs, h => by
    simp only [newChunks, Except.ok.injEq] at h; subst h; rfl
  | (d, m) :: rest, cs, h => by
    simp only [newChunks] at h
    split at h
    · cases h
    · rename_i c hc
      split at h
      · cases h
      · rename_i cs' hcs
        simp only [Except.ok.injEq] at h; subst h
        have ih := newChunks_dsum cd law H rest cs' hcs
        have hm := chunkNew_mode cd d m c hc
        have hne : c.mode ≠ .enc := by rw [hm.1]; exact hm.2.1
        have hg := (chunkNew_good cd law (fun _ => none) d m c 0 hc).1
        simp only [decodeChunk, hne, if_false] at hg
        simp only [List.map_cons, ih, XRow.ofChunk, hg]

end Cascette.Proofs.Blte
