/-
Proofs/Compaction — lemmas for C18 (span validation, the chunked in-place copy, the compaction
loop, the mover sizing, the ArchiveManager truncation). Core Lean only.
-/
import Cascette.Model.Compaction
namespace Cascette.Proofs.Compaction
open Cascette Cascette.Spec.Compaction Cascette.Model.Compaction

theorem le_trans' (a b c : Span) : Span.le a b = true → Span.le b c = true → Span.le a c = true := by
  simp only [Span.le, Bool.or_eq_true, Bool.and_eq_true, decide_eq_true_eq]; omega

theorem le_total' (a b : Span) : (Span.le a b || Span.le b a) = true := by
  simp only [Span.le, Bool.or_eq_true, Bool.and_eq_true, decide_eq_true_eq]; omega

theorem sortSpans_perm (l : List Span) : (sortSpans l).Perm l := List.mergeSort_perm l _

theorem sortSpans_sorted (l : List Span) :
    (sortSpans l).Pairwise (fun a b => Span.le a b = true) :=
  List.pairwise_mergeSort le_trans' le_total' l

theorem adjacentOk_iff (l : List Span) (hs : l.Pairwise (fun a b => a.off ≤ b.off)) :
    adjacentOk l = true ↔ l.Pairwise (fun a b => a.stop ≤ b.off) := by
  induction l with
  | nil => simp [adjacentOk]
  | cons a t ih =>
    cases t with
    | nil => simp [adjacentOk]
    | cons b rest =>
      rw [List.pairwise_cons] at hs
      have ih' := ih hs.2
      simp only [adjacentOk, Bool.and_eq_true, decide_eq_true_eq]
      rw [ih', List.pairwise_cons (a := a)]
      constructor
      · rintro ⟨hab, hp⟩
        refine ⟨?_, hp⟩
        intro x hx
        rcases List.mem_cons.1 hx with rfl | hx
        · exact hab
        · have := (List.pairwise_cons.1 hs.2).1 x hx
          omega
      · rintro ⟨hall, hp⟩
        exact ⟨hall b (List.mem_cons_self), hp⟩

/-- under the sort order, "ends before the next starts" is exactly "does not overlap". -/
theorem stop_le_iff_not_overlaps {a b : Span} (h : Span.le a b = true) :
    a.stop ≤ b.off ↔ a.overlaps b = false := by
  simp only [Span.le, Bool.or_eq_true, Bool.and_eq_true, decide_eq_true_eq] at h
  simp only [Span.overlaps, Span.stop, Bool.and_eq_false_iff, decide_eq_false_iff_not]
  omega

theorem overlaps_symm {a b : Span} : a.overlaps b = false → b.overlaps a = false := by
  simp only [Span.overlaps, Bool.and_eq_false_iff, decide_eq_false_iff_not]; omega

theorem pairwise_congr_of {α} {R S T : α → α → Prop} {l : List α} (hT : l.Pairwise T)
    (h : ∀ a b, T a b → (R a b ↔ S a b)) : l.Pairwise R ↔ l.Pairwise S := by
  constructor
  · intro hr; exact (hT.and hr).imp (fun ⟨t, r⟩ => (h _ _ t).1 r)
  · intro hs; exact (hT.and hs).imp (fun ⟨t, s⟩ => (h _ _ t).2 s)

theorem validate_ok_iff (spans : List Span) :
    (validateSpans spans).2 = true ↔ Disjoint spans := by
  unfold validateSpans Disjoint
  split
  · rename_i h
    simp only [true_iff]
    match spans, h with
    | [], _ => exact List.Pairwise.nil
    | [a], _ => exact List.pairwise_singleton _ _
  · have hs := sortSpans_sorted spans
    have hoff : (sortSpans spans).Pairwise (fun a b => a.off ≤ b.off) :=
      hs.imp (fun {a b} h => by
        simp only [Span.le, Bool.or_eq_true, Bool.and_eq_true, decide_eq_true_eq] at h; omega)
    simp only
    rw [adjacentOk_iff _ hoff, pairwise_congr_of hs (fun a b h => stop_le_iff_not_overlaps h)]
    exact (sortSpans_perm spans).pairwise_iff overlaps_symm

theorem validate_perm (spans : List Span) : (validateSpans spans).1.Perm spans := by
  unfold validateSpans; split
  · exact List.Perm.refl _
  · exact sortSpans_perm spans

theorem writeAt_inb_length (f d : Bytes) (pos : Nat) (h : pos + d.length ≤ f.length) :
    (writeAt f pos d).length = f.length := by
  unfold writeAt
  simp only [List.length_append, List.length_take, List.length_replicate, List.length_drop]
  omega

theorem writeAt_inb_getElem? (f d : Bytes) (pos i : Nat) (h : pos + d.length ≤ f.length) :
    (writeAt f pos d)[i]? = if pos ≤ i ∧ i < pos + d.length then d[i - pos]? else f[i]? := by
  unfold writeAt
  have h0 : pos - f.length = 0 := by omega
  have hm : min pos f.length = pos := by omega
  simp only [h0, List.replicate_zero, List.append_nil, List.getElem?_append, List.length_take,
    List.length_append, List.getElem?_take, List.getElem?_drop, hm]
  by_cases h1 : i < pos
  · have : ¬ (pos ≤ i ∧ i < pos + d.length) := by omega
    simp [h1, this]
    intro h2; omega
  · by_cases h2 : i < pos + d.length
    · have : (pos ≤ i ∧ i < pos + d.length) := by omega
      simp [h1, h2, this]
    · have : ¬ (pos ≤ i ∧ i < pos + d.length) := by omega
      rw [if_neg this]
      simp only [h2, if_false, h1]
      congr 1; omega

theorem readExact_some {f : Bytes} {pos n : Nat} {d : Bytes} (h : readExact f pos n = some d) :
    pos + n ≤ f.length ∧ d = slice f pos n := by
  unfold readExact at h
  split at h
  · simp only [Option.some.injEq] at h; exact ⟨by assumption, h.symm⟩
  · cases h

theorem slice_length (f : Bytes) (off len : Nat) (h : off + len ≤ f.length) :
    (slice f off len).length = len := by
  unfold slice; simp only [List.length_take, List.length_drop]; omega

theorem slice_getElem? (f : Bytes) (off len i : Nat) :
    (slice f off len)[i]? = if i < len then f[off + i]? else none := by
  unfold slice; simp only [List.getElem?_take, List.getElem?_drop]

/-- pointwise meaning of `memmove` (forward, in bounds). -/
theorem memmove_length (f : Bytes) (src dst len : Nat) (h : src + len ≤ f.length) (hd : dst ≤ src) :
    (memmove f src dst len).length = f.length := by
  unfold memmove
  simp only [List.length_append, List.length_take, slice_length f src len h, List.length_drop]
  omega

theorem memmove_getElem? (f : Bytes) (src dst len i : Nat) (h : src + len ≤ f.length) (hd : dst ≤ src) :
    (memmove f src dst len)[i]? = if dst ≤ i ∧ i < dst + len then f[src + (i - dst)]? else f[i]? := by
  unfold memmove
  have hm : min dst f.length = dst := by omega
  simp only [List.getElem?_append, List.length_take, List.length_append, slice_length f src len h,
    List.getElem?_take, List.getElem?_drop, slice_getElem?, hm]
  by_cases h1 : i < dst
  · have : ¬ (dst ≤ i ∧ i < dst + len) := by omega
    simp [h1, this]
    intro h2; omega
  · by_cases h2 : i < dst + len
    · have : (dst ≤ i ∧ i < dst + len) := by omega
      have h3 : i - dst < len := by omega
      simp [h1, h2, this, h3]
    · have : ¬ (dst ≤ i ∧ i < dst + len) := by omega
      rw [if_neg this]
      simp only [h2, if_false, h1]
      congr 1; omega

/-- the chunk loop, for every buffer size: forward copy (`dst ≤ src`) of an in-bounds range is
`memmove`, all `remaining` bytes are counted, and no I/O call fails. -/
theorem copyLoop_forward (buf : Nat) (hbuf : 0 < buf) (f : Bytes) (src dst rem moved : Nat)
    (hd : dst ≤ src) (hb : src + rem ≤ f.length) :
    copyLoop buf hbuf f src dst rem moved = (memmove f src dst rem, moved + rem, true) := by
  induction rem using Nat.strongRecOn generalizing f src dst moved with
  | _ rem ih =>
    unfold copyLoop
    split
    · rename_i h0
      subst h0
      simp only [Nat.add_zero, Prod.mk.injEq, and_true]
      apply List.ext_getElem?
      intro i
      rw [memmove_getElem? f src dst 0 i hb hd]
      have : ¬ (dst ≤ i ∧ i < dst + 0) := by omega
      rw [if_neg this]
    · rename_i h0
      simp only
      have hc : src + min rem buf ≤ f.length := by omega
      have hr : readExact f src (min rem buf) = some (slice f src (min rem buf)) := by
        unfold readExact; rw [if_pos hc]; rfl
      rw [hr]
      simp only
      have hlen : (slice f src (min rem buf)).length = min rem buf := slice_length f src _ hc
      have hw : dst + (slice f src (min rem buf)).length ≤ f.length := by omega
      have hl' := writeAt_inb_length f (slice f src (min rem buf)) dst hw
      rw [ih (rem - min rem buf) (by omega) _ _ _ _ (by omega) (by rw [hl']; omega)]
      refine Prod.ext ?_ (Prod.ext ?_ rfl)
      · simp only
        apply List.ext_getElem?
        intro i
        rw [memmove_getElem? _ _ _ _ i (by rw [hl']; omega) (by omega),
          memmove_getElem? f src dst rem i hb hd]
        rw [writeAt_inb_getElem? f _ dst _ hw, writeAt_inb_getElem? f _ dst _ hw, hlen]
        simp only [slice_getElem?]
        by_cases h1 : dst + min rem buf ≤ i ∧ i < dst + min rem buf + (rem - min rem buf)
        · have h2 : dst ≤ i ∧ i < dst + rem := by omega
          have h3 : ¬ (dst ≤ src + min rem buf + (i - (dst + min rem buf)) ∧
              src + min rem buf + (i - (dst + min rem buf)) < dst + min rem buf) := by omega
          rw [if_pos h1, if_pos h2, if_neg h3]
          congr 1; omega
        · rw [if_neg h1]
          by_cases h4 : dst ≤ i ∧ i < dst + min rem buf
          · have h2 : dst ≤ i ∧ i < dst + rem := by omega
            have h5 : i - dst < min rem buf := by omega
            rw [if_pos h4, if_pos h2, if_pos h5]
          · have h2 : ¬ (dst ≤ i ∧ i < dst + rem) := by omega
            rw [if_neg h4, if_neg h2]
      · simp only; omega


theorem memmove_take (g : Bytes) (src dst len : Nat) (h : src + len ≤ g.length) (hd : dst ≤ src) :
    (memmove g src dst len).take (dst + len) = g.take dst ++ slice g src len := by
  unfold memmove
  apply List.take_left'
  simp only [List.length_append, List.length_take, slice_length g src len h]
  omega

theorem slice_memmove_after (g : Bytes) (src dst len off n : Nat) (h : src + len ≤ g.length)
    (hd : dst ≤ src) (ho : dst + len ≤ off) :
    slice (memmove g src dst len) off n = slice g off n := by
  apply List.ext_getElem?
  intro i
  rw [slice_getElem?, slice_getElem?, memmove_getElem? g src dst len _ h hd]
  have : ¬ (dst ≤ off + i ∧ off + i < dst + len) := by omega
  rw [if_neg this]

theorem concatLive_congr (g g' : Bytes) (l : List Span)
    (h : ∀ s ∈ l, slice g' s.off s.len = slice g s.off s.len) : concatLive g' l = concatLive g l := by
  unfold concatLive
  induction l with
  | nil => rfl
  | cons a t ih =>
    simp only [List.flatMap_cons]
    rw [h a List.mem_cons_self, ih (fun s hs => h s (List.mem_cons_of_mem _ hs))]

def sumLen (l : List Span) : Nat := (l.map (·.len)).sum

theorem compactInPlace_forward (m : Mover) (g : Bytes) (src dst len : Nat) (hlt : dst < src)
    (hb : src + len ≤ g.length) :
    compactInPlace m g src dst len = (memmove g src dst len, { m with moved := m.moved + len }, true) := by
  unfold compactInPlace
  rw [if_neg (by omega), copyLoop_forward m.bufSize m.pos g src dst len m.moved (by omega) hb]

theorem compactLoop_spec (rest : List Span) : ∀ (m : Mover) (g : Bytes) (w : Nat),
    rest.Pairwise (fun a b => a.stop ≤ b.off) →
    (∀ s ∈ rest, w ≤ s.off ∧ s.stop ≤ g.length) →
    ∃ g' m', compactLoop m g rest w = (g', m', w + sumLen rest, true) ∧ g'.length = g.length ∧
      g'.take (w + sumLen rest) = g.take w ++ concatLive g rest := by
  induction rest with
  | nil =>
    intro m g w _ _
    exact ⟨g, m, by simp [compactLoop, sumLen], rfl, by simp [sumLen, concatLive]⟩
  | cons s r ih =>
    intro m g w hp hw
    have hs := hw s List.mem_cons_self
    rw [List.pairwise_cons] at hp
    have hsum : sumLen (s :: r) = s.len + sumLen r := by simp [sumLen]
    unfold Span.stop at hs
    by_cases hgt : s.off > w
    · have hcip := compactInPlace_forward m g s.off w s.len hgt hs.2
      have hl1 : (memmove g s.off w s.len).length = g.length := memmove_length g _ _ _ hs.2 (by omega)
      have hw1 : ∀ t ∈ r, w + s.len ≤ t.off ∧ t.stop ≤ (memmove g s.off w s.len).length := by
        intro t ht
        have h1 := hp.1 t ht
        have h2 := hw t (List.mem_cons_of_mem _ ht)
        unfold Span.stop at h1
        rw [hl1]; exact ⟨by omega, h2.2⟩
      obtain ⟨g', m', he, hl, ht⟩ := ih { m with moved := m.moved + s.len } _ (w + s.len) hp.2 hw1
      refine ⟨g', m', ?_, by rw [hl, hl1], ?_⟩
      · rw [compactLoop, if_pos hgt, hcip]
        simp only
        rw [he, hsum, Nat.add_assoc]
      · rw [hsum, ← Nat.add_assoc, ht, memmove_take g _ _ _ hs.2 (by omega)]
        rw [concatLive_congr g _ r (fun t ht => slice_memmove_after g _ _ _ _ _ hs.2 (by omega) (hw1 t ht).1)]
        simp only [concatLive, List.flatMap_cons, List.append_assoc]
    · have heq : s.off = w := by omega
      have hw1 : ∀ t ∈ r, w + s.len ≤ t.off ∧ t.stop ≤ g.length := by
        intro t ht
        have h1 := hp.1 t ht
        have h2 := hw t (List.mem_cons_of_mem _ ht)
        unfold Span.stop at h1
        exact ⟨by omega, h2.2⟩
      obtain ⟨g', m', he, hl, ht⟩ := ih m g (w + s.len) hp.2 hw1
      refine ⟨g', m', ?_, hl, ?_⟩
      · rw [compactLoop, if_neg hgt, he, hsum, Nat.add_assoc]
      · rw [hsum, ← Nat.add_assoc, ht, List.take_add]
        simp only [concatLive, List.flatMap_cons, List.append_assoc, slice, heq]


theorem validate_chain (spans : List Span) (h : (validateSpans spans).2 = true) :
    (validateSpans spans).1.Pairwise (fun a b => a.stop ≤ b.off) := by
  unfold validateSpans at h ⊢
  split
  · rename_i hl
    match spans, hl with
    | [], _ => exact List.Pairwise.nil
    | [a], _ => exact List.pairwise_singleton _ _
  · rename_i hl
    rw [if_neg hl] at h
    have hs := sortSpans_sorted spans
    have hoff : (sortSpans spans).Pairwise (fun a b => a.off ≤ b.off) :=
      hs.imp (fun {a b} h => by
        simp only [Span.le, Bool.or_eq_true, Bool.and_eq_true, decide_eq_true_eq] at h; omega)
    exact (adjacentOk_iff _ hoff).1 h

theorem validate_offsetOrdered (spans : List Span) (h : (validateSpans spans).2 = true) :
    OffsetOrdered (validateSpans spans).1 :=
  (validate_chain spans h).imp (fun {a b} h => by unfold Span.stop at h; omega)

theorem sumLen_perm {a b : List Span} (h : a.Perm b) : sumLen a = sumLen b :=
  (h.map _).sum_nat

theorem concatLive_length (f : Bytes) (l : List Span) (h : InBounds f.length l) :
    (concatLive f l).length = sumLen l := by
  induction l with
  | nil => rfl
  | cons a t ih =>
    have ha := h a List.mem_cons_self
    unfold Span.stop at ha
    simp only [concatLive, List.flatMap_cons, List.length_append, sumLen, List.map_cons,
      List.sum_cons]
    rw [slice_length f _ _ ha]
    have := ih (fun s hs => h s (List.mem_cons_of_mem _ hs))
    simp only [concatLive, sumLen] at this
    rw [this]

theorem setLen_le (g : Bytes) (w : Nat) (h : w ≤ g.length) : setLen g w = g.take w := by
  unfold setLen
  have : w - g.length = 0 := by omega
  rw [this]; simp

/-- `extract_compact_segment` on an acceptable, in-bounds span set (the empty one included). -/
theorem extractCompact_ok (m : Mover) (f : Bytes) (spans : List Span)
    (hd : Disjoint spans) (hb : InBounds f.length spans) :
    extractCompact m f spans =
      ⟨concatLive f (validateSpans spans).1, some (f.length - sumLen spans)⟩ ∧
    sumLen spans ≤ f.length := by
  have hv : (validateSpans spans).2 = true := (validate_ok_iff spans).2 hd
  have hperm := validate_perm spans
  have hchain := validate_chain spans hv
  have hw : ∀ s ∈ (validateSpans spans).1, 0 ≤ s.off ∧ s.stop ≤ f.length :=
    fun s hs => ⟨Nat.zero_le _, hb s (hperm.subset hs)⟩
  obtain ⟨g', m', he, hl, ht⟩ := compactLoop_spec _ m f 0 hchain hw
  have hbs : InBounds f.length (validateSpans spans).1 := fun s hs => hb s (hperm.subset hs)
  have hsum : sumLen (validateSpans spans).1 = sumLen spans := sumLen_perm hperm
  simp only [Nat.zero_add, List.take_zero, List.nil_append] at he ht
  have hlen : sumLen (validateSpans spans).1 ≤ g'.length := by
    have h1 := congrArg List.length ht
    rw [concatLive_length f _ hbs, List.length_take] at h1
    omega
  rw [hsum] at hlen he ht
  refine ⟨?_, by omega⟩
  unfold extractCompact
  generalize hvs : validateSpans spans = vs at *
  obtain ⟨sorted, okb⟩ := vs
  simp only at hv he ht hperm hchain
  subst hv
  simp only [he]
  split
  · rw [setLen_le g' _ hlen, ht]
  · rename_i hs
    have : sumLen spans = g'.length := by omega
    rw [this, List.take_length] at ht
    rw [ht]


theorem pairwise_mem {α} {R : α → α → Prop} (hs : ∀ {a b}, R a b → R b a) {l : List α}
    (h : l.Pairwise R) : ∀ a ∈ l, ∀ b ∈ l, a ≠ b → R a b := by
  induction l with
  | nil => intro a ha; cases ha
  | cons x t ih =>
    rw [List.pairwise_cons] at h
    intro a ha b hb hne
    rcases List.mem_cons.1 ha with hax | hat <;> rcases List.mem_cons.1 hb with hbx | hbt
    · exact absurd (hax.trans hbx.symm) hne
    · rw [hax]; exact h.1 b hbt
    · rw [hbx]; exact hs (h.1 a hat)
    · exact ih h.2 a hat b hbt hne

theorem concatLive_filter (f : Bytes) (l : List Span) :
    concatLive f l = concatLive f (l.filter (fun s => decide (s.len ≠ 0))) := by
  induction l with
  | nil => rfl
  | cons a t ih =>
    by_cases h : a.len = 0
    · have : decide (a.len ≠ 0) = false := by simp [h]
      rw [List.filter_cons_of_neg (by simp [h])]
      simp only [concatLive, List.flatMap_cons] at ih ⊢
      rw [← ih]
      simp [slice, h]
    · rw [List.filter_cons_of_pos (by simp [h])]
      simp only [concatLive, List.flatMap_cons] at ih ⊢
      rw [ih]

/-- "offset order" determines the concatenation: two arrangements of one disjoint span set that
are both non-decreasing in offset give the same bytes (ties involve empty spans only). -/
theorem concatLive_order_irrelevant (f : Bytes) (t1 t2 : List Span) (hp : t1.Perm t2)
    (h1 : OffsetOrdered t1) (h2 : OffsetOrdered t2) (hd : Disjoint t1) :
    concatLive f t1 = concatLive f t2 := by
  rw [concatLive_filter f t1, concatLive_filter f t2]
  congr 1
  refine List.Perm.eq_of_pairwise (le := fun a b => a.off ≤ b.off) ?_ (h1.filter _) (h2.filter _)
    (hp.filter _)
  intro a b ha hb hab hba
  have hb1 : b ∈ t1.filter (fun s => decide (s.len ≠ 0)) := (hp.filter _).symm.subset hb
  have hdf : (t1.filter (fun s => decide (s.len ≠ 0))).Pairwise (fun a b => a.overlaps b = false) :=
    List.Pairwise.filter _ hd
  by_cases hne : a = b
  · exact hne
  · have hno := pairwise_mem (fun h => overlaps_symm h) hdf a ha b hb1 hne
    have hal := (List.mem_filter.1 ha).2
    have hbl := (List.mem_filter.1 hb1).2
    simp only [decide_eq_true_eq] at hal hbl
    simp only [Span.overlaps, Bool.and_eq_false_iff, decide_eq_false_iff_not] at hno
    omega

theorem extractCompact_refuse (m : Mover) (f : Bytes) (spans : List Span) (h : ¬ Disjoint spans) :
    extractCompact m f spans = ⟨f, none⟩ := by
  have hv : (validateSpans spans).2 = false := by
    cases hvv : (validateSpans spans).2 with
    | false => rfl
    | true => exact absurd ((validate_ok_iff spans).1 hvv) h
  unfold extractCompact
  generalize validateSpans spans = vs at hv
  obtain ⟨sorted, okb⟩ := vs
  simp only at hv
  subst hv
  rfl

/-! ### length preservation (no hypothesis on the spans) -/

theorem copyLoop_length (buf : Nat) (hbuf : 0 < buf) (f : Bytes) (src dst rem moved : Nat)
    (hd : dst ≤ src) : (copyLoop buf hbuf f src dst rem moved).1.length = f.length := by
  induction rem using Nat.strongRecOn generalizing f src dst moved with
  | _ rem ih =>
    unfold copyLoop
    split
    · rfl
    · simp only
      cases hr : readExact f src (min rem buf) with
      | none => rfl
      | some d =>
        simp only
        obtain ⟨hb, hdd⟩ := readExact_some hr
        have hlen : d.length = min rem buf := by rw [hdd]; exact slice_length f src _ hb
        have hw : dst + d.length ≤ f.length := by omega
        rw [ih (rem - min rem buf) (by omega) _ _ _ _ (by omega), writeAt_inb_length f d dst hw]

theorem compactLoop_length (l : List Span) : ∀ (m : Mover) (f : Bytes) (w : Nat),
    (compactLoop m f l w).1.length = f.length := by
  induction l with
  | nil => intro m f w; rfl
  | cons s r ih =>
    intro m f w
    rw [compactLoop]
    split
    · rename_i hgt
      have hc : (compactInPlace m f s.off w s.len).1.length = f.length := by
        unfold compactInPlace
        rw [if_neg (by omega)]
        exact copyLoop_length _ _ _ _ _ _ _ (by omega)
      split
      · rename_i f' m' heq
        rw [heq] at hc
        rw [ih]; exact hc
      · rename_i f' m' heq
        rw [heq] at hc
        exact hc
    · exact ih _ _ _

/-- whatever the span set: an `Ok(saved)` reports exactly the number of bytes the file lost. -/
theorem extractCompact_saved (m : Mover) (f : Bytes) (spans : List Span) (f' : Bytes) (saved : Nat)
    (h : extractCompact m f spans = ⟨f', some saved⟩) :
    saved = f.length - f'.length ∧ f'.length ≤ f.length := by
  unfold extractCompact at h
  split at h
  · cases h
  · split at h
    · cases h
    · rename_i _ sorted _ _ g _ w hcl
      simp only at h
      have hl := compactLoop_length sorted m f 0
      rw [hcl] at hl
      simp only at hl
      split at h
      · rename_i hs
        cases h
        rw [setLen_le g w (by omega), List.length_take]
        omega
      · cases h
        omega

theorem memmove_self (f : Bytes) (s len : Nat) (h : s + len ≤ f.length) : memmove f s s len = f := by
  apply List.ext_getElem?
  intro i
  rw [memmove_getElem? f s s len i h (Nat.le_refl _)]
  split
  · congr 1; omega
  · rfl

theorem moverNew_bufSize_ge (budget : Nat) : MIN_BUFFER_SIZE ≤ (moverNew budget).bufSize := by
  unfold moverNew
  simp only
  have h : MIN_BUFFER_SIZE ≤ max budget MIN_BUFFER_SIZE := Nat.le_max_right _ _
  generalize max budget MIN_BUFFER_SIZE = total at h
  have hc : 0 < bufCountOf total := by unfold bufCountOf MAX_BUFFERS; omega
  rw [Nat.le_div_iff_mul_le hc]
  unfold MIN_BUFFER_SIZE at h ⊢
  unfold bufCountOf MAX_BUFFERS
  rw [Nat.shiftRight_eq_div_pow]
  omega

theorem moverNew_bufCount (budget : Nat) :
    1 ≤ (moverNew budget).bufCount ∧ (moverNew budget).bufCount ≤ MAX_BUFFERS := by
  unfold moverNew bufCountOf MAX_BUFFERS
  simp only
  omega

theorem moverNew_within_budget (budget : Nat) :
    (moverNew budget).bufSize * (moverNew budget).bufCount ≤ max budget MIN_BUFFER_SIZE := by
  unfold moverNew
  simp only
  exact Nat.div_mul_le_self _ _

/-! ### ArchiveManager -/

theorem writeAt_end_length (f d : Bytes) : (writeAt f f.length d).length = f.length + d.length := by
  unfold writeAt
  simp

theorem writeAt_end_take (f d : Bytes) : (writeAt f f.length d).take f.length = f := by
  unfold writeAt
  simp

/-- invariant of the manager's bookkeeping: the file ends at the write position, and the
recorded (mapped) size never exceeds it. -/
def ArchInv (a : Arch) : Prop := a.file.length = a.used ∧ a.mapped ≤ a.used

theorem archOpen_inv (f : Bytes) : ArchInv (archOpen f) := ⟨rfl, Nat.le_refl _⟩

theorem archWrite_inv (g : Nat → Nat → Bool) (a : Arch) (r : Bytes) (h : ArchInv a) :
    ArchInv (archWrite g a r) := by
  obtain ⟨h1, h2⟩ := h
  unfold archWrite ArchInv
  simp only
  rw [← h1, writeAt_end_length]
  refine ⟨rfl, ?_⟩
  split <;> omega

theorem archWrite_keeps (g : Nat → Nat → Bool) (a : Arch) (r : Bytes) (h : ArchInv a) :
    (archWrite g a r).file.take a.used = a.file := by
  unfold archWrite
  simp only
  rw [← h.1, writeAt_end_take]

theorem arch_history_inv (g : Nat → Nat → Bool) (recs : List Bytes) : ∀ (a : Arch), ArchInv a →
    ArchInv (recs.foldl (archWrite g) a) := by
  induction recs with
  | nil => intro a h; exact h
  | cons r t ih => intro a h; exact ih _ (archWrite_inv g a r h)

theorem archCompact_noop (u : Nat → Nat → Bool) (a : Arch) (h : ArchInv a) :
    (archCompact u a).1 = a ∧ (archCompact u a).2.2 = 0 := by
  unfold archCompact
  simp only
  have : ¬ a.used < a.mapped := by have := h.2; omega
  simp only [this, if_false]
  split <;> exact ⟨rfl, rfl⟩

theorem archCompact_keeps (u : Nat → Nat → Bool) (a : Arch) (h : a.used ≤ a.file.length) :
    (archCompact u a).1.file.take a.used = a.file.take a.used ∧
    (archCompact u a).1.used = a.used := by
  unfold archCompact
  simp only
  split
  · split
    · simp only
      rw [setLen_le _ _ h, List.take_take, Nat.min_self]
      exact ⟨rfl, trivial⟩
    · exact ⟨rfl, rfl⟩
  · exact ⟨rfl, rfl⟩

/-! ### `move_data` (between two files) -/

theorem slice_split (s : Bytes) (sp c r : Nat) :
    slice s sp (c + r) = slice s sp c ++ slice s (sp + c) r := by
  unfold slice
  rw [List.take_add, List.drop_drop]

theorem writeAt_writeAt (d : Bytes) (o : Nat) (a b : Bytes) :
    writeAt (writeAt d o a) (o + a.length) b = writeAt d o (a ++ b) := by
  unfold writeAt
  have hP : (d.take o ++ List.replicate (o - d.length) (0 : Byte)).length = o := by
    simp only [List.length_append, List.length_take, List.length_replicate]; omega
  generalize d.take o ++ List.replicate (o - d.length) (0 : Byte) = P at hP
  have h1 : (P ++ a ++ d.drop (o + a.length)).take (o + a.length) = P ++ a := by
    apply List.take_left'
    simp only [List.length_append, hP]
  have h2 : o + a.length - (P ++ a ++ d.drop (o + a.length)).length = 0 := by
    simp only [List.length_append, hP, List.length_drop]; omega
  have h3 : (P ++ a ++ d.drop (o + a.length)).drop (o + a.length + b.length) =
      d.drop (o + (a ++ b).length) := by
    have : o + a.length + b.length = (P ++ a).length + b.length := by
      simp only [List.length_append, hP]
    rw [this, ← List.drop_drop, List.drop_left, List.drop_drop, List.length_append]
    congr 1; omega
  rw [h1, h2, h3]
  simp only [List.replicate_zero, List.append_nil, List.append_assoc]

/-- the chunk loop of `move_data`, for every buffer size: an in-bounds source range lands in the
destination exactly as one `write_all` of the whole range would put it; the source is untouched
by construction. -/
theorem moveLoop_spec (buf : Nat) (hbuf : 0 < buf) (s d : Bytes) (sp dp rem moved : Nat)
    (hpos : 0 < rem) (hb : sp + rem ≤ s.length) :
    moveLoop buf hbuf s d sp dp rem moved = (writeAt d dp (slice s sp rem), moved + rem, true) := by
  induction rem using Nat.strongRecOn generalizing d sp dp moved with
  | _ rem ih =>
    unfold moveLoop
    rw [dif_neg (by omega)]
    simp only
    have hc : sp + min rem buf ≤ s.length := by omega
    have hr : readExact s sp (min rem buf) = some (slice s sp (min rem buf)) := by
      unfold readExact; rw [if_pos hc]; rfl
    rw [hr]
    simp only
    have hlen : (slice s sp (min rem buf)).length = min rem buf := slice_length s sp _ hc
    by_cases hz : rem - min rem buf = 0
    · unfold moveLoop
      rw [dif_pos hz]
      have : min rem buf = rem := by omega
      rw [this]
    · rw [ih (rem - min rem buf) (by omega) _ _ _ _ (by omega) (by omega)]
      refine Prod.ext ?_ (Prod.ext ?_ rfl)
      · simp only
        have hw := writeAt_writeAt d dp (slice s sp (min rem buf)) (slice s (sp + min rem buf) (rem - min rem buf))
        rw [hlen] at hw
        rw [hw, ← slice_split]
        congr 2; omega
      · simp only; omega

end Cascette.Proofs.Compaction
