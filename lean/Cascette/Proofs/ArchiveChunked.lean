/-
Proofs/ArchiveChunked — the chunked data file of Model/ArchiveChunked (what the driver runs) is
the flat file of Model/Archive: every operation commutes with flattening (`CState.abs`) and keeps
the length field correct (`Wf`).  One-step simulations `stepC_sim` / `istepC_sim`; the history
statement is `Props.C04.chunked_steps_are_the_model`.
-/
import Cascette.Model.ArchiveChunked
namespace Cascette.Proofs.ArchiveChunked
open Cascette
open Cascette.Model
open Cascette.Model.Archive

theorem writeAt_end (file data : Bytes) : Archive.writeAt file file.length data = file ++ data := by
  unfold Archive.writeAt
  rw [List.take_length, Nat.sub_self, List.replicate_zero, List.append_nil,
    List.drop_eq_nil_of_le (Nat.le_add_right _ _), List.append_nil]

theorem bytes_ofBytes (b : Bytes) : (CFile.ofBytes b).bytes = b := by
  simp [CFile.ofBytes, CFile.bytes]

theorem wf_ofBytes (b : Bytes) : (CFile.ofBytes b).Wf := by
  simp [CFile.ofBytes, CFile.bytes, CFile.Wf]

theorem wf_empty : CFile.empty.Wf := by
  simp [CFile.empty, CFile.bytes, CFile.Wf]

theorem bytes_empty : CFile.empty.bytes = [] := by
  simp [CFile.empty, CFile.bytes]

theorem bytes_writeAt (f : CFile) (h : f.Wf) (off : Nat) (d : Bytes) :
    (f.writeAt off d).bytes = Archive.writeAt f.bytes off d ∧ (f.writeAt off d).Wf := by
  unfold CFile.writeAt
  split
  · next he =>
    have hb : (CFile.mk (d :: f.pieces) (f.len + d.length)).bytes = f.bytes ++ d := by
      simp [CFile.bytes]
    constructor
    · rw [hb, he, h, writeAt_end]
    · unfold CFile.Wf
      rw [hb, List.length_append, ← h]
  · exact ⟨bytes_ofBytes _, wf_ofBytes _⟩

theorem dropP_flatten (ps : List Bytes) : ∀ n, (CFile.dropP n ps).flatten = ps.flatten.drop n := by
  induction ps with
  | nil => intro n; simp [CFile.dropP]
  | cons p ps ih =>
    intro n
    unfold CFile.dropP
    split
    · next h =>
      rw [ih, List.flatten_cons, List.drop_append, List.drop_eq_nil_of_le h, List.nil_append]
    · next h =>
      rw [List.flatten_cons, List.flatten_cons, List.drop_append_of_le_length (by omega)]

theorem takeP_flatten (ps : List Bytes) : ∀ n, CFile.takeP n ps = ps.flatten.take n := by
  induction ps with
  | nil => intro n; simp [CFile.takeP]
  | cons p ps ih =>
    intro n
    unfold CFile.takeP
    split
    · next h =>
      rw [List.flatten_cons, List.take_append_of_le_length h]
    · next h =>
      rw [ih, List.flatten_cons, List.take_append, List.take_of_length_le (l := p) (i := n) (by omega)]

theorem slice_eq (f : CFile) (off size : Nat) : f.slice off size = (f.bytes.drop off).take size := by
  unfold CFile.slice CFile.bytes
  rw [takeP_flatten, dropP_flatten]


theorem abs_opn (s : CState) : s.abs.opn = s.opn := rfl
theorem abs_disk (s : CState) : s.abs.disk = s.disk.map CFile.bytes := rfl

theorem len_empty : CFile.empty.len = 0 := rfl

theorem createArchiveC_sim (keep : Bool) (s : CState) (hs : s.Wf) :
    (createArchiveC keep s).abs = createArchive keep s.abs ∧ (createArchiveC keep s).Wf := by
  obtain ⟨disk, opn⟩ := s
  cases keep <;> cases disk with
  | none =>
    simp [createArchiveC, createArchive, CState.abs, CState.Wf, bytes_empty, wf_empty, len_empty]
  | some f =>
    have hf : f.Wf := hs f rfl
    have hf' := hf
    unfold CFile.Wf at hf'
    simp [createArchiveC, createArchive, CState.abs, CState.Wf, bytes_empty, wf_empty, len_empty, hf, ← hf']


/-- the tail of `writeC` / `write` once archive 0 is open on a file. -/
theorem write_tail_sim (P : Params) (file : CFile) (hf : file.Wf) (o : Open) (piece : Bytes)
    (total : Nat) :
    let file' := file.writeAt o.pos piece
    let fileA := Archive.writeAt file.bytes o.pos piece
    (CState.mk (some file') (some ⟨if P.remap o.mapped file'.len then file'.len else o.mapped, o.pos + total⟩)).abs
      = State.mk (some fileA) (some ⟨if P.remap o.mapped fileA.length then fileA.length else o.mapped, o.pos + total⟩)
    ∧ (CState.mk (some file') (some ⟨if P.remap o.mapped file'.len then file'.len else o.mapped, o.pos + total⟩)).Wf := by
  intro file' fileA
  have h := bytes_writeAt file hf o.pos piece
  have hl : file'.len = fileA.length := by
    have := h.2
    unfold CFile.Wf at this
    rw [this, h.1]
  constructor
  · simp only [CState.abs, Option.map_some, hl]
    rw [h.1]
  · intro f hfe
    simp only [Option.some.injEq] at hfe
    subst hfe
    exact h.2

theorem writeC_sim (P : Params) (s : CState) (hs : s.Wf) (d : Bytes) (m : Blte.Mode) :
    (writeC P s d m).1.abs = (write P s.abs d m).1 ∧ (writeC P s d m).2 = (write P s.abs d m).2 ∧
      (writeC P s d m).1.Wf := by
  obtain ⟨disk, opn⟩ := s
  unfold writeC write
  cases hb : blteOf P.cd d m with
  | error e => exact ⟨by first | trivial | rfl, by first | trivial | rfl, hs⟩
  | ok blte =>
    simp only [CState.abs]
    by_cases h1 : blte.length ≥ 2 ^ 32
    · simp only [h1, ↓reduceIte]; exact ⟨by first | trivial | rfl, by first | trivial | rfl, hs⟩
    simp only [h1, ↓reduceIte]
    by_cases h2 : headerSize + blte.length ≥ 2 ^ 32
    · simp only [h2, ↓reduceIte]; exact ⟨by first | trivial | rfl, by first | trivial | rfl, hs⟩
    simp only [h2, ↓reduceIte]
    cases opn with
    | some o =>
      simp only []
      by_cases h3 : o.pos ≥ maxArchive - writeReserve
      · simp only [h3, ↓reduceIte]; exact ⟨by first | trivial | rfl, by first | trivial | rfl, hs⟩
      simp only [h3, ↓reduceIte]
      by_cases h4 : o.pos + (headerSize + blte.length) > maxArchive
      · simp only [h4, ↓reduceIte]; exact ⟨by first | trivial | rfl, by first | trivial | rfl, hs⟩
      simp only [h4, ↓reduceIte]
      cases disk with
      | none => exact ⟨by first | trivial | rfl, by first | trivial | rfl, hs⟩
      | some file =>
        simp only [Option.map_some]
        have ht := write_tail_sim P file (hs file rfl) o (P.hdr (P.H blte) blte.length o.pos ++ blte) (headerSize + blte.length)
        by_cases h5 : o.pos ≥ 2 ^ 32
        · simp only [h5, ↓reduceIte]
          exact ⟨ht.1, by first | trivial | rfl, ht.2⟩
        · simp only [h5, ↓reduceIte]
          exact ⟨ht.1, by first | trivial | rfl, ht.2⟩
    | none =>
      simp only []
      by_cases h3 : 0 ≥ maxArchive - writeReserve
      · simp only [h3, ↓reduceIte]; exact ⟨by first | trivial | rfl, by first | trivial | rfl, hs⟩
      simp only [h3, ↓reduceIte]
      by_cases h4 : 0 + (headerSize + blte.length) > maxArchive
      · simp only [h4, ↓reduceIte]; exact ⟨by first | trivial | rfl, by first | trivial | rfl, hs⟩
      simp only [h4, ↓reduceIte]
      have hc := createArchiveC_sim P.keepOnCreate ⟨disk, none⟩ hs
      simp only [createArchiveC, createArchive, CState.abs, Option.map_some, State.mk.injEq, Option.some.injEq, Open.mk.injEq, and_self] at hc
      simp only [createArchiveC, createArchive]
      generalize (if P.keepOnCreate = true then disk.getD CFile.empty else CFile.empty) = f at hc ⊢
      generalize (if P.keepOnCreate = true then (Option.map CFile.bytes disk).getD [] else []) = fA at hc ⊢
      obtain ⟨⟨hfb, hfl⟩, hfw⟩ := hc
      subst hfb
      rw [← hfl]
      have ht := write_tail_sim P f (hfw f rfl) ⟨f.len, f.len⟩ (P.hdr (P.H blte) blte.length f.len ++ blte) (headerSize + blte.length)
      by_cases h5 : f.len ≥ 2 ^ 32
      · simp only [h5, ↓reduceIte]
        exact ⟨ht.1, by first | trivial | rfl, ht.2⟩
      · simp only [h5, ↓reduceIte]
        exact ⟨ht.1, by first | trivial | rfl, ht.2⟩


theorem readRawC_eq (s : CState) (id off size : Nat) :
    readRawC s id off size = readRaw s.abs id off size := by
  obtain ⟨disk, opn⟩ := s
  unfold readRawC readRaw
  cases opn <;> cases disk <;> simp [CState.abs, slice_eq]

theorem readContentC_eq (P : Params) (s : CState) (id off size : Nat) :
    readContentC P s id off size = readContent P s.abs id off size := by
  unfold readContentC readContent
  rw [readRawC_eq]
  cases readRaw s.abs id off size <;> rfl

theorem reopenC_sim (s : CState) (hs : s.Wf) : (reopenC s).abs = reopen s.abs ∧ (reopenC s).Wf := by
  obtain ⟨disk, opn⟩ := s
  cases disk with
  | none => exact ⟨rfl, hs⟩
  | some f =>
    have hf := hs f rfl
    unfold CFile.Wf at hf
    refine ⟨?_, hs⟩
    simp [reopenC, reopen, CState.abs, hf]

theorem dropOpenC_sim (s : CState) (hs : s.Wf) : (dropOpenC s).abs = dropOpen s.abs ∧ (dropOpenC s).Wf :=
  ⟨rfl, hs⟩

theorem init_wf : CState.init.Wf := by
  intro f h
  cases h

theorem init_abs : CState.init.abs = State.init := rfl


open Cascette.Model.Container in
theorem stepC_sim (P : Params) (cfg : Lsm.Cfg) (s : Container.CState) (hs : s.ar.Wf) (op : Container.Op) :
    (stepC P cfg s op).1.abs = (step P cfg s.abs op).1 ∧ (stepC P cfg s op).2 = (step P cfg s.abs op).2 ∧
      (stepC P cfg s op).1.ar.Wf := by
  obtain ⟨ar, ix, marked⟩ := s
  cases op with
  | write d =>
    simp only [stepC, step, Container.CState.abs]
    have hw := writeC_sim P ar hs d .none
    revert hw
    generalize Archive.writeC P ar d .none = rC
    generalize Archive.write P ar.abs d .none = rA
    obtain ⟨arC, resC⟩ := rC
    obtain ⟨arA, resA⟩ := rA
    rintro ⟨h1, h2, h3⟩
    simp only at h1 h2 h3
    subst h1 h2
    cases resC with
    | error e => exact ⟨rfl, rfl, h3⟩
    | ok v =>
      obtain ⟨id, off, total, key⟩ := v
      simp only []
      cases hL : Lsm.step cfg ix (.add (key9 key) id off total) with
      | mk ix' o => cases o <;> exact ⟨rfl, rfl, h3⟩
  | read key buf =>
    simp only [stepC, step, Container.CState.abs]
    cases hl : Lsm.lookup ix (key9 key) with
    | none => exact ⟨rfl, rfl, hs⟩
    | some e =>
      simp only [readContentC_eq]
      cases hr : Archive.readContent P ar.abs e.id e.off e.size with
      | ok d => exact ⟨rfl, rfl, hs⟩
      | error er => cases er <;> exact ⟨rfl, rfl, hs⟩
  | query key => exact ⟨rfl, rfl, hs⟩
  | remove key =>
    simp only [stepC, step, Container.CState.abs]
    cases hL : Lsm.step cfg ix (.remove (key9 key)) with
    | mk ix' o =>
      cases o with
      | bool b => cases b <;> exact ⟨rfl, rfl, hs⟩
      | _ => exact ⟨rfl, rfl, hs⟩
  | flush b => exact ⟨rfl, rfl, hs⟩
  | flushAll => exact ⟨rfl, rfl, hs⟩
  | reopen =>
    have h := reopenC_sim ar hs
    simp only [stepC, step, Container.CState.abs]
    exact ⟨by rw [h.1], by first | trivial | rfl, h.2⟩


open Cascette.Model.Container in
theorem istepC_sim (P : Params) (cfg : Lsm.Cfg) (s : Container.CIState) (hs : s.ar.Wf) (op : Container.IOp) :
    (istepC P cfg s op).1.abs = (istep P cfg s.abs op).1 ∧ (istepC P cfg s op).2 = (istep P cfg s.abs op).2 ∧
      (istepC P cfg s op).1.ar.Wf := by
  obtain ⟨ar, ix, cache⟩ := s
  cases op with
  | write d compress =>
    simp only [istepC, istep, istepWith, Container.CIState.abs]
    have hw := writeC_sim P ar hs d (if compress then .none else .none)
    revert hw
    generalize Archive.writeC P ar d (if compress then .none else .none) = rC
    generalize Archive.write P ar.abs d (if compress then .none else .none) = rA
    obtain ⟨arC, resC⟩ := rC
    obtain ⟨arA, resA⟩ := rA
    rintro ⟨h1, h2, h3⟩
    simp only at h1 h2 h3
    subst h1 h2
    cases resC with
    | error e => exact ⟨rfl, rfl, h3⟩
    | ok v =>
      obtain ⟨id, off, total, key⟩ := v
      simp only []
      cases hL : Lsm.step cfg ix (.add (key9 key) id off total) with
      | mk ix' o => cases o <;> exact ⟨rfl, rfl, h3⟩
  | read key =>
    simp only [istepC, istep, istepWith, Container.CIState.abs]
    cases hc : cache.find? (fun p => p.1 == key) with
    | some p => exact ⟨rfl, rfl, hs⟩
    | none =>
      simp only []
      cases hl : Lsm.lookup ix (key9 key) with
      | none => exact ⟨rfl, rfl, hs⟩
      | some e =>
        simp only [readContentC_eq]
        cases hr : Archive.readContent P ar.abs e.id e.off e.size with
        | ok d => exact ⟨rfl, rfl, hs⟩
        | error er => exact ⟨rfl, rfl, hs⟩
  | has key => exact ⟨rfl, rfl, hs⟩
  | reopen =>
    have h := reopenC_sim ar hs
    simp only [istepC, istep, istepWith, Container.CIState.abs]
    exact ⟨by rw [h.1], by first | trivial | rfl, h.2⟩
  | openOnly =>
    have h := dropOpenC_sim ar hs
    simp only [istepC, istep, istepWith, Container.CIState.abs]
    exact ⟨by rw [h.1], by first | trivial | rfl, h.2⟩
  | init =>
    have h := reopenC_sim ar hs
    simp only [istepC, istep, istepWith, Container.CIState.abs]
    exact ⟨by rw [h.1], by first | trivial | rfl, h.2⟩

end Cascette.Proofs.ArchiveChunked
