/-
Proofs/Blte — helper lemmas for property C01 (BLTE encode/decode is the identity).
Route: (1) wire integers and `parse ∘ serialize` on exactly the layouts `build` produces;
(2) every chunk the builder makes decodes, at the block index it was made with, to its content
(`decompress ∘ compress` by the assumed law of the `Codec` parameter, `decrypt ∘ encrypt` by the
C09 cipher theorems); (3) the builder invariant `Inv` — decoding the chunk list from index 0
yields the content added so far, chunk by chunk, and every chunk declares its content size — is
preserved by every builder call (induction over the program); (4) `build` + (1) + (3) give the
round trip and the truth of the chunk table.
-/
import Cascette.Model.Blte
import Cascette.Props.C09
namespace Cascette.Proofs.Blte
open Cascette Cascette.Model.Blte

theorem leBytes_length (k n : Nat) : (leBytes k n).length = k := by
  induction k generalizing n with
  | zero => rfl
  | succ k ih => simp [leBytes, ih]

theorem leNat_leBytes (k n : Nat) : leNat (leBytes k n) = n % 256 ^ k := by
  induction k generalizing n with
  | zero => simp [leBytes, leNat, Nat.mod_one]
  | succ k ih =>
    have hb : (BitVec.ofNat 8 n).toNat = n % 256 := by rw [BitVec.toNat_ofNat]
    rw [leBytes, leNat, ih, hb, Nat.pow_succ', Nat.mod_mul]

theorem beBytes_length (k n : Nat) : (beBytes k n).length = k := by
  simp [beBytes, leBytes_length]

theorem beNat_beBytes (k n : Nat) : beNat (beBytes k n) = n % 256 ^ k := by
  simp [beNat, beBytes, leNat_leBytes]

theorem takeN_append (n : Nat) (a r : Bytes) (h : a.length = n) : takeN n (a ++ r) = some (a, r) := by
  subst h
  simp [takeN]

theorem Mode.ofByte_byte (m : Mode) : Mode.ofByte m.byte = some m := by
  cases m <;> decide

/-- what `parse` keeps of a chunk: mode and data (the declared size is not in the file). -/
def strip (c : Chunk) : Chunk := ⟨c.mode, c.data, none⟩

theorem parseChunk_bytes (c : Chunk) (rest : Bytes) :
    parseChunk (1 + c.data.length) (c.bytes ++ rest) = some (strip c, rest) := by
  have h0 : ¬ (1 + c.data.length = 0) := by omega
  have h1 : 1 + c.data.length - 1 = c.data.length := by omega
  simp only [parseChunk, h0, if_false, Chunk.bytes, List.cons_append, Mode.ofByte_byte, h1,
    takeN_append _ _ _ rfl, strip]

theorem parseRows_flatMap (rows : List Row) (rest : Bytes)
    (hck : ∀ r ∈ rows, r.checksum.length = 16)
    (hsz : ∀ r ∈ rows, r.csize < 2 ^ 32 ∧ r.dsize < 2 ^ 32) :
    parseRows false rows.length (rows.flatMap Row.bytes ++ rest) = some (rows, rest) := by
  induction rows with
  | nil => simp [parseRows]
  | cons r rs ih =>
    have h1 := hck r (by simp)
    have ⟨h2, h3⟩ := hsz r (by simp)
    have ih' := ih (fun x hx => hck x (by simp [hx])) (fun x hx => hsz x (by simp [hx]))
    have e : (r :: rs).flatMap Row.bytes ++ rest =
        beBytes 4 r.csize ++ (beBytes 4 r.dsize ++ (r.checksum ++ (rs.flatMap Row.bytes ++ rest))) := by
      simp [Row.bytes, List.flatMap_cons, List.append_assoc]
    have p32 : (256 : Nat) ^ 4 = 2 ^ 32 := by decide
    rw [e]
    simp only [List.length_cons, parseRows, takeN_append _ _ _ (beBytes_length 4 _),
      takeN_append _ _ _ h1, ih', beNat_beBytes, p32, Nat.mod_eq_of_lt h2, Nat.mod_eq_of_lt h3,
      Bool.false_eq_true, if_false]


theorem parseChunks_flatMap (H : Bytes → Bytes) (chunks : List Chunk) (rest : Bytes)
    (hsz : ∀ c ∈ chunks, 1 + c.data.length < 2 ^ 32) :
    parseChunks (chunks.map (Row.ofChunk H)) (chunks.flatMap Chunk.bytes ++ rest) =
      some (chunks.map strip) := by
  induction chunks with
  | nil => simp [parseChunks]
  | cons c cs ih =>
    have h := hsz c (by simp)
    have ih' := ih (fun x hx => hsz x (by simp [hx]))
    have e : (c :: cs).flatMap Chunk.bytes ++ rest = c.bytes ++ (cs.flatMap Chunk.bytes ++ rest) := by
      simp [List.flatMap_cons, List.append_assoc]
    rw [e]
    simp only [List.map_cons, parseChunks, Row.ofChunk, Nat.mod_eq_of_lt h, parseChunk_bytes, ih']

theorem be4 (n : Nat) : ∃ a b c d, beBytes 4 n = [a, b, c, d] :=
  ⟨BitVec.ofNat 8 (n / 256 / 256 / 256), BitVec.ofNat 8 (n / 256 / 256), BitVec.ofNat 8 (n / 256),
    BitVec.ofNat 8 n, by simp [beBytes, leBytes]⟩

theorem be3 (n : Nat) : ∃ a b c, beBytes 3 n = [a, b, c] :=
  ⟨BitVec.ofNat 8 (n / 256 / 256), BitVec.ofNat 8 (n / 256), BitVec.ofNat 8 n,
    by simp [beBytes, leBytes]⟩

/-- the rows `build` writes have 16-byte checksums and sizes below 2^32 by construction. -/
theorem rows_wf (H : Bytes → Bytes) (hH : ∀ x, (H x).length = 16) (chunks : List Chunk) :
    (∀ r ∈ chunks.map (Row.ofChunk H), r.checksum.length = 16) ∧
    (∀ r ∈ chunks.map (Row.ofChunk H), r.csize < 2 ^ 32 ∧ r.dsize < 2 ^ 32) := by
  constructor
  · intro r hr
    obtain ⟨c, _, rfl⟩ := List.mem_map.1 hr
    exact hH _
  · intro r hr
    obtain ⟨c, _, rfl⟩ := List.mem_map.1 hr
    exact ⟨Nat.mod_lt _ (by decide), Nat.mod_lt _ (by decide)⟩

/-- `parse ∘ serialize` on a container with a table, as `build` lays it out. -/
theorem parse_serialize_table (H : Bytes → Bytes) (hH : ∀ x, (H x).length = 16)
    (chunks : List Chunk) (hs : Nat) (hhs : hs % 2 ^ 32 ≠ 0)
    (hn : chunks.length ≤ 0xFFFFFF) (hsz : ∀ c ∈ chunks, 1 + c.data.length < 2 ^ 32) :
    parse (serialize ⟨hs, some (chunks.map (Row.ofChunk H)), chunks⟩) =
      .ok ⟨hs % 2 ^ 32, some (chunks.map (Row.ofChunk H)), chunks.map strip⟩ := by
  obtain ⟨a, b, c, d, e4⟩ := be4 hs
  obtain ⟨x, y, z, e3⟩ := be3 (chunks.map (Row.ofChunk H)).length
  have v4 : beNat [a, b, c, d] = hs % 2 ^ 32 := by
    rw [← e4, beNat_beBytes]
  have v3 : beNat [x, y, z] = chunks.length := by
    rw [← e3, beNat_beBytes, List.length_map]
    exact Nat.mod_eq_of_lt (by
      have : (256 : Nat) ^ 3 = 16777216 := by decide
      omega)
  obtain ⟨w1, w2⟩ := rows_wf H hH chunks
  have hr := parseRows_flatMap (chunks.map (Row.ofChunk H)) (chunks.flatMap Chunk.bytes ++ []) w1 w2
  rw [List.length_map] at hr
  have hc := parseChunks_flatMap H chunks [] hsz
  simp only [serialize, magic, e4, e3, List.cons_append, List.nil_append, parse]
  have hfl2 : decide ((0x0F : Byte) = 0x10) = false := by decide
  rw [List.append_nil] at hr hc
  simp only [ne_eq, not_true_eq_false, if_false, v4, hhs, v3, false_and, hfl2, hr, hc]

/-- `parse ∘ serialize` on a single-chunk container. -/
theorem parse_serialize_single (c : Chunk) :
    parse (serialize ⟨0, none, [c]⟩) = .ok ⟨0, none, [strip c]⟩ := by
  have e0 : beBytes 4 0 = [0, 0, 0, 0] := by decide
  have v0 : beNat [(0 : Byte), 0, 0, 0] = 0 := by decide
  have hne : ¬ (c.mode.byte :: c.data = []) := by simp
  have hp := parseChunk_bytes c []
  simp only [Chunk.bytes, List.append_nil] at hp
  have hl : (c.mode.byte :: c.data).length = 1 + c.data.length := by simp; omega
  simp only [serialize, magic, e0, List.cons_append, List.nil_append, parse, List.flatMap_cons,
    List.flatMap_nil, List.append_nil, Chunk.bytes, ne_eq, not_true_eq_false, if_false, v0,
    if_true, hne, hl, hp]


/-! ### decoding what the builder makes -/

/-- the law assumed of zlib / LZ4: what `compress` returns, `decompress` maps back. -/
def Lawful (cd : Codec) : Prop := ∀ m x c, cd.compress m x = some c → cd.decompress m c = some x

theorem decompress_compress (cd : Codec) (law : Lawful cd) (m : Mode) (d c : Bytes)
    (h : compressChunk cd d m = .ok c) : decompressChunk cd c m = .ok d := by
  cases m with
  | none => simp only [compressChunk, Except.ok.injEq] at h; subst h; rfl
  | zlib =>
    simp only [compressChunk] at h
    split at h
    · rename_i c' hc
      simp only [Except.ok.injEq] at h; subst h
      simp only [decompressChunk, law _ _ _ hc]
    · cases h
  | lz4 =>
    simp only [compressChunk] at h
    split at h
    · rename_i c' hc
      simp only [Except.ok.injEq] at h; subst h
      simp only [decompressChunk, law _ _ _ hc]
    · cases h
  | enc => cases h
  | frame => cases h

theorem compress_enc_fails (cd : Codec) (d : Bytes) : ∀ c, compressChunk cd d .enc ≠ .ok c := by
  intro c h; cases h

/-- a chunk built by `ChunkData::new` decodes (at any index) to its content and declares its size. -/
theorem chunkNew_good (cd : Codec) (law : Lawful cd) (keys : Nat → Option Bytes) (d : Bytes) (m : Mode)
    (c : Chunk) (i : Nat) (h : Chunk.new cd d m = .ok c) :
    decodeChunk cd keys c i = .ok d ∧ c.declared = some d.length := by
  unfold Chunk.new at h
  split at h
  · rename_i hm
    simp only [Except.ok.injEq] at h; subst h
    subst hm
    exact ⟨rfl, rfl⟩
  · rename_i hm
    split at h
    · rename_i c' hc
      simp only [Except.ok.injEq] at h; subst h
      have hne : m ≠ .enc := by
        intro he; subst he; exact compress_enc_fails cd d c' hc
      simp only [decodeChunk, hne, if_false, decompress_compress cd law m d c' hc, and_self]
    · cases h

theorem cipher_involutive (et : Byte) (key iv : Bytes) (idx : Nat) (d c : Bytes)
    (hk : key.length = 16) (h : cipher et key iv idx d = .ok c) :
    cipher et key iv idx c = .ok d ∧ c.length = d.length := by
  unfold cipher at h ⊢
  by_cases h1 : et = 0x53
  · subst h1
    simp only [if_true] at h ⊢
    split at h
    · rename_i c' hc
      simp only [Except.ok.injEq] at h; subst h
      rw [Props.C09.salsa20_decrypt_encrypt key iv idx d c' hk hc]
      exact ⟨rfl, Props.C09.salsa20_length key iv idx d c' hk hc⟩
    · cases h
  · by_cases h2 : et = 0x41
    · subst h2
      have hne : ¬ ((0x41 : Byte) = 0x53) := by decide
      simp only [hne, if_false, if_true] at h ⊢
      split at h
      · rename_i c' hc
        simp only [Except.ok.injEq] at h; subst h
        rw [Props.C09.arc4_decrypt_encrypt key d c' hc]
        refine ⟨rfl, ?_⟩
        unfold Model.Arc4.crypt at hc
        cases hn : Model.Arc4.new key with
        | none => simp [hn] at hc
        | some cc =>
          simp only [hn, Option.map_some, Option.some.injEq] at hc
          subst hc
          exact Proofs.Arc4.apply_length cc d
      · cases h
    · simp only [h1, h2, if_false] at h
      cases h

/-- the property's "matching key store", plus the invariants of the Rust types
(`key: [u8; 16]`, `iv: [u8; 4]`, `key_name: u64`). -/
def EncOk (keys : Nat → Option Bytes) (e : EncSpec × Bytes) : Prop :=
  keys e.1.keyName = some e.2 ∧ e.2.length = 16 ∧ e.1.iv.length = 4 ∧ e.1.keyName < 2 ^ 64

theorem decrypt_encrypt (cd : Codec) (keys : Nat → Option Bytes) (inner ed : Bytes) (spec : EncSpec)
    (key : Bytes) (idx : Nat) (hok : EncOk keys (spec, key)) (hne : inner ≠ [])
    (h : encryptChunk inner spec key idx = .ok ed) :
    decryptChunk cd keys ed idx = decodeInner cd inner := by
  obtain ⟨hkey, hk, hiv, hkn⟩ := hok
  simp only at hkey hk hiv hkn
  unfold encryptChunk at h
  split at h
  · rename_i c hc
    simp only [Except.ok.injEq] at h
    obtain ⟨hdec, hlen⟩ := cipher_involutive _ _ _ _ _ _ hk hc
    have hcl : 1 ≤ c.length := by
      rw [hlen]; cases inner with
      | nil => exact absurd rfl hne
      | cons _ _ => simp
    have e : ed = 8 :: (leBytes 8 spec.keyName ++ (4 :: (spec.iv ++ (spec.etype :: c)))) := by
      rw [← h]; simp [List.append_assoc]
    have hl : ¬ (ed.length < 16) := by
      rw [e]; simp [leBytes_length, hiv]; omega
    have p64 : (256 : Nat) ^ 8 = 2 ^ 64 := by decide
    have h4 : ¬ ((4 : Byte) ≠ 4 ∧ (4 : Byte) ≠ 8) := by decide
    have h4n : (4 : Byte).toNat = 4 := by decide
    have h8 : ¬ ((8 : Byte) ≠ 8) := by decide
    unfold decryptChunk
    rw [if_neg hl, e]
    simp only [h8, if_false, takeN_append _ _ _ (leBytes_length 8 _), leNat_leBytes, p64,
      Nat.mod_eq_of_lt hkn, hkey, h4, h4n, takeN_append _ _ _ hiv, hdec]
  · cases h

theorem buildInner_spec (cd : Codec) (law : Lawful cd) (mode : Mode) (d inner : Bytes)
    (h : buildInner cd mode d = .ok inner) : decodeInner cd inner = .ok d ∧ inner ≠ [] := by
  cases mode with
  | none =>
    simp [buildInner] at h; subst h
    exact ⟨rfl, by simp⟩
  | enc =>
    simp [buildInner] at h; subst h
    exact ⟨rfl, by simp⟩
  | zlib =>
    simp only [buildInner, ne_eq, reduceCtorEq, not_false_eq_true, and_self, if_true, if_false] at h
    split at h
    · rename_i c hc
      simp only [Except.ok.injEq] at h; subst h
      refine ⟨?_, by simp⟩
      have := decompress_compress cd law _ _ _ hc
      simp only [decodeInner, Mode.ofByte_byte, this]
    · cases h
  | lz4 =>
    simp only [buildInner, ne_eq, reduceCtorEq, not_false_eq_true, and_self, if_true, if_false] at h
    split at h
    · rename_i c hc
      simp only [Except.ok.injEq] at h; subst h
      refine ⟨?_, by simp⟩
      have := decompress_compress cd law _ _ _ hc
      simp only [decodeInner, Mode.ofByte_byte, this]
    · cases h
  | frame =>
    simp only [buildInner, ne_eq, reduceCtorEq, not_false_eq_true, and_self, if_true, if_false,
      compressChunk] at h

/-- an encrypted chunk made by the builder decodes, *at the index it was encrypted with*, to
its content, and declares the content's size. -/
theorem encChunk_good (cd : Codec) (law : Lawful cd) (keys : Nat → Option Bytes) (mode : Mode)
    (d : Bytes) (spec : EncSpec) (key : Bytes) (idx : Nat) (c : Chunk)
    (hok : EncOk keys (spec, key)) (h : encChunk cd mode d spec key idx = .ok c) :
    decodeChunk cd keys c idx = .ok d ∧ c.declared = some d.length := by
  unfold encChunk at h
  split at h
  · cases h
  · rename_i inner hin
    split at h
    · cases h
    · rename_i ed hed
      simp only [Except.ok.injEq] at h; subst h
      obtain ⟨h1, h2⟩ := buildInner_spec cd law mode d inner hin
      simp only [decodeChunk, if_true, decrypt_encrypt cd keys inner ed spec key idx hok h2 hed, h1,
        and_self]


/-! ### the builder invariant -/

/-- chunk `k` of `cs` decodes at index `i + k` to `ps[k]` and declares `ps[k].length`. -/
def AllGood (cd : Codec) (keys : Nat → Option Bytes) : List Chunk → Nat → List Bytes → Prop
  | [], _, [] => True
  | c :: cs, i, p :: ps =>
    (decodeChunk cd keys c i = .ok p ∧ c.declared = some p.length) ∧ AllGood cd keys cs (i + 1) ps
  | _, _, _ => False

theorem AllGood.append {cd : Codec} {keys : Nat → Option Bytes} :
    ∀ (a : List Chunk) (i : Nat) (pa : List Bytes) (b : List Chunk) (pb : List Bytes),
      AllGood cd keys a i pa → AllGood cd keys b (i + a.length) pb →
      AllGood cd keys (a ++ b) i (pa ++ pb)
  | [], i, [], b, pb, _, h2 => by simpa using h2
  | [], _, _ :: _, _, _, h1, _ => by simp [AllGood] at h1
  | _ :: _, _, [], _, _, h1, _ => by simp [AllGood] at h1
  | c :: cs, i, p :: ps, b, pb, h1, h2 => by
    simp only [AllGood] at h1
    simp only [List.cons_append, AllGood]
    refine ⟨h1.1, AllGood.append cs (i + 1) ps b pb h1.2 ?_⟩
    have : i + 1 + cs.length = i + (c :: cs).length := by simp; omega
    rw [this]; exact h2

theorem AllGood.decodeFrom {cd : Codec} {keys : Nat → Option Bytes} :
    ∀ (cs : List Chunk) (i : Nat) (ps : List Bytes), AllGood cd keys cs i ps →
      decodeFrom cd keys cs i = .ok ps.flatten
  | [], _, [], _ => rfl
  | [], _, _ :: _, h => by simp [AllGood] at h
  | _ :: _, _, [], h => by simp [AllGood] at h
  | c :: cs, i, p :: ps, h => by
    simp only [AllGood] at h
    simp only [Model.Blte.decodeFrom, h.1.1, AllGood.decodeFrom cs (i + 1) ps h.2, List.flatten_cons]

theorem decodeFrom_strip (cd : Codec) (keys : Nat → Option Bytes) (cs : List Chunk) (i : Nat) :
    decodeFrom cd keys (cs.map strip) i = decodeFrom cd keys cs i := by
  induction cs generalizing i with
  | nil => rfl
  | cons c cs ih =>
    have : decodeChunk cd keys (strip c) i = decodeChunk cd keys c i := rfl
    simp only [List.map_cons, Model.Blte.decodeFrom, this, ih]

theorem makeChunks_good (cd : Codec) (law : Lawful cd) (keys : Nat → Option Bytes) (mode : Mode)
    (enc : Option (EncSpec × Bytes)) (henc : ∀ e, enc = some e → EncOk keys e) :
    ∀ (ps : List Bytes) (idx : Nat) (cs : List Chunk),
      makeChunks cd mode enc ps idx = .ok cs → AllGood cd keys cs idx ps
  | [], _, cs, h => by
    simp only [makeChunks, Except.ok.injEq] at h; subst h; trivial
  | p :: ps, idx, cs, h => by
    simp only [makeChunks] at h
    split at h
    · cases h
    · rename_i c hc
      split at h
      · cases h
      · rename_i cs' hcs
        simp only [Except.ok.injEq] at h; subst h
        refine ⟨?_, makeChunks_good cd law keys mode enc henc ps (idx + 1) cs' hcs⟩
        unfold makeChunk at hc
        cases enc with
        | none => exact chunkNew_good cd law keys p mode c idx hc
        | some e =>
          obtain ⟨spec, key⟩ := e
          exact encChunk_good cd law keys mode p spec key idx c (henc _ rfl) hc

theorem splitLoop_flatten (cs : Nat) (hcs : 1 ≤ cs) :
    ∀ (fuel : Nat) (rest : Bytes), rest.length ≤ fuel → (splitLoop cs fuel rest).flatten = rest
  | 0, rest, h => by
    have : rest = [] := List.eq_nil_of_length_eq_zero (by omega)
    subst this; rfl
  | fuel + 1, rest, h => by
    unfold splitLoop
    split
    · rename_i hr; subst hr; rfl
    · rename_i hr
      have hpos : 1 ≤ rest.length := by
        cases rest with
        | nil => exact absurd rfl hr
        | cons _ _ => simp
      have hd : (rest.drop cs).length ≤ fuel := by simp [List.length_drop]; omega
      rw [List.flatten_cons, splitLoop_flatten cs hcs fuel _ hd, List.take_append_drop]

theorem pieces_flatten (cs : Nat) (d : Bytes) (ps : List Bytes) (h : pieces cs d = .ok ps) :
    ps.flatten = d := by
  unfold pieces at h
  split at h
  · simp only [Except.ok.injEq] at h; subst h; simp
  · split at h
    · cases h
    · rename_i h0
      simp only [Except.ok.injEq] at h; subst h
      exact splitLoop_flatten cs (by omega) _ _ (Nat.le_refl _)

/-- the keys named by a call are in the store (and the Rust type invariants hold). -/
def KeyOk (keys : Nat → Option Bytes) : Op → Prop
  | .withEncryption s k => EncOk keys (s, k)
  | .addMixed _ (some e) => EncOk keys e
  | .addEncrypted _ s k _ => EncOk keys (s, k)
  | _ => True

/-- `add_encrypted_data` is given the chunk's position as block index (or the cipher is ARC4,
which ignores the index). -/
def IndexOk (b : Builder) : Op → Prop
  | .addEncrypted _ s _ idx => s.etype = 0x41 ∨ idx = b.chunks.length
  | _ => True

/-- every call of the program meets `KeyOk` and `IndexOk` in the builder state it is made in. -/
def ProgOk (cd : Codec) (keys : Nat → Option Bytes) : Builder → List Op → Prop
  | _, [] => True
  | b, op :: ops => KeyOk keys op ∧ IndexOk b op ∧ ∀ b', step cd b op = .ok b' → ProgOk cd keys b' ops

/-- a condition on the calls alone that implies `ProgOk` in every builder state: keys match and
`add_encrypted_data` is only used with ARC4 (no index to get wrong). -/
def StaticOk (keys : Nat → Option Bytes) (op : Op) : Prop :=
  KeyOk keys op ∧
  match op with
  | .addEncrypted _ s _ _ => s.etype = 0x41
  | _ => True

theorem progOk_of_static (cd : Codec) (keys : Nat → Option Bytes) :
    ∀ (ops : List Op) (b : Builder), (∀ op ∈ ops, StaticOk keys op) → ProgOk cd keys b ops
  | [], _, _ => trivial
  | op :: ops, b, h => by
    obtain ⟨hk, hs⟩ := h op (by simp)
    refine ⟨hk, ?_, fun b' _ => progOk_of_static cd keys ops b' (fun o ho => h o (by simp [ho]))⟩
    cases op <;> first | trivial | exact Or.inl hs

/-- decoding the builder's chunks from index 0 yields the content added so far, chunk by chunk,
every chunk declares its content size, and the configured encryption is in the key store. -/
def Inv (cd : Codec) (keys : Nat → Option Bytes) (b : Builder) (acc : Bytes) : Prop :=
  (∃ plains, AllGood cd keys b.chunks 0 plains ∧ plains.flatten = acc) ∧
  (∀ e, b.enc = some e → EncOk keys e)

theorem inv_init (cd : Codec) (keys : Nat → Option Bytes) : Inv cd keys Builder.init [] :=
  ⟨⟨[], trivial, rfl⟩, fun _ h => by cases h⟩

theorem inv_push (cd : Codec) (keys : Nat → Option Bytes) (b : Builder) (acc : Bytes)
    (hinv : Inv cd keys b acc) (cs : List Chunk) (ps : List Bytes)
    (h : AllGood cd keys cs b.chunks.length ps) :
    Inv cd keys { b with chunks := b.chunks ++ cs } (acc ++ ps.flatten) := by
  obtain ⟨⟨plains, hg, hf⟩, he⟩ := hinv
  refine ⟨⟨plains ++ ps, AllGood.append _ _ _ _ _ hg (by simpa using h), ?_⟩, he⟩
  rw [List.flatten_append, hf]

theorem addWith_inv (cd : Codec) (law : Lawful cd) (keys : Nat → Option Bytes) (b b' : Builder)
    (acc : Bytes) (enc : Option (EncSpec × Bytes)) (d : Bytes) (hinv : Inv cd keys b acc)
    (henc : ∀ e, enc = some e → EncOk keys e) (h : addWith cd b enc d = .ok b') :
    Inv cd keys b' (acc ++ d) := by
  unfold addWith at h
  split at h
  · cases h
  · rename_i ps hps
    split at h
    · cases h
    · rename_i cs hcs
      simp only [Except.ok.injEq] at h; subst h
      have := inv_push cd keys b acc hinv cs ps
        (makeChunks_good cd law keys b.mode enc henc ps _ cs hcs)
      rwa [pieces_flatten _ _ _ hps] at this

theorem encChunk_arc4_idx (cd : Codec) (mode : Mode) (d : Bytes) (s : EncSpec) (k : Bytes)
    (i j : Nat) (h : s.etype = 0x41) : encChunk cd mode d s k i = encChunk cd mode d s k j := by
  have : ∀ inner, encryptChunk inner s k i = encryptChunk inner s k j := by
    intro inner
    have hne : ¬ ((0x41 : Byte) = 0x53) := by decide
    simp only [encryptChunk, cipher, h, hne, if_false]
  simp only [encChunk, this]

theorem step_inv (cd : Codec) (law : Lawful cd) (keys : Nat → Option Bytes) (b b' : Builder)
    (acc : Bytes) (op : Op) (hinv : Inv cd keys b acc) (hk : KeyOk keys op) (hi : IndexOk b op)
    (h : step cd b op = .ok b') : Inv cd keys b' (acc ++ op.content) := by
  cases op with
  | withCompression m =>
    simp only [step, Except.ok.injEq] at h; subst h
    simpa [Op.content] using ⟨hinv.1, hinv.2⟩
  | withChunkSize n =>
    simp only [step, Except.ok.injEq] at h; subst h
    simpa [Op.content] using ⟨hinv.1, hinv.2⟩
  | withChunkSizeChecked n =>
    simp only [step] at h
    split at h
    · cases h
    · simp only [Except.ok.injEq] at h; subst h
      simpa [Op.content] using ⟨hinv.1, hinv.2⟩
  | withEncryption s k =>
    simp only [step, Except.ok.injEq] at h; subst h
    refine ⟨by simpa [Op.content] using hinv.1, ?_⟩
    intro e he
    simp only [Option.some.injEq] at he; subst he
    exact hk
  | withoutEncryption =>
    simp only [step, Except.ok.injEq] at h; subst h
    exact ⟨by simpa [Op.content] using hinv.1, fun _ he => by cases he⟩
  | addData d => exact addWith_inv cd law keys b b' acc b.enc d hinv hinv.2 h
  | addMixed d e =>
    refine addWith_inv cd law keys b b' acc e d hinv ?_ h
    intro e' he'
    subst he'
    exact hk
  | addEncrypted d s k idx =>
    simp only [step] at h
    split at h
    · cases h
    · rename_i c hc
      simp only [Except.ok.injEq] at h; subst h
      have hc' : encChunk cd b.mode d s k b.chunks.length = .ok c := by
        rcases hi with ha | rfl
        · rw [encChunk_arc4_idx cd b.mode d s k _ idx ha]; exact hc
        · exact hc
      have hg := encChunk_good cd law keys b.mode d s k _ c hk hc'
      have := inv_push cd keys b acc hinv [c] [d] ⟨hg, trivial⟩
      simpa [Op.content] using this
  | addChunkNew d m =>
    simp only [step] at h
    split at h
    · cases h
    · rename_i c hc
      simp only [Except.ok.injEq] at h; subst h
      have hg := chunkNew_good cd law keys d m c b.chunks.length hc
      have := inv_push cd keys b acc hinv [c] [d] ⟨hg, trivial⟩
      simpa [Op.content] using this

theorem run_inv (cd : Codec) (law : Lawful cd) (keys : Nat → Option Bytes) :
    ∀ (ops : List Op) (b b' : Builder) (acc : Bytes), Inv cd keys b acc → ProgOk cd keys b ops →
      run cd b ops = .ok b' → Inv cd keys b' (acc ++ content ops)
  | [], b, b', acc, hinv, _, h => by
    simp only [run, Except.ok.injEq] at h; subst h
    simpa [content] using hinv
  | op :: ops, b, b', acc, hinv, hp, h => by
    simp only [run] at h
    split at h
    · cases h
    · rename_i b1 hb1
      obtain ⟨hk, hi, hrest⟩ := hp
      have h1 := step_inv cd law keys b b1 acc op hinv hk hi hb1
      have h2 := run_inv cd law keys ops b1 b' _ h1 (hrest b1 hb1) h
      simpa [content, List.flatMap_cons, List.append_assoc] using h2


/-! ### build, serialise, parse, decode -/

theorem two32 : (2 : Nat) ^ 32 = 4294967296 := by decide

theorem firstIsEnc_of_not_any (cs : List Chunk) (h : ¬ (cs.any fun c => c.mode = .enc) = true) :
    firstIsEnc (cs.map strip) = false := by
  cases cs with
  | nil => rfl
  | cons c cs =>
    simp only [List.any_cons, Bool.or_eq_true, decide_eq_true_eq, not_or] at h
    simp only [List.map_cons, firstIsEnc, strip, h.1, decide_false]

/-- what `build` returns, by cases. -/
theorem build_cases (H : Bytes → Bytes) (b : Builder) (f : File) (h : build H b = .ok f) :
    (∃ c, b.chunks = [c] ∧ c.mode ≠ .enc ∧ f = ⟨0, none, [c]⟩) ∨
    (b.chunks ≠ [] ∧ b.chunks.length ≤ 0xFFFFFF ∧
      f = ⟨(12 + b.chunks.length * 24) % 2 ^ 32, some (b.chunks.map (Row.ofChunk H)), b.chunks⟩) := by
  unfold build at h
  split at h
  · cases h
  · rename_i hne
    split at h
    · rename_i h1
      simp only [Except.ok.injEq] at h
      obtain ⟨hl, ha⟩ := h1
      left
      match hc : b.chunks, hl with
      | [c], _ =>
        refine ⟨c, rfl, ?_, by rw [← h, hc]⟩
        rw [hc] at ha
        simpa using ha
    · split at h
      · cases h
      · rename_i hn
        simp only [Except.ok.injEq] at h
        right
        refine ⟨?_, by omega, h.symm⟩
        intro he; rw [he] at hne; simp at hne

theorem build_chunks (H : Bytes → Bytes) (b : Builder) (f : File) (h : build H b = .ok f) :
    f.chunks = b.chunks := by
  rcases build_cases H b f h with ⟨c, hc, _, rfl⟩ | ⟨_, _, rfl⟩
  · exact hc.symm
  · rfl

/-- the container `build` returns parses back to the same header size, the same rows and the
same chunks (less the declared sizes, which are not part of the file). -/
theorem parse_serialize_build (H : Bytes → Bytes) (hH : ∀ x, (H x).length = 16) (b : Builder)
    (f : File) (h : build H b = .ok f) (hsz : ∀ c ∈ b.chunks, 1 + c.data.length < 2 ^ 32) :
    parse (serialize f) = .ok ⟨f.headerSize, f.table, f.chunks.map strip⟩ ∧ f.chunks = b.chunks ∧
      (f.headerSize = 0 → firstIsEnc (f.chunks.map strip) = false) := by
  rcases build_cases H b f h with ⟨c, hc, hm, rfl⟩ | ⟨hne, hn, rfl⟩
  · refine ⟨parse_serialize_single c, hc.symm, fun _ => ?_⟩
    simp only [List.map_cons, List.map_nil, firstIsEnc, strip, hm, decide_false]
  · have hlt : 12 + b.chunks.length * 24 < 2 ^ 32 := by rw [two32]; omega
    have hmod : (12 + b.chunks.length * 24) % 2 ^ 32 = 12 + b.chunks.length * 24 :=
      Nat.mod_eq_of_lt hlt
    have hnz : (12 + b.chunks.length * 24) % 2 ^ 32 % 2 ^ 32 ≠ 0 := by rw [hmod, hmod]; omega
    have := parse_serialize_table H hH b.chunks ((12 + b.chunks.length * 24) % 2 ^ 32) hnz hn hsz
    refine ⟨by rw [this, hmod, hmod], rfl, fun h0 => ?_⟩
    simp only [hmod] at h0
    omega

/-- core of the round trip: from the builder invariant to the decoded bytes. -/
theorem decode_build (cd : Codec) (keys : Nat → Option Bytes) (H : Bytes → Bytes)
    (hH : ∀ x, (H x).length = 16) (b : Builder) (acc : Bytes) (hinv : Inv cd keys b acc) (f : File)
    (h : build H b = .ok f) (hsz : ∀ c ∈ b.chunks, 1 + c.data.length < 2 ^ 32) :
    decodeBytes cd keys (serialize f) = .ok acc := by
  obtain ⟨hp, hc, h0⟩ := parse_serialize_build H hH b f h hsz
  obtain ⟨⟨plains, hg, hf⟩, _⟩ := hinv
  have hd := AllGood.decodeFrom b.chunks 0 plains hg
  unfold decodeBytes
  rw [hp]
  unfold decode
  simp only
  by_cases hz : f.headerSize = 0
  · have h0' := h0 hz
    rw [hc] at h0'
    simp only [hz, true_and, hc, h0', Bool.false_eq_true, if_false, decodeFrom_strip, hd, hf]
  · simp only [hz, false_and, if_false, decodeFrom_strip, hc, hd, hf]

/-! ### the chunk table -/

/-- row `k` of `rows` describes chunk `k` of `cs` (which sits at index `i + k`): its compressed
size is the length of the chunk as serialised (mode byte + data), its checksum is `H` of exactly
those bytes, and its decompressed size is the length of the content the chunk decodes to. -/
def RowsTruthful (cd : Codec) (keys : Nat → Option Bytes) (H : Bytes → Bytes) :
    List Row → List Chunk → Nat → List Bytes → Prop
  | [], [], _, [] => True
  | r :: rs, c :: cs, i, p :: ps =>
    (r.csize = c.bytes.length ∧ r.checksum = H c.bytes ∧ decodeChunk cd keys c i = .ok p ∧
      r.dsize = p.length) ∧ RowsTruthful cd keys H rs cs (i + 1) ps
  | _, _, _, _ => False

theorem length_le_flatten (ps : List Bytes) (p : Bytes) (h : p ∈ ps) : p.length ≤ ps.flatten.length := by
  induction ps with
  | nil => cases h
  | cons q qs ih =>
    rw [List.flatten_cons, List.length_append]
    rcases List.mem_cons.1 h with rfl | h'
    · omega
    · have := ih h'; omega

theorem rows_truthful (cd : Codec) (keys : Nat → Option Bytes) (H : Bytes → Bytes) :
    ∀ (cs : List Chunk) (i : Nat) (ps : List Bytes), AllGood cd keys cs i ps →
      (∀ c ∈ cs, 1 + c.data.length < 2 ^ 32) → (∀ p ∈ ps, p.length < 2 ^ 32) →
      RowsTruthful cd keys H (cs.map (Row.ofChunk H)) (cs.map strip) i ps
  | [], _, [], _, _, _ => trivial
  | [], _, _ :: _, h, _, _ => by simp [AllGood] at h
  | _ :: _, _, [], h, _, _ => by simp [AllGood] at h
  | c :: cs, i, p :: ps, h, hc, hp => by
    simp only [AllGood] at h
    obtain ⟨⟨hd, hdecl⟩, hrest⟩ := h
    have h1 := hc c (by simp)
    have h2 := hp p (by simp)
    refine ⟨⟨?_, rfl, hd, ?_⟩, rows_truthful cd keys H cs (i + 1) ps hrest
      (fun x hx => hc x (by simp [hx])) (fun x hx => hp x (by simp [hx]))⟩
    · simp only [Row.ofChunk, Nat.mod_eq_of_lt h1, strip, Chunk.bytes, List.length_cons]; omega
    · simp only [Row.ofChunk, hdecl, Option.getD_some, Nat.mod_eq_of_lt h2]

end Cascette.Proofs.Blte
