/-
Proofs/RibbitParse — the reader applied to what the server formats (helper lemmas for Props/C15).
-/
import Cascette.Model.RibbitFmt
import Cascette.Proofs.RibbitStr
namespace Cascette.Proofs.Bpsv
open Cascette.Model.Bpsv Cascette.Model.Ribbit

deriving instance DecidableEq for Except

/-! ### seqn line, data lines -/

theorem trimEnd_natDigits (n : Nat) : trimEnd (natDigits n) = natDigits n :=
  trimEnd_nows _ (fun c hc => isDigit_not_ws c (by
    have := natDigits_all n
    rw [List.all_eq_true] at this
    exact this c hc))

theorem trimStart_natDigits (n : Nat) : trimStart (natDigits n) = natDigits n := by
  cases hd : natDigits n with
  | nil => rfl
  | cons c cs =>
    have : isDigit c = true := by
      have := natDigits_all n; rw [hd] at this; simp at this; exact this.1
    exact trimStart_cons c cs (isDigit_not_ws c this)

theorem trimEnd_seqnLine (n : Nat) : trimEnd (seqnLine n) = seqnLine n := by
  unfold seqnLine
  rw [trimEnd_append _ _ (natDigits_ne_nil n) (trimEnd_natDigits n)]

theorem trim_seqnLine (n : Nat) : trim (seqnLine n) = seqnLine n := by
  unfold trim
  rw [trimEnd_seqnLine]
  rfl

theorem parseSeqLine_seqnLine (n : Nat) (h : n < 2 ^ 32) : parseSeqLine (seqnLine n) = .ok n := by
  have h1 : trimStart ((seqnLine n).drop 7) = '=' :: ' ' :: natDigits n := by
    simp [seqnLine, trimStart, isWs]
  have h2 : trim (' ' :: natDigits n) = natDigits n := by
    unfold trim
    have : trimEnd (' ' :: natDigits n) = ' ' :: natDigits n := by
      have := trimEnd_append [' '] (natDigits n) (natDigits_ne_nil n) (trimEnd_natDigits n)
      simpa using this
    rw [this]
    simp [trimStart, isWs, trimStart_natDigits]
  unfold parseSeqLine
  simp only [h1, findIdx, ↓reduceIte, List.drop_succ_cons, List.drop_zero, Nat.zero_add, h2,
    parseUnsigned_natDigits _ n h]
  simp

theorem processLines_seqn (tys : List Ty) (n : Nat) (h : n < 2 ^ 32) (rows : List Row) (sq : Option Nat) :
    processLines tys [seqnLine n] rows sq = .ok (rows, some n) := by
  have ht := trim_seqnLine n
  have hs : startsWith seqnPrefix (seqnLine n) = true := by
    simp [seqnLine, seqnPrefix, startsWith]
  have hne : seqnLine n ≠ [] := by simp [seqnLine]
  simp [processLines, ht, hs, hne, parseSeqLine_seqnLine n h]

theorem processLines_data (tys : List Ty) (line : Str) (rest : List Str) (rows : List Row)
    (sq : Option Nat) (c : Char) (cs : Str) (r : Row)
    (hline : trim line = c :: cs) (hc : c ≠ '#')
    (hrow : parseRow tys (splitOn '|' (c :: cs)) = .ok r) :
    processLines tys (line :: rest) rows sq = processLines tys rest (rows ++ [r]) sq := by
  have hc' : ('#' == c) = false := by
    simp; exact fun e => hc e.symm
  simp [processLines, hline, startsWith, seqnPrefix, hc', hrow]

/-- a run of data lines, each reading back as the row `mk x`. -/
theorem processLines_map {α : Type} (tys : List Ty) (f : α → Str) (mk : α → Row) (xs : List α)
    (tail : List Str) (rows : List Row) (sq : Option Nat)
    (h : ∀ x ∈ xs, ∃ c cs, trim (f x) = c :: cs ∧ c ≠ '#' ∧
      parseRow tys (splitOn '|' (c :: cs)) = .ok (mk x)) :
    processLines tys (xs.map f ++ tail) rows sq = processLines tys tail (rows ++ xs.map mk) sq := by
  induction xs generalizing rows with
  | nil => simp
  | cons x xs ih =>
    obtain ⟨c, cs, h1, h2, h3⟩ := h x (by simp)
    simp only [List.map_cons, List.cons_append]
    rw [processLines_data tys (f x) _ rows sq c cs (mk x) h1 h2 h3,
      ih (rows ++ [mk x]) (fun y hy => h y (by simp [hy]))]
    simp

/-! ### joined rows -/

theorem joinWith_snoc (sep : Str) (x : Str) (xs : List Str) (z : Str) :
    joinWith sep (x :: (xs ++ [z])) = joinWith sep (x :: xs) ++ sep ++ z := by
  induction xs generalizing x with
  | nil => simp [joinWith]
  | cons y ys ih =>
    simp only [List.cons_append, joinWith, List.append_assoc]
    have := ih y
    simp only [List.append_assoc] at this
    rw [this]

theorem joinWith_head (sep : Str) (c : Char) (cs : Str) (xs : List Str) :
    ∃ t, joinWith sep ((c :: cs) :: xs) = c :: t := by
  cases xs with
  | nil => exact ⟨cs, rfl⟩
  | cons y ys => exact ⟨cs ++ sep ++ joinWith sep (y :: ys), by simp [joinWith]⟩

theorem mem_joinWith (sep : Str) (xs : List Str) (c : Char) (h : c ∈ joinWith sep xs) :
    c ∈ sep ∨ ∃ x ∈ xs, c ∈ x := by
  induction xs with
  | nil => simp [joinWith] at h
  | cons x xs ih =>
    cases xs with
    | nil => exact .inr ⟨x, by simp, by simpa [joinWith] using h⟩
    | cons y ys =>
      simp only [joinWith, List.mem_append] at h
      rcases h with (h | h) | h
      · exact .inr ⟨x, by simp, h⟩
      · exact .inl h
      · rcases ih h with h | ⟨z, hz, hc⟩
        · exact .inl h
        · exact .inr ⟨z, by simp [hz], hc⟩

/-- trimming leaves a joined row alone when it starts with a non-blank and its last field
(with the separator in front) has no trailing blank. -/
theorem trimEnd_row (c : Char) (cs : Str) (fields : List Str) (last : Str)
    (hlast : trimEnd ('|' :: last) = '|' :: last) :
    trimEnd (joinWith bar ((c :: cs) :: (fields ++ [last]))) = joinWith bar ((c :: cs) :: (fields ++ [last])) := by
  rw [joinWith_snoc, List.append_assoc]
  exact trimEnd_append _ _ (by simp [bar]) (by simpa [bar] using hlast)

theorem trim_row (c : Char) (cs : Str) (fields : List Str) (last : Str) (hfirst : isWs c = false)
    (hlast : trimEnd ('|' :: last) = '|' :: last) :
    trim (joinWith bar ((c :: cs) :: (fields ++ [last]))) = joinWith bar ((c :: cs) :: (fields ++ [last])) := by
  unfold trim
  rw [trimEnd_row c cs fields last hlast]
  obtain ⟨t, ht⟩ := joinWith_head bar c cs (fields ++ [last])
  rw [ht]
  exact trimStart_cons c t hfirst

/-- the hypothesis `processLines_map` wants, for a row joined from its fields. -/
theorem row_good (tys : List Ty) (c : Char) (cs : Str) (fields : List Str) (last : Str) (row : Row)
    (hfirst : isWs c = false) (hc : c ≠ '#')
    (hbar : ∀ y ∈ (c :: cs) :: (fields ++ [last]), '|' ∉ y)
    (hlast : trimEnd ('|' :: last) = '|' :: last)
    (hrow : parseRow tys ((c :: cs) :: (fields ++ [last])) = .ok row) :
    ∃ c' cs', trim (joinWith bar ((c :: cs) :: (fields ++ [last]))) = c' :: cs' ∧ c' ≠ '#' ∧
      parseRow tys (splitOn '|' (c' :: cs')) = .ok row := by
  obtain ⟨t, ht⟩ := joinWith_head bar c cs (fields ++ [last])
  refine ⟨c, t, ?_, hc, ?_⟩
  · rw [trim_row c cs fields last hfirst hlast, ht]
  · rw [← ht]
    have := splitOn_joinWith '|' (c :: cs) (fields ++ [last]) hbar
    simp only [bar] at this ⊢
    rw [this, hrow]

/-! ### reading the joined lines back -/

theorem dropLastEmpty_snoc (a : List Str) (z : Str) (hz : z ≠ []) :
    dropLastEmpty (a ++ [z]) = a ++ [z] := by
  induction a with
  | nil => simp [dropLastEmpty, hz]
  | cons x xs ih =>
    cases hxs : xs ++ [z] with
    | nil => simp at hxs
    | cons y ys =>
      simp only [List.cons_append, hxs, dropLastEmpty]
      rw [← hxs, ih]

/-- `read_line` + `trim_end` give back the lines that were joined, when no line contains a line
break or ends in a blank and the last one is not empty. -/
theorem readLines_joinWith (x : Str) (mid : List Str) (z : Str) (hz : z ≠ [])
    (hnl : ∀ y ∈ x :: (mid ++ [z]), '\n' ∉ y)
    (htrim : ∀ y ∈ x :: (mid ++ [z]), trimEnd y = y) :
    (readLines (joinWith nl (x :: (mid ++ [z])))).map trimEnd = x :: (mid ++ [z]) := by
  unfold readLines
  have := splitOn_joinWith '\n' x (mid ++ [z]) hnl
  simp only [nl] at this ⊢
  rw [this]
  have h2 : dropLastEmpty (x :: (mid ++ [z])) = x :: (mid ++ [z]) := by
    have := dropLastEmpty_snoc (x :: mid) z hz
    simpa using this
  rw [h2]
  exact List.map_congr_left htrim |>.trans (List.map_id' _)

/-! ### typed values -/

def HexOk (s : Str) : Prop := s.all isHexDigit = true ∧ s.length % 2 = 0

def hexValue (s : Str) : Value := if s = [] then .empty else .hex (hexPairs s)
def strValue (s : Str) : Value := if s = [] then .empty else .str s

theorem utf8Size_hex (c : Char) (h : isHexDigit c = true) : c.utf8Size = 1 := by
  have : c.toNat ≤ 127 := by
    simp [isHexDigit, isDigit] at h; omega
  simp only [Char.utf8Size]
  have h2 : c.val ≤ 127 := by
    rw [UInt32.le_iff_toNat_le]; exact this
  simp [h2]

theorem utf8Len_hex (s : Str) (h : s.all isHexDigit = true) : utf8Len s = s.length := by
  induction s with
  | nil => rfl
  | cons c cs ih =>
    simp only [List.all_cons, Bool.and_eq_true] at h
    simp only [utf8Len, List.map_cons, List.sum_cons, List.length_cons] at ih ⊢
    rw [utf8Size_hex c h.1, ih h.2]; omega

theorem parseValue_hex (s : Str) (h : HexOk s) : parseValue .hex s = .ok (hexValue s) := by
  unfold parseValue hexValue
  by_cases he : s = []
  · simp [he]
  · simp [he, utf8Len_hex s h.1, h.1, h.2]

theorem parseValue_str (s : Str) : parseValue .str s = .ok (strValue s) := by
  unfold parseValue strValue
  by_cases he : s = [] <;> simp [he]

theorem parseValue_dec (s : Str) (n : Int) (h : parseI64 s = some n) : parseValue .dec s = .ok (.dec n) := by
  have he : s ≠ [] := by
    intro e; subst e; simp [parseI64, parseUnsigned, stripPlus] at h
  unfold parseValue
  simp [he, h]

theorem isHexDigit_facts (c : Char) (h : isHexDigit c = true) :
    isWs c = false ∧ c ≠ '|' ∧ c ≠ '\n' := by
  have hn : (48 ≤ c.toNat ∧ c.toNat ≤ 57) ∨ (97 ≤ c.toNat ∧ c.toNat ≤ 102) ∨ (65 ≤ c.toNat ∧ c.toNat ≤ 70) := by
    simp [isHexDigit, isDigit] at h; omega
  refine ⟨?_, ?_, ?_⟩
  · simp [isWs]; omega
  · intro e; subst e; simp at hn
  · intro e; subst e; simp at hn

theorem HexOk.nobar {s : Str} (h : HexOk s) : '|' ∉ s := by
  intro hm
  have := List.all_eq_true.mp h.1 _ hm
  exact (isHexDigit_facts _ this).2.1 rfl

theorem HexOk.nonl {s : Str} (h : HexOk s) : '\n' ∉ s := by
  intro hm
  have := List.all_eq_true.mp h.1 _ hm
  exact (isHexDigit_facts _ this).2.2 rfl

theorem HexOk.trimEnd_bar {s : Str} (h : HexOk s) : trimEnd ('|' :: s) = '|' :: s := by
  apply trimEnd_nows
  intro c hc
  simp only [List.mem_cons] at hc
  rcases hc with rfl | hc
  · decide
  · exact (isHexDigit_facts c (List.all_eq_true.mp h.1 c hc)).1

theorem HexOk.nil : HexOk [] := ⟨rfl, rfl⟩

theorem validHash_hexOk (v : Str) (h : validHash v = true) : HexOk v := by
  simp only [validHash, Bool.and_eq_true, beq_iff_eq] at h
  exact ⟨h.2, by rw [h.1]⟩

end Cascette.Proofs.Bpsv
