/-
Proofs/LruPersist — the persistence clause of C17 in history order (Spec/LruPersist):

* `step_pinv` / `trackRun_pinv`: along every history of the clause the directory satisfies
  `PInv`: the file written LAST is on disk with the table it was written from, no file on disk
  has a larger generation name, and a manager that is in step with the directory has a
  generation at least as large as every file's — so the next checkpoint it writes is again the
  newest file.  This is what `reset` (and every in-memory operation) must not disturb: they leave
  `generation` / `prev_generation` alone (`inmem_keeps_generation`).
* `latest_is_last_written`: hence `find_latest_lru_file` names the file written last;
* `shutdown` on the two model layers: `Model/LruPersist.seqShutdown` refines `Store.shutdown`,
  `ptrShutdown` refines `seqShutdown` (`xstep_sim2`, `xrun_sim2`), so the refinement chain
  pointer layer → sequence layer → textbook LRU extends to histories with `shutdown`.
-/
import Cascette.Model.LruPersist
import Cascette.Proofs.Lru
import Cascette.Proofs.LruRefine
namespace Cascette.Proofs.LruPersist
open Cascette.Spec.Lru
open Cascette.Model
open Cascette.Proofs.Lru

/-! ### files -/
section files
variable {σ : Type}

theorem latest_none {fs : Files σ} (h : Files.latest fs = none) : fs = [] := by
  cases fs with
  | nil => rfl
  | cons p rest =>
    obtain ⟨a, v⟩ := p
    unfold Files.latest at h
    split at h <;> cases h

/-- `find_latest_lru_file` answers an upper bound of the generations present. -/
theorem latest_ge {fs : Files σ} {m : Nat} (h : Files.latest fs = some m) : ∀ p ∈ fs, p.1 ≤ m := by
  induction fs generalizing m with
  | nil => intro p hp; cases hp
  | cons q rest ih =>
    obtain ⟨a, v⟩ := q
    unfold Files.latest at h
    intro p hp
    split at h
    · next hn =>
      cases h
      rcases List.mem_cons.mp hp with rfl | hp
      · exact Nat.le_refl _
      · rw [latest_none hn] at hp; cases hp
    · next m' hm =>
      cases h
      have := ih hm
      rcases List.mem_cons.mp hp with rfl | hp
      · show a ≤ _; split <;> omega
      · have := this p hp
        split <;> omega

/-- a file that is there and whose generation bounds every generation present is the one
`find_latest_lru_file` names. -/
theorem latest_eq_of_max {fs : Files σ} {g : Nat} {v : σ} (hl : Files.lookup fs g = some v)
    (hmax : ∀ p ∈ fs, p.1 ≤ g) : Files.latest fs = some g := by
  cases h : Files.latest fs with
  | none => rw [latest_none h] at hl; cases hl
  | some m =>
    have h1 := latest_ge h (g, v) (lookup_mem hl)
    obtain ⟨w, hw⟩ := latest_lookup h
    have h2 := hmax (m, w) (lookup_mem hw)
    have : m = g := by simp only at h1 h2; omega
    rw [this]

/-- removing files does not change what is read under a name that is kept. -/
theorem lookup_filter_keep (fs : Files σ) (q : Nat × σ → Bool) (g : Nat) (hq : ∀ v, q (g, v) = true) :
    Files.lookup (fs.filter q) g = Files.lookup fs g := by
  induction fs with
  | nil => rfl
  | cons p rest ih =>
    obtain ⟨a, v⟩ := p
    by_cases hqa : q (a, v) = true
    · rw [List.filter_cons_of_pos hqa]
      simp only [Files.lookup, ih]
    · rw [List.filter_cons_of_neg hqa]
      have : a ≠ g := fun e => hqa (e ▸ hq v)
      simp only [Files.lookup, this, if_false, ih]

theorem lookup_scan_self (fs : Files σ) (g p : Nat) :
    Files.lookup (Files.scan fs g p) g = Files.lookup fs g :=
  lookup_filter_keep fs _ g (fun _ => by simp)

end files

section spec
variable {κ : Type} [DecidableEq κ]

/-! ### what a checkpoint leaves on disk -/

theorem mem_ckpt (s : Store κ) {p : Nat × List κ} (hp : p ∈ (step s .checkpoint).1.files) :
    p = (s.gen, s.order) ∨ p ∈ s.files := by
  simp only [step] at hp
  split at hp
  · exact mem_write (mem_delete hp)
  · exact mem_write hp

theorem lookup_ckpt (s : Store κ) : Files.lookup (step s .checkpoint).1.files s.gen = some s.order := by
  simp only [step]
  split
  · next hp => rw [lookup_delete_ne _ _ _ hp.2]; exact lookup_write_self _ _ _
  · exact lookup_write_self _ _ _

/-! ### the invariant of the clause -/

/-- `n` bounds every generation in sight (so that `bump_generation` does not wrap: the clause is
about histories shorter than 2^64 operations). -/
structure PInv (s : Store κ) (t : Track κ) (n : Nat) : Prop where
  empty : t.last = none → s.files = []
  last : ∀ gl snap, t.last = some (gl, snap) →
    Files.lookup s.files gl = some snap ∧ ∀ p ∈ s.files, p.1 ≤ gl
  sync : t.sync = true → ∀ p ∈ s.files, p.1 ≤ s.gen
  bound : s.gen ≤ n ∧ ∀ p ∈ s.files, p.1 ≤ n

theorem pinv_init (cap : Nat) : PInv (Store.init cap : Store κ) Track.init 1 :=
  ⟨fun _ => rfl, fun _ _ h => (by cases h), fun _ p hp => (by cases hp), Nat.le_refl _, fun p hp => (by cases hp)⟩

/-- operations that touch neither the directory nor the generation counters keep the invariant. -/
theorem pinv_same {s s' : Store κ} {t : Track κ} {n : Nat} (h : PInv s t n) (hf : s'.files = s.files)
    (hg : s'.gen = s.gen) : PInv s' t (n + 1) := by
  refine ⟨fun h0 => hf ▸ h.empty h0, fun gl snap hl => hf ▸ h.last gl snap hl,
    fun hs => (by rw [hf, hg]; exact h.sync hs), (by rw [hg]; have := h.bound.1; omega), ?_⟩
  intro p hp
  have := h.bound.2 p (hf ▸ hp)
  omega

/-- touch / remove / evict_tail / evict_to_target / reset leave `generation`, `prev_generation`
and the directory exactly as they were — the clause `reset` must keep (a `reset` that re-ran the
constructor would put the counters back to 1 / 0 and break `PInv.sync`). -/
theorem inmem_keeps_generation (s : Store κ) (op : Op κ)
    (hop : (match op with
      | .touch _ | .remove _ | .evictTail | .evictTo _ _ | .reset => true
      | _ => false) = true) :
    (step s op).1.gen = s.gen ∧ (step s op).1.prev = s.prev ∧ (step s op).1.files = s.files := by
  cases op <;> first | exact ⟨rfl, rfl, rfl⟩ | cases hop

theorem nextGen_eq {g n : Nat} (hg : g ≤ n) (hn : n + 1 < 2 ^ 64) : nextGen g = g + 1 := by
  unfold nextGen
  split
  · omega
  · rfl

/-- one operation of the clause keeps the invariant. -/
theorem step_pinv {s : Store κ} {t : Track κ} {n : Nat} (o : XOp κ) (h : PInv s t n)
    (ha : allowed t o = true) (hn : n + 1 < 2 ^ 64) : PInv (xstep s o).1 (track s t o) (n + 1) := by
  have hb := h.bound
  cases o with
  | shutdown =>
    have hsync : t.sync = true := ha
    have hng := nextGen_eq hb.1 hn
    -- the three steps
    let s1 : Store κ := (step s .bump).1
    have hs1g : s1.gen = nextGen s.gen := rfl
    have hs1f : s1.files = s.files := rfl
    have hs1o : s1.order = s.order := rfl
    have hfiles : (xstep s (.shutdown)).1.files = Files.scan (step s1 .checkpoint).1.files s1.gen s1.prev := rfl
    have hgen : (xstep s (.shutdown)).1.gen = nextGen s.gen := rfl
    have hmem : ∀ p ∈ (xstep s (.shutdown)).1.files, p.1 ≤ nextGen s.gen := by
      intro p hp
      rw [hfiles] at hp
      rcases mem_ckpt s1 (mem_scan hp) with rfl | hp
      · exact Nat.le_refl _
      · have := h.sync hsync p (hs1f ▸ hp); omega
    refine ⟨fun h0 => (by cases h0), ?_, fun _ => (by rw [hgen]; exact hmem), (by rw [hgen]; omega), ?_⟩
    · intro gl snap hl
      have hl' : (nextGen s.gen, s.order) = (gl, snap) := Option.some.inj hl
      cases hl'
      refine ⟨?_, hmem⟩
      rw [hfiles, hs1g, lookup_scan_self, ← hs1g, ← hs1o]
      exact lookup_ckpt s1
    · intro p hp; have := hmem p hp; omega
  | op o =>
    cases o with
    | touch k => exact pinv_same h rfl rfl
    | remove k => exact pinv_same h rfl rfl
    | evictTail => exact pinv_same h rfl rfl
    | evictTo a b => exact pinv_same h rfl rfl
    | reset => exact pinv_same h rfl rfl
    | bump =>
      have hng := nextGen_eq hb.1 hn
      refine ⟨h.empty, h.last, ?_, ?_, ?_⟩
      · intro hs p hp
        have := h.sync hs p hp
        show p.1 ≤ nextGen s.gen
        omega
      · show nextGen s.gen ≤ n + 1
        omega
      · intro p hp; have := hb.2 p hp; omega
    | checkpoint =>
      have hsync : t.sync = true := ha
      have hmem : ∀ p ∈ (step s .checkpoint).1.files, p.1 ≤ s.gen := by
        intro p hp
        rcases mem_ckpt s hp with rfl | hp
        · exact Nat.le_refl _
        · exact h.sync hsync p hp
      refine ⟨fun h0 => (by cases h0), ?_, fun _ => hmem, (by show s.gen ≤ n + 1; omega), ?_⟩
      · intro gl snap hl
        have hl' : (s.gen, s.order) = (gl, snap) := Option.some.inj hl
        cases hl'
        exact ⟨lookup_ckpt s, hmem⟩
      · intro p hp; have := hmem p hp; omega
    | load g =>
      cases hl : Files.lookup s.files g with
      | none =>
        have e1 : (xstep s (.op (.load g))).1 = s := by simp only [xstep, step, hl]
        have e2 : track s t (.op (.load g)) = t := by simp only [track, hl]; rfl
        rw [e1, e2]
        exact pinv_same h rfl rfl
      | some snap =>
        have e1 : (xstep s (.op (.load g))).1 = { s with order := snap, gen := g } := by
          simp only [xstep, step, hl]
        have e2 : track s t (.op (.load g)) = { t with sync := decide (t.name = some g) } := by
          simp only [track, hl]; rfl
        rw [e1, e2]
        have hgn : g ≤ n := hb.2 (g, snap) (lookup_mem hl)
        refine ⟨h.empty, h.last, ?_, (by show g ≤ n + 1; omega), fun p hp => (by have := hb.2 p hp; omega)⟩
        intro hs p hp
        have hname : t.name = some g := of_decide_eq_true hs
        unfold Track.name at hname
        cases hlast : t.last with
        | none => rw [hlast] at hname; cases hname
        | some ls =>
          obtain ⟨gl, sn⟩ := ls
          rw [hlast] at hname
          have : gl = g := Option.some.inj hname
          subst this
          exact (h.last gl sn hlast).2 p hp
    | runCycle l a =>
      have e2 : track s t (.op (.runCycle l a)) = { t with sync := true } := rfl
      rw [e2]
      cases hlat : Files.latest s.files with
      | none =>
        have hnil := latest_none hlat
        have hf : (xstep s (.op (.runCycle l a))).1.files = [] := by
          simp only [xstep, step, hnil]; rfl
        have hg : (xstep s (.op (.runCycle l a))).1.gen = s.gen := by
          simp only [xstep, step, hlat]
        refine ⟨fun _ => hf, ?_, fun _ p hp => (by rw [hf] at hp; cases hp), (by rw [hg]; omega),
          fun p hp => (by rw [hf] at hp; cases hp)⟩
        intro gl snap hlast
        have := (h.last gl snap hlast).1
        rw [hnil] at this; cases this
      | some g =>
        obtain ⟨snap, hl⟩ := latest_lookup hlat
        have hge := latest_ge hlat
        have hf : (xstep s (.op (.runCycle l a))).1.files = Files.scan s.files g s.prev := by
          simp only [xstep, step, hlat, hl]
        have hg : (xstep s (.op (.runCycle l a))).1.gen = g := by
          simp only [xstep, step, hlat, hl]
        have hgn : g ≤ n := hb.2 (g, snap) (lookup_mem hl)
        refine ⟨?_, ?_, ?_, (by rw [hg]; omega), ?_⟩
        · intro h0
          have := h.empty h0
          rw [this] at hlat; cases hlat
        · intro gl sn hlast
          obtain ⟨h1, h2⟩ := h.last gl sn hlast
          have : Files.latest s.files = some gl := latest_eq_of_max h1 h2
          rw [hlat] at this
          have : g = gl := Option.some.inj this
          subst this
          rw [hf, lookup_scan_self]
          exact ⟨h1, fun p hp => h2 p (mem_scan hp)⟩
        · intro _ p hp
          rw [hf] at hp; rw [hg]
          exact hge p (mem_scan hp)
        · intro p hp
          rw [hf] at hp
          have := hb.2 p (mem_scan hp); omega
    | reopen =>
      refine ⟨h.empty, h.last, ?_, (by show 1 ≤ n + 1; omega), fun p hp => (by have := hb.2 p hp; omega)⟩
      intro hs p hp
      have hnone : t.last = none := by
        have : t.last.isNone = true := hs
        cases hl : t.last with
        | none => rfl
        | some x => rw [hl] at this; cases this
      have := h.empty hnone
      have hp' : p ∈ s.files := hp
      rw [this] at hp'; cases hp'

/-- whole histories of the clause. -/
theorem trackRun_pinv (ops : List (XOp κ)) : ∀ (s : Store κ) (t : Track κ) (n : Nat), PInv s t n →
    n + ops.length < 2 ^ 64 → ∀ r, trackRun s t ops = some r → PInv r.1 r.2 (n + ops.length) := by
  induction ops with
  | nil =>
    intro s t n h _ r hr
    cases hr
    exact h
  | cons o os ih =>
    intro s t n h hn r hr
    simp only [List.length_cons] at hn ⊢
    unfold trackRun at hr
    split at hr
    · next ha =>
      have h1 := step_pinv o h ha (by omega)
      have := ih _ _ (n + 1) h1 (by omega) r hr
      rw [show n + (os.length + 1) = n + 1 + os.length by omega]
      exact this
    · cases hr

/-- under the invariant `find_latest_lru_file` names the file written last, and that file holds
the table it was written from. -/
theorem latest_is_last_written {s : Store κ} {t : Track κ} {n : Nat} (h : PInv s t n) :
    Files.latest s.files = t.name ∧
    ∀ gl snap, t.last = some (gl, snap) → Files.lookup s.files gl = some snap := by
  refine ⟨?_, fun gl snap hl => (h.last gl snap hl).1⟩
  unfold Track.name
  cases hl : t.last with
  | none => rw [h.empty hl]; rfl
  | some ls =>
    obtain ⟨gl, snap⟩ := ls
    obtain ⟨h1, h2⟩ := h.last gl snap hl
    exact latest_eq_of_max h1 h2

/-- the store beside the ghost is the store of the plain run. -/
theorem trackRun_store (ops : List (XOp κ)) : ∀ (s : Store κ) (t : Track κ) r, trackRun s t ops = some r →
    r.1 = (xrun s ops).1 := by
  induction ops with
  | nil => intro s t r hr; cases hr; rfl
  | cons o os ih =>
    intro s t r hr
    unfold trackRun at hr
    split at hr
    · exact ih _ _ r hr
    · cases hr

/-- what `run_cycle limit avg` does when the checkpoint to restore holds `snap` (`none`: there is
nothing to restore, the table stays): the order afterwards and the statistics returned. -/
def cycleOf (cur : List κ) (snap : Option (List κ)) (limit avg : Nat) : List κ × Out :=
  let r := cycleEvict limit avg (snap.getD cur)
  (r.1, .cycle ((snap.map (·.length)).getD 0) r.2.1 r.2.2 r.1.length)

/-- under the invariant, `run_cycle` restores the checkpoint written last, and `load_from_disk`
of the name it was written under gives exactly that table. -/
theorem runCycle_restores_last {s : Store κ} {t : Track κ} {n : Nat} (h : PInv s t n) (limit avg : Nat) :
    ((step s (.runCycle limit avg)).1.order, (step s (.runCycle limit avg)).2) =
      cycleOf s.order (t.last.map (·.2)) limit avg ∧
    ∀ gl snap, t.last = some (gl, snap) → step s (.load gl) = ({ s with order := snap, gen := gl }, .ok) := by
  obtain ⟨hlat, hlook⟩ := latest_is_last_written h
  refine ⟨?_, fun gl snap hl => by simp only [step, hlook gl snap hl]⟩
  unfold Track.name at hlat
  cases hl : t.last with
  | none =>
    rw [hl] at hlat
    simp only [step, hlat, cycleOf, Option.map, Option.getD]
  | some ls =>
    obtain ⟨gl, snap⟩ := ls
    rw [hl] at hlat
    simp only [step, hlat, hlook gl snap hl, cycleOf, Option.map, Option.getD]

end spec

/-! ### `shutdown` on the sequence layer -/
section seq
variable {κ : Type} [DecidableEq κ]
open Cascette.Model.LruPersist
open Cascette.Model.LruSeq (Seq)

theorem seqScanDir_inv {s : Seq κ} (h : Inv s) : Inv (seqScanDir s) :=
  ⟨h.nodup, h.slots, fun p hp => h.files p (mem_scan hp)⟩

theorem seqShutdown_inv (zero : κ) {s : Seq κ} (h : Inv s) : Inv (seqShutdown zero s) :=
  seqScanDir_inv (step_inv zero .checkpoint (step_inv zero .bump h))

theorem seqShutdown_noZero (zero : κ) {s : Seq κ} (hz : NoZero zero s) : NoZero zero (seqShutdown zero s) := by
  have h2 := step_noZero zero .checkpoint (fun e => by cases e) (step_noZero zero .bump (fun e => by cases e) hz)
  exact ⟨h2.order, fun p hp => h2.files p (mem_scan hp)⟩

theorem seqXStep_inv (zero : κ) {s : Seq κ} (o : XOp κ) (h : Inv s) : Inv (seqXStep zero s o).1 := by
  cases o with
  | op o => exact step_inv zero o h
  | shutdown => exact seqShutdown_inv zero h

theorem seqXStep_noZero (zero : κ) {s : Seq κ} (o : XOp κ) (ho : o ≠ .op (.touch zero)) (hz : NoZero zero s) :
    NoZero zero (seqXStep zero s o).1 := by
  cases o with
  | op o => exact step_noZero zero o (fun e => ho (by rw [e])) hz
  | shutdown => exact seqShutdown_noZero zero hz

/-- one step of the sequence model, `shutdown` included = one step of the textbook store. -/
theorem seqXStep_refines (zero : κ) {s : Seq κ} (o : XOp κ) (h : Inv s) (hz : NoZero zero s) :
    xstep (abs s) o = (abs (seqXStep zero s o).1, (seqXStep zero s o).2) := by
  cases o with
  | op o => exact step_refines zero o h hz
  | shutdown => rfl

theorem seqXRun_refines (zero : κ) (ops : List (XOp κ)) {s : Seq κ} (h : Inv s) (hz : NoZero zero s)
    (hops : XOp.op (.touch zero) ∉ ops) :
    xrun (abs s) ops = (abs (seqXRun zero s ops).1, (seqXRun zero s ops).2) ∧
      Inv (seqXRun zero s ops).1 ∧ NoZero zero (seqXRun zero s ops).1 := by
  induction ops generalizing s with
  | nil => exact ⟨rfl, h, hz⟩
  | cons o os ih =>
    have ho : o ≠ .op (.touch zero) := fun e => hops (by rw [e]; exact List.mem_cons_self)
    have hrest : XOp.op (.touch zero) ∉ os := fun hm => hops (List.mem_cons_of_mem _ hm)
    obtain ⟨h1, h2, h3⟩ := ih (seqXStep_inv zero o h) (seqXStep_noZero zero o ho hz) hrest
    refine ⟨?_, h2, h3⟩
    simp only [xrun, seqXRun, seqXStep_refines zero o h hz, h1]

end seq

/-! ### `shutdown` on the pointer layer -/
section ptr
open Cascette.Model.LruPersist
open Cascette.Model.LruPtr
open Cascette.Model.LruSeq (Seq)
open Cascette.Proofs.LruRefine

theorem scan_sim2 (md5 : Bytes → Bytes) {s : Ptr} {q : Seq Key} (h : Sim2 md5 s q) :
    Sim2 md5 (ptrScanDir s) (seqScanDir q) := by
  have hg : q.gen = s.gen := by obtain ⟨_, _, _, _, _, hg, _⟩ := h.sim; exact hg
  have hp : q.prev = s.prev := by obtain ⟨_, _, _, _, _, _, hp⟩ := h.sim; exact hp
  refine ⟨sim_set_files h.sim _ _, ?_, ?_, h.keys9, ⟨h.noZero.order, fun p hp => h.noZero.files p (mem_scan hp)⟩⟩
  · show Files.scan q.files q.gen q.prev = mapF (snapOf md5) (Files.scan s.files s.gen s.prev)
    rw [← scan_mapF, h.files, hg, hp]
  · intro p hp
    exact h.good p (mem_scan hp)

/-- `shutdown` (bump, checkpoint through the real codec, scan) keeps the simulation. -/
theorem shutdown_sim2 (md5 : Bytes → Bytes) (hmd5 : ∀ x, (md5 x).length = 16) (s : Ptr) (q : Seq Key)
    (h : Sim2 md5 s q) : Sim2 md5 (ptrShutdown md5 s) (seqShutdown zeroKey q) := by
  obtain ⟨s1, hs1, hb⟩ := step_sim2_mem md5 s q .bump h (fun k hk => by cases hk) rfl (fun e => by cases e)
  have : s1 = bump s := by
    have : some (bump s, Out.ok) = some (s1, (LruSeq.step zeroKey q .bump).2) := hs1
    cases this; rfl
  subst this
  exact scan_sim2 md5 (checkpoint_sim2 md5 hmd5 (bump s) _ hb)

/-- key-level side condition on a history with `shutdown`. -/
def XKeysOk (ops : List (XOp Key)) : Prop := ∀ o ∈ ops, ∀ b, o = .op b → OpOk b

theorem xstep_sim2 (md5 : Bytes → Bytes) (hmd5 : ∀ x, (md5 x).length = 16) (s : Ptr) (q : Seq Key)
    (o : XOp Key) (h : Sim2 md5 s q) (hok : ∀ b, o = .op b → OpOk b) :
    ∃ s', ptrXStep md5 s o = some (s', (seqXStep zeroKey q o).2) ∧ Sim2 md5 s' (seqXStep zeroKey q o).1 := by
  cases o with
  | op b => exact step_sim2 md5 hmd5 s q b h (hok b rfl)
  | shutdown => exact ⟨ptrShutdown md5 s, rfl, shutdown_sim2 md5 hmd5 s q h⟩

theorem xrun_sim2 (md5 : Bytes → Bytes) (hmd5 : ∀ x, (md5 x).length = 16) (ops : List (XOp Key)) (s : Ptr)
    (q : Seq Key) (h : Sim2 md5 s q) (hops : XKeysOk ops) :
    ∃ s', ptrXRun md5 s ops = some (s', (seqXRun zeroKey q ops).2) ∧ Sim2 md5 s' (seqXRun zeroKey q ops).1 := by
  induction ops generalizing s q with
  | nil => exact ⟨s, rfl, h⟩
  | cons o os ih =>
    obtain ⟨s1, h1, hs1⟩ := xstep_sim2 md5 hmd5 s q o h (hops o List.mem_cons_self)
    obtain ⟨s2, h2, hs2⟩ := ih s1 _ hs1 (fun o ho => hops o (List.mem_cons_of_mem _ ho))
    exact ⟨s2, by simp only [ptrXRun, h1, h2, seqXRun], hs2⟩

theorem xkeysOk_noZero {ops : List (XOp Key)} (h : XKeysOk ops) : XOp.op (.touch zeroKey) ∉ ops :=
  fun hm => ((h _ hm _ rfl) zeroKey rfl).2 rfl

end ptr
end Cascette.Proofs.LruPersist
