/-
Proofs/TvfsTables — the TVFS tables behind the path table (Model/TvfsTables): the builder's widening
loop ends in a header consistent with the entry size it used; container-table and VFS-table round
trips at byte level; and their composition: every VFS offset the builder hands to the path tree
resolves to exactly that file's record, for every flag combination.
-/
import Cascette.Model.TvfsTables
namespace Cascette.Proofs.TvfsTables
open Cascette.Model.TvfsPath Cascette.Model.TvfsTables

theorem offsSize_range (n : Nat) : 1 ≤ offsSize n ∧ offsSize n ≤ 4 := by
  unfold offsSize
  repeat' split
  all_goals omega

theorem offsSize_mono (a b : Nat) (h : a ≤ b) : offsSize a ≤ offsSize b := by
  unfold offsSize
  repeat' split
  all_goals omega

/-- a table of `n` bytes is addressed by offsets below `256 ^ offsSize n` -/
theorem offsSize_fits (n : Nat) (hn : n < 4294967296) : n < 256 ^ offsSize n := by
  unfold offsSize
  repeat' split
  all_goals omega

/-- the part of the container entry size that does not depend on `cft_table_size` -/
def base (h : Hdr) : Nat := 9 + 4 + (if h.fl.ckey then 9 else 0) + (if h.fl.est then h.estOffs else 0)

theorem entrySize_eq (h : Hdr) : h.entrySize = base h + (if h.fl.patch then h.cftOffs else 0) := rfl

theorem base_le (h : Hdr) : 13 ≤ base h ∧ base h ≤ 26 := by
  have := offsSize_range h.estSize
  unfold base Hdr.estOffs
  repeat' split
  all_goals omega

theorem widen_inv (n : Nat) (hn : n * 30 < 4294967296) : ∀ (fuel : Nat) (h : Hdr) (e : Nat),
    h.fl.patch = true → base h + 1 ≤ e → e ≤ base h + 4 →
    e ≤ ({ h with cftSize := n * e } : Hdr).entrySize → 5 ≤ (e - base h) + fuel →
    (widen n fuel h e).1.entrySize = (widen n fuel h e).2 ∧ (widen n fuel h e).1.cftSize = n * (widen n fuel h e).2 ∧
    (widen n fuel h e).1.fl = h.fl ∧ (widen n fuel h e).1.estSize = h.estSize := by
  intro fuel
  induction fuel with
  | zero => intro h e _ _ _ _ _; omega
  | succ fuel ih =>
    intro h e hp hlo hhi hmono hfuel
    have hb := base_le h
    have hmod : n * e % 4294967296 = n * e := Nat.mod_eq_of_lt (by
      have : n * e ≤ n * 30 := Nat.mul_le_mul_left n (by omega)
      omega)
    unfold widen
    simp only [hmod]
    split
    · rename_i heq
      exact ⟨heq, rfl, rfl, rfl⟩
    · rename_i hne
      let h' : Hdr := { h with cftSize := n * e }
      have hb' : base h' = base h := rfl
      have he1 : h'.entrySize = base h + offsSize (n * e) := by
        rw [entrySize_eq]; simp [h', hp, Hdr.cftOffs, base, Hdr.estOffs]
      have hr := offsSize_range (n * e)
      have := ih h' h'.entrySize hp (by rw [hb', he1]; omega) (by rw [hb', he1]; omega)
        (by
          show h'.entrySize ≤ ({ h' with cftSize := n * h'.entrySize } : Hdr).entrySize
          have : ({ h' with cftSize := n * h'.entrySize } : Hdr).entrySize = base h + offsSize (n * h'.entrySize) := by
            rw [entrySize_eq]; simp [h', hp, Hdr.cftOffs, base, Hdr.estOffs]
          rw [this, he1]
          have : n * e ≤ n * (base h + offsSize (n * e)) := Nat.mul_le_mul_left n (by rw [← he1]; exact hmono)
          have := offsSize_mono _ _ this
          omega)
        (by
          rw [hb']
          have : e < h'.entrySize := Nat.lt_of_le_of_ne hmono (fun x => hne x.symm)
          omega)
      exact this

/-- **The widening loop reaches a consistent header**: the entry size the builder uses for the stored
offsets is the entry size `cft_entry_size()` gives under the header it leaves, and that header's
`cft_table_size` is `n` entries of that size — for every flag combination and EST size. -/
theorem widen_fixed (n : Nat) (hn : n * 30 < 4294967296) (h0 : Hdr) (hc : h0.cftSize = 0) :
    (widen n 4 h0 h0.entrySize).1.entrySize = (widen n 4 h0 h0.entrySize).2 ∧
    (widen n 4 h0 h0.entrySize).1.cftSize = n * (widen n 4 h0 h0.entrySize).2 ∧
    (widen n 4 h0 h0.entrySize).1.fl = h0.fl ∧ (widen n 4 h0 h0.entrySize).1.estSize = h0.estSize := by
  have hb := base_le h0
  cases hp : h0.fl.patch with
  | true =>
    have he0 : h0.entrySize = base h0 + 1 := by
      rw [entrySize_eq]; simp [hp, Hdr.cftOffs, hc, offsSize]
    refine widen_inv n hn 4 h0 h0.entrySize hp (by omega) (by omega) ?_ (by omega)
    have : ({ h0 with cftSize := n * h0.entrySize } : Hdr).entrySize = base h0 + offsSize (n * h0.entrySize) := by
      rw [entrySize_eq]; simp [hp, Hdr.cftOffs, base, Hdr.estOffs]
    have hr := offsSize_range (n * h0.entrySize)
    omega
  | false =>
    have hmod : n * h0.entrySize % 4294967296 = n * h0.entrySize := Nat.mod_eq_of_lt (by
      have : h0.entrySize = base h0 := by rw [entrySize_eq]; simp [hp]
      have : n * h0.entrySize ≤ n * 30 := Nat.mul_le_mul_left n (by omega)
      omega)
    have hsame : ({ h0 with cftSize := n * h0.entrySize } : Hdr).entrySize = h0.entrySize := by
      rw [entrySize_eq, entrySize_eq]; simp [hp, base, Hdr.estOffs]
    unfold widen
    simp [hmod, hsame]


/-! ### byte codecs -/

theorem be32_length (n : Nat) : (be32 n).length = 4 := rfl

theorem beN_length (w n : Nat) (hw : w ≤ 4) : (beN w n).length = w := by
  unfold beN; rw [List.length_drop, be32_length]; omega

theorem fit9_length (k : Bytes) : (fit9 k).length = 9 := by
  unfold fit9; split
  · rw [List.length_take]; omega
  · rw [List.length_append, List.length_replicate]; omega

theorem rdBe_be32 (x : Nat) (h : x < 4294967296) : rdBe (be32 x) = x := by
  simp only [rdBe, be32, List.foldl]; omega

theorem rdBe_beN (w x : Nat) (h1 : 1 ≤ w) (h4 : w ≤ 4) : rdBe (beN w x) = x % 256 ^ w := by
  have : w = 1 ∨ w = 2 ∨ w = 3 ∨ w = 4 := by omega
  rcases this with rfl | rfl | rfl | rfl <;>
    simp only [rdBe, beN, be32, Nat.reduceSub, List.drop_succ_cons, List.drop_zero, List.foldl_cons, List.foldl_nil] <;> omega

theorem shorter_iff (l : Bytes) (n : Nat) : shorter l n = decide (l.length < n) := by
  unfold shorter; rw [List.length_take]
  by_cases h : l.length < n
  · simp [h]; omega
  · simp [h]; omega

theorem take_app {α : Type} (a r : List α) (n : Nat) (h : a.length = n) : (a ++ r).take n = a := by
  subst h; simp
theorem drop_app {α : Type} (a r : List α) (n : Nat) (h : a.length = n) : (a ++ r).drop n = r := by
  subst h; simp

/-! ### container file table -/

theorem ckeyField_length (f : FileRec) : (ckeyField f).length = 9 := by
  unfold ckeyField; split
  · exact fit9_length _
  · simp

/-- what `resolve_path` must return for an inserted file: the record as inserted, in the fields the
flags keep (EKey / content key cut or zero-padded to 9 bytes, EST index in its field width) -/
def storedC (h : Hdr) (off : Nat) (f : FileRec) : CEntry :=
  { off := off, ekey := fit9 f.ekey, esize := f.esize
    ckey := if h.fl.ckey then some (ckeyField f) else none
    est := if h.fl.est then some (f.est.getD 0 % 256 ^ h.estOffs) else none
    patch := if h.fl.patch then some 0 else none }

theorem cftWrite_eq (h : Hdr) (f : FileRec) : cftWrite h f =
    fit9 f.ekey ++ (be32 f.esize ++ ((if h.fl.ckey then ckeyField f else []) ++
      ((if h.fl.est then beN h.estOffs (f.est.getD 0) else []) ++ (if h.fl.patch then beN h.cftOffs 0 else [])))) := by
  unfold cftWrite; simp only [List.append_assoc]

theorem cftWrite_length (h : Hdr) (f : FileRec) : (cftWrite h f).length = h.entrySize := by
  have he := offsSize_range h.estSize
  have hc := offsSize_range h.cftSize
  rw [cftWrite_eq]
  simp only [List.length_append, fit9_length, be32_length, Hdr.entrySize]
  have h1 : (if h.fl.ckey then ckeyField f else []).length = if h.fl.ckey then 9 else 0 := by
    split <;> simp [ckeyField_length]
  have h2 : (if h.fl.est then beN h.estOffs (f.est.getD 0) else []).length = if h.fl.est then h.estOffs else 0 := by
    split <;> simp [beN_length _ _ he.2, Hdr.estOffs]
  have h3 : (if h.fl.patch then beN h.cftOffs 0 else []).length = if h.fl.patch then h.cftOffs else 0 := by
    split <;> simp [beN_length _ _ hc.2, Hdr.cftOffs]
  rw [h1, h2, h3]; omega

theorem cftRead_write (h : Hdr) (off : Nat) (f : FileRec) (rest : Bytes) (hs : f.esize < 4294967296) :
    cftReadEntry h off (cftWrite h f ++ rest) = storedC h off f := by
  have he : 1 ≤ h.estOffs ∧ h.estOffs ≤ 4 := offsSize_range h.estSize
  have hc : 1 ≤ h.cftOffs ∧ h.cftOffs ≤ 4 := offsSize_range h.cftSize
  rw [cftWrite_eq]
  simp only [List.append_assoc]
  unfold cftReadEntry storedC
  have d13 : ∀ (t : Bytes), (fit9 f.ekey ++ (be32 f.esize ++ t)).drop 13 = t := by
    intro t
    rw [show (13 : Nat) = 9 + 4 from rfl, ← List.drop_drop, drop_app _ _ 9 (fit9_length _), drop_app _ _ 4 (be32_length _)]
  simp only [d13, take_app _ _ 9 (fit9_length _), drop_app _ _ 9 (fit9_length _), take_app _ _ 4 (be32_length _), rdBe_be32 _ hs]
  cases hck : h.fl.ckey <;> cases hes : h.fl.est <;> cases hpa : h.fl.patch <;>
    simp [take_app _ _ 9 (ckeyField_length f), drop_app _ _ 9 (ckeyField_length f),
      take_app _ _ _ (beN_length h.estOffs (f.est.getD 0) he.2), drop_app _ _ _ (beN_length h.estOffs (f.est.getD 0) he.2),
      take_app _ _ _ (beN_length h.cftOffs 0 hc.2), rdBe_beN _ _ he.1 he.2, rdBe_beN _ _ hc.1 hc.2]

/-- the entries `ContainerFileTable::parse` must list: file `i` at offset `off + i * entry_size` -/
def storedFrom (h : Hdr) : Nat → List FileRec → List CEntry
  | _, [] => []
  | off, f :: fs => storedC h off f :: storedFrom h (off + h.entrySize) fs

theorem entrySize_pos (h : Hdr) : 13 ≤ h.entrySize := by unfold Hdr.entrySize; omega

/-- **Container table round trip**: parsing the serialized entries under the same header lists
exactly the inserted records at their offsets. -/
theorem cftParse_build (h : Hdr) : ∀ (fs : List FileRec) (off fuel : Nat), (∀ f ∈ fs, f.esize < 4294967296) →
    fs.length < fuel → cftParse h fuel off (fs.flatMap (cftWrite h)) = storedFrom h off fs := by
  intro fs
  induction fs with
  | nil =>
    intro off fuel _ hf
    cases fuel with
    | zero => omega
    | succ fuel =>
      have := entrySize_pos h
      simp [cftParse, storedFrom, shorter_iff]; omega
  | cons f fs ih =>
    intro off fuel hsz hf
    cases fuel with
    | zero => omega
    | succ fuel =>
      simp only [List.flatMap_cons, cftParse, storedFrom, shorter_iff]
      have hl := cftWrite_length h f
      rw [if_neg (by simp [List.length_append, hl])]
      rw [cftRead_write h off f _ (hsz f (by simp)), drop_app _ _ _ hl]
      rw [ih (off + h.entrySize) fuel (fun g hg => hsz g (by simp [hg])) (by simp at hf; omega)]


/-! ### VFS table -/

theorem vfsWrite_length (w cs co : Nat) (hw : w ≤ 4) : (vfsWrite w cs co).length = 9 + w := by
  simp [vfsWrite, be32_length, beN_length _ _ hw]; omega

/-- the entries `VfsTable::parse` must list: item `i` at offset `pos + i * (9 + w)` with one span
(file offset 0, the content size, the CFT offset in its field width) -/
def vfsStored {α : Type} (w : Nat) (cs co : α → Nat) : Nat → List α → List VEntry
  | _, [] => []
  | pos, a :: r => ⟨pos, [(0, cs a, co a % 256 ^ w)]⟩ :: vfsStored w cs co (pos + (9 + w)) r

/-- **VFS table round trip**: parsing the serialized one-span entries under the same offset width
lists exactly the written entries at their offsets. -/
theorem vfsLoop_build {α : Type} (w : Nat) (h1 : 1 ≤ w) (h4 : w ≤ 4) (cs co : α → Nat) :
    ∀ (l : List α) (pos fuel : Nat), (∀ a ∈ l, cs a < 4294967296) → l.length < fuel →
    vfsLoop w fuel pos (l.flatMap fun a => vfsWrite w (cs a) (co a)) = some (vfsStored w cs co pos l) := by
  intro l
  induction l with
  | nil =>
    intro pos fuel _ hf
    cases fuel with
    | zero => omega
    | succ fuel => simp [vfsLoop, vfsStored]
  | cons a r ih =>
    intro pos fuel hsz hf
    cases fuel with
    | zero => omega
    | succ fuel =>
      have hrest := ih (pos + (9 + w)) fuel (fun b hb => hsz b (by simp [hb])) (by simp at hf; omega)
      have hlen : (be32 0 ++ (be32 (cs a) ++ beN w (co a))).length = 8 + w := by
        simp only [List.length_append, be32_length, beN_length _ _ h4]; omega
      have hl : (l' : Bytes) → vfsWrite w (cs a) (co a) ++ l' = 1 :: ((be32 0 ++ (be32 (cs a) ++ beN w (co a))) ++ l') := by
        intro l'; simp [vfsWrite]
      rw [List.flatMap_cons, hl]
      simp only [vfsLoop, shorter_iff, Nat.one_mul]
      rw [if_neg (by omega), if_neg (by omega), if_neg (by simp only [List.length_append, hlen, decide_eq_true_eq]; omega)]
      rw [drop_app _ _ _ hlen, show pos + 1 + (8 + w) = pos + (9 + w) from by omega, hrest]
      simp only [Option.map_some, vfsStored, Option.some.injEq, List.cons.injEq, and_true]
      congr 1
      simp only [readSpans, List.append_assoc]
      rw [take_app _ _ 4 (be32_length _), drop_app _ _ 4 (be32_length _), take_app _ _ 4 (be32_length _),
        show (8 : Nat) = 4 + 4 from rfl, ← List.drop_drop, drop_app _ _ 4 (be32_length _), drop_app _ _ 4 (be32_length _),
        take_app _ _ w (beN_length _ _ h4), rdBe_be32 _ (by omega), rdBe_be32 _ (hsz a (by simp)), rdBe_beN _ _ h1 h4]


/-! ### lookups by offset -/

theorem find_vfsStored {α : Type} (w : Nat) (cs co : α → Nat) : ∀ (l : List α) (pos i : Nat) (hi : i < l.length),
    (vfsStored w cs co pos l).find? (fun e => e.off == pos + i * (9 + w)) =
      some ⟨pos + i * (9 + w), [(0, cs l[i], co l[i] % 256 ^ w)]⟩ := by
  intro l
  induction l with
  | nil => intro pos i hi; simp at hi
  | cons a r ih =>
    intro pos i hi
    cases i with
    | zero => simp [vfsStored]
    | succ i =>
      have hne : ¬ pos = pos + (i + 1) * (9 + w) := by rw [Nat.succ_mul]; omega
      have hbf : (pos == pos + (i + 1) * (9 + w)) = false := by rw [beq_eq_false_iff_ne]; exact hne
      simp only [vfsStored, List.find?_cons, hbf]
      have := ih (pos + (9 + w)) i (by simpa using hi)
      rw [show pos + (9 + w) + i * (9 + w) = pos + (i + 1) * (9 + w) from by rw [Nat.succ_mul]; omega] at this
      simpa using this

theorem find_storedFrom (h : Hdr) : ∀ (fs : List FileRec) (off i : Nat) (hi : i < fs.length),
    (storedFrom h off fs).find? (fun e => e.off == off + i * h.entrySize) = some (storedC h (off + i * h.entrySize) fs[i]) := by
  intro fs
  induction fs with
  | nil => intro off i hi; simp at hi
  | cons f r ih =>
    intro off i hi
    have hpos := entrySize_pos h
    cases i with
    | zero => simp [storedFrom, storedC]
    | succ i =>
      have hne : ¬ off = off + (i + 1) * h.entrySize := by rw [Nat.succ_mul]; omega
      simp only [storedFrom, List.find?_cons]
      rw [show ((storedC h off f).off == off + (i + 1) * h.entrySize) = false from by
        rw [beq_eq_false_iff_ne]; exact hne]
      have := ih (off + h.entrySize) i (by simpa using hi)
      rw [show off + h.entrySize + i * h.entrySize = off + (i + 1) * h.entrySize from by rw [Nat.succ_mul]; omega] at this
      simpa using this

theorem flatMap_length_const {α : Type} (g : α → Bytes) (k : Nat) (hk : ∀ a, (g a).length = k) :
    ∀ l : List α, (l.flatMap g).length = l.length * k := by
  intro l
  induction l with
  | nil => simp
  | cons a r ih => simp only [List.flatMap_cons, List.length_append, hk, ih, List.length_cons, Nat.succ_mul]; omega

theorem hdr_eta (h : Hdr) (c : Nat) (hc : c = h.cftSize) : ({ h with cftSize := c } : Hdr) = h := by
  subst hc; cases h; rfl

/-- **The builder's tables resolve every file**: for every flag combination (INCLUDE_CKEY,
ENCODING_SPEC, PATCH_SUPPORT), any EST and any number of files (below 2^32/30), after
build → serialize → parse the VFS offset `i * (9 + w)` that the builder puts into the path tree for
the `i`-th file (in path order) leads — VFS entry at that offset, its span, container entry at the
span's offset — to exactly that file's record as inserted, under a parsed header whose entry size and
offset width are the ones the builder used. -/
theorem tables_resolve (flags : Nat) (specs : List Bytes) (input : List FileRec) (b : Built)
    (hb : buildParse flags specs input = .ok b) (hn : input.length * 30 < 4294967296)
    (hsz : ∀ f ∈ input, f.esize < 4294967296 ∧ f.csize < 4294967296) :
    let files := sortFiles input
    let lay := layout (Flags.ofNat flags) (((estBytes (Flags.ofNat flags) specs).map (·.length)).getD 0) files.length
    b.hdr = lay.1 ∧ b.hdr.entrySize = lay.2 ∧
    ∀ (i : Nat) (hi : i < files.length),
      b.resolveOff (i * (9 + lay.1.cftOffs)) = some (storedC b.hdr (i * lay.2) files[i]) := by
  intro files lay
  have hlenf : files.length = input.length := by simp [files, sortFiles, List.length_mergeSort]
  have hmem : ∀ f ∈ files, f ∈ input := by intro f hf; simpa [files, sortFiles, List.mem_mergeSort] using hf
  obtain ⟨hfix, hcft, hfl, hest⟩ := widen_fixed files.length (by omega)
    { fl := Flags.ofNat flags, cftSize := 0, estSize := ((estBytes (Flags.ofNat flags) specs).map (·.length)).getD 0 } rfl
  change lay.1.entrySize = lay.2 at hfix
  change lay.1.cftSize = files.length * lay.2 at hcft
  -- the two re-serializations leave the header unchanged
  have hl1 : (files.flatMap (cftWrite lay.1)).length = lay.1.cftSize := by
    rw [flatMap_length_const _ _ (cftWrite_length lay.1), hfix, hcft]
  have h2 : ({ lay.1 with cftSize := (files.flatMap (cftWrite lay.1)).length } : Hdr) = lay.1 := hdr_eta _ _ hl1
  unfold buildParse at hb
  simp only [] at hb
  change (match parseTable _ with | .error e => _ | .ok pf => _) = _ at hb
  split at hb
  · cases hb
  · rename_i pf hpf
    rw [h2, h2] at hb
    have hw := offsSize_range lay.1.cftSize
    have hvfs := vfsLoop_build lay.1.cftOffs hw.1 hw.2 (fun (p : FileRec × Nat) => p.1.csize) (fun p => p.2 * lay.2)
      files.zipIdx 0 ((files.zipIdx.flatMap fun p => vfsWrite lay.1.cftOffs p.1.csize (p.2 * lay.2)).length + 1)
      (by intro p hp; exact (hsz p.1 (hmem p.1 (by
            have := List.mem_zipIdx hp; rw [this.2.2]; exact List.getElem_mem _))).2)
      (by
        rw [flatMap_length_const _ (9 + lay.1.cftOffs) (fun p => vfsWrite_length _ _ _ hw.2)]
        have : files.zipIdx.length ≤ files.zipIdx.length * (9 + lay.1.cftOffs) := Nat.le_mul_of_pos_right _ (by omega)
        omega)
    rw [hvfs] at hb
    simp only [Except.ok.injEq] at hb
    have hcftp := cftParse_build lay.1 files 0 ((files.flatMap (cftWrite lay.1)).length + 1)
      (fun f hf => (hsz f (hmem f hf)).1)
      (by
        rw [flatMap_length_const _ _ (cftWrite_length lay.1)]
        have : files.length ≤ files.length * lay.1.entrySize := Nat.le_mul_of_pos_right _ (by have := entrySize_pos lay.1; omega)
        omega)
    rw [hcftp] at hb
    subst hb
    refine ⟨rfl, hfix, ?_⟩
    intro i hi
    have hiz : i < files.zipIdx.length := by simpa using hi
    have hv := find_vfsStored lay.1.cftOffs (fun (p : FileRec × Nat) => p.1.csize) (fun p => p.2 * lay.2) files.zipIdx 0 i hiz
    have hc := find_storedFrom lay.1 files 0 i hi
    simp only [Nat.zero_add] at hv hc
    have hget : files.zipIdx[i] = (files[i], i) := by simp
    -- the stored CFT offset fits its field
    have hfit : i * lay.2 % 256 ^ lay.1.cftOffs = i * lay.2 := Nat.mod_eq_of_lt (by
      have h1 : i * lay.2 < files.length * lay.2 := Nat.mul_lt_mul_of_pos_right hi (by have := entrySize_pos lay.1; omega)
      have h2 : lay.1.cftSize < 256 ^ offsSize lay.1.cftSize := offsSize_fits _ (by
        rw [hcft]
        have : lay.2 ≤ 30 := by
          have := base_le lay.1; have := offsSize_range lay.1.cftSize
          rw [← hfix, entrySize_eq]; unfold Hdr.cftOffs; split <;> omega
        have : files.length * lay.2 ≤ files.length * 30 := Nat.mul_le_mul_left _ this
        omega)
      unfold Hdr.cftOffs; omega)
    simp only [Built.resolveOff, hv, hget, List.head?_cons, hfit]
    rw [← hfix]
    exact hc

end Cascette.Proofs.TvfsTables
