/-
Proofs/Archive — lemmas about Model/Archive: what a write appends, when a read succeeds, that a
stored entry stays readable under later appends, and that `read_content` of a stored entry
returns the content whatever the content looks like.
-/
import Cascette.Model.Archive
import Cascette.Proofs.Blte
namespace Cascette.Proofs.Archive
open Cascette
open Cascette.Model.Archive
open Cascette.Model.Blte (Mode Codec Chunk magic serialize decodePlainBytes)
open Cascette.Proofs.Blte (Lawful)

/-- `b` is a BLTE image that `BlteFile::parse(b)?.decompress()` maps to `d`. -/
def GoodBlte (cd : Codec) (b d : Bytes) : Prop :=
  decodePlainBytes cd b = .ok d ∧ b.take 4 = magic

/-- the image of a single uncompressed chunk: `BLTE`, header size 0, `N`, the data. -/
def blteN (d : Bytes) : Bytes := serialize ⟨0, none, [⟨.none, d, some d.length⟩]⟩

theorem blteN_eq (d : Bytes) : blteN d = [0x42, 0x4C, 0x54, 0x45, 0, 0, 0, 0, 0x4E] ++ d := by
  have e0 : Cascette.Model.Blte.beBytes 4 0 = [0, 0, 0, 0] := by decide
  simp [blteN, serialize, magic, e0, Chunk.bytes, Mode.byte]

theorem blteN_length (d : Bytes) : (blteN d).length = 9 + d.length := by
  rw [blteN_eq]; simp; omega

theorem blteOf_none (cd : Codec) (d : Bytes) : blteOf cd d .none = .ok (blteN d) := by
  simp [blteOf, Chunk.new, blteN]

/-- every image `compress_blte_with_mode` builds starts with the magic, has at least 9 bytes and
decodes to the data (zlib / LZ4 under the round-trip law). -/
theorem blteOf_good (cd : Codec) (law : Lawful cd) (d : Bytes) (m : Mode) (b : Bytes)
    (h : blteOf cd d m = .ok b) : GoodBlte cd b d ∧ 9 ≤ b.length := by
  have key : ∀ c : Chunk, Chunk.new cd d m = .ok c → m ≠ .enc →
      GoodBlte cd (serialize ⟨0, none, [c]⟩) d ∧ 9 ≤ (serialize ⟨0, none, [c]⟩).length := by
    intro c hc hne
    have hg := Cascette.Proofs.Blte.chunkNew_good cd law (fun _ => none) d m c 0 hc
    have hm : c.mode = m := by
      unfold Chunk.new at hc
      split at hc
      · simp only [Except.ok.injEq] at hc; subst hc; rfl
      · split at hc
        · simp only [Except.ok.injEq] at hc; subst hc; rfl
        · cases hc
    have hdec : Cascette.Model.Blte.decompressChunk cd c.data c.mode = .ok d := by
      have := hg.1
      simp only [Cascette.Model.Blte.decodeChunk, hm, hne, if_false] at this
      rw [hm]; exact this
    refine ⟨⟨?_, ?_⟩, ?_⟩
    · simp only [decodePlainBytes, Cascette.Proofs.Blte.parse_serialize_single,
        Cascette.Model.Blte.decodePlain, Cascette.Model.Blte.decodePlainFrom,
        Cascette.Proofs.Blte.strip, hdec, List.append_nil]
    · simp [serialize, magic]
    · have e0 : Cascette.Model.Blte.beBytes 4 0 = [0, 0, 0, 0] := by decide
      simp [serialize, magic, e0, Chunk.bytes]
  unfold blteOf at h
  split at h
  · cases h
  · cases h
  · rename_i m' h1 h2
    split at h
    · cases h
    · rename_i c hc
      simp only [Except.ok.injEq] at h
      subst h
      exact key c hc (fun he => h1 he)

theorem blteOf_len (cd : Codec) (d : Bytes) (m : Mode) (b : Bytes) (h : blteOf cd d m = .ok b) :
    9 ≤ b.length := by
  have e0 : Cascette.Model.Blte.beBytes 4 0 = [0, 0, 0, 0] := by decide
  unfold blteOf at h
  split at h
  · cases h
  · cases h
  · split at h
    · cases h
    · simp only [Except.ok.injEq] at h
      subst h
      simp [serialize, magic, e0, Chunk.bytes]

theorem goodBlte_blteN (cd : Codec) (d : Bytes) : GoodBlte cd (blteN d) d := by
  have law : Lawful ⟨fun _ _ => none, fun _ _ => none⟩ := by intro m x c h; cases h
  constructor
  · simp only [decodePlainBytes, blteN, Cascette.Proofs.Blte.parse_serialize_single,
      Cascette.Model.Blte.decodePlain, Cascette.Model.Blte.decodePlainFrom,
      Cascette.Proofs.Blte.strip, Cascette.Model.Blte.decompressChunk, List.append_nil]
  · rw [blteN_eq]; rfl

/-! ### entries inside a file -/

/-- the range `[off, off+size)` of `file` holds a local header followed by a BLTE image of `d`. -/
def Stored (cd : Codec) (file : Bytes) (off size : Nat) (d : Bytes) : Prop :=
  off + size ≤ file.length ∧
    ∃ h b, h.length = headerSize ∧ (file.drop off).take size = h ++ b ∧ GoodBlte cd b d

theorem slice_append (file x : Bytes) (off size : Nat) (h : off + size ≤ file.length) :
    ((file ++ x).drop off).take size = (file.drop off).take size := by
  rw [List.drop_append_of_le_length (by omega), List.take_append_of_le_length]
  simp only [List.length_drop]; omega

/-- appending to the file keeps every stored entry. -/
theorem stored_append {cd : Codec} {file : Bytes} {off size : Nat} {d : Bytes} (x : Bytes)
    (h : Stored cd file off size d) : Stored cd (file ++ x) off size d := by
  obtain ⟨h1, hd, b, h2, h3, h4⟩ := h
  refine ⟨by simp only [List.length_append]; omega, hd, b, h2, ?_, h4⟩
  rw [slice_append file x off size h1, h3]

/-- the entry just appended is stored. -/
theorem stored_new {cd : Codec} (file hd b d : Bytes) (hh : hd.length = headerSize)
    (hg : GoodBlte cd b d) :
    Stored cd (file ++ (hd ++ b)) file.length (headerSize + b.length) d := by
  refine ⟨by simp only [List.length_append]; omega, hd, b, hh, ?_, hg⟩
  rw [List.drop_left]
  have : headerSize + b.length = (hd ++ b).length := by simp only [List.length_append]; omega
  rw [this, List.take_length]

/-! ### reads -/

/-- **read_ok_iff_mapped** (for every state, whatever the remap rule was): `read_raw` on the open
archive succeeds exactly when the range lies inside the mapping. -/
theorem readRaw_ok_iff (s : State) (o : Open) (file : Bytes) (ho : s.opn = some o)
    (hf : s.disk = some file) (off size : Nat) :
    (∃ b, readRaw s 0 off size = .ok b) ↔ off + size ≤ o.mapped := by
  unfold readRaw
  simp only [ne_eq, not_true_eq_false, if_false, ho, hf]
  by_cases h : off + size > o.mapped
  · simp only [h, if_true]
    constructor
    · rintro ⟨b, hb⟩; cases hb
    · intro h'; omega
  · simp only [h, if_false]
    constructor
    · intro _; omega
    · intro _; exact ⟨_, rfl⟩

theorem readRaw_bounds (s : State) (o : Open) (file : Bytes) (ho : s.opn = some o)
    (hf : s.disk = some file) (off size : Nat) (h : o.mapped < off + size) :
    readRaw s 0 off size = .error .bounds := by
  unfold readRaw
  simp only [ne_eq, not_true_eq_false, if_false, ho, hf]
  rw [if_pos h]

/-- `read_content` of a stored entry inside the mapping returns the content — for EVERY content:
the sniff looks at the bytes at 0x1E of the ENTRY, which are the image's own magic. -/
theorem readContent_stored (P : Params) (s : State) (o : Open) (file : Bytes)
    (ho : s.opn = some o) (hf : s.disk = some file) (off size : Nat) (d : Bytes)
    (hm : off + size ≤ o.mapped) (hs : Stored P.cd file off size d) :
    readContent P s 0 off size = .ok d := by
  obtain ⟨h1, hd, b, h2, h3, h4, h5⟩ := hs
  have hraw : readRaw s 0 off size = .ok (hd ++ b) := by
    unfold readRaw
    simp only [ne_eq, not_true_eq_false, if_false, ho, hf]
    rw [if_neg (by omega), h3]
  have hb4 : 4 ≤ b.length := by
    have : (b.take 4).length = 4 := by rw [h5]; rfl
    simp only [List.length_take] at this; omega
  have hdrop : (hd ++ b).drop headerSize = b := by rw [← h2]; exact List.drop_left
  unfold readContent
  rw [hraw]
  simp only [hdrop, h5, and_true]
  rw [if_pos (by simp only [List.length_append]; omega)]
  unfold decompressBlte
  rw [h4]

/-! ### writes -/

/-- the archive is open on the whole file (or there is no file and nothing is open): what every
operation re-establishes once the mapping is refreshed after each write. -/
def ArchOk (s : State) : Prop := s.opn = s.disk.map fun f => ⟨f.length, f.length⟩

def fileOf (s : State) : Bytes := s.disk.getD []

/-- the remap rule refreshes the mapping whenever the size changed. -/
def RemapsOnChange (P : Params) : Prop := ∀ o n, n ≠ o → P.remap o n = true

/-- `LocalHeader::to_bytes` returns `[u8; LOCAL_HEADER_SIZE]`. -/
def HdrLen (P : Params) : Prop := ∀ k n o, (P.hdr k n o).length = headerSize

theorem remapFixed_ok (P : Params) (h : P.remap = remapFixed) : RemapsOnChange P := by
  intro o n hn; rw [h]; simp [remapFixed, hn]

theorem archOk_init : ArchOk State.init := rfl

theorem reopen_archOk (s : State) (h : ArchOk s) : reopen s = s := by
  cases s with
  | mk disk opn =>
    simp only [ArchOk] at h
    simp only [reopen, h]

theorem writeAt_end (file x : Bytes) : writeAt file file.length x = file ++ x := by
  simp [writeAt]

/-- a write on a fully mapped archive appends `header ‖ image` at the end of the file, returns
`(0, old length, 30 + |image|, H image)` and leaves the archive fully mapped again. -/
theorem write_spec32 (P : Params) (hr : RemapsOnChange P) (hh : HdrLen P) (s : State) (hs : ArchOk s) (d : Bytes)
    (m : Mode) (b : Bytes) (hb : blteOf P.cd d m = .ok b)
    (hsz : (fileOf s).length + headerSize + b.length < 2 ^ 32) :
    ∃ s', write P s d m =
        (s', .ok (0, (fileOf s).length, headerSize + b.length, P.H b)) ∧
      s'.disk = some (fileOf s ++ (P.hdr (P.H b) b.length (fileOf s).length ++ b)) ∧ ArchOk s' := by
  have h30 : (2 : Nat) ^ 30 = 1073741824 := by decide
  have h32 : (2 : Nat) ^ 32 = 4294967296 := by decide
  have hmax : maxArchive - writeReserve = 274773049344 := by decide
  have hmax2 : maxArchive = 274877906944 := by decide
  have hhs : headerSize = 30 := rfl
  cases s with
  | mk disk opn =>
    simp only [ArchOk] at hs
    cases disk with
    | none =>
      simp only [Option.map_none] at hs
      subst hs
      simp only [fileOf, Option.getD_none, List.length_nil] at hsz ⊢
      unfold write
      simp only [hb, createArchive, Option.getD_none, ite_self, List.length_nil]
      rw [if_neg (by omega), if_neg (by omega), if_neg (by omega), if_neg (by omega)]
      have hw : writeAt [] 0 (P.hdr (P.H b) b.length 0 ++ b) = P.hdr (P.H b) b.length 0 ++ b :=
        writeAt_end [] _
      rw [hw]
      have hne : (P.hdr (P.H b) b.length 0 ++ b).length ≠ 0 := by
        have := (blteOf_len P.cd d m b hb)
        simp only [List.length_append]; omega
      rw [if_pos (hr 0 _ hne), if_neg (by omega)]
      refine ⟨_, rfl, by simp, ?_⟩
      have hl := hh (P.H b) b.length 0
      simp only [ArchOk, Option.map_some, List.length_append, hl]
      congr 2
      omega
    | some file =>
      simp only [Option.map_some] at hs
      subst hs
      simp only [fileOf, Option.getD_some] at hsz ⊢
      unfold write
      simp only [hb]
      rw [if_neg (by omega), if_neg (by omega), if_neg (by omega), if_neg (by omega)]
      simp only [writeAt_end]
      have hne : (file ++ (P.hdr (P.H b) b.length file.length ++ b)).length ≠ file.length := by
        have := (blteOf_len P.cd d m b hb)
        simp only [List.length_append]; omega
      rw [if_pos (hr _ _ hne), if_neg (by omega)]
      refine ⟨_, rfl, rfl, ?_⟩
      have hl := hh (P.H b) b.length file.length
      simp only [ArchOk, Option.map_some, List.length_append, hl]

/-- the same below 1 GiB (the bound the history theorems carry because of the `.idx` offset). -/
theorem write_spec (P : Params) (hr : RemapsOnChange P) (hh : HdrLen P) (s : State) (hs : ArchOk s) (d : Bytes)
    (m : Mode) (b : Bytes) (hb : blteOf P.cd d m = .ok b)
    (hsz : (fileOf s).length + headerSize + b.length < 2 ^ 30) :
    ∃ s', write P s d m =
        (s', .ok (0, (fileOf s).length, headerSize + b.length, P.H b)) ∧
      s'.disk = some (fileOf s ++ (P.hdr (P.H b) b.length (fileOf s).length ++ b)) ∧ ArchOk s' :=
  write_spec32 P hr hh s hs d m b hb (by
    have : (2 : Nat) ^ 30 < 2 ^ 32 := by decide
    omega)

/-! ### a manager that has not opened its archive (`create_archive` on an existing file) -/

/-- nothing is open (a manager built without `open_all`), or the archive is open on the whole
file: the archive states an `Installation` can be in. -/
def ArchOk' (s : State) : Prop := s.opn = none ∨ ArchOk s

theorem archOk'_of_ok {s : State} (h : ArchOk s) : ArchOk' s := Or.inr h
theorem dropOpen_ok' (s : State) : ArchOk' (dropOpen s) := Or.inl rfl
theorem reopen_ok (s : State) : ArchOk (reopen s) := rfl
theorem fileOf_dropOpen (s : State) : fileOf (dropOpen s) = fileOf s := rfl
theorem fileOf_reopen (s : State) : fileOf (reopen s) = fileOf s := rfl

/-- with `create_archive` as it is now (`keepOnCreate`), a write through a manager that has NOT
opened the archive still appends at the end of the existing file — nothing stored is touched —
and returns the old length as offset; afterwards the archive is open on the whole file.  Holds up
to 4 GiB (the `u32` offset), not only below 1 GiB. -/
theorem write_append (P : Params) (hk : P.keepOnCreate = true) (hr : RemapsOnChange P) (hh : HdrLen P)
    (s : State) (hs : ArchOk' s) (d : Bytes) (m : Mode) (b : Bytes) (hb : blteOf P.cd d m = .ok b)
    (hsz : (fileOf s).length + headerSize + b.length < 2 ^ 32) :
    ∃ s', write P s d m =
        (s', .ok (0, (fileOf s).length, headerSize + b.length, P.H b)) ∧
      s'.disk = some (fileOf s ++ (P.hdr (P.H b) b.length (fileOf s).length ++ b)) ∧ ArchOk s' := by
  rcases hs with hnone | hok
  · have h32 : (2 : Nat) ^ 32 = 4294967296 := by decide
    have hmax : maxArchive - writeReserve = 274773049344 := by decide
    have hmax2 : maxArchive = 274877906944 := by decide
    have hhs : headerSize = 30 := rfl
    cases s with
    | mk disk opn =>
      simp only at hnone
      subst hnone
      simp only [fileOf] at hsz ⊢
      unfold write
      simp only [hb, createArchive, hk, if_true]
      rw [if_neg (by omega), if_neg (by omega), if_neg (by omega), if_neg (by omega)]
      simp only [writeAt_end]
      have hne : (disk.getD [] ++ (P.hdr (P.H b) b.length (disk.getD []).length ++ b)).length ≠
          (disk.getD []).length := by
        have := (blteOf_len P.cd d m b hb)
        simp only [List.length_append]; omega
      rw [if_pos (hr _ _ hne), if_neg (by omega)]
      refine ⟨_, rfl, rfl, ?_⟩
      have hl := hh (P.H b) b.length (disk.getD []).length
      simp only [ArchOk, Option.map_some, List.length_append, hl]
  · exact write_spec32 P hr hh s hok d m b hb hsz

/-- the pinned `create_archive` (`File::create`) is different: the same write through a manager
that has not opened the archive leaves a file that holds ONLY the new entry, at offset 0. -/
theorem write_truncates_pinned (P : Params) (hk : P.keepOnCreate = false)
    (file : Bytes) (d : Bytes) (m : Mode) (b : Bytes) (hb : blteOf P.cd d m = .ok b)
    (hsz : headerSize + b.length < 2 ^ 32) :
    ∃ s', write P ⟨some file, none⟩ d m = (s', .ok (0, 0, headerSize + b.length, P.H b)) ∧
      s'.disk = some (P.hdr (P.H b) b.length 0 ++ b) := by
  have h32 : (2 : Nat) ^ 32 = 4294967296 := by decide
  have hmax : maxArchive - writeReserve = 274773049344 := by decide
  have hmax2 : maxArchive = 274877906944 := by decide
  have hhs : headerSize = 30 := rfl
  unfold write
  simp only [hb, createArchive, hk, Bool.false_eq_true, if_false, List.length_nil]
  rw [if_neg (by omega), if_neg (by omega), if_neg (by omega), if_neg (by omega)]
  have hw : writeAt [] 0 (P.hdr (P.H b) b.length 0 ++ b) = P.hdr (P.H b) b.length 0 ++ b :=
    writeAt_end [] _
  simp only [hw]
  rw [if_neg (by omega)]
  exact ⟨_, rfl, rfl⟩

/-! ### the size and offset limits of `write_content_with_mode` -/

/-- on an open archive the result of `write` is the arithmetic `placeAt` (error class, or the
write position as offset and `30 + |image|` as size), whatever the file holds: no other size or
offset limit is checked — in particular none at 2^30. -/
theorem write_result_eq_placeAt (P : Params) (s : State) (o : Open) (file : Bytes)
    (ho : s.opn = some o) (hf : s.disk = some file) (d : Bytes) (m : Mode) (b : Bytes)
    (hb : blteOf P.cd d m = .ok b) :
    (write P s d m).2 = (placeAt o.pos b.length).map fun r => (0, r.1, r.2, P.H b) := by
  cases s with
  | mk disk opn =>
    simp only at ho hf
    subst ho hf
    unfold write placeAt
    simp only [hb]
    split
    · rfl
    · split
      · rfl
      · split
        · rfl
        · split
          · rfl
          · split <;> rfl

/-- … and the entry is written and the position advanced exactly when `placeAtWrites` says so
(also when the late `u32::try_from(offset)` then fails). -/
theorem write_advances_iff (P : Params) (s : State) (o : Open) (file : Bytes)
    (ho : s.opn = some o) (hf : s.disk = some file) (d : Bytes) (m : Mode) (b : Bytes)
    (hb : blteOf P.cd d m = .ok b) :
    (write P s d m).1.opn.map (·.pos) =
      some (if placeAtWrites o.pos b.length then o.pos + (headerSize + b.length) else o.pos) := by
  cases s with
  | mk disk opn =>
    simp only at ho hf
    subst ho hf
    unfold write placeAtWrites
    simp only [hb]
    split
    · rename_i h; simp only [Option.map_some]; rw [if_neg]; simp only [decide_eq_true_eq]; omega
    · split
      · rename_i h; simp only [Option.map_some]; rw [if_neg]; simp only [decide_eq_true_eq]; omega
      · split
        · rename_i h; simp only [Option.map_some]; rw [if_neg]; simp only [decide_eq_true_eq]; omega
        · split
          · rename_i h; simp only [Option.map_some]; rw [if_neg]; simp only [decide_eq_true_eq]; omega
          · rename_i h1 h2 h3 h4
            have : decide (b.length < 2 ^ 32 ∧ headerSize + b.length < 2 ^ 32 ∧
                o.pos < maxArchive - writeReserve ∧ o.pos + (headerSize + b.length) ≤ maxArchive) = true := by
              simp only [decide_eq_true_eq]; omega
            rw [if_pos this]
            split <;> rfl

/-- there is no limit at 1 GiB: for every write position from 2^30 up to (but excluding) 2^32 and
every image that fits below 256 GiB − 100 MiB, `placeAt` accepts and returns the position itself —
an offset that does not fit the 30-bit field of an `.idx` record. -/
theorem placeAt_no_limit_at_1GiB (pos blteLen : Nat) (h1 : 2 ^ 30 ≤ pos) (h2 : pos < 2 ^ 32)
    (h3 : blteLen < 2 ^ 31) :
    placeAt pos blteLen = .ok (pos, headerSize + blteLen) ∧ ¬ pos < 2 ^ 30 := by
  have h30 : (2 : Nat) ^ 30 = 1073741824 := by decide
  have h31 : (2 : Nat) ^ 31 = 2147483648 := by decide
  have h32 : (2 : Nat) ^ 32 = 4294967296 := by decide
  have hmax : maxArchive - writeReserve = 274773049344 := by decide
  have hmax2 : maxArchive = 274877906944 := by decide
  have hhs : headerSize = 30 := rfl
  refine ⟨?_, by omega⟩
  unfold placeAt
  rw [if_neg (by omega), if_neg (by omega), if_neg (by omega), if_neg (by omega), if_neg (by omega)]

end Cascette.Proofs.Archive
