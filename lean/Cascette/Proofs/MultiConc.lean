/-
Proofs/MultiConc — invariants of the concurrent model of MultiLayerCacheImpl (Model/MultiConc)
under the interleaving semantics of Spec/Interleave:
 * provenance for every schedule: whatever is stored in any layer, carried by any thread or
   answered by any `get` was written for that key (`MWInv`, lifted from Proofs/MemConc's
   `startOp_W` / `contOp_W` layer by layer);
 * a `remove` that runs alone, from ANY state (whatever the layers hold, whatever the promotion
   tracker knows): once it has returned the key is in no layer and has no tracker entry, and its
   answer says whether some layer held the key (`RmInv`).
-/
import Cascette.Model.MultiConc
import Cascette.Proofs.MemConc
namespace Cascette.Proofs.MultiConc
open Cascette.Spec.CacheMap (Key Val)
open Cascette.Spec.Interleave
open Cascette.Model.CacheAssoc Cascette.Proofs.CacheAssoc
open Cascette.Model.MemCache (Config Entry Store State)
open Cascette.Model.MemConc (Pc Out startOp contOp)
open Cascette.Model.MultiConc
open Cascette.Proofs.MemConc
open Cascette.Model

variable (cfg : Config) (vic : Store → Nat → List Key)

/-! ## small facts about the state plumbing -/

theorem tickAll_layers (s : MState) : (tickAll s).layers = s.layers.map MemCache.tick := rfl

theorem tick_store (ls : State) : (MemCache.tick ls).store = ls.store := rfl

theorem setLayer_layers (s : MState) (i : Nat) (ls : State) : (setLayer s i ls).layers = s.layers.set i ls := rfl

theorem setLayer_tracked (s : MState) (i : Nat) (ls : State) : (setLayer s i ls).tracked = s.tracked := rfl

/-- a continuation step of a layer operation answers nothing or `unit` (only `put` answers late) -/
theorem contOp_outs (ls : State) (pc : Pc) : ∀ o ∈ (contOp cfg vic ls pc).2.2.1, o = Out.unit := by
  intro o ho
  cases pc <;> simp only [contOp] at ho <;> (repeat' split at ho) <;>
    first
      | (simp only [List.mem_singleton] at ho; exact ho)
      | (cases ho)

/-! ## provenance -/

section Wrote
variable (Wr : Key → Val → Prop)

def LayersW (s : MState) : Prop := ∀ ls ∈ s.layers, StoreW Wr ls.store

def MOpW : MOp → Prop
  | .put k v => Wr k v
  | .putTo k v _ => Wr k v
  | _ => True

/-- a layer's answer to a `get` is a written value -/
def AnsW (op : MOp) (a : Out) : Prop := ∀ k v, op = .get k → a = .val (some v) → Wr k v

def MPcW : MPc → Prop
  | .idle => True
  | .inLayer op _ _ pc ans => MOpW Wr op ∧ PcW Wr pc ∧ ∀ a, ans = some a → AnsW Wr op a
  | .after op _ _ a => MOpW Wr op ∧ AnsW Wr op a

def MResW (rs : List (MOp × MOut)) : Prop :=
  ∀ r ∈ rs, ∀ k v, r.1 = .get k → r.2 = .val (some v) → Wr k v

def MThreadW (t : MThread) : Prop := MPcW Wr t.pc ∧ (∀ op ∈ t.todo, MOpW Wr op) ∧ MResW Wr t.results

variable {Wr}

theorem layersW_tickAll {s : MState} (h : LayersW Wr s) : LayersW Wr (tickAll s) := by
  intro ls hls
  rw [tickAll_layers] at hls
  obtain ⟨l0, hl0, rfl⟩ := List.mem_map.mp hls
  exact h l0 hl0

theorem layersW_setLayer {s : MState} {i : Nat} {ls : State} (h : LayersW Wr s) (hl : StoreW Wr ls.store) :
    LayersW Wr (setLayer s i ls) := by
  intro x hx
  rw [setLayer_layers] at hx
  rcases List.mem_or_eq_of_mem_set hx with hx | rfl
  · exact h x hx
  · exact hl

theorem layersW_tracked {s : MState} (tr : List Key) (h : LayersW Wr s) : LayersW Wr { s with tracked := tr } := h

theorem opW_layerOp {op : MOp} (h : MOpW Wr op) : OpW Wr (layerOp cfg op) := by
  cases op <;> first | exact h | trivial

theorem layerOp_get {op : MOp} {k : Key} (h : layerOp cfg op = .get k) : op = .get k := by
  cases op <;> simp only [layerOp] at h <;> first | (cases h; rfl) | cases h

theorem settle_W {op : MOp} {found : Bool} {layer : Nat} {pc : Pc} {ans : Option Out}
    (hop : MOpW Wr op) (hpc : PcW Wr pc) (hans : ∀ a, ans = some a → AnsW Wr op a) :
    MPcW Wr (settle op found layer pc ans) := by
  unfold settle
  by_cases h : pc = .idle
  · simp only [h, if_true]
    cases ans with
    | none => exact ⟨hop, fun k v _ hv => by cases hv⟩
    | some a => exact ⟨hop, hans a rfl⟩
  · simp only [h, if_false]
    exact ⟨hop, hpc, hans⟩

theorem enter_W {s : MState} {op : MOp} {found : Bool} {layer : Nat} (hs : LayersW Wr s) (hop : MOpW Wr op) :
    LayersW Wr (enter cfg s op found layer).1 ∧ MPcW Wr (enter cfg s op found layer).2 := by
  unfold enter
  cases hl : s.layers[layer]? with
  | none => exact ⟨hs, trivial⟩
  | some ls =>
    have hst : StoreW Wr ls.store := hs ls (mem_of_getElem? hl)
    have h := startOp_W cfg (s := ls) (Wr := Wr) (op := layerOp cfg op) hst (opW_layerOp cfg hop)
    refine ⟨layersW_setLayer hs h.1, settle_W hop h.2.1 ?_⟩
    intro a ha k v hk hv
    have hmem : a ∈ (startOp cfg ls (layerOp cfg op)).2.2.1 := List.mem_of_mem_head? ha
    exact h.2.2 a hmem k v (by rw [hk]; rfl) hv

theorem resume_W {s : MState} {op : MOp} {found : Bool} {layer : Nat} {a : Out}
    (hs : LayersW Wr s) (hop : MOpW Wr op) (ha : AnsW Wr op a) :
    LayersW Wr (resume cfg s op found layer a).1 ∧ MPcW Wr (resume cfg s op found layer a).2.1 ∧
    ∀ o, (resume cfg s op found layer a).2.2 = some o → ∀ k v, op = .get k → o = .val (some v) → Wr k v := by
  have hent : ∀ f l, LayersW Wr (enter cfg s op f l).1 ∧ MPcW Wr (enter cfg s op f l).2 :=
    fun f l => enter_W cfg hs hop
  cases op with
  | get k =>
    cases a with
    | val o =>
      cases o with
      | some v =>
        refine ⟨hs, trivial, ?_⟩
        intro o ho k' v' hk hv
        simp only [resume, Option.some.injEq] at ho
        subst ho
        cases hk; cases hv
        exact ha k v rfl rfl
      | none =>
        simp only [resume]
        split
        · exact ⟨(hent _ _).1, (hent _ _).2, fun o ho => by cases ho⟩
        · exact ⟨hs, trivial, fun o ho k' v' _ hv => by simp only [Option.some.injEq] at ho; subst ho; cases hv⟩
    | bool b =>
      simp only [resume]
      split
      · exact ⟨(hent _ _).1, (hent _ _).2, fun o ho => by cases ho⟩
      · exact ⟨hs, trivial, fun o ho k' v' _ hv => by simp only [Option.some.injEq] at ho; subst ho; cases hv⟩
    | unit =>
      simp only [resume]
      split
      · exact ⟨(hent _ _).1, (hent _ _).2, fun o ho => by cases ho⟩
      · exact ⟨hs, trivial, fun o ho k' v' _ hv => by simp only [Option.some.injEq] at ho; subst ho; cases hv⟩
  | contains k =>
    refine ⟨?_, ?_, fun o _ k' v' hk _ => by cases hk⟩
    · simp only [resume]; repeat' split
      all_goals first | exact hs | exact (hent _ _).1
    · simp only [resume]; repeat' split
      all_goals first | trivial | exact (hent _ _).2
  | put k v => exact ⟨hs, trivial, fun o _ k' v' hk _ => by cases hk⟩
  | remove k =>
    refine ⟨?_, ?_, fun o _ k' v' hk _ => by cases hk⟩
    · simp only [resume]; split
      · exact (hent _ _).1
      · exact hs
    · simp only [resume]; split
      · exact (hent _ _).2
      · trivial
  | clear =>
    refine ⟨?_, ?_, fun o _ k' v' hk _ => by cases hk⟩
    · simp only [resume]; split
      · exact (hent _ _).1
      · exact hs
    · simp only [resume]; split
      · exact (hent _ _).2
      · trivial
  | putTo k v l => exact ⟨hs, trivial, fun o _ k' v' hk _ => by cases hk⟩

theorem mresW_append {a b : List (MOp × MOut)} (ha : MResW Wr a) (hb : MResW Wr b) : MResW Wr (a ++ b) := by
  intro r hr
  rcases List.mem_append.mp hr with h | h
  · exact ha r h
  · exact hb r h

theorem step_W {s : MState} {t : MThread} (hs : LayersW Wr s) (ht : MThreadW Wr t) :
    LayersW Wr (step cfg vic s t).1 ∧ MThreadW Wr (step cfg vic s t).2.1 := by
  obtain ⟨pc, todo, results⟩ := t
  obtain ⟨hpc, htodo, hres⟩ := ht
  have hs' : LayersW Wr (tickAll s) := layersW_tickAll hs
  cases pc with
  | idle =>
    cases todo with
    | nil => exact ⟨hs, trivial, htodo, hres⟩
    | cons op rest =>
      have hop : MOpW Wr op := htodo op List.mem_cons_self
      have hrest : ∀ o ∈ rest, MOpW Wr o := fun o ho => htodo o (List.mem_cons_of_mem _ ho)
      by_cases hb : badLayer (tickAll s).layers.length op = true
      · simp only [step, hb, if_true]
        refine ⟨hs, trivial, hrest, mresW_append hres ?_⟩
        intro r hr k v _ hv
        simp only [List.mem_singleton] at hr
        subst hr; cases hv
      · simp only [step, hb]
        have h := enter_W cfg (found := false) (layer := firstLayer op) hs' hop
        exact ⟨h.1, h.2, hrest, hres⟩
  | inLayer op found layer lpc ans =>
    obtain ⟨hop, hlpc, hans⟩ := hpc
    simp only [step]
    cases hl : (tickAll s).layers[layer]? with
    | none => exact ⟨hs, ⟨hop, hlpc, hans⟩, htodo, hres⟩
    | some ls =>
      have hst : StoreW Wr ls.store := hs' ls (mem_of_getElem? hl)
      have h := contOp_W cfg vic (s := ls) (Wr := Wr) hst hlpc
      refine ⟨layersW_setLayer hs' h.1, settle_W hop h.2 ?_, htodo, hres⟩
      intro a ha
      cases ans with
      | some a0 =>
        simp only [Option.some.injEq] at ha
        subst ha
        exact hans a0 rfl
      | none =>
        have hmem : a ∈ (contOp cfg vic ls lpc).2.2.1 := List.mem_of_mem_head? ha
        have := contOp_outs cfg vic ls lpc a hmem
        subst this
        intro k v _ hv; cases hv
  | after op found layer a =>
    obtain ⟨hop, ha⟩ := hpc
    have h := resume_W cfg (found := found) (layer := layer) hs' hop ha
    simp only [step]
    refine ⟨h.1, h.2.1, htodo, mresW_append hres ?_⟩
    intro r hr k v hk hv
    cases ho : (resume cfg (tickAll s) op found layer a).2.2 with
    | none => rw [ho] at hr; cases hr
    | some o =>
      rw [ho] at hr
      simp only [List.mem_singleton] at hr
      subst hr
      exact h.2.2 o ho k v hk hv

variable (Wr)

structure MWInv (y : Sys MState MThread Unit) : Prop where
  layers : LayersW Wr y.shared
  threads : ∀ t ∈ y.threads, MThreadW Wr t

variable {Wr}

theorem mwinv_stepAt (y : Sys MState MThread Unit) (i : Nat) (h : MWInv Wr y) :
    MWInv Wr (stepAt (machine cfg vic) y i) := by
  rcases stepAt_cases (machine cfg vic) y i with heq | ⟨t, hget, _, heq⟩
  · rw [heq]; exact h
  · rw [heq]
    have hst := step_W cfg vic h.layers (h.threads t (mem_of_getElem? hget))
    refine ⟨hst.1, ?_⟩
    intro u hu
    rcases List.mem_or_eq_of_mem_set hu with hu | rfl
    · exact h.threads u hu
    · exact hst.2

end Wrote

/-! ## a remove that runs alone -/

/-- what the layers store, layer by layer -/
def stores (s : MState) : List Store := s.layers.map (·.store)

theorem stores_tickAll (s : MState) : stores (tickAll s) = stores s := by
  simp only [stores, tickAll_layers, List.map_map]
  rfl

theorem stores_setLayer (s : MState) (i : Nat) (ls : State) : stores (setLayer s i ls) = (stores s).set i ls.store := by
  simp only [stores, setLayer_layers, List.map_set]

theorem stores_length (s : MState) : (stores s).length = s.layers.length := by
  simp only [stores, List.length_map]

theorem stores_get {s : MState} {i : Nat} {ls : State} (h : s.layers[i]? = some ls) : (stores s)[i]? = some ls.store := by
  simp only [stores, List.getElem?_map, h, Option.map_some]

section Remove
variable (k : Key)

def has (st : Store) : Bool := (lookup k st).isSome

/-- some layer among the first `i + 1` holds the key -/
def fnd (L : List Store) (i : Nat) : Bool := (L.take (i + 1)).any (has k)

def Below (L : List Store) (i : Nat) : Prop := ∀ j st, j ≤ i → L[j]? = some st → lookup k st = none

def Above (L0 L : List Store) (i : Nat) : Prop := ∀ j, i < j → L[j]? = L0[j]?

theorem fnd_succ (L : List Store) (i : Nat) (st : Store) (h : L[i + 1]? = some st) :
    fnd k L (i + 1) = (fnd k L i || has k st) := by
  unfold fnd
  rw [List.take_add_one, h]
  simp only [Option.toList_some, List.any_append, List.any_cons, List.any_nil, Bool.or_false]

theorem fnd_zero (L : List Store) (st : Store) (h : L[0]? = some st) : fnd k L 0 = has k st := by
  unfold fnd
  cases L with
  | nil => cases h
  | cons a t =>
    simp only [List.getElem?_cons_zero, Option.some.injEq] at h
    subst h
    simp only [Nat.zero_add, List.take_succ_cons, List.take_zero, List.any_cons, List.any_nil, Bool.or_false]

theorem fnd_all (L : List Store) (i : Nat) (h : L.length ≤ i + 1) : fnd k L i = L.any (has k) := by
  unfold fnd
  rw [List.take_of_length_le h]

/-- the state of a thread that executes `[remove k]` alone, started in a state with layer
contents `L0` -/
def RmInv (L0 : List Store) (s : MState) (t : MThread) : Prop :=
  (stores s).length = L0.length ∧
  match t.pc with
  | .idle =>
    (t.todo = [.remove k] ∧ t.results = [] ∧ stores s = L0) ∨
    (t.todo = [] ∧ t.results = [(.remove k, .bool (L0.any (has k)))] ∧
      (∀ st ∈ stores s, lookup k st = none) ∧ k ∉ s.tracked)
  | .inLayer op _ i pc ans =>
    op = .remove k ∧ t.todo = [] ∧ t.results = [] ∧ i < L0.length ∧
      Below k (stores s) i ∧ Above L0 (stores s) i ∧
      (∃ sz, pc = .rCount sz ∨ pc = .rBytes sz) ∧ ans = some (.bool true) ∧ fnd k L0 i = true
  | .after op found i a =>
    op = .remove k ∧ t.todo = [] ∧ t.results = [] ∧ i < L0.length ∧
      Below k (stores s) i ∧ Above L0 (stores s) i ∧
      (found || decide (a = .bool true)) = fnd k L0 i

/-- calling into layer `i` for a remove: the layers up to `i` no longer hold the key -/
theorem enter_remove {L0 : List Store} {s : MState} {found : Bool} {i : Nat}
    (hlen : (stores s).length = L0.length) (hi : i < L0.length)
    (hbelow : ∀ j st, j < i → (stores s)[j]? = some st → lookup k st = none)
    (habove : ∀ j, i ≤ j → (stores s)[j]? = L0[j]?)
    (hf : ∀ st, L0[i]? = some st → (found || has k st) = fnd k L0 i) :
    let r := enter cfg s (.remove k) found i
    (stores r.1).length = L0.length ∧ r.1.tracked = s.tracked ∧
    match r.2 with
    | .idle => False
    | .inLayer op _ i' pc ans =>
      op = .remove k ∧ i' = i ∧ Below k (stores r.1) i ∧ Above L0 (stores r.1) i ∧
        (∃ sz, pc = .rCount sz ∨ pc = .rBytes sz) ∧ ans = some (.bool true) ∧ fnd k L0 i = true
    | .after op found' i' a =>
      op = .remove k ∧ i' = i ∧ Below k (stores r.1) i ∧ Above L0 (stores r.1) i ∧
        (found' || decide (a = .bool true)) = fnd k L0 i := by
  have hil : i < s.layers.length := by rw [← stores_length, hlen]; exact hi
  obtain ⟨ls, hls⟩ : ∃ ls, s.layers[i]? = some ls := ⟨s.layers[i], List.getElem?_eq_getElem hil⟩
  have hst : (stores s)[i]? = some ls.store := stores_get hls
  have hL0 : L0[i]? = some ls.store := by rw [← habove i (Nat.le_refl i)]; exact hst
  have hset : ∀ (ls' : State) (j : Nat) (st : Store), (stores (setLayer s i ls'))[j]? = some st →
      (j = i ∧ st = ls'.store) ∨ (j ≠ i ∧ (stores s)[j]? = some st) := by
    intro ls' j st h
    rw [stores_setLayer, List.getElem?_set] at h
    by_cases hji : i = j
    · subst hji
      simp only [if_true] at h
      split at h
      · simp only [Option.some.injEq] at h; exact Or.inl ⟨rfl, h.symm⟩
      · cases h
    · simp only [hji, if_false] at h
      exact Or.inr ⟨fun h' => hji h'.symm, h⟩
  have habove' : ∀ ls' : State, Above L0 (stores (setLayer s i ls')) i := by
    intro ls' j hj
    rw [stores_setLayer, List.getElem?_set]
    have : ¬ i = j := by omega
    simp only [this, if_false]
    exact habove j (Nat.le_of_lt hj)
  have hlen' : ∀ ls' : State, (stores (setLayer s i ls')).length = L0.length := by
    intro ls'; rw [stores_setLayer, List.length_set]; exact hlen
  have hbelow' : ∀ ls' : State, lookup k ls'.store = none → Below k (stores (setLayer s i ls')) i := by
    intro ls' hnone j st hj h
    rcases hset ls' j st h with ⟨_, rfl⟩ | ⟨hne, h⟩
    · exact hnone
    · exact hbelow j st (by omega) h
  simp only [enter, hls]
  cases hl : lookup k ls.store with
  | none =>
    have : startOp cfg ls (layerOp cfg (.remove k)) = (ls, .idle, [.bool false], [.remove k false]) :=
      startOp_remove_none cfg ls hl
    rw [this]
    simp only [settle, if_true, List.head?_cons]
    refine ⟨hlen' ls, rfl, trivial, trivial, hbelow' ls hl, habove' ls, ?_⟩
    have := hf ls.store hL0
    simp only [has, hl, Option.isSome_none, Bool.or_false] at this
    rw [← this]
    simp
  | some e =>
    have : startOp cfg ls (layerOp cfg (.remove k)) =
        ({ ls with store := erase k ls.store }, .rCount e.size, [.bool true], [.remove k true]) :=
      startOp_remove_some cfg ls hl
    rw [this]
    have hne : (Pc.rCount e.size = Pc.idle) = False := by simp
    simp only [settle, hne, if_false, List.head?_cons]
    refine ⟨hlen' _, rfl, trivial, trivial, hbelow' _ (lookup_erase_self k ls.store), habove' _, ⟨e.size, Or.inl rfl⟩, trivial, ?_⟩
    have := hf ls.store hL0
    simp only [has, hl, Option.isSome_some, Bool.or_true] at this
    exact this.symm

theorem stores_setLayer_same {s : MState} {i : Nat} {ls ls' : State} (h : s.layers[i]? = some ls)
    (he : ls'.store = ls.store) : stores (setLayer s i ls') = stores s := by
  rw [stores_setLayer]
  apply List.ext_getElem?
  intro j
  rw [List.getElem?_set]
  by_cases hji : i = j
  · subst hji
    have hlt : i < (stores s).length := by
      rw [stores_length]
      exact (List.getElem?_eq_some_iff.mp h).1
    simp only [if_true, hlt, stores_get h, he]
  · simp only [hji, if_false]

theorem stores_tracked (s : MState) (tr : List Key) : stores { s with tracked := tr } = stores s := rfl

theorem rmInv_step {L0 : List Store} (hne : 0 < L0.length) {s : MState} {t : MThread}
    (h : RmInv k L0 s t) : RmInv k L0 (step cfg vic s t).1 (step cfg vic s t).2.1 := by
  obtain ⟨pc, todo, results⟩ := t
  obtain ⟨hlen, h⟩ := h
  have hlen' : (stores (tickAll s)).length = L0.length := by rw [stores_tickAll]; exact hlen
  cases pc with
  | idle =>
    rcases h with ⟨htodo, hres, hst⟩ | hfin
    · -- the operation starts: call into layer 0
      simp only at htodo hres
      subst htodo; subst hres
      have hb : badLayer (tickAll s).layers.length (.remove k) = false := rfl
      simp only [step, hb, firstLayer]
      have hent := enter_remove cfg k (L0 := L0) (s := tickAll s) (found := false) (i := 0) hlen' hne
        (fun j st hj => absurd hj (Nat.not_lt_zero j))
        (fun j _ => by rw [stores_tickAll, hst])
        (fun st hst0 => by rw [fnd_zero k L0 st hst0]; simp)
      refine ⟨hent.1, ?_⟩
      have h2 := hent.2.2
      cases hr : (enter cfg (tickAll s) (.remove k) false 0).2 with
      | idle => simp only [hr] at h2
      | inLayer op f i pc ans =>
        simp only [hr] at h2
        obtain ⟨hop, hi, hb, ha, hpc, hans, hf⟩ := h2
        subst hi
        exact ⟨hop, rfl, rfl, hne, hb, ha, hpc, hans, hf⟩
      | after op f i a =>
        simp only [hr] at h2
        obtain ⟨hop, hi, hb, ha, hf⟩ := h2
        subst hi
        exact ⟨hop, rfl, rfl, hne, hb, ha, hf⟩
    · -- finished: no step left
      simp only at hfin
      have htodo : todo = [] := hfin.1
      subst htodo
      simp only [step]
      exact ⟨hlen, Or.inr hfin⟩
  | inLayer op found i lpc ans =>
    obtain ⟨hop, htodo, hres, hi, hbelow, habove, ⟨sz, hpc⟩, hans, hf⟩ := h
    subst hop; subst htodo; subst hres; subst hans
    have hil : i < (tickAll s).layers.length := by rw [← stores_length, hlen']; exact hi
    obtain ⟨ls, hls⟩ : ∃ ls, (tickAll s).layers[i]? = some ls := ⟨_, List.getElem?_eq_getElem hil⟩
    simp only [step, hls]
    rcases hpc with rfl | rfl
    · -- entry_count -= 1
      have hc : contOp cfg vic ls (.rCount sz) = ({ ls with count := ls.count - 1 }, .rBytes sz, [], []) := rfl
      have hne' : (Pc.rBytes sz = Pc.idle) = False := by simp
      simp only [hc, settle, hne', if_false]
      have hsame : stores (setLayer (tickAll s) i { ls with count := ls.count - 1 }) = stores s := by
        rw [stores_setLayer_same (ls' := { ls with count := ls.count - 1 }) hls rfl, stores_tickAll]
      rw [RmInv, hsame]
      exact ⟨hlen, rfl, rfl, rfl, hi, hbelow, habove, ⟨sz, Or.inr rfl⟩, rfl, hf⟩
    · -- memory_usage -= size: the layer call returns true
      have hc : contOp cfg vic ls (.rBytes sz) = ({ ls with bytes := ls.bytes - (sz : Int) }, .idle, [], []) := rfl
      simp only [hc, settle, if_true]
      have hsame : stores (setLayer (tickAll s) i { ls with bytes := ls.bytes - (sz : Int) }) = stores s := by
        rw [stores_setLayer_same (ls' := { ls with bytes := ls.bytes - (sz : Int) }) hls rfl, stores_tickAll]
      rw [RmInv, hsame]
      refine ⟨hlen, rfl, rfl, rfl, hi, hbelow, habove, ?_⟩
      rw [hf]; simp
  | after op found i a =>
    obtain ⟨hop, htodo, hres, hi, hbelow, habove, hf⟩ := h
    subst hop; subst htodo; subst hres
    have hl2 : (tickAll s).layers.length = L0.length := by rw [← stores_length, hlen']
    by_cases hmore : i + 1 < L0.length
    · -- on to the next layer
      have hm : decide (i + 1 < (tickAll s).layers.length) = true := by rw [hl2]; exact decide_eq_true hmore
      simp only [step, resume, hm, if_true, List.append_nil]
      have hent := enter_remove cfg k (L0 := L0) (s := tickAll s) (found := found || decide (a = .bool true)) (i := i + 1) hlen' hmore
        (fun j st hj hjs => hbelow j st (by omega) (by rw [← stores_tickAll]; exact hjs))
        (fun j hj => by rw [stores_tickAll]; exact habove j (by omega))
        (fun st hst1 => by rw [fnd_succ k L0 i st hst1, hf])
      refine ⟨hent.1, ?_⟩
      have h2 := hent.2.2
      cases hr : (enter cfg (tickAll s) (.remove k) (found || decide (a = .bool true)) (i + 1)).2 with
      | idle => simp only [hr] at h2
      | inLayer op f i' pc ans =>
        simp only [hr] at h2
        obtain ⟨hop, hi', hb, ha, hpc, hans, hf'⟩ := h2
        subst hi'
        exact ⟨hop, rfl, rfl, hmore, hb, ha, hpc, hans, hf'⟩
      | after op f i' a' =>
        simp only [hr] at h2
        obtain ⟨hop, hi', hb, ha, hf'⟩ := h2
        subst hi'
        exact ⟨hop, rfl, rfl, hmore, hb, ha, hf'⟩
    · -- the last layer is done: drop the tracker entry and return
      have hm : decide (i + 1 < (tickAll s).layers.length) = false := by rw [hl2]; exact decide_eq_false hmore
      simp only [step, resume, hm, Bool.false_eq_true, if_false, List.nil_append]
      refine ⟨by rw [stores_tracked, stores_tickAll]; exact hlen, Or.inr ⟨rfl, ?_, ?_, ?_⟩⟩
      · rw [hf, fnd_all k L0 i (by omega)]
      · intro st hst
        rw [stores_tracked, stores_tickAll] at hst
        obtain ⟨j, hj⟩ := List.mem_iff_getElem?.mp hst
        have hjl : j < (stores s).length := (List.getElem?_eq_some_iff.mp hj).1
        exact hbelow j st (by omega) hj
      · simp only [trackDel, List.mem_filter, not_and]
        intro _; simp

/-- the system of ONE thread that executes `[remove k]`, started with layer contents `L0` -/
def RmSys (L0 : List Store) (y : Sys MState MThread Unit) : Prop :=
  ∃ t, y.threads = [t] ∧ RmInv k L0 y.shared t

theorem rmSys_stepAt {L0 : List Store} (hne : 0 < L0.length) (y : Sys MState MThread Unit) (i : Nat)
    (h : RmSys k L0 y) : RmSys k L0 (stepAt (machine cfg vic) y i) := by
  rcases stepAt_cases (machine cfg vic) y i with heq | ⟨t', hget, _, heq⟩
  · rw [heq]; exact h
  · obtain ⟨t, hts, hinv⟩ := h
    rw [heq]
    rw [hts] at hget
    cases i with
    | succ j => simp only [List.getElem?_cons_succ, List.getElem?_nil] at hget; cases hget
    | zero =>
      simp only [List.getElem?_cons_zero, Option.some.injEq] at hget
      subst hget
      refine ⟨((machine cfg vic).step y.shared t).2.1, ?_, rmInv_step cfg vic k hne hinv⟩
      simp only [hts, List.set_cons_zero]

theorem rmSys_init (s0 : MState) : RmSys k (stores s0) (sys s0 [[.remove k]]) :=
  ⟨MThread.new [.remove k], rfl, rfl, Or.inl ⟨rfl, rfl, rfl⟩⟩

/-- what the invariant says once the thread has finished -/
theorem rmSys_quiescent {L0 : List Store} {y : Sys MState MThread Unit} (h : RmSys k L0 y)
    (hq : quiescent (machine cfg vic) y = true) :
    (∀ st ∈ stores y.shared, lookup k st = none) ∧ k ∉ y.shared.tracked ∧
    y.threads.map (·.results) = [[(.remove k, .bool (L0.any (has k)))]] := by
  obtain ⟨t, hts, _, hinv⟩ := h
  have hd : MThread.done t = true := by
    have := hq
    simp only [quiescent, hts, List.all_cons, List.all_nil, Bool.and_true] at this
    exact this
  obtain ⟨pc, todo, results⟩ := t
  simp only [MThread.done, Bool.and_eq_true, decide_eq_true_eq, List.isEmpty_iff] at hd
  obtain ⟨hpc, htodo⟩ := hd
  subst hpc; subst htodo
  rcases hinv with ⟨htodo, _, _⟩ | ⟨_, hres, hno, htr⟩
  · cases htodo
  · simp only at hres
    refine ⟨hno, htr, ?_⟩
    simp only [hts, List.map_cons, List.map_nil, hres]

end Remove
end Cascette.Proofs.MultiConc
