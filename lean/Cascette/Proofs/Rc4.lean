/-
Proofs/Rc4 — the array/`u8` model of `Arc4Cipher` (Model/Arc4) refines textbook RC4 over a
permutation function (Spec/Rc4): S-box correspondence `Rel`, preserved by swap / KSA / PRGA;
every index is in bounds (`Checked.* = some …`); the S-box stays a permutation.
-/
import Cascette.Model.Arc4
import Cascette.Spec.Rc4
namespace Cascette.Proofs.Rc4
open Cascette Cascette.Model.Arc4

/-- model S-box `s` represents the permutation function `S`. -/
def Rel (s : Array Byte) (S : Spec.Rc4.Perm) : Prop :=
  s.size = 256 ∧ ∀ x (h : x < s.size), (s[x]).toNat = S x

theorem swap_eq_swap (s : Array Byte) (i j : Nat) (hi : i < s.size) (hj : j < s.size) :
    swap s i j = s.swap i j hi hj := by
  unfold swap
  simp [Array.swap, Array.getD, hi, hj, Array.setIfInBounds, Array.size_set]

theorem swap_size (s : Array Byte) (i j : Nat) : (swap s i j).size = s.size := by
  simp [swap]

theorem swap_perm (s : Array Byte) (i j : Nat) (hi : i < s.size) (hj : j < s.size) :
    (swap s i j).Perm s := by
  rw [swap_eq_swap s i j hi hj]; exact Array.swap_perm hi hj

theorem getD_lt (s : Array Byte) (i : Nat) (h : i < s.size) : s.getD i 0 = s[i] := by
  simp [Array.getD, h]

theorem rel_swap (s : Array Byte) (S : Spec.Rc4.Perm) (i j : Nat) (h : Rel s S)
    (hi : i < 256) (hj : j < 256) : Rel (swap s i j) (Spec.Rc4.swap S i j) := by
  obtain ⟨hs, hv⟩ := h
  refine ⟨by rw [swap_size]; exact hs, ?_⟩
  intro x hx
  have hx' : x < s.size := by rw [swap_size] at hx; exact hx
  have hi' : i < s.size := by omega
  have hj' : j < s.size := by omega
  have e : (swap s i j)[x] = if j = x then s[i] else if i = x then s[j] else s[x] := by
    simp only [swap, getD_lt s i hi', getD_lt s j hj']
    rw [Array.getElem_setIfInBounds (by simp only [Array.size_setIfInBounds]; exact hx'),
      Array.getElem_setIfInBounds hx']
  rw [e]
  unfold Spec.Rc4.swap
  by_cases h1 : x = i <;> by_cases h2 : x = j
  · subst h1; subst h2; simp [hv]
  · subst h1; simp [hv, Ne.symm h2]
  · subst h2; simp [hv, h1]
  · simp [hv, h1, h2, Ne.symm h1, Ne.symm h2]

theorem key_getD (key : Bytes) (x : Nat) (h : x < key.length) :
    key.toArray.getD x 0 = key[x] := by
  simp [Array.getD, h]

theorem rel_ksa (key : Bytes) (hk : 0 < key.length) :
    ∀ (n i : Nat) (j : Byte) (s : Array Byte) (S : Spec.Rc4.Perm), Rel s S → i + n ≤ 256 →
      Rel (ksa key.toArray n i j s) (Spec.Rc4.ksaLoop key hk n i j.toNat S) := by
  intro n
  induction n with
  | zero => intro i j s S h _; exact h
  | succ n ih =>
    intro i j s S h hin
    simp only [ksa, Spec.Rc4.ksaLoop]
    have hi : i < s.size := by rw [h.1]; omega
    have hj : (j + s.getD i 0 + key.toArray.getD (i % key.toArray.size) 0).toNat =
        (j.toNat + S i + (key[i % key.length]'(Nat.mod_lt _ hk)).toNat) % 256 := by
      rw [getD_lt s i hi, List.size_toArray, key_getD key _ (Nat.mod_lt _ hk), ← h.2 i hi]
      simp only [BitVec.toNat_add]
      omega
    rw [← hj]
    refine ih (i + 1) _ _ _ (rel_swap s S i _ h (by omega) (BitVec.isLt _)) (by omega)

/-- cipher state correspondence. -/
def RelC (c : Cipher) (st : Spec.Rc4.State) : Prop :=
  Rel c.s st.S ∧ c.i.toNat = st.i ∧ c.j.toNat = st.j

theorem rel_next (c : Cipher) (st : Spec.Rc4.State) (h : RelC c st) :
    RelC (next c).1 (Spec.Rc4.next st).1 ∧ (next c).2.toNat = (Spec.Rc4.next st).2 := by
  obtain ⟨hs, hi, hj⟩ := h
  have i1 : (c.i + 1).toNat = (st.i + 1) % 256 := by
    rw [← hi]; simp only [BitVec.toNat_add]; rfl
  have hi1 : (c.i + 1).toNat < c.s.size := by rw [hs.1]; exact BitVec.isLt _
  have j1 : (c.j + c.s.getD (c.i + 1).toNat 0).toNat = (st.j + st.S ((st.i + 1) % 256)) % 256 := by
    rw [getD_lt _ _ hi1, ← hj, ← i1, ← hs.2 _ hi1]; simp only [BitVec.toNat_add]
  have hsw := rel_swap c.s st.S (c.i + 1).toNat (c.j + c.s.getD (c.i + 1).toNat 0).toNat hs
    (BitVec.isLt _) (BitVec.isLt _)
  simp only [next, Spec.Rc4.next]
  rw [← i1] at j1 ⊢
  rw [← j1]
  refine ⟨⟨hsw, rfl, rfl⟩, ?_⟩
  have sz := hsw.1
  have a1 : ∀ (b : Byte), b.toNat < (swap c.s (c.i + 1).toNat (c.j + c.s.getD (c.i + 1).toNat 0).toNat).size := by
    intro b; rw [sz]; exact BitVec.isLt _
  rw [getD_lt _ _ (a1 _), getD_lt _ _ (a1 _), getD_lt _ _ (a1 _), hsw.2 _ (a1 _)]
  congr 1
  rw [← hsw.2 _ (a1 _), ← hsw.2 _ (a1 _)]
  simp only [BitVec.toNat_add]

theorem rel_init : Rel ((Array.range 256).map (BitVec.ofNat 8)) (fun x => x) := by
  refine ⟨by simp, ?_⟩
  intro x hx
  simp only [Array.size_map, Array.size_range] at hx
  simp only [Array.getElem_map, Array.getElem_range, BitVec.toNat_ofNat]
  omega

theorem rel_apply (m : Bytes) : ∀ (c : Cipher) (st : Spec.Rc4.State), RelC c st →
    RelC (apply c m).1 (Spec.Rc4.after st m.length) ∧
    (apply c m).2 = List.zipWith (fun b k => b ^^^ BitVec.ofNat 8 k) m (Spec.Rc4.keystream st m.length) := by
  induction m with
  | nil => intro c st h; exact ⟨h, rfl⟩
  | cons b bs ih =>
    intro c st h
    obtain ⟨h1, h2⟩ := rel_next c st h
    obtain ⟨h3, h4⟩ := ih _ _ h1
    simp only [apply, List.length_cons, Spec.Rc4.after, Spec.Rc4.keystream, List.zipWith_cons_cons]
    refine ⟨h3, ?_⟩
    rw [h4, ← h2, BitVec.ofNat_toNat, BitVec.setWidth_eq]

theorem relC_mk (s : Array Byte) (S : Spec.Rc4.Perm) (h : Rel s S) :
    RelC { s := s, i := 0, j := 0 } { S := S, i := 0, j := 0 } := ⟨h, rfl, rfl⟩

theorem rel_new (key : Bytes) (hk : 0 < key.length) (n : Nat) (hn : n ≤ 256) :
    RelC { s := ksa key.toArray n 0 0 ((Array.range 256).map (BitVec.ofNat 8)), i := 0, j := 0 }
      { S := Spec.Rc4.ksaLoop key hk n 0 0 (fun x => x), i := 0, j := 0 } := by
  apply relC_mk
  have h := rel_ksa key hk n 0 0 _ _ rel_init (by omega)
  exact h

theorem rel_of_new (key : Bytes) (hk : 0 < key.length) (c : Cipher) (h : new key = some c) :
    RelC c (Spec.Rc4.init key hk) := by
  unfold new at h
  split at h
  · cases h
  · simp only [Option.some.injEq] at h
    subst h
    exact rel_new key hk 256 (Nat.le_refl _)

theorem crypt_eq_spec (key msg : Bytes) : crypt key msg = Spec.Rc4.crypt key msg := by
  unfold crypt Spec.Rc4.crypt new
  by_cases h : 1 ≤ key.length ∧ key.length ≤ 256
  · have hne : (key.isEmpty || decide (key.length > 256)) = false := by
      cases key with
      | nil => simp at h
      | cons x xs => simp only [List.isEmpty_cons, Bool.false_or, decide_eq_false_iff_not]; omega
    rw [dif_pos h, hne]
    simp only [Bool.false_eq_true, ↓reduceIte, Option.map_some, Option.some.injEq]
    exact (rel_apply msg _ _ (rel_new key (by omega) 256 (Nat.le_refl _))).2
  · have hne : (key.isEmpty || decide (key.length > 256)) = true := by
      cases key with
      | nil => rfl
      | cons x xs =>
        simp only [List.isEmpty_cons, Bool.false_or, decide_eq_true_eq]
        simp only [List.length_cons] at h ⊢; omega
    rw [dif_neg h, hne]; rfl

/-! ### no index is ever out of bounds -/

theorem checked_swap (s : Array Byte) (i j : Nat) (hi : i < s.size) (hj : j < s.size) :
    Checked.swap s i j = some (swap s i j) := by
  unfold Checked.swap swap
  rw [getD_lt s i hi, getD_lt s j hj]
  simp only [Array.getElem?_eq_getElem hi, Array.getElem?_eq_getElem hj]

theorem ksa_size (key : Array Byte) : ∀ (n i : Nat) (j : Byte) (s : Array Byte),
    (ksa key n i j s).size = s.size := by
  intro n
  induction n with
  | zero => intro i j s; rfl
  | succ n ih => intro i j s; simp only [ksa, ih, swap_size]

theorem checked_ksa (key : Array Byte) (hk : 0 < key.size) :
    ∀ (n i : Nat) (j : Byte) (s : Array Byte), s.size = 256 → i + n ≤ 256 →
      Checked.ksa key n i j s = some (ksa key n i j s) := by
  intro n
  induction n with
  | zero => intro i j s _ _; rfl
  | succ n ih =>
    intro i j s hs hin
    have hi : i < s.size := by omega
    have hm : i % key.size < key.size := Nat.mod_lt _ hk
    simp only [Checked.ksa, ksa]
    rw [if_neg (by omega), Array.getElem?_eq_getElem hi, Array.getElem?_eq_getElem hm]
    simp only
    rw [getD_lt s i hi, getD_lt key _ hm]
    rw [checked_swap s i _ hi (by rw [hs]; exact BitVec.isLt _)]
    simp only
    exact ih _ _ _ (by rw [swap_size]; exact hs) (by omega)

theorem next_size (c : Cipher) : (next c).1.s.size = c.s.size := by
  simp only [next, swap_size]

theorem checked_next (c : Cipher) (hs : c.s.size = 256) : Checked.next c = some (next c) := by
  have lt : ∀ (b : Byte), b.toNat < c.s.size := by intro b; rw [hs]; exact BitVec.isLt _
  have lt' : ∀ (a : Nat) (b d : Byte), d.toNat < (swap c.s a b.toNat).size := by
    intro a b d; rw [swap_size]; exact lt d
  unfold Checked.next next
  simp only
  rw [Array.getElem?_eq_getElem (lt _), getD_lt _ _ (lt _)]
  simp only
  rw [checked_swap _ _ _ (lt _) (lt _)]
  simp only
  rw [Array.getElem?_eq_getElem (lt' _ _ _), Array.getElem?_eq_getElem (lt' _ _ _),
    getD_lt _ _ (lt' _ _ _), getD_lt _ _ (lt' _ _ _), getD_lt _ _ (lt' _ _ _)]
  simp only
  rw [Array.getElem?_eq_getElem (lt' _ _ _)]

theorem apply_size (m : Bytes) : ∀ (c : Cipher), (apply c m).1.s.size = c.s.size := by
  induction m with
  | nil => intro c; rfl
  | cons b bs ih => intro c; simp only [apply, ih, next_size]

theorem checked_apply (m : Bytes) : ∀ (c : Cipher), c.s.size = 256 →
    Checked.apply c m = some (apply c m) := by
  induction m with
  | nil => intro c _; rfl
  | cons b bs ih =>
    intro c hs
    simp only [Checked.apply, apply, checked_next c hs,
      ih (next c).1 (by rw [next_size]; exact hs)]

theorem new_size (key : Bytes) (c : Cipher) (h : new key = some c) : c.s.size = 256 := by
  unfold new at h
  split at h
  · cases h
  · simp only [Option.some.injEq] at h
    subst h
    simp only [ksa_size, Array.size_map, Array.size_range]

theorem checked_new (key : Bytes) : Checked.new key = new key := by
  unfold Checked.new new
  split
  · rfl
  · rename_i h
    have hk : 0 < key.toArray.size := by
      cases key with
      | nil => simp at h
      | cons x xs => simp
    simp only
    rw [checked_ksa key.toArray hk 256 0 0 _ (by simp) (Nat.le_refl _)]
    rfl

theorem checked_crypt_eq (key msg : Bytes) : Checked.crypt key msg = crypt key msg := by
  unfold Checked.crypt crypt
  rw [checked_new]
  cases h : new key with
  | none => rfl
  | some c => simp only [checked_apply msg c (new_size key c h), Option.map_some]

/-! ### the S-box stays a permutation -/

theorem ksa_perm (key : Array Byte) : ∀ (n i : Nat) (j : Byte) (s : Array Byte), s.size = 256 →
    i + n ≤ 256 → (ksa key n i j s).Perm s := by
  intro n
  induction n with
  | zero => intro i j s _ _; exact Array.Perm.refl _
  | succ n ih =>
    intro i j s hs hin
    simp only [ksa]
    have hj : ∀ b : Byte, b.toNat < s.size := by intro b; rw [hs]; exact BitVec.isLt _
    exact (ih _ _ _ (by rw [swap_size]; exact hs) (by omega)).trans
      (swap_perm s i _ (by omega) (hj _))

theorem next_perm (c : Cipher) (hs : c.s.size = 256) : (next c).1.s.Perm c.s := by
  have lt : ∀ (b : Byte), b.toNat < c.s.size := by intro b; rw [hs]; exact BitVec.isLt _
  simp only [next]
  exact swap_perm _ _ _ (lt _) (lt _)

theorem apply_perm (m : Bytes) : ∀ (c : Cipher), c.s.size = 256 → (apply c m).1.s.Perm c.s := by
  induction m with
  | nil => intro c _; exact Array.Perm.refl _
  | cons b bs ih =>
    intro c hs
    simp only [apply]
    exact (ih _ (by rw [next_size]; exact hs)).trans (next_perm c hs)

theorem new_perm (key : Bytes) (c : Cipher) (h : new key = some c) :
    c.s.Perm ((Array.range 256).map (BitVec.ofNat 8)) := by
  unfold new at h
  split at h
  · cases h
  · simp only [Option.some.injEq] at h
    subst h
    dsimp only
    exact ksa_perm _ 256 0 0 _ (by simp) (Nat.le_refl _)

-- spec side
open Spec.Rc4 in
theorem isPerm_swap (S : Perm) (i j : Nat) (h : IsPerm S) (hi : i < 256) (hj : j < 256) :
    IsPerm (Spec.Rc4.swap S i j) := by
  obtain ⟨hr, hinj⟩ := h
  refine ⟨?_, ?_⟩
  · intro x hx; unfold Spec.Rc4.swap
    split
    · exact hr _ hj
    · split
      · exact hr _ hi
      · exact hr _ hx
  · intro x y hx hy
    unfold Spec.Rc4.swap
    intro e
    split at e <;> split at e <;> (try split at e) <;> (try split at e) <;>
      first
      | (have := hinj _ _ (by assumption) (by assumption) e; omega)
      | omega

open Spec.Rc4 in
theorem isPerm_ksaLoop (key : Bytes) (hk : 0 < key.length) : ∀ (n i j : Nat) (S : Perm),
    IsPerm S → i + n ≤ 256 → IsPerm (ksaLoop key hk n i j S) := by
  intro n
  induction n with
  | zero => intro i j S h _; exact h
  | succ n ih =>
    intro i j S h hin
    simp only [ksaLoop]
    exact ih _ _ _ (isPerm_swap S i _ h (by omega) (Nat.mod_lt _ (by omega))) (by omega)

open Spec.Rc4 in
theorem isPerm_init (key : Bytes) (hk : 0 < key.length) : IsPerm (init key hk).S := by
  unfold init
  dsimp only
  exact isPerm_ksaLoop key hk 256 0 0 _ ⟨fun x hx => hx, fun x y _ _ e => e⟩ (Nat.le_refl _)

open Spec.Rc4 in
theorem isPerm_next (st : State) (h : IsPerm st.S) : IsPerm (Spec.Rc4.next st).1.S := by
  simp only [Spec.Rc4.next]
  exact isPerm_swap _ _ _ h (Nat.mod_lt _ (by omega)) (Nat.mod_lt _ (by omega))

open Spec.Rc4 in
theorem isPerm_after (n : Nat) : ∀ (st : State), IsPerm st.S → IsPerm (after st n).S := by
  induction n with
  | zero => intro st h; exact h
  | succ n ih => intro st h; simp only [after]; exact ih _ (isPerm_next st h)

end Cascette.Proofs.Rc4
