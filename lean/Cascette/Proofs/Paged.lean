/-
Proofs/Paged — lemmas behind Props/C03 for the sorted-table machinery of Model/Paged:
byte-string order, bisection contract, paging, page-index lookup = recursive characterisation =
linear scan, batch walk = map of single lookups, TOC search.
-/
import Cascette.Model.Paged
import Cascette.Spec.Lookup
namespace Cascette.Proofs.Paged
open Cascette.Model.Paged

/-! ### the byte-string order -/

theorem kcmp_eq_iff (a b : Key) : kcmp a b = .eq ↔ a = b := by
  fun_induction kcmp a b <;> simp_all <;> omega

theorem kcmp_refl (a : Key) : kcmp a a = .eq := (kcmp_eq_iff a a).2 rfl

theorem kcmp_gt_iff (a b : Key) : kcmp a b = .gt ↔ kcmp b a = .lt := by
  induction a generalizing b with
  | nil => cases b <;> simp [kcmp]
  | cons x xs ih =>
    cases b with
    | nil => simp [kcmp]
    | cons y ys =>
      simp only [kcmp]
      by_cases h1 : x < y
      · have h2 : ¬ y < x := by omega
        simp [h1, h2]
      · by_cases h2 : y < x
        · simp [h1, h2]
        · simp only [h1, h2, ↓reduceIte]
          exact ih ys

theorem kcmp_lt_trans (a b c : Key) : kcmp a b = .lt → kcmp b c = .lt → kcmp a c = .lt := by
  induction a generalizing b c with
  | nil => cases b <;> cases c <;> simp [kcmp]
  | cons x xs ih =>
    cases b with
    | nil => simp [kcmp]
    | cons y ys =>
      cases c with
      | nil => simp [kcmp]
      | cons z zs =>
        simp only [kcmp]
        intro h1 h2
        by_cases hxy : x < y
        · by_cases hyz : y < z
          · have : x < z := by omega
            simp [this]
          · simp only [hyz, ↓reduceIte] at h2
            by_cases hzy : z < y
            · simp [hzy] at h2
            · have : y = z := by omega
              subst this; simp [hxy]
        · simp only [hxy, ↓reduceIte] at h1
          by_cases hyx : y < x
          · simp [hyx] at h1
          · have hx : x = y := by omega
            subst hx
            simp only [hyx, ↓reduceIte] at h1
            by_cases hyz : x < z
            · simp [hyz]
            · simp only [hyz, ↓reduceIte] at h2 ⊢
              by_cases hzy : z < x
              · simp [hzy] at h2
              · simp only [hzy, ↓reduceIte] at h2 ⊢
                exact ih _ _ h1 h2

theorem klt_iff (a b : Key) : klt a b = true ↔ kcmp a b = .lt := by simp [klt]
theorem kle_iff (a b : Key) : kle a b = true ↔ kcmp a b ≠ .gt := by simp [kle]

theorem klt_eq_not_kle (a b : Key) : klt a b = !kle b a := by
  have h := kcmp_gt_iff b a
  unfold klt kle
  cases hc : kcmp a b <;> cases hd : kcmp b a <;> simp_all

theorem kle_of_klt {a b : Key} (h : klt a b = true) : kle a b = true := by
  rw [klt_iff] at h; rw [kle_iff, h]; decide

theorem kle_refl (a : Key) : kle a a = true := by rw [kle_iff, kcmp_refl]; decide

theorem kle_cases (a b : Key) : kle a b = true ↔ (klt a b = true ∨ a = b) := by
  rw [kle_iff, klt_iff, ← kcmp_eq_iff]
  cases kcmp a b <;> simp

theorem klt_trans {a b c : Key} (h1 : klt a b = true) (h2 : klt b c = true) : klt a c = true := by
  rw [klt_iff] at *; exact kcmp_lt_trans a b c h1 h2

theorem klt_of_klt_of_kle {a b c : Key} (h1 : klt a b = true) (h2 : kle b c = true) : klt a c = true := by
  rcases (kle_cases b c).1 h2 with h | h
  · exact klt_trans h1 h
  · subst h; exact h1

theorem klt_of_kle_of_klt {a b c : Key} (h1 : kle a b = true) (h2 : klt b c = true) : klt a c = true := by
  rcases (kle_cases a b).1 h1 with h | h
  · exact klt_trans h h2
  · subst h; exact h2

theorem kle_trans {a b c : Key} (h1 : kle a b = true) (h2 : kle b c = true) : kle a c = true := by
  rcases (kle_cases a b).1 h1 with h | h
  · exact kle_of_klt (klt_of_klt_of_kle h h2)
  · subst h; exact h2

theorem kle_total (a b : Key) : (kle a b || kle b a) = true := by
  have := klt_eq_not_kle a b
  cases h : kle b a
  · simp [h] at this; simp [kle_of_klt this]
  · simp

theorem klt_irrefl (a : Key) : klt a a = false := by
  rw [klt_eq_not_kle, kle_refl]; rfl

theorem klt_ne {a b : Key} (h : klt a b = true) : a ≠ b := by
  intro e; subst e; rw [klt_irrefl] at h; cases h

theorem not_kle_of_klt {a b : Key} (h : klt a b = true) : kle b a = false := by
  rw [klt_eq_not_kle] at h; simpa using h


/-! ### bisection = `partition_point` contract -/

theorem bisect_spec (p : Nat → Bool) : ∀ (fuel lo hi : Nat), lo ≤ hi → hi - lo ≤ fuel →
    (∀ i j, lo ≤ i → i ≤ j → j < hi → p j = true → p i = true) →
    lo ≤ bisect p fuel lo hi ∧ bisect p fuel lo hi ≤ hi ∧
    (∀ i, lo ≤ i → i < bisect p fuel lo hi → p i = true) ∧
    (∀ i, bisect p fuel lo hi ≤ i → i < hi → p i = false) := by
  intro fuel
  induction fuel with
  | zero =>
    intro lo hi h1 h2 _
    have : lo = hi := by omega
    subst this
    simp only [bisect]
    exact ⟨Nat.le_refl _, Nat.le_refl _, fun i a b => by omega, fun i a b => by omega⟩
  | succ n ih =>
    intro lo hi h1 h2 hm
    unfold bisect
    by_cases hlt : lo < hi
    · simp only [hlt, ↓reduceIte]
      have hmid1 : lo ≤ lo + (hi - lo) / 2 := by omega
      have hmid2 : lo + (hi - lo) / 2 < hi := by omega
      by_cases hp : p (lo + (hi - lo) / 2) = true
      · simp only [hp, ↓reduceIte]
        obtain ⟨a, b, c, d⟩ := ih (lo + (hi - lo) / 2 + 1) hi (by omega) (by omega)
          (fun i j hi' hij hj => hm i j (by omega) hij hj)
        refine ⟨by omega, b, ?_, d⟩
        intro i hi1 hi2
        by_cases hle : i ≤ lo + (hi - lo) / 2
        · exact hm i _ hi1 hle hmid2 hp
        · exact c i (by omega) hi2
      · have hp' : p (lo + (hi - lo) / 2) = false := by simpa using hp
        simp only [hp', Bool.false_eq_true, ↓reduceIte]
        obtain ⟨a, b, c, d⟩ := ih lo (lo + (hi - lo) / 2) (by omega) (by omega)
          (fun i j hi' hij hj => hm i j hi' hij (by omega))
        refine ⟨a, by omega, c, ?_⟩
        intro i hi1 hi2
        by_cases hlt' : i < lo + (hi - lo) / 2
        · exact d i hi1 hlt'
        · cases hpi : p i
          · rfl
          · exact absurd (hm _ i hmid1 (by omega) hi2 hpi) hp
    · have : lo = hi := by omega
      subst this
      simp only [hlt, ↓reduceIte]
      exact ⟨Nat.le_refl _, Nat.le_refl _, fun i a b => by omega, fun i a b => by omega⟩

/-- a boundary of a list w.r.t. `p` is the length of `takeWhile p` -/
theorem boundary_unique {α : Type} (p : α → Bool) : ∀ (l : List α) (r : Nat), r ≤ l.length →
    (∀ i (h : i < l.length), i < r → p l[i] = true) →
    (∀ i (h : i < l.length), r ≤ i → p l[i] = false) →
    r = (l.takeWhile p).length := by
  intro l
  induction l with
  | nil => intro r h _ _; simp at h; simp [h]
  | cons a t ih =>
    intro r hr h1 h2
    rw [List.takeWhile_cons]
    by_cases hp : p a = true
    · simp only [hp, ↓reduceIte, List.length_cons]
      cases r with
      | zero =>
        have := h2 0 (by simp) (Nat.le_refl _)
        simp [hp] at this
      | succ r' =>
        congr 1
        apply ih r' (by simpa using hr)
        · intro i hi hir
          have := h1 (i + 1) (by simpa using hi) (by omega)
          simpa using this
        · intro i hi hir
          have := h2 (i + 1) (by simpa using hi) (by omega)
          simpa using this
    · simp only [hp]
      cases r with
      | zero => rfl
      | succ r' =>
        have := h1 0 (by simp) (by omega)
        simp at this
        exact absurd this hp

/-- `partition_point` on a list on which `p` is true-then-false returns the length of the true
prefix. -/
theorem partitionPoint_eq {α : Type} (p : α → Bool) (l : List α)
    (hm : l.Pairwise (fun a b => p b = true → p a = true)) :
    partitionPoint p l = (l.takeWhile p).length := by
  unfold partitionPoint
  simp only [List.getElem?_toArray]
  have hmono : ∀ i j, 0 ≤ i → i ≤ j → j < l.length →
      (match l[j]? with | some x => p x | none => false) = true →
      (match l[i]? with | some x => p x | none => false) = true := by
    intro i j _ hij hj
    have hi : i < l.length := by omega
    rw [List.getElem?_eq_getElem hj, List.getElem?_eq_getElem hi]
    simp only
    intro hpj
    by_cases e : i = j
    · subst e; exact hpj
    · exact (List.pairwise_iff_getElem.1 hm) i j hi hj (by omega) hpj
  obtain ⟨_, b, c, d⟩ := bisect_spec _ l.length 0 l.length (Nat.zero_le _) (by omega) hmono
  apply boundary_unique p l _ b
  · intro i hi hir
    have := c i (Nat.zero_le _) hir
    rw [List.getElem?_eq_getElem hi] at this
    exact this
  · intro i hi hir
    have := d i hir hi
    rw [List.getElem?_eq_getElem hi] at this
    exact this


/-! ### paging -/

theorem paginate_flatten {ε : Type} (sz : ε → Nat) (budget : Nat) :
    ∀ (es cur : List ε) (s : Nat), (paginate sz budget es cur s).flatten = cur ++ es := by
  intro es
  induction es with
  | nil => intro cur s; cases cur <;> simp [paginate]
  | cons e es ih =>
    intro cur s
    unfold paginate
    split
    · simp [ih]
    · simp [ih]

theorem paginate_nonempty {ε : Type} (sz : ε → Nat) (budget : Nat) :
    ∀ (es cur : List ε) (s : Nat), ∀ p ∈ paginate sz budget es cur s, p ≠ [] := by
  intro es
  induction es with
  | nil =>
    intro cur s p hp
    cases cur with
    | nil => simp [paginate] at hp
    | cons c cs => simp [paginate] at hp; subst hp; simp
  | cons e es ih =>
    intro cur s p hp
    unfold paginate at hp
    split at hp
    · rename_i h
      simp only [List.mem_cons] at hp
      rcases hp with hp | hp
      · subst hp
        simp only [Bool.and_eq_true, Bool.not_eq_eq_eq_not, Bool.not_true] at h
        intro e'; simp [e'] at h
      · exact ih _ _ p hp
    · exact ih _ _ p hp

/-! ### page-index lookup -/

/-- recursive characterisation of the page-index lookup -/
def findRec {ε : Type} (key : ε → Key) : Table ε → Key → Option ε
  | [], _ => none
  | [(f, p)], k => if kle f k then scan key p k else none
  | (f, p) :: (g, q) :: rest, k =>
    if kle f k then (if kle g k then findRec key ((g, q) :: rest) k else scan key p k) else none

theorem findRec_below {ε : Type} (key : ε → Key) (f : Key) (p : List ε) (rest : Table ε) (k : Key)
    (h : kle f k = false) : findRec key ((f, p) :: rest) k = none := by
  cases rest with
  | nil => simp [findRec, h]
  | cons a r => obtain ⟨g, q⟩ := a; simp [findRec, h]

/-- index strictly ascending -/
def IndexSorted {ε : Type} (t : Table ε) : Prop := (t.map (·.1)).Pairwise (fun a b => klt a b = true)

theorem index_mono {ε : Type} (t : Table ε) (k : Key) (h : IndexSorted t) :
    t.Pairwise (fun a b => kle b.1 k = true → kle a.1 k = true) := by
  unfold IndexSorted at h
  rw [List.pairwise_map] at h
  exact h.imp fun {a b} hab hb => kle_of_klt (klt_of_klt_of_kle hab hb)

theorem find_eq_findRec {ε : Type} (key : ε → Key) (t : Table ε) (k : Key) (h : IndexSorted t) :
    Table.find key t k = some (findRec key t k) := by
  unfold Table.find
  rw [partitionPoint_eq _ _ (index_mono t k h)]
  induction t with
  | nil => simp [findRec]
  | cons a rest ih =>
    obtain ⟨f, p⟩ := a
    have hrest : IndexSorted rest := by
      unfold IndexSorted at h ⊢
      simp only [List.map_cons, List.pairwise_cons] at h
      exact h.2
    have ih := ih hrest
    rw [List.takeWhile_cons]
    by_cases hf : kle f k = true
    · simp only [hf, ↓reduceIte, List.length_cons, Nat.add_one_ne_zero, Nat.add_sub_cancel]
      cases rest with
      | nil => simp [findRec, hf]
      | cons b r =>
        obtain ⟨g, q⟩ := b
        rw [List.takeWhile_cons] at ih ⊢
        by_cases hg : kle g k = true
        · simp only [hg, ↓reduceIte, List.length_cons, Nat.add_one_ne_zero, Nat.add_sub_cancel] at ih ⊢
          simp only [findRec, hf, hg, ↓reduceIte]
          rw [List.getElem?_cons_succ]
          exact ih
        · simp [findRec, hf, hg]
    · have hf' : kle f k = false := by simpa using hf
      simp [hf', findRec_below]

/-- well-formed pages: every page non-empty, its index key is the key of its first entry, and the
concatenation of all pages is strictly ascending -/
structure WF {ε : Type} (key : ε → Key) (t : Table ε) : Prop where
  first : ∀ pg ∈ t, ∃ e rest, pg.2 = e :: rest ∧ pg.1 = key e
  sorted : (t.flatMap (·.2)).Pairwise (fun a b => klt (key a) (key b) = true)

theorem WF.tail {ε : Type} {key : ε → Key} {a : Key × List ε} {t : Table ε} (h : WF key (a :: t)) :
    WF key t := by
  refine ⟨fun pg hpg => h.first pg (List.mem_cons_of_mem _ hpg), ?_⟩
  have := h.sorted
  simp only [List.flatMap_cons, List.pairwise_append] at this
  exact this.2.1

theorem WF.indexSorted {ε : Type} {key : ε → Key} : ∀ {t : Table ε}, WF key t → IndexSorted t := by
  intro t
  induction t with
  | nil => intro _; simp [IndexSorted]
  | cons a t ih =>
    intro h
    have iht := ih h.tail
    unfold IndexSorted at iht ⊢
    simp only [List.map_cons, List.pairwise_cons]
    refine ⟨?_, iht⟩
    intro f' hf'
    simp only [List.mem_map] at hf'
    obtain ⟨pg, hpg, rfl⟩ := hf'
    obtain ⟨e, r, he, hk⟩ := h.first a (List.mem_cons_self ..)
    obtain ⟨e', r', he', hk'⟩ := h.first pg (List.mem_cons_of_mem _ hpg)
    rw [hk, hk']
    have hs := h.sorted
    simp only [List.flatMap_cons, List.pairwise_append] at hs
    apply hs.2.2 e (by rw [he]; simp) e'
    simp only [List.mem_flatMap]
    exact ⟨pg, hpg, by rw [he']; simp⟩

/-- every key at or after the first page is ≥ the first index key -/
theorem WF.ge_first {ε : Type} {key : ε → Key} {f : Key} {p : List ε} {t : Table ε}
    (h : WF key ((f, p) :: t)) : ∀ x ∈ ((f, p) :: t).flatMap (·.2), kle f (key x) = true := by
  obtain ⟨e, r, he, hk⟩ := h.first (f, p) (List.mem_cons_self ..)
  simp only at he hk
  intro x hx
  have hs := h.sorted
  simp only [List.flatMap_cons, he] at hs hx
  simp only [List.cons_append, List.pairwise_cons] at hs
  simp only [List.cons_append, List.mem_cons] at hx
  rcases hx with hx | hx
  · subst hx; rw [hk]; exact kle_refl _
  · rw [hk]; exact kle_of_klt (hs.1 x hx)

theorem find?_none_of_lt {ε : Type} (key : ε → Key) (l : List ε) (k : Key)
    (h : ∀ x ∈ l, key x ≠ k) : l.find? (fun e => key e == k) = none := by
  rw [List.find?_eq_none]
  intro x hx
  simp only [beq_iff_eq]
  exact h x hx

theorem findRec_eq_scan {ε : Type} (key : ε → Key) : ∀ (t : Table ε) (k : Key), WF key t →
    findRec key t k = (t.flatMap (·.2)).find? (fun e => key e == k) := by
  intro t
  induction t with
  | nil => intro k _; simp [findRec]
  | cons a rest ih =>
    intro k h
    obtain ⟨f, p⟩ := a
    by_cases hf : kle f k = true
    · cases rest with
      | nil => simp [findRec, hf, scan]
      | cons b r =>
        obtain ⟨g, q⟩ := b
        have ih := ih k h.tail
        simp only [findRec, hf, ↓reduceIte]
        have hs := h.sorted
        simp only [List.flatMap_cons, List.pairwise_append] at hs
        rw [List.flatMap_cons, List.find?_append]
        by_cases hg : kle g k = true
        · simp only [hg, ↓reduceIte]
          rw [ih]
          have : p.find? (fun e => key e == k) = none := by
            apply find?_none_of_lt
            intro x hx
            obtain ⟨e, r', he, hk⟩ := h.tail.first (g, q) (List.mem_cons_self ..)
            simp only at he hk
            have hlt : klt (key x) (key e) = true := by
              apply hs.2.2 x hx e
              simp [he]
            rw [← hk] at hlt
            exact klt_ne (klt_of_klt_of_kle hlt hg)
          rw [this]; simp
        · have hg' : kle g k = false := by simpa using hg
          simp only [hg', Bool.false_eq_true, ↓reduceIte, scan]
          have : (((g, q) :: r).flatMap (·.2)).find? (fun e => key e == k) = none := by
            apply find?_none_of_lt
            intro x hx e'
            have := h.tail.ge_first x hx
            rw [e'] at this
            rw [this] at hg'; cases hg'
          rw [this]; simp
    · have hf' : kle f k = false := by simpa using hf
      rw [findRec_below key f p rest k hf']
      symm
      apply find?_none_of_lt
      intro x hx e'
      have := h.ge_first x hx
      rw [e'] at this
      rw [this] at hf'; cases hf'


/-! ### sorting a set of entries with distinct keys -/

/-- distinct keys -/
def Distinct {ε : Type} (key : ε → Key) (es : List ε) : Prop := es.Pairwise (fun a b => key a ≠ key b)

theorem Distinct.eq_of_key_eq {ε : Type} {key : ε → Key} : ∀ {es : List ε}, Distinct key es →
    ∀ a ∈ es, ∀ b ∈ es, key a = key b → a = b := by
  intro es
  induction es with
  | nil => intro _ a ha; cases ha
  | cons x xs ih =>
    intro h a ha b hb hab
    unfold Distinct at h
    simp only [List.pairwise_cons] at h
    simp only [List.mem_cons] at ha hb
    rcases ha with ha | ha <;> rcases hb with hb | hb
    · rw [ha, hb]
    · subst ha; exact absurd hab (h.1 b hb)
    · subst hb; exact absurd hab.symm (h.1 a ha)
    · exact ih h.2 a ha b hb hab

theorem find?_some_of_unique {α : Type} (p : α → Bool) : ∀ (l : List α) (a : α), a ∈ l → p a = true →
    (∀ b ∈ l, p b = true → b = a) → l.find? p = some a := by
  intro l
  induction l with
  | nil => intro a ha; cases ha
  | cons x xs ih =>
    intro a ha hp hu
    rw [List.find?_cons]
    by_cases hx : p x = true
    · simp only [hx]
      rw [hu x (List.mem_cons_self ..) hx]
    · have hx' : p x = false := by simpa using hx
      simp only [hx']
      simp only [List.mem_cons] at ha
      rcases ha with ha | ha
      · subst ha; rw [hp] at hx'; cases hx'
      · exact ih a ha hp (fun b hb => hu b (List.mem_cons_of_mem _ hb))

/-- a linear scan for a key does not depend on the order of a list with distinct keys -/
theorem scan_perm {ε : Type} (key : ε → Key) {l1 l2 : List ε} (hp : l1.Perm l2) (hd : Distinct key l1)
    (k : Key) : l1.find? (fun e => key e == k) = l2.find? (fun e => key e == k) := by
  cases h : l2.find? (fun e => key e == k) with
  | none =>
    rw [List.find?_eq_none] at h ⊢
    intro x hx
    exact h x (hp.mem_iff.1 hx)
  | some a =>
    have ha := List.mem_of_find?_eq_some h
    have hpa := List.find?_some h
    apply find?_some_of_unique _ l1 a (hp.mem_iff.2 ha) hpa
    intro b hb hpb
    simp only [beq_iff_eq] at hpa hpb
    exact hd.eq_of_key_eq b hb a (hp.mem_iff.2 ha) (hpb.trans hpa.symm)

theorem sort_strict {ε : Type} (key : ε → Key) (es : List ε) (hd : Distinct key es) :
    (es.mergeSort (fun a b => kle (key a) (key b))).Pairwise (fun a b => klt (key a) (key b) = true) := by
  have h1 := List.pairwise_mergeSort (le := fun (a b : ε) => kle (key a) (key b))
    (fun a b c => kle_trans) (fun a b => kle_total _ _) es
  have h2 : Distinct key (es.mergeSort (fun a b => kle (key a) (key b))) :=
    (List.Perm.pairwise_iff (fun {x y} (h : key x ≠ key y) => Ne.symm h) (List.mergeSort_perm es _)).2 hd
  unfold Distinct at h2
  exact (h1.and h2).imp fun {a b} ⟨hle, hne⟩ => by
    rcases (kle_cases _ _).1 hle with h | h
    · exact h
    · exact absurd h hne

/-! ### `build_index` over non-empty pages -/

theorem mkTable_flat {ε : Type} (key : ε → Key) (pages : List (List ε)) :
    (mkTable key pages).flatMap (·.2) = pages.flatten := by
  induction pages with
  | nil => rfl
  | cons p ps ih =>
    simp only [mkTable, List.map_cons, List.flatMap_cons, List.flatten_cons] at ih ⊢
    rw [ih]

theorem mkTable_wf {ε : Type} (key : ε → Key) (pages : List (List ε))
    (hne : ∀ p ∈ pages, p ≠ [])
    (hs : pages.flatten.Pairwise (fun a b => klt (key a) (key b) = true)) :
    WF key (mkTable key pages) := by
  refine ⟨?_, by rw [mkTable_flat]; exact hs⟩
  intro pg hpg
  simp only [mkTable, List.mem_map] at hpg
  obtain ⟨p, hp, rfl⟩ := hpg
  cases p with
  | nil => exact absurd rfl (hne _ hp)
  | cons e r => exact ⟨e, r, rfl, rfl⟩

/-- **paged_find_eq_lookup** (generic form): entries with distinct keys, sorted, cut into pages by any
size function and any budget; the page-index lookup equals a linear scan of the inserted entries. -/
theorem paged_find_eq_lookup {ε : Type} (key : ε → Key) (sz : ε → Nat) (budget : Nat) (es : List ε)
    (hd : Distinct key es) (k : Key) :
    Table.find key (mkTable key (paginate sz budget (es.mergeSort (fun a b => kle (key a) (key b))) [] 0)) k
      = some (Spec.Lookup.lookup key es k) := by
  have hwf : WF key (mkTable key (paginate sz budget (es.mergeSort (fun a b => kle (key a) (key b))) [] 0)) := by
    apply mkTable_wf
    · exact paginate_nonempty sz budget _ _ _
    · rw [paginate_flatten]; simpa using sort_strict key es hd
  rw [find_eq_findRec key _ k hwf.indexSorted, findRec_eq_scan key _ k hwf, mkTable_flat, paginate_flatten]
  simp only [List.nil_append, Spec.Lookup.lookup]
  congr 1
  exact (scan_perm key (List.mergeSort_perm es _).symm hd k).symm


/-! ### the batch walk -/

theorem dropWhile_not_eq_filter {α : Type} (P : α → Bool) : ∀ (l : List α),
    l.Pairwise (fun a b => P a = true → P b = true) → l.dropWhile (fun a => !P a) = l.filter P := by
  intro l
  induction l with
  | nil => intro _; rfl
  | cons a l ih =>
    intro h
    simp only [List.pairwise_cons] at h
    rw [List.dropWhile_cons, List.filter_cons]
    by_cases hp : P a = true
    · simp only [hp, Bool.not_true, Bool.false_eq_true, ↓reduceIte]
      congr 1
      symm
      rw [List.filter_eq_self]
      intro b hb
      exact h.1 b hb hp
    · have hp' : P a = false := by simpa using hp
      simp only [hp', Bool.not_false, ↓reduceIte, Bool.false_eq_true]
      exact ih h.2

theorem filter_sorted {α : Type} (R : α → α → Prop) (P : α → Bool) {l : List α} (h : l.Pairwise R) :
    (l.filter P).Pairwise R := h.sublist List.filter_sublist

/-- probes ascending by key -/
def ProbesSorted (probes : List (Nat × Key)) : Prop := probes.Pairwise (fun a b => kle a.2 b.2 = true)

theorem probes_mono (f : Key) {probes : List (Nat × Key)} (h : ProbesSorted probes) :
    probes.Pairwise (fun a b => kle f a.2 = true → kle f b.2 = true) :=
  h.imp fun {a b} hab ha => kle_trans ha hab

theorem mem_takeWhile_sat {α : Type} (p : α → Bool) : ∀ (l : List α) (x : α), x ∈ l.takeWhile p → p x = true := by
  intro l
  induction l with
  | nil => intro x hx; simp at hx
  | cons a l ih =>
    intro x hx
    rw [List.takeWhile_cons] at hx
    by_cases ha : p a = true
    · simp only [ha, ↓reduceIte, List.mem_cons] at hx
      rcases hx with hx | hx
      · subst hx; exact ha
      · exact ih x hx
    · simp [ha] at hx

theorem takeWhile_true {α : Type} (l : List α) : l.takeWhile (fun _ => true) = l := by
  induction l with
  | nil => rfl
  | cons a l ih => simp [List.takeWhile_cons, ih]

theorem dropWhile_true {α : Type} (l : List α) : l.dropWhile (fun _ => true) = [] := by
  induction l with
  | nil => rfl
  | cons a l ih => simp [List.dropWhile_cons, ih]

theorem batchWalk_single {ε : Type} (key : ε → Key) (f : Key) (p : List ε) (probes : List (Nat × Key)) :
    batchWalk key [(f, p)] probes =
      (probes.dropWhile (fun q => klt q.2 f)).map (fun q => (q.1, scan key p q.2)) := by
  rw [batchWalk]
  simp only [takeWhile_true, dropWhile_true, batchWalk, List.append_nil]

theorem batchWalk_cons2 {ε : Type} (key : ε → Key) (f g : Key) (p q : List ε) (r : Table ε)
    (probes : List (Nat × Key)) :
    batchWalk key ((f, p) :: (g, q) :: r) probes =
      ((probes.dropWhile (fun x => klt x.2 f)).takeWhile (fun x => !kle g x.2)).map
          (fun x => (x.1, scan key p x.2)) ++
        batchWalk key ((g, q) :: r)
          ((probes.dropWhile (fun x => klt x.2 f)).dropWhile (fun x => !kle g x.2)) := by
  rw [batchWalk]

/-- the cursor walk visits, for every probe at or above the first index key, exactly the page the
page-index lookup selects -/
theorem batchWalk_eq {ε : Type} (key : ε → Key) : ∀ (t : Table ε) (probes : List (Nat × Key)),
    IndexSorted t → ProbesSorted probes →
    batchWalk key t probes =
      match t with
      | [] => []
      | (f, _) :: _ => (probes.filter (fun q => kle f q.2)).map (fun q => (q.1, findRec key t q.2)) := by
  intro t
  induction t with
  | nil => intro probes _ _; rfl
  | cons a rest ih =>
    intro probes hidx hpr
    obtain ⟨f, p⟩ := a
    have hdw : probes.dropWhile (fun q => klt q.2 f) = probes.filter (fun q => kle f q.2) := by
      have : (fun (q : Nat × Key) => klt q.2 f) = (fun q => !(fun (q : Nat × Key) => kle f q.2) q) := by
        funext q; exact klt_eq_not_kle _ _
      rw [this]
      exact dropWhile_not_eq_filter _ _ (probes_mono f hpr)
    cases rest with
    | nil =>
      rw [batchWalk_single, hdw]
      apply List.map_congr_left
      intro q hq
      simp only [List.mem_filter] at hq
      simp [findRec, hq.2]
    | cons b r =>
      obtain ⟨g, q⟩ := b
      have hrest : IndexSorted ((g, q) :: r) := by
        unfold IndexSorted at hidx ⊢
        simp only [List.map_cons, List.pairwise_cons] at hidx ⊢
        exact hidx.2
      rw [batchWalk_cons2, hdw]
      have hps1 : ProbesSorted (probes.filter (fun q => kle f q.2)) := filter_sorted _ _ hpr
      have hlater : (probes.filter (fun q => kle f q.2)).dropWhile (fun q => !kle g q.2)
          = (probes.filter (fun q => kle f q.2)).filter (fun q => kle g q.2) :=
        dropWhile_not_eq_filter _ _ (probes_mono g hps1)
      rw [hlater, ih _ hrest (filter_sorted _ _ hps1)]
      simp only
      rw [List.filter_filter]
      simp only [Bool.and_self]
      rw [← hlater]
      conv => rhs; rw [← List.takeWhile_append_dropWhile (p := fun q => !kle g q.2) (l := probes.filter (fun q => kle f q.2))]
      rw [List.map_append]
      congr 1
      · apply List.map_congr_left
        intro x hx
        have h1 := mem_takeWhile_sat _ _ _ hx
        have h2 := (List.mem_filter.1 ((List.takeWhile_sublist _).subset hx)).2
        simp only [Bool.not_eq_eq_eq_not, Bool.not_true] at h1
        simp [findRec, h1, h2]
      · rw [hlater]
        apply List.map_congr_left
        intro x hx
        simp only [List.mem_filter] at hx
        simp [findRec, hx.1.2, hx.2]


/-! ### scatter by original index -/

theorem mem_indexed (ks : List Key) (q : Nat × Key) :
    q ∈ (ks.zipIdx.map fun (k, i) => (i, k)).mergeSort (fun a b => kle a.2 b.2) ↔ ks[q.1]? = some q.2 := by
  rw [(List.mergeSort_perm _ _).mem_iff, List.mem_map]
  constructor
  · rintro ⟨⟨k, i⟩, hm, rfl⟩
    exact List.mem_zipIdx_iff_getElem?.1 hm
  · intro h
    exact ⟨(q.2, q.1), List.mem_zipIdx_iff_getElem?.2 h, rfl⟩

/-- **batch_eq_map_single** (generic form): the sort-and-merge batch lookup returns, position by
position, what the page-index lookup returns for that probe. -/
theorem batch_eq_map {ε : Type} (key : ε → Key) (t : Table ε) (ks : List Key) (h : IndexSorted t) :
    Table.batch key t ks = ks.map (findRec key t) := by
  unfold Table.batch
  have hsorted : ProbesSorted ((ks.zipIdx.map fun (k, i) => (i, k)).mergeSort (fun a b => kle a.2 b.2)) :=
    List.pairwise_mergeSort (le := fun (a b : Nat × Key) => kle a.2 b.2)
      (fun a b c => kle_trans) (fun a b => kle_total _ _) _
  show assign (batchWalk key t _) ks.length = _
  rw [batchWalk_eq key t _ h hsorted]
  apply List.ext_getElem
  · simp [assign]
  · intro i h1 h2
    have hi : i < ks.length := by simpa using h2
    simp only [assign, List.getElem_map, List.getElem_range]
    cases t with
    | nil => simp [findRec]
    | cons a rest =>
      obtain ⟨f, p⟩ := a
      simp only
      rw [List.find?_map, List.find?_filter]
      by_cases hc : kle f ks[i] = true
      · have : List.find? (fun a => decide (kle f a.2 = true ∧ ((fun o => o.1 == i) ∘ fun (q : Nat × Key) => (q.1, findRec key ((f, p) :: rest) q.2)) a = true))
            ((ks.zipIdx.map fun (k, i) => (i, k)).mergeSort (fun a b => kle a.2 b.2)) = some (i, ks[i]) := by
          apply find?_some_of_unique
          · rw [mem_indexed]; simp [hi]
          · simp [hc]
          · intro b hb hpb
            rw [mem_indexed] at hb
            simp only [Function.comp_apply, beq_iff_eq, decide_eq_true_eq] at hpb
            obtain ⟨b1, b2⟩ := b
            simp only at hpb hb
            obtain ⟨_, hbi⟩ := hpb
            subst hbi
            rw [List.getElem?_eq_getElem hi] at hb
            simp only [Option.some.injEq] at hb
            rw [hb]
        rw [this]
        simp
      · have hc' : kle f ks[i] = false := by simpa using hc
        have : List.find? (fun a => decide (kle f a.2 = true ∧ ((fun o => o.1 == i) ∘ fun (q : Nat × Key) => (q.1, findRec key ((f, p) :: rest) q.2)) a = true))
            ((ks.zipIdx.map fun (k, i) => (i, k)).mergeSort (fun a b => kle a.2 b.2)) = none := by
          rw [List.find?_eq_none]
          intro b hb
          rw [mem_indexed] at hb
          simp only [Function.comp_apply, beq_iff_eq, decide_eq_true_eq, not_and]
          intro hfb hbi
          obtain ⟨b1, b2⟩ := b
          simp only at hfb hbi hb
          subst hbi
          rw [List.getElem?_eq_getElem hi] at hb
          simp only [Option.some.injEq] at hb
          rw [← hb, hc'] at hfb
          cases hfb
        rw [this]
        simp [findRec_below key f p rest _ hc']


/-- page-index lookup over an already strictly sorted entry list -/
theorem paged_find_sorted {ε : Type} (key : ε → Key) (sz : ε → Nat) (budget : Nat) (sorted : List ε)
    (hs : sorted.Pairwise (fun a b => klt (key a) (key b) = true)) (k : Key) :
    Table.find key (mkTable key (paginate sz budget sorted [] 0)) k
      = some (sorted.find? (fun e => key e == k)) := by
  have hwf : WF key (mkTable key (paginate sz budget sorted [] 0)) := by
    apply mkTable_wf
    · exact paginate_nonempty sz budget _ _ _
    · rw [paginate_flatten]; simpa using hs
  rw [find_eq_findRec key _ k hwf.indexSorted, findRec_eq_scan key _ k hwf, mkTable_flat, paginate_flatten]
  simp

theorem paged_indexSorted {ε : Type} (key : ε → Key) (sz : ε → Nat) (budget : Nat) (sorted : List ε)
    (hs : sorted.Pairwise (fun a b => klt (key a) (key b) = true)) :
    IndexSorted (mkTable key (paginate sz budget sorted [] 0)) := by
  have hwf : WF key (mkTable key (paginate sz budget sorted [] 0)) := by
    apply mkTable_wf
    · exact paginate_nonempty sz budget _ _ _
    · rw [paginate_flatten]; simpa using hs
  exact hwf.indexSorted

theorem takeWhile_all {α : Type} (p : α → Bool) : ∀ (l : List α), (∀ x ∈ l, p x = true) → l.takeWhile p = l := by
  intro l
  induction l with
  | nil => intro _; rfl
  | cons a l ih =>
    intro h
    rw [List.takeWhile_cons, h a (List.mem_cons_self ..)]
    simp only [↓reduceIte]
    rw [ih (fun x hx => h x (List.mem_cons_of_mem _ hx))]

/-- a page parser that stops at padding is the identity on pages without padding-like entries -/
theorem parse_pages_id {ε : Type} (key : ε → Key) (isPad : ε → Bool) (pages : List (List ε))
    (h : ∀ e ∈ pages.flatten, isPad e = false) :
    (mkTable key pages).map (fun (fp : Key × List ε) => (fp.1, fp.2.takeWhile (fun e => !isPad e))) = mkTable key pages := by
  conv => rhs; rw [← List.map_id (mkTable key pages)]
  apply List.map_congr_left
  intro fp hfp
  simp only [mkTable, List.mem_map] at hfp
  obtain ⟨pg, hpg, rfl⟩ := hfp
  simp only [id]
  congr 1
  apply takeWhile_all
  intro x hx
  have := h x (List.mem_flatten.2 ⟨pg, hpg, hx⟩)
  simp [this]

end Cascette.Proofs.Paged
