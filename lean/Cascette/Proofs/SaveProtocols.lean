/-
Proofs/SaveProtocols — lemmas for C06: frame/cut algebra of Spec/Fs, the states reachable by crash
prefixes of temp+fsync+rename (with any number of failed attempts in front), save_all by induction
over buckets, and the LRU loader (highest generation) across rename / delete-previous.
-/
import Cascette.Spec.Fs
import Cascette.Model.SaveProtocols
namespace Cascette.Proofs.SaveProtocols
open Cascette Cascette.Spec.Fs Cascette.Model.SaveProtocols

set_option linter.unusedSectionVars false
variable {N : Type} [DecidableEq N]

@[simp] theorem upd_same (d : Dir N) (n : N) (v : Option File) : upd d n v n = v := by simp [upd]
theorem upd_other (d : Dir N) {n m : N} (v : Option File) (h : m ≠ n) : upd d n v m = d m := by
  simp [upd, h]

theorem run_nil (d : Dir N) : run d [] = d := rfl
theorem run_cons (d : Dir N) (o : Op N) (t : List (Op N)) : run d (o :: t) = run (step d o) t := rfl
theorem run_append (d : Dir N) (a b : List (Op N)) : run d (a ++ b) = run (run d a) b := by
  simp [run, List.foldl_append]

/-- the names an operation can change. -/
def touches : Op N → N → Prop
  | .create n, m => m = n
  | .openAppend n, m => m = n
  | .write n _, m => m = n
  | .fsync n, m => m = n
  | .unlink n, m => m = n
  | .rename a b, m => m = a ∨ m = b

theorem step_frame (d : Dir N) (o : Op N) (m : N) (h : ¬ touches o m) : step d o m = d m := by
  cases o with
  | create n => simp only [touches] at h; simp [step, upd_other _ _ h]
  | openAppend n =>
    simp only [touches] at h
    cases hdn : d n <;> simp [step, hdn, upd_other _ _ h]
  | write n bs =>
    simp only [touches] at h
    cases hdn : d n <;> simp [step, hdn, upd_other _ _ h]
  | fsync n =>
    simp only [touches] at h
    cases hdn : d n <;> simp [step, hdn, upd_other _ _ h]
  | rename a b =>
    simp only [touches, not_or] at h
    by_cases hab : a = b
    · simp [step, hab]
    · cases hda : d a <;> simp [step, hab, hda, upd_other _ _ h.1, upd_other _ _ h.2]
  | unlink n => simp only [touches] at h; simp [step, upd_other _ _ h]

theorem run_frame (d : Dir N) (p : List (Op N)) (m : N) (h : ∀ o ∈ p, ¬ touches o m) : run d p m = d m := by
  induction p generalizing d with
  | nil => rfl
  | cons o t ih =>
    rw [run_cons, ih _ (fun o' ho' => h o' (List.mem_cons_of_mem _ ho')), step_frame _ _ _ (h o List.mem_cons_self)]

/-- a crash prefix touches no name the full trace does not touch. -/
theorem cut_touches {t p : List (Op N)} (hc : Cut t p) (m : N) (h : ∀ o ∈ t, ¬ touches o m) :
    ∀ o ∈ p, ¬ touches o m := by
  induction hc with
  | stop t => intro o ho; cases ho
  | tear n bs k t =>
    intro o ho
    simp only [List.mem_singleton] at ho
    subst ho
    have := h (.write n bs) List.mem_cons_self
    simpa [touches] using this
  | next o hc ih =>
    intro o' ho'
    rcases List.mem_cons.mp ho' with rfl | h'
    · exact h _ List.mem_cons_self
    · exact ih (fun o'' ho'' => h o'' (List.mem_cons_of_mem _ ho'')) o' h'

theorem cut_append {t1 t2 p : List (Op N)} (hc : Cut (t1 ++ t2) p) :
    Cut t1 p ∨ ∃ p2, p = t1 ++ p2 ∧ Cut t2 p2 := by
  induction t1 generalizing p with
  | nil => exact Or.inr ⟨p, rfl, hc⟩
  | cons o t ih =>
    cases hc with
    | stop _ => exact Or.inl (Cut.stop _)
    | tear n bs k _ => exact Or.inl (Cut.tear n bs k t)
    | next _ hc' =>
      rcases ih hc' with h | ⟨p2, rfl, h2⟩
      · exact Or.inl (Cut.next o h)
      · exact Or.inr ⟨p2, rfl, h2⟩

theorem cut_full (t : List (Op N)) : Cut t t := by
  induction t with
  | nil => exact Cut.stop _
  | cons o t ih => exact Cut.next o ih

theorem cut_prepend (t1 : List (Op N)) {t2 p2 : List (Op N)} (h : Cut t2 p2) : Cut (t1 ++ t2) (t1 ++ p2) := by
  induction t1 with
  | nil => exact h
  | cons o t ih => exact Cut.next o ih

/-- a durable file survives a crash byte for byte. -/
theorem crashImage_durable {d : Dir N} {img : N → Option Bytes} (h : CrashImage d img) (n : N)
    (hd : Durable d n) : img n = dataOf d n := by
  have := h n
  unfold dataOf
  cases hdn : d n with
  | none => simp [hdn] at this; simp [this]
  | some f =>
    simp only [hdn] at this
    obtain ⟨b, hb, hlen, htake⟩ := this
    have hs := hd f hdn
    rw [hb]
    simp only [Option.map_some, Option.some.injEq]
    have h1 : f.data.take f.synced = f.data := List.take_of_length_le hs
    have h2 : b.take f.synced = b := List.take_of_length_le (Nat.le_trans hlen hs)
    rw [h1, h2] at htake
    exact htake


theorem cut_nil {p : List (Op N)} (h : Cut ([] : List (Op N)) p) : p = [] := by
  cases h; rfl

/-- every operation of `junk` touches `tmp` only. -/
def OnlyTmp (tmp : N) (junk : List (Op N)) : Prop := ∀ o ∈ junk, ∀ m, touches o m → m = tmp

theorem onlyTmp_frame {tmp : N} {junk p : List (Op N)} (hj : OnlyTmp tmp junk) (hc : Cut junk p)
    (d : Dir N) (m : N) (hm : m ≠ tmp) : run d p m = d m := by
  apply run_frame
  apply cut_touches hc
  intro o ho ht
  exact hm (hj o ho m ht)

theorem onlyTmp_append {tmp : N} {a b : List (Op N)} (ha : OnlyTmp tmp a) (hb : OnlyTmp tmp b) :
    OnlyTmp tmp (a ++ b) := by
  intro o ho m ht
  rcases List.mem_append.mp ho with h | h
  · exact ha o h m ht
  · exact hb o h m ht

theorem atomicReplace_pre_onlyTmp (tmp : N) (bs : Bytes) :
    OnlyTmp tmp [Op.create tmp, .write tmp bs, .fsync tmp] := by
  intro o ho m ht
  simp only [List.mem_cons, List.not_mem_nil, or_false] at ho
  rcases ho with rfl | rfl | rfl <;> simpa [touches] using ht

theorem atomicReplace_split (tmp fin : N) (bs : Bytes) :
    atomicReplace tmp fin bs = [Op.create tmp, .write tmp bs, .fsync tmp] ++ [.rename tmp fin] := rfl

/-- the complete protocol: `fin` holds the new bytes, all of them synced; the temp name is gone. -/
theorem atomicReplace_run (d : Dir N) {tmp fin : N} (bs : Bytes) (h : tmp ≠ fin) :
    run d (atomicReplace tmp fin bs) fin = some ⟨bs, bs.length⟩ ∧
    run d (atomicReplace tmp fin bs) tmp = none ∧
    ∀ m, m ≠ tmp → m ≠ fin → run d (atomicReplace tmp fin bs) m = d m := by
  have hne : fin ≠ tmp := fun e => h e.symm
  refine ⟨?_, ?_, ?_⟩
  · simp [atomicReplace, run, step, upd, h, hne]
  · simp [atomicReplace, run, step, upd, h]
  · intro m h1 h2
    simp [atomicReplace, run, step, upd, h, h1, h2]

/-- every crash prefix of `junk ++ atomicReplace`: either nothing but `tmp` has changed, or the
whole thing ran. -/
theorem replace_cut (d : Dir N) {tmp fin : N} (bs : Bytes) {junk p : List (Op N)}
    (hj : OnlyTmp tmp junk) (hc : Cut (junk ++ atomicReplace tmp fin bs) p) :
    (∀ m, m ≠ tmp → run d p m = d m) ∨ p = junk ++ atomicReplace tmp fin bs := by
  rw [atomicReplace_split, ← List.append_assoc] at hc
  rcases cut_append hc with h | ⟨p2, rfl, h2⟩
  · left
    intro m hm
    exact onlyTmp_frame (onlyTmp_append hj (atomicReplace_pre_onlyTmp tmp bs)) h d m hm
  · cases h2 with
    | stop _ =>
      left
      intro m hm
      rw [List.append_nil]
      exact onlyTmp_frame (onlyTmp_append hj (atomicReplace_pre_onlyTmp tmp bs)) (cut_full _) d m hm
    | next _ h3 =>
      right
      rw [cut_nil h3, atomicReplace_split, List.append_assoc]

/-- state after `junk ++ atomicReplace` -/
theorem replace_full (d : Dir N) {tmp fin : N} (bs : Bytes) {junk : List (Op N)}
    (hj : OnlyTmp tmp junk) (h : tmp ≠ fin) :
    run d (junk ++ atomicReplace tmp fin bs) fin = some ⟨bs, bs.length⟩ ∧
    ∀ m, m ≠ tmp → m ≠ fin → run d (junk ++ atomicReplace tmp fin bs) m = d m := by
  rw [run_append]
  obtain ⟨h1, _, h3⟩ := atomicReplace_run (run d junk) bs h
  refine ⟨h1, ?_⟩
  intro m hm1 hm2
  rw [h3 m hm1 hm2]
  exact onlyTmp_frame hj (cut_full _) d m hm1


theorem onlyTmp_nil (tmp : N) : OnlyTmp tmp ([] : List (Op N)) := by
  intro o ho; cases ho

theorem failedAttempt_onlyTmp (tmp : N) (bs : Bytes) (a : Attempt) :
    OnlyTmp tmp (failedAttemptOps tmp bs a ++ [.unlink tmp]) := by
  intro o ho m ht
  cases a <;>
    simp only [failedAttemptOps, List.nil_append, List.cons_append, List.mem_cons, List.not_mem_nil, or_false] at ho <;>
    (first
      | (rcases ho with rfl | rfl | rfl | rfl <;> simpa [touches] using ht)
      | (rcases ho with rfl | rfl | rfl <;> simpa [touches] using ht)
      | (subst ho; simpa [touches] using ht))

/-- `save_index` = attempts that touch only the temp name, then (iff it returns Ok) the complete
temp+fsync+rename. -/
theorem saveIndexOps_shape (tmp fin : N) (bs : Bytes) : ∀ (fuel : Nat) (outs : List Attempt),
    ∃ junk, OnlyTmp tmp junk ∧
      ((saveIndexOk fuel outs = true ∧ saveIndexOps tmp fin bs fuel outs = junk ++ atomicReplace tmp fin bs) ∨
       (saveIndexOk fuel outs = false ∧ saveIndexOps tmp fin bs fuel outs = junk)) := by
  intro fuel
  induction fuel with
  | zero => intro outs; exact ⟨[], onlyTmp_nil tmp, Or.inr ⟨rfl, rfl⟩⟩
  | succ f ih =>
    intro outs
    cases outs with
    | nil => exact ⟨[], onlyTmp_nil tmp, Or.inl ⟨rfl, rfl⟩⟩
    | cons a rest =>
      cases ha : a with
      | ok => exact ⟨[], onlyTmp_nil tmp, Or.inl ⟨rfl, rfl⟩⟩
      | failCreate =>
        obtain ⟨junk, hj, h⟩ := ih rest
        refine ⟨(failedAttemptOps tmp bs .failCreate ++ [.unlink tmp]) ++ junk, onlyTmp_append (failedAttempt_onlyTmp tmp bs _) hj, ?_⟩
        rcases h with ⟨h1, h2⟩ | ⟨h1, h2⟩
        · left; refine ⟨by simpa [saveIndexOk] using h1, ?_⟩; simp only [saveIndexOps, h2, List.append_assoc]
        · right; refine ⟨by simpa [saveIndexOk] using h1, ?_⟩; simp only [saveIndexOps, h2, List.append_assoc]
      | failWrite k =>
        obtain ⟨junk, hj, h⟩ := ih rest
        refine ⟨(failedAttemptOps tmp bs (.failWrite k) ++ [.unlink tmp]) ++ junk, onlyTmp_append (failedAttempt_onlyTmp tmp bs _) hj, ?_⟩
        rcases h with ⟨h1, h2⟩ | ⟨h1, h2⟩
        · left; refine ⟨by simpa [saveIndexOk] using h1, ?_⟩; simp only [saveIndexOps, h2, List.append_assoc]
        · right; refine ⟨by simpa [saveIndexOk] using h1, ?_⟩; simp only [saveIndexOps, h2, List.append_assoc]
      | failSync =>
        obtain ⟨junk, hj, h⟩ := ih rest
        refine ⟨(failedAttemptOps tmp bs .failSync ++ [.unlink tmp]) ++ junk, onlyTmp_append (failedAttempt_onlyTmp tmp bs _) hj, ?_⟩
        rcases h with ⟨h1, h2⟩ | ⟨h1, h2⟩
        · left; refine ⟨by simpa [saveIndexOk] using h1, ?_⟩; simp only [saveIndexOps, h2, List.append_assoc]
        · right; refine ⟨by simpa [saveIndexOk] using h1, ?_⟩; simp only [saveIndexOps, h2, List.append_assoc]
      | failRename =>
        obtain ⟨junk, hj, h⟩ := ih rest
        refine ⟨(failedAttemptOps tmp bs .failRename ++ [.unlink tmp]) ++ junk, onlyTmp_append (failedAttempt_onlyTmp tmp bs _) hj, ?_⟩
        rcases h with ⟨h1, h2⟩ | ⟨h1, h2⟩
        · left; refine ⟨by simpa [saveIndexOk] using h1, ?_⟩; simp only [saveIndexOps, h2, List.append_assoc]
        · right; refine ⟨by simpa [saveIndexOk] using h1, ?_⟩; simp only [saveIndexOps, h2, List.append_assoc]


theorem image_old_or_new {d0 d : Dir N} {img : N → Option Bytes} (hi : CrashImage d img) (m : N)
    (bs : Bytes) (hd : Durable d0 m) (h : d m = d0 m ∨ d m = some ⟨bs, bs.length⟩) :
    img m = dataOf d0 m ∨ img m = some bs := by
  rcases h with h | h
  · left
    have : Durable d m := by intro f hf; exact hd f (h ▸ hf)
    rw [crashImage_durable hi m this]; simp [dataOf, h]
  · right
    have : Durable d m := by
      intro f hf; rw [h] at hf; cases hf; exact Nat.le_refl _
    rw [crashImage_durable hi m this]; simp [dataOf, h]

/-- every crash prefix of `save_index`, any outcome of its attempts: outside the temp name nothing
has changed, or the final name holds the complete synced new content. -/
theorem saveIndex_states (d : Dir N) {tmp fin : N} (bs : Bytes) (outs : List Attempt) (h : tmp ≠ fin)
    {p : List (Op N)} (hc : Cut (saveIndex tmp fin bs outs) p) (m : N) (hm : m ≠ tmp) :
    run d p m = d m ∨ (m = fin ∧ run d p m = some ⟨bs, bs.length⟩) := by
  obtain ⟨junk, hj, hs⟩ := saveIndexOps_shape tmp fin bs 3 outs
  unfold saveIndex at hc
  rcases hs with ⟨_, h2⟩ | ⟨_, h2⟩
  · rw [h2] at hc
    rcases replace_cut d bs hj hc with hl | hr
    · exact Or.inl (hl m hm)
    · subst hr
      obtain ⟨h1, h3⟩ := replace_full d bs hj h
      by_cases hmf : m = fin
      · subst hmf; exact Or.inr ⟨rfl, h1⟩
      · exact Or.inl (h3 m hm hmf)
  · rw [h2] at hc
    exact Or.inl (onlyTmp_frame hj hc d m hm)

/-- `save_index` that returns `Err` leaves everything but the temp name as it was. -/
theorem saveIndex_failed_state (d : Dir N) {tmp fin : N} (bs : Bytes) (outs : List Attempt)
    (hf : saveIndexOk 3 outs = false) (m : N) (hm : m ≠ tmp) :
    run d (saveIndex tmp fin bs outs) m = d m := by
  obtain ⟨junk, hj, hs⟩ := saveIndexOps_shape tmp fin bs 3 outs
  unfold saveIndex
  rcases hs with ⟨h1, _⟩ | ⟨_, h2⟩
  · rw [hf] at h1; cases h1
  · rw [h2]; exact onlyTmp_frame hj (cut_full _) d m hm

/-- every crash prefix of `save_all`. -/
theorem saveAll_states (bs : List (BucketSave N)) (hne : ∀ b ∈ bs, b.tmp ≠ b.fin) :
    ∀ (d : Dir N) {p : List (Op N)}, Cut (saveAll bs) p → ∀ m, (∀ b ∈ bs, m ≠ b.tmp) →
      run d p m = d m ∨ ∃ b ∈ bs, m = b.fin ∧ run d p m = some ⟨b.bytes, b.bytes.length⟩ := by
  induction bs with
  | nil =>
    intro d p hc m _
    have hp : p = [] := cut_nil (by simpa [saveAll] using hc)
    subst hp; exact Or.inl rfl
  | cons b rest ih =>
    intro d p hc m hm
    have hb : b.tmp ≠ b.fin := hne b List.mem_cons_self
    have hmb : m ≠ b.tmp := hm b List.mem_cons_self
    have hrest : ∀ b' ∈ rest, m ≠ b'.tmp := fun b' hb' => hm b' (List.mem_cons_of_mem _ hb')
    simp only [saveAll] at hc
    rcases cut_append hc with h1 | ⟨p2, rfl, h2⟩
    · rcases saveIndex_states d b.bytes b.outcomes hb h1 m hmb with h | ⟨h, h'⟩
      · exact Or.inl h
      · exact Or.inr ⟨b, List.mem_cons_self, h, h'⟩
    · rw [run_append]
      have hfull := saveIndex_states d b.bytes b.outcomes hb (cut_full _) m hmb
      have hafter : run (run d (saveIndex b.tmp b.fin b.bytes b.outcomes)) p2 m =
            run d (saveIndex b.tmp b.fin b.bytes b.outcomes) m ∨
          ∃ b' ∈ rest, m = b'.fin ∧ run (run d (saveIndex b.tmp b.fin b.bytes b.outcomes)) p2 m =
            some ⟨b'.bytes, b'.bytes.length⟩ := by
        by_cases hok : saveIndexOk 3 b.outcomes = true
        · rw [if_pos hok] at h2
          exact ih (fun b' hb' => hne b' (List.mem_cons_of_mem _ hb')) _ h2 m hrest
        · rw [if_neg hok] at h2
          rw [cut_nil h2]; exact Or.inl rfl
      rcases hafter with h | ⟨b', hb', h, h'⟩
      · rw [h]
        rcases hfull with h | ⟨h, h'⟩
        · exact Or.inl h
        · exact Or.inr ⟨b, List.mem_cons_self, h, h'⟩
      · exact Or.inr ⟨b', List.mem_cons_of_mem _ hb', h, h'⟩


/-! ### LRU loader -/

theorem maxGen_some {l : List Nat} {m : Nat} (h : maxGen l = some m) : m ∈ l ∧ ∀ x ∈ l, x ≤ m := by
  induction l generalizing m with
  | nil => cases h
  | cons g rest ih =>
    simp only [maxGen] at h
    cases hr : maxGen rest with
    | none =>
      rw [hr] at h
      cases h
      have : rest = [] := by
        cases rest with
        | nil => rfl
        | cons a r => simp only [maxGen] at hr; split at hr <;> cases hr
      subst this
      exact ⟨List.mem_cons_self, by intro x hx; simp at hx; omega⟩
    | some b =>
      rw [hr] at h
      obtain ⟨hb, hle⟩ := ih hr
      simp only [Option.some.injEq] at h
      by_cases hbg : b < g
      · rw [if_pos hbg] at h; subst h
        refine ⟨List.mem_cons_self, ?_⟩
        intro x hx
        rcases List.mem_cons.mp hx with rfl | hx
        · exact Nat.le_refl _
        · have := hle x hx; omega
      · rw [if_neg hbg] at h; subst h
        refine ⟨List.mem_cons_of_mem _ hb, ?_⟩
        intro x hx
        rcases List.mem_cons.mp hx with rfl | hx
        · omega
        · exact hle x hx

theorem maxGen_none {l : List Nat} (h : maxGen l = none) : l = [] := by
  cases l with
  | nil => rfl
  | cons a r => simp only [maxGen] at h; split at h <;> cases h

theorem maxGen_of_max {l : List Nat} {m : Nat} (hm : m ∈ l) (hle : ∀ x ∈ l, x ≤ m) : maxGen l = some m := by
  cases h : maxGen l with
  | none => rw [maxGen_none h] at hm; cases hm
  | some m' =>
    obtain ⟨h1, h2⟩ := maxGen_some h
    have := hle m' h1
    have := h2 m hm
    congr 1; omega

variable {S : Type}

theorem lruLatest_congr (genName : Nat → N) (gens : List Nat) {img img' : N → Option Bytes}
    (h : ∀ g ∈ gens, img (genName g) = img' (genName g)) :
    lruLatest genName gens img = lruLatest genName gens img' := by
  unfold lruLatest
  congr 1
  apply List.filter_congr
  intro g hg
  rw [h g hg]

theorem lruLatest_mem {genName : Nat → N} {gens : List Nat} {img : N → Option Bytes} {g : Nat}
    (h : lruLatest genName gens img = some g) : g ∈ gens := by
  have := (maxGen_some h).1
  exact (List.mem_filter.mp this).1

/-- the loader reads generation files only. -/
theorem lruLoad_congr (genName : Nat → N) (deser : Bytes → Option S) (gens : List Nat)
    {img img' : N → Option Bytes} (h : ∀ g ∈ gens, img (genName g) = img' (genName g)) :
    lruLoad genName deser gens img = lruLoad genName deser gens img' := by
  unfold lruLoad
  rw [← lruLatest_congr genName gens h]
  cases hl : lruLatest genName gens img with
  | none => rfl
  | some g => simp only; rw [h g (lruLatest_mem hl)]

theorem lruLoad_of_latest (genName : Nat → N) (deser : Bytes → Option S) (gens : List Nat)
    {img : N → Option Bytes} {g : Nat} (h : lruLatest genName gens img = some g) :
    lruLoad genName deser gens img =
      (match img (genName g) with
       | none => .err
       | some b => match deser b with
         | some s => .loaded g s
         | none => .err) := by
  unfold lruLoad; rw [h]; rfl

/-- the state between the rename and the deletion of the previous generation loads as the old or
as the final state. -/
theorem lruLoad_mid (genName : Nat → N) (deser : Bytes → Option S) (gens : List Nat) (gen : Nat) (bs : Bytes)
    {c0 c1 c2 : N → Option Bytes} (hgen : gen ∈ gens)
    (h1F : c1 (genName gen) = some bs)
    (h1o : ∀ g ∈ gens, g ≠ gen → c1 (genName g) = c0 (genName g))
    (h2F : c2 (genName gen) = c1 (genName gen))
    (h2o : ∀ g ∈ gens, (c2 (genName g)).isSome → (c1 (genName g)).isSome) :
    lruLoad genName deser gens c1 = lruLoad genName deser gens c0 ∨
    lruLoad genName deser gens c1 = lruLoad genName deser gens c2 := by
  by_cases hex : ∃ M ∈ gens, (c0 (genName M)).isSome ∧ gen < M
  · left
    obtain ⟨M, hM, hMp, hMg⟩ := hex
    have hMf : M ∈ gens.filter fun g => (c0 (genName g)).isSome := List.mem_filter.mpr ⟨hM, hMp⟩
    cases h0 : lruLatest genName gens c0 with
    | none => unfold lruLatest at h0; rw [maxGen_none h0] at hMf; cases hMf
    | some M0 =>
      obtain ⟨hM0, hle0⟩ := maxGen_some h0
      have hM0' := List.mem_filter.mp hM0
      have hMM0 : M ≤ M0 := hle0 M hMf
      have hne : M0 ≠ gen := by omega
      have h1 : lruLatest genName gens c1 = some M0 := by
        apply maxGen_of_max
        · apply List.mem_filter.mpr
          refine ⟨hM0'.1, ?_⟩
          rw [h1o M0 hM0'.1 hne]; exact hM0'.2
        · intro x hx
          obtain ⟨hxg, hxp⟩ := List.mem_filter.mp hx
          by_cases hxe : x = gen
          · omega
          · rw [h1o x hxg hxe] at hxp
            exact hle0 x (List.mem_filter.mpr ⟨hxg, hxp⟩)
      rw [lruLoad_of_latest genName deser gens h1, lruLoad_of_latest genName deser gens h0,
        h1o M0 hM0'.1 hne]
  · right
    have hall : ∀ M ∈ gens, (c0 (genName M)).isSome → M ≤ gen := by
      intro M hM hp
      apply Nat.le_of_not_lt
      intro hlt
      exact hex ⟨M, hM, hp, hlt⟩
    have hp1 : ∀ x ∈ gens, (c1 (genName x)).isSome → x ≤ gen := by
      intro x hx hp
      by_cases hxe : x = gen
      · omega
      · rw [h1o x hx hxe] at hp; exact hall x hx hp
    have h1 : lruLatest genName gens c1 = some gen := by
      apply maxGen_of_max
      · exact List.mem_filter.mpr ⟨hgen, by rw [h1F]; rfl⟩
      · intro x hx
        obtain ⟨hxg, hxp⟩ := List.mem_filter.mp hx
        exact hp1 x hxg hxp
    have h2 : lruLatest genName gens c2 = some gen := by
      apply maxGen_of_max
      · exact List.mem_filter.mpr ⟨hgen, by rw [h2F, h1F]; rfl⟩
      · intro x hx
        obtain ⟨hxg, hxp⟩ := List.mem_filter.mp hx
        exact hp1 x hxg (h2o x hxg hxp)
    rw [lruLoad_of_latest genName deser gens h1, lruLoad_of_latest genName deser gens h2, h2F]


theorem durable_of_eq {d d0 : Dir N} {m : N} (h : d m = d0 m) (hd : Durable d0 m) : Durable d m := by
  intro f hf; exact hd f (h ▸ hf)

theorem durable_of_synced {d : Dir N} {m : N} {bs : Bytes} (h : d m = some ⟨bs, bs.length⟩) : Durable d m := by
  intro f hf; rw [h] at hf; cases hf; exact Nat.le_refl _

theorem image_eq_of_state_eq {d d0 : Dir N} {img : N → Option Bytes} (hi : CrashImage d img) {m : N}
    (h : d m = d0 m) (hd : Durable d0 m) : img m = dataOf d0 m := by
  rw [crashImage_durable hi m (durable_of_eq h hd)]; simp [dataOf, h]

section lru
variable (genName tmpName : Nat → N) (deser : Bytes → Option S)
variable (hinj : ∀ a b, genName a = genName b → a = b) (hdis : ∀ a b, tmpName a ≠ genName b)
include hinj hdis

/-- a crash between the rename and the deletion of the previous generation. -/
theorem lru_mid_image (gens : List Nat) (gen prev : Nat) (bs : Bytes) (d0 : Dir N)
    (hgen : gen ∈ gens) (hdur : ∀ g ∈ gens, Durable d0 (genName g)) {img : N → Option Bytes}
    (hi : CrashImage (run d0 (atomicReplace (tmpName gen) (genName gen) bs)) img) :
    lruLoad genName deser gens img = lruLoad genName deser gens (dataOf d0) ∨
    lruLoad genName deser gens img =
      lruLoad genName deser gens (dataOf (run d0 (lruCheckpoint genName tmpName gen prev bs))) := by
  have hTF : tmpName gen ≠ genName gen := hdis gen gen
  obtain ⟨hF, _, hO⟩ := atomicReplace_run d0 bs hTF
  -- the image agrees with the mid state on every generation file
  have himg : ∀ g ∈ gens, img (genName g) = dataOf (run d0 (atomicReplace (tmpName gen) (genName gen) bs)) (genName g) := by
    intro g hg
    apply crashImage_durable hi
    by_cases hge : g = gen
    · subst hge; exact durable_of_synced hF
    · have h1 : genName g ≠ genName gen := fun e => hge (hinj _ _ e)
      have h2 : genName g ≠ tmpName gen := fun e => hdis gen g e.symm
      exact durable_of_eq (hO _ h2 h1) (hdur g hg)
  rw [lruLoad_congr genName deser gens himg]
  apply lruLoad_mid genName deser gens gen bs hgen
  · simp [dataOf, hF]
  · intro g hg hge
    have h1 : genName g ≠ genName gen := fun e => hge (hinj _ _ e)
    have h2 : genName g ≠ tmpName gen := fun e => hdis gen g e.symm
    simp [dataOf, hO _ h2 h1]
  · unfold lruCheckpoint lruDeletePrev
    rw [run_append]
    by_cases hg : prev ≠ 0 ∧ prev ≠ gen
    · rw [if_pos hg]
      have : genName gen ≠ genName prev := fun e => hg.2 (hinj _ _ e).symm
      simp [dataOf, run, step, upd_other _ _ this]
    · rw [if_neg hg]; rfl
  · intro g _
    unfold lruCheckpoint lruDeletePrev
    rw [run_append]
    by_cases hg : prev ≠ 0 ∧ prev ≠ gen
    · rw [if_pos hg]
      by_cases hgp : genName g = genName prev
      · simp [dataOf, run, step, hgp]
      · simp [dataOf, run, step, upd_other _ _ hgp]
    · rw [if_neg hg]; exact id

/-- LRU checkpoint (repaired protocol): at every crash point the loader returns what it returned
before the save or what it returns after the complete save. -/
theorem lru_checkpoint_crash_safe' (gens : List Nat) (gen prev : Nat) (bs : Bytes) (d0 : Dir N)
    (hgen : gen ∈ gens) (hdur : ∀ g ∈ gens, Durable d0 (genName g)) {img : N → Option Bytes}
    (hc : Crash (lruCheckpoint genName tmpName gen prev bs) d0 img) :
    lruLoad genName deser gens img = lruLoad genName deser gens (dataOf d0) ∨
    lruLoad genName deser gens img =
      lruLoad genName deser gens (dataOf (run d0 (lruCheckpoint genName tmpName gen prev bs))) := by
  obtain ⟨p, hcut, hi⟩ := hc
  have hmid := @lru_mid_image N _ S genName tmpName deser hinj hdis gens gen prev bs d0 hgen hdur
  unfold lruCheckpoint at hcut
  rcases cut_append hcut with h | ⟨p2, rfl, h2⟩
  · have h' : Cut ([] ++ atomicReplace (tmpName gen) (genName gen) bs) p := h
    rcases replace_cut d0 bs (onlyTmp_nil (tmpName gen)) h' with hl | hr
    · left
      apply lruLoad_congr
      intro g hg
      have h2 : genName g ≠ tmpName gen := fun e => hdis gen g e.symm
      exact image_eq_of_state_eq hi (hl _ h2) (hdur g hg)
    · rw [List.nil_append] at hr; subst hr; exact hmid hi
  · unfold lruDeletePrev at h2
    by_cases hg : prev ≠ 0 ∧ prev ≠ gen
    · rw [if_pos hg] at h2
      cases h2 with
      | stop _ => rw [List.append_nil] at hi; exact hmid hi
      | next _ h3 =>
        right
        rw [cut_nil h3] at hi
        apply lruLoad_congr
        intro g hgm
        have hfin : run d0 (lruCheckpoint genName tmpName gen prev bs) =
            run d0 (atomicReplace (tmpName gen) (genName gen) bs ++ [Op.unlink (genName prev)]) := by
          unfold lruCheckpoint lruDeletePrev; rw [if_pos hg]
        rw [hfin]
        apply crashImage_durable hi
        -- every generation file of the final state is durable
        have hTF : tmpName gen ≠ genName gen := hdis gen gen
        obtain ⟨hF, _, hO⟩ := atomicReplace_run d0 bs hTF
        rw [run_append]
        intro f hf
        by_cases hgp : genName g = genName prev
        · simp [run, step, hgp] at hf
        · simp only [run, List.foldl_cons, List.foldl_nil, step] at hf
          rw [upd_other _ _ hgp] at hf
          by_cases hge : g = gen
          · subst hge; exact durable_of_synced hF f hf
          · have h1 : genName g ≠ genName gen := fun e => hge (hinj _ _ e)
            have h2 : genName g ≠ tmpName gen := fun e => hdis gen g e.symm
            exact durable_of_eq (hO _ h2 h1) (hdur g hgm) f hf
    · rw [if_neg hg] at h2
      rw [cut_nil h2, List.append_nil] at hi; exact hmid hi

end lru

/-! ## calls (what the tracer sees) vs operations (what the crash theorems are about) -/

theorem effOps_append (a b : List (Call N)) : effOps (a ++ b) = effOps a ++ effOps b := by
  simp [effOps]

theorem effOps_map_did (t : List (Op N)) : effOps (t.map Call.did) = t := by
  induction t with
  | nil => rfl
  | cons o t ih => simp only [List.map_cons, effOps, List.flatMap_cons, Call.eff] at *; rw [ih]; rfl

theorem attemptCalls_eff (tmp fin : N) (bs : Bytes) (a : Attempt) :
    effOps (attemptCalls tmp fin bs a) =
      (match a with
       | .ok => atomicReplace tmp fin bs
       | a => failedAttemptOps tmp bs a) := by
  cases a with
  | ok => simp only [attemptCalls, effOps_map_did]
  | _ => simp [attemptCalls, failedAttemptOps, effOps, Call.eff]

/-- the calls of `save_index`, failed ones dropped, are the operations `save_index_crash_safe` is
about — for every fuel and every outcome list. -/
theorem saveIndexCalls_eff (tmp fin : N) (bs : Bytes) : ∀ (fuel : Nat) (outs : List Attempt),
    effOps (saveIndexCalls tmp fin bs fuel outs) = saveIndexOps tmp fin bs fuel outs := by
  intro fuel
  induction fuel with
  | zero => intro outs; rfl
  | succ f ih =>
    intro outs
    match outs with
    | [] => simp [saveIndexCalls, saveIndexOps, attemptCalls, effOps_map_did]
    | .ok :: _ => simp [saveIndexCalls, saveIndexOps, attemptCalls, effOps_map_did]
    | .failCreate :: rest =>
      simp only [saveIndexCalls, saveIndexOps, effOps_append, ih rest, attemptCalls_eff]
      simp [effOps, Call.eff]
    | .failWrite k :: rest =>
      simp only [saveIndexCalls, saveIndexOps, effOps_append, ih rest, attemptCalls_eff]
      simp [effOps, Call.eff]
    | .failSync :: rest =>
      simp only [saveIndexCalls, saveIndexOps, effOps_append, ih rest, attemptCalls_eff]
      simp [effOps, Call.eff]
    | .failRename :: rest =>
      simp only [saveIndexCalls, saveIndexOps, effOps_append, ih rest, attemptCalls_eff]
      simp [effOps, Call.eff]

theorem saveAllCalls_eff (bs : List (BucketSave N)) : effOps (saveAllCalls bs) = saveAll bs := by
  induction bs with
  | nil => rfl
  | cons b rest ih =>
    simp only [saveAllCalls, saveAll, effOps_append, saveIndex, saveIndexCalls_eff]
    split
    · rw [ih]
    · rfl

/-- every `(i, k)` the driver and the harness enumerate over a CALL list is a crash prefix of the
operations the calls perform. -/
theorem cutAtCalls_is_cut' (cs : List (Call N)) (i k : Nat) : Cut (effOps cs) (cutAtCalls cs i k) := by
  induction i generalizing cs with
  | zero =>
    unfold cutAtCalls
    simp only [List.take_zero, List.drop_zero]
    match cs with
    | [] => exact Cut.stop _
    | .did (.write n bs) :: rest =>
      simp only [effOps, List.flatMap_nil, List.flatMap_cons, Call.eff, List.nil_append, List.cons_append]
      split
      · exact Cut.stop _
      · exact Cut.tear _ _ _ _
    | .did (.create _) :: _ => exact Cut.stop _
    | .did (.openAppend _) :: _ => exact Cut.stop _
    | .did (.fsync _) :: _ => exact Cut.stop _
    | .did (.rename _ _) :: _ => exact Cut.stop _
    | .did (.unlink _) :: _ => exact Cut.stop _
    | .failed _ :: _ => exact Cut.stop _
  | succ i ih =>
    match cs with
    | [] => exact Cut.stop _
    | .did o :: rest =>
      have : cutAtCalls (.did o :: rest) (i + 1) k = o :: cutAtCalls rest i k := by
        unfold cutAtCalls; simp [effOps, Call.eff]
      rw [this]
      have h2 : effOps (.did o :: rest) = o :: effOps rest := by simp [effOps, Call.eff]
      rw [h2]
      exact Cut.next o (ih rest)
    | .failed o :: rest =>
      have : cutAtCalls (.failed o :: rest) (i + 1) k = cutAtCalls rest i k := by
        unfold cutAtCalls; simp [effOps, Call.eff]
      rw [this]
      have h2 : effOps (.failed o :: rest) = effOps rest := by simp [effOps, Call.eff]
      rw [h2]
      exact ih rest

/-! ## appends to one file (the compaction journal) -/

theorem take_len_add {α : Type} (w r : List α) (k : Nat) : (w ++ r).take (w.length + k) = w ++ r.take k := by
  induction w with
  | nil => simp
  | cons a w ih => simp only [List.cons_append, List.length_cons]; rw [show w.length + 1 + k = (w.length + k) + 1 by omega, List.take_succ_cons, ih]

/-- all of `ws` appended to `name`, the last one possibly torn: the file holds its former content
plus a prefix of the concatenation; its synced length does not change. -/
theorem writes_cut (name : N) (ws : List Bytes) : ∀ {p : List (Op N)}, Cut (ws.map (Op.write name)) p →
    ∃ k, ∀ (d : Dir N) (f : File), d name = some f →
      run d p name = some { f with data := f.data ++ ws.flatten.take k } := by
  induction ws with
  | nil =>
    intro p hc
    have : p = [] := cut_nil (by simpa using hc)
    subst this
    exact ⟨0, fun d f h => by simp [run_nil, h]⟩
  | cons w ws ih =>
    intro p hc
    simp only [List.map_cons] at hc
    cases hc with
    | stop _ => exact ⟨0, fun d f h => by simp [run_nil, h]⟩
    | tear _ _ k _ =>
      refine ⟨min k w.length, fun d f h => ?_⟩
      simp only [run, List.foldl_cons, List.foldl_nil, step, h, upd_same, List.flatten_cons]
      rw [List.take_append_of_le_length (Nat.min_le_right _ _)]
      congr 3
      rw [List.take_eq_take_iff]; simp [Nat.min_comm]
    | next _ hc' =>
      obtain ⟨k, hk⟩ := ih hc'
      refine ⟨w.length + k, fun d f h => ?_⟩
      rw [run_cons]
      have h1 : step d (.write name w) name = some { f with data := f.data ++ w } := by
        simp [step, h]
      rw [hk _ _ h1]
      simp only [List.flatten_cons, take_len_add, List.append_assoc]


end Cascette.Proofs.SaveProtocols
