/-
Proofs/SerialDl — whole-file lemmas for the download manifest model `Model.Serial.DFile`
(V1–V3, raw `has_checksum` byte, base-priority byte and reserved bytes kept as the Rust header
structs keep them): entry inversion (`parseDEntry_inv`), `parseDFile_ser`, `parseDFile_inv`,
`dfileValid_of_wf`. Property C08.
-/
import Cascette.Proofs.Serial
namespace Cascette.Proofs.Serial
open Cascette Cascette.Model.Manifest Cascette.Model.Serial Cascette.Proofs.Manifest

theorem len5 {l : Bytes} (h : l.length = 5) : ∃ a b c d e, l = [a, b, c, d, e] := by
  match l, h with
  | [a, b, c, d, e], _ => exact ⟨a, b, c, d, e, rfl⟩

theorem len11 {l : Bytes} (h : l.length = 11) :
    ∃ a b c d e f g i j k m, l = [a, b, c, d, e, f, g, i, j, k, m] := by
  match l, h with
  | [a, b, c, d, e, f, g, i, j, k, m], _ => exact ⟨a, b, c, d, e, f, g, i, j, k, m, rfl⟩

theorem be40_rdBe (a b c d e : Byte) : be40 (rdBe [a, b, c, d, e]) = [a, b, c, d, e] := by
  simp only [rdBe, be40, List.foldl_cons, List.foldl_nil, List.cons.injEq, and_true]
  refine ⟨?_, ?_, ?_, ?_, ?_⟩ <;> apply BitVec.eq_of_toNat_eq <;> simp only [BitVec.toNat_ofNat] <;> omega

theorem rdBe5_le (a b c d e : Byte) : rdBe [a, b, c, d, e] ≤ max40 := by
  unfold max40
  simp only [rdBe, List.foldl_cons, List.foldl_nil]; omega

/-- an `i8` read from a byte goes back to that byte -/
theorem i8Byte_byteI8 (b : Byte) : i8Byte (byteI8 b) = b := by
  unfold i8Byte byteI8
  exact BitVec.ofInt_toInt

theorem byteI8_range (b : Byte) : -128 ≤ byteI8 b ∧ byteI8 b ≤ 127 := by
  unfold byteI8 BitVec.toInt
  have := b.isLt
  split <;> omega

/-- every input the entry reader accepts is the serialisation of the entry it returns followed by
the unread rest, and the entry is well formed for the header settings -/
theorem parseDEntry_inv {hc : Bool} {fs : Nat} {bs r : Bytes} {e : DEntry}
    (h : parseDEntry hc fs bs = some (e, r)) :
    bs = serDEntry hc fs e ++ r ∧ DEntryWf hc fs e := by
  unfold parseDEntry at h
  cases h1 : readN 16 bs with
  | none => simp [h1] at h
  | some q1 =>
    obtain ⟨key, r1⟩ := q1
    simp only [h1] at h
    cases h2 : readN 5 r1 with
    | none => simp [h2] at h
    | some q2 =>
      obtain ⟨sz, r2⟩ := q2
      simp only [h2] at h
      obtain ⟨e1, l1⟩ := readN_inv h1
      obtain ⟨e2, l2⟩ := readN_inv h2
      obtain ⟨s0, s1, s2, s3, s4, rfl⟩ := len5 l2
      cases r2 with
      | nil => simp at h
      | cons pb r3 =>
        simp only at h
        have hp := byteI8_range pb
        cases hc with
        | true =>
          simp only [if_true] at h
          cases h4 : readN 4 r3 with
          | none => simp [h4] at h
          | some q4 =>
            obtain ⟨c, r4⟩ := q4
            simp only [h4] at h
            obtain ⟨e4, l4⟩ := readN_inv h4
            obtain ⟨c0, c1, c2, c3, rfl⟩ := len4 l4
            by_cases hfs : fs > 0
            · simp only [hfs, if_true] at h
              cases h5 : readN fs r4 with
              | none => simp [h5] at h
              | some q5 =>
                obtain ⟨f, r5⟩ := q5
                simp only [h5, Option.some.injEq, Prod.mk.injEq] at h
                obtain ⟨rfl, rfl⟩ := h
                obtain ⟨e5, l5⟩ := readN_inv h5
                refine ⟨?_, ⟨l1, rdBe5_le _ _ _ _ _, hp.1, hp.2, ?_, ?_⟩⟩
                · simp only [serDEntry, be40_rdBe, be32_rdBe, i8Byte_byteI8, hfs, if_true]
                  rw [e1, e2, e4, e5]; simp
                · simp only [if_true]; exact ⟨_, rfl, rdBe4_lt _ _ _ _⟩
                · simp only [hfs, if_true]; exact ⟨_, rfl, l5⟩
            · simp only [hfs, if_false, Option.some.injEq, Prod.mk.injEq] at h
              obtain ⟨rfl, rfl⟩ := h
              refine ⟨?_, ⟨l1, rdBe5_le _ _ _ _ _, hp.1, hp.2, ?_, ?_⟩⟩
              · simp only [serDEntry, be40_rdBe, be32_rdBe, i8Byte_byteI8, hfs, if_true, if_false]
                rw [e1, e2, e4]; simp
              · simp only [if_true]; exact ⟨_, rfl, rdBe4_lt _ _ _ _⟩
              · simp only [hfs, if_false]
        | false =>
          simp only [Bool.false_eq_true, if_false] at h
          by_cases hfs : fs > 0
          · simp only [hfs, if_true] at h
            cases h5 : readN fs r3 with
            | none => simp [h5] at h
            | some q5 =>
              obtain ⟨f, r5⟩ := q5
              simp only [h5, Option.some.injEq, Prod.mk.injEq] at h
              obtain ⟨rfl, rfl⟩ := h
              obtain ⟨e5, l5⟩ := readN_inv h5
              refine ⟨?_, ⟨l1, rdBe5_le _ _ _ _ _, hp.1, hp.2, ?_, ?_⟩⟩
              · simp only [serDEntry, be40_rdBe, i8Byte_byteI8, hfs, if_true, Bool.false_eq_true, if_false]
                rw [e1, e2, e5]; simp
              · simp only [Bool.false_eq_true, if_false]
              · simp only [hfs, if_true]; exact ⟨_, rfl, l5⟩
          · simp only [hfs, if_false, Option.some.injEq, Prod.mk.injEq] at h
            obtain ⟨rfl, rfl⟩ := h
            refine ⟨?_, ⟨l1, rdBe5_le _ _ _ _ _, hp.1, hp.2, ?_, ?_⟩⟩
            · simp only [serDEntry, be40_rdBe, i8Byte_byteI8, hfs, Bool.false_eq_true, if_false]
              rw [e1, e2]; simp
            · simp only [Bool.false_eq_true, if_false]
            · simp only [hfs, if_false]


/-! ### whole file -/

/-- well-formed download manifest value with the raw header bytes (what `parse` establishes) -/
structure DWf (f : DFile) : Prop where
  version : f.version = 1 ∨ f.version = 2 ∨ f.version = 3
  flagSize : f.flagSize ≤ 4
  flagsV1 : f.version = 1 → f.flagSize = 0
  bpV : f.version ≠ 3 → f.bp = 0
  rsv : if f.version = 3 then f.rsv.length = 3 else f.rsv = []
  tagCount : f.tags.length < 65536
  entryCount : f.entries.length < 4294967296
  tags : ∀ t ∈ f.tags, TagWf f.entries.length t
  names : (f.tags.all fun t => validUtf8 t.name) = true
  entries : ∀ e ∈ f.entries, DEntryWf f.hasCks f.flagSize e

theorem len3 {l : Bytes} (h : l.length = 3) : ∃ a b c, l = [a, b, c] := by
  match l, h with
  | [a, b, c], _ => exact ⟨a, b, c, rfl⟩

/-- `DownloadManifest::parse(build(f)) = f` on the raw-header structure, versions 1–3, any
`has_checksum` byte, any trailing bytes -/
theorem parseDFile_ser (f : DFile) (h : DWf f) (trail : Bytes) :
    parseDFile (serDFile f ++ trail) = some f := by
  obtain ⟨version, hc, flagSize, bp, rsv, entries, tags⟩ := f
  obtain ⟨a, b, hab⟩ := be16_eq tags.length
  obtain ⟨c0, c1, c2, c3, hcc⟩ := be32_eq entries.length
  have hT := h.tags
  have hE := h.entries
  have htc := h.tagCount
  have hec := h.entryCount
  have hfs := h.flagSize
  have hf1 := h.flagsV1
  have hbv := h.bpV
  have hrs := h.rsv
  have hn := h.names
  simp only [DFile.hasCks] at hT hE htc hec hfs hf1 hbv hrs hn
  have rab : rdBe [a, b] = tags.length := by rw [← hab]; exact rdBe_be16 _ htc
  have rc : rdBe [c0, c1, c2, c3] = entries.length := by rw [← hcc]; exact rdBe_be32 _ hec
  have pT : ∀ r, parseMany (parseTag entries.length) tags.length ((tags.map serTag).flatten ++ r) = some (tags, r) :=
    fun r => parseMany_ser _ _ _ _ (fun t ht r' => parseTag_ser _ _ _ (hT t ht))
  have pE : ∀ r, parseMany (parseDEntry (hc != 0) flagSize) entries.length
      ((entries.map (serDEntry (hc != 0) flagSize)).flatten ++ r) = some (entries, r) :=
    fun r => parseMany_ser _ _ _ _ (fun e he r' => parseDEntry_ser _ _ _ _ (hE e he))
  have hfm : (BitVec.ofNat 8 flagSize : Byte).toNat = flagSize := by
    simp only [BitVec.toNat_ofNat]; omega
  have hnf : ¬ flagSize > 4 := by omega
  unfold parseDFile serDFile serDExt
  simp only [DFile.hasCks]
  rw [hab, hcc]
  rcases h.version with hv | hv | hv <;> simp only at hv <;> subst hv
  · have hf0 := hf1 rfl
    have hb0 := hbv (by omega)
    subst hf0 hb0
    simp only [show ¬ ((1 : Nat) = 3) by omega, if_false] at hrs
    subst hrs
    have e1 : [0x44, 0x4C, BitVec.ofNat 8 1, 16, hc] ++ [c0, c1, c2, c3] ++ [a, b] ++
        (if (1 : Nat) = 2 then [BitVec.ofNat 8 0] else if (1 : Nat) = 3 then [BitVec.ofNat 8 0, (0 : Byte)] ++ [] else []) ++
        (entries.map (serDEntry (hc != 0) 0)).flatten ++ (tags.map serTag).flatten ++ trail
        = [0x44, 0x4C, BitVec.ofNat 8 1, 16, hc, c0, c1, c2, c3, a, b] ++
          ((entries.map (serDEntry (hc != 0) 0)).flatten ++ ((tags.map serTag).flatten ++ trail)) := by simp
    rw [e1, readN_append 11 _ _ rfl]
    simp only [rab, rc]
    simp only [parseDExt, show (BitVec.ofNat 8 1 : Byte).toNat = 1 from rfl, if_true,
      ne_eq, not_true_eq_false, or_self, if_false, show ¬ (0 > 4) by omega]
    rw [pE]
    simp only
    rw [pT]
    simp only [hn, if_true]
  · have hb0 := hbv (by omega)
    subst hb0
    simp only [show ¬ ((2 : Nat) = 3) by omega, if_false] at hrs
    subst hrs
    have e1 : [0x44, 0x4C, BitVec.ofNat 8 2, 16, hc] ++ [c0, c1, c2, c3] ++ [a, b] ++
        (if (2 : Nat) = 2 then [BitVec.ofNat 8 flagSize] else if (2 : Nat) = 3 then [BitVec.ofNat 8 flagSize, (0 : Byte)] ++ [] else []) ++
        (entries.map (serDEntry (hc != 0) flagSize)).flatten ++ (tags.map serTag).flatten ++ trail
        = [0x44, 0x4C, BitVec.ofNat 8 2, 16, hc, c0, c1, c2, c3, a, b] ++
          (BitVec.ofNat 8 flagSize :: ((entries.map (serDEntry (hc != 0) flagSize)).flatten ++ ((tags.map serTag).flatten ++ trail))) := by simp
    rw [e1, readN_append 11 _ _ rfl]
    simp only [rab, rc]
    simp only [parseDExt, show (BitVec.ofNat 8 2 : Byte).toNat = 2 from rfl, show ¬ ((2 : Nat) = 1) by omega,
      if_true, if_false, ne_eq, not_true_eq_false, or_self, hfm, hnf]
    rw [pE]
    simp only
    rw [pT]
    simp only [hn, if_true]
  · simp only [if_true] at hrs
    obtain ⟨r0, r1, r2, rfl⟩ := len3 hrs
    have e1 : [0x44, 0x4C, BitVec.ofNat 8 3, 16, hc] ++ [c0, c1, c2, c3] ++ [a, b] ++
        (if (3 : Nat) = 2 then [BitVec.ofNat 8 flagSize] else if (3 : Nat) = 3 then [BitVec.ofNat 8 flagSize, bp] ++ [r0, r1, r2] else []) ++
        (entries.map (serDEntry (hc != 0) flagSize)).flatten ++ (tags.map serTag).flatten ++ trail
        = [0x44, 0x4C, BitVec.ofNat 8 3, 16, hc, c0, c1, c2, c3, a, b] ++
          (BitVec.ofNat 8 flagSize :: bp :: r0 :: r1 :: r2 :: ((entries.map (serDEntry (hc != 0) flagSize)).flatten ++ ((tags.map serTag).flatten ++ trail))) := by simp
    rw [e1, readN_append 11 _ _ rfl]
    simp only [rab, rc]
    simp only [parseDExt, show (BitVec.ofNat 8 3 : Byte).toNat = 3 from rfl, show ¬ ((3 : Nat) = 1) by omega,
      show ¬ ((3 : Nat) = 2) by omega, if_true, if_false, ne_eq, not_true_eq_false, or_self, hfm, hnf]
    rw [pE]
    simp only
    rw [pT]
    simp only [hn, if_true]

theorem ne_of_not_or_l {a b : Byte} {x y : Byte} (h : ¬ (a ≠ x ∨ b ≠ y)) : a = x ∧ b = y := by
  constructor
  · by_cases q : a = x
    · exact q
    · exact absurd (Or.inl q) h
  · by_cases q : b = y
    · exact q
    · exact absurd (Or.inr q) h

/-- every input `DownloadManifest::parse` accepts is the serialisation of the parsed value followed
by ignored trailing bytes, and the parsed value is well formed -/
theorem parseDFile_inv {bs : Bytes} {f : DFile} (h : parseDFile bs = some f) :
    DWf f ∧ ∃ t, bs = serDFile f ++ t := by
  unfold parseDFile at h
  cases h0 : readN 11 bs with
  | none => simp [h0] at h
  | some q =>
    obtain ⟨hd, r0⟩ := q
    obtain ⟨e0, l0⟩ := readN_inv h0
    obtain ⟨m0, m1, ver, ekl, hc, c0, c1, c2, c3, t0, t1, rfl⟩ := len11 l0
    simp only [h0] at h
    by_cases hm : m0 ≠ 0x44 ∨ m1 ≠ 0x4C
    · rw [if_pos hm] at h; cases h
    · rw [if_neg hm] at h
      obtain ⟨hm0, hm1⟩ := ne_of_not_or_l hm
      subst hm0 hm1
      cases hx : parseDExt ver.toNat r0 with
      | none => simp [hx] at h
      | some qx =>
        obtain ⟨⟨flagSize, bp, rsv⟩, r1⟩ := qx
        simp only [hx] at h
        by_cases hek : ekl ≠ 16
        · rw [if_pos hek] at h; cases h
        · rw [if_neg hek] at h
          have hek' : ekl = 16 := by
            by_cases x : ekl = 16
            · exact x
            · exact absurd x hek
          subst hek'
          by_cases hfs : flagSize > 4
          · rw [if_pos hfs] at h; cases h
          · rw [if_neg hfs] at h
            cases hE : parseMany (parseDEntry (hc != 0) flagSize) (rdBe [c0, c1, c2, c3]) r1 with
            | none => rw [hE] at h; simp at h
            | some qE =>
              obtain ⟨entries, r2⟩ := qE
              simp only [hE] at h
              cases hT : parseMany (parseTag (rdBe [c0, c1, c2, c3])) (rdBe [t0, t1]) r2 with
              | none => rw [hT] at h; simp at h
              | some qT =>
                obtain ⟨tags, r3⟩ := qT
                simp only [hT] at h
                by_cases hu : (tags.all fun t => validUtf8 t.name) = true
                · rw [if_pos hu] at h
                  simp only [Option.some.injEq] at h
                  subst h
                  obtain ⟨eE, lE, wE⟩ := parseMany_inv _ (serDEntry (hc != 0) flagSize)
                    (DEntryWf (hc != 0) flagSize) (fun b x r hh => parseDEntry_inv hh) _ _ _ _ hE
                  obtain ⟨eT, lT, wT⟩ := parseMany_inv _ serTag (TagWf (rdBe [c0, c1, c2, c3]))
                    (fun b x r hh => parseTag_inv hh) _ _ _ _ hT
                  -- the header extension, by version
                  unfold parseDExt at hx
                  by_cases hv1 : ver.toNat = 1
                  · simp only [hv1, if_true, Option.some.injEq, Prod.mk.injEq] at hx
                    obtain ⟨⟨rfl, rfl, rfl⟩, rfl⟩ := hx
                    refine ⟨⟨Or.inl hv1, by simp, fun _ => rfl, fun _ => rfl, ?_,
                      by rw [lT]; exact rdBe2_lt _ _, by rw [lE]; exact rdBe4_lt _ _ _ _,
                      by rw [lE]; exact wT, hu, wE⟩, r3, ?_⟩
                    · simp only [hv1, show ¬ ((1 : Nat) = 3) by omega, if_false]
                    · simp only [serDFile, serDExt, DFile.hasCks, lT, lE, be16_rdBe, be32_rdBe, hv1,
                        show ¬ ((1 : Nat) = 2) by omega, show ¬ ((1 : Nat) = 3) by omega, if_false]
                      rw [← hv1, ofNat_toNat8, e0, eE, eT]; simp
                  · simp only [hv1, if_false] at hx
                    by_cases hv2 : ver.toNat = 2
                    · simp only [hv2, if_true] at hx
                      cases r0 with
                      | nil => simp at hx
                      | cons fsb r0' =>
                        simp only [Option.some.injEq, Prod.mk.injEq] at hx
                        obtain ⟨⟨rfl, rfl, rfl⟩, rfl⟩ := hx
                        refine ⟨⟨Or.inr (Or.inl hv2), by simp only; omega, fun x => absurd x (by simp only; omega),
                          fun _ => rfl, ?_,
                          by rw [lT]; exact rdBe2_lt _ _, by rw [lE]; exact rdBe4_lt _ _ _ _,
                          by rw [lE]; exact wT, hu, wE⟩, r3, ?_⟩
                        · simp only [hv2, show ¬ ((2 : Nat) = 3) by omega, if_false]
                        · simp only [serDFile, serDExt, DFile.hasCks, lT, lE, be16_rdBe, be32_rdBe, hv2,
                            if_true, ofNat_toNat8]
                          rw [← hv2, ofNat_toNat8, e0, eE, eT]; simp
                    · simp only [hv2, if_false] at hx
                      by_cases hv3 : ver.toNat = 3
                      · simp only [hv3, if_true] at hx
                        match r0, hx with
                        | fsb :: bpb :: x0 :: x1 :: x2 :: r0', hx =>
                          simp only [Option.some.injEq, Prod.mk.injEq] at hx
                          obtain ⟨⟨rfl, rfl, rfl⟩, rfl⟩ := hx
                          refine ⟨⟨Or.inr (Or.inr hv3), by simp only; omega, fun x => absurd x (by simp only; omega),
                            fun x => absurd hv3 x, ?_,
                            by rw [lT]; exact rdBe2_lt _ _, by rw [lE]; exact rdBe4_lt _ _ _ _,
                            by rw [lE]; exact wT, hu, wE⟩, r3, ?_⟩
                          · simp only [hv3, if_true, List.length_cons, List.length_nil]
                          · simp only [serDFile, serDExt, DFile.hasCks, lT, lE, be16_rdBe, be32_rdBe, hv3,
                              show ¬ ((3 : Nat) = 2) by omega, if_true, if_false, ofNat_toNat8]
                            rw [← hv3, ofNat_toNat8, e0, eE, eT]; simp
                      · simp [hv3] at hx
                · rw [if_neg hu] at h; cases h

/-- a well-formed value passes `DownloadManifest::validate` (the guard at the start of `build`) -/
theorem dfileValid_of_wf (f : DFile) (h : DWf f) : dfileValid f = true := by
  obtain ⟨version, hc, flagSize, bp, rsv, entries, tags⟩ := f
  have hT := h.tags
  have hE := h.entries
  have htc := h.tagCount
  have hec := h.entryCount
  have hfs := h.flagSize
  simp only [DFile.hasCks] at hT hE htc hec hfs
  have hall : (tags.all fun t => t.mask.length == maskSize entries.length) = true := by
    rw [List.all_eq_true]; intro t ht; simp only [beq_iff_eq]; exact (hT t ht).len
  have hfe : ∀ es : List DEntry, (∀ e ∈ es, DEntryWf (hc != 0) flagSize e) →
      firstErr (dlEntryCheck (hc != 0) flagSize) es = none := by
    intro es
    induction es with
    | nil => intro _; rfl
    | cons e es ih =>
      intro hw
      have w := hw e List.mem_cons_self
      have hck : dlEntryCheck (hc != 0) flagSize e = none := by
        obtain ⟨key, size, prio, cks, flags⟩ := e
        have wc := w.cks
        have wf := w.flags
        simp only at wc wf
        unfold dlEntryCheck
        cases hb : (hc != 0) with
        | true =>
          rw [hb] at wc
          simp only [if_true] at wc
          obtain ⟨c, rfl, _⟩ := wc
          by_cases hz : flagSize > 0
          · rw [if_pos hz] at wf
            obtain ⟨fl, rfl, hl⟩ := wf
            have : ¬ flagSize = 0 := by omega
            simp [hl, this]
          · rw [if_neg hz] at wf
            subst wf
            simp [hz]
        | false =>
          rw [hb] at wc
          simp only [Bool.false_eq_true, if_false] at wc
          subst wc
          by_cases hz : flagSize > 0
          · rw [if_pos hz] at wf
            obtain ⟨fl, rfl, hl⟩ := wf
            have : ¬ flagSize = 0 := by omega
            simp [hl, this]
          · rw [if_neg hz] at wf
            subst wf
            simp [hz]
      simp only [firstErr, hck]
      exact ih (fun x hx => hw x (List.mem_cons_of_mem _ hx))
  unfold dfileValid
  simp only [DFile.hasCks, hall, hfe entries hE, Option.isNone_none, Bool.and_true]
  rcases h.version with hv | hv | hv <;> simp only at hv <;> subst hv <;> simp [hfs, hec, htc]

/-! ### builder form: the value `DownloadManifestBuilder::build` produces (C19's `DManifest`) -/

/-- the raw-header value of a builder-made manifest: `has_checksum` is written as 0/1, the base
priority as its byte, the reserved bytes as zeros (`DownloadHeader::new_v1/v2/v3`) -/
def DFile.ofManifest (m : DManifest) : DFile :=
  ⟨m.version, if m.hasCks then 1 else 0, m.flagSize, i8Byte m.basePrio,
   if m.version = 3 then [0, 0, 0] else [], m.entries, m.tags⟩

theorem ofManifest_hasCks (m : DManifest) : (DFile.ofManifest m).hasCks = m.hasCks := by
  unfold DFile.ofManifest DFile.hasCks
  cases m.hasCks <;> simp

theorem serDFile_ofManifest (m : DManifest) (h : DManifestWf m) :
    serDFile (DFile.ofManifest m) = serDownload m := by
  have hh := ofManifest_hasCks m
  obtain ⟨version, hasCks, flagSize, basePrio, entries, tags⟩ := m
  unfold serDFile serDownload serDExt
  rw [hh]
  simp only [DFile.ofManifest]
  rcases h.version with hv | hv | hv <;> simp only at hv <;> subst hv <;> simp

theorem wf_ofManifest (m : DManifest) (h : DManifestWf m)
    (hn : (m.tags.all fun t => validUtf8 t.name) = true) : DWf (DFile.ofManifest m) := by
  have hh := ofManifest_hasCks m
  refine ⟨h.version, h.flagSize, h.flagsV1, ?_, ?_, h.tagCount, h.entryCount, h.tags, hn, ?_⟩
  · intro hv
    have := h.baseV hv
    simp only [DFile.ofManifest, this]
    rfl
  · simp only [DFile.ofManifest]
    split <;> simp
  · rw [hh]; exact h.entries

end Cascette.Proofs.Serial
