/-
Proofs/Zbsdiff — lemmas about the whole-patch layer of Model/Zbsdiff: two's-complement header
fields, header / container round trips, `build_patch_internal` followed by the decode prefix of
both apply entry points, the compiled `offtout` on the whole i64 range, and the streaming patcher
over a short-reading `Read + Seek` source.
-/
import Cascette.Model.Zbsdiff
import Cascette.Proofs.Bspatch
namespace Cascette.Proofs.Zbsdiff
open Cascette
open Cascette.Spec.Bspatch
open Cascette.Model.Bspatch
open Cascette.Model.Zbsdiff
open Cascette.Proofs.Bspatch

theorem natLe_length (k n : Nat) : (natLe k n).length = k := by
  induction k generalizing n with
  | zero => rfl
  | succ k ih => simp [natLe, ih]

theorem leNat_natLe (k n : Nat) : leNat (natLe k n) = n % 256 ^ k := by
  induction k generalizing n with
  | zero => simp [natLe, leNat, Nat.mod_one]
  | succ k ih =>
    simp only [natLe, leNat, ih, BitVec.toNat_ofNat]
    rw [show (256 : Nat) ^ (k + 1) = 256 * 256 ^ k from Nat.pow_succ', Nat.mod_mul]

theorem leNat_lt (b : Bytes) : leNat b < 256 ^ b.length := by
  induction b with
  | nil => simp [leNat]
  | cons x xs ih =>
    simp only [leNat, List.length_cons, Nat.pow_succ]
    have := x.isLt
    omega

theorem natLe_leNat (b : Bytes) : natLe b.length (leNat b) = b := by
  induction b with
  | nil => rfl
  | cons x xs ih =>
    simp only [List.length_cons, natLe, leNat]
    have h1 : BitVec.ofNat 8 (x.toNat + 256 * leNat xs) = x := by
      apply BitVec.eq_of_toNat_eq
      simp only [BitVec.toNat_ofNat]
      have := x.isLt
      omega
    have h2 : (x.toNat + 256 * leNat xs) / 256 = leNat xs := by
      have := x.isLt
      omega
    rw [h1, h2, ih]

theorem i64Le_length (v : Int) : (i64Le v).length = 8 := natLe_length 8 _

/-- `i64::from_le_bytes(v.to_le_bytes()) = v` on the i64 range. -/
theorem i64_roundtrip (v : Int) (h1 : -(2 ^ 63) ≤ v) (h2 : v < 2 ^ 63) : i64OfLe (i64Le v) = v := by
  unfold i64OfLe i64Le
  simp only [leNat_natLe]
  have e : (256 : Nat) ^ 8 = 2 ^ 64 := by decide
  rw [e]
  have hnn : 0 ≤ v % 2 ^ 64 := Int.emod_nonneg _ (by decide)
  have hlt : v % 2 ^ 64 < 2 ^ 64 := Int.emod_lt_of_pos _ (by decide)
  have hmod : ((v % 2 ^ 64).toNat % 2 ^ 64 : Nat) = (v % 2 ^ 64).toNat := Nat.mod_eq_of_lt (by omega)
  rw [hmod]
  split <;> omega

/-- `v.to_le_bytes()` of `i64::from_le_bytes(b)` is `b`: the header fields are stored verbatim. -/
theorem i64_bytes_roundtrip (b : Bytes) (h : b.length = 8) : i64Le (i64OfLe b) = b := by
  unfold i64OfLe i64Le
  have hl := leNat_lt b
  rw [h] at hl
  have e : (256 : Nat) ^ 8 = 2 ^ 64 := by decide
  rw [e] at hl
  have : ((if leNat b < 2 ^ 63 then (leNat b : Int) else (leNat b : Int) - 2 ^ 64) % 2 ^ 64).toNat = leNat b := by
    split <;> omega
  simp only [this]
  rw [← h]
  exact natLe_leNat b


/-! ### header -/

/-- a header whose fields are `i64` values. -/
def Header.InRange (h : Header) : Prop :=
  -(2 ^ 63) ≤ h.ctl ∧ h.ctl < 2 ^ 63 ∧ -(2 ^ 63) ≤ h.diff ∧ h.diff < 2 ^ 63 ∧ -(2 ^ 63) ≤ h.out ∧ h.out < 2 ^ 63

theorem write_length (h : Header) : h.write.length = 32 := by
  simp [Header.write, i64Le_length, magic]

/-- `read_options(write_options(h)) = h`, whatever follows the 32 bytes. -/
theorem readHeader_write (h : Header) (rest : Bytes) (hr : Header.InRange h) :
    readHeader (h.write ++ rest) = .ok h := by
  obtain ⟨a1, a2, b1, b2, c1, c2⟩ := hr
  have lA := i64Le_length h.ctl
  have lB := i64Le_length h.diff
  have lC := i64Le_length h.out
  have rA := i64_roundtrip h.ctl a1 a2
  have rB := i64_roundtrip h.diff b1 b2
  have rC := i64_roundtrip h.out c1 c2
  unfold readHeader Header.write
  generalize i64Le h.ctl = A at lA rA
  generalize i64Le h.diff = B at lB rB
  generalize i64Le h.out = C at lC rC
  have lM : magic.length = 8 := rfl
  have e : magic ++ A ++ B ++ C ++ rest = magic ++ (A ++ (B ++ (C ++ rest))) := by simp
  rw [e]
  have t0 : (magic ++ (A ++ (B ++ (C ++ rest)))).take fieldLen = magic := List.take_left' lM
  have d1 : (magic ++ (A ++ (B ++ (C ++ rest)))).drop ctlSizeOff = A ++ (B ++ (C ++ rest)) := List.drop_left' lM
  have d2 : (magic ++ (A ++ (B ++ (C ++ rest)))).drop diffSizeOff = B ++ (C ++ rest) := by
    rw [show diffSizeOff = 8 + 8 from rfl, ← List.drop_drop]
    rw [show (magic ++ (A ++ (B ++ (C ++ rest)))).drop 8 = A ++ (B ++ (C ++ rest)) from List.drop_left' lM]
    exact List.drop_left' lA
  have d3 : (magic ++ (A ++ (B ++ (C ++ rest)))).drop outSizeOff = C ++ rest := by
    rw [show outSizeOff = 16 + 8 from rfl, ← List.drop_drop]
    rw [show (magic ++ (A ++ (B ++ (C ++ rest)))).drop 16 = B ++ (C ++ rest) from d2]
    exact List.drop_left' lB
  have len : (magic ++ (A ++ (B ++ (C ++ rest)))).length = 32 + rest.length := by
    simp only [List.length_append, lA, lB, lC, lM]; omega
  have tA : (A ++ (B ++ (C ++ rest))).take fieldLen = A := List.take_left' lA
  have tB : (B ++ (C ++ rest)).take fieldLen = B := List.take_left' lB
  have tC : (C ++ rest).take fieldLen = C := List.take_left' lC
  rw [t0, d1, d2, d3, len, tA, tB, tC, rA, rB, rC]
  have g1 : ¬ (32 + rest.length < fieldLen) := by unfold fieldLen; omega
  have g2 : ¬ (32 + rest.length < headerLen) := by unfold headerLen; omega
  simp only [g1, g2, if_false, ne_eq, not_true_eq_false]


theorem valid_bounds (h : Header) (hv : h.valid = true) :
    0 ≤ h.ctl ∧ 0 ≤ h.diff ∧ 0 ≤ h.out ∧ h.ctl ≤ (maxSize : Int) ∧ h.diff ≤ (maxSize : Int) ∧
      h.out ≤ (maxSize : Int) ∧ h.ctl + h.diff ≤ (maxSize : Int) := by
  unfold Header.valid at hv
  simp only [Bool.not_eq_true', Bool.or_eq_false_iff, decide_eq_false_iff_not] at hv
  omega

theorem valid_inRange (h : Header) (hv : h.valid = true) : Header.InRange h := by
  have := valid_bounds h hv
  unfold Header.InRange maxSize at *
  omega

/-- `ZbsDiff::parse(ZbsDiff::build(x)) = x` for a container whose header states the block lengths. -/
theorem splitPatch_container (h : Header) (c d e : Bytes) (hv : h.valid = true)
    (hc : h.ctl = c.length) (hd : h.diff = d.length) :
    splitPatch (containerBuild h c d e) = .ok (h, c, d, e) := by
  unfold splitPatch containerBuild
  have e1 : h.write ++ c ++ d ++ e = h.write ++ (c ++ (d ++ e)) := by simp
  rw [e1, readHeader_write h _ (valid_inRange h hv)]
  simp only [hv, Bool.not_true, Bool.false_eq_true, if_false]
  have hl : (h.write ++ (c ++ (d ++ e))).length - headerLen = c.length + d.length + e.length := by
    simp only [List.length_append, write_length, headerLen]; omega
  have hdrop : (h.write ++ (c ++ (d ++ e))).drop headerLen = c ++ (d ++ e) := List.drop_left' (write_length h)
  have n1 : h.ctl.toNat = c.length := by omega
  have n2 : h.diff.toNat = d.length := by omega
  rw [hl, hdrop, n1, n2]
  have g : ¬ (c.length + d.length > c.length + d.length + e.length) := by omega
  simp only [g, if_false]
  have t1 : (c ++ (d ++ e)).take c.length = c := List.take_left' rfl
  have t2 : (c ++ (d ++ e)).drop c.length = d ++ e := List.drop_left' rfl
  have t3 : (d ++ e).take d.length = d := List.take_left' rfl
  have t4 : (c ++ (d ++ e)).drop (c.length + d.length) = e := by
    rw [← List.drop_drop, t2]; exact List.drop_left' rfl
  rw [t1, t2, t3, t4]

/-- `ZbsDiff::build(ZbsDiff::parse(p)) = p`: parse keeps every byte. -/
theorem container_of_split (p : Bytes) (h : Header) (c d e : Bytes) (hs : splitPatch p = .ok (h, c, d, e)) :
    containerBuild h c d e = p := by
  unfold splitPatch at hs
  split at hs
  · cases hs
  · rename_i h' hr
    split at hs
    · cases hs
    · split at hs
      · cases hs
      · simp only [Except.ok.injEq, Prod.mk.injEq] at hs
        obtain ⟨rfl, rfl, rfl, rfl⟩ := hs
        unfold readHeader at hr
        split at hr
        · cases hr
        · split at hr
          · cases hr
          · rename_i hsig
            split at hr
            · cases hr
            · rename_i hlen
              simp only [Except.ok.injEq] at hr
              subst hr
              simp only [ne_eq, Decidable.not_not] at hsig
              unfold containerBuild Header.write
              simp only [headerLen, fieldLen, ctlSizeOff, diffSizeOff, outSizeOff] at *
              have l8 : ∀ k, k + 8 ≤ p.length → ((p.drop k).take 8).length = 8 := by
                intro k hk; rw [List.length_take, List.length_drop]; omega
              rw [i64_bytes_roundtrip _ (l8 8 (by omega)), i64_bytes_roundtrip _ (l8 16 (by omega)),
                i64_bytes_roundtrip _ (l8 24 (by omega)), ← hsig]
              have a1 : p.take 8 ++ (p.drop 8).take 8 = p.take 16 := by
                rw [show (16 : Nat) = 8 + 8 from rfl, List.take_add]
              have a2 : p.take 16 ++ (p.drop 16).take 8 = p.take 24 := by
                rw [show (24 : Nat) = 16 + 8 from rfl, List.take_add]
              have a3 : p.take 24 ++ (p.drop 24).take 8 = p.take 32 := by
                rw [show (32 : Nat) = 24 + 8 from rfl, List.take_add]
              rw [a1, a2, a3]
              generalize (i64OfLe ((p.drop 8).take 8)).toNat = x
              generalize (i64OfLe ((p.drop 16).take 8)).toNat = y
              have b1 : (p.drop 32).take x ++ ((p.drop 32).drop x).take y = (p.drop 32).take (x + y) := by
                rw [List.take_add]
              rw [List.append_assoc, List.append_assoc, ← List.append_assoc ((p.drop 32).take x), b1,
                List.take_append_drop, List.take_append_drop]


/-! ### build_patch_internal then decode -/

theorem serialize_ok (z : Zlib) (p : Patch) (bytes : Bytes) (h : serialize z p = .ok bytes) :
    let hd : Header := ⟨(z.compress (encodeCtl p.ctl)).length, (z.compress p.diff).length, p.outSize⟩
    hd.valid = true ∧
    bytes = containerBuild hd (z.compress (encodeCtl p.ctl)) (z.compress p.diff) (z.compress p.extra) := by
  unfold serialize at h
  simp only at h
  split at h
  · cases h
  · rename_i hv
    simp only [Except.ok.injEq] at h
    simp only [Bool.not_eq_true, Bool.not_eq_false'] at hv
    exact ⟨hv, h.symm⟩

/-- the patch bytes `build_patch_internal` returns decode to exactly the blocks they were made of. -/
theorem decode_serialize (z : Zlib) (lz : z.Lawful) (p : Patch) (bytes : Bytes) (hne : p.ctl ≠ [])
    (hv : ∀ c ∈ p.ctl, ValidCtl c) (h : serialize z p = .ok bytes) :
    decodePatch z bytes = .ok ⟨p.ctl, p.diff, p.extra, p.outSize⟩ := by
  obtain ⟨hval, rfl⟩ := serialize_ok z p bytes h
  unfold decodePatch
  rw [splitPatch_container _ _ _ _ hval rfl rfl]
  simp only [lz _, parseCtl_encode p.ctl hne hv, Int.toNat_natCast]

theorem parseFromPatch_serialize (z : Zlib) (p : Patch) (bytes : Bytes) (h : serialize z p = .ok bytes) :
    ∃ hd : Header, parseFromPatch bytes = .ok hd ∧ hd.out = p.outSize := by
  obtain ⟨hval, rfl⟩ := serialize_ok z p bytes h
  refine ⟨⟨((z.compress (encodeCtl p.ctl)).length : Int), ((z.compress p.diff).length : Int), (p.outSize : Int)⟩, ?_, rfl⟩
  unfold parseFromPatch containerBuild
  have e1 : ∀ (w c d e : Bytes), w ++ c ++ d ++ e = w ++ (c ++ (d ++ e)) := by intros; simp
  rw [e1, readHeader_write _ _ (valid_inRange _ hval)]
  have : ¬ ((Header.write ⟨((z.compress (encodeCtl p.ctl)).length : Int), ((z.compress p.diff).length : Int), (p.outSize : Int)⟩ ++
      (z.compress (encodeCtl p.ctl) ++ (z.compress p.diff ++ z.compress p.extra))).length < headerLen) := by
    simp only [List.length_append, write_length, headerLen]; omega
  simp only [this, if_false, hval, if_true]

/-- both entry points on the bytes of a serialized patch run the patcher on the patch's own blocks. -/
theorem apply_serialize (z : Zlib) (lz : z.Lawful) (buf : Option Nat) (old : Bytes) (p : Patch) (bytes : Bytes)
    (hne : p.ctl ≠ []) (hv : ∀ c ∈ p.ctl, ValidCtl c) (h : serialize z p = .ok bytes) :
    applyPatchBytes z buf old bytes =
      liftE (match buf with
        | none => memApply old p.ctl p.diff p.extra p.outSize
        | some b => streamApply b old p.ctl p.diff p.extra p.outSize) := by
  have hd := decode_serialize z lz p bytes hne hv h
  cases buf with
  | none => simp only [applyPatchBytes, applyPatchMemory, hd]
  | some b =>
    obtain ⟨hdr, hp, ho⟩ := parseFromPatch_serialize z p bytes h
    simp only [applyPatchBytes, applyPatchStream, hp, applyPatchFromData, hd, ho, Int.toNat_natCast]

/-! ### what each builder hands to build_patch_internal -/

theorem simple_valid (new : Bytes) (p : Patch) (h : simple new = .ok p) :
    p.ctl ≠ [] ∧ ∀ c ∈ p.ctl, ValidCtl c := by
  obtain ⟨h1, -, -, -, hne, -, hv⟩ := assemble_ok _ _ _ h
  refine ⟨h1 ▸ hne, ?_⟩
  intro c hc
  rw [h1] at hc
  have := hv c hc
  simp only [List.mem_singleton] at hc
  subst hc
  exact ⟨this.1, this.2, by show (0 : Int).natAbs < 2 ^ 63; decide⟩

theorem chunked_valid (maxBlk : Nat) (old new : Bytes) (p : Patch) (h : chunked maxBlk old new = .ok p) :
    p.ctl ≠ [] ∧ ∀ c ∈ p.ctl, ValidCtl c := by
  unfold chunked at h
  simp only at h
  split at h
  · exact simple_valid new p h
  · obtain ⟨h1, -, -, -, hne, -, hv⟩ := assemble_ok _ _ _ h
    refine ⟨h1 ▸ hne, ?_⟩
    intro c hcm
    rw [h1] at hcm
    have hb := hv c hcm
    have hz := (chunkedLoop_entries maxBlk 256 new.length 0 old new c hcm).1
    exact ⟨hb.1, hb.2, by rw [hz]; decide⟩

theorem suffix_valid (cx : Cx) (wf : WfCx cx) (law : SearchLaw cx) (hold : cx.old.length < 2 ^ 63)
    (p : Patch) (h : suffixWith cx = .ok p) :
    p.ctl ≠ [] ∧ ∀ c ∈ p.ctl, ValidCtl c := by
  unfold suffixWith at h
  simp only at h
  split at h
  · exact simple_valid cx.new p h
  · obtain ⟨h1, -, -, -, hne, -, hv⟩ := assemble_ok _ _ _ h
    refine ⟨h1 ▸ hne, ?_⟩
    intro c hcm
    rw [h1] at hcm
    have hb := hv c hcm
    have hz := computeDiff_seek_bound cx law c hcm
    have : cx.osz = cx.old.length := wf.1
    exact ⟨hb.1, hb.2, by omega⟩

/-! ### any patch bytes: the length clause -/

theorem finish_length (n : Nat) (o : Option Bytes) (out : Bytes) (h : finish n o = .ok out) : out.length = n := by
  unfold finish at h
  split at h
  · cases h
  · split at h
    · rename_i hl; cases h; exact hl
    · cases h

theorem liftE_ok {α : Type} (r : Except Err α) (a : α) (h : liftE r = .ok a) : r = .ok a := by
  cases r with
  | ok b => simp only [liftE, Except.ok.injEq] at h; rw [h]
  | error e => simp [liftE] at h

theorem decode_header (z : Zlib) (p : Bytes) (d : Decoded) (h : decodePatch z p = .ok d) :
    ∃ hd : Header, readHeader p = .ok hd ∧ hd.valid = true ∧ (d.out : Int) = hd.out := by
  unfold decodePatch at h
  split at h
  · cases h
  · rename_i hd cz dz ez hs
    refine ⟨hd, ?_⟩
    have : readHeader p = .ok hd ∧ hd.valid = true := by
      unfold splitPatch at hs
      split at hs
      · cases hs
      · rename_i h' hr
        split at hs
        · cases hs
        · rename_i hv
          split at hs
          · cases hs
          · simp only [Except.ok.injEq, Prod.mk.injEq] at hs
            simp only [Bool.not_eq_true, Bool.not_eq_false'] at hv
            rw [← hs.1]; exact ⟨hr, hv⟩
    refine ⟨this.1, this.2, ?_⟩
    have hb := valid_bounds hd this.2
    split at h
    · cases h
    · split at h
      · cases h
      · split at h
        · cases h
        · split at h
          · cases h
          · simp only [Except.ok.injEq] at h
            subst h
            simp only
            omega


/-! ### offtout on the whole i64 range -/

/-- away from `i64::MIN` the compiled `offtout` is the sign-magnitude encoder of Model/Bspatch. -/
theorem offtoutI64_eq (v : Int) (h : v.natAbs < 2 ^ 63) : offtoutI64 v = offtout v := by
  unfold offtoutI64 offtout i64Le wrapI64
  by_cases hv : v < 0
  · simp only [hv, if_true]
    have e : ((-v + 2 ^ 63) % 2 ^ 64 - 2 ^ 63) % 2 ^ 64 = (v.natAbs : Int) := by omega
    rw [e, Int.toNat_natCast]
    generalize v.natAbs = m at h
    simp only [natLe, setSign, List.cons_append, List.nil_append, BitVec.toNat_ofNat, List.cons.injEq, and_true, true_and]
    apply BitVec.eq_of_toNat_eq
    simp only [BitVec.toNat_ofNat]
    omega
  · simp only [hv, if_false]
    have e : v % 2 ^ 64 = (v.natAbs : Int) := by omega
    rw [e, Int.toNat_natCast]
    generalize v.natAbs = m at h
    simp only [natLe, List.cons_append, List.nil_append, List.cons.injEq, and_true, true_and]
    apply BitVec.eq_of_toNat_eq
    simp only [BitVec.toNat_ofNat]
    omega

/-- every value except `i64::MIN` survives `offtin ∘ offtout`. -/
theorem offtin_offtoutI64 (v : Int) (h1 : -(2 ^ 63) < v) (h2 : v < 2 ^ 63) : offtin (offtoutI64 v) = v := by
  have h : v.natAbs < 2 ^ 63 := by omega
  rw [offtoutI64_eq v h, offtin_offtout v h]

/-- `offtout(i64::MIN)` in release: the negation wraps, the magnitude bits are `0x80…0`, OR-ing the
sign bit changes nothing — the bytes of "negative zero". -/
theorem offtoutI64_min : offtoutI64 (-(2 ^ 63)) = [0, 0, 0, 0, 0, 0, 0, 0x80] := by decide

/-- negative zero decodes to 0, so `i64::MIN` does not survive the codec (it comes back as 0). -/
theorem offtin_neg_zero : offtin [0, 0, 0, 0, 0, 0, 0, 0x80] = 0 := by decide

/-- `offtin` never produces `i64::MIN`: `-entry.seek_offset` in the patchers cannot overflow. -/
theorem offtin_range (b : Bytes) : (offtin b).natAbs < 2 ^ 63 := by
  unfold offtin
  split
  · rename_i b0 b1 b2 b3 b4 b5 b6 b7
    simp only [leNat]
    have := b0.isLt; have := b1.isLt; have := b2.isLt; have := b3.isLt
    have := b4.isLt; have := b5.isLt; have := b6.isLt; have := b7.isLt
    split <;> omega
  · decide


theorem byte_eq (x : Byte) (n : Nat) (h : n % 256 = x.toNat) : BitVec.ofNat 8 n = x := by
  apply BitVec.eq_of_toNat_eq
  simp only [BitVec.toNat_ofNat]
  omega

/-- the encoding is canonical: every 8-byte record except negative zero is what `offtout` writes
for the value `offtin` reads from it. -/
theorem offtout_offtin (b : Bytes) (hl : b.length = 8) (hnz : b ≠ [0, 0, 0, 0, 0, 0, 0, 0x80]) :
    offtout (offtin b) = b := by
  match b, hl with
  | [b0, b1, b2, b3, b4, b5, b6, b7], _ =>
    have h0 := b0.isLt; have h1 := b1.isLt; have h2 := b2.isLt; have h3 := b3.isLt
    have h4 := b4.isLt; have h5 := b5.isLt; have h6 := b6.isLt; have h7 := b7.isLt
    obtain ⟨M, hM⟩ : ∃ M, M = b0.toNat + 256 * (b1.toNat + 256 * (b2.toNat + 256 * (b3.toNat + 256 * (b4.toNat + 256 * (b5.toNat + 256 * (b6.toNat + 256 * 0)))))) + 2 ^ 56 * (b7.toNat % 128) := ⟨_, rfl⟩
    have hv : offtin [b0, b1, b2, b3, b4, b5, b6, b7] = (if b7.toNat ≥ 128 then -(M : Int) else (M : Int)) := by
      rw [hM]; rfl
    rw [hv]
    unfold offtout
    by_cases hs : b7.toNat ≥ 128
    · simp only [hs, if_true, Int.natAbs_neg, Int.natAbs_natCast]
      by_cases hz : M = 0
      · exfalso
        apply hnz
        have e0 : b0 = 0 := BitVec.eq_of_toNat_eq (by simp; omega)
        have e1 : b1 = 0 := BitVec.eq_of_toNat_eq (by simp; omega)
        have e2 : b2 = 0 := BitVec.eq_of_toNat_eq (by simp; omega)
        have e3 : b3 = 0 := BitVec.eq_of_toNat_eq (by simp; omega)
        have e4 : b4 = 0 := BitVec.eq_of_toNat_eq (by simp; omega)
        have e5 : b5 = 0 := BitVec.eq_of_toNat_eq (by simp; omega)
        have e6 : b6 = 0 := BitVec.eq_of_toNat_eq (by simp; omega)
        have e7 : b7 = 0x80 := BitVec.eq_of_toNat_eq (by simp; omega)
        rw [e0, e1, e2, e3, e4, e5, e6, e7]
      · have hneg : (-(M : Int) < 0) := by omega
        simp only [hneg, if_true, natLe, List.cons_append, List.nil_append, List.cons.injEq, and_true]
        refine ⟨?_, ?_, ?_, ?_, ?_, ?_, ?_, ?_⟩ <;> (apply byte_eq; omega)
    · have hneg : ¬ ((M : Int) < 0) := by omega
      simp only [hs, if_false, Int.natAbs_natCast, hneg, natLe, List.cons_append, List.nil_append, List.cons.injEq, and_true]
      refine ⟨?_, ?_, ?_, ?_, ?_, ?_, ?_, ?_⟩ <;> (apply byte_eq; omega)


/-! ### the old file behind a short-reading `Read + Seek` -/

theorem readExact_ok (s : Source) (f pos calls n : Nat) (hf : n ≤ f) (hp : pos + n ≤ s.data.length) :
    ∃ c, readExact s f pos calls n = some ((s.data.drop pos).take n, c) := by
  induction f generalizing pos calls n with
  | zero =>
    have : n = 0 := by omega
    subst this
    exact ⟨calls, by simp [readExact]⟩
  | succ f ih =>
    unfold readExact
    by_cases hn : n = 0
    · subst hn; exact ⟨calls, by simp⟩
    · simp only [hn, if_false]
      generalize hk : min (min n (max 1 (s.sched calls))) (s.data.length - pos) = k
      have k1 : 1 ≤ k := by omega
      have k2 : k ≤ n := by omega
      have k0 : ¬ k = 0 := by omega
      simp only [k0, if_false]
      obtain ⟨c, hc⟩ := ih (pos + k) (calls + 1) (n - k) (by omega) (by omega)
      rw [hc]
      refine ⟨c, ?_⟩
      simp only [Option.some.injEq, Prod.mk.injEq, and_true]
      have e : (s.data.drop pos).take n = (s.data.drop pos).take (k + (n - k)) := by
        congr 1; omega
      rw [e, List.take_add, List.drop_drop]

theorem readExact_eof (s : Source) (f pos calls n : Nat) (hn : 0 < n) (hp : pos + n > s.data.length) :
    readExact s f pos calls n = none := by
  induction f generalizing pos calls n with
  | zero => simp only [readExact]; rw [if_neg (by omega)]
  | succ f ih =>
    unfold readExact
    rw [if_neg (by omega)]
    simp only
    generalize hk : min (min n (max 1 (s.sched calls))) (s.data.length - pos) = k
    by_cases k0 : k = 0
    · simp only [k0, if_true]
    · simp only [k0, if_false]
      rw [ih (pos + k) (calls + 1) (n - k) (by omega) (by omega)]

theorem padTake_eq (n : Nat) (l : Bytes) : padTake n l = l.take n ++ List.replicate (n - l.length) 0 := by
  induction n generalizing l with
  | zero => simp [padTake]
  | succ n ih =>
    cases l with
    | nil =>
      simp only [padTake, ih, List.take_nil, List.nil_append, List.length_nil, Nat.sub_zero]
      rfl
    | cons x xs =>
      simp only [padTake, ih, List.take_succ_cons, List.cons_append, List.length_cons, Nat.add_sub_add_right]

/-- `read_old_chunk` over ANY short-reading source returns the zero-filled window of the data. -/
theorem readOldChunk_eq (s : Source) (calls pos size : Nat) :
    ∃ c, readOldChunk s calls pos size = some (padTake size (s.data.drop pos), c) := by
  unfold readOldChunk
  rw [padTake_eq]
  by_cases hp : pos < s.data.length
  · simp only [hp, if_true]
    obtain ⟨c, hc⟩ := readExact_ok s (min (s.data.length - pos) size) pos calls (min (s.data.length - pos) size)
      (Nat.le_refl _) (by omega)
    rw [hc]
    refine ⟨c, ?_⟩
    simp only [Option.some.injEq, Prod.mk.injEq, and_true, List.length_drop]
    by_cases hs : size ≤ s.data.length - pos
    · rw [Nat.min_eq_right hs, Nat.sub_self, Nat.sub_eq_zero_of_le hs]
    · have hm : min (s.data.length - pos) size = s.data.length - pos := by omega
      rw [hm]
      have l : (s.data.drop pos).length = s.data.length - pos := List.length_drop
      rw [List.take_of_length_le (by omega), List.take_of_length_le (by omega)]
  · simp only [hp, if_false]
    refine ⟨calls, ?_⟩
    rw [List.drop_eq_nil_of_le (by omega)]
    simp

theorem srcDiff_eq (s : Source) (buf f rem p calls : Nat) (d : Bytes) :
    match streamDiff buf s.data f rem p d with
    | none => srcDiff s buf f rem p calls d = .error (.inner .short)
    | some (o, d') => ∃ c, srcDiff s buf f rem p calls d = .ok (o, d', c) := by
  induction f generalizing rem p calls d with
  | zero => simp only [streamDiff, srcDiff]; exact ⟨calls, rfl⟩
  | succ f ih =>
    unfold streamDiff srcDiff
    by_cases hr : rem = 0
    · simp only [hr, if_true]; exact ⟨calls, rfl⟩
    · simp only [hr, if_false]
      by_cases hd : d.length < min rem buf
      · simp only [hd, if_true]
      · simp only [hd, if_false]
        obtain ⟨c, hc⟩ := readOldChunk_eq s calls p (min rem buf)
        rw [hc]
        simp only
        have := ih (rem - min rem buf) (p + min rem buf) c (d.drop (min rem buf))
        revert this
        cases streamDiff buf s.data f (rem - min rem buf) (p + min rem buf) (d.drop (min rem buf)) with
        | none => intro h; simp only at h ⊢; rw [h]
        | some r =>
          obtain ⟨o, d'⟩ := r
          intro h
          simp only at h ⊢
          obtain ⟨c', hc'⟩ := h
          rw [hc']
          exact ⟨c', rfl⟩

theorem srcEntries_eq (s : Source) (buf : Nat) (cs : List Ctl) (p calls : Nat) (d e : Bytes) :
    srcEntries s buf cs p calls d e =
      match streamEntries buf s.data cs p d e with
      | none => .error (.inner .short)
      | some out => .ok out := by
  induction cs generalizing p calls d e with
  | nil => simp [srcEntries, streamEntries]
  | cons c cs ih =>
    unfold srcEntries streamEntries
    have h1 := srcDiff_eq s buf c.diff c.diff p calls d
    revert h1
    cases streamDiff buf s.data c.diff c.diff p d with
    | none => intro h1; simp only at h1 ⊢; rw [h1]
    | some r =>
      obtain ⟨o1, d'⟩ := r
      intro h1
      simp only at h1 ⊢
      obtain ⟨c', hc'⟩ := h1
      rw [hc']
      simp only
      cases streamExtra buf c.extra c.extra e with
      | none => rfl
      | some r2 =>
        obtain ⟨o2, e'⟩ := r2
        simp only
        rw [ih]
        cases streamEntries buf s.data cs (seekStep (p + c.diff) c.seek) d' e' <;> rfl

/-- the streaming patcher over any seekable short-reading source is the streaming patcher over the
data: the schedule of `read` return sizes is invisible. -/
theorem srcApply_eq (s : Source) (hs : s.seekable = true) (buf : Nat) (ctl : List Ctl) (diff extra : Bytes)
    (outSize : Nat) :
    srcApply s buf ctl diff extra outSize = liftE (streamApply buf s.data ctl diff extra outSize) := by
  unfold srcApply streamApply finish
  simp only [hs, Bool.not_true, Bool.false_eq_true, if_false, srcEntries_eq]
  cases streamEntries (clampBuf buf) s.data ctl 0 diff extra with
  | none => rfl
  | some out =>
    simp only
    split <;> rfl

end Cascette.Proofs.Zbsdiff
