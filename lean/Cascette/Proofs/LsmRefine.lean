/-
Proofs/LsmRefine — one step of the index manager refines one step of the map specification.
-/
import Cascette.Proofs.Lsm
namespace Cascette.Proofs.Lsm
open Cascette.Spec.IndexMap (Entry Op Out bucketOf stDelete nBuckets keyByte Map)
open Cascette.Model.Lsm

abbrev SState := Cascette.Spec.IndexMap.State
abbrev sstep := Cascette.Spec.IndexMap.step

/-- an output agrees with what the specification demands (`none` = not constrained). -/
def outOk (o : Out) : Option Out → Prop
  | some x => o = x
  | none => True

/-- the live part of the refinement relation. -/
def RelMem (s : State) (M : Map) : Prop := Good s ∧ ∀ k, absS s k = M k

def notReload : Op → Prop
  | .reload => False
  | _ => True

theorem toEntry_eq {e : Entry} {k st : Nat} (h : e.key = k) :
    (Upd.toEntry ⟨k, e.id, e.off, e.size, st⟩) = e := by
  cases e
  simp only [Upd.toEntry] at *
  subst h
  rfl

theorem flushAll_spec (bs : List Nat) (s : State) (hg : Good s) :
    Good (bs.foldl flushBucket s) ∧ ∀ k, absS (bs.foldl flushBucket s) k = absS s k := by
  induction bs generalizing s with
  | nil => exact ⟨hg, fun _ => rfl⟩
  | cons b bs ih =>
    obtain ⟨h1, h2⟩ := flushBucket_spec s hg b
    obtain ⟨h3, h4⟩ := ih (flushBucket s b) h1
    exact ⟨h3, fun k => by rw [List.foldl_cons, h4 k, h2 k]⟩

theorem mem_some_of_absS {s : State} {k : Nat} {e : Entry} (h : absS s k = some e) :
    ∃ bk, s.mem (bucketOf k) = some bk := by
  unfold absS at h
  cases hm : s.mem (bucketOf k) with
  | none => rw [hm] at h; cases h
  | some bk => exact ⟨bk, rfl⟩

/-- a mutator that found `e` under `k` and appends `u` for the same key. -/
theorem mutate_spec (cfg : Cfg) (hcap : 1 ≤ cfg.capPages) (s : State) (hg : Good s) (k : Nat)
    (e : Entry) (he : absS s k = some e) (u : Upd) (hu : u.key = k) :
    ∃ s', appendWithFlush cfg s (bucketOf k) u = (s', true) ∧ Good s' ∧
      ∀ k', absS s' k' = if k = k' then updVal u else absS s k' := by
  obtain ⟨bk, hbk⟩ := mem_some_of_absS he
  obtain ⟨s', h1, h2, h3⟩ := appendWithFlush_spec cfg hcap s hg (bucketOf k) bk hbk u (by rw [hu])
  refine ⟨s', h1, h2, ?_⟩
  intro k'
  rw [h3 k', hu]

/-- every operation except `reload` keeps the live relation and answers as the map does. -/
theorem step_mem (cfg : Cfg) (hcap : 1 ≤ cfg.capPages) (s : State) (S : SState) (ghost : List Nat)
    (op : Op) (hop : notReload op) (h : RelMem s S.mem) :
    RelMem (step cfg s op).1 (sstep S ghost op).1.mem ∧
      outOk (step cfg s op).2 (sstep S ghost op).2 := by
  obtain ⟨hg, habs⟩ := h
  have hlk : ∀ k, lookup s k = S.mem k := fun k => by rw [lookup_eq_absS s hg k, habs k]
  cases op with
  | add k id off size =>
    simp only [step, sstep, Spec.IndexMap.step, Spec.IndexMap.persist]
    -- the bucket is created on demand
    have h0 : ∃ s0 bk0, ensureBucket s (bucketOf k) = s0 ∧ Good s0 ∧
        s0.mem (bucketOf k) = some bk0 ∧ ∀ k', absS s0 k' = absS s k' := by
      unfold ensureBucket
      cases hm : s.mem (bucketOf k) with
      | some bk => exact ⟨s, bk, rfl, hg, hm, fun _ => rfl⟩
      | none =>
        refine ⟨_, Bucket.empty, rfl, good_setMem hg _ _ (goodB_empty _), ?_, ?_⟩
        · simp [State.setMem]
        · intro k'
          rw [absS_setMem]
          by_cases hk : bucketOf k' = bucketOf k
          · rw [if_pos hk, absB_empty]
            unfold absS
            rw [hk, hm]
          · rw [if_neg hk]
    obtain ⟨s0, bk0, hs0, hg0, hm0, ha0⟩ := h0
    rw [hs0]
    obtain ⟨s', h1, h2, h3⟩ := appendWithFlush_spec cfg hcap s0 hg0 (bucketOf k) bk0 hm0
      ⟨k, id, off, size, 0⟩ rfl
    rw [h1]
    refine ⟨⟨h2, ?_⟩, rfl⟩
    intro k'
    rw [h3 k', ha0 k', habs k']
    unfold Spec.IndexMap.Map.set updVal
    simp only [stDelete, Upd.toEntry]
    by_cases hk : k = k'
    · simp [hk]
    · have : ¬ k' = k := fun h => hk h.symm
      simp [hk, this]
  | remove k =>
    simp only [step, sstep, Spec.IndexMap.step, Spec.IndexMap.persist]
    rw [hlk k]
    cases hm : S.mem k with
    | none => exact ⟨⟨hg, habs⟩, rfl⟩
    | some e =>
      simp only
      obtain ⟨s', h1, h2, h3⟩ := mutate_spec cfg hcap s hg k e (by rw [habs k, hm])
        ⟨k, e.id, e.off, e.size, stDelete⟩ rfl
      rw [h1]
      refine ⟨⟨h2, ?_⟩, rfl⟩
      intro k'
      rw [h3 k', habs k']
      unfold Spec.IndexMap.Map.set updVal
      by_cases hk : k = k'
      · simp [hk]
      · have : ¬ k' = k := fun h => hk h.symm
        simp [hk, this]
  | update k id off size =>
    simp only [step, sstep, Spec.IndexMap.step, Spec.IndexMap.persist]
    rw [hlk k]
    cases hm : S.mem k with
    | none => exact ⟨⟨hg, habs⟩, rfl⟩
    | some e =>
      simp only
      obtain ⟨s', h1, h2, h3⟩ := mutate_spec cfg hcap s hg k e (by rw [habs k, hm])
        ⟨k, id, off, size, 0⟩ rfl
      rw [h1]
      refine ⟨⟨h2, ?_⟩, rfl⟩
      intro k'
      rw [h3 k', habs k']
      unfold Spec.IndexMap.Map.set updVal
      simp only [stDelete, Upd.toEntry]
      by_cases hk : k = k'
      · simp [hk]
      · have : ¬ k' = k := fun h => hk h.symm
        simp [hk, this]
  | status k st =>
    simp only [step, sstep, Spec.IndexMap.step, Spec.IndexMap.persist]
    rw [hlk k]
    cases hm : S.mem k with
    | none => exact ⟨⟨hg, habs⟩, rfl⟩
    | some e =>
      simp only
      have hek : e.key = k := by
        have h1 : absS s k = some e := by rw [habs k, hm]
        unfold absS at h1
        cases hb : s.mem (bucketOf k) with
        | none => rw [hb] at h1; cases h1
        | some bk => rw [hb] at h1; exact absB_some_key h1
      obtain ⟨s', h1, h2, h3⟩ := mutate_spec cfg hcap s hg k e (by rw [habs k, hm])
        ⟨k, e.id, e.off, e.size, st⟩ rfl
      rw [h1]
      refine ⟨⟨h2, ?_⟩, rfl⟩
      intro k'
      rw [h3 k', habs k']
      unfold updVal
      simp only
      by_cases hst : st = stDelete
      · simp only [hst, if_true]
        unfold Spec.IndexMap.Map.set
        by_cases hk : k = k'
        · simp [hk]
        · have : ¬ k' = k := fun h => hk h.symm
          simp [hk, this]
      · simp only [hst, if_false]
        by_cases hk : k = k'
        · rw [if_pos hk, toEntry_eq hek, ← hk, hm]
        · rw [if_neg hk]
  | lookup k =>
    simp only [step, sstep, Spec.IndexMap.step, Spec.IndexMap.persist]
    exact ⟨⟨hg, habs⟩, by rw [hlk k]; rfl⟩
  | has k =>
    simp only [step, sstep, Spec.IndexMap.step, Spec.IndexMap.persist]
    exact ⟨⟨hg, habs⟩, by rw [hlk k]; rfl⟩
  | iter => exact ⟨⟨hg, habs⟩, trivial⟩
  | count => exact ⟨⟨hg, habs⟩, trivial⟩
  | flush b =>
    simp only [step, sstep, Spec.IndexMap.step, Spec.IndexMap.persist]
    obtain ⟨h1, h2⟩ := flushBucket_spec s hg b
    exact ⟨⟨h1, fun k => by rw [h2 k, habs k]⟩, rfl⟩
  | flushAll =>
    simp only [step, sstep, Spec.IndexMap.step, Spec.IndexMap.persist]
    obtain ⟨h1, h2⟩ := flushAll_spec (List.range nBuckets) s hg
    exact ⟨⟨h1, fun k => by rw [h2 k, habs k]⟩, rfl⟩
  | saveAll =>
    simp only [step, sstep, Spec.IndexMap.step, Spec.IndexMap.persist]
    exact ⟨⟨hg, habs⟩, rfl⟩
  | clearBucket b =>
    simp only [step, sstep, Spec.IndexMap.step, Spec.IndexMap.persist]
    cases hm : s.mem b with
    | none =>
      simp only
      refine ⟨⟨hg, ?_⟩, trivial⟩
      intro k
      show absS s k = if bucketOf k = b then none else S.mem k
      by_cases hk : bucketOf k = b
      · rw [if_pos hk]
        unfold absS
        rw [hk, hm]
      · rw [if_neg hk]; exact habs k
    | some bk =>
      simp only
      refine ⟨⟨good_setMem hg _ _ (goodB_empty _), ?_⟩, trivial⟩
      intro k
      show absS (s.setMem b Bucket.empty) k = if bucketOf k = b then none else S.mem k
      rw [absS_setMem]
      by_cases hk : bucketOf k = b
      · rw [if_pos hk, if_pos hk, absB_empty]
      · rw [if_neg hk, if_neg hk]; exact habs k
  | reload => exact absurd hop (by simp [notReload])

/-! ### histories -/

/-- the specification run along a history; `ghosts` lists, per operation, the buckets the
implementation wrote through (missing entries = none). -/
def specRun : SState → List Op → List (List Nat) → SState × List (Option Out)
  | S, [], _ => (S, [])
  | S, op :: ops, gs =>
    let r := sstep S (gs.headD []) op
    let rest := specRun r.1 ops gs.tail
    (rest.1, r.2 :: rest.2)

/-- output lists agree position by position. -/
def outsOk : List Out → List (Option Out) → Prop
  | [], [] => True
  | o :: os, x :: xs => outOk o x ∧ outsOk os xs
  | _, _ => False

theorem run_mem (cfg : Cfg) (hcap : 1 ≤ cfg.capPages) (ops : List Op) :
    ∀ (s : State) (S : SState) (gs : List (List Nat)), (∀ op ∈ ops, notReload op) → RelMem s S.mem →
      RelMem (run cfg s ops).1 (specRun S ops gs).1.mem ∧
        outsOk (run cfg s ops).2 (specRun S ops gs).2 := by
  induction ops with
  | nil => intro s S gs _ h; exact ⟨h, trivial⟩
  | cons op ops ih =>
    intro s S gs hops h
    obtain ⟨h1, h2⟩ := step_mem cfg hcap s S (gs.headD []) op (hops op List.mem_cons_self) h
    obtain ⟨h3, h4⟩ := ih (step cfg s op).1 (sstep S (gs.headD []) op).1 gs.tail
      (fun o ho => hops o (List.mem_cons_of_mem _ ho)) h1
    exact ⟨h3, h2, h4⟩

theorem relMem_init : RelMem State.init Cascette.Spec.IndexMap.State.init.mem :=
  ⟨(by intro b bk h; cases h), fun _ => rfl⟩

/-! ### enumeration -/

theorem bucketOf_lt (k : Nat) : bucketOf k < nBuckets := by
  unfold bucketOf nBuckets
  exact Nat.xor_lt_two_pow (n := 4) (Nat.mod_lt _ (by decide)) (Nat.mod_lt _ (by decide))

theorem mem_iter (s : State) (b : Nat) (e : Entry) :
    (b, e) ∈ iter s ↔ b < nBuckets ∧ ∃ bk, s.mem b = some bk ∧ e ∈ iterBucket bk := by
  unfold iter
  rw [List.mem_flatMap]
  constructor
  · rintro ⟨b', hb', h⟩
    cases hm : s.mem b' with
    | none => rw [hm] at h; cases h
    | some bk =>
      rw [hm] at h
      simp only [List.mem_map, Prod.mk.injEq] at h
      obtain ⟨e', he', rfl, rfl⟩ := h
      exact ⟨List.mem_range.mp hb', bk, hm, he'⟩
  · rintro ⟨hb, bk, hm, he⟩
    refine ⟨b, List.mem_range.mpr hb, ?_⟩
    rw [hm]
    exact List.mem_map.mpr ⟨e, he, rfl⟩

theorem mem_iterBucket_iff {b : Nat} {bk : Bucket} (hg : GoodB b bk) (e : Entry) :
    e ∈ iterBucket bk ↔ absB bk e.key = some e := by
  obtain ⟨h1, h2⟩ := iterBucket_spec bk hg.sorted
  rw [← h2 e.key]
  constructor
  · exact findE_of_mem h1
  · intro h; exact (findE_some h).1

/-- enumeration agrees with lookups. -/
theorem iter_iff_lookup (s : State) (hg : Good s) (b : Nat) (e : Entry) :
    (b, e) ∈ iter s ↔ b = bucketOf e.key ∧ lookup s e.key = some e := by
  rw [mem_iter, lookup_eq_absS s hg]
  constructor
  · rintro ⟨_, bk, hm, he⟩
    have hb := hg b bk hm
    rw [mem_iterBucket_iff hb] at he
    have hbk := absB_some_bucket hb he
    refine ⟨hbk.symm, ?_⟩
    unfold absS
    rw [hbk, hm]
    exact he
  · rintro ⟨rfl, h⟩
    refine ⟨bucketOf_lt _, ?_⟩
    unfold absS at h
    cases hm : s.mem (bucketOf e.key) with
    | none => rw [hm] at h; cases h
    | some bk =>
      rw [hm] at h
      exact ⟨bk, rfl, (mem_iterBucket_iff (hg _ _ hm) e).mpr h⟩

/-- no key is enumerated twice. -/
theorem iter_keys_distinct (s : State) (hg : Good s) :
    (iter s).Pairwise (fun x y => x.2.key ≠ y.2.key) := by
  unfold iter
  rw [List.pairwise_flatMap]
  constructor
  · intro b _
    cases hm : s.mem b with
    | none => exact List.Pairwise.nil
    | some bk =>
      simp only
      rw [List.pairwise_map]
      have := (iterBucket_spec bk (hg b bk hm).sorted).1
      exact List.Pairwise.imp (fun h => by simp only; omega) this
  · refine List.Pairwise.imp ?_ (List.pairwise_lt_range (n := nBuckets))
    intro b1 b2 hlt x hx y hy
    have key : ∀ (b : Nat) (x : Nat × Entry), (x ∈ match s.mem b with
        | some bk => (iterBucket bk).map fun e => (b, e)
        | none => []) → bucketOf x.2.key = b := by
      intro b x hx
      cases hm : s.mem b with
      | none => rw [hm] at hx; cases hx
      | some bk =>
        rw [hm] at hx
        obtain ⟨e, he, rfl⟩ := List.mem_map.mp hx
        have hb := hg b bk hm
        exact absB_some_bucket hb ((mem_iterBucket_iff hb e).mp he)
    have h1 := key b1 x hx
    have h2 := key b2 y hy
    intro heq
    rw [heq] at h1
    omega

theorem good_run (cfg : Cfg) (hcap : 1 ≤ cfg.capPages) (ops : List Op)
    (hops : ∀ op ∈ ops, notReload op) : Good (run cfg State.init ops).1 :=
  (run_mem cfg hcap ops State.init Cascette.Spec.IndexMap.State.init [] hops relMem_init).1.1

end Cascette.Proofs.Lsm
