/-
Proofs/ManifestExt — (A) the SizeManifestBuilder model over whole programs: the tag masks record
exactly the accepted `tag_file` calls, `build` gives a well-formed `SFile` (so the C08 round trip
`parseSFile_ser` applies) whose total is the sum of the added esizes; (B) the UTF-8 checks inside
the tag / entry readers: the code-order parsers equal "parse, then check every name".
-/
import Cascette.Model.ManifestExt
import Cascette.Proofs.Serial
import Cascette.Proofs.ManifestBuilder
namespace Cascette.Proofs.Manifest
open Cascette Cascette.Model.Manifest Cascette.Model.Serial Cascette.Model.ManifestExt
open Cascette.Proofs.Serial

/-! ### (A) size manifest builder -/

/-- size-builder programs -/
inductive SOp where
  | addTag (name : Bytes) (typ : Nat)
  | tagFile (ti fi : Nat)
  | addEntry (key : Bytes) (esize : Nat)
  | setVersion (v : Nat)
  | setEkey (k : Nat)
  | setTagCount (c : Nat)
  | setEsizeBytes (w : Nat)
deriving Repr

/-- one call; a `tag_file` with a tag index out of range panics and the caller keeps its value -/
def sstep (b : SBuilder) : SOp → SBuilder
  | .addTag n t => b.addTag n t
  | .tagFile ti fi => match b.tagFile ti fi with | .ok b' => b' | .error _ => b
  | .addEntry k e => b.addEntry k e
  | .setVersion v => { b with version := v }
  | .setEkey k => { b with ekeySize := k }
  | .setTagCount c => { b with tagCount := c }
  | .setEsizeBytes w => { b with esizeBytes := w }

def srun (b : SBuilder) (ops : List SOp) : SBuilder := ops.foldl sstep b

/-- the abstract state of a size-builder program: tags by position (name, type), the accepted
(tag index, file index) pairs, the esizes in order -/
structure SSpec where
  names : List (Bytes × Nat)
  pairs : List (Nat × Nat)
  sizes : List Nat
deriving Repr

def SSpec.empty : SSpec := ⟨[], [], []⟩

def sspecStep (s : SSpec) : SOp → SSpec
  | .addTag n t => { s with names := s.names ++ [(n, t)] }
  | .tagFile ti fi => if ti < s.names.length then { s with pairs := (ti, fi) :: s.pairs } else s
  | .addEntry _ e => { s with sizes := s.sizes ++ [e] }
  | _ => s

def sspecRun (s : SSpec) (ops : List SOp) : SSpec := ops.foldl sspecStep s

structure SInv (b : SBuilder) (s : SSpec) : Prop where
  names : b.tags.map (fun t => (t.name, t.typ)) = s.names
  bound : ∀ p ∈ s.pairs, p.1 < s.names.length
  bits : ∀ ti t, b.tags[ti]? = some t → ∀ i, hasFile t.mask i = s.pairs.contains (ti, i)
  sizes : b.entries.map (·.esize) = s.sizes

theorem hasFile_growMask' (m : Bytes) (sz j : Nat) : hasFile (growMask m sz) j = hasFile m j := by
  by_cases h : m.length < sz
  · exact hasFile_growMask m sz j (by omega)
  · unfold growMask; rw [if_neg h]

theorem sinv_new : SInv SBuilder.new SSpec.empty :=
  ⟨rfl, fun _ h => by simp [SSpec.empty] at h, fun ti t h => by simp [SBuilder.new] at h, rfl⟩

theorem sstep_inv (b : SBuilder) (s : SSpec) (hI : SInv b s) (op : SOp) :
    SInv (sstep b op) (sspecStep s op) := by
  have hlen : b.tags.length = s.names.length := by
    have := congrArg List.length hI.names; simpa using this
  cases op with
  | addTag n t =>
    refine ⟨?_, ?_, ?_, hI.sizes⟩
    · simp [sstep, SBuilder.addTag, sspecStep, hI.names]
    · intro p hp
      simp only [sspecStep, List.length_append, List.length_singleton]
      have := hI.bound p hp; omega
    · intro ti t' ht i
      simp only [sstep, SBuilder.addTag, sspecStep] at ht ⊢
      by_cases hlt : ti < b.tags.length
      · rw [List.getElem?_append_left hlt] at ht
        exact hI.bits ti t' ht i
      · rw [List.getElem?_append_right (by omega)] at ht
        have hnc : s.pairs.contains (ti, i) = false := by
          cases hc : s.pairs.contains (ti, i) with
          | false => rfl
          | true =>
            have hm : (ti, i) ∈ s.pairs := by simpa using hc
            have := hI.bound _ hm
            simp only at this; omega
        rw [hnc]
        cases hk : ti - b.tags.length with
        | zero =>
          rw [hk] at ht
          simp only [List.getElem?_cons_zero, Option.some.injEq] at ht
          subst ht
          unfold hasFile; simp
        | succ k => rw [hk] at ht; simp at ht
  | tagFile ti fi =>
    simp only [sstep, SBuilder.tagFile, sizeTagFile, modTag, sspecStep]
    by_cases hti : ti ≥ b.tags.length
    · rw [if_pos hti, if_neg (by omega)]
      exact hI
    · rw [if_neg hti, if_pos (by omega)]
      simp only
      refine ⟨?_, ?_, ?_, hI.sizes⟩
      · simp only
        rw [← hI.names]
        apply List.ext_getElem?
        intro j
        simp only [List.getElem?_map, List.getElem?_modify]
        cases b.tags[j]? with
        | none => rfl
        | some t0 => simp only [Option.map_some]; split <;> rfl
      · intro p hp
        simp only [List.mem_cons] at hp
        rcases hp with hp | hp
        · subst hp; simp only; omega
        · exact hI.bound p hp
      · intro tj t' ht i
        simp only [List.getElem?_modify] at ht
        cases hg : b.tags[tj]? with
        | none => rw [hg] at ht; cases ht
        | some t0 =>
          rw [hg] at ht
          simp only [Option.map_eq_map, Option.map_some, Option.some.injEq] at ht
          have hold := hI.bits tj t0 hg i
          by_cases he : ti = tj
          · subst he
            rw [if_pos rfl] at ht
            subst ht
            simp only
            have hgm : (if t0.mask.length < maskSize (fi + 1) then resizeZ t0.mask (maskSize (fi + 1)) else t0.mask)
                = growMask t0.mask (maskSize (fi + 1)) := rfl
            rw [hgm, hasFile_addFile, hasFile_growMask', hold]
            simp only [List.contains_cons, Prod.mk.injEq, BEq.beq, decide_eq_true_eq]
            by_cases hif : i = fi
            · subst hif; simp
            · simp [hif]
          · rw [if_neg he] at ht
            subst ht
            rw [hold]
            simp only [List.contains_cons]
            have : ((tj, i) == (ti, fi)) = false := by
              cases hc : ((tj, i) == (ti, fi)) with
              | false => rfl
              | true =>
                have := of_decide_eq_true (by simpa using hc : decide ((tj, i) = (ti, fi)) = true)
                exact absurd (Prod.mk.inj this).1.symm he
            rw [this, Bool.false_or]
  | addEntry k e =>
    exact ⟨hI.names, hI.bound, hI.bits, by simp [sstep, SBuilder.addEntry, sspecStep, hI.sizes]⟩
  | setVersion v => exact ⟨hI.names, hI.bound, hI.bits, hI.sizes⟩
  | setEkey k => exact ⟨hI.names, hI.bound, hI.bits, hI.sizes⟩
  | setTagCount c => exact ⟨hI.names, hI.bound, hI.bits, hI.sizes⟩
  | setEsizeBytes w => exact ⟨hI.names, hI.bound, hI.bits, hI.sizes⟩

theorem srun_inv (ops : List SOp) (b : SBuilder) (s : SSpec) (hI : SInv b s) :
    SInv (srun b ops) (sspecRun s ops) := by
  induction ops generalizing b s with
  | nil => exact hI
  | cons op ops ih =>
    simp only [srun, sspecRun, List.foldl_cons]
    exact ih _ _ (sstep_inv b s hI op)

theorem hasFile_resize_keep (m : Bytes) (n i : Nat) (hi : i < n) :
    hasFile (resizeZ m (maskSize n)) i = hasFile m i := by
  rw [hasFile_resizeZ]
  have : i / 8 < maskSize n := by unfold maskSize; omega
  simp [this]

theorem firstSErr_none {f : SEntry → Option SErr} {l : List SEntry} (h : firstSErr f l = none) :
    ∀ e ∈ l, f e = none := by
  induction l with
  | nil => intro e he; cases he
  | cons x xs ih =>
    unfold firstSErr at h
    cases hx : f x with
    | some e => rw [hx] at h; cases h
    | none =>
      rw [hx] at h
      intro e he
      rcases List.mem_cons.mp he with rfl | he
      · exact hx
      · exact ih h e he

/-- what a successful `build` returns -/
structure SBuilt (b : SBuilder) (f : SFile) : Prop where
  version : f.version = b.version ∧ (b.version = 1 ∨ b.version = 2)
  ekey : f.ekeySize = b.ekeySize ∧ 1 ≤ b.ekeySize ∧ b.ekeySize ≤ 16
  width : f.width = (if b.version = 1 then b.esizeBytes else 4) ∧
    (b.version = 1 → 1 ≤ b.esizeBytes ∧ b.esizeBytes ≤ 8)
  total : f.total = sumU64 b.entries
  total40 : b.version = 2 → f.total ≤ 0xFFFFFFFFFF
  tags : f.tags = sizeBuildTags b.tags b.entries.length
  tagCount : b.tags.length < 65536
  entries : f.entries = b.entries
  entryCount : b.entries.length < 4294967296
  checks : ∀ e ∈ b.entries, sEntryCheck b.ekeySize f.width e = none

theorem build_ok (b : SBuilder) (f : SFile) (h : b.build = .ok f) : SBuilt b f := by
  unfold SBuilder.build at h
  by_cases c1 : b.version = 0 ∨ b.version > 2
  · rw [if_pos c1] at h; cases h
  rw [if_neg c1] at h
  by_cases c2 : b.ekeySize = 0 ∨ b.ekeySize > 16
  · rw [if_pos c2] at h; cases h
  rw [if_neg c2] at h
  simp only at h
  by_cases c3 : b.version = 1 ∧ (b.esizeBytes = 0 ∨ b.esizeBytes > 8)
  · rw [if_pos c3] at h; cases h
  rw [if_neg c3] at h
  by_cases c4 : b.version = 2 ∧ sumU64 b.entries > 0xFFFFFFFFFF
  · rw [if_pos c4] at h; cases h
  rw [if_neg c4] at h
  by_cases c5 : (sizeBuildTags b.tags b.entries.length).length =
      (if b.tags.isEmpty then b.tagCount else b.tags.length % 65536)
  · rw [if_pos c5] at h
    by_cases c6 : b.entries.length = b.entries.length % 4294967296
    · rw [if_pos c6] at h
      cases hfe : firstSErr (sEntryCheck b.ekeySize (if b.version = 1 then b.esizeBytes else 4)) b.entries with
      | some e => rw [hfe] at h; cases h
      | none =>
        rw [hfe] at h
        simp only [Except.ok.injEq] at h
        subst h
        have hlt : (sizeBuildTags b.tags b.entries.length).length = b.tags.length := by
          simp [sizeBuildTags]
        refine ⟨⟨rfl, by omega⟩, ⟨rfl, by omega, by omega⟩, ⟨rfl, fun h1 => by omega⟩, rfl,
          fun h2 => by simp only; omega, rfl, ?_, rfl, by omega, firstSErr_none hfe⟩
        rw [hlt] at c5
        by_cases hem : b.tags.isEmpty = true
        · have : b.tags = [] := by simpa using hem
          rw [this]; simp
        · simp only [hem, Bool.false_eq_true, if_false] at c5
          omega
    · rw [if_neg c6] at h; cases h
  · rw [if_neg c5] at h; cases h

/-- `size_builder_refines_sets`: the built manifest has one tag per `add_tag` (same order, name,
type), every mask is `⌈n/8⌉` bytes, file `i < n` is a member of tag `ti` exactly when the program
made an accepted `tag_file(ti, i)` call, the entries carry the added esizes in order and the
header total is their (wrapping `u64`) sum. -/
theorem sbuild_refines (ops : List SOp) (f : SFile) (h : (srun SBuilder.new ops).build = .ok f) :
    let s := sspecRun SSpec.empty ops
    f.tags.map (fun t => (t.name, t.typ)) = s.names ∧
    f.entries.map (·.esize) = s.sizes ∧
    f.total = s.sizes.sum % 2 ^ 64 ∧
    ∀ ti t, f.tags[ti]? = some t →
      t.mask.length = maskSize f.entries.length ∧
      ∀ i, i < f.entries.length → hasFile t.mask i = s.pairs.contains (ti, i) := by
  intro s
  have hI := srun_inv ops SBuilder.new SSpec.empty sinv_new
  have hb := build_ok _ _ h
  refine ⟨?_, ?_, ?_, ?_⟩
  · rw [hb.tags, ← hI.names]; simp [sizeBuildTags]
  · rw [hb.entries]; exact hI.sizes
  · rw [hb.total, sumU64, hI.sizes]
  · intro ti t ht
    rw [hb.tags] at ht
    simp only [sizeBuildTags, List.getElem?_map] at ht
    cases hg : (srun SBuilder.new ops).tags[ti]? with
    | none => rw [hg] at ht; cases ht
    | some t0 =>
      rw [hg] at ht
      simp only [Option.map_some, Option.some.injEq] at ht
      subst ht
      rw [hb.entries]
      refine ⟨length_resizeZ _ _, fun i hi => ?_⟩
      simp only
      rw [hasFile_resize_keep _ _ _ hi]
      exact hI.bits ti t0 hg i

/-- a successful `build` of well-typed inputs is a well-formed size manifest in the sense of C08 -/
theorem sbuild_wf (b : SBuilder) (f : SFile) (h : b.build = .ok f)
    (hnames : ∀ t ∈ b.tags, (0 : Byte) ∉ t.name ∧ validUtf8 t.name = true ∧ validType t.typ = true)
    (hu64 : ∀ e ∈ b.entries, e.esize < 2 ^ 64) : SWf f := by
  have hb := build_ok b f h
  obtain ⟨version, ks, total, width, tags, entries⟩ := f
  have h1 := hb.version; have h2 := hb.ekey; have h3 := hb.width; have h4 := hb.total
  have h5 := hb.total40; have h6 := hb.tags; have h7 := hb.tagCount; have h8 := hb.entries
  have h9 := hb.entryCount; have h10 := hb.checks
  simp only at h1 h2 h3 h4 h5 h6 h7 h8 h9 h10
  obtain ⟨rfl, hv⟩ := h1
  obtain ⟨rfl, hk1, hk2⟩ := h2
  subst h8
  have hlen : tags.length = b.tags.length := by rw [h6]; simp [sizeBuildTags]
  refine ⟨hv, hk1, hk2, ?_, h4.symm, ?_, by simp only; omega, h9, ?_, ?_, ?_⟩
  · simp only
    rcases hv with hv | hv
    · rw [if_pos hv] at h3 ⊢; rw [h3.1]; exact h3.2 hv
    · rw [if_neg (by omega)] at h3 ⊢; exact h3.1
  · intro hv2
    have := h5 hv2
    have e : (256 : Nat) ^ 5 = 1099511627776 := by decide
    simp only [e]; omega
  · intro t ht
    rw [h6] at ht
    simp only [sizeBuildTags, List.mem_map] at ht
    obtain ⟨t0, ht0, rfl⟩ := ht
    exact ⟨(hnames t0 ht0).1, (hnames t0 ht0).2.2, length_resizeZ _ _⟩
  · simp only
    rw [h6, List.all_eq_true]
    intro t ht
    simp only [sizeBuildTags, List.mem_map] at ht
    obtain ⟨t0, ht0, rfl⟩ := ht
    exact (hnames t0 ht0).2.1
  · intro e he
    have hc := h10 e he
    unfold sEntryCheck at hc
    split at hc
    · cases hc
    · rename_i hkl
      split at hc
      · cases hc
      · rename_i hes
        refine ⟨by simp only; omega, ?_⟩
        simp only
        by_cases hw8 : width < 8
        · have : e.esize / 256 ^ width = 0 := by
            by_cases x : e.esize / 256 ^ width = 0
            · exact x
            · exact absurd ⟨hw8, x⟩ hes
          exact (Nat.div_eq_zero_iff_lt (Nat.pow_pos (by decide))).mp this
        · have hw : width = 8 := by
            rcases hv with hv | hv
            · rw [if_pos hv] at h3; have := h3.2 hv; omega
            · rw [if_neg (by omega)] at h3; omega
          rw [hw]
          have := hu64 e he
          have e2 : (256 : Nat) ^ 8 = 2 ^ 64 := by decide
          rw [e2]; exact this

/-! ### (B) UTF-8 checks inside the readers -/

/-- a reader followed by a check of the value read -/
def guardP {α : Type} (ok : α → Bool) (p : Bytes → Option (α × Bytes)) (bs : Bytes) : Option (α × Bytes) :=
  match p bs with
  | some (x, r) => if ok x then some (x, r) else none
  | none => none

def tagRest (n : Nat) (name r1 : Bytes) : Option (Tag × Bytes) :=
  match readN 2 r1 with
  | none => none
  | some (tb, r2) =>
    if validType (rdBe tb) then
      match readN (maskSize n) r2 with
      | none => none
      | some (mask, r3) => some (⟨name, rdBe tb, mask⟩, r3)
    else none

theorem tagRest_name {n : Nat} {name r1 r : Bytes} {t : Tag} (h : tagRest n name r1 = some (t, r)) :
    t.name = name := by
  unfold tagRest at h
  cases h2 : readN 2 r1 with
  | none => rw [h2] at h; cases h
  | some q =>
    obtain ⟨tb, r2⟩ := q
    rw [h2] at h
    simp only at h
    split at h
    · cases h3 : readN (maskSize n) r2 with
      | none => rw [h3] at h; cases h
      | some q3 =>
        obtain ⟨mask, r3⟩ := q3
        rw [h3] at h
        simp only [Option.some.injEq, Prod.mk.injEq] at h
        rw [← h.1]
    · cases h

theorem parseTag_rest (n : Nat) (bs : Bytes) :
    parseTag n bs = match readCStr bs with | none => none | some (name, r1) => tagRest n name r1 := rfl

theorem parseTagU_rest (n : Nat) (bs : Bytes) :
    parseTagU n bs = match readCStr bs with
      | none => none
      | some (name, r1) => if !validUtf8 name then none else tagRest n name r1 := rfl

theorem parseTagU_eq (n : Nat) : parseTagU n = guardP (fun t => validUtf8 t.name) (parseTag n) := by
  funext bs
  unfold guardP
  rw [parseTag_rest, parseTagU_rest]
  cases readCStr bs with
  | none => rfl
  | some q =>
    obtain ⟨name, r1⟩ := q
    simp only
    cases hr : tagRest n name r1 with
    | none => cases validUtf8 name <;> rfl
    | some q2 =>
      obtain ⟨t, r⟩ := q2
      have := tagRest_name hr
      simp only [this]
      cases validUtf8 name <;> rfl

def ientryRest (version : Nat) (path r1 : Bytes) : Option (IEntry × Bytes) :=
  match readN 16 r1 with
  | none => none
  | some (key, r2) =>
    match readN 4 r2 with
    | none => none
    | some (sz, r3) =>
      if version ≥ 2 then
        match readN 1 r3 with
        | none => none
        | some (ft, r4) => some (⟨path, key, rdBe sz, some (rdBe ft)⟩, r4)
      else some (⟨path, key, rdBe sz, none⟩, r3)

theorem ientryRest_path {v : Nat} {path r1 r : Bytes} {e : IEntry} (h : ientryRest v path r1 = some (e, r)) :
    e.path = path := by
  unfold ientryRest at h
  cases h2 : readN 16 r1 with
  | none => rw [h2] at h; cases h
  | some q =>
    obtain ⟨key, r2⟩ := q
    rw [h2] at h
    simp only at h
    cases h3 : readN 4 r2 with
    | none => rw [h3] at h; cases h
    | some q3 =>
      obtain ⟨sz, r3⟩ := q3
      rw [h3] at h
      simp only at h
      split at h
      · cases h4 : readN 1 r3 with
        | none => rw [h4] at h; cases h
        | some q4 =>
          obtain ⟨ft, r4⟩ := q4
          rw [h4] at h
          simp only [Option.some.injEq, Prod.mk.injEq] at h
          rw [← h.1]
      · simp only [Option.some.injEq, Prod.mk.injEq] at h
        rw [← h.1]

theorem parseIEntry_rest (v : Nat) (bs : Bytes) :
    parseIEntry v bs = match readCStr bs with | none => none | some (p, r1) => ientryRest v p r1 := rfl

theorem parseIEntryU_rest (v : Nat) (bs : Bytes) :
    parseIEntryU v bs = match readCStr bs with
      | none => none
      | some (p, r1) => if !validUtf8 p then none else ientryRest v p r1 := rfl

theorem parseIEntryU_eq (v : Nat) : parseIEntryU v = guardP (fun e => validUtf8 e.path) (parseIEntry v) := by
  funext bs
  unfold guardP
  rw [parseIEntry_rest, parseIEntryU_rest]
  cases readCStr bs with
  | none => rfl
  | some q =>
    obtain ⟨path, r1⟩ := q
    simp only
    cases hr : ientryRest v path r1 with
    | none => cases validUtf8 path <;> rfl
    | some q2 =>
      obtain ⟨e, r⟩ := q2
      have := ientryRest_path hr
      simp only [this]
      cases validUtf8 path <;> rfl

/-- a guarded reader run `c` times = the plain reader run `c` times, then the check on every item -/
theorem parseMany_guard {α : Type} (ok : α → Bool) (p : Bytes → Option (α × Bytes)) (c : Nat) (bs : Bytes) :
    parseMany (guardP ok p) c bs =
      match parseMany p c bs with
      | some (xs, r) => if xs.all ok then some (xs, r) else none
      | none => none := by
  induction c generalizing bs with
  | zero => simp [parseMany]
  | succ k ih =>
    unfold parseMany guardP
    cases hp : p bs with
    | none => rfl
    | some q =>
      obtain ⟨x, r⟩ := q
      simp only
      cases hx : ok x with
      | false =>
        simp only [Bool.false_eq_true, if_false]
        cases parseMany p k r with
        | none => rfl
        | some q2 => obtain ⟨xs, r'⟩ := q2; simp [hx]
      | true =>
        simp only [if_true]
        have := ih r
        unfold guardP at this
        rw [this]
        cases parseMany p k r with
        | none => rfl
        | some q2 =>
          obtain ⟨xs, r'⟩ := q2
          simp only [List.all_cons, hx, Bool.true_and]
          cases xs.all ok <;> rfl

theorem parseInstallWith_plain : parseInstallWith parseTag parseIEntry = parseInstall := rfl
theorem parseDownloadWith_plain : parseDownloadWith parseTag = parseDownload := rfl

/-- `InstallManifest::parse` with the checks where the code has them = plain parse, then every
tag name and path checked (the form used by the C08 model, `Model.Serial.parseInstallU`). -/
theorem parseInstallV_eq (bs : Bytes) : parseInstallV bs = parseInstallU bs := by
  unfold parseInstallV parseInstallU
  rw [← parseInstallWith_plain]
  unfold parseInstallWith
  cases readN 10 bs with
  | none => rfl
  | some q =>
    obtain ⟨h, r0⟩ := q
    simp only
    split
    · rename_i m0 m1 ver ckl t0 t1 e0 e1 e2 e3
      split
      · rfl
      · split
        · rfl
        · rename_i v2 r1 _
          split
          · rfl
          · split
            · rfl
            · rw [parseTagU_eq, parseIEntryU_eq, parseMany_guard]
              cases parseMany (parseTag (rdBe [e0, e1, e2, e3])) (rdBe [t0, t1]) r1 with
              | none => rfl
              | some q1 =>
                obtain ⟨tags, r2⟩ := q1
                simp only
                cases hta : tags.all (fun t => validUtf8 t.name) with
                | false =>
                  simp only [Bool.false_eq_true, if_false]
                  cases parseMany (parseIEntry ver.toNat) (rdBe [e0, e1, e2, e3]) r2 with
                  | none => rfl
                  | some q2 => obtain ⟨es, r3⟩ := q2; simp [installNamesOk, hta]
                | true =>
                  simp only [if_true]
                  rw [parseMany_guard]
                  cases parseMany (parseIEntry ver.toNat) (rdBe [e0, e1, e2, e3]) r2 with
                  | none => rfl
                  | some q2 =>
                    obtain ⟨es, r3⟩ := q2
                    simp only [installNamesOk, hta, Bool.true_and]
                    cases es.all (fun e => validUtf8 e.path) <;> rfl
    · rfl

/-- the same for `DownloadManifest::parse` (only tag names are strings there) -/
theorem parseDownloadV_eq (bs : Bytes) :
    parseDownloadV bs =
      match parseDownload bs with
      | some m => if m.tags.all (fun t => validUtf8 t.name) then some m else none
      | none => none := by
  unfold parseDownloadV
  rw [← parseDownloadWith_plain]
  unfold parseDownloadWith
  cases readN 11 bs with
  | none => rfl
  | some q =>
    obtain ⟨h, r0⟩ := q
    simp only
    split
    · rename_i m0 m1 ver ekl hc e0 e1 e2 e3 t0 t1
      split
      · rfl
      · split
        · rfl
        · rename_i fs bp r1 _
          split
          · rfl
          · split
            · rfl
            · cases parseMany (parseDEntry (hc ≠ 0) fs) (rdBe [e0, e1, e2, e3]) r1 with
              | none => rfl
              | some q1 =>
                obtain ⟨es, r2⟩ := q1
                simp only
                rw [parseTagU_eq, parseMany_guard]
                cases parseMany (parseTag (rdBe [e0, e1, e2, e3])) (rdBe [t0, t1]) r2 with
                | none => rfl
                | some q2 =>
                  obtain ⟨tags, r3⟩ := q2
                  simp only
                  cases tags.all (fun t => validUtf8 t.name) <;> rfl
    · rfl

end Cascette.Proofs.Manifest
