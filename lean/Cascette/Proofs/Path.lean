/-
Proofs/Path — lemmas about splitting, joining and normalising paths (C20).
-/
import Cascette.Model.Path
namespace Cascette.Proofs.Path
open Cascette.Model.Path

/-! ### segsBy / joinSep -/

theorem segsBy_ne_nil (sep : Char) (s : Str) : segsBy sep s ≠ [] := by
  induction s with
  | nil => simp [segsBy]
  | cons c r ih =>
    unfold segsBy
    split
    · simp
    · split <;> simp

/-- a string without the separator is its own single segment. -/
theorem segsBy_of_not_mem (sep : Char) (s : Str) (h : sep ∉ s) : segsBy sep s = [s] := by
  induction s with
  | nil => simp [segsBy]
  | cons c r ih =>
    have hc : c ≠ sep := fun e => h (by simp [e])
    have hr : sep ∉ r := fun e => h (by simp [e])
    unfold segsBy
    rw [if_neg hc, ih hr]

/-- splitting at a separator concatenates the segment lists. -/
theorem segsBy_append_sep (sep : Char) (a b : Str) :
    segsBy sep (a ++ sep :: b) = segsBy sep a ++ segsBy sep b := by
  induction a with
  | nil => simp [segsBy]
  | cons c r ih =>
    by_cases hc : c = sep
    · subst hc
      simp only [List.cons_append]
      rw [segsBy, if_pos rfl, ih]
      conv => rhs; rw [segsBy, if_pos rfl]
      simp
    · simp only [List.cons_append]
      rw [segsBy, if_neg hc, ih]
      conv => rhs; rw [segsBy, if_neg hc]
      cases hs : segsBy sep r with
      | nil => exact absurd hs (segsBy_ne_nil sep r)
      | cons s ss => simp

/-- a separator-free prefix is glued onto the first segment of what follows. -/
theorem segsBy_append_of_not_mem (sep : Char) (a b : Str) (h : sep ∉ a) :
    segsBy sep (a ++ b) =
      match segsBy sep b with
      | [] => [a]
      | s :: ss => (a ++ s) :: ss := by
  induction a with
  | nil =>
    cases hs : segsBy sep b with
    | nil => exact absurd hs (segsBy_ne_nil sep b)
    | cons s ss => simpa using hs
  | cons c r ih =>
    have hc : c ≠ sep := fun e => h (by simp [e])
    have hr : sep ∉ r := fun e => h (by simp [e])
    simp only [List.cons_append]
    rw [segsBy, if_neg hc, ih hr]
    cases hs : segsBy sep b with
    | nil => exact absurd hs (segsBy_ne_nil sep b)
    | cons s ss => simp

/-- splitting inverts joining when no part contains the separator. -/
theorem segsBy_joinSep (sep : Char) (fs : List Str) (hne : fs ≠ [])
    (h : ∀ f ∈ fs, sep ∉ f) : segsBy sep (joinSep sep fs) = fs := by
  induction fs with
  | nil => exact absurd rfl hne
  | cons a r ih =>
    cases r with
    | nil => simpa [joinSep] using segsBy_of_not_mem sep a (h a (by simp))
    | cons b r' =>
      have ha : sep ∉ a := h a (by simp)
      have := ih (by simp) (fun f hf => h f (by simp [hf]))
      simp only [joinSep] at this ⊢
      rw [segsBy_append_sep, segsBy_of_not_mem sep a ha, this]
      simp

/-- joining inverts splitting, for every string. -/
theorem joinSep_segsBy (sep : Char) (s : Str) : joinSep sep (segsBy sep s) = s := by
  induction s with
  | nil => simp [segsBy, joinSep]
  | cons c r ih =>
    by_cases hc : c = sep
    · subst hc
      rw [segsBy, if_pos rfl]
      cases hs : segsBy c r with
      | nil => exact absurd hs (segsBy_ne_nil c r)
      | cons s ss => rw [hs] at ih; simp [joinSep, ih]
    · rw [segsBy, if_neg hc]
      cases hs : segsBy sep r with
      | nil => exact absurd hs (segsBy_ne_nil sep r)
      | cons s ss =>
        rw [hs] at ih
        cases ss with
        | nil => simp [joinSep] at ih ⊢; exact ih
        | cons s2 ss2 => simp [joinSep] at ih ⊢; exact ih

/-- `split` is injective. -/
theorem segsBy_inj (sep : Char) (a b : Str) (h : segsBy sep a = segsBy sep b) : a = b := by
  rw [← joinSep_segsBy sep a, ← joinSep_segsBy sep b, h]

/-- joining separator-free parts is injective. -/
theorem joinSep_inj (sep : Char) (fs gs : List Str) (hf : fs ≠ []) (hg : gs ≠ [])
    (h1 : ∀ f ∈ fs, sep ∉ f) (h2 : ∀ g ∈ gs, sep ∉ g)
    (h : joinSep sep fs = joinSep sep gs) : fs = gs := by
  rw [← segsBy_joinSep sep fs hf h1, ← segsBy_joinSep sep gs hg h2, h]

/-- every character of a segment is a character of the string, and none is the separator. -/
theorem mem_of_mem_segsBy (sep : Char) (s : Str) :
    ∀ g ∈ segsBy sep s, ∀ c ∈ g, c ∈ s ∧ c ≠ sep := by
  induction s with
  | nil => simp [segsBy]
  | cons d r ih =>
    intro g hg c hc
    by_cases hd : d = sep
    · rw [segsBy, if_pos hd] at hg
      rcases List.mem_cons.mp hg with rfl | hg
      · cases hc
      · have := ih g hg c hc
        exact ⟨List.mem_cons_of_mem _ this.1, this.2⟩
    · rw [segsBy, if_neg hd] at hg
      cases hs : segsBy sep r with
      | nil => exact absurd hs (segsBy_ne_nil sep r)
      | cons s ss =>
        rw [hs] at hg ih
        rcases List.mem_cons.mp hg with rfl | hg
        · rcases List.mem_cons.mp hc with rfl | hc
          · exact ⟨by simp, hd⟩
          · have := ih s (by simp) c hc
            exact ⟨List.mem_cons_of_mem _ this.1, this.2⟩
        · have := ih g (by simp [hg]) c hc
          exact ⟨List.mem_cons_of_mem _ this.1, this.2⟩

/-! ### components -/

theorem dotdot_ne_nil : dotdot ≠ [] := by decide
theorem dotdot_ne_dot : dotdot ≠ dot := by decide

theorem mem_comps (s : Str) (c : Comp) : c ∈ comps s ↔ c ∈ segs s ∧ c ≠ [] ∧ c ≠ dot := by
  unfold comps keeps
  simp [List.mem_filter]

theorem dotdot_mem_comps (s : Str) : dotdot ∈ comps s ↔ dotdot ∈ segs s := by
  rw [mem_comps]
  exact ⟨fun h => h.1, fun h => ⟨h, dotdot_ne_nil, dotdot_ne_dot⟩⟩

/-- a string whose segments are all kept contributes exactly its segments. -/
theorem comps_eq_segs (s : Str) (h : ∀ g ∈ segs s, g ≠ [] ∧ g ≠ dot) : comps s = segs s := by
  unfold comps
  rw [List.filter_eq_self]
  intro g hg
  have := h g hg
  simp [keeps, this.1, this.2]

theorem isAbs_iff (s : Str) : isAbs s = true ↔ ∃ r, s = '/' :: r := by
  cases s with
  | nil => simp [isAbs]
  | cons c r =>
    by_cases hc : c = '/'
    · subst hc; simp [isAbs]
    · constructor
      · intro h
        unfold isAbs at h
        split at h
        · rename_i heq; cases heq; exact absurd rfl hc
        · cases h
      · rintro ⟨r', h⟩; cases h; exact absurd rfl hc

/-- an absolute string has an empty first segment. -/
theorem nil_mem_segs_of_isAbs (s : Str) (h : isAbs s = true) : [] ∈ segs s := by
  obtain ⟨r, rfl⟩ := (isAbs_iff s).mp h
  simp [segs, segsBy]

/-! ### lexical normalisation -/

theorem normAux_of_no_dotdot (st cs : List Comp) (h : dotdot ∉ cs) :
    normAux st cs = st.reverse ++ cs := by
  induction cs generalizing st with
  | nil => simp [normAux]
  | cons c r ih =>
    have hc : c ≠ dotdot := fun e => h (by simp [e])
    have hr : dotdot ∉ r := fun e => h (by simp [e])
    rw [normAux, if_neg hc, ih _ hr]
    simp

/-- a path without ".." components is its own normal form. -/
theorem normalize_of_no_dotdot (p : APath) (h : dotdot ∉ p) : normalize p = p := by
  unfold normalize
  rw [normAux_of_no_dotdot [] p h]
  simp

/-- the general confinement lemma: a root without ".." extended by components without ".."
stays below the root. -/
theorem confined_append (root cs : APath) (hr : dotdot ∉ root) (hc : dotdot ∉ cs) :
    confined root (root ++ cs) := by
  unfold confined
  rw [normalize_of_no_dotdot]
  · exact List.prefix_append root cs
  · simp [hr, hc]

/-- joining a relative string without ".." segments. -/
theorem confined_join (base : APath) (s : Str) (hb : dotdot ∉ base) (habs : isAbs s = false)
    (hs : dotdot ∉ segs s) : confined base (join base s) := by
  unfold join
  rw [habs]
  simp only [Bool.false_eq_true, if_false]
  exact confined_append base (comps s) hb (fun h => hs ((dotdot_mem_comps s).mp h))

/-- a prefix of the base is still a prefix after the join. -/
theorem confined_join_prefix (root sub : APath) (s : Str) (hr : dotdot ∉ root) (hsub : dotdot ∉ sub)
    (habs : isAbs s = false) (hs : dotdot ∉ segs s) : confined root (join (root ++ sub) s) := by
  unfold join
  rw [habs]
  simp only [Bool.false_eq_true, if_false, List.append_assoc]
  exact confined_append root (sub ++ comps s) hr
    (by simp only [List.mem_append, not_or]
        exact ⟨hsub, fun h => hs ((dotdot_mem_comps s).mp h)⟩)

/-! ### temporary names -/

theorem fileName_append_singleton (d : APath) (n : Comp) (h : n ≠ dotdot) :
    fileName (d ++ [n]) = some n := by
  unfold fileName
  simp [h]

theorem splitLastDot_none_of_not_mem (n : Comp) (h : '.' ∉ n) : splitLastDot n = none := by
  induction n with
  | nil => rfl
  | cons c r ih =>
    have hc : c ≠ '.' := fun e => h (by simp [e])
    have hr : '.' ∉ r := fun e => h (by simp [e])
    rw [splitLastDot, ih hr]
    simp [hc]

/-- for a file name without '.', `with_extension("tmp")` appends ".tmp". -/
theorem withExtTmp_of_no_dot (d : APath) (n : Comp) (hn : n ≠ dotdot) (h : '.' ∉ n) :
    withExtTmp (d ++ [n]) = d ++ [n ++ tmpExt] := by
  unfold withExtTmp withExtTmpRaw
  simp only [fileName_append_singleton d n hn, splitLastDot_none_of_not_mem n h]
  simp

theorem appendTmp_eq (d : APath) (n : Comp) (hn : n ≠ dotdot) :
    appendTmp (d ++ [n]) = d ++ [n ++ tmpExt] := by
  unfold appendTmp
  rw [fileName_append_singleton d n hn]
  simp

/-- a component without '.' is not "..". -/
theorem ne_dotdot_of_no_dot (g : Comp) (h : '.' ∉ g) : g ≠ dotdot :=
  fun e => h (by rw [e]; decide)

end Cascette.Proofs.Path
