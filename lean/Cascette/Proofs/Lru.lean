/-
Proofs/Lru — invariants of the sequence-level LRU model and its refinement to the textbook LRU.

* `Inv`   : keys distinct, `length + free = cap` (no slot is ever lost or invented), every
            stored checkpoint is itself a possible state (distinct keys, at most `cap` of them).
            Preserved by EVERY operation on EVERY key (`step_inv`).
* `NoZero`: the all-zero key occurs neither in the table nor in any checkpoint.  Preserved by
            every operation except `touch zero` (`step_noZero`).
* `step_refines`: under both, one model step = one textbook step (same result, same abstraction).
-/
import Cascette.Model.LruSeq
namespace Cascette.Proofs.Lru
open Cascette.Spec.Lru
open Cascette.Model
open Cascette.Model.LruSeq (Seq evictToAux loadSnap)

variable {κ : Type} [DecidableEq κ]

/-! ### files -/

theorem lookup_mem {σ : Type} {fs : Files σ} {g : Nat} {v : σ} (h : Files.lookup fs g = some v) :
    (g, v) ∈ fs := by
  induction fs with
  | nil => simp [Files.lookup] at h
  | cons p rest ih =>
    obtain ⟨g', v'⟩ := p
    unfold Files.lookup at h
    split at h
    · next hg => cases h; subst hg; exact List.mem_cons_self
    · exact List.mem_cons_of_mem _ (ih h)

theorem mem_delete {σ : Type} {fs : Files σ} {g : Nat} {p : Nat × σ} (h : p ∈ Files.delete fs g) : p ∈ fs :=
  (List.mem_filter.mp h).1

theorem mem_scan {σ : Type} {fs : Files σ} {g g' : Nat} {p : Nat × σ} (h : p ∈ Files.scan fs g g') : p ∈ fs :=
  (List.mem_filter.mp h).1

theorem mem_write {σ : Type} {fs : Files σ} {g : Nat} {v : σ} {p : Nat × σ} (h : p ∈ Files.write fs g v) :
    p = (g, v) ∨ p ∈ fs := by
  unfold Files.write at h
  rcases List.mem_cons.mp h with h | h
  · exact Or.inl h
  · exact Or.inr (mem_delete h)

theorem lookup_write_self {σ : Type} (fs : Files σ) (g : Nat) (v : σ) :
    Files.lookup (Files.write fs g v) g = some v := by
  simp [Files.write, Files.lookup]

theorem lookup_delete_ne {σ : Type} (fs : Files σ) (g g' : Nat) (h : g' ≠ g) :
    Files.lookup (Files.delete fs g') g = Files.lookup fs g := by
  induction fs with
  | nil => rfl
  | cons p rest ih =>
    obtain ⟨a, v⟩ := p
    unfold Files.delete at ih ⊢
    by_cases ha : a = g'
    · have hag : a ≠ g := by omega
      have hf : List.filter (fun p : Nat × σ => decide (p.1 ≠ g')) ((a, v) :: rest)
          = List.filter (fun p : Nat × σ => decide (p.1 ≠ g')) rest := by
        simp [List.filter, ha]
      rw [hf, ih]
      simp [Files.lookup, hag]
    · have hf : List.filter (fun p : Nat × σ => decide (p.1 ≠ g')) ((a, v) :: rest)
          = (a, v) :: List.filter (fun p : Nat × σ => decide (p.1 ≠ g')) rest := by
        simp [List.filter, ha]
      rw [hf]
      simp only [Files.lookup]
      rw [ih]

/-- the generation `find_latest_lru_file` reports is that of an existing file. -/
theorem latest_lookup {σ : Type} {fs : Files σ} {g : Nat} (h : Files.latest fs = some g) :
    ∃ v, Files.lookup fs g = some v := by
  induction fs generalizing g with
  | nil => simp [Files.latest] at h
  | cons p rest ih =>
    obtain ⟨a, v⟩ := p
    unfold Files.latest at h
    unfold Files.lookup
    split at h
    · cases h; exact ⟨v, by simp⟩
    · next m hm =>
      cases h
      by_cases hlt : m < a
      · simp [hlt]
      · simp only [hlt, if_false]
        by_cases ha : a = m
        · simp [ha]
        · simp only [ha, if_false]; exact ih hm

/-! ### the invariant -/

structure Inv (s : Seq κ) : Prop where
  nodup : s.order.Nodup
  slots : s.order.length + s.free = s.cap
  files : ∀ p ∈ s.files, p.2.Nodup ∧ p.2.length ≤ s.cap

theorem inv_init (cap : Nat) : Inv (Seq.init cap : Seq κ) :=
  ⟨List.nodup_nil, by simp [Seq.init], by simp [Seq.init]⟩

theorem nodup_tail_concat {x k : κ} {t : List κ} (hn : (x :: t).Nodup) (hk : k ∉ x :: t) :
    (t ++ [k]).Nodup := by
  rw [List.nodup_append]
  refine ⟨(List.nodup_cons.mp hn).2, (by simp), ?_⟩
  intro a ha b hb
  simp only [List.mem_singleton] at hb
  subst hb
  intro hab; subst hab
  exact hk (List.mem_cons_of_mem _ ha)

theorem nodup_concat {k : κ} {l : List κ} (hn : l.Nodup) (hk : k ∉ l) : (l ++ [k]).Nodup := by
  rw [List.nodup_append]
  refine ⟨hn, (by simp), ?_⟩
  intro a ha b hb
  simp only [List.mem_singleton] at hb
  subst hb
  intro hab; subst hab
  exact hk ha

theorem nodup_erase_concat {k : κ} {l : List κ} (hn : l.Nodup) : (l.erase k ++ [k]).Nodup :=
  nodup_concat (hn.erase k) (fun h => ((List.Nodup.mem_erase_iff hn).mp h).1 rfl)

theorem touch_inv {s : Seq κ} (k : κ) (h : Inv s) : Inv (LruSeq.touch s k).1 := by
  obtain ⟨hn, hs, hf⟩ := h
  unfold LruSeq.touch
  split
  · next hk =>
    refine ⟨nodup_erase_concat hn, ?_, hf⟩
    have := List.length_erase_of_mem hk
    have : 0 < s.order.length := List.length_pos_of_mem hk
    simp only [List.length_append, List.length_singleton]
    omega
  · next hk =>
    split
    · next hfree =>
      refine ⟨nodup_concat hn hk, ?_, hf⟩
      simp only [List.length_append, List.length_singleton]
      omega
    · next hfree =>
      split
      · exact ⟨hn, hs, hf⟩
      · next x t ho =>
        rw [ho] at hn hk hs
        refine ⟨nodup_tail_concat hn hk, ?_, hf⟩
        simp only [List.length_append, List.length_singleton, List.length_cons] at hs ⊢
        omega

theorem remove_inv {s : Seq κ} (k : κ) (h : Inv s) : Inv (LruSeq.remove s k).1 := by
  obtain ⟨hn, hs, hf⟩ := h
  unfold LruSeq.remove
  split
  · next hk =>
    refine ⟨hn.erase k, ?_, hf⟩
    have := List.length_erase_of_mem hk
    have : 0 < s.order.length := List.length_pos_of_mem hk
    show (s.order.erase k).length + (s.free + 1) = s.cap
    omega
  · exact ⟨hn, hs, hf⟩

theorem evictTail_inv {s : Seq κ} (h : Inv s) : Inv (LruSeq.evictTail s).1 := by
  obtain ⟨hn, hs, hf⟩ := h
  unfold LruSeq.evictTail
  split
  · exact ⟨hn, hs, hf⟩
  · next x t ho =>
    rw [ho] at hn hs
    refine ⟨(List.nodup_cons.mp hn).2, ?_, hf⟩
    simp only [List.length_cons] at hs
    show t.length + (s.free + 1) = s.cap
    omega

theorem evictToAux_spec (target avg : Nat) (l : List κ) (free freed : Nat) :
    let r := evictToAux target avg l free freed
    r.1 = (Spec.Lru.evictTo target avg l freed).1 ∧
    r.2.2.1 = (Spec.Lru.evictTo target avg l freed).2.1 ∧
    r.2.2.2 = (Spec.Lru.evictTo target avg l freed).2.2 ∧
    r.1.length + r.2.1 = l.length + free ∧ r.1.length + r.2.2.1 = l.length ∧
    r.1.Sublist l := by
  induction l generalizing free freed with
  | nil => simp [evictToAux, Spec.Lru.evictTo]
  | cons x t ih =>
    simp only [evictToAux, Spec.Lru.evictTo]
    split
    · obtain ⟨h1, h2, h3, h4, h5, h6⟩ := ih (free + 1) (freed + avg)
      refine ⟨h1, by simp only [h2], h3, ?_, ?_, List.Sublist.cons _ h6⟩
      · simp only [List.length_cons]; omega
      · simp only [List.length_cons]; omega
    · simp

theorem evictTo_inv {s : Seq κ} (target avg : Nat) (h : Inv s) : Inv (LruSeq.evictTo s target avg).1 := by
  obtain ⟨hn, hs, hf⟩ := h
  obtain ⟨_, _, _, h4, _, h6⟩ := evictToAux_spec target avg s.order s.free 0
  refine ⟨hn.sublist h6, ?_, hf⟩
  show (evictToAux target avg s.order s.free 0).1.length + (evictToAux target avg s.order s.free 0).2.1 = s.cap
  omega

theorem loadSnap_inv {s : Seq κ} (zero : κ) (g : Nat) (snap : List κ) (h : Inv s)
    (hsnap : snap.Nodup ∧ snap.length ≤ s.cap) : Inv (loadSnap zero s g snap) := by
  obtain ⟨hn, hs, hf⟩ := h
  have hsub : (snap.filter (fun k => k ≠ zero)).Sublist snap := List.filter_sublist
  have hlen := hsub.length_le
  refine ⟨hsnap.1.sublist hsub, ?_, hf⟩
  show (snap.filter (fun k => k ≠ zero)).length + (s.cap - (snap.filter (fun k => k ≠ zero)).length) = s.cap
  omega

theorem cycleEvict_inv {s : Seq κ} (limit avg : Nat) (h : Inv s) : Inv (LruSeq.cycleEvict s limit avg).1 := by
  unfold LruSeq.cycleEvict
  split
  · split
    · exact evictTo_inv _ _ h
    · exact h
  · exact h

theorem cycleEvict_files (s : Seq κ) (limit avg : Nat) :
    (LruSeq.cycleEvict s limit avg).1.files = s.files ∧ (LruSeq.cycleEvict s limit avg).1.cap = s.cap ∧
    (LruSeq.cycleEvict s limit avg).1.gen = s.gen ∧ (LruSeq.cycleEvict s limit avg).1.prev = s.prev := by
  unfold LruSeq.cycleEvict LruSeq.evictTo
  split
  · split <;> simp
  · simp

/-- every operation, on every key (the all-zero key included), keeps the invariant. -/
theorem step_inv (zero : κ) {s : Seq κ} (op : Op κ) (h : Inv s) : Inv (LruSeq.step zero s op).1 := by
  cases op with
  | touch k => exact touch_inv k h
  | remove k => exact remove_inv k h
  | evictTail => exact evictTail_inv h
  | evictTo t a => exact evictTo_inv t a h
  | bump => exact ⟨h.nodup, h.slots, h.files⟩
  | checkpoint =>
    refine ⟨h.nodup, h.slots, ?_⟩
    intro p hp
    have hw : ∀ p ∈ Files.write s.files s.gen s.order, p.2.Nodup ∧ p.2.length ≤ s.cap := by
      intro p hp
      rcases mem_write hp with rfl | hp
      · exact ⟨h.nodup, by have := h.slots; show s.order.length ≤ s.cap; omega⟩
      · exact h.files p hp
    simp only [LruSeq.step] at hp
    split at hp
    · exact hw p (mem_delete hp)
    · exact hw p hp
  | load g =>
    simp only [LruSeq.step]
    split
    · exact h
    · next snap hl => exact loadSnap_inv zero g snap h (h.files _ (lookup_mem hl))
  | runCycle limit avg =>
    simp only [LruSeq.step]
    split
    · have hc := cycleEvict_inv limit avg h
      obtain ⟨hf, hcap, _, _⟩ := cycleEvict_files s limit avg
      refine ⟨hc.nodup, hc.slots, ?_⟩
      intro p hp
      have := h.files p (mem_scan hp)
      simpa [hcap] using this
    · next g hg =>
      split
      · exact h
      · next snap hl =>
        have h1 := loadSnap_inv zero g snap h (h.files _ (lookup_mem hl))
        have hc := cycleEvict_inv limit avg h1
        obtain ⟨hf, hcap, _, _⟩ := cycleEvict_files (loadSnap zero s g snap) limit avg
        refine ⟨hc.nodup, hc.slots, ?_⟩
        intro p hp
        have := h.files p (mem_scan hp)
        have hcap' : (LruSeq.cycleEvict (loadSnap zero s g snap) limit avg).1.cap = s.cap := by rw [hcap]; rfl
        show p.2.Nodup ∧ p.2.length ≤ (LruSeq.cycleEvict (loadSnap zero s g snap) limit avg).1.cap
        rw [hcap']; exact this
  | reset => exact ⟨List.nodup_nil, by simp [LruSeq.step], h.files⟩
  | reopen => exact ⟨List.nodup_nil, by simp [LruSeq.step], h.files⟩

theorem run_inv (zero : κ) (ops : List (Op κ)) {s : Seq κ} (h : Inv s) : Inv (LruSeq.run zero s ops).1 := by
  induction ops generalizing s with
  | nil => exact h
  | cons op ops ih => exact ih (step_inv zero op h)

/-! ### refinement to the textbook LRU -/

/-- forget the slot accounting. -/
def abs (s : Seq κ) : Store κ :=
  { cap := s.cap, order := s.order, gen := s.gen, prev := s.prev, files := s.files }

structure NoZero (zero : κ) (s : Seq κ) : Prop where
  order : zero ∉ s.order
  files : ∀ p ∈ s.files, zero ∉ p.2

theorem noZero_init (zero : κ) (cap : Nat) : NoZero zero (Seq.init cap : Seq κ) :=
  ⟨by simp [Seq.init], by simp [Seq.init]⟩

theorem filter_ne_zero {zero : κ} {l : List κ} (h : zero ∉ l) : l.filter (fun k => k ≠ zero) = l := by
  apply List.filter_eq_self.mpr
  intro a ha
  simp only [ne_eq, decide_not, Bool.not_eq_eq_eq_not, Bool.not_true, decide_eq_false_iff_not]
  intro h'; subst h'; exact h ha

theorem touch_refines {s : Seq κ} (k : κ) (h : Inv s) :
    abs (LruSeq.touch s k).1 = { abs s with order := (Spec.Lru.touch s.cap s.order k).1 } ∧
    (LruSeq.touch s k).2 = (Spec.Lru.touch s.cap s.order k).2 := by
  have hs := h.slots
  unfold LruSeq.touch Spec.Lru.touch
  by_cases hk : k ∈ s.order
  · simp [hk, abs]
  · by_cases hfree : 0 < s.free
    · have : s.order.length < s.cap := by omega
      simp [hk, hfree, this, abs]
    · have : ¬ s.order.length < s.cap := by omega
      simp only [hk, hfree, this, if_false]
      cases ho : s.order with
      | nil => simp [abs, ho]
      | cons x t => simp [abs]

theorem evictTo_refines (s : Seq κ) (target avg : Nat) :
    (LruSeq.evictTo s target avg).1.order = (Spec.Lru.evictTo target avg s.order 0).1 ∧
    (LruSeq.evictTo s target avg).2.1 = (Spec.Lru.evictTo target avg s.order 0).2.1 ∧
    (LruSeq.evictTo s target avg).2.2 = (Spec.Lru.evictTo target avg s.order 0).2.2 ∧
    (LruSeq.evictTo s target avg).1.order.Sublist s.order := by
  obtain ⟨h1, h2, h3, _, _, h6⟩ := evictToAux_spec target avg s.order s.free 0
  exact ⟨h1, h2, h3, h6⟩

theorem cycleEvict_refines (s : Seq κ) (limit avg : Nat) :
    (LruSeq.cycleEvict s limit avg).1.order = (Spec.Lru.cycleEvict limit avg s.order).1 ∧
    (LruSeq.cycleEvict s limit avg).2.1 = (Spec.Lru.cycleEvict limit avg s.order).2.1 ∧
    (LruSeq.cycleEvict s limit avg).2.2 = (Spec.Lru.cycleEvict limit avg s.order).2.2 ∧
    (LruSeq.cycleEvict s limit avg).1.order.Sublist s.order := by
  unfold LruSeq.cycleEvict Spec.Lru.cycleEvict
  split
  · split
    · exact evictTo_refines s _ avg
    · exact ⟨rfl, rfl, rfl, List.Sublist.refl _⟩
  · exact ⟨rfl, rfl, rfl, List.Sublist.refl _⟩

/-- one step of the model = one step of the textbook LRU (any key; the zero key only matters
through what is ALREADY in the table or in a checkpoint). -/
theorem step_refines (zero : κ) {s : Seq κ} (op : Op κ) (h : Inv s) (hz : NoZero zero s) :
    Spec.Lru.step (abs s) op = (abs (LruSeq.step zero s op).1, (LruSeq.step zero s op).2) := by
  cases op with
  | touch k =>
    obtain ⟨h1, h2⟩ := touch_refines k h
    simp only [Spec.Lru.step, LruSeq.step, h1, h2]
    rfl
  | remove k =>
    by_cases hk : k ∈ s.order <;>
      simp [Spec.Lru.step, LruSeq.step, Spec.Lru.remove, LruSeq.remove, abs, hk]
  | evictTail =>
    cases ho : s.order <;>
      simp [Spec.Lru.step, LruSeq.step, Spec.Lru.evictTail, LruSeq.evictTail, abs, ho]
  | evictTo t a =>
    obtain ⟨h1, h2, h3, _⟩ := evictTo_refines s t a
    have e : abs (LruSeq.evictTo s t a).1 = { abs s with order := (LruSeq.evictTo s t a).1.order } := rfl
    simp only [Spec.Lru.step, LruSeq.step, e, h1, h2, h3]
    rfl
  | bump => rfl
  | checkpoint => rfl
  | load g =>
    cases hl : Files.lookup s.files g with
    | none =>
      have : Files.lookup (abs s).files g = none := hl
      simp only [Spec.Lru.step, LruSeq.step, this, hl]
    | some snap =>
      have hzs := hz.files _ (lookup_mem hl)
      have : Files.lookup (abs s).files g = some snap := hl
      simp only [Spec.Lru.step, LruSeq.step, this, hl, loadSnap, filter_ne_zero hzs]
      rfl
  | runCycle limit avg =>
    cases hg : Files.latest s.files with
    | none =>
      have hg' : Files.latest (abs s).files = none := hg
      obtain ⟨h1, h2, h3, h4⟩ := cycleEvict_refines s limit avg
      obtain ⟨hf, hcap, hgen, hprev⟩ := cycleEvict_files s limit avg
      have hzo : zero ∉ (LruSeq.cycleEvict s limit avg).1.order := fun hm => hz.order (h4.subset hm)
      simp only [Spec.Lru.step, LruSeq.step, hg, hg', LruSeq.Seq.iter, filter_ne_zero hzo, h2, h3]
      simp only [abs, hcap, hgen, hprev, h1]
    | some g =>
      have hg' : Files.latest (abs s).files = some g := hg
      cases hl : Files.lookup s.files g with
      | none =>
        have hl' : Files.lookup (abs s).files g = none := hl
        simp only [Spec.Lru.step, LruSeq.step, hg, hg', hl, hl']
      | some snap =>
        have hl' : Files.lookup (abs s).files g = some snap := hl
        have hzs := hz.files _ (lookup_mem hl)
        have hls : (loadSnap zero s g snap).order = snap := by simp only [loadSnap, filter_ne_zero hzs]
        obtain ⟨h1, h2, h3, h4⟩ := cycleEvict_refines (loadSnap zero s g snap) limit avg
        obtain ⟨hf, hcap, hgen, hprev⟩ := cycleEvict_files (loadSnap zero s g snap) limit avg
        rw [hls] at h1 h2 h3 h4
        have hzo : zero ∉ (LruSeq.cycleEvict (loadSnap zero s g snap) limit avg).1.order :=
          fun hm => hzs (h4.subset hm)
        simp only [Spec.Lru.step, LruSeq.step, hg, hg', hl, hl', LruSeq.Seq.iter, filter_ne_zero hzo, h2, h3, hls]
        simp only [abs, hcap, hgen, hprev, h1]
        rfl
  | reset => rfl
  | reopen => rfl

theorem touch_mem {s : Seq κ} {k x : κ} (hx : x ∈ (LruSeq.touch s k).1.order) : x = k ∨ x ∈ s.order := by
  unfold LruSeq.touch at hx
  split at hx
  · simp only [List.mem_append, List.mem_singleton] at hx
    rcases hx with hx | hx
    · exact Or.inr (List.mem_of_mem_erase hx)
    · exact Or.inl hx
  · split at hx
    · simp only [List.mem_append, List.mem_singleton] at hx
      rcases hx with hx | hx
      · exact Or.inr hx
      · exact Or.inl hx
    · split at hx
      · exact Or.inr hx
      · next x' t ho =>
        simp only [List.mem_append, List.mem_singleton] at hx
        rcases hx with hx | hx
        · exact Or.inr (by rw [ho]; exact List.mem_cons_of_mem _ hx)
        · exact Or.inl hx

theorem touch_files (s : Seq κ) (k : κ) : (LruSeq.touch s k).1.files = s.files := by
  unfold LruSeq.touch
  split
  · rfl
  · split
    · rfl
    · split <;> rfl

/-- the zero key gets in only by being touched. -/
theorem step_noZero (zero : κ) {s : Seq κ} (op : Op κ) (hop : op ≠ .touch zero) (hz : NoZero zero s) :
    NoZero zero (LruSeq.step zero s op).1 := by
  obtain ⟨hzo, hzf⟩ := hz
  cases op with
  | touch k =>
    refine ⟨?_, by show ∀ p ∈ (LruSeq.touch s k).1.files, _; rw [touch_files]; exact hzf⟩
    intro hm
    rcases touch_mem hm with h | h
    · exact hop (by rw [h])
    · exact hzo h
  | remove k =>
    simp only [LruSeq.step, LruSeq.remove]
    split
    · exact ⟨fun hm => hzo (List.mem_of_mem_erase hm), hzf⟩
    · exact ⟨hzo, hzf⟩
  | evictTail =>
    simp only [LruSeq.step, LruSeq.evictTail]
    split
    · exact ⟨hzo, hzf⟩
    · next x t ho => exact ⟨fun hm => hzo (by rw [ho]; exact List.mem_cons_of_mem _ hm), hzf⟩
  | evictTo t a =>
    obtain ⟨_, _, _, h4⟩ := evictTo_refines s t a
    exact ⟨fun hm => hzo (h4.subset hm), hzf⟩
  | bump => exact ⟨hzo, hzf⟩
  | checkpoint =>
    refine ⟨hzo, ?_⟩
    intro p hp
    have hw : ∀ p ∈ Files.write s.files s.gen s.order, zero ∉ p.2 := by
      intro p hp
      rcases mem_write hp with rfl | hp
      · exact hzo
      · exact hzf p hp
    simp only [LruSeq.step] at hp
    split at hp
    · exact hw p (mem_delete hp)
    · exact hw p hp
  | load g =>
    simp only [LruSeq.step]
    split
    · exact ⟨hzo, hzf⟩
    · next snap hl =>
      refine ⟨?_, hzf⟩
      intro hm
      exact hzf _ (lookup_mem hl) (List.mem_filter.mp hm).1
  | runCycle limit avg =>
    simp only [LruSeq.step]
    split
    · obtain ⟨_, _, _, h4⟩ := cycleEvict_refines s limit avg
      exact ⟨fun hm => hzo (h4.subset hm), fun p hp => hzf p (mem_scan hp)⟩
    · next g hg =>
      split
      · exact ⟨hzo, hzf⟩
      · next snap hl =>
        obtain ⟨_, _, _, h4⟩ := cycleEvict_refines (loadSnap zero s g snap) limit avg
        refine ⟨?_, fun p hp => hzf p (mem_scan hp)⟩
        intro hm
        have := h4.subset hm
        exact hzf _ (lookup_mem hl) (List.mem_filter.mp this).1
  | reset => exact ⟨by simp [LruSeq.step], hzf⟩
  | reopen => exact ⟨by simp [LruSeq.step], hzf⟩

/-- whole histories: same results, same abstraction. -/
theorem run_refines (zero : κ) (ops : List (Op κ)) {s : Seq κ} (h : Inv s) (hz : NoZero zero s)
    (hops : Op.touch zero ∉ ops) :
    Spec.Lru.run (abs s) ops = (abs (LruSeq.run zero s ops).1, (LruSeq.run zero s ops).2) := by
  induction ops generalizing s with
  | nil => rfl
  | cons op ops ih =>
    have hop : op ≠ .touch zero := fun e => hops (by rw [e]; exact List.mem_cons_self)
    have hrest : Op.touch zero ∉ ops := fun hm => hops (List.mem_cons_of_mem _ hm)
    simp only [Spec.Lru.run, LruSeq.run, step_refines zero op h hz,
      ih (step_inv zero op h) (step_noZero zero op hop hz) hrest]

theorem run_noZero (zero : κ) (ops : List (Op κ)) {s : Seq κ} (hz : NoZero zero s)
    (hops : Op.touch zero ∉ ops) : NoZero zero (LruSeq.run zero s ops).1 := by
  induction ops generalizing s with
  | nil => exact hz
  | cons op ops ih =>
    have hop : op ≠ .touch zero := fun e => hops (by rw [e]; exact List.mem_cons_self)
    have hrest : Op.touch zero ∉ ops := fun hm => hops (List.mem_cons_of_mem _ hm)
    exact ih (step_noZero zero op hop hz) hrest

/-- operations that read a checkpoint back (or count through `for_each_entry`). -/
def isReload : Op κ → Bool
  | .load _ => true
  | .runCycle _ _ => true
  | _ => false

/-- without a reload the refinement needs nothing about the all-zero key. -/
theorem step_refines_noReload (zero : κ) {s : Seq κ} (op : Op κ) (h : Inv s) (hr : isReload op = false) :
    Spec.Lru.step (abs s) op = (abs (LruSeq.step zero s op).1, (LruSeq.step zero s op).2) := by
  cases op with
  | touch k =>
    obtain ⟨h1, h2⟩ := touch_refines k h
    simp only [Spec.Lru.step, LruSeq.step, h1, h2]
    rfl
  | remove k =>
    by_cases hk : k ∈ s.order <;>
      simp [Spec.Lru.step, LruSeq.step, Spec.Lru.remove, LruSeq.remove, abs, hk]
  | evictTail =>
    cases ho : s.order <;>
      simp [Spec.Lru.step, LruSeq.step, Spec.Lru.evictTail, LruSeq.evictTail, abs, ho]
  | evictTo t a =>
    obtain ⟨h1, h2, h3, _⟩ := evictTo_refines s t a
    have e : abs (LruSeq.evictTo s t a).1 = { abs s with order := (LruSeq.evictTo s t a).1.order } := rfl
    simp only [Spec.Lru.step, LruSeq.step, e, h1, h2, h3]
    rfl
  | bump => rfl
  | checkpoint => rfl
  | load g => simp [isReload] at hr
  | runCycle limit avg => simp [isReload] at hr
  | reset => rfl
  | reopen => rfl

theorem run_refines_noReload (zero : κ) (ops : List (Op κ)) {s : Seq κ} (h : Inv s)
    (hops : ∀ op ∈ ops, isReload op = false) :
    Spec.Lru.run (abs s) ops = (abs (LruSeq.run zero s ops).1, (LruSeq.run zero s ops).2) := by
  induction ops generalizing s with
  | nil => rfl
  | cons op ops ih =>
    simp only [Spec.Lru.run, LruSeq.run, step_refines_noReload zero op h (hops op List.mem_cons_self),
      ih (step_inv zero op h) (fun o ho => hops o (List.mem_cons_of_mem _ ho))]

/-- a touch with capacity at least one always succeeds and leaves the key most recent. -/
theorem touch_present_mru {s : Seq κ} (k : κ) (h : Inv s) (hcap : 0 < s.cap) :
    (LruSeq.touch s k).2 = true ∧ k ∈ (LruSeq.touch s k).1.order ∧
    (LruSeq.touch s k).1.order.getLast? = some k := by
  have hs := h.slots
  unfold LruSeq.touch
  split
  · simp
  · split
    · simp
    · next hfree =>
      split
      · next ho => rw [ho] at hs; simp at hs; omega
      · simp

/-- checkpoint, then reload of the same generation: the order and the slot count come back,
provided the all-zero key is not in the table. -/
theorem reload_id (zero : κ) {s : Seq κ} (h : Inv s) (hz : zero ∉ s.order) :
    let s1 := (LruSeq.step zero s .checkpoint).1
    let r := LruSeq.step zero s1 (.load s.gen)
    r.2 = .ok ∧ r.1.order = s.order ∧ r.1.free = s.free ∧ r.1.gen = s.gen := by
  have hl : Files.lookup (LruSeq.step zero s .checkpoint).1.files s.gen = some s.order := by
    simp only [LruSeq.step]
    split
    · next hp => rw [lookup_delete_ne _ _ _ hp.2]; exact lookup_write_self _ _ _
    · exact lookup_write_self _ _ _
  have hs := h.slots
  simp only [LruSeq.step] at hl ⊢
  simp only [hl, loadSnap, filter_ne_zero hz]
  refine ⟨trivial, trivial, ?_, trivial⟩
  omega

theorem touch_cap (s : Seq κ) (k : κ) : (LruSeq.touch s k).1.cap = s.cap := by
  unfold LruSeq.touch
  split
  · rfl
  · split
    · rfl
    · split <;> rfl

/-- the capacity is never changed by an operation. -/
theorem step_cap (zero : κ) (s : Seq κ) (op : Op κ) : (LruSeq.step zero s op).1.cap = s.cap := by
  cases op with
  | touch k => exact touch_cap s k
  | remove k => simp only [LruSeq.step, LruSeq.remove]; split <;> rfl
  | evictTail => simp only [LruSeq.step, LruSeq.evictTail]; split <;> rfl
  | evictTo t a => rfl
  | bump => rfl
  | checkpoint => rfl
  | load g => simp only [LruSeq.step]; split <;> rfl
  | runCycle l a =>
    simp only [LruSeq.step]
    split
    · exact (cycleEvict_files s l a).2.1
    · next g _ =>
      split
      · rfl
      · next snap _ => exact (cycleEvict_files (loadSnap zero s g snap) l a).2.1
  | reset => rfl
  | reopen => rfl

theorem run_cap (zero : κ) (ops : List (Op κ)) (s : Seq κ) : (LruSeq.run zero s ops).1.cap = s.cap := by
  induction ops generalizing s with
  | nil => rfl
  | cons op ops ih => simp only [LruSeq.run]; rw [ih, step_cap]

end Cascette.Proofs.Lru
