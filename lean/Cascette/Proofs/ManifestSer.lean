/-
Proofs/ManifestSer — serialise / parse round trips for the install and download manifest models
(NUL-terminated names, big-endian fields, 40-bit sizes, signed priorities, bit masks).
-/
import Cascette.Proofs.ManifestBits
namespace Cascette.Proofs.Manifest
open Cascette Cascette.Model.Manifest

theorem readCStr_append (s rest : Bytes) (h : (0 : Byte) ∉ s) :
    readCStr (s ++ 0 :: rest) = some (s, rest) := by
  induction s with
  | nil => simp [readCStr]
  | cons b bs ih =>
    have hb : b ≠ 0 := fun e => h (by simp [e])
    have hbs : (0 : Byte) ∉ bs := fun e => h (List.mem_cons_of_mem _ e)
    simp only [List.cons_append, readCStr, hb, if_false, ih hbs]

theorem readN_append (n : Nat) (a rest : Bytes) (h : a.length = n) :
    readN n (a ++ rest) = some (a, rest) := by
  unfold readN
  have : ¬ (a ++ rest).length < n := by simp only [List.length_append]; omega
  rw [if_neg this, ← h, List.take_left, List.drop_left]

theorem rdBe_be16 (n : Nat) (h : n < 65536) : rdBe (be16 n) = n := by
  simp only [rdBe, be16, List.foldl_cons, List.foldl_nil, BitVec.toNat_ofNat]; omega

theorem rdBe_be32 (n : Nat) (h : n < 4294967296) : rdBe (be32 n) = n := by
  simp only [rdBe, be32, List.foldl_cons, List.foldl_nil, BitVec.toNat_ofNat]; omega

/-- `FileSize40::from_bytes (to_bytes s) = s` for every `s ≤ 2^40 - 1` -/
theorem rdBe_be40 (n : Nat) (h : n ≤ max40) : rdBe (be40 n) = n := by
  unfold max40 at h
  simp only [rdBe, be40, List.foldl_cons, List.foldl_nil, BitVec.toNat_ofNat]; omega

theorem rdBe_byte (n : Nat) (h : n < 256) : rdBe [BitVec.ofNat 8 n] = n := by
  simp only [rdBe, List.foldl_cons, List.foldl_nil, BitVec.toNat_ofNat]; omega

/-- `i8` survives its byte: every priority in -128..=127 -/
theorem byteI8_i8Byte (p : Int) (h1 : -128 ≤ p) (h2 : p ≤ 127) : byteI8 (i8Byte p) = p := by
  unfold byteI8 i8Byte
  rw [BitVec.toInt_ofInt]
  unfold Int.bmod
  simp only [Nat.reducePow]
  have : ((256 : Nat) : Int) = 256 := rfl
  rw [this]
  split <;> omega

theorem validType_lt (t : Nat) (h : validType t = true) : t < 65536 := by
  unfold validType at h
  simp only [List.contains_eq_mem, List.mem_cons, List.not_mem_nil, or_false, decide_eq_true_eq] at h
  omega

/-- a well-formed tag for a manifest of `n` files -/
structure TagWf (n : Nat) (t : Tag) : Prop where
  name : (0 : Byte) ∉ t.name
  typ : validType t.typ = true
  len : t.mask.length = maskSize n

theorem parseTag_ser (n : Nat) (t : Tag) (rest : Bytes) (h : TagWf n t) :
    parseTag n (serTag t ++ rest) = some (t, rest) := by
  unfold parseTag serTag
  have e1 : t.name ++ [0] ++ be16 t.typ ++ t.mask ++ rest
      = t.name ++ 0 :: (be16 t.typ ++ (t.mask ++ rest)) := by simp
  rw [e1, readCStr_append _ _ h.name]
  simp only
  rw [readN_append 2 _ _ (by simp [be16])]
  simp only
  rw [rdBe_be16 _ (validType_lt _ h.typ), h.typ]
  simp only [if_true]
  rw [readN_append _ _ _ h.len]

theorem parseMany_ser {α : Type} (p : Bytes → Option (α × Bytes)) (ser : α → Bytes)
    (xs : List α) (rest : Bytes) (h : ∀ x ∈ xs, ∀ r, p (ser x ++ r) = some (x, r)) :
    parseMany p xs.length ((xs.map ser).flatten ++ rest) = some (xs, rest) := by
  induction xs with
  | nil => simp [parseMany]
  | cons x xs ih =>
    simp only [List.length_cons, List.map_cons, List.flatten_cons, List.append_assoc, parseMany]
    rw [h x List.mem_cons_self]
    simp only
    rw [ih (fun y hy => h y (List.mem_cons_of_mem _ hy))]

/-- a well-formed install entry for manifest version `v` -/
structure IEntryWf (v : Nat) (e : IEntry) : Prop where
  path : (0 : Byte) ∉ e.path
  key : e.key.length = 16
  size : e.size < 4294967296
  ft : if v ≥ 2 then ∃ f, e.ftype = some f ∧ f < 256 else e.ftype = none

theorem parseIEntry_ser (v : Nat) (e : IEntry) (rest : Bytes) (h : IEntryWf v e) :
    parseIEntry v (serIEntry e ++ rest) = some (e, rest) := by
  unfold parseIEntry serIEntry
  obtain ⟨path, key, size, ftype⟩ := e
  have hft := h.ft
  by_cases hv : v ≥ 2
  · rw [if_pos hv] at hft
    obtain ⟨f, hf, hf256⟩ := hft
    simp only at hf
    subst hf
    have e1 : path ++ [0] ++ key ++ be32 size ++ [BitVec.ofNat 8 f] ++ rest
        = path ++ 0 :: (key ++ (be32 size ++ ([BitVec.ofNat 8 f] ++ rest))) := by simp
    simp only
    rw [e1, readCStr_append _ _ h.path]
    simp only
    rw [readN_append 16 _ _ h.key]
    simp only
    rw [readN_append 4 _ _ (by simp [be32])]
    simp only [hv, if_true]
    rw [readN_append 1 _ _ (by simp)]
    simp only
    rw [rdBe_be32 _ h.size, rdBe_byte _ hf256]
  · rw [if_neg hv] at hft
    simp only at hft
    subst hft
    have e1 : path ++ [0] ++ key ++ be32 size ++ [] ++ rest
        = path ++ 0 :: (key ++ (be32 size ++ rest)) := by simp
    simp only
    rw [e1, readCStr_append _ _ h.path]
    simp only
    rw [readN_append 16 _ _ h.key]
    simp only
    rw [readN_append 4 _ _ (by simp [be32])]
    simp only [hv, if_false]
    rw [rdBe_be32 _ h.size]

/-- a well-formed install manifest (what `build` produces from well-formed operations) -/
structure IManifestWf (m : IManifest) : Prop where
  version : m.version = 1 ∨ m.version = 2
  v2 : if m.version = 2 then ∃ c e u, m.v2 = some (c, e, u) ∧ c < 256 ∧ e < 4294967296 ∧ u < 256
       else m.v2 = none
  tagCount : m.tags.length < 65536
  entryCount : m.entries.length < 4294967296
  tags : ∀ t ∈ m.tags, TagWf m.entries.length t
  entries : ∀ e ∈ m.entries, IEntryWf m.version e

theorem be16_eq (n : Nat) : ∃ a b : Byte, be16 n = [a, b] := ⟨_, _, rfl⟩
theorem be32_eq (n : Nat) : ∃ a b c d : Byte, be32 n = [a, b, c, d] := ⟨_, _, _, _, rfl⟩


/-- `InstallManifest::parse(build(m)) = m` for every well-formed manifest, both versions,
any number of tags and entries (trailing bytes are ignored by the parser). -/
theorem parseInstall_ser (m : IManifest) (h : IManifestWf m) (trail : Bytes) :
    parseInstall (serInstall m ++ trail) = some m := by
  obtain ⟨version, v2, tags, entries⟩ := m
  obtain ⟨a, b, hab⟩ := be16_eq tags.length
  obtain ⟨c0, c1, c2, c3, hc⟩ := be32_eq entries.length
  have hT := h.tags
  have hE := h.entries
  have hv2 := h.v2
  have htc := h.tagCount
  have hec := h.entryCount
  simp only at hT hE hv2 htc hec
  have rab : rdBe [a, b] = tags.length := by rw [← hab]; exact rdBe_be16 _ htc
  have rc : rdBe [c0, c1, c2, c3] = entries.length := by rw [← hc]; exact rdBe_be32 _ hec
  have pT : ∀ r, parseMany (parseTag entries.length) tags.length ((tags.map serTag).flatten ++ r) = some (tags, r) :=
    fun r => parseMany_ser _ _ _ _ (fun t ht r' => parseTag_ser _ _ _ (hT t ht))
  have pE : ∀ r, parseMany (parseIEntry version) entries.length ((entries.map serIEntry).flatten ++ r) = some (entries, r) :=
    fun r => parseMany_ser _ _ _ _ (fun e he r' => parseIEntry_ser _ _ _ (hE e he))
  unfold parseInstall serInstall
  simp only
  rw [hab, hc]
  rcases h.version with hv | hv <;> simp only at hv <;> subst hv
  · simp only [show ¬ (1 ≥ 2) by omega, if_false] at hv2 ⊢
    subst hv2
    have e1 : [0x49, 0x4E, BitVec.ofNat 8 1, 16] ++ [a, b] ++ [c0, c1, c2, c3] ++ [] ++
        (tags.map serTag).flatten ++ (entries.map serIEntry).flatten ++ trail
        = [0x49, 0x4E, BitVec.ofNat 8 1, 16, a, b, c0, c1, c2, c3] ++
          ((tags.map serTag).flatten ++ ((entries.map serIEntry).flatten ++ trail)) := by simp
    rw [e1, readN_append 10 _ _ rfl]
    simp only [rab, rc]
    simp only [BitVec.toNat_ofNat, show ¬ (1 % 2 ^ 8 ≥ 2) by omega, if_false,
      ne_eq, not_true_eq_false, or_self, if_false]
    rw [pT]
    simp only
    rw [show (1 % 2 ^ 8) = 1 by omega, pE]
    simp
  · simp only [if_true] at hv2
    obtain ⟨c, e, u, hv2, hc256, he32, hu256⟩ := hv2
    subst hv2
    obtain ⟨d0, d1, d2, d3, hd⟩ := be32_eq e
    have rd : rdBe [d0, d1, d2, d3] = e := by rw [← hd]; exact rdBe_be32 _ he32
    simp only [show (2 ≥ 2) by omega, if_true]
    rw [hd]
    have e1 : [0x49, 0x4E, BitVec.ofNat 8 2, 16] ++ [a, b] ++ [c0, c1, c2, c3] ++
        ([BitVec.ofNat 8 c] ++ [d0, d1, d2, d3] ++ [BitVec.ofNat 8 u]) ++
        (tags.map serTag).flatten ++ (entries.map serIEntry).flatten ++ trail
        = [0x49, 0x4E, BitVec.ofNat 8 2, 16, a, b, c0, c1, c2, c3] ++
          ([BitVec.ofNat 8 c, d0, d1, d2, d3, BitVec.ofNat 8 u] ++
          ((tags.map serTag).flatten ++ ((entries.map serIEntry).flatten ++ trail))) := by simp
    rw [e1, readN_append 10 _ _ rfl]
    simp only [rab, rc]
    simp only [BitVec.toNat_ofNat, show (2 % 2 ^ 8 ≥ 2) by omega, if_true]
    rw [readN_append 6 _ _ rfl]
    simp only [rd]
    simp only [ne_eq, not_true_eq_false, or_self, if_false]
    rw [pT]
    simp only
    rw [show (2 % 2 ^ 8) = 2 by omega, pE]
    have h1 : c % 2 ^ 8 = c := Nat.mod_eq_of_lt hc256
    have h2 : u % 2 ^ 8 = u := Nat.mod_eq_of_lt hu256
    simp [h1, h2]


theorem be40_len (n : Nat) : (be40 n).length = 5 := rfl

/-- a well-formed download entry under header settings `(hasCks, flagSize)` -/
structure DEntryWf (hasCks : Bool) (flagSize : Nat) (e : DEntry) : Prop where
  key : e.key.length = 16
  size : e.size ≤ max40
  prioLo : -128 ≤ e.prio
  prioHi : e.prio ≤ 127
  cks : if hasCks = true then ∃ c, e.cks = some c ∧ c < 4294967296 else e.cks = none
  flags : if flagSize > 0 then ∃ f, e.flags = some f ∧ f.length = flagSize else e.flags = none

theorem parseDEntry_ser (hasCks : Bool) (flagSize : Nat) (e : DEntry) (rest : Bytes)
    (h : DEntryWf hasCks flagSize e) :
    parseDEntry hasCks flagSize (serDEntry hasCks flagSize e ++ rest) = some (e, rest) := by
  obtain ⟨key, size, prio, cks, flags⟩ := e
  have hc := h.cks
  have hf := h.flags
  have hk := h.key
  have hs := h.size
  have hp := byteI8_i8Byte prio h.prioLo h.prioHi
  simp only at hc hf hk hs hp
  unfold parseDEntry serDEntry
  simp only
  cases hasCks with
  | true =>
    simp only [if_true] at hc ⊢
    obtain ⟨c, rfl, hc32⟩ := hc
    by_cases hfs : flagSize > 0
    · rw [if_pos hfs] at hf
      obtain ⟨f, rfl, hfl⟩ := hf
      simp only [hfs, if_true]
      have e1 : key ++ be40 size ++ [i8Byte prio] ++ be32 c ++ f ++ rest
          = key ++ (be40 size ++ (i8Byte prio :: (be32 c ++ (f ++ rest)))) := by simp
      rw [e1, readN_append 16 _ _ hk]
      simp only
      rw [readN_append 5 _ _ (be40_len _)]
      simp only
      rw [readN_append 4 _ _ (by simp [be32])]
      simp only
      rw [readN_append flagSize _ _ hfl]
      simp only [rdBe_be40 _ hs, rdBe_be32 _ hc32, hp]
    · rw [if_neg hfs] at hf
      subst hf
      simp only [hfs, if_false]
      have e1 : key ++ be40 size ++ [i8Byte prio] ++ be32 c ++ [] ++ rest
          = key ++ (be40 size ++ (i8Byte prio :: (be32 c ++ rest))) := by simp
      rw [e1, readN_append 16 _ _ hk]
      simp only
      rw [readN_append 5 _ _ (be40_len _)]
      simp only
      rw [readN_append 4 _ _ (by simp [be32])]
      simp only [rdBe_be40 _ hs, rdBe_be32 _ hc32, hp]
  | false =>
    simp only [Bool.false_eq_true, if_false] at hc ⊢
    subst hc
    by_cases hfs : flagSize > 0
    · rw [if_pos hfs] at hf
      obtain ⟨f, rfl, hfl⟩ := hf
      simp only [hfs, if_true]
      have e1 : key ++ be40 size ++ [i8Byte prio] ++ [] ++ f ++ rest
          = key ++ (be40 size ++ (i8Byte prio :: (f ++ rest))) := by simp
      rw [e1, readN_append 16 _ _ hk]
      simp only
      rw [readN_append 5 _ _ (be40_len _)]
      simp only
      rw [readN_append flagSize _ _ hfl]
      simp only [rdBe_be40 _ hs, hp]
    · rw [if_neg hfs] at hf
      subst hf
      simp only [hfs, if_false]
      have e1 : key ++ be40 size ++ [i8Byte prio] ++ [] ++ [] ++ rest
          = key ++ (be40 size ++ (i8Byte prio :: rest)) := by simp
      rw [e1, readN_append 16 _ _ hk]
      simp only
      rw [readN_append 5 _ _ (be40_len _)]
      simp only [rdBe_be40 _ hs, hp]

/-- a well-formed download manifest (what `DownloadManifestBuilder::build` produces) -/
structure DManifestWf (m : DManifest) : Prop where
  version : m.version = 1 ∨ m.version = 2 ∨ m.version = 3
  flagSize : m.flagSize ≤ 4
  flagsV1 : m.version = 1 → m.flagSize = 0
  baseV : m.version ≠ 3 → m.basePrio = 0
  baseLo : -128 ≤ m.basePrio
  baseHi : m.basePrio ≤ 127
  tagCount : m.tags.length < 65536
  entryCount : m.entries.length < 4294967296
  tags : ∀ t ∈ m.tags, TagWf m.entries.length t
  entries : ∀ e ∈ m.entries, DEntryWf m.hasCks m.flagSize e

/-- `DownloadManifest::parse(build(m)) = m` for every well-formed manifest of version 1, 2, 3 -/
theorem parseDownload_ser (m : DManifest) (h : DManifestWf m) (trail : Bytes) :
    parseDownload (serDownload m ++ trail) = some m := by
  obtain ⟨version, hasCks, flagSize, basePrio, entries, tags⟩ := m
  obtain ⟨a, b, hab⟩ := be16_eq tags.length
  obtain ⟨c0, c1, c2, c3, hc⟩ := be32_eq entries.length
  have hT := h.tags
  have hE := h.entries
  have htc := h.tagCount
  have hec := h.entryCount
  have hfs := h.flagSize
  have hf1 := h.flagsV1
  have hbv := h.baseV
  have hbp := byteI8_i8Byte basePrio h.baseLo h.baseHi
  simp only at hT hE htc hec hfs hf1 hbv hbp
  have rab : rdBe [a, b] = tags.length := by rw [← hab]; exact rdBe_be16 _ htc
  have rc : rdBe [c0, c1, c2, c3] = entries.length := by rw [← hc]; exact rdBe_be32 _ hec
  have pT : ∀ r, parseMany (parseTag entries.length) tags.length ((tags.map serTag).flatten ++ r) = some (tags, r) :=
    fun r => parseMany_ser _ _ _ _ (fun t ht r' => parseTag_ser _ _ _ (hT t ht))
  have pE : ∀ r, parseMany (parseDEntry hasCks flagSize) entries.length
      ((entries.map (serDEntry hasCks flagSize)).flatten ++ r) = some (entries, r) :=
    fun r => parseMany_ser _ _ _ _ (fun e he r' => parseDEntry_ser _ _ _ _ (hE e he))
  have hcb : (decide ((if hasCks = true then (1 : Byte) else 0) ≠ 0)) = hasCks := by
    cases hasCks <;> decide
  have hfm : flagSize % 2 ^ 8 = flagSize := Nat.mod_eq_of_lt (by omega)
  have hnf : ¬ flagSize > 4 := by omega
  unfold parseDownload serDownload
  simp only
  rw [hab, hc]
  rcases h.version with hv | hv | hv <;> simp only at hv <;> subst hv
  · have hf0 := hf1 rfl
    have hb0 := hbv (by omega)
    subst hf0 hb0
    have e1 : [0x44, 0x4C, BitVec.ofNat 8 1, 16, if hasCks = true then 1 else 0] ++ [c0, c1, c2, c3] ++ [a, b] ++
        (if 1 ≥ 2 then [BitVec.ofNat 8 0] else []) ++ (if 1 ≥ 3 then [i8Byte 0, 0, 0, 0] else []) ++
        (entries.map (serDEntry hasCks 0)).flatten ++ (tags.map serTag).flatten ++ trail
        = [0x44, 0x4C, BitVec.ofNat 8 1, 16, (if hasCks = true then 1 else 0), c0, c1, c2, c3, a, b] ++
          ((entries.map (serDEntry hasCks 0)).flatten ++ ((tags.map serTag).flatten ++ trail)) := by simp
    rw [e1, readN_append 11 _ _ rfl]
    simp only [rab, rc, hcb]
    simp only [BitVec.toNat_ofNat, show (1 % 2 ^ 8) = 1 by omega, if_true,
      ne_eq, not_true_eq_false, or_self, if_false, show ¬ (0 > 4) by omega]
    rw [pE]
    simp only
    rw [pT]
  · have hb0 := hbv (by omega)
    subst hb0
    have e1 : [0x44, 0x4C, BitVec.ofNat 8 2, 16, if hasCks = true then 1 else 0] ++ [c0, c1, c2, c3] ++ [a, b] ++
        (if 2 ≥ 2 then [BitVec.ofNat 8 flagSize] else []) ++ (if 2 ≥ 3 then [i8Byte 0, 0, 0, 0] else []) ++
        (entries.map (serDEntry hasCks flagSize)).flatten ++ (tags.map serTag).flatten ++ trail
        = [0x44, 0x4C, BitVec.ofNat 8 2, 16, (if hasCks = true then 1 else 0), c0, c1, c2, c3, a, b] ++
          (BitVec.ofNat 8 flagSize :: ((entries.map (serDEntry hasCks flagSize)).flatten ++ ((tags.map serTag).flatten ++ trail))) := by simp
    rw [e1, readN_append 11 _ _ rfl]
    simp only [rab, rc, hcb]
    simp only [BitVec.toNat_ofNat, show (2 % 2 ^ 8) = 2 by omega, show ¬ (2 = 1) by omega, if_true, if_false,
      ne_eq, not_true_eq_false, or_self, hfm, hnf]
    rw [pE]
    simp only
    rw [pT]
  · have e1 : [0x44, 0x4C, BitVec.ofNat 8 3, 16, if hasCks = true then 1 else 0] ++ [c0, c1, c2, c3] ++ [a, b] ++
        (if 3 ≥ 2 then [BitVec.ofNat 8 flagSize] else []) ++ (if 3 ≥ 3 then [i8Byte basePrio, 0, 0, 0] else []) ++
        (entries.map (serDEntry hasCks flagSize)).flatten ++ (tags.map serTag).flatten ++ trail
        = [0x44, 0x4C, BitVec.ofNat 8 3, 16, (if hasCks = true then 1 else 0), c0, c1, c2, c3, a, b] ++
          (BitVec.ofNat 8 flagSize :: i8Byte basePrio :: 0 :: 0 :: 0 :: ((entries.map (serDEntry hasCks flagSize)).flatten ++ ((tags.map serTag).flatten ++ trail))) := by simp
    rw [e1, readN_append 11 _ _ rfl]
    simp only [rab, rc, hcb]
    simp only [BitVec.toNat_ofNat, show (3 % 2 ^ 8) = 3 by omega, show ¬ (3 = 1) by omega, show ¬ (3 = 2) by omega, if_true, if_false,
      ne_eq, not_true_eq_false, or_self, hfm, hnf, hbp]
    rw [pE]
    simp only
    rw [pT]

end Cascette.Proofs.Manifest
