/-
Proofs/RetryTie — the hand-written retry model (Model/Retry.lean, the object of the C14 theorems)
is exactly what lib/rs2lean_retry.py reads in the CURRENT Rust source
(lean/Cascette/Generated/RetrySrc.lean, regenerated on every `./check C14`).

If someone changes, in /repo, the attempt comparison (`>=` → `>`), the order of the `match` arms,
the order of the statements of the retry arm (e.g. the backoff update before the delay is taken),
which branch of `if let Some(..) = e.retry_after_hint()` yields the hint, the order of the
`.min(..)`/`.max(..)` clamps, `saturating_add`, the jitter range, an arm of `should_retry`, the
status chain of `download_with_retry`, a default or a variable's type/unit in `from_env`, then the
generated file changes and one of these theorems stops checking.
-/
import Cascette.Generated.RetrySrc
import Cascette.Proofs.Retry
namespace Cascette.Proofs.RetryTie
open Cascette.Model.Retry Cascette.Model.RetryOps Cascette.Spec.Retry Cascette.Proofs.Retry
open Cascette.Generated

/-! ### `RetryPolicy::execute` -/

/-- the shape of `execute` as generated -/
def shape : Shape :=
  { attemptInit := RetrySrc.attempt_init, arms := RetrySrc.arms,
    stopGuard := RetrySrc.stop_guard, retryArm := RetrySrc.retry_arm }

/-- the expressions of the retry arm as generated, for an f64 arithmetic `ops`, a multiplier and a
source of jitter draws (`draw k` = the value `random_range` returns in retry k) -/
def pieces {F : Type} (ops : Ops F) (mul : F) (draw : Nat → F) (p : Policy) : Pieces :=
  { baseDelay := RetrySrc.base_delay
    jitterOn := RetrySrc.jitter_cond p.jitter
    jittered := fun k delay => RetrySrc.add_jitter delay (RetrySrc.jitter_ms ops delay (draw k))
    nextBackoff := fun b => RetrySrc.next_backoff ops b p.maxBackoff mul }

/-- the `scale` parameter of the model that the generated f64 expression denotes -/
def scaleOf {F : Type} (ops : Ops F) (mul : F) (p : Policy) : Nat → Option Nat :=
  fun b => ops.tryFromSecsF64 (RetrySrc.scaled ops b p.maxBackoff mul)

/-- the `jit` parameter of the model that the generated jitter expressions denote -/
def jitOf {F : Type} (ops : Ops F) (draw : Nat → F) : Nat → Nat → Nat :=
  fun k base => RetrySrc.jitter_ms ops base (draw k) * 1000000

/-- `backoff = …` of the source is the model's `nextBackoff` on the f64 expression of the source:
`try_from_secs_f64` failing gives `max_backoff`, otherwise the value clamped by `max_backoff`. -/
theorem next_backoff_tie {F : Type} (ops : Ops F) (mul : F) (p : Policy) (b : Nat) :
    RetrySrc.next_backoff ops b p.maxBackoff mul = nextBackoff (scaleOf ops mul p) p b := by
  unfold RetrySrc.next_backoff nextBackoff scaleOf
  cases ops.tryFromSecsF64 (RetrySrc.scaled ops b p.maxBackoff mul) <;> rfl

/-- the f64 expression of the source is `(b·m).min(max).max(0.0)`: first the upper clamp, then the
lower one. -/
theorem scaled_tie {F : Type} (ops : Ops F) (mul : F) (b mx : Nat) :
    RetrySrc.scaled ops b mx mul =
      ops.fmax (ops.fmin (ops.mul (ops.asSecsF64 b) mul) (ops.asSecsF64 mx)) (ops.lit 0 10) := rfl

/-- the first backoff of the source is the model's -/
theorem first_backoff_tie (scale : Nat → Option Nat) (p : Policy) :
    RetrySrc.first_backoff p.initialBackoff p.maxBackoff = (Arith.fixed scale).first p := rfl

/-- the stopping guard of the source is the model's -/
theorem stop_guard_tie (r : Bool) (a m : Nat) :
    RetrySrc.stop_guard r a m = (!r || decide (a ≥ m)) := rfl

/-- the delay selection of the source is the specification's `baseDelay` (hint first) -/
theorem base_delay_tie (h : Option Nat) (b : Nat) : RetrySrc.base_delay h b = baseDelay h b := by
  cases h <;> rfl

/-- the jitter addition of the source is the model's saturating addition -/
theorem add_jitter_tie (scale : Nat → Option Nat) (d ms : Nat) :
    some (RetrySrc.add_jitter d ms) = (Arith.fixed scale).addJitter d (ms * 1000000) := rfl

/-- one pass through the retry arm of the source: attempt + 1, one sleep of the (jittered) hint or
backoff — taken BEFORE the backoff is updated —, then the updated backoff -/
theorem retry_arm_tie {F : Type} (ops : Ops F) (mul : F) (draw : Nat → F) (p : Policy)
    (hint : Option Nat) (a b : Nat) :
    runArm (pieces ops mul draw p) hint RetrySrc.retry_arm ⟨a, b, 0, []⟩ =
      ⟨a + 1, nextBackoff (scaleOf ops mul p) p b,
       jittered p (jitOf ops draw) (a + 1) (baseDelay hint b),
       [jittered p (jitOf ops draw) (a + 1) (baseDelay hint b)]⟩ := by
  simp only [RetrySrc.retry_arm, runArm, runStmt, pieces, RetrySrc.jitter_cond, base_delay_tie,
    next_backoff_tie, jittered, jitOf, RetrySrc.add_jitter]
  cases p.jitter <;> simp

theorem select_ok (g : Bool) : selectArm shape.arms true g = some .ok_return := rfl
theorem select_stop : selectArm shape.arms false true = some .err_guard_return := rfl
theorem select_retry : selectArm shape.arms false false = some .err_retry := rfl

/-- **The loop of the source is the loop of the model**, for every f64 arithmetic, multiplier,
jitter source, policy, loop state and outcome script. -/
theorem gen_loop_eq_model {F : Type} (ops : Ops F) (mul : F) (draw : Nat → F) (p : Policy) :
    ∀ (outs : List Outcome) (a b : Nat),
      genLoop shape (pieces ops mul draw p) p.maxAttempts a b outs =
        loop (Arith.fixed (scaleOf ops mul p)) p (jitOf ops draw) a b outs := by
  intro outs
  induction outs with
  | nil => intro a b; simp [genLoop, loop]
  | cons o rest ih =>
    intro a b
    cases o with
    | ok v =>
      rw [genLoop, loop]
      simp only [select_ok, Outcome.toResult]
    | err e =>
      by_cases hs : e.shouldRetry = false ∨ p.maxAttempts ≤ a
      · rw [loop_stop _ p _ a b e rest hs, genLoop]
        have hg : shape.stopGuard e.shouldRetry a p.maxAttempts = true := by
          show RetrySrc.stop_guard _ _ _ = true
          rw [stop_guard_tie]; rcases hs with h | h <;> simp [h]
        simp only [hg, select_stop, Outcome.toResult]
      · have hr : e.shouldRetry = true := by
          cases h : e.shouldRetry
          · exact absurd (Or.inl h) hs
          · rfl
        have ha : a < p.maxAttempts := by omega
        rw [loop_fixed_retry _ p _ a b e rest hr ha, genLoop]
        have hg : shape.stopGuard e.shouldRetry a p.maxAttempts = false := by
          show RetrySrc.stop_guard _ _ _ = false
          rw [stop_guard_tie, hr]; simp; omega
        have harm : shape.retryArm = RetrySrc.retry_arm := rfl
        simp only [hg, select_retry, harm, retry_arm_tie, ih, List.singleton_append]

/-- `RetryPolicy::execute` as read from the source = `Model.Retry.execute`. -/
theorem gen_execute_eq_model {F : Type} (ops : Ops F) (mul : F) (draw : Nat → F) (p : Policy)
    (outs : List Outcome) :
    genLoop shape (pieces ops mul draw p) p.maxAttempts shape.attemptInit
        (RetrySrc.first_backoff p.initialBackoff p.maxBackoff) outs =
      execute (Arith.fixed (scaleOf ops mul p)) p (jitOf ops draw) outs := by
  rw [gen_loop_eq_model]; rfl

/-! ### the 30 % law of the jitter, from the range in the source -/

/-- `random_range(lo..hi)` of the source is `0.0..0.3`, upper bound excluded. -/
theorem jitter_range_tie :
    RetrySrc.jitter_lo = (0, 10) ∧ RetrySrc.jitter_hi = (3, 10) ∧ RetrySrc.jitter_hi_inclusive = false := by
  decide

/-- With exact arithmetic — the draw is a rational `n/d` inside the source's range, the product is
taken exactly and truncated like `as u64` — the jitter expression of the source adds at most
30 %: the hypothesis `hjit` of `delay_bounds` holds. (IEEE rounding of the two f64 operations is
outside this statement; the run checks the law on every observed delay.) -/
theorem jitter_law_exact (n d : Nat) (hd : 0 < d)
    (_hlo : RetrySrc.jitter_lo.1 * d ≤ n * RetrySrc.jitter_lo.2)
    (hhi : n * RetrySrc.jitter_hi.2 < RetrySrc.jitter_hi.1 * d) (delay : Nat) :
    let ops : Ops (Nat × Nat) :=
      { asSecsF64 := fun x => (x, 1000000000), ofNat := fun x => (x, 1), toU64 := fun q => q.1 / q.2,
        mul := fun a b => (a.1 * b.1, a.2 * b.2), fmin := fun a _ => a, fmax := fun a _ => a,
        lit := fun a b => (a, b), tryFromSecsF64 := fun _ => none }
    10 * (RetrySrc.jitter_ms ops delay (n, d) * 1000000) ≤ 3 * delay := by
  intro ops
  simp only [RetrySrc.jitter_hi] at hhi
  simp only [RetrySrc.jitter_ms, ops, Nat.one_mul]
  have h1 : delay / 1000000 * n / d * 10 ≤ 3 * (delay / 1000000) := by
    have : delay / 1000000 * n * 10 ≤ 3 * (delay / 1000000) * d := by
      have := Nat.mul_le_mul_left (delay / 1000000) (Nat.le_of_lt hhi)
      calc delay / 1000000 * n * 10 = delay / 1000000 * (n * 10) := by rw [Nat.mul_assoc]
        _ ≤ delay / 1000000 * (3 * d) := this
        _ = 3 * (delay / 1000000) * d := by rw [← Nat.mul_assoc, Nat.mul_comm _ 3]
    have h2 : delay / 1000000 * n / d * d ≤ delay / 1000000 * n := Nat.div_mul_le_self _ _
    have h3 : delay / 1000000 * n / d * 10 * d ≤ 3 * (delay / 1000000) * d := by
      calc delay / 1000000 * n / d * 10 * d = delay / 1000000 * n / d * d * 10 := by
            rw [Nat.mul_assoc, Nat.mul_comm 10 d, ← Nat.mul_assoc]
        _ ≤ delay / 1000000 * n * 10 := Nat.mul_le_mul_right 10 h2
        _ ≤ 3 * (delay / 1000000) * d := this
    exact Nat.le_of_mul_le_mul_right h3 hd
  have h4 : delay / 1000000 * 1000000 ≤ delay := Nat.div_mul_le_self _ _
  omega

/-! ### `ProtocolError::should_retry`, `retry_after_hint` -/

/-- the variant of the source's enum a model error stands for -/
def variantOf : Err → RetrySrc.Variant
  | .network _ => .Network
  | .http _ => .Http
  | .parse _ => .Parse
  | .cache _ => .Cache
  | .allHostsFailed => .AllHostsFailed
  | .rateLimited _ => .RateLimited
  | .serviceUnavailable => .ServiceUnavailable
  | .httpStatus _ => .HttpStatus
  | .serverError _ => .ServerError
  | .invalidKey => .InvalidKey
  | .invalidEndpoint _ => .InvalidEndpoint
  | .rangeNotSupported => .RangeNotSupported
  | .timeout => .Timeout
  | .other _ => .Other
  | .utf8 => .Utf8
  | .unsupportedOnWasm _ => .UnsupportedOnWasm

def httpAnyOf : Err → Bool
  | .http t => t
  | _ => false

def statusOf : Err → Nat
  | .httpStatus c => c
  | .serverError c => c
  | _ => 0

def hintPayloadOf : Err → Option Nat
  | .rateLimited h => h
  | _ => none

/-- The model's error type has exactly the variants of `ProtocolError`, in the same order: every
variant of the source is listed, and each is the image of a model error. -/
theorem variants_tie :
    (∀ v : RetrySrc.Variant, v ∈ RetrySrc.variants) ∧ RetrySrc.variants.length = 16 ∧
    RetrySrc.variants =
      [variantOf (.network 0), variantOf (.http false), variantOf (.parse 0), variantOf (.cache 0),
       variantOf .allHostsFailed, variantOf (.rateLimited none), variantOf .serviceUnavailable,
       variantOf (.httpStatus 0), variantOf (.serverError 0), variantOf .invalidKey,
       variantOf (.invalidEndpoint 0), variantOf .rangeNotSupported, variantOf .timeout,
       variantOf (.other 0), variantOf .utf8, variantOf (.unsupportedOnWasm 0)] := by
  refine ⟨fun v => by cases v <;> decide, by decide, by decide⟩

/-- The `should_retry` match of the source is the model's table, for every error. -/
theorem should_retry_tie (e : Err) :
    RetrySrc.should_retry (variantOf e) (httpAnyOf e) (statusOf e) = e.shouldRetry := by
  cases e <;> rfl

/-- The `Http` arm asks the five transport predicates (and nothing else); the `HttpStatus` arm
lists 429, 500, 502, 503, 504. -/
theorem should_retry_tables_tie :
    RetrySrc.http_retry_flags = ["is_timeout", "is_connect", "is_request", "is_body", "is_decode"] ∧
    RetrySrc.http_status_retry = [429, 500, 502, 503, 504] := by decide

/-- The `retry_after_hint` match of the source is the model's. -/
theorem retry_after_hint_tie (e : Err) :
    RetrySrc.retry_after_hint (variantOf e) (hintPayloadOf e) = e.retryAfterHint := by
  cases e <;> rfl

/-! ### `RetryPolicy::default`, `from_env` -/

/-- `RetryPolicy::default()` of the source is the model's `defaultPolicy` (multiplier 2.0). -/
theorem default_policy_tie :
    defaultPolicy = ⟨RetrySrc.default_max_attempts, RetrySrc.default_initial_backoff,
      RetrySrc.default_max_backoff, RetrySrc.default_jitter⟩ ∧
    RetrySrc.default_multiplier = (20, 10) := by decide

/-- `from_env` of the source: each variable parsed in the type the source infers (u32 / u64 / u64 /
bool), the source's defaults, the source's `Duration` constructors; the defaults are those of
`Default`. -/
theorem from_env_tie {μ : Type} (parseF64 : List Char → Option μ) (two : μ) (e : EnvIn) :
    (fromEnv parseF64 two e).1 =
      { maxAttempts := (e.retries.bind (parseUnsigned (2 ^ RetrySrc.env_max_attempts_bits))).getD
          RetrySrc.env_max_attempts_default
        initialBackoff := (e.backoff.bind (parseUnsigned (2 ^ RetrySrc.env_initial_backoff_bits))).getD
          RetrySrc.env_initial_backoff_default * RetrySrc.env_initial_backoff_unit_ns
        maxBackoff := (e.maxBackoff.bind (parseUnsigned (2 ^ RetrySrc.env_max_backoff_bits))).getD
          RetrySrc.env_max_backoff_default * RetrySrc.env_max_backoff_unit_ns
        jitter := (e.jitter.bind parseBool).getD RetrySrc.env_jitter_default } ∧
    RetrySrc.env_multiplier_default = RetrySrc.default_multiplier ∧
    RetrySrc.env_max_attempts_default = RetrySrc.default_max_attempts ∧
    RetrySrc.env_initial_backoff_default * RetrySrc.env_initial_backoff_unit_ns = RetrySrc.default_initial_backoff ∧
    RetrySrc.env_max_backoff_default * RetrySrc.env_max_backoff_unit_ns = RetrySrc.default_max_backoff ∧
    RetrySrc.env_jitter_default = RetrySrc.default_jitter :=
  ⟨rfl, by decide, by decide, by decide, by decide, by decide⟩

/-- the documented variable names, in field order, and the field types -/
theorem env_vars_tie :
    RetrySrc.env_vars = ["CASCETTE_MAX_RETRIES", "CASCETTE_RETRY_BACKOFF", "CASCETTE_MAX_BACKOFF",
      "CASCETTE_BACKOFF_MULTIPLIER", "CASCETTE_RETRY_JITTER"] ∧
    RetrySrc.policy_fields = [("max_attempts", "u32"), ("initial_backoff", "Duration"),
      ("max_backoff", "Duration"), ("multiplier", "f64"), ("jitter", "bool")] := by decide

/-! ### `CdnClient::download_with_retry` -/

/-- The status chain of the source is the model's `classifyStatus`; `parse_retry_after` parses a
u64 of seconds; the download runs under `RetryPolicy::default()`. -/
theorem cdn_classify_tie (status : Nat) (ra : Option (List Char)) (k : Nat) :
    classifyStatus status ra k =
      (match RetrySrc.cdn_classify status with
       | .ok_body => .ok k
       | .rate_limited_parsed_hint =>
         .err (.rateLimited ((ra.bind fun s => parseUnsigned (2 ^ RetrySrc.retry_after_bits) (trimOws s)).map
           (· * RetrySrc.retry_after_unit_ns)))
       | .rate_limited_no_hint => .err (.rateLimited none)
       | .server_error => .err (.serverError status)
       | .http_status => .err (.httpStatus status)) ∧
    RetrySrc.cdn_policy = "default" := by
  refine ⟨?_, by decide⟩
  unfold classifyStatus RetrySrc.cdn_classify
  by_cases h2 : 200 ≤ status ∧ status < 300
  · simp [h2]
  · by_cases h4 : status = 429
    · simp [h4, parseRetryAfter, RetrySrc.retry_after_bits, RetrySrc.retry_after_unit_ns]
    · by_cases h5 : 500 ≤ status ∧ status < 600
      · simp [h2, h4, h5]
      · simp [h2, h4, h5]

end Cascette.Proofs.RetryTie
