/-
Proofs/Container — `DynamicContainer` (Model/Container) refines the keyed store (Spec/Store):
one step, then histories.  The index half is C05's refinement (`Proofs.Lsm.step_mem`,
`step_extra`, `load_save`); the archive half is Proofs/Archive.
-/
import Cascette.Proofs.Archive
import Cascette.Proofs.LsmDurable
import Cascette.Model.Container
import Cascette.Spec.Store
namespace Cascette.Proofs.Container
open Cascette
open Cascette.Model.Container
open Cascette.Model
open Cascette.Spec.IndexMap (Entry)
open Cascette.Spec
open Cascette.Proofs.Archive
open Cascette.Proofs.Lsm (RelMem Good Extra WFS NoOrphan absS lookup_eq_absS step_mem step_extra
  load_save opWF notReload outOk SState sstep)

/-- abstract state: key ↦ (index entry, content). -/
abbrev Abs := Nat → Option (Entry × Bytes)

def locs (A : Abs) : Nat → Option Entry := fun k => (A k).map (·.1)
def live (A : Abs) : Store.Map := fun k => (A k).map (·.2)
def Abs.set (A : Abs) (k : Nat) (v : Option (Entry × Bytes)) : Abs := fun i => if i = k then v else A i

/-- the key under which `write d` files the content: nine bytes of `H("BLTE" 0 'N' d)`. -/
def keyOf (P : Archive.Params) (d : Bytes) : Nat := key9 (P.H (blteN d))

def absOp (P : Archive.Params) : Op → Store.Op
  | .write d => .write (keyOf P d) d
  | .read key buf => .read (key9 key) buf
  | .query key => .query (key9 key)
  | .remove key => .remove (key9 key)
  | .flush _ => .sync
  | .flushAll => .sync
  | .reopen => .sync

def conc : Store.Out → Out
  | .ok => .ok
  | .bytes b => .bytes b
  | .bool b => .bool b
  | .notFound => .notFound

/-- every loaded bucket's file is what `save_index` writes for it now. -/
def Synced (s : Lsm.State) : Prop := ∀ b, s.disk b = (s.mem b).map Lsm.saveB

theorem synced_saveAll (s : Lsm.State) (ho : NoOrphan s) : Synced (Lsm.saveAll s) := by
  intro b
  show (Lsm.saveAll s).disk b = (s.mem b).map Lsm.saveB
  unfold Lsm.saveAll
  simp only
  cases hm : s.mem b with
  | none => simp only [Option.map_none]; exact ho b hm
  | some bk => rfl

theorem synced_flushBucket (s : Lsm.State) (h : Synced s) (b : Nat) : Synced (Lsm.flushBucket s b) := by
  unfold Lsm.flushBucket
  cases hm : s.mem b with
  | none => exact h
  | some bk =>
    simp only
    split
    · exact h
    · intro b'
      simp only [Lsm.State.setDisk, Lsm.State.setMem]
      by_cases hb : b' = b
      · simp only [hb, if_true, Option.map_some]
      · simp only [hb, if_false]; exact h b'

theorem synced_foldl_flush (bs : List Nat) : ∀ s, Synced s → Synced (bs.foldl Lsm.flushBucket s) := by
  induction bs with
  | nil => intro s h; exact h
  | cons b bs ih => intro s h; exact ih _ (synced_flushBucket s h b)

/-- with every file current, a restart of the index manager changes nothing. -/
theorem reload_synced (s : Lsm.State) (hg : Good s) (hw : WFS s) (h : Synced s) : Lsm.reload s = s := by
  cases s with
  | mk mem disk =>
    unfold Lsm.reload
    simp only
    congr 1
    funext b
    have hb := h b
    simp only at hb
    rw [hb]
    cases hm : mem b with
    | none => rfl
    | some bk =>
      simp only [Option.map_some]
      rw [load_save bk (hg b bk hm).sorted (hw b bk hm)]

theorem relMem_saveAll {s : Lsm.State} {M} (h : RelMem s M) : RelMem (Lsm.saveAll s) M := h

/-- invariant tying the container to the abstract state. -/
structure Inv (P : Archive.Params) (s : State) (A : Abs) : Prop where
  rel : RelMem s.ix (locs A)
  extra : Extra s.ix
  synced : Synced s.ix
  arch : ArchOk s.ar
  ent : ∀ k e d, A k = some (e, d) → e.id = 0 ∧ Stored P.cd (fileOf s.ar) e.off e.size d
  marked : s.marked = []

theorem inv_init (P : Archive.Params) : Inv P State.init (fun _ => none) :=
  ⟨Cascette.Proofs.Lsm.relMem_init, Cascette.Proofs.Lsm.extra_init, fun _ => rfl, archOk_init,
    (by intro k e d h; cases h), rfl⟩

theorem lookup_locs {P : Archive.Params} {s : State} {A : Abs} (inv : Inv P s A) (k : Nat) :
    Lsm.lookup s.ix k = locs A k := by
  rw [lookup_eq_absS _ inv.rel.1 k, inv.rel.2 k]

/-- a stored entry of positive size forces the file to exist. -/
theorem disk_of_stored {cd} {s : Archive.State} {off size : Nat} {d : Bytes}
    (h : Stored cd (fileOf s) off size d) : ∃ f, s.disk = some f := by
  cases hd : s.disk with
  | some f => exact ⟨f, rfl⟩
  | none =>
    obtain ⟨h1, hh, b, h2, h3, _⟩ := h
    simp only [fileOf, hd, Option.getD_none, List.drop_nil, List.take_nil] at h3
    have : (hh ++ b).length = 0 := by rw [← h3]; rfl
    simp only [List.length_append, h2, Archive.headerSize] at this
    omega

/-- reading a live key returns its content. -/
theorem read_live {P : Archive.Params} {s : State} {A : Abs} (inv : Inv P s A) (k : Nat)
    (e : Entry) (d : Bytes) (h : A k = some (e, d)) :
    Archive.readContent P s.ar e.id e.off e.size = .ok d := by
  obtain ⟨hid, hst⟩ := inv.ent k e d h
  obtain ⟨f, hf⟩ := disk_of_stored hst
  have ho : s.ar.opn = some ⟨f.length, f.length⟩ := by
    have := inv.arch
    simp only [ArchOk, hf, Option.map_some] at this
    exact this
  have hfo : fileOf s.ar = f := by simp only [fileOf, hf, Option.getD_some]
  rw [hfo] at hst
  rw [hid]
  exact readContent_stored P s.ar _ f ho hf e.off e.size d hst.1 hst

/-- bytes an operation appends to the data file: 30-byte header + 9-byte BLTE frame + payload. -/
def cost : Op → Nat
  | .write d => Archive.headerSize + 9 + d.length
  | _ => 0

def writeOk (P : Archive.Params) (s : State) : Op → Prop
  | .write d => keyOf P d ≠ 0 ∧ (fileOf s.ar).length + (Archive.headerSize + 9 + d.length) < 2 ^ 30
  | _ => True

theorem sstep_add_mem (S : SState) (k id off size : Nat) :
    (sstep S [] (.add k id off size)).1.mem =
      Cascette.Spec.IndexMap.Map.set S.mem k (some ⟨k, id, off, size⟩) := rfl

/-- **one step.** Every operation keeps the invariant and answers as the store does. -/
theorem step_refines (P : Archive.Params) (cfg : Lsm.Cfg) (hcap : 1 ≤ cfg.capPages)
    (hr : RemapsOnChange P) (hh : HdrLen P) (s : State) (A : Abs) (inv : Inv P s A) (op : Op)
    (hop : writeOk P s op) :
    ∃ A', Inv P (step P cfg s op).1 A' ∧
      (step P cfg s op).2 = conc (Store.step (live A) (absOp P op)).2 ∧
      live A' = (Store.step (live A) (absOp P op)).1 ∧
      (fileOf (step P cfg s op).1.ar).length = (fileOf s.ar).length + cost op := by
  cases op with
  | write d =>
    obtain ⟨hk0, hsz⟩ := hop
    have hb := blteOf_none P.cd d
    have hlen := blteN_length d
    obtain ⟨ar', hw, hdisk, hok⟩ := write_spec P hr hh s.ar inv.arch d .none (blteN d) hb
      (by rw [hlen]; simp only [Archive.headerSize] at hsz ⊢; omega)
    -- the index step
    have hwf : opWF (Cascette.Spec.IndexMap.Op.add (keyOf P d) 0 (fileOf s.ar).length
        (Archive.headerSize + (blteN d).length)) := by
      refine ⟨hk0, by omega, ?_⟩
      simp only [Archive.headerSize] at hsz; omega
    obtain ⟨hrel, hout⟩ := step_mem cfg hcap s.ix ⟨locs A, locs A⟩ [] _ (by trivial : notReload
      (Cascette.Spec.IndexMap.Op.add (keyOf P d) 0 (fileOf s.ar).length
        (Archive.headerSize + (blteN d).length))) inv.rel
    have hx1 := step_extra cfg s.ix _ (by trivial) hwf inv.rel.1 inv.extra
    have hx2 := step_extra cfg _ .saveAll (by trivial) (by trivial) hrel.1 hx1
    cases hst : Lsm.step cfg s.ix (.add (keyOf P d) 0 (fileOf s.ar).length
        (Archive.headerSize + (blteN d).length)) with
    | mk ix' o =>
      rw [hst] at hrel hout hx1 hx2
      have ho : o = .ok := hout
      subst ho
      have hstep : step P cfg s (.write d) =
          ({ s with ar := ar', ix := Lsm.saveAll ix' }, .ok) := by
        simp only [step, hw, keyOf] at hst ⊢
        rw [hst]
      rw [hstep]
      let e : Entry := ⟨keyOf P d, 0, (fileOf s.ar).length, Archive.headerSize + (blteN d).length⟩
      have hfile : fileOf ar' = fileOf s.ar ++
          (P.hdr (P.H (blteN d)) (blteN d).length (fileOf s.ar).length ++ blteN d) := by
        simp only [fileOf, hdisk, Option.getD_some]
      refine ⟨Abs.set A (keyOf P d) (some (e, d)), ⟨?_, hx2, ?_, hok, ?_, inv.marked⟩, rfl, ?_, ?_⟩
      · -- RelMem
        have : locs (Abs.set A (keyOf P d) (some (e, d))) =
            Cascette.Spec.IndexMap.Map.set (locs A) (keyOf P d) (some e) := by
          funext k'
          simp only [locs, Abs.set, Cascette.Spec.IndexMap.Map.set]
          split <;> rfl
        rw [this]
        exact relMem_saveAll hrel
      · exact synced_saveAll ix' hx1.no
      · intro k' e' d' hA
        simp only [Abs.set] at hA
        show e'.id = 0 ∧ Stored P.cd (fileOf ar') e'.off e'.size d'
        rw [hfile]
        split at hA
        · simp only [Option.some.injEq, Prod.mk.injEq] at hA
          obtain ⟨he, hd⟩ := hA
          subst he hd
          exact ⟨rfl, stored_new _ _ _ _ (hh _ _ _) (goodBlte_blteN P.cd d)⟩
        · obtain ⟨h1, h2⟩ := inv.ent k' e' d' hA
          exact ⟨h1, stored_append _ h2⟩
      · funext k'
        simp only [live, Abs.set, absOp, Store.step, Store.Map.set]
        split <;> rfl
      · show (fileOf ar').length = _
        have hl' := hh (P.H (blteN d)) (blteN d).length (fileOf s.ar).length
        rw [hfile, List.length_append, List.length_append, hl', hlen]
        simp only [cost]
        omega
  | read key buf =>
    have hl := lookup_locs inv (key9 key)
    cases hA : A (key9 key) with
    | none =>
      have : Lsm.lookup s.ix (key9 key) = none := by rw [hl]; simp only [locs, hA, Option.map_none]
      refine ⟨A, ?_, ?_, ?_, ?_⟩
      · simp only [step, this]; exact inv
      · simp only [step, this, absOp, Store.step, live, hA, Option.map_none, conc]
      · simp only [absOp, Store.step, live, hA, Option.map_none]
      · simp only [step, this, cost, Nat.add_zero]
    | some p =>
      obtain ⟨e, d⟩ := p
      have : Lsm.lookup s.ix (key9 key) = some e := by rw [hl]; simp only [locs, hA, Option.map_some]
      have hrd := read_live inv (key9 key) e d hA
      refine ⟨A, ?_, ?_, ?_, ?_⟩
      · simp only [step, this, hrd]; exact inv
      · simp only [step, this, hrd, absOp, Store.step, live, hA, Option.map_some, conc]
      · simp only [absOp, Store.step, live, hA, Option.map_some]
      · simp only [step, this, hrd, cost, Nat.add_zero]
  | query key =>
    have hl := lookup_locs inv (key9 key)
    refine ⟨A, inv, ?_, rfl, rfl⟩
    simp only [step, hl, absOp, Store.step, conc, locs, live, Option.isSome_map]
  | remove key =>
    obtain ⟨hrel, hout⟩ := step_mem cfg hcap s.ix ⟨locs A, locs A⟩ [] (.remove (key9 key))
      (by trivial) inv.rel
    have hx1 := step_extra cfg s.ix (.remove (key9 key)) (by trivial) (by trivial) inv.rel.1 inv.extra
    have hlive : live (Abs.set A (key9 key) none) = (Store.step (live A) (absOp P (.remove key))).1 := by
      funext k'
      simp only [live, Abs.set, absOp, Store.step, Store.Map.set]
      split <;> rfl
    cases hA : A (key9 key) with
    | none =>
      -- nothing to remove: the index manager is left as it is
      have hlk : Lsm.lookup s.ix (key9 key) = none := by
        rw [lookup_locs inv]; simp only [locs, hA, Option.map_none]
      have hst : Lsm.step cfg s.ix (.remove (key9 key)) = (s.ix, .bool false) := by
        simp only [Lsm.step, hlk]
      have hstep : step P cfg s (.remove key) = ({ s with ix := s.ix }, .ok) := by
        simp only [step, hst]
      rw [hstep]
      refine ⟨Abs.set A (key9 key) none, ⟨?_, inv.extra, inv.synced, inv.arch, ?_, inv.marked⟩, rfl, hlive, rfl⟩
      · have : locs (Abs.set A (key9 key) none) = locs A := by
          funext k'
          simp only [locs, Abs.set]
          split
          · rename_i hk; rw [hk, hA]
          · rfl
        rw [this]; exact inv.rel
      · intro k' e' d' h'
        simp only [Abs.set] at h'
        split at h'
        · cases h'
        · exact inv.ent k' e' d' h'
    | some p =>
      have hspec : (sstep ⟨locs A, locs A⟩ [] (.remove (key9 key))) =
          (⟨Cascette.Spec.IndexMap.Map.set (locs A) (key9 key) none, locs A⟩, some (.bool true)) := by
        have hm : locs A (key9 key) = some p.1 := by simp only [locs, hA, Option.map_some]
        simp only [sstep, Cascette.Spec.IndexMap.step, Cascette.Spec.IndexMap.persist, hm,
          List.not_mem_nil, if_false]
      rw [hspec] at hrel hout
      cases hst : Lsm.step cfg s.ix (.remove (key9 key)) with
      | mk ix' o =>
        rw [hst] at hrel hout hx1
        have ho : o = .bool true := hout
        subst ho
        have hx2 := step_extra cfg ix' .saveAll (by trivial) (by trivial) hrel.1 hx1
        have hstep : step P cfg s (.remove key) = ({ s with ix := Lsm.saveAll ix' }, .ok) := by
          simp only [step, hst]
        rw [hstep]
        refine ⟨Abs.set A (key9 key) none, ⟨?_, hx2, synced_saveAll ix' hx1.no, inv.arch, ?_, inv.marked⟩,
          rfl, hlive, rfl⟩
        · have : locs (Abs.set A (key9 key) none) =
              Cascette.Spec.IndexMap.Map.set (locs A) (key9 key) none := by
            funext k'
            simp only [locs, Abs.set, Cascette.Spec.IndexMap.Map.set]
            split <;> rfl
          rw [this]; exact relMem_saveAll hrel
        · intro k' e' d' h'
          simp only [Abs.set] at h'
          split at h'
          · cases h'
          · exact inv.ent k' e' d' h'
  | flush b =>
    obtain ⟨hrel, _⟩ := step_mem cfg hcap s.ix ⟨locs A, locs A⟩ [] (.flush b) (by trivial) inv.rel
    have hx1 := step_extra cfg s.ix (.flush b) (by trivial) (by trivial) inv.rel.1 inv.extra
    exact ⟨A, ⟨hrel, hx1, synced_flushBucket _ inv.synced b, inv.arch, inv.ent, inv.marked⟩, rfl, rfl, rfl⟩
  | flushAll =>
    obtain ⟨hrel, _⟩ := step_mem cfg hcap s.ix ⟨locs A, locs A⟩ [] .flushAll (by trivial) inv.rel
    have hx1 := step_extra cfg s.ix .flushAll (by trivial) (by trivial) inv.rel.1 inv.extra
    exact ⟨A, ⟨hrel, hx1, synced_foldl_flush _ _ inv.synced, inv.arch, inv.ent, inv.marked⟩, rfl, rfl, rfl⟩
  | reopen =>
    have h1 := reopen_archOk s.ar inv.arch
    have h2 := reload_synced s.ix inv.rel.1 inv.extra.wf inv.synced
    have hstep : step P cfg s .reopen = (s, .ok) := by
      simp only [step, h1, h2]
    rw [hstep]
    exact ⟨A, inv, rfl, rfl, rfl⟩

/-! ### histories -/

def budget : List Op → Nat
  | [] => 0
  | op :: ops => cost op + budget ops

/-- the written content's index key is not the all-zero nine bytes (the `.idx` format's empty
slot: C05 finding `reload-loses-all-zero-key`; probability 2^-72 per object under MD5). -/
def nz (P : Archive.Params) : Op → Prop
  | .write d => keyOf P d ≠ 0
  | _ => True

theorem run_refines (P : Archive.Params) (cfg : Lsm.Cfg) (hcap : 1 ≤ cfg.capPages)
    (hr : RemapsOnChange P) (hh : HdrLen P) : ∀ (ops : List Op) (s : State) (A : Abs),
    Inv P s A → (∀ op ∈ ops, nz P op) → (fileOf s.ar).length + budget ops < 2 ^ 30 →
    ∃ A', Inv P (run P cfg s ops).1 A' ∧
      (run P cfg s ops).2 = ((Store.run (live A) (ops.map (absOp P))).2).map conc ∧
      live A' = (Store.run (live A) (ops.map (absOp P))).1 := by
  intro ops
  induction ops with
  | nil => intro s A inv _ _; exact ⟨A, inv, rfl, rfl⟩
  | cons op ops ih =>
    intro s A inv hnz hb
    simp only [budget] at hb
    have hop : writeOk P s op := by
      cases op with
      | write d => exact ⟨hnz _ List.mem_cons_self, by simp only [cost] at hb; omega⟩
      | _ => trivial
    obtain ⟨A1, inv1, ho1, hl1, hf1⟩ := step_refines P cfg hcap hr hh s A inv op hop
    obtain ⟨A2, inv2, ho2, hl2⟩ := ih (step P cfg s op).1 A1 inv1
      (fun o h => hnz o (List.mem_cons_of_mem _ h)) (by rw [hf1]; omega)
    refine ⟨A2, inv2, ?_, ?_⟩
    · simp only [run, List.map_cons, Store.run, ho1, ho2, hl1]
    · simp only [List.map_cons, Store.run, hl2, hl1]

/-! ### the store -/

theorem store_run_append (m : Store.Map) (a b : List Store.Op) :
    Store.run m (a ++ b) =
      ((Store.run (Store.run m a).1 b).1, (Store.run m a).2 ++ (Store.run (Store.run m a).1 b).2) := by
  induction a generalizing m with
  | nil => rfl
  | cons op a ih => simp only [List.cons_append, Store.run, ih, List.cons_append]

/-- an operation that leaves the binding `k ↦ d` alone: no remove of `k`, no write of other
bytes under `k`. -/
def keeps (k : Nat) (d : Bytes) : Store.Op → Prop
  | .write k' d' => k' = k → d' = d
  | .remove k' => k' ≠ k
  | _ => True

theorem store_keeps (k : Nat) (d : Bytes) : ∀ (ops : List Store.Op) (m : Store.Map), m k = some d →
    (∀ op ∈ ops, keeps k d op) → (Store.run m ops).1 k = some d := by
  intro ops
  induction ops with
  | nil => intro m h _; exact h
  | cons op ops ih =>
    intro m h hk
    simp only [Store.run]
    apply ih
    · have hop := hk op List.mem_cons_self
      cases op with
      | write k' d' =>
        simp only [Store.step, Store.Map.set]
        split
        · rename_i hkk; rw [hop hkk.symm]
        · exact h
      | read k' buf =>
        simp only [Store.step]
        split <;> exact h
      | query k' => exact h
      | remove k' =>
        simp only [Store.step, Store.Map.set]
        split
        · rename_i hkk; exact absurd hkk.symm hop
        · exact h
      | sync => exact h
    · exact fun o ho => hk o (List.mem_cons_of_mem _ ho)

/-! ### Installation (histories without reopen) -/

/-- what the property asks of an `Installation`, on the keyed map. -/
def ispec (P : Archive.Params) (m : Store.Map) : IOp → Store.Map × IOut
  | .write d _ => (Store.Map.set m (keyOf P d) (some d), .key (P.H d))
  | .read key =>
    match m (key9 key) with
    | some d => (m, .bytes d)
    | none => (m, .notFound)
  | .has key => (m, .bool (m (key9 key)).isSome)
  | .reopen => (m, .ok)
  | .openOnly => (m, .ok)
  | .init => (m, .ok)

def ispecRun (P : Archive.Params) : Store.Map → List IOp → Store.Map × List IOut
  | m, [] => (m, [])
  | m, op :: ops =>
    let r := ispec P m op
    let rest := ispecRun P r.1 ops
    (rest.1, r.2 :: rest.2)

def icost : IOp → Nat
  | .write d _ => Archive.headerSize + 9 + d.length
  | _ => 0

def ibudget : List IOp → Nat
  | [] => 0
  | op :: ops => icost op + ibudget ops

/-- the operation stays inside one session of one instance (no drop + open, no `initialize`). -/
def notReopen : IOp → Prop
  | .reopen => False
  | .openOnly => False
  | .init => False
  | _ => True

/-- the written content's index key is not the all-zero nine bytes (as `nz` for the container). -/
def inz (P : Archive.Params) : IOp → Prop
  | .write d _ => keyOf P d ≠ 0
  | _ => True

/-- not "drop + `Installation::open` WITHOUT `initialize()`". -/
def notOpenOnly : IOp → Prop
  | .openOnly => False
  | _ => True

/-- no two different contents of `S` share the nine leading bytes of their key. -/
def NoColl (P : Archive.Params) (S : Bytes → Prop) : Prop :=
  ∀ d1 d2, S d1 → S d2 → keyOf P d1 = keyOf P d2 → d1 = d2

def writesIn (S : Bytes → Prop) : IOp → Prop
  | .write d _ => S d
  | _ => True

structure IInv (P : Archive.Params) (S : Bytes → Prop) (s : IState) (A : Abs) : Prop where
  rel : RelMem s.ix (locs A)
  arch : ArchOk s.ar
  ent : ∀ k e d, A k = some (e, d) →
    e.id = 0 ∧ Stored P.cd (fileOf s.ar) e.off e.size d ∧ keyOf P d = k ∧ S d
  cache : ∀ p ∈ s.cache, ∃ e, A (key9 p.1) = some (e, p.2)

theorem iinv_init (P : Archive.Params) (S : Bytes → Prop) : IInv P S IState.init (fun _ => none) :=
  ⟨Cascette.Proofs.Lsm.relMem_init, archOk_init, (by intro k e d h; cases h), (by intro p h; cases h)⟩

theorem read_live' {P : Archive.Params} {ar : Archive.State} (harch : ArchOk ar) (e : Entry)
    (d : Bytes) (hid : e.id = 0) (hst : Stored P.cd (fileOf ar) e.off e.size d) :
    Archive.readContent P ar e.id e.off e.size = .ok d := by
  obtain ⟨f, hf⟩ := disk_of_stored hst
  have ho : ar.opn = some ⟨f.length, f.length⟩ := by
    have := harch
    simp only [ArchOk, hf, Option.map_some] at this
    exact this
  have hfo : fileOf ar = f := by simp only [fileOf, hf, Option.getD_some]
  rw [hfo] at hst
  rw [hid]
  exact readContent_stored P ar _ f ho hf e.off e.size d hst.1 hst

theorem istep_refines (P : Archive.Params) (cfg : Lsm.Cfg) (hcap : 1 ≤ cfg.capPages)
    (hr : RemapsOnChange P) (hh : HdrLen P) (S : Bytes → Prop) (hS : NoColl P S)
    (s : IState) (A : Abs) (inv : IInv P S s A) (op : IOp) (hnr : notReopen op)
    (hw : writesIn S op) (hsz : (fileOf s.ar).length + icost op < 2 ^ 30) :
    ∃ A', IInv P S (istep P cfg s op).1 A' ∧
      (istep P cfg s op).2 = (ispec P (live A) op).2 ∧
      live A' = (ispec P (live A) op).1 ∧
      (fileOf (istep P cfg s op).1.ar).length = (fileOf s.ar).length + icost op ∧
      (inz P op → Extra s.ix → Synced s.ix →
        Extra (istep P cfg s op).1.ix ∧ Synced (istep P cfg s op).1.ix) := by
  have hlk : ∀ k, Lsm.lookup s.ix k = locs A k := fun k => by
    rw [lookup_eq_absS _ inv.rel.1 k, inv.rel.2 k]
  cases op with
  | write d c =>
    have hb := blteOf_none P.cd d
    have hlen := blteN_length d
    simp only [icost] at hsz
    obtain ⟨ar', hwr, hdisk, hok⟩ := write_spec P hr hh s.ar inv.arch d .none (blteN d) hb
      (by rw [hlen]; simp only [Archive.headerSize] at hsz ⊢; omega)
    obtain ⟨hrel, hout⟩ := step_mem cfg hcap s.ix ⟨locs A, locs A⟩ [] _ (by trivial : notReload
      (Cascette.Spec.IndexMap.Op.add (keyOf P d) 0 (fileOf s.ar).length
        (Archive.headerSize + (blteN d).length))) inv.rel
    cases hst : Lsm.step cfg s.ix (.add (keyOf P d) 0 (fileOf s.ar).length
        (Archive.headerSize + (blteN d).length)) with
    | mk ix' o =>
      rw [hst] at hrel hout
      have ho : o = .ok := hout
      subst ho
      have hstep : istep P cfg s (.write d c) =
          ({ s with ar := ar', ix := Lsm.saveAll ix' }, .key (P.H d)) := by
        simp only [istep, istepWith, ite_self, hwr, keyOf, if_true] at hst ⊢
        rw [hst]
      rw [hstep]
      let e : Entry := ⟨keyOf P d, 0, (fileOf s.ar).length, Archive.headerSize + (blteN d).length⟩
      have hfile : fileOf ar' = fileOf s.ar ++
          (P.hdr (P.H (blteN d)) (blteN d).length (fileOf s.ar).length ++ blteN d) := by
        simp only [fileOf, hdisk, Option.getD_some]
      refine ⟨Abs.set A (keyOf P d) (some (e, d)), ⟨?_, hok, ?_, ?_⟩, rfl, ?_, ?_, ?_⟩
      · have : locs (Abs.set A (keyOf P d) (some (e, d))) =
            Cascette.Spec.IndexMap.Map.set (locs A) (keyOf P d) (some e) := by
          funext k'
          simp only [locs, Abs.set, Cascette.Spec.IndexMap.Map.set]
          split <;> rfl
        rw [this]
        exact relMem_saveAll hrel
      · intro k' e' d' hA
        simp only [Abs.set] at hA
        show e'.id = 0 ∧ Stored P.cd (fileOf ar') e'.off e'.size d' ∧ _
        rw [hfile]
        split at hA
        · rename_i hk
          simp only [Option.some.injEq, Prod.mk.injEq] at hA
          obtain ⟨he, hd⟩ := hA
          subst he hd
          exact ⟨rfl, stored_new _ _ _ _ (hh _ _ _) (goodBlte_blteN P.cd d), hk.symm, hw⟩
        · obtain ⟨h1, h2, h3, h4⟩ := inv.ent k' e' d' hA
          exact ⟨h1, stored_append _ h2, h3, h4⟩
      · intro p hp
        obtain ⟨e0, he0⟩ := inv.cache p hp
        simp only [Abs.set]
        split
        · rename_i hk
          obtain ⟨_, _, h3, h4⟩ := inv.ent _ e0 p.2 he0
          have : p.2 = d := hS _ _ h4 hw (by rw [h3, hk])
          exact ⟨e, by rw [this]⟩
        · exact ⟨e0, he0⟩
      · funext k'
        simp only [live, Abs.set, ispec, Store.Map.set]
        split <;> rfl
      · show (fileOf ar').length = _
        have hl' := hh (P.H (blteN d)) (blteN d).length (fileOf s.ar).length
        rw [hfile, List.length_append, List.length_append, hl', hlen]
        simp only [icost]
        omega
      · intro hk0 hx _
        have hwf : opWF (Cascette.Spec.IndexMap.Op.add (keyOf P d) 0 (fileOf s.ar).length
            (Archive.headerSize + (blteN d).length)) := by
          refine ⟨hk0, by omega, ?_⟩
          simp only [Archive.headerSize] at hsz; omega
        have hx1 := step_extra cfg s.ix _ (by trivial) hwf inv.rel.1 hx
        rw [hst] at hx1
        have hx2 := step_extra cfg ix' .saveAll (by trivial) (by trivial) hrel.1 hx1
        exact ⟨hx2, synced_saveAll ix' hx1.no⟩
  | read key =>
    cases hc : s.cache.find? (fun p => p.1 == key) with
    | some p =>
      have hp : p ∈ s.cache := List.mem_of_find?_eq_some hc
      have hk : p.1 = key := by
        have := List.find?_some hc
        simpa using this
      obtain ⟨e, he⟩ := inv.cache p hp
      rw [hk] at he
      refine ⟨A, ?_, ?_, ?_, ?_, ?_⟩
      · simp only [istep, istepWith, hc]; exact inv
      · simp only [istep, istepWith, hc, ispec, live, he, Option.map_some]
      · simp only [ispec, live, he, Option.map_some]
      · simp only [istep, istepWith, hc, icost, Nat.add_zero]
      · simp only [istep, istepWith, hc]; exact fun _ hx hsy => ⟨hx, hsy⟩
    | none =>
      have hl := hlk (key9 key)
      cases hA : A (key9 key) with
      | none =>
        have : Lsm.lookup s.ix (key9 key) = none := by rw [hl]; simp only [locs, hA, Option.map_none]
        refine ⟨A, ?_, ?_, ?_, ?_, ?_⟩
        · simp only [istep, istepWith, hc, this]; exact inv
        · simp only [istep, istepWith, hc, this, ispec, live, hA, Option.map_none]
        · simp only [ispec, live, hA, Option.map_none]
        · simp only [istep, istepWith, hc, this, icost, Nat.add_zero]
        · simp only [istep, istepWith, hc, this]; exact fun _ hx hsy => ⟨hx, hsy⟩
      | some q =>
        obtain ⟨e, d⟩ := q
        have : Lsm.lookup s.ix (key9 key) = some e := by rw [hl]; simp only [locs, hA, Option.map_some]
        obtain ⟨h1, h2, _, _⟩ := inv.ent _ e d hA
        have hrd := read_live' (P := P) inv.arch e d h1 h2
        refine ⟨A, ?_, ?_, ?_, ?_, ?_⟩
        · simp only [istep, istepWith, hc, this, hrd]
          refine ⟨inv.rel, inv.arch, inv.ent, ?_⟩
          intro p hp
          simp only [List.mem_cons] at hp
          rcases hp with rfl | hp
          · exact ⟨e, hA⟩
          · exact inv.cache p hp
        · simp only [istep, istepWith, hc, this, hrd, ispec, live, hA, Option.map_some]
        · simp only [ispec, live, hA, Option.map_some]
        · simp only [istep, istepWith, hc, this, hrd, icost, Nat.add_zero]
        · simp only [istep, istepWith, hc, this, hrd]; exact fun _ hx hsy => ⟨hx, hsy⟩
  | has key =>
    refine ⟨A, inv, ?_, rfl, rfl, fun _ hx hsy => ⟨hx, hsy⟩⟩
    simp only [istep, istepWith, hlk, ispec, locs, live, Option.isSome_map]
  | reopen => exact absurd hnr (by simp [notReopen])
  | openOnly => exact absurd hnr (by simp [notReopen])
  | init => exact absurd hnr (by simp [notReopen])

theorem irun_refines (P : Archive.Params) (cfg : Lsm.Cfg) (hcap : 1 ≤ cfg.capPages)
    (hr : RemapsOnChange P) (hh : HdrLen P) (S : Bytes → Prop) (hS : NoColl P S) :
    ∀ (ops : List IOp) (s : IState) (A : Abs), IInv P S s A →
      (∀ op ∈ ops, notReopen op ∧ writesIn S op) → (fileOf s.ar).length + ibudget ops < 2 ^ 30 →
      (irun P cfg s ops).2 = (ispecRun P (live A) ops).2 := by
  intro ops
  induction ops with
  | nil => intro s A _ _ _; rfl
  | cons op ops ih =>
    intro s A inv hops hb
    simp only [ibudget] at hb
    obtain ⟨h1, h2⟩ := hops op List.mem_cons_self
    obtain ⟨A1, inv1, ho1, hl1, hf1, _⟩ := istep_refines P cfg hcap hr hh S hS s A inv op h1 h2 (by omega)
    have := ih (istep P cfg s op).1 A1 inv1 (fun o h => hops o (List.mem_cons_of_mem _ h))
      (by rw [hf1]; omega)
    simp only [irun, ispecRun, ho1, this, hl1]

/-! ### Installation, histories WITH close + reopen (after `fix:` 947b84f) -/

/-- with every file current, `initialize()` on a live instance (`load_all` replaces every bucket
that has a file by what the file holds) changes nothing. -/
theorem loadAll_synced (s : Lsm.State) (hg : Good s) (hw : WFS s) (h : Synced s) : loadAll s = s := by
  cases s with
  | mk mem disk =>
    unfold loadAll
    simp only
    congr 1
    funext b
    have hb := h b
    simp only at hb
    rw [hb]
    cases hm : mem b with
    | none => rfl
    | some bk =>
      simp only [Option.map_some]
      rw [load_save bk (hg b bk hm).sorted (hw b bk hm)]

/-- drop + `Installation::open` + `initialize()` in two steps is the one-step `reopen`. -/
theorem open_then_initialize_eq_reopen (P : Archive.Params) (cfg : Lsm.Cfg) (s : IState) :
    (istep P cfg (istep P cfg s .openOnly).1 .init).1 = (istep P cfg s .reopen).1 := by
  simp only [istep, istepWith, Archive.reopen, Archive.dropOpen, loadAll, Lsm.reload]
  congr 2
  funext b
  cases s.ix.disk b <;> rfl

/-- the invariant of the installation whose `write_file` saves the index: the one above, and
every index file is current (`Synced`) with the C05 durability side conditions (`Extra`). -/
structure IInvD (P : Archive.Params) (S : Bytes → Prop) (s : IState) (A : Abs) : Prop where
  base : IInv P S s A
  extra : Extra s.ix
  synced : Synced s.ix

theorem iinvd_init (P : Archive.Params) (S : Bytes → Prop) : IInvD P S IState.init (fun _ => none) :=
  ⟨iinv_init P S, Cascette.Proofs.Lsm.extra_init, fun _ => rfl⟩

theorem istep_refines_d (P : Archive.Params) (cfg : Lsm.Cfg) (hcap : 1 ≤ cfg.capPages)
    (hr : RemapsOnChange P) (hh : HdrLen P) (S : Bytes → Prop) (hS : NoColl P S)
    (s : IState) (A : Abs) (inv : IInvD P S s A) (op : IOp) (hno : notOpenOnly op)
    (hnz : inz P op) (hw : writesIn S op) (hsz : (fileOf s.ar).length + icost op < 2 ^ 30) :
    ∃ A', IInvD P S (istep P cfg s op).1 A' ∧
      (istep P cfg s op).2 = (ispec P (live A) op).2 ∧
      live A' = (ispec P (live A) op).1 ∧
      (fileOf (istep P cfg s op).1.ar).length = (fileOf s.ar).length + icost op := by
  have same : ∀ op', notReopen op' → inz P op' → writesIn S op' →
      (fileOf s.ar).length + icost op' < 2 ^ 30 →
      ∃ A', IInvD P S (istep P cfg s op').1 A' ∧
        (istep P cfg s op').2 = (ispec P (live A) op').2 ∧
        live A' = (ispec P (live A) op').1 ∧
        (fileOf (istep P cfg s op').1.ar).length = (fileOf s.ar).length + icost op' := by
    intro op' h1 h2 h3 h4
    obtain ⟨A', i', o1, o2, o3, o4⟩ := istep_refines P cfg hcap hr hh S hS s A inv.base op' h1 h3 h4
    obtain ⟨hx, hsy⟩ := o4 h2 inv.extra inv.synced
    exact ⟨A', ⟨i', hx, hsy⟩, o1, o2, o3⟩
  cases op with
  | write d c => exact same _ trivial hnz hw hsz
  | read key => exact same _ trivial hnz hw hsz
  | has key => exact same _ trivial hnz hw hsz
  | reopen =>
    have h1 := reopen_archOk s.ar inv.base.arch
    have h2 := reload_synced s.ix inv.base.rel.1 inv.extra.wf inv.synced
    have hstep : istep P cfg s .reopen = (⟨s.ar, s.ix, []⟩, .ok) := by
      simp only [istep, istepWith, h1, h2]
    rw [hstep]
    exact ⟨A, ⟨⟨inv.base.rel, inv.base.arch, inv.base.ent, by intro p hp; cases hp⟩, inv.extra,
      inv.synced⟩, rfl, rfl, rfl⟩
  | openOnly => exact absurd hno (by simp [notOpenOnly])
  | init =>
    have h1 := reopen_archOk s.ar inv.base.arch
    have h2 := loadAll_synced s.ix inv.base.rel.1 inv.extra.wf inv.synced
    have hstep : istep P cfg s .init = (s, .ok) := by
      simp only [istep, istepWith, h1, h2]
    rw [hstep]
    exact ⟨A, inv, rfl, rfl, rfl⟩

theorem irun_refines_d (P : Archive.Params) (cfg : Lsm.Cfg) (hcap : 1 ≤ cfg.capPages)
    (hr : RemapsOnChange P) (hh : HdrLen P) (S : Bytes → Prop) (hS : NoColl P S) :
    ∀ (ops : List IOp) (s : IState) (A : Abs), IInvD P S s A →
      (∀ op ∈ ops, notOpenOnly op ∧ inz P op ∧ writesIn S op) →
      (fileOf s.ar).length + ibudget ops < 2 ^ 30 →
      (irun P cfg s ops).2 = (ispecRun P (live A) ops).2 := by
  intro ops
  induction ops with
  | nil => intro s A _ _ _; rfl
  | cons op ops ih =>
    intro s A inv hops hb
    simp only [ibudget] at hb
    obtain ⟨h1, h2, h3⟩ := hops op List.mem_cons_self
    obtain ⟨A1, inv1, ho1, hl1, hf1⟩ :=
      istep_refines_d P cfg hcap hr hh S hS s A inv op h1 h2 h3 (by omega)
    have := ih (istep P cfg s op).1 A1 inv1 (fun o h => hops o (List.mem_cons_of_mem _ h))
      (by rw [hf1]; omega)
    simp only [irun, ispecRun, ho1, this, hl1]

/-! ### Installation: the data file under ANY mix of sessions, initialized or not -/

theorem irun_append (P : Archive.Params) (cfg : Lsm.Cfg) (s : IState) (a b : List IOp) :
    irun P cfg s (a ++ b) =
      ((irun P cfg (irun P cfg s a).1 b).1, (irun P cfg s a).2 ++ (irun P cfg (irun P cfg s a).1 b).2) := by
  induction a generalizing s with
  | nil => rfl
  | cons op a ih => simp only [List.cons_append, irun, ih]

/-- the archive half of `write_file` does not depend on what the index does. -/
theorem istep_write_ar (P : Archive.Params) (cfg : Lsm.Cfg) (s : IState) (d : Bytes) (c : Bool) :
    (istep P cfg s (.write d c)).1.ar = (Archive.write P s.ar d .none).1 := by
  simp only [istep, istepWith, ite_self]
  split
  · rename_i h; rw [h]
  · rename_i h; rw [h]
    split <;> rfl

/-- a read never touches the archive state. -/
theorem istep_read_ar (P : Archive.Params) (cfg : Lsm.Cfg) (s : IState) (key : Bytes) :
    (istep P cfg s (.read key)).1.ar = s.ar := by
  simp only [istep, istepWith]
  split
  · rfl
  · split
    · rfl
    · split <;> rfl

/-- **one step, any operation** (also `openOnly` and a write on the un-initialized instance):
with `create_archive` as it is now, the archive is afterwards not open or open on the whole file,
every stored entry is still stored where it was, and a write stores its entry at the old end of
the file. -/
theorem istep_keeps_stored (P : Archive.Params) (cfg : Lsm.Cfg) (hk : P.keepOnCreate = true)
    (hr : RemapsOnChange P) (hh : HdrLen P) (s : IState) (ha : ArchOk' s.ar) (op : IOp)
    (hsz : (fileOf s.ar).length + icost op < 2 ^ 32) :
    ArchOk' (istep P cfg s op).1.ar ∧
      (∀ off size d, Stored P.cd (fileOf s.ar) off size d →
        Stored P.cd (fileOf (istep P cfg s op).1.ar) off size d) ∧
      (fileOf (istep P cfg s op).1.ar).length = (fileOf s.ar).length + icost op ∧
      (∀ d c, op = .write d c → Stored P.cd (fileOf (istep P cfg s op).1.ar) (fileOf s.ar).length
        (Archive.headerSize + 9 + d.length) d) := by
  cases op with
  | write d c =>
    have hb := blteOf_none P.cd d
    have hlen := blteN_length d
    simp only [icost] at hsz
    obtain ⟨ar', hw, hdisk, hok⟩ := write_append P hk hr hh s.ar ha d .none (blteN d) hb
      (by rw [hlen]; simp only [Archive.headerSize] at hsz ⊢; omega)
    have har : (istep P cfg s (.write d c)).1.ar = ar' := by rw [istep_write_ar, hw]
    have hfile : fileOf ar' = fileOf s.ar ++
        (P.hdr (P.H (blteN d)) (blteN d).length (fileOf s.ar).length ++ blteN d) := by
      simp only [fileOf, hdisk, Option.getD_some]
    rw [har]
    refine ⟨Or.inr hok, ?_, ?_, ?_⟩
    · intro off size d' h; rw [hfile]; exact stored_append _ h
    · have hl' := hh (P.H (blteN d)) (blteN d).length (fileOf s.ar).length
      rw [hfile, List.length_append, List.length_append, hl', hlen]
      simp only [icost]
      omega
    · intro d2 c2 he
      simp only [IOp.write.injEq] at he
      obtain ⟨rfl, _⟩ := he
      rw [hfile]
      have := stored_new (cd := P.cd) (fileOf s.ar) (P.hdr (P.H (blteN d)) (blteN d).length (fileOf s.ar).length)
        (blteN d) d (hh _ _ _) (goodBlte_blteN P.cd d)
      have e : Archive.headerSize + (blteN d).length = Archive.headerSize + 9 + d.length := by
        rw [hlen]; omega
      rw [e] at this
      exact this
  | read key =>
    rw [istep_read_ar]
    exact ⟨ha, fun _ _ _ h => h, rfl, by intro d c h; cases h⟩
  | has key => exact ⟨ha, fun _ _ _ h => h, rfl, by intro d c h; cases h⟩
  | reopen => exact ⟨Or.inr (reopen_ok s.ar), fun _ _ _ h => h, rfl, by intro d c h; cases h⟩
  | openOnly => exact ⟨Or.inl rfl, fun _ _ _ h => h, rfl, by intro d c h; cases h⟩
  | init => exact ⟨Or.inr (reopen_ok s.ar), fun _ _ _ h => h, rfl, by intro d c h; cases h⟩

theorem irun_keeps_stored (P : Archive.Params) (cfg : Lsm.Cfg) (hk : P.keepOnCreate = true)
    (hr : RemapsOnChange P) (hh : HdrLen P) : ∀ (ops : List IOp) (s : IState), ArchOk' s.ar →
    (fileOf s.ar).length + ibudget ops < 2 ^ 32 →
    ArchOk' (irun P cfg s ops).1.ar ∧
      (∀ off size d, Stored P.cd (fileOf s.ar) off size d →
        Stored P.cd (fileOf (irun P cfg s ops).1.ar) off size d) ∧
      (fileOf (irun P cfg s ops).1.ar).length = (fileOf s.ar).length + ibudget ops := by
  intro ops
  induction ops with
  | nil => intro s ha _; exact ⟨ha, fun _ _ _ h => h, rfl⟩
  | cons op ops ih =>
    intro s ha hb
    simp only [ibudget] at hb
    obtain ⟨h1, h2, h3, _⟩ := istep_keeps_stored P cfg hk hr hh s ha op (by omega)
    obtain ⟨g1, g2, g3⟩ := ih (istep P cfg s op).1 h1 (by rw [h3]; omega)
    refine ⟨g1, fun off size d h => g2 off size d (h2 off size d h), ?_⟩
    show (fileOf (irun P cfg (istep P cfg s op).1 ops).1.ar).length = _
    rw [g3, h3]; simp only [ibudget]; omega

theorem ibudget_append (a b : List IOp) : ibudget (a ++ b) = ibudget a + ibudget b := by
  induction a with
  | nil => simp [ibudget]
  | cons op a ih => simp only [List.cons_append, ibudget, ih]; omega

/-! ### the keyed map of the installation -/

theorem ispecRun_append (P : Archive.Params) (m : Store.Map) (a b : List IOp) :
    ispecRun P m (a ++ b) =
      ((ispecRun P (ispecRun P m a).1 b).1, (ispecRun P m a).2 ++ (ispecRun P (ispecRun P m a).1 b).2) := by
  induction a generalizing m with
  | nil => rfl
  | cons op a ih => simp only [List.cons_append, ispecRun, ih]

/-- the installation has no remove: a binding survives every history whose writes under the same
nine key bytes carry the same content. -/
theorem ispec_keeps (P : Archive.Params) (k : Nat) (d : Bytes) : ∀ (ops : List IOp) (m : Store.Map),
    m k = some d → (∀ d' c', IOp.write d' c' ∈ ops → keyOf P d' = k → d' = d) →
    (ispecRun P m ops).1 k = some d := by
  intro ops
  induction ops with
  | nil => intro m h _; exact h
  | cons op ops ih =>
    intro m h hk
    simp only [ispecRun]
    apply ih
    · cases op with
      | write d' c' =>
        simp only [ispec, Store.Map.set]
        split
        · rename_i hkk; rw [hk d' c' List.mem_cons_self hkk.symm]
        · exact h
      | read key => simp only [ispec]; split <;> exact h
      | has key => exact h
      | reopen => exact h
      | openOnly => exact h
      | init => exact h
    · exact fun d' c' hm => hk d' c' (List.mem_cons_of_mem _ hm)

/-! ### beyond 1 GiB: the offset an `.idx` record can hold -/

/-- what the 5-byte location field of an `.idx` record keeps of ANY archive id and offset: the
low 10 and the low 30 bits. -/
theorem unpack_pack_any (id off : Nat) :
    Lsm.unpackLoc (Lsm.packLoc id off) = some (id % 1024, off % 2 ^ 30) := by
  unfold Lsm.packLoc Lsm.unpackLoc
  simp only [Option.some.injEq, Prod.mk.injEq]
  constructor <;> omega

theorem fresh_add (cfg : Lsm.Cfg) (hcap : 1 ≤ cfg.capPages) (k off size : Nat) :
    Lsm.step cfg Lsm.State.init (.add k 0 off size) =
      (Lsm.State.init.setMem (IndexMap.bucketOf k) ⟨[], [[⟨k, 0, off, size, 0⟩]]⟩, .ok) := by
  simp only [Lsm.step, Lsm.ensureBucket, Lsm.State.init, Lsm.appendWithFlush, Lsm.State.setMem, if_true,
    Lsm.appendPages, Lsm.Bucket.empty, List.getLast?_nil, List.length_nil]
  rw [if_neg (by omega)]
  simp only [List.nil_append, Prod.mk.injEq, Lsm.State.mk.injEq, and_true]
  funext i
  by_cases h : i = IndexMap.bucketOf k <;> simp [h]

/-- a fresh index: add an entry with ANY offset, `save_all`, restart, look the key up — the
offset comes back reduced modulo 2^30. -/
theorem fresh_add_save_reload_lookup (cfg : Lsm.Cfg) (hcap : 1 ≤ cfg.capPages) (k off size : Nat) :
    Lsm.lookup (Lsm.reload (Lsm.saveAll (Lsm.step cfg Lsm.State.init (.add k 0 off size)).1)) k =
      some ⟨k, 0, off % 2 ^ 30, size⟩ := by
  rw [fresh_add cfg hcap]
  simp only [Lsm.lookup, Lsm.reload, Lsm.saveAll, Lsm.State.setMem, Lsm.State.init, if_true, Option.map_some,
    Lsm.loadB, Lsm.saveB, List.filterMap_nil, List.map_cons, List.map_nil, Lsm.sortByKey, Lsm.searchBoth,
    Lsm.searchLog, List.reverse_cons, List.reverse_nil, List.nil_append, Lsm.searchPages, Lsm.searchPage,
    Lsm.packUpd, unpack_pack_any]
  simp [Lsm.Upd.toEntry, IndexMap.stDelete]

/-- a container opened on a directory that holds `data.000 = file` and no index file. -/
def onFile (file : Bytes) : State := ⟨⟨some file, some ⟨file.length, file.length⟩⟩, Lsm.State.init, []⟩

theorem dyn_write_reopen_lookup (P : Archive.Params) (cfg : Lsm.Cfg) (hcap : 1 ≤ cfg.capPages)
    (hr : RemapsOnChange P) (hh : HdrLen P) (file d : Bytes)
    (hsz : file.length + (Archive.headerSize + 9 + d.length) < 2 ^ 32) :
    (run P cfg (onFile file) [.write d, .reopen]).2 = [.ok, .ok] ∧
      Lsm.lookup (run P cfg (onFile file) [.write d, .reopen]).1.ix (keyOf P d) =
        some ⟨keyOf P d, 0, file.length % 2 ^ 30, Archive.headerSize + 9 + d.length⟩ ∧
      (fileOf (run P cfg (onFile file) [.write d, .reopen]).1.ar) =
        file ++ (P.hdr (P.H (blteN d)) (blteN d).length file.length ++ blteN d) := by
  have hb := blteOf_none P.cd d
  have hlen := blteN_length d
  have hok0 : ArchOk (onFile file).ar := rfl
  obtain ⟨ar', hw, hdisk, hok⟩ := write_spec32 P hr hh (onFile file).ar hok0 d .none (blteN d) hb
    (by rw [hlen]; simp only [Archive.headerSize, onFile, fileOf, Option.getD_some] at hsz ⊢; omega)
  have hf : fileOf (onFile file).ar = file := rfl
  rw [hf] at hw hdisk
  have hst := fresh_add cfg hcap (keyOf P d) file.length (Archive.headerSize + (blteN d).length)
  have hstep : step P cfg (onFile file) (.write d) =
      ({ (onFile file) with ar := ar', ix := Lsm.saveAll (Lsm.State.init.setMem (IndexMap.bucketOf (keyOf P d))
        ⟨[], [[⟨keyOf P d, 0, file.length, Archive.headerSize + (blteN d).length, 0⟩]]⟩) }, .ok) := by
    have hw' : Archive.write P ⟨some file, some ⟨file.length, file.length⟩⟩ d .none = _ := hw
    simp only [step, onFile, hw']
    simp only [keyOf] at hst
    rw [hst]
    rfl
  have hfresh := fresh_add_save_reload_lookup cfg hcap (keyOf P d) file.length
    (Archive.headerSize + (blteN d).length)
  rw [hst] at hfresh
  have e : Archive.headerSize + (blteN d).length = Archive.headerSize + 9 + d.length := by rw [hlen]; omega
  simp only [run]
  rw [hstep]
  simp only [step]
  refine ⟨trivial, ?_, ?_⟩
  · rw [← e]; exact hfresh
  · simp only [Archive.reopen, fileOf, hdisk, Option.getD_some]

end Cascette.Proofs.Container
