/-
Proofs/IntegrityExt — extension lemmas for property C07 (Model/Integrity):
  * Enc: exact success condition of the page loop and of `EncodingFile::parse` with the entry parsers
    as parameters (`parsePages_ok_iff`, `parseWith_ok_iff`);
  * Upd: the model's `% 2^31 + 2^31` is the Rust `| 0x8000_0000` on a `u32` (`guardOf_eq_or`);
  * V1: facts about `format!("{:x}")` rendering (length, digits, lower case), completeness of the
    sealing line for a 32-byte hash, digits outside `0-9a-f` never match;
  * Lru: what `lru_file::serialize` writes is accepted (`rehash_accepted`).
Core Lean only. Every lemma is for an arbitrary hash function; Props/C07 instantiates them with
Spec.Md5.md5 / Spec.Sha256.sha256 / Model.Jenkins.hashlittle.
-/
import Cascette.Proofs.Integrity
namespace Cascette.Proofs.IntegrityExt
open Cascette Cascette.Model.Integrity
open Cascette.Proofs.Integrity

namespace Enc
open Model.Integrity.Enc
open Proofs.Integrity.Enc

/-- exact success condition of the page loop: enough bytes, EVERY page hashes to its index
checksum, and the entry parser succeeds on every page (in this order of evaluation the first
failing page decides the error, see `parsePages_first_bad`). -/
theorem parsePages_ok_iff (H : Hash) (pe : Bytes → Except Err Nat) (ps : Nat) :
    ∀ (idx : List (Bytes × Bytes)) (rest : Bytes) (n : Nat) (r : Bytes),
      parsePages H pe ps idx rest = .ok (n, r) ↔
        (idx.length * ps ≤ rest.length ∧ r = rest.drop (idx.length * ps) ∧
         (∀ i (hi : i < idx.length), H (slice rest (i * ps) ps) = (idx[i]).2) ∧
         entriesOf pe ps idx.length rest = .ok n) := by
  intro idx
  induction idx with
  | nil =>
    intro rest n r
    simp only [parsePages, entriesOf, List.length_nil, Nat.zero_mul, List.drop_zero, Except.ok.injEq, Prod.mk.injEq]
    constructor
    · rintro ⟨rfl, rfl⟩; exact ⟨by omega, rfl, fun i hi => by omega, rfl⟩
    · rintro ⟨_, rfl, _, h⟩; exact ⟨h, rfl⟩
  | cons e more ih =>
    intro rest n r
    obtain ⟨fk, ck⟩ := e
    have hlen : (((fk, ck) :: more).length) * ps = ps + more.length * ps := by
      simp only [List.length_cons, Nat.succ_mul]; omega
    rw [hlen]
    by_cases h1 : rest.length < ps
    · have : parsePages H pe ps ((fk, ck) :: more) rest = .error .io := by
        unfold parsePages; rw [if_pos h1]
      rw [this]
      constructor
      · intro h; cases h
      · rintro ⟨h, _⟩; omega
    by_cases h2 : H (rest.take ps) ≠ ck
    · have : parsePages H pe ps ((fk, ck) :: more) rest = .error .checksum := by
        unfold parsePages; rw [if_neg h1, if_pos h2]
      rw [this]
      constructor
      · intro h; cases h
      · rintro ⟨_, _, h, _⟩
        have := h 0 (by simp)
        simp [slice] at this
        exact absurd this h2
    have h2' : H (rest.take ps) = ck := Decidable.not_not.mp h2
    cases hpe : pe (rest.take ps) with
    | error e =>
      have : parsePages H pe ps ((fk, ck) :: more) rest = .error e := by
        unfold parsePages; rw [if_neg h1, if_neg h2]; simp only [hpe]
      rw [this]
      constructor
      · intro h; cases h
      · rintro ⟨_, _, _, h⟩
        simp only [List.length_cons, entriesOf, hpe] at h
        cases h
    | ok n0 =>
      cases hrec : parsePages H pe ps more (rest.drop ps) with
      | error e =>
        have : parsePages H pe ps ((fk, ck) :: more) rest = .error e := by
          unfold parsePages; rw [if_neg h1, if_neg h2]; simp only [hpe, hrec]
        rw [this]
        constructor
        · intro h; cases h
        · rintro ⟨a1, a2, a3, a4⟩
          simp only [List.length_cons, entriesOf, hpe] at a4
          cases hen : entriesOf pe ps more.length (rest.drop ps) with
          | error e' => simp only [hen] at a4; cases a4
          | ok m =>
            have := (ih (rest.drop ps) m (rest.drop (ps + more.length * ps))).mpr
              ⟨by simp only [List.length_drop]; omega, by rw [List.drop_drop], ?_, hen⟩
            · rw [hrec] at this; cases this
            · intro i hi
              have := a3 (i + 1) (by simp; omega)
              simp only [List.getElem_cons_succ] at this
              rw [slice_drop]
              have e : (i + 1) * ps = ps + i * ps := by rw [Nat.succ_mul]; omega
              rw [← e]; exact this
      | ok mr =>
        obtain ⟨m, r'⟩ := mr
        have : parsePages H pe ps ((fk, ck) :: more) rest = .ok (n0 + m, r') := by
          unfold parsePages; rw [if_neg h1, if_neg h2]; simp only [hpe, hrec]
        rw [this]
        obtain ⟨b1, b2, b3, b4⟩ := (ih _ _ _).mp hrec
        simp only [List.length_drop] at b1
        constructor
        · intro h
          simp only [Except.ok.injEq, Prod.mk.injEq] at h
          obtain ⟨rfl, rfl⟩ := h
          refine ⟨by omega, by rw [b2, List.drop_drop], ?_, ?_⟩
          · intro i hi
            cases i with
            | zero => simpa [slice] using h2'
            | succ j =>
              have := b3 j (by simpa using hi)
              rw [slice_drop] at this
              simp only [List.getElem_cons_succ]
              have e : (j + 1) * ps = ps + j * ps := by rw [Nat.succ_mul]; omega
              rw [e]; exact this
          · simp only [List.length_cons, entriesOf, hpe, b4]
        · rintro ⟨a1, a2, a3, a4⟩
          simp only [List.length_cons, entriesOf, hpe, b4, Except.ok.injEq] at a4
          rw [a2, b2, List.drop_drop, ← a4]

theorem index_cond_iff (H : Hash) (n : Nat) (b rest : Bytes) (ps : Nat) :
    (∀ i (hi : i < (readIndex n b).length), H (slice rest (i * ps) ps) = ((readIndex n b)[i]).2) ↔
      ∀ i, i < n → H (slice rest (i * ps) ps) = slice b (32 * i + 16) 16 := by
  constructor
  · intro h i hi
    have := h i (by rw [readIndex_length]; exact hi)
    rw [readIndex_get] at this; exact this
  · intro h i hi
    rw [readIndex_get]; exact h i (by rw [readIndex_length] at hi; exact hi)

/-- one table (index of `n` entries at `off`, then `n` pages of `ps` bytes) succeeds iff the bytes
are there, every page hashes to its index checksum and the entry parser accepts every page. -/
theorem table_ok_iff (H : Hash) (pe : Bytes → Except Err Nat) (ps n : Nat) (d : Bytes) (off m : Nat) (r : Bytes) :
    parsePages H pe ps (readIndex n (d.drop off)) ((d.drop off).drop (32 * n)) = .ok (m, r) ↔
      (n * ps ≤ d.length - (off + 32 * n) ∧ r = d.drop (off + 32 * n + n * ps) ∧
       (∀ i, i < n → H (slice d (off + 32 * n + i * ps) ps) = slice d (off + (32 * i + 16)) 16) ∧
       entriesOf pe ps n (d.drop (off + 32 * n)) = .ok m) := by
  rw [parsePages_ok_iff, index_cond_iff, readIndex_length]
  simp only [List.drop_drop, List.length_drop, slice_drop]

theorem dataSize_eq (h : Header) :
    dataSize h = 22 + h.especSize + 32 * h.ckCount + h.ckCount * (h.ckKb * 1024) + 32 * h.ekCount +
      h.ekCount * (h.ekKb * 1024) := by
  unfold dataSize; rw [Nat.mul_add, Nat.mul_add]; omega

/-- `enc_accepts_iff`: exact acceptance condition of `EncodingFile::parse` with the entry parsers as
parameters. -/
theorem parseWith_ok_iff (H : Hash) (peC peE : Header → Bytes → Except Err Nat) (d : Bytes) (nc ne : Nat) :
    parseWith H peC peE d = .ok (nc, ne) ↔
      ∃ h, readHeader d = .ok h ∧ headerOk h = true ∧ dataSize h ≤ d.length ∧
        especOk (slice d 22 h.especSize) true = true ∧
        (∀ i, i < h.ckCount → H (ckPage h d i) = ckSum h d i) ∧
        (∀ i, i < h.ekCount → H (ekPage h d i) = ekSum h d i) ∧
        entriesOf (peC h) (h.ckKb * 1024) h.ckCount (d.drop (ckPagesOff h)) = .ok nc ∧
        entriesOf (peE h) (h.ekKb * 1024) h.ekCount (d.drop (ekPagesOff h)) = .ok ne := by
  unfold parseWith
  cases hh : readHeader d with
  | error e => simp
  | ok h =>
    simp only [Except.ok.injEq, exists_eq_left']
    by_cases h1 : ¬ headerOk h = true
    · simp [h1]
    have h1 : headerOk h = true := Decidable.not_not.mp h1
    by_cases h2 : d.length < dataSize h
    · simp [h1, h2]; intro h'; omega
    have hds := dataSize_eq h
    by_cases h3 : ¬ especOk (slice d 22 h.especSize) true = true
    · have : ¬ d.length < 22 + h.especSize := by omega
      simp [h1, h2, h3, this]
    have h3 : especOk (slice d 22 h.especSize) true = true := Decidable.not_not.mp h3
    have g1 : ¬ d.length < 22 + h.especSize := by omega
    have g2 : ¬ (d.drop (22 + h.especSize)).length < 32 * h.ckCount := by simp only [List.length_drop]; omega
    simp only [h1, h2, h3, g1, g2, Bool.not_true, Bool.false_eq_true, if_false, true_and]
    have e1 : ckPagesOff h = 22 + h.especSize + 32 * h.ckCount := rfl
    have e2 : ekIndexOff h = 22 + h.especSize + 32 * h.ckCount + h.ckCount * (h.ckKb * 1024) := rfl
    have e3 : ekPagesOff h = ekIndexOff h + 32 * h.ekCount := rfl
    have hck : (∀ i, i < h.ckCount → H (ckPage h d i) = ckSum h d i) ↔
        (∀ i, i < h.ckCount → H (slice d (22 + h.especSize + 32 * h.ckCount + i * (h.ckKb * 1024)) (h.ckKb * 1024)) =
          slice d (22 + h.especSize + (32 * i + 16)) 16) := Iff.rfl
    have hek : (∀ i, i < h.ekCount → H (ekPage h d i) = ekSum h d i) ↔
        (∀ i, i < h.ekCount → H (slice d (ekIndexOff h + 32 * h.ekCount + i * (h.ekKb * 1024)) (h.ekKb * 1024)) =
          slice d (ekIndexOff h + (32 * i + 16)) 16) := Iff.rfl
    rw [hck, hek, e1, e3]
    have t1 := table_ok_iff H (peC h) (h.ckKb * 1024) h.ckCount d (22 + h.especSize)
    cases hc : parsePages H (peC h) (h.ckKb * 1024) (readIndex h.ckCount (d.drop (22 + h.especSize)))
        ((d.drop (22 + h.especSize)).drop (32 * h.ckCount)) with
    | error e =>
      simp only []
      constructor
      · intro x; cases x
      · rintro ⟨_, a, _, b, _⟩
        have := (t1 nc _).mpr ⟨by omega, rfl, a, b⟩
        rw [hc] at this; cases this
    | ok p =>
      obtain ⟨nc', r2⟩ := p
      obtain ⟨_, hr2, c3, c4⟩ := (t1 nc' r2).mp hc
      rw [← e2] at hr2
      subst hr2
      have g3 : ¬ (d.drop (ekIndexOff h)).length < 32 * h.ekCount := by simp only [List.length_drop]; omega
      simp only [g3, if_false]
      have t2 := table_ok_iff H (peE h) (h.ekKb * 1024) h.ekCount d (ekIndexOff h)
      cases he : parsePages H (peE h) (h.ekKb * 1024) (readIndex h.ekCount (d.drop (ekIndexOff h)))
          ((d.drop (ekIndexOff h)).drop (32 * h.ekCount)) with
      | error e =>
        simp only []
        constructor
        · intro x; cases x
        · rintro ⟨_, _, a, _, b⟩
          have := (t2 ne _).mpr ⟨by omega, rfl, a, b⟩
          rw [he] at this; cases this
      | ok q =>
        obtain ⟨ne', r3⟩ := q
        obtain ⟨_, _, k3, k4⟩ := (t2 ne' r3).mp he
        simp only [Except.ok.injEq, Prod.mk.injEq]
        constructor
        · rintro ⟨rfl, rfl⟩; exact ⟨by omega, c3, k3, c4, k4⟩
        · rintro ⟨_, _, _, a, b⟩
          rw [c4] at a; rw [k4] at b
          simp only [Except.ok.injEq] at a b
          exact ⟨a, b⟩
end Enc

namespace Upd
open Model.Integrity.Upd

theorem or_top_bit (x : Nat) (hx : x < 2 ^ 32) : x ||| 2 ^ 31 = x % 2 ^ 31 + 2 ^ 31 := by
  apply Nat.eq_of_testBit_eq
  intro i
  rw [Nat.testBit_or, Nat.testBit_two_pow]
  have hadd : x % 2 ^ 31 + 2 ^ 31 = 2 ^ 31 * 1 + x % 2 ^ 31 := by omega
  rw [hadd, Nat.testBit_two_pow_mul_add _ (Nat.mod_lt _ (by decide))]
  by_cases hi : i < 31
  · have : ¬ 31 = i := by omega
    have hm : (x % 2 ^ 31).testBit i = x.testBit i := by rw [Nat.testBit_mod_two_pow]; simp [hi]
    simp [hi, this, ← hm]
  · by_cases h31 : i = 31
    · subst h31; simp
    · have h1 : ¬ 31 = i := by omega
      have h2 : x.testBit i = false := Nat.testBit_lt_two_pow (Nat.lt_of_lt_of_le hx (Nat.pow_le_pow_right (by decide) (by omega)))
      simp [hi, h1, h2]
      exact Nat.testBit_lt_two_pow (Nat.lt_of_lt_of_le (by decide : 1 < 2 ^ 1) (Nat.pow_le_pow_right (by decide) (by omega)))

/-- the model's `HL r % 2^31 + 2^31` IS the Rust `hashlittle(…) | 0x8000_0000` on a `u32`. -/
theorem guardOf_eq_or (hl : Bytes → BitVec 32) (r : Bytes) :
    guardOf (fun b => (hl b).toNat) r = guardOr (hl r) := by
  unfold guardOf guardOr
  rw [BitVec.toNat_or]
  have : (0x80000000#32).toNat = 2 ^ 31 := by decide
  rw [this, or_top_bit _ (hl r).isLt]
end Upd

namespace V1
open Model.Integrity.V1
open Proofs.Integrity.V1

/-- `'0'..'9'` or `'a'..'f'`: what `format!("{:x}")` emits. -/
def isLowerHex (b : Byte) : Bool :=
  (0x30 ≤ b.toNat && b.toNat ≤ 0x39) || (0x61 ≤ b.toNat && b.toNat ≤ 0x66)

theorem hexc_lower : ∀ n : Fin 16, isLowerHex (hexc n.val) = true := by decide

theorem lower_isHex (b : Byte) (h : isLowerHex b = true) : isHexDigit b = true := by
  unfold isLowerHex at h; unfold isHexDigit
  simp only [Bool.or_eq_true, Bool.and_eq_true, decide_eq_true_eq] at h ⊢
  rcases h with h | h
  · exact Or.inl (Or.inl h)
  · exact Or.inl (Or.inr h)

theorem hexLower_length : ∀ b : Bytes, (hexLower b).length = 2 * b.length := by
  intro b
  induction b with
  | nil => rfl
  | cons x xs ih => simp only [hexLower, List.length_cons, ih]; omega

theorem hexLower_lower : ∀ b : Bytes, ∀ x ∈ hexLower b, isLowerHex x = true := by
  intro b
  induction b with
  | nil => intro x h; simp [hexLower] at h
  | cons y ys ih =>
    intro x h
    simp only [hexLower, List.mem_cons] at h
    rcases h with h | h | h
    · rw [h]; exact hexc_lower ⟨y.toNat / 16, by omega⟩
    · rw [h]; exact hexc_lower ⟨y.toNat % 16, by omega⟩
    · exact ih x h

theorem hexLower_all_hex (b : Bytes) : (hexLower b).all isHexDigit = true := by
  rw [List.all_eq_true]
  intro x hx
  exact lower_isHex x (hexLower_lower b x hx)

/-- completeness: for a 32-byte hash, the line `Checksum: <hex of H a>` seals ANY bytes `a`. -/
theorem seal_passes (H : Hash) (hlen : ∀ x, (H x).length = 32) (a eol : Bytes)
    (heol : eol = [] ∨ eol = [0x0a] ∨ eol = [0x0d, 0x0a]) :
    check H (a ++ pfx ++ hexLower (H a) ++ eol) = .pass a (some (hexLower (H a))) := by
  have hl : (hexLower (H a)).length = 64 := by rw [hexLower_length, hlen]
  unfold check
  rw [extract_wellformed_last a _ eol hl (hexLower_all_hex _) heol]
  simp

/-- a checksum text with a digit outside `0-9a-f` (e.g. upper case) is never equal to a rendered
digest: such a line — although `is_ascii_hexdigit` lets it through `extract_checksum` — is always
a checksum error, never "unchecked". -/
theorem nonlower_never_matches (c x : Bytes) (b : Byte) (hb : b ∈ c) (hnl : isLowerHex b = false) :
    hexLower x ≠ c := by
  intro h
  have := hexLower_lower x b (by rw [h]; exact hb)
  rw [hnl] at this; cases this
end V1

namespace Lru
open Model.Integrity.Lru
open Proofs.Integrity.Lru

/-- what `lru_file::serialize` does with the hash field: bytes `[4,20)` := `H` of the file with them zeroed. -/
def rehash (H : Hash) (d : Bytes) : Bytes := d.take 4 ++ H (region d) ++ d.drop 20

theorem rehash_accepted (H : Hash) (hlen : ∀ x, (H x).length = 16) (d : Bytes)
    (hs : validSize d.length = true) (hv : version d ≤ maxVersion) : accept H (rehash H d) = true := by
  have h28 := validSize_ge _ hs
  have ht : (d.take 4).length = 4 := by simp [List.length_take]; omega
  have hreg : region (rehash H d) = region d := by
    have key : ∀ x : Bytes, x.length = 16 → region (d.take 4 ++ x ++ d.drop 20) = region d := by
      intro x hx
      unfold region
      have a1 : (d.take 4 ++ x ++ d.drop 20).take 4 = d.take 4 := by
        rw [List.append_assoc, List.take_append_of_le_length (by omega), List.take_of_length_le (by omega)]
      have a2 : (d.take 4 ++ x ++ d.drop 20).drop 20 = d.drop 20 := by
        have : (d.take 4 ++ x).length = 20 := by rw [List.length_append, ht, hx]
        rw [List.drop_append_of_le_length (by omega), List.drop_of_length_le (by omega)]; simp
      rw [a1, a2]
    exact key _ (hlen _)
  have hst : stored (rehash H d) = H (region d) := by
    unfold stored slice rehash
    rw [List.append_assoc, List.drop_append_of_le_length (by omega), List.drop_of_length_le (by omega)]
    simp only [List.nil_append]
    rw [List.take_append_of_le_length (by rw [hlen]; omega), List.take_of_length_le (by rw [hlen]; omega)]
  have hlen' : (rehash H d).length = d.length := by
    unfold rehash; simp only [List.length_append, ht, hlen, List.length_drop]; omega
  have hver : version (rehash H d) = version d := by
    unfold version rehash
    rw [List.append_assoc, List.take_append_of_le_length (by omega), List.take_take]
    simp
  unfold accept
  rw [deserialize_isSome_iff, hlen', hver, hreg, hst]
  exact ⟨hs, hv, rfl⟩
end Lru

end Cascette.Proofs.IntegrityExt
