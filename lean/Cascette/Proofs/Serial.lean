/-
Proofs/Serial — lemmas for property C08 (parse → build → parse → build reaches a fixed point).

* inversion lemmas: what an ACCEPTING read says about its input (`readN_inv`, `readCStr_inv`,
  `parseMany_inv`, `parseTag_inv`, `parseIEntry_inv`, …): the input is the serialisation of the
  value read followed by the unread rest, and the value is well formed;
* `parseInstall_inv`: every input the install parser accepts is `serInstall m ++ trailing` with
  `m` well formed; `parseZFile_ser` / `parseZFile_inv` for the ZBSDIFF container;
  `parseSFile_ser` / `parseSFile_inv` / `sfileValid_of_wf` for the size manifest (V1, V2).
-/
import Cascette.Model.Serial
import Cascette.Proofs.ManifestSer
namespace Cascette.Proofs.Serial
open Cascette Cascette.Model.Manifest Cascette.Model.Serial Cascette.Proofs.Manifest

open Cascette Cascette.Model.Manifest Cascette.Model.Serial Cascette.Proofs.Manifest

/-! ### inversion lemmas: what an accepting read says about its input -/

theorem readN_inv {n : Nat} {bs a r : Bytes} (h : readN n bs = some (a, r)) :
    bs = a ++ r ∧ a.length = n := by
  unfold readN at h
  split at h
  · cases h
  · simp only [Option.some.injEq, Prod.mk.injEq] at h
    obtain ⟨rfl, rfl⟩ := h
    refine ⟨(List.take_append_drop n bs).symm, ?_⟩
    rw [List.length_take]; omega

theorem readCStr_inv {bs s r : Bytes} (h : readCStr bs = some (s, r)) :
    bs = s ++ 0 :: r ∧ (0 : Byte) ∉ s := by
  induction bs generalizing s with
  | nil => simp [readCStr] at h
  | cons b rest ih =>
    unfold readCStr at h
    by_cases hb : b = 0
    · simp only [hb, if_true, Option.some.injEq, Prod.mk.injEq] at h
      obtain ⟨rfl, rfl⟩ := h
      simp [hb]
    · simp only [hb, if_false] at h
      cases hr : readCStr rest with
      | none => simp [hr] at h
      | some p =>
        obtain ⟨s', r'⟩ := p
        simp only [hr, Option.some.injEq, Prod.mk.injEq] at h
        obtain ⟨rfl, rfl⟩ := h
        obtain ⟨e, hn⟩ := ih hr
        refine ⟨by rw [e]; simp, ?_⟩
        intro hm
        rcases List.mem_cons.mp hm with h0 | h0
        · exact hb h0.symm
        · exact hn h0

theorem parseMany_inv {α : Type} (p : Bytes → Option (α × Bytes)) (ser : α → Bytes) (W : α → Prop)
    (hp : ∀ b x r, p b = some (x, r) → b = ser x ++ r ∧ W x) :
    ∀ (n : Nat) (bs : Bytes) (xs : List α) (r : Bytes), parseMany p n bs = some (xs, r) →
      bs = (xs.map ser).flatten ++ r ∧ xs.length = n ∧ ∀ x ∈ xs, W x := by
  intro n
  induction n with
  | zero =>
    intro bs xs r h
    simp only [parseMany, Option.some.injEq, Prod.mk.injEq] at h
    obtain ⟨rfl, rfl⟩ := h
    simp
  | succ c ih =>
    intro bs xs r h
    unfold parseMany at h
    cases h1 : p bs with
    | none => simp [h1] at h
    | some q =>
      obtain ⟨x, r1⟩ := q
      simp only [h1] at h
      cases h2 : parseMany p c r1 with
      | none => simp [h2] at h
      | some q2 =>
        obtain ⟨xs', r'⟩ := q2
        simp only [h2, Option.some.injEq, Prod.mk.injEq] at h
        obtain ⟨rfl, rfl⟩ := h
        obtain ⟨e1, w1⟩ := hp _ _ _ h1
        obtain ⟨e2, l2, w2⟩ := ih _ _ _ h2
        refine ⟨by rw [e1, e2]; simp, by simp [l2], ?_⟩
        intro y hy
        rcases List.mem_cons.mp hy with rfl | hy
        · exact w1
        · exact w2 y hy

theorem be16_rdBe (a b : Byte) : be16 (rdBe [a, b]) = [a, b] := by
  simp only [rdBe, be16, List.foldl_cons, List.foldl_nil, List.cons.injEq, and_true]
  refine ⟨?_, ?_⟩ <;> apply BitVec.eq_of_toNat_eq <;> simp only [BitVec.toNat_ofNat] <;> omega

theorem be32_rdBe (a b c d : Byte) : be32 (rdBe [a, b, c, d]) = [a, b, c, d] := by
  simp only [rdBe, be32, List.foldl_cons, List.foldl_nil, List.cons.injEq, and_true]
  refine ⟨?_, ?_, ?_, ?_⟩ <;> apply BitVec.eq_of_toNat_eq <;> simp only [BitVec.toNat_ofNat] <;> omega

theorem rdBe2_lt (a b : Byte) : rdBe [a, b] < 65536 := by
  simp only [rdBe, List.foldl_cons, List.foldl_nil]; omega

theorem rdBe4_lt (a b c d : Byte) : rdBe [a, b, c, d] < 4294967296 := by
  simp only [rdBe, List.foldl_cons, List.foldl_nil]; omega

theorem len2 {l : Bytes} (h : l.length = 2) : ∃ a b, l = [a, b] := by
  match l, h with
  | [a, b], _ => exact ⟨a, b, rfl⟩

theorem len4 {l : Bytes} (h : l.length = 4) : ∃ a b c d, l = [a, b, c, d] := by
  match l, h with
  | [a, b, c, d], _ => exact ⟨a, b, c, d, rfl⟩

theorem parseTag_inv {n : Nat} {bs r : Bytes} {t : Tag} (h : parseTag n bs = some (t, r)) :
    bs = serTag t ++ r ∧ TagWf n t := by
  unfold parseTag at h
  cases h1 : readCStr bs with
  | none => simp [h1] at h
  | some q =>
    obtain ⟨name, r1⟩ := q
    simp only [h1] at h
    cases h2 : readN 2 r1 with
    | none => simp [h2] at h
    | some q2 =>
      obtain ⟨tb, r2⟩ := q2
      simp only [h2] at h
      by_cases hv : validType (rdBe tb) = true
      · simp only [hv, if_true] at h
        cases h3 : readN (maskSize n) r2 with
        | none => simp [h3] at h
        | some q3 =>
          obtain ⟨mask, r3⟩ := q3
          simp only [h3, Option.some.injEq, Prod.mk.injEq] at h
          obtain ⟨rfl, rfl⟩ := h
          obtain ⟨e1, n1⟩ := readCStr_inv h1
          obtain ⟨e2, l2⟩ := readN_inv h2
          obtain ⟨e3, l3⟩ := readN_inv h3
          obtain ⟨a, b, rfl⟩ := len2 l2
          refine ⟨?_, ⟨n1, hv, l3⟩⟩
          simp only [serTag, be16_rdBe]
          rw [e1, e2, e3]; simp
      · simp [hv] at h


theorem rdBe1_byte (f : Byte) : (BitVec.ofNat 8 (rdBe [f]) : Byte) = f := by
  apply BitVec.eq_of_toNat_eq
  simp only [rdBe, List.foldl_cons, List.foldl_nil, BitVec.toNat_ofNat]; omega

theorem rdBe1_lt (f : Byte) : rdBe [f] < 256 := by
  simp only [rdBe, List.foldl_cons, List.foldl_nil]; omega

theorem len1 {l : Bytes} (h : l.length = 1) : ∃ a, l = [a] := by
  match l, h with
  | [a], _ => exact ⟨a, rfl⟩

theorem parseIEntry_inv {v : Nat} {bs r : Bytes} {e : IEntry} (h : parseIEntry v bs = some (e, r)) :
    bs = serIEntry e ++ r ∧ IEntryWf v e := by
  unfold parseIEntry at h
  cases h1 : readCStr bs with
  | none => simp [h1] at h
  | some q =>
    obtain ⟨path, r1⟩ := q
    simp only [h1] at h
    cases h2 : readN 16 r1 with
    | none => simp [h2] at h
    | some q2 =>
      obtain ⟨key, r2⟩ := q2
      simp only [h2] at h
      cases h3 : readN 4 r2 with
      | none => simp [h3] at h
      | some q3 =>
        obtain ⟨sz, r3⟩ := q3
        simp only [h3] at h
        obtain ⟨e1, n1⟩ := readCStr_inv h1
        obtain ⟨e2, l2⟩ := readN_inv h2
        obtain ⟨e3, l3⟩ := readN_inv h3
        obtain ⟨a, b, c, d, rfl⟩ := len4 l3
        by_cases hv : v ≥ 2
        · simp only [hv, if_true] at h
          cases h4 : readN 1 r3 with
          | none => simp [h4] at h
          | some q4 =>
            obtain ⟨ft, r4⟩ := q4
            simp only [h4, Option.some.injEq, Prod.mk.injEq] at h
            obtain ⟨rfl, rfl⟩ := h
            obtain ⟨e4, l4⟩ := readN_inv h4
            obtain ⟨f, rfl⟩ := len1 l4
            refine ⟨?_, ⟨n1, l2, rdBe4_lt _ _ _ _, ?_⟩⟩
            · simp only [serIEntry, be32_rdBe, rdBe1_byte]
              rw [e1, e2, e3, e4]; simp
            · simp only [hv, if_true]
              exact ⟨_, rfl, rdBe1_lt f⟩
        · simp only [hv, if_false, Option.some.injEq, Prod.mk.injEq] at h
          obtain ⟨rfl, rfl⟩ := h
          refine ⟨?_, ⟨n1, l2, rdBe4_lt _ _ _ _, ?_⟩⟩
          · simp only [serIEntry, be32_rdBe]
            rw [e1, e2, e3]; simp
          · simp only [hv, if_false]



theorem len10 {l : Bytes} (h : l.length = 10) : ∃ a b c d e f g i j k, l = [a, b, c, d, e, f, g, i, j, k] := by
  match l, h with
  | [a, b, c, d, e, f, g, i, j, k], _ => exact ⟨a, b, c, d, e, f, g, i, j, k, rfl⟩

theorem len6 {l : Bytes} (h : l.length = 6) : ∃ a b c d e f, l = [a, b, c, d, e, f] := by
  match l, h with
  | [a, b, c, d, e, f], _ => exact ⟨a, b, c, d, e, f, rfl⟩

theorem ofNat_toNat8 (b : Byte) : (BitVec.ofNat 8 b.toNat : Byte) = b := by
  apply BitVec.eq_of_toNat_eq; simp

/-- every input `InstallManifest::parse` accepts is the serialisation of the parsed value followed
by ignored trailing bytes, and the parsed value is well formed -/
theorem parseInstall_inv {bs : Bytes} {m : IManifest} (h : parseInstall bs = some m) :
    IManifestWf m ∧ ∃ t, bs = serInstall m ++ t := by
  unfold parseInstall at h
  cases h0 : readN 10 bs with
  | none => simp [h0] at h
  | some q =>
    obtain ⟨hd, r0⟩ := q
    obtain ⟨e0, l0⟩ := readN_inv h0
    obtain ⟨m0, m1, ver, ckl, t0, t1, c0, c1, c2, c3, rfl⟩ := len10 l0
    simp only [h0] at h
    by_cases hm : m0 ≠ 0x49 ∨ m1 ≠ 0x4E
    · rw [if_pos hm] at h; cases h
    · rw [if_neg hm] at h
      have hm0 : m0 = 0x49 := by
        by_cases x : m0 = 0x49
        · exact x
        · exact absurd (Or.inl x) hm
      have hm1 : m1 = 0x4E := by
        by_cases x : m1 = 0x4E
        · exact x
        · exact absurd (Or.inr x) hm
      subst hm0 hm1
      by_cases hv2 : ver.toNat ≥ 2
      · simp only [hv2, if_true] at h
        cases h6 : readN 6 r0 with
        | none => simp [h6] at h
        | some q6 =>
          obtain ⟨x6, r1⟩ := q6
          obtain ⟨e6, l6⟩ := readN_inv h6
          obtain ⟨c, a0, a1, a2, a3, u, rfl⟩ := len6 l6
          simp only [h6] at h
          by_cases hver : ver.toNat = 0 ∨ ver.toNat > 2
          · rw [if_pos hver] at h; cases h
          · rw [if_neg hver] at h
            by_cases hck : ckl ≠ 16
            · rw [if_pos hck] at h; cases h
            · rw [if_neg hck] at h
              have hck' : ckl = 16 := by
                by_cases x : ckl = 16
                · exact x
                · exact absurd x hck
              subst hck'
              cases hT : parseMany (parseTag (rdBe [c0, c1, c2, c3])) (rdBe [t0, t1]) r1 with
              | none => simp [hT] at h
              | some qT =>
                obtain ⟨tags, r2⟩ := qT
                simp only [hT] at h
                cases hE : parseMany (parseIEntry ver.toNat) (rdBe [c0, c1, c2, c3]) r2 with
                | none => simp [hE] at h
                | some qE =>
                  obtain ⟨entries, r3⟩ := qE
                  simp only [hE, Option.some.injEq] at h
                  subst h
                  obtain ⟨eT, lT, wT⟩ := parseMany_inv _ serTag (TagWf (rdBe [c0, c1, c2, c3]))
                    (fun b x r hh => parseTag_inv hh) _ _ _ _ hT
                  obtain ⟨eE, lE, wE⟩ := parseMany_inv _ serIEntry (IEntryWf ver.toNat)
                    (fun b x r hh => parseIEntry_inv hh) _ _ _ _ hE
                  have hv : ver.toNat = 2 := by omega
                  refine ⟨⟨Or.inr hv, ?_, by rw [lT]; exact rdBe2_lt _ _, by rw [lE]; exact rdBe4_lt _ _ _ _,
                    by rw [lE]; exact wT, wE⟩, r3, ?_⟩
                  · simp only [hv, if_true]
                    exact ⟨_, _, _, rfl, c.isLt, rdBe4_lt _ _ _ _, u.isLt⟩
                  · simp only [serInstall, lT, lE, be16_rdBe, be32_rdBe, hv2, if_true, ofNat_toNat8]
                    rw [e0, e6, eT, eE]; simp
      · simp only [hv2, if_false] at h
        by_cases hver : ver.toNat = 0 ∨ ver.toNat > 2
        · rw [if_pos hver] at h; cases h
        · rw [if_neg hver] at h
          by_cases hck : ckl ≠ 16
          · rw [if_pos hck] at h; cases h
          · rw [if_neg hck] at h
            have hck' : ckl = 16 := by
              by_cases x : ckl = 16
              · exact x
              · exact absurd x hck
            subst hck'
            cases hT : parseMany (parseTag (rdBe [c0, c1, c2, c3])) (rdBe [t0, t1]) r0 with
            | none => simp [hT] at h
            | some qT =>
              obtain ⟨tags, r2⟩ := qT
              simp only [hT] at h
              cases hE : parseMany (parseIEntry ver.toNat) (rdBe [c0, c1, c2, c3]) r2 with
              | none => simp [hE] at h
              | some qE =>
                obtain ⟨entries, r3⟩ := qE
                simp only [hE, Option.some.injEq] at h
                subst h
                obtain ⟨eT, lT, wT⟩ := parseMany_inv _ serTag (TagWf (rdBe [c0, c1, c2, c3]))
                  (fun b x r hh => parseTag_inv hh) _ _ _ _ hT
                obtain ⟨eE, lE, wE⟩ := parseMany_inv _ serIEntry (IEntryWf ver.toNat)
                  (fun b x r hh => parseIEntry_inv hh) _ _ _ _ hE
                have hv : ver.toNat = 1 := by omega
                refine ⟨⟨Or.inl hv, ?_, by rw [lT]; exact rdBe2_lt _ _, by rw [lE]; exact rdBe4_lt _ _ _ _,
                  by rw [lE]; exact wT, wE⟩, r3, ?_⟩
                · simp only [hv]; simp
                · simp only [serInstall, lT, lE, be16_rdBe, be32_rdBe, hv2, if_false, ofNat_toNat8]
                  rw [e0, eT, eE]; simp



/-! ### ZBSDIFF container -/

theorem leW_length (k n : Nat) : (leW k n).length = k := by
  induction k generalizing n with
  | zero => rfl
  | succ k ih => simp [leW, ih]

theorem rdLe_leW (k n : Nat) : rdLe (leW k n) = n % 256 ^ k := by
  induction k generalizing n with
  | zero => simp [leW, rdLe, Nat.mod_one]
  | succ k ih =>
    simp only [leW, rdLe, ih, BitVec.toNat_ofNat]
    have e : (256 : Nat) ^ (k + 1) = 256 * 256 ^ k := by rw [Nat.pow_succ, Nat.mul_comm]
    rw [e, Nat.mod_mul]

theorem leW_rdLe (bs : Bytes) : leW bs.length (rdLe bs) = bs := by
  induction bs with
  | nil => rfl
  | cons b r ih =>
    simp only [List.length_cons, leW, rdLe]
    have h1 : (BitVec.ofNat 8 (b.toNat + 256 * rdLe r) : Byte) = b := by
      apply BitVec.eq_of_toNat_eq; simp only [BitVec.toNat_ofNat]; omega
    have h2 : (b.toNat + 256 * rdLe r) / 256 = rdLe r := by omega
    rw [h1, h2, ih]

/-- well-formed ZBSDIFF container value -/
structure ZWf (z : ZFile) : Prop where
  clen : z.csize = z.control.length
  dlen : z.dsize = z.diff.length
  cmax : z.csize ≤ zMax
  dmax : z.dsize ≤ zMax
  omax : z.osize ≤ zMax
  sum : z.csize + z.dsize ≤ zMax

theorem zmax_lt : zMax < 256 ^ 8 := by decide

theorem parseZFile_ser (z : ZFile) (h : ZWf z) : parseZFile (serZFile z) = some z := by
  obtain ⟨cs, ds, os, control, diff, extra⟩ := z
  obtain ⟨h1, h2, h3, h4, h5, h6⟩ := h
  simp only at h1 h2 h3 h4 h5 h6
  have m8 : ∀ n, n ≤ zMax → n % 256 ^ 8 = n := fun n hn => Nat.mod_eq_of_lt (Nat.lt_of_le_of_lt hn zmax_lt)
  unfold parseZFile serZFile
  simp only [List.append_assoc]
  rw [readN_append 8 _ _ rfl]
  simp only
  rw [readN_append 8 _ _ (leW_length _ _)]
  simp only
  rw [readN_append 8 _ _ (leW_length _ _)]
  simp only
  rw [readN_append 8 _ _ (leW_length _ _)]
  simp only [rdLe_leW, m8 _ h3, m8 _ h4, m8 _ h5]
  rw [if_neg (by simp), if_neg (by omega)]
  rw [readN_append _ _ _ h1.symm]
  simp only
  rw [readN_append _ _ _ h2.symm]

/-- every accepted input is exactly the serialisation of its parse (byte identity), and the parse
is well formed -/
theorem parseZFile_inv {bs : Bytes} {z : ZFile} (h : parseZFile bs = some z) :
    ZWf z ∧ serZFile z = bs := by
  unfold parseZFile at h
  cases h0 : readN 8 bs with
  | none => simp [h0] at h
  | some q0 =>
    obtain ⟨sig, r0⟩ := q0
    simp only [h0] at h
    cases h1 : readN 8 r0 with
    | none => simp [h1] at h
    | some q1 =>
      obtain ⟨c, r1⟩ := q1
      simp only [h1] at h
      cases h2 : readN 8 r1 with
      | none => simp [h2] at h
      | some q2 =>
        obtain ⟨d, r2⟩ := q2
        simp only [h2] at h
        cases h3 : readN 8 r2 with
        | none => simp [h3] at h
        | some q3 =>
          obtain ⟨o, r3⟩ := q3
          simp only [h3] at h
          by_cases hs : sig ≠ zMagic
          · rw [if_pos hs] at h; cases h
          · rw [if_neg hs] at h
            by_cases hg : rdLe c > zMax ∨ rdLe d > zMax ∨ rdLe o > zMax ∨ rdLe c + rdLe d > zMax
            · rw [if_pos hg] at h; cases h
            · rw [if_neg hg] at h
              cases h4 : readN (rdLe c) r3 with
              | none => simp [h4] at h
              | some q4 =>
                obtain ⟨control, r4⟩ := q4
                simp only [h4] at h
                cases h5 : readN (rdLe d) r4 with
                | none => simp [h5] at h
                | some q5 =>
                  obtain ⟨diff, extra⟩ := q5
                  simp only [h5, Option.some.injEq] at h
                  subst h
                  obtain ⟨e0, l0⟩ := readN_inv h0
                  obtain ⟨e1, l1⟩ := readN_inv h1
                  obtain ⟨e2, l2⟩ := readN_inv h2
                  obtain ⟨e3, l3⟩ := readN_inv h3
                  obtain ⟨e4, l4⟩ := readN_inv h4
                  obtain ⟨e5, l5⟩ := readN_inv h5
                  have hs' : sig = zMagic := by
                    by_cases x : sig = zMagic
                    · exact x
                    · exact absurd x hs
                  refine ⟨⟨l4.symm, l5.symm, ?_, ?_, ?_, ?_⟩, ?_⟩ <;> try (simp only; omega)
                  have w1 := leW_rdLe c
                  have w2 := leW_rdLe d
                  have w3 := leW_rdLe o
                  rw [l1] at w1; rw [l2] at w2; rw [l3] at w3
                  simp only [serZFile, w1, w2, w3]
                  rw [e0, e1, e2, e3, e4, e5, hs']
                  simp


/-! ### size manifest -/


theorem beW_length (w n : Nat) : (beW w n).length = w := by
  induction w generalizing n with
  | zero => rfl
  | succ w ih => simp [beW, ih]

theorem rdBe_append1 (bs : Bytes) (b : Byte) : rdBe (bs ++ [b]) = rdBe bs * 256 + b.toNat := by
  simp [rdBe, List.foldl_append]

theorem rdBe_beW (w n : Nat) : rdBe (beW w n) = n % 256 ^ w := by
  induction w generalizing n with
  | zero => simp [beW, rdBe, Nat.mod_one]
  | succ w ih =>
    simp only [beW, rdBe_append1, ih, BitVec.toNat_ofNat]
    have e : (256 : Nat) ^ (w + 1) = 256 * 256 ^ w := by rw [Nat.pow_succ, Nat.mul_comm]
    rw [e, Nat.mod_mul]
    have : (2 : Nat) ^ 8 = 256 := by decide
    omega

theorem rev_ind {P : Bytes → Prop} (h0 : P []) (h1 : ∀ bs b, P bs → P (bs ++ [b])) : ∀ bs, P bs := by
  intro bs
  have : ∀ l : Bytes, P l.reverse := by
    intro l
    induction l with
    | nil => exact h0
    | cons a l ih => rw [List.reverse_cons]; exact h1 _ _ ih
  have h := this bs.reverse
  rw [List.reverse_reverse] at h
  exact h

theorem rdBe_lt (bs : Bytes) : rdBe bs < 256 ^ bs.length := by
  induction bs using rev_ind with
  | h0 => simp [rdBe]
  | h1 bs b ih =>
    rw [rdBe_append1, List.length_append, List.length_singleton, Nat.pow_succ]
    have := b.isLt
    omega

theorem beW_rdBe (bs : Bytes) : beW bs.length (rdBe bs) = bs := by
  induction bs using rev_ind with
  | h0 => rfl
  | h1 bs b ih =>
    rw [List.length_append, List.length_singleton, beW, rdBe_append1]
    have h1 : (rdBe bs * 256 + b.toNat) / 256 = rdBe bs := by have := b.isLt; omega
    have h2 : (BitVec.ofNat 8 (rdBe bs * 256 + b.toNat) : Byte) = b := by
      apply BitVec.eq_of_toNat_eq; simp only [BitVec.toNat_ofNat]; have := b.isLt; omega
    rw [h1, h2, ih]

structure SEntryWf (ks w : Nat) (e : SEntry) : Prop where
  key : e.key.length = ks
  esize : e.esize < 256 ^ w

theorem parseSEntry_ser (ks w : Nat) (e : SEntry) (rest : Bytes) (h : SEntryWf ks w e) :
    parseSEntry ks w (serSEntry w e ++ rest) = some (e, rest) := by
  obtain ⟨key, esize⟩ := e
  unfold parseSEntry serSEntry
  simp only [List.append_assoc]
  rw [readN_append ks _ _ h.key]
  simp only
  rw [readN_append w _ _ (beW_length _ _)]
  simp only [rdBe_beW, Nat.mod_eq_of_lt h.esize]

theorem parseSEntry_inv {ks w : Nat} {bs r : Bytes} {e : SEntry} (h : parseSEntry ks w bs = some (e, r)) :
    bs = serSEntry w e ++ r ∧ SEntryWf ks w e := by
  unfold parseSEntry at h
  cases h1 : readN ks bs with
  | none => simp [h1] at h
  | some q1 =>
    obtain ⟨k, r1⟩ := q1
    simp only [h1] at h
    cases h2 : readN w r1 with
    | none => simp [h2] at h
    | some q2 =>
      obtain ⟨eb, r2⟩ := q2
      simp only [h2, Option.some.injEq, Prod.mk.injEq] at h
      obtain ⟨rfl, rfl⟩ := h
      obtain ⟨e1, l1⟩ := readN_inv h1
      obtain ⟨e2, l2⟩ := readN_inv h2
      refine ⟨?_, ⟨l1, by rw [← l2]; exact rdBe_lt eb⟩⟩
      have := beW_rdBe eb
      rw [l2] at this
      simp only [serSEntry, this]
      rw [e1, e2]; simp


/-- well-formed size manifest value (what `parse` establishes and `validate` + the tag reader check) -/
structure SWf (f : SFile) : Prop where
  version : f.version = 1 ∨ f.version = 2
  ksLo : 1 ≤ f.ekeySize
  ksHi : f.ekeySize ≤ 16
  width : if f.version = 1 then 1 ≤ f.width ∧ f.width ≤ 8 else f.width = 4
  total : sumU64 f.entries = f.total
  total40 : f.version = 2 → f.total < 256 ^ 5
  tagCount : f.tags.length < 65536
  entryCount : f.entries.length < 4294967296
  tags : ∀ t ∈ f.tags, TagWf f.entries.length t
  names : (f.tags.all fun t => validUtf8 t.name) = true
  entries : ∀ e ∈ f.entries, SEntryWf f.ekeySize f.width e

theorem len9 {l : Bytes} (h : l.length = 9) : ∃ a b c d e f g i j, l = [a, b, c, d, e, f, g, i, j] := by
  match l, h with
  | [a, b, c, d, e, f, g, i, j], _ => exact ⟨a, b, c, d, e, f, g, i, j, rfl⟩

theorem beW8_eq (n : Nat) : ∃ a0 a1 a2 a3 a4 a5 a6 a7 : Byte, beW 8 n = [a0, a1, a2, a3, a4, a5, a6, a7] :=
  ⟨_, _, _, _, _, _, _, _, rfl⟩

theorem sumU64_lt (es : List SEntry) : sumU64 es < 256 ^ 8 := by
  unfold sumU64
  have : (2 : Nat) ^ 64 = 256 ^ 8 := by decide
  rw [this]; exact Nat.mod_lt _ (by decide)

theorem parseSFile_inv {bs : Bytes} {f : SFile} (h : parseSFile bs = some f) :
    SWf f ∧ ∃ t, bs = serSFile f ++ t := by
  unfold parseSFile at h
  cases h0 : readN 10 bs with
  | none => simp [h0] at h
  | some q =>
    obtain ⟨hd, r0⟩ := q
    obtain ⟨e0, l0⟩ := readN_inv h0
    obtain ⟨m0, m1, ver, ks, c0, c1, c2, c3, t0, t1, rfl⟩ := len10 l0
    simp only [h0] at h
    by_cases hv1 : ver.toNat = 1
    · have hver : ver = 1#8 := by
        apply BitVec.eq_of_toNat_eq; rw [hv1]; rfl
      subst hver
      simp only [hv1, if_true] at h
      cases h9 : readN 9 r0 with
      | none => simp [h9] at h
      | some q9 =>
        obtain ⟨x9, r1⟩ := q9
        obtain ⟨e9, l9⟩ := readN_inv h9
        obtain ⟨a0, a1, a2, a3, a4, a5, a6, a7, w, rfl⟩ := len9 l9
        simp only [h9] at h
        by_cases hm : m0 ≠ 0x44 ∨ m1 ≠ 0x53
        · rw [if_pos hm] at h; cases h
        · rw [if_neg hm] at h
          by_cases hk : ks.toNat = 0 ∨ ks.toNat > 16
          · rw [if_pos hk] at h; cases h
          · rw [if_neg hk] at h
            by_cases hw : True ∧ (w.toNat = 0 ∨ w.toNat > 8)
            · rw [if_pos hw] at h; cases h
            · rw [if_neg hw] at h
              cases hT : parseMany (parseTag (rdBe [c0, c1, c2, c3])) (rdBe [t0, t1]) r1 with
              | none => simp [hT] at h
              | some qT =>
                obtain ⟨tags, r2⟩ := qT
                simp only [hT] at h
                cases hE : parseMany (parseSEntry ks.toNat w.toNat) (rdBe [c0, c1, c2, c3]) r2 with
                | none => simp [hE] at h
                | some qE =>
                  obtain ⟨entries, r3⟩ := qE
                  simp only [hE] at h
                  by_cases hu : (!(tags.all fun t => validUtf8 t.name)) = true
                  · rw [if_pos hu] at h; cases h
                  · rw [if_neg hu] at h
                    by_cases hs : sumU64 entries ≠ rdBe [a0, a1, a2, a3, a4, a5, a6, a7]
                    · rw [if_pos hs] at h; cases h
                    · rw [if_neg hs] at h
                      simp only [Option.some.injEq] at h
                      subst h
                      obtain ⟨eT, lT, wT⟩ := parseMany_inv _ serTag (TagWf (rdBe [c0, c1, c2, c3]))
                        (fun b x r hh => parseTag_inv hh) _ _ _ _ hT
                      obtain ⟨eE, lE, wE⟩ := parseMany_inv _ (serSEntry w.toNat) (SEntryWf ks.toNat w.toNat)
                        (fun b x r hh => parseSEntry_inv hh) _ _ _ _ hE
                      have hs' : sumU64 entries = rdBe [a0, a1, a2, a3, a4, a5, a6, a7] := by
                        by_cases x : sumU64 entries = rdBe [a0, a1, a2, a3, a4, a5, a6, a7]
                        · exact x
                        · exact absurd x hs
                      have hm0 : m0 = 0x44 := by
                        by_cases x : m0 = 0x44
                        · exact x
                        · exact absurd (Or.inl x) hm
                      have hm1 : m1 = 0x53 := by
                        by_cases x : m1 = 0x53
                        · exact x
                        · exact absurd (Or.inr x) hm
                      have hu' : (tags.all fun t => validUtf8 t.name) = true := by
                        cases hx : (tags.all fun t => validUtf8 t.name) with
                        | true => rfl
                        | false => simp [hx] at hu
                      refine ⟨⟨Or.inl rfl, by simp only; omega, by simp only; omega, ?_, hs', ?_,
                        by rw [lT]; exact rdBe2_lt _ _, by rw [lE]; exact rdBe4_lt _ _ _ _,
                        by rw [lE]; exact wT, hu', wE⟩, r3, ?_⟩
                      · have hw' : ¬(w.toNat = 0 ∨ w.toNat > 8) := fun x => hw ⟨trivial, x⟩
                        show (if (1 : Nat) = 1 then 1 ≤ w.toNat ∧ w.toNat ≤ 8 else w.toNat = 4)
                        rw [if_pos rfl]; omega
                      · exact fun h2 => absurd h2 (show ¬ ((1 : Nat) = 2) by omega)
                      · have hb : beW 8 (rdBe [a0, a1, a2, a3, a4, a5, a6, a7]) = [a0, a1, a2, a3, a4, a5, a6, a7] :=
                          beW_rdBe [a0, a1, a2, a3, a4, a5, a6, a7]
                        simp only [serSFile, serSHeader, lT, lE, be16_rdBe, be32_rdBe, if_true,
                          ofNat_toNat8, hb]
                        rw [e0, e9, eT, eE, hm0, hm1]; simp
    · simp only [hv1, if_false] at h
      by_cases hv2 : ver.toNat = 2
      · have hver : ver = 2#8 := by
          apply BitVec.eq_of_toNat_eq; rw [hv2]; rfl
        subst hver
        simp only [hv2, if_true] at h
        cases h5 : readN 5 r0 with
        | none => simp [h5] at h
        | some q5 =>
          obtain ⟨tb, r1⟩ := q5
          obtain ⟨e5, l5⟩ := readN_inv h5
          simp only [h5] at h
          by_cases hm : m0 ≠ 0x44 ∨ m1 ≠ 0x53
          · rw [if_pos hm] at h; cases h
          · rw [if_neg hm] at h
            by_cases hk : ks.toNat = 0 ∨ ks.toNat > 16
            · rw [if_pos hk] at h; cases h
            · rw [if_neg hk] at h
              by_cases hw : False ∧ ((4 : Nat) = 0 ∨ (4 : Nat) > 8)
              · exact absurd hw.1 id
              · rw [if_neg hw] at h
                cases hT : parseMany (parseTag (rdBe [c0, c1, c2, c3])) (rdBe [t0, t1]) r1 with
                | none => simp [hT] at h
                | some qT =>
                  obtain ⟨tags, r2⟩ := qT
                  simp only [hT] at h
                  cases hE : parseMany (parseSEntry ks.toNat 4) (rdBe [c0, c1, c2, c3]) r2 with
                  | none => simp [hE] at h
                  | some qE =>
                    obtain ⟨entries, r3⟩ := qE
                    simp only [hE] at h
                    by_cases hu : (!(tags.all fun t => validUtf8 t.name)) = true
                    · rw [if_pos hu] at h; cases h
                    · rw [if_neg hu] at h
                      by_cases hs : sumU64 entries ≠ rdBe tb
                      · rw [if_pos hs] at h; cases h
                      · rw [if_neg hs] at h
                        simp only [Option.some.injEq] at h
                        subst h
                        obtain ⟨eT, lT, wT⟩ := parseMany_inv _ serTag (TagWf (rdBe [c0, c1, c2, c3]))
                          (fun b x r hh => parseTag_inv hh) _ _ _ _ hT
                        obtain ⟨eE, lE, wE⟩ := parseMany_inv _ (serSEntry 4) (SEntryWf ks.toNat 4)
                          (fun b x r hh => parseSEntry_inv hh) _ _ _ _ hE
                        have hs' : sumU64 entries = rdBe tb := by
                          by_cases x : sumU64 entries = rdBe tb
                          · exact x
                          · exact absurd x hs
                        have hm0 : m0 = 0x44 := by
                          by_cases x : m0 = 0x44
                          · exact x
                          · exact absurd (Or.inl x) hm
                        have hm1 : m1 = 0x53 := by
                          by_cases x : m1 = 0x53
                          · exact x
                          · exact absurd (Or.inr x) hm
                        have hu' : (tags.all fun t => validUtf8 t.name) = true := by
                          cases hx : (tags.all fun t => validUtf8 t.name) with
                          | true => rfl
                          | false => simp [hx] at hu
                        refine ⟨⟨Or.inr rfl, by simp only; omega, by simp only; omega, ?_, hs', ?_,
                          by rw [lT]; exact rdBe2_lt _ _, by rw [lE]; exact rdBe4_lt _ _ _ _,
                          by rw [lE]; exact wT, hu', wE⟩, r3, ?_⟩
                        · simp
                        · intro _; simp only; rw [← l5]; exact rdBe_lt tb
                        · have hb := beW_rdBe tb
                          rw [l5] at hb
                          simp only [serSFile, serSHeader, lT, lE, be16_rdBe, be32_rdBe,
                            show ¬ ((2 : Nat) = 1) by omega, if_false, ofNat_toNat8, hb]
                          rw [e0, e5, eT, eE, hm0, hm1]; simp
      · simp only [hv2, if_false] at h
        cases h



theorem parseSFile_ser (f : SFile) (h : SWf f) (trail : Bytes) :
    parseSFile (serSFile f ++ trail) = some f := by
  obtain ⟨version, ks, total, width, tags, entries⟩ := f
  obtain ⟨a, b, hab⟩ := be16_eq tags.length
  obtain ⟨c0, c1, c2, c3, hc⟩ := be32_eq entries.length
  have hT := h.tags
  have hE := h.entries
  have htc := h.tagCount
  have hec := h.entryCount
  have hks1 := h.ksLo
  have hks2 := h.ksHi
  have hw := h.width
  have htot := h.total
  have ht40 := h.total40
  have hn := h.names
  simp only at hT hE htc hec hks1 hks2 hw htot ht40 hn
  have rab : rdBe [a, b] = tags.length := by rw [← hab]; exact rdBe_be16 _ htc
  have rc : rdBe [c0, c1, c2, c3] = entries.length := by rw [← hc]; exact rdBe_be32 _ hec
  have pT : ∀ r, parseMany (parseTag entries.length) tags.length ((tags.map serTag).flatten ++ r) = some (tags, r) :=
    fun r => parseMany_ser _ _ _ _ (fun t ht r' => parseTag_ser _ _ _ (hT t ht))
  have pE : ∀ r, parseMany (parseSEntry ks width) entries.length
      ((entries.map (serSEntry width)).flatten ++ r) = some (entries, r) :=
    fun r => parseMany_ser _ _ _ _ (fun e he r' => parseSEntry_ser _ _ _ _ (hE e he))
  have hksm : (BitVec.ofNat 8 ks : Byte).toNat = ks := by
    simp only [BitVec.toNat_ofNat]; omega
  unfold parseSFile serSFile serSHeader
  simp only
  rw [hab, hc]
  rcases h.version with hv | hv <;> simp only at hv <;> subst hv
  · rw [if_pos rfl] at hw
    obtain ⟨a0, a1, a2, a3, a4, a5, a6, a7, h8⟩ := beW8_eq total
    have r8 : rdBe [a0, a1, a2, a3, a4, a5, a6, a7] = total := by
      rw [← h8, rdBe_beW, ← htot]; exact Nat.mod_eq_of_lt (sumU64_lt _)
    have hwm : (BitVec.ofNat 8 width : Byte).toNat = width := by
      simp only [BitVec.toNat_ofNat]; omega
    simp only [if_true, h8]
    have e1 : [0x44, 0x53, BitVec.ofNat 8 1, BitVec.ofNat 8 ks] ++ [c0, c1, c2, c3] ++ [a, b] ++
        ([a0, a1, a2, a3, a4, a5, a6, a7] ++ [BitVec.ofNat 8 width]) ++
        (tags.map serTag).flatten ++ (entries.map (serSEntry width)).flatten ++ trail
        = [0x44, 0x53, BitVec.ofNat 8 1, BitVec.ofNat 8 ks, c0, c1, c2, c3, a, b] ++
          ([a0, a1, a2, a3, a4, a5, a6, a7, BitVec.ofNat 8 width] ++
          ((tags.map serTag).flatten ++ ((entries.map (serSEntry width)).flatten ++ trail))) := by simp
    rw [e1, readN_append 10 _ _ rfl]
    simp only [show (BitVec.ofNat 8 1 : Byte).toNat = 1 from rfl, if_true]
    rw [readN_append 9 _ _ rfl]
    simp only [rab, rc, r8, hksm, hwm]
    rw [if_neg (by simp), if_neg (by omega), if_neg (by omega), pT]
    simp only
    rw [pE]
    simp only [hn, Bool.not_true, Bool.false_eq_true, if_false, htot, ne_eq, not_true_eq_false]
  · rw [if_neg (by omega)] at hw
    subst hw
    have r5 : rdBe (beW 5 total) = total := by
      rw [rdBe_beW]; exact Nat.mod_eq_of_lt (ht40 rfl)
    simp only [show ¬ ((2 : Nat) = 1) by omega, if_false]
    have e1 : [0x44, 0x53, BitVec.ofNat 8 2, BitVec.ofNat 8 ks] ++ [c0, c1, c2, c3] ++ [a, b] ++
        beW 5 total ++
        (tags.map serTag).flatten ++ (entries.map (serSEntry 4)).flatten ++ trail
        = [0x44, 0x53, BitVec.ofNat 8 2, BitVec.ofNat 8 ks, c0, c1, c2, c3, a, b] ++
          (beW 5 total ++
          ((tags.map serTag).flatten ++ ((entries.map (serSEntry 4)).flatten ++ trail))) := by simp
    rw [e1, readN_append 10 _ _ rfl]
    simp only [show (BitVec.ofNat 8 2 : Byte).toNat = 2 from rfl, show ¬ ((2 : Nat) = 1) by omega,
      if_false, if_true]
    rw [readN_append 5 _ _ (beW_length _ _)]
    simp only [rab, rc, r5, hksm]
    rw [if_neg (by simp), if_neg (by omega), if_neg (by omega), pT]
    simp only
    rw [pE]
    simp only [hn, Bool.not_true, Bool.false_eq_true, if_false, htot, ne_eq, not_true_eq_false]



theorem sfileValid_of_wf (f : SFile) (h : SWf f) : sfileValid f = true := by
  obtain ⟨version, ks, total, width, tags, entries⟩ := f
  have hE := h.entries
  have htc := h.tagCount
  have hec := h.entryCount
  have hks1 := h.ksLo
  have hks2 := h.ksHi
  have hw := h.width
  have htot := h.total
  have ht40 := h.total40
  simp only at hE htc hec hks1 hks2 hw htot ht40
  have hall1 : (entries.all fun e => decide (e.esize < 256 ^ width)) = true := by
    rw [List.all_eq_true]; intro e he; simp only [decide_eq_true_eq]; exact (hE e he).esize
  have hall2 : (entries.all fun e => e.key.length == ks) = true := by
    rw [List.all_eq_true]; intro e he; simp only [beq_iff_eq]; exact (hE e he).key
  unfold sfileValid
  simp only [hall1, hall2, Bool.and_true]
  rcases h.version with hv | hv <;> simp only at hv <;> subst hv
  · rw [if_pos rfl] at hw
    simp [hks1, hks2, hw.1, hw.2, hec, htc, htot]
  · rw [if_neg (by omega)] at hw
    subst hw
    have := ht40 rfl
    have e : (256 : Nat) ^ 5 = 2 ^ 40 := by decide
    rw [e] at this
    simp [hks1, hks2, hec, htc, htot, this]


end Cascette.Proofs.Serial
