/-
Proofs/Serial — lemmas for property C08 (parse → build → parse → build reaches a fixed point).

* inversion lemmas: what an ACCEPTING read says about its input (`readN_inv`, `readCStr_inv`,
  `parseMany_inv`, `parseTag_inv`, `parseIEntry_inv`, …): the input is the serialisation of the
  value read followed by the unread rest, and the value is well formed;
* `parseInstall_inv`: every input the install parser accepts is `serInstall m ++ trailing` with
  `m` well formed; `parseZFile_ser` / `parseZFile_inv` for the ZBSDIFF container.
-/
import Cascette.Model.Serial
import Cascette.Proofs.ManifestSer
namespace Cascette.Proofs.Serial
open Cascette Cascette.Model.Manifest Cascette.Model.Serial Cascette.Proofs.Manifest

open Cascette Cascette.Model.Manifest Cascette.Model.Serial Cascette.Proofs.Manifest

/-! ### inversion lemmas: what an accepting read says about its input -/

theorem readN_inv {n : Nat} {bs a r : Bytes} (h : readN n bs = some (a, r)) :
    bs = a ++ r ∧ a.length = n := by
  unfold readN at h
  split at h
  · cases h
  · simp only [Option.some.injEq, Prod.mk.injEq] at h
    obtain ⟨rfl, rfl⟩ := h
    refine ⟨(List.take_append_drop n bs).symm, ?_⟩
    rw [List.length_take]; omega

theorem readCStr_inv {bs s r : Bytes} (h : readCStr bs = some (s, r)) :
    bs = s ++ 0 :: r ∧ (0 : Byte) ∉ s := by
  induction bs generalizing s with
  | nil => simp [readCStr] at h
  | cons b rest ih =>
    unfold readCStr at h
    by_cases hb : b = 0
    · simp only [hb, if_true, Option.some.injEq, Prod.mk.injEq] at h
      obtain ⟨rfl, rfl⟩ := h
      simp [hb]
    · simp only [hb, if_false] at h
      cases hr : readCStr rest with
      | none => simp [hr] at h
      | some p =>
        obtain ⟨s', r'⟩ := p
        simp only [hr, Option.some.injEq, Prod.mk.injEq] at h
        obtain ⟨rfl, rfl⟩ := h
        obtain ⟨e, hn⟩ := ih hr
        refine ⟨by rw [e]; simp, ?_⟩
        intro hm
        rcases List.mem_cons.mp hm with h0 | h0
        · exact hb h0.symm
        · exact hn h0

theorem parseMany_inv {α : Type} (p : Bytes → Option (α × Bytes)) (ser : α → Bytes) (W : α → Prop)
    (hp : ∀ b x r, p b = some (x, r) → b = ser x ++ r ∧ W x) :
    ∀ (n : Nat) (bs : Bytes) (xs : List α) (r : Bytes), parseMany p n bs = some (xs, r) →
      bs = (xs.map ser).flatten ++ r ∧ xs.length = n ∧ ∀ x ∈ xs, W x := by
  intro n
  induction n with
  | zero =>
    intro bs xs r h
    simp only [parseMany, Option.some.injEq, Prod.mk.injEq] at h
    obtain ⟨rfl, rfl⟩ := h
    simp
  | succ c ih =>
    intro bs xs r h
    unfold parseMany at h
    cases h1 : p bs with
    | none => simp [h1] at h
    | some q =>
      obtain ⟨x, r1⟩ := q
      simp only [h1] at h
      cases h2 : parseMany p c r1 with
      | none => simp [h2] at h
      | some q2 =>
        obtain ⟨xs', r'⟩ := q2
        simp only [h2, Option.some.injEq, Prod.mk.injEq] at h
        obtain ⟨rfl, rfl⟩ := h
        obtain ⟨e1, w1⟩ := hp _ _ _ h1
        obtain ⟨e2, l2, w2⟩ := ih _ _ _ h2
        refine ⟨by rw [e1, e2]; simp, by simp [l2], ?_⟩
        intro y hy
        rcases List.mem_cons.mp hy with rfl | hy
        · exact w1
        · exact w2 y hy

theorem be16_rdBe (a b : Byte) : be16 (rdBe [a, b]) = [a, b] := by
  simp only [rdBe, be16, List.foldl_cons, List.foldl_nil, List.cons.injEq, and_true]
  refine ⟨?_, ?_⟩ <;> apply BitVec.eq_of_toNat_eq <;> simp only [BitVec.toNat_ofNat] <;> omega

theorem be32_rdBe (a b c d : Byte) : be32 (rdBe [a, b, c, d]) = [a, b, c, d] := by
  simp only [rdBe, be32, List.foldl_cons, List.foldl_nil, List.cons.injEq, and_true]
  refine ⟨?_, ?_, ?_, ?_⟩ <;> apply BitVec.eq_of_toNat_eq <;> simp only [BitVec.toNat_ofNat] <;> omega

theorem rdBe2_lt (a b : Byte) : rdBe [a, b] < 65536 := by
  simp only [rdBe, List.foldl_cons, List.foldl_nil]; omega

theorem rdBe4_lt (a b c d : Byte) : rdBe [a, b, c, d] < 4294967296 := by
  simp only [rdBe, List.foldl_cons, List.foldl_nil]; omega

theorem len2 {l : Bytes} (h : l.length = 2) : ∃ a b, l = [a, b] := by
  match l, h with
  | [a, b], _ => exact ⟨a, b, rfl⟩

theorem len4 {l : Bytes} (h : l.length = 4) : ∃ a b c d, l = [a, b, c, d] := by
  match l, h with
  | [a, b, c, d], _ => exact ⟨a, b, c, d, rfl⟩

theorem parseTag_inv {n : Nat} {bs r : Bytes} {t : Tag} (h : parseTag n bs = some (t, r)) :
    bs = serTag t ++ r ∧ TagWf n t := by
  unfold parseTag at h
  cases h1 : readCStr bs with
  | none => simp [h1] at h
  | some q =>
    obtain ⟨name, r1⟩ := q
    simp only [h1] at h
    cases h2 : readN 2 r1 with
    | none => simp [h2] at h
    | some q2 =>
      obtain ⟨tb, r2⟩ := q2
      simp only [h2] at h
      by_cases hv : validType (rdBe tb) = true
      · simp only [hv, if_true] at h
        cases h3 : readN (maskSize n) r2 with
        | none => simp [h3] at h
        | some q3 =>
          obtain ⟨mask, r3⟩ := q3
          simp only [h3, Option.some.injEq, Prod.mk.injEq] at h
          obtain ⟨rfl, rfl⟩ := h
          obtain ⟨e1, n1⟩ := readCStr_inv h1
          obtain ⟨e2, l2⟩ := readN_inv h2
          obtain ⟨e3, l3⟩ := readN_inv h3
          obtain ⟨a, b, rfl⟩ := len2 l2
          refine ⟨?_, ⟨n1, hv, l3⟩⟩
          simp only [serTag, be16_rdBe]
          rw [e1, e2, e3]; simp
      · simp [hv] at h


theorem rdBe1_byte (f : Byte) : (BitVec.ofNat 8 (rdBe [f]) : Byte) = f := by
  apply BitVec.eq_of_toNat_eq
  simp only [rdBe, List.foldl_cons, List.foldl_nil, BitVec.toNat_ofNat]; omega

theorem rdBe1_lt (f : Byte) : rdBe [f] < 256 := by
  simp only [rdBe, List.foldl_cons, List.foldl_nil]; omega

theorem len1 {l : Bytes} (h : l.length = 1) : ∃ a, l = [a] := by
  match l, h with
  | [a], _ => exact ⟨a, rfl⟩

theorem parseIEntry_inv {v : Nat} {bs r : Bytes} {e : IEntry} (h : parseIEntry v bs = some (e, r)) :
    bs = serIEntry e ++ r ∧ IEntryWf v e := by
  unfold parseIEntry at h
  cases h1 : readCStr bs with
  | none => simp [h1] at h
  | some q =>
    obtain ⟨path, r1⟩ := q
    simp only [h1] at h
    cases h2 : readN 16 r1 with
    | none => simp [h2] at h
    | some q2 =>
      obtain ⟨key, r2⟩ := q2
      simp only [h2] at h
      cases h3 : readN 4 r2 with
      | none => simp [h3] at h
      | some q3 =>
        obtain ⟨sz, r3⟩ := q3
        simp only [h3] at h
        obtain ⟨e1, n1⟩ := readCStr_inv h1
        obtain ⟨e2, l2⟩ := readN_inv h2
        obtain ⟨e3, l3⟩ := readN_inv h3
        obtain ⟨a, b, c, d, rfl⟩ := len4 l3
        by_cases hv : v ≥ 2
        · simp only [hv, if_true] at h
          cases h4 : readN 1 r3 with
          | none => simp [h4] at h
          | some q4 =>
            obtain ⟨ft, r4⟩ := q4
            simp only [h4, Option.some.injEq, Prod.mk.injEq] at h
            obtain ⟨rfl, rfl⟩ := h
            obtain ⟨e4, l4⟩ := readN_inv h4
            obtain ⟨f, rfl⟩ := len1 l4
            refine ⟨?_, ⟨n1, l2, rdBe4_lt _ _ _ _, ?_⟩⟩
            · simp only [serIEntry, be32_rdBe, rdBe1_byte]
              rw [e1, e2, e3, e4]; simp
            · simp only [hv, if_true]
              exact ⟨_, rfl, rdBe1_lt f⟩
        · simp only [hv, if_false, Option.some.injEq, Prod.mk.injEq] at h
          obtain ⟨rfl, rfl⟩ := h
          refine ⟨?_, ⟨n1, l2, rdBe4_lt _ _ _ _, ?_⟩⟩
          · simp only [serIEntry, be32_rdBe]
            rw [e1, e2, e3]; simp
          · simp only [hv, if_false]



theorem len10 {l : Bytes} (h : l.length = 10) : ∃ a b c d e f g i j k, l = [a, b, c, d, e, f, g, i, j, k] := by
  match l, h with
  | [a, b, c, d, e, f, g, i, j, k], _ => exact ⟨a, b, c, d, e, f, g, i, j, k, rfl⟩

theorem len6 {l : Bytes} (h : l.length = 6) : ∃ a b c d e f, l = [a, b, c, d, e, f] := by
  match l, h with
  | [a, b, c, d, e, f], _ => exact ⟨a, b, c, d, e, f, rfl⟩

theorem ofNat_toNat8 (b : Byte) : (BitVec.ofNat 8 b.toNat : Byte) = b := by
  apply BitVec.eq_of_toNat_eq; simp

/-- every input `InstallManifest::parse` accepts is the serialisation of the parsed value followed
by ignored trailing bytes, and the parsed value is well formed -/
theorem parseInstall_inv {bs : Bytes} {m : IManifest} (h : parseInstall bs = some m) :
    IManifestWf m ∧ ∃ t, bs = serInstall m ++ t := by
  unfold parseInstall at h
  cases h0 : readN 10 bs with
  | none => simp [h0] at h
  | some q =>
    obtain ⟨hd, r0⟩ := q
    obtain ⟨e0, l0⟩ := readN_inv h0
    obtain ⟨m0, m1, ver, ckl, t0, t1, c0, c1, c2, c3, rfl⟩ := len10 l0
    simp only [h0] at h
    by_cases hm : m0 ≠ 0x49 ∨ m1 ≠ 0x4E
    · rw [if_pos hm] at h; cases h
    · rw [if_neg hm] at h
      have hm0 : m0 = 0x49 := by
        by_cases x : m0 = 0x49
        · exact x
        · exact absurd (Or.inl x) hm
      have hm1 : m1 = 0x4E := by
        by_cases x : m1 = 0x4E
        · exact x
        · exact absurd (Or.inr x) hm
      subst hm0 hm1
      by_cases hv2 : ver.toNat ≥ 2
      · simp only [hv2, if_true] at h
        cases h6 : readN 6 r0 with
        | none => simp [h6] at h
        | some q6 =>
          obtain ⟨x6, r1⟩ := q6
          obtain ⟨e6, l6⟩ := readN_inv h6
          obtain ⟨c, a0, a1, a2, a3, u, rfl⟩ := len6 l6
          simp only [h6] at h
          by_cases hver : ver.toNat = 0 ∨ ver.toNat > 2
          · rw [if_pos hver] at h; cases h
          · rw [if_neg hver] at h
            by_cases hck : ckl ≠ 16
            · rw [if_pos hck] at h; cases h
            · rw [if_neg hck] at h
              have hck' : ckl = 16 := by
                by_cases x : ckl = 16
                · exact x
                · exact absurd x hck
              subst hck'
              cases hT : parseMany (parseTag (rdBe [c0, c1, c2, c3])) (rdBe [t0, t1]) r1 with
              | none => simp [hT] at h
              | some qT =>
                obtain ⟨tags, r2⟩ := qT
                simp only [hT] at h
                cases hE : parseMany (parseIEntry ver.toNat) (rdBe [c0, c1, c2, c3]) r2 with
                | none => simp [hE] at h
                | some qE =>
                  obtain ⟨entries, r3⟩ := qE
                  simp only [hE, Option.some.injEq] at h
                  subst h
                  obtain ⟨eT, lT, wT⟩ := parseMany_inv _ serTag (TagWf (rdBe [c0, c1, c2, c3]))
                    (fun b x r hh => parseTag_inv hh) _ _ _ _ hT
                  obtain ⟨eE, lE, wE⟩ := parseMany_inv _ serIEntry (IEntryWf ver.toNat)
                    (fun b x r hh => parseIEntry_inv hh) _ _ _ _ hE
                  have hv : ver.toNat = 2 := by omega
                  refine ⟨⟨Or.inr hv, ?_, by rw [lT]; exact rdBe2_lt _ _, by rw [lE]; exact rdBe4_lt _ _ _ _,
                    by rw [lE]; exact wT, wE⟩, r3, ?_⟩
                  · simp only [hv, if_true]
                    exact ⟨_, _, _, rfl, c.isLt, rdBe4_lt _ _ _ _, u.isLt⟩
                  · simp only [serInstall, lT, lE, be16_rdBe, be32_rdBe, hv2, if_true, ofNat_toNat8]
                    rw [e0, e6, eT, eE]; simp
      · simp only [hv2, if_false] at h
        by_cases hver : ver.toNat = 0 ∨ ver.toNat > 2
        · rw [if_pos hver] at h; cases h
        · rw [if_neg hver] at h
          by_cases hck : ckl ≠ 16
          · rw [if_pos hck] at h; cases h
          · rw [if_neg hck] at h
            have hck' : ckl = 16 := by
              by_cases x : ckl = 16
              · exact x
              · exact absurd x hck
            subst hck'
            cases hT : parseMany (parseTag (rdBe [c0, c1, c2, c3])) (rdBe [t0, t1]) r0 with
            | none => simp [hT] at h
            | some qT =>
              obtain ⟨tags, r2⟩ := qT
              simp only [hT] at h
              cases hE : parseMany (parseIEntry ver.toNat) (rdBe [c0, c1, c2, c3]) r2 with
              | none => simp [hE] at h
              | some qE =>
                obtain ⟨entries, r3⟩ := qE
                simp only [hE, Option.some.injEq] at h
                subst h
                obtain ⟨eT, lT, wT⟩ := parseMany_inv _ serTag (TagWf (rdBe [c0, c1, c2, c3]))
                  (fun b x r hh => parseTag_inv hh) _ _ _ _ hT
                obtain ⟨eE, lE, wE⟩ := parseMany_inv _ serIEntry (IEntryWf ver.toNat)
                  (fun b x r hh => parseIEntry_inv hh) _ _ _ _ hE
                have hv : ver.toNat = 1 := by omega
                refine ⟨⟨Or.inl hv, ?_, by rw [lT]; exact rdBe2_lt _ _, by rw [lE]; exact rdBe4_lt _ _ _ _,
                  by rw [lE]; exact wT, wE⟩, r3, ?_⟩
                · simp only [hv]; simp
                · simp only [serInstall, lT, lE, be16_rdBe, be32_rdBe, hv2, if_false, ofNat_toNat8]
                  rw [e0, eT, eE]; simp



/-! ### ZBSDIFF container -/

theorem leW_length (k n : Nat) : (leW k n).length = k := by
  induction k generalizing n with
  | zero => rfl
  | succ k ih => simp [leW, ih]

theorem rdLe_leW (k n : Nat) : rdLe (leW k n) = n % 256 ^ k := by
  induction k generalizing n with
  | zero => simp [leW, rdLe, Nat.mod_one]
  | succ k ih =>
    simp only [leW, rdLe, ih, BitVec.toNat_ofNat]
    have e : (256 : Nat) ^ (k + 1) = 256 * 256 ^ k := by rw [Nat.pow_succ, Nat.mul_comm]
    rw [e, Nat.mod_mul]

theorem leW_rdLe (bs : Bytes) : leW bs.length (rdLe bs) = bs := by
  induction bs with
  | nil => rfl
  | cons b r ih =>
    simp only [List.length_cons, leW, rdLe]
    have h1 : (BitVec.ofNat 8 (b.toNat + 256 * rdLe r) : Byte) = b := by
      apply BitVec.eq_of_toNat_eq; simp only [BitVec.toNat_ofNat]; omega
    have h2 : (b.toNat + 256 * rdLe r) / 256 = rdLe r := by omega
    rw [h1, h2, ih]

/-- well-formed ZBSDIFF container value -/
structure ZWf (z : ZFile) : Prop where
  clen : z.csize = z.control.length
  dlen : z.dsize = z.diff.length
  cmax : z.csize ≤ zMax
  dmax : z.dsize ≤ zMax
  omax : z.osize ≤ zMax
  sum : z.csize + z.dsize ≤ zMax

theorem zmax_lt : zMax < 256 ^ 8 := by decide

theorem parseZFile_ser (z : ZFile) (h : ZWf z) : parseZFile (serZFile z) = some z := by
  obtain ⟨cs, ds, os, control, diff, extra⟩ := z
  obtain ⟨h1, h2, h3, h4, h5, h6⟩ := h
  simp only at h1 h2 h3 h4 h5 h6
  have m8 : ∀ n, n ≤ zMax → n % 256 ^ 8 = n := fun n hn => Nat.mod_eq_of_lt (Nat.lt_of_le_of_lt hn zmax_lt)
  unfold parseZFile serZFile
  simp only [List.append_assoc]
  rw [readN_append 8 _ _ rfl]
  simp only
  rw [readN_append 8 _ _ (leW_length _ _)]
  simp only
  rw [readN_append 8 _ _ (leW_length _ _)]
  simp only
  rw [readN_append 8 _ _ (leW_length _ _)]
  simp only [rdLe_leW, m8 _ h3, m8 _ h4, m8 _ h5]
  rw [if_neg (by simp), if_neg (by omega)]
  rw [readN_append _ _ _ h1.symm]
  simp only
  rw [readN_append _ _ _ h2.symm]

/-- every accepted input is exactly the serialisation of its parse (byte identity), and the parse
is well formed -/
theorem parseZFile_inv {bs : Bytes} {z : ZFile} (h : parseZFile bs = some z) :
    ZWf z ∧ serZFile z = bs := by
  unfold parseZFile at h
  cases h0 : readN 8 bs with
  | none => simp [h0] at h
  | some q0 =>
    obtain ⟨sig, r0⟩ := q0
    simp only [h0] at h
    cases h1 : readN 8 r0 with
    | none => simp [h1] at h
    | some q1 =>
      obtain ⟨c, r1⟩ := q1
      simp only [h1] at h
      cases h2 : readN 8 r1 with
      | none => simp [h2] at h
      | some q2 =>
        obtain ⟨d, r2⟩ := q2
        simp only [h2] at h
        cases h3 : readN 8 r2 with
        | none => simp [h3] at h
        | some q3 =>
          obtain ⟨o, r3⟩ := q3
          simp only [h3] at h
          by_cases hs : sig ≠ zMagic
          · rw [if_pos hs] at h; cases h
          · rw [if_neg hs] at h
            by_cases hg : rdLe c > zMax ∨ rdLe d > zMax ∨ rdLe o > zMax ∨ rdLe c + rdLe d > zMax
            · rw [if_pos hg] at h; cases h
            · rw [if_neg hg] at h
              cases h4 : readN (rdLe c) r3 with
              | none => simp [h4] at h
              | some q4 =>
                obtain ⟨control, r4⟩ := q4
                simp only [h4] at h
                cases h5 : readN (rdLe d) r4 with
                | none => simp [h5] at h
                | some q5 =>
                  obtain ⟨diff, extra⟩ := q5
                  simp only [h5, Option.some.injEq] at h
                  subst h
                  obtain ⟨e0, l0⟩ := readN_inv h0
                  obtain ⟨e1, l1⟩ := readN_inv h1
                  obtain ⟨e2, l2⟩ := readN_inv h2
                  obtain ⟨e3, l3⟩ := readN_inv h3
                  obtain ⟨e4, l4⟩ := readN_inv h4
                  obtain ⟨e5, l5⟩ := readN_inv h5
                  have hs' : sig = zMagic := by
                    by_cases x : sig = zMagic
                    · exact x
                    · exact absurd x hs
                  refine ⟨⟨l4.symm, l5.symm, ?_, ?_, ?_, ?_⟩, ?_⟩ <;> try (simp only; omega)
                  have w1 := leW_rdLe c
                  have w2 := leW_rdLe d
                  have w3 := leW_rdLe o
                  rw [l1] at w1; rw [l2] at w2; rw [l3] at w3
                  simp only [serZFile, w1, w2, w3]
                  rw [e0, e1, e2, e3, e4, e5, hs']
                  simp


end Cascette.Proofs.Serial
