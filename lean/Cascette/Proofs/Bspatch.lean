/-
Proofs/Bspatch — lemmas for C16: both patcher models compute the block-level bspatch of
Spec/Bspatch; one control triple reconstructs one stretch of `new` (`emit_step`); the three
builders are sequences of such triples ending at |new|.
-/
import Cascette.Model.Bspatch
namespace Cascette.Proofs.Bspatch
open Cascette
open Cascette.Spec.Bspatch
open Cascette.Model.Bspatch

/-! ### byte-list facts -/

theorem padTake_length (n : Nat) (l : Bytes) : (padTake n l).length = n := by
  induction n generalizing l with
  | zero => rfl
  | succ n ih => cases l <;> simp [padTake, ih]

theorem padTake_eq_take (n : Nat) (l : Bytes) (h : n ≤ l.length) : padTake n l = l.take n := by
  induction n generalizing l with
  | zero => simp [padTake]
  | succ n ih =>
    cases l with
    | nil => simp at h
    | cons x xs => simp only [padTake, List.take_succ_cons, ih xs (by simpa using h)]

theorem padTake_add (a b : Nat) (l : Bytes) : padTake (a + b) l = padTake a l ++ padTake b (l.drop a) := by
  induction a generalizing l with
  | zero => simp [padTake]
  | succ a ih =>
    have : a + 1 + b = (a + b) + 1 := by omega
    rw [this]
    cases l with
    | nil => simp only [padTake, List.drop_nil, List.cons_append]; rw [ih []]; simp
    | cons x xs => simp only [padTake, List.drop_succ_cons, List.cons_append, ih xs]

theorem addBytes_length (a b : Bytes) : (addBytes a b).length = min a.length b.length := by
  simp [addBytes]

theorem subBytes_length (a b : Bytes) : (subBytes a b).length = min a.length b.length := by
  simp [subBytes]

theorem addBytes_subBytes (a b : Bytes) (h : a.length = b.length) : addBytes a (subBytes b a) = b := by
  induction a generalizing b with
  | nil => cases b <;> simp_all [addBytes, subBytes]
  | cons x xs ih =>
    cases b with
    | nil => simp at h
    | cons y ys =>
      simp only [addBytes, subBytes, List.zipWith_cons_cons, List.cons.injEq]
      refine ⟨by bv_omega, ?_⟩
      exact ih ys (by simpa using h)

theorem addBytes_append (a1 a2 b1 b2 : Bytes) (h : a1.length = b1.length) :
    addBytes (a1 ++ a2) (b1 ++ b2) = addBytes a1 b1 ++ addBytes a2 b2 := by
  unfold addBytes
  exact List.zipWith_append h

/-! ### the memory patcher's byte loops = block operations -/

theorem memDiffLoop_eq (n : Nat) (o d : Bytes) :
    memDiffLoop n o d =
      if d.length < n then none else some (addBytes (padTake n o) (d.take n), d.drop n) := by
  induction n generalizing o d with
  | zero => simp [memDiffLoop, padTake, addBytes]
  | succ n ih =>
    cases d with
    | nil => simp [memDiffLoop]
    | cons x d =>
      simp only [memDiffLoop, ih, List.length_cons, Nat.add_lt_add_iff_right]
      by_cases h : d.length < n
      · simp [h]
      · cases o <;> simp [h, padTake, addBytes]

theorem memExtraLoop_eq (n : Nat) (e : Bytes) :
    memExtraLoop n e = if e.length < n then none else some (e.take n, e.drop n) := by
  induction n generalizing e with
  | zero => simp [memExtraLoop]
  | succ n ih =>
    cases e with
    | nil => simp [memExtraLoop]
    | cons x e =>
      simp only [memExtraLoop, ih, List.length_cons, Nat.add_lt_add_iff_right]
      by_cases h : e.length < n <;> simp [h]

theorem seekStep_eq (p : Nat) (s : Int) : seekStep p s = seekPos p s := by
  unfold seekStep seekPos
  by_cases h0 : s = 0
  · subst h0; simp
  · by_cases hn : s < 0
    · have : s ≤ 0 := by omega
      simp [h0, hn, this]
    · have : ¬ s ≤ 0 := by omega
      simp [h0, hn, this]

theorem memEntries_eq_spec (old : Bytes) (cs : List Ctl) (p : Nat) (d e : Bytes) :
    memEntries old cs p d e = applyFrom old cs p d e := by
  induction cs generalizing p d e with
  | nil => rfl
  | cons c cs ih =>
    simp only [memEntries, applyFrom, memDiffLoop_eq, memExtraLoop_eq, seekStep_eq]
    by_cases h1 : d.length < c.diff
    · simp [h1]
    · by_cases h2 : e.length < c.extra
      · simp [h1, h2]
      · simp only [h1, h2, or_self, if_false, ih]
        rfl

/-! ### the streaming patcher's chunk loops = block operations -/

theorem streamDiff_eq (buf : Nat) (hb : 1 ≤ buf) (old : Bytes) (f rem p : Nat) (d : Bytes) (hf : rem ≤ f) :
    streamDiff buf old f rem p d =
      if d.length < rem then none else some (addBytes (padTake rem (old.drop p)) (d.take rem), d.drop rem) := by
  induction f generalizing rem p d with
  | zero =>
    have : rem = 0 := by omega
    subst this
    simp [streamDiff, padTake, addBytes]
  | succ f ih =>
    unfold streamDiff
    by_cases h0 : rem = 0
    · subst h0; simp [padTake, addBytes]
    · simp only [h0, if_false]
      have hc1 : 1 ≤ min rem buf := by omega
      have hc2 : min rem buf ≤ rem := by omega
      generalize hc : min rem buf = c at hc1 hc2
      by_cases hs : d.length < c
      · have : d.length < rem := by omega
        simp [hs, this]
      · simp only [hs, if_false]
        rw [ih (rem - c) (p + c) (d.drop c) (by omega)]
        simp only [List.length_drop]
        by_cases hr : d.length < rem
        · have : d.length - c < rem - c := by omega
          simp [hr, this]
        · have : ¬ d.length - c < rem - c := by omega
          simp only [hr, this, if_false, Option.some.injEq, Prod.mk.injEq]
          have hrem : rem = c + (rem - c) := by omega
          refine ⟨?_, ?_⟩
          · conv => rhs; rw [hrem, padTake_add, ← List.take_append_drop c (d.take (c + (rem - c)))]
            rw [addBytes_append]
            · congr 2
              · rw [List.take_take]; congr 1; omega
              · rw [List.drop_drop]
              · rw [List.drop_take]; congr 1; omega
            · rw [padTake_length, List.length_take, List.length_take]; omega
          · rw [List.drop_drop]; congr 1; omega

theorem streamExtra_eq (buf : Nat) (hb : 1 ≤ buf) (f rem : Nat) (e : Bytes) (hf : rem ≤ f) :
    streamExtra buf f rem e = if e.length < rem then none else some (e.take rem, e.drop rem) := by
  induction f generalizing rem e with
  | zero =>
    have : rem = 0 := by omega
    subst this
    simp [streamExtra]
  | succ f ih =>
    unfold streamExtra
    by_cases h0 : rem = 0
    · subst h0; simp
    · simp only [h0, if_false]
      have hc1 : 1 ≤ min rem buf := by omega
      have hc2 : min rem buf ≤ rem := by omega
      generalize hc : min rem buf = c at hc1 hc2
      by_cases hs : e.length < c
      · have : e.length < rem := by omega
        simp [hs, this]
      · simp only [hs, if_false]
        rw [ih (rem - c) (e.drop c) (by omega)]
        simp only [List.length_drop]
        by_cases hr : e.length < rem
        · have : e.length - c < rem - c := by omega
          simp [hr, this]
        · have : ¬ e.length - c < rem - c := by omega
          simp only [hr, this, if_false, Option.some.injEq, Prod.mk.injEq]
          refine ⟨?_, ?_⟩
          · have hrem : rem = c + (rem - c) := by omega
            conv => rhs; rw [hrem, List.take_add]
          · rw [List.drop_drop]; congr 1; omega

theorem streamEntries_eq_spec (buf : Nat) (hb : 1 ≤ buf) (old : Bytes) (cs : List Ctl) (p : Nat) (d e : Bytes) :
    streamEntries buf old cs p d e = applyFrom old cs p d e := by
  induction cs generalizing p d e with
  | nil => rfl
  | cons c cs ih =>
    simp only [streamEntries, applyFrom, streamDiff_eq buf hb old c.diff c.diff p d (Nat.le_refl _),
      streamExtra_eq buf hb c.extra c.extra e (Nat.le_refl _), seekStep_eq]
    by_cases h1 : d.length < c.diff
    · simp [h1]
    · by_cases h2 : e.length < c.extra
      · simp [h1, h2]
      · simp only [h1, h2, or_self, if_false, ih]
        rfl

theorem clampBuf_pos (b : Nat) : 1 ≤ clampBuf b := by unfold clampBuf; omega

/-! ### one control triple -/

/-- a triple whose diff / extra bytes sit at the front of the blocks. -/
theorem applyFrom_cons_append (old : Bytes) (c : Ctl) (cs : List Ctl) (p : Nat) (D1 D2 E1 E2 : Bytes)
    (hd : D1.length = c.diff) (he : E1.length = c.extra) :
    applyFrom old (c :: cs) p (D1 ++ D2) (E1 ++ E2) =
      (applyFrom old cs (seekPos (p + c.diff) c.seek) D2 E2).map
        (fun rest => addBytes (padTake c.diff (old.drop p)) D1 ++ (E1 ++ rest)) := by
  simp only [applyFrom, List.length_append]
  have h1 : ¬ (D1.length + D2.length < c.diff ∨ E1.length + E2.length < c.extra) := by omega
  simp only [h1, if_false]
  rw [← hd, ← he, List.drop_left, List.drop_left, List.take_left, List.take_left]
  cases applyFrom old cs (seekPos (p + D1.length) c.seek) D2 E2 <;> rfl

/-- target position of a relative seek computed as `lp' − (lp + lenf)`. -/
theorem seekPos_rel (a b : Nat) (hb : b ≤ usizeMax) : seekPos a ((b : Int) - (a : Int)) = b := by
  unfold seekPos
  by_cases h : (b : Int) - (a : Int) ≤ 0
  · simp only [h, if_true]; omega
  · simp only [h, if_false]; omega

/-- `emit_step` (DESIGN App. A.3): with the reconstruction at `new[0..ls)` and the old position at
`lp`, the triple `(lenf, ext, lp' − (lp+lenf))` whose diff bytes are `new[ls+i] − old[lp+i]` and
whose extra bytes are `new[ls+lenf .. ls+lenf+ext)` produces exactly `new[ls .. ls+lenf+ext)` and
leaves the old position at `lp'` — under the three bounds. -/
theorem emit_step (old new : Bytes) (cs : List Ctl) (ls lp lenf ext lp' : Nat) (D E : Bytes)
    (h1 : ls + lenf + ext ≤ new.length) (h2 : lp + lenf ≤ old.length) (h3 : lp' ≤ usizeMax) :
    applyFrom old (⟨lenf, ext, (lp' : Int) - ((lp : Int) + (lenf : Int))⟩ :: cs) lp
        (subBytes ((new.drop ls).take lenf) ((old.drop lp).take lenf) ++ D)
        ((new.drop (ls + lenf)).take ext ++ E) =
      (applyFrom old cs lp' D E).map (fun rest => (new.drop ls).take (lenf + ext) ++ rest) := by
  have hl1 : ((new.drop ls).take lenf).length = lenf := by
    rw [List.length_take, List.length_drop]; omega
  have hl2 : ((old.drop lp).take lenf).length = lenf := by
    rw [List.length_take, List.length_drop]; omega
  rw [applyFrom_cons_append]
  · have hs : seekPos (lp + lenf) ((lp' : Int) - ((lp : Int) + (lenf : Int))) = lp' := by
      have := seekPos_rel (lp + lenf) lp' h3
      simpa [Int.natCast_add] using this
    simp only [hs]
    rw [padTake_eq_take _ _ (by rw [List.length_drop]; omega)]
    rw [addBytes_subBytes _ _ (by rw [hl1, hl2])]
    congr 1
    funext rest
    rw [← List.append_assoc]
    congr 1
    rw [List.take_add, List.drop_drop]
  · show (subBytes _ _).length = lenf
    simp only [subBytes_length, hl1, hl2]; omega
  · show ((new.drop (ls + lenf)).take ext).length = ext
    rw [List.length_take, List.length_drop]; omega

/-! ### builders -/

theorem assemble_ok (b : Blocks) (n : Nat) (p : Patch) (h : assemble b n = .ok p) :
    p.ctl = b.ctl ∧ p.diff = b.diff ∧ p.extra = b.extra ∧ p.outSize = n ∧ b.ctl ≠ [] ∧ n ≤ maxSize ∧
      ∀ c ∈ b.ctl, c.diff ≤ maxOp ∧ c.extra ≤ maxOp := by
  unfold assemble at h
  split at h
  · cases h
  · rename_i hne
    split at h
    · cases h
    · rename_i hany
      split at h
      · cases h
      · rename_i hsz
        simp only [Except.ok.injEq] at h
        subst h
        refine ⟨rfl, rfl, rfl, rfl, hne, by omega, ?_⟩
        intro c hc
        simp only [List.any_eq_true, decide_eq_true_eq, not_exists, not_and] at hany
        have := hany c hc
        omega

theorem simple_blocks (old new : Bytes) : applyFrom old [⟨0, new.length, 0⟩] 0 [] new = some new := by
  simp [applyFrom, padTake, addBytes]

theorem seekPos_zero (p : Nat) : seekPos p 0 = p := by simp [seekPos]

theorem matchLen_le (c : Nat) (o n : Bytes) : matchLen c o n ≤ n.length ∧ matchLen c o n ≤ o.length ∧ matchLen c o n ≤ c := by
  induction c generalizing o n with
  | zero => simp [matchLen]
  | succ c ih =>
    cases o with
    | nil => simp [matchLen]
    | cons x xs =>
      cases n with
      | nil => simp [matchLen]
      | cons y ys =>
        simp only [matchLen, List.length_cons]
        have := ih xs ys
        split <;> omega

/-- the chunked loop (with seek 0 for extra-only entries) is a sequence of emits that rebuilds
the rest of `new` from old position `p`. -/
theorem chunkedLoop_correct (old : Bytes) (maxBlk xcap : Nat) (hx : 1 ≤ xcap) (f p : Nat) (o n : Bytes)
    (hf : n.length ≤ f) (ho : o = old.drop p) :
    applyFrom old (chunkedLoop maxBlk xcap (fun _ => 0) f p o n).ctl p
      (chunkedLoop maxBlk xcap (fun _ => 0) f p o n).diff
      (chunkedLoop maxBlk xcap (fun _ => 0) f p o n).extra = some n := by
  induction f generalizing p o n with
  | zero =>
    have : n = [] := by cases n <;> simp_all
    subst this
    simp [chunkedLoop, applyFrom]
  | succ f ih =>
    unfold chunkedLoop
    by_cases hn : n = []
    · subst hn; simp [applyFrom]
    · simp only [hn, if_false]
      have hk := matchLen_le maxBlk o n
      generalize matchLen maxBlk o n = k at hk
      have hnl : 1 ≤ n.length := by cases n <;> simp_all
      by_cases h4 : k ≥ 4
      · simp only [h4, if_true]
        have hrec := ih (p + k) (o.drop k) (n.drop k) (by rw [List.length_drop]; omega)
          (by rw [ho, List.drop_drop])
        generalize chunkedLoop maxBlk xcap (fun _ => 0) f (p + k) (o.drop k) (n.drop k) = r at hrec
        have hlen : (subBytes (n.take k) (padTake k o)).length = k := by
          rw [subBytes_length, padTake_length, List.length_take]; omega
        have := applyFrom_cons_append old ⟨k, 0, 0⟩ r.ctl p (subBytes (n.take k) (padTake k o)) r.diff [] r.extra hlen rfl
        simp only [List.nil_append] at this
        rw [this]
        show Option.map _ (applyFrom old r.ctl (seekPos (p + k) 0) r.diff r.extra) = _
        rw [seekPos_zero, hrec]
        simp only [Option.map_some, Option.some.injEq]
        rw [← ho, addBytes_subBytes _ _ (by rw [padTake_length, List.length_take]; omega)]
        exact List.take_append_drop k n
      · simp only [h4, if_false]
        have he1 : 1 ≤ min n.length xcap := by omega
        generalize hE : min n.length xcap = e at he1
        have hrec := ih p o (n.drop e) (by rw [List.length_drop]; omega) ho
        generalize chunkedLoop maxBlk xcap (fun _ => 0) f p o (n.drop e) = r at hrec
        have hlen : (n.take e).length = e := by rw [List.length_take]; omega
        have := applyFrom_cons_append old ⟨0, e, 0⟩ r.ctl p [] r.diff (n.take e) r.extra rfl hlen
        simp only [List.nil_append] at this
        rw [this]
        show Option.map _ (applyFrom old r.ctl (seekPos (p + 0) 0) r.diff r.extra) = _
        rw [seekPos_zero, Nat.add_zero, hrec]
        simp only [Option.map_some, Option.some.injEq]
        show addBytes (padTake 0 _) [] ++ _ = _
        simp [padTake, addBytes]

/-! ### suffix.rs: `compute_diff` with any in-bounds match finder -/

/-- the in-bounds law of `search` (DESIGN App. A.3): the reported match lies inside `old`, and is
no longer than what is left of `new`. Nothing else about `search` is needed for correctness —
not even that the reported bytes match. -/
def SearchLaw (cx : Cx) : Prop :=
  ∀ scan, scan < cx.nsz →
    (cx.search scan).1 + (cx.search scan).2 ≤ cx.osz ∧ scan + (cx.search scan).2 ≤ cx.nsz

/-- the arrays are the lists; `old` fits a `usize`. -/
def WfCx (cx : Cx) : Prop :=
  cx.oa.size = cx.old.length ∧ cx.na.size = cx.new.length ∧ cx.old.length ≤ usizeMax

theorem scanLoop_spec (cx : Cx) (law : SearchLaw cx) (lo : Int) (f : Nat) (s : ScanSt)
    (h1 : s.scan ≤ cx.nsz) (h2 : s.pos ≤ cx.osz) (hf : cx.nsz - s.scan ≤ f) :
    s.scan ≤ (scanLoop cx lo f s).scan ∧ (scanLoop cx lo f s).scan ≤ cx.nsz ∧
    (scanLoop cx lo f s).pos ≤ cx.osz ∧
    ((scanLoop cx lo f s).scan = cx.nsz ∨
      (1 ≤ (scanLoop cx lo f s).len ∧ (scanLoop cx lo f s).scan + (scanLoop cx lo f s).len ≤ cx.nsz)) := by
  induction f generalizing s with
  | zero =>
    simp only [scanLoop]
    refine ⟨Nat.le_refl _, h1, h2, Or.inl (by omega)⟩
  | succ f ih =>
    unfold scanLoop
    by_cases hlt : s.scan < cx.nsz
    · simp only [hlt, if_true]
      have hl := law s.scan hlt
      generalize cx.search s.scan = r at hl
      obtain ⟨pos, len⟩ := r
      simp only at hl ⊢
      generalize s.oldscore + countDrift cx lo (s.scan + len - s.scsc) s.scsc = osc
      have hm : 0 ≤ (osc + 8) % two64 := Nat.zero_le _
      generalize (osc + 8) % two64 = m at hm
      by_cases hb : (len = osc ∧ len ≠ 0) ∨ len > m
      · simp only [hb, if_true]
        refine ⟨Nat.le_refl _, by omega, by omega, Or.inr ⟨by omega, by omega⟩⟩
      · simp only [hb, if_false]
        have := ih { scan := s.scan + 1, scsc := s.scsc + (s.scan + len - s.scsc), pos := pos, len := len,
                      oldscore := if driftMatch cx lo s.scan then (osc + (two64 - 1)) % two64 else osc }
          (by simp only; omega) (by simp only; omega) (by simp only; omega)
        simp only at this
        refine ⟨by omega, this.2.1, this.2.2.1, this.2.2.2⟩
    · simp only [hlt, if_false]
      refine ⟨Nat.le_refl _, h1, h2, Or.inl (by omega)⟩

theorem fwdLoop_bound (cx : Cx) (lastscan lastpos scan f i s sf lenf : Nat)
    (h1 : lenf ≤ scan - lastscan) (h2 : lenf ≤ cx.osz - lastpos) :
    fwdLoop cx lastscan lastpos scan f i s sf lenf ≤ scan - lastscan ∧
    fwdLoop cx lastscan lastpos scan f i s sf lenf ≤ cx.osz - lastpos := by
  induction f generalizing i s sf lenf with
  | zero => exact ⟨h1, h2⟩
  | succ f ih =>
    unfold fwdLoop
    by_cases hc : lastscan + i < scan ∧ lastpos + i < cx.osz
    · simp only [hc, and_self, if_true]
      split <;> split <;> first | exact ih _ _ _ _ h1 h2 | exact ih _ _ _ _ (by omega) (by omega)
    · simp only [hc, if_false]
      exact ⟨h1, h2⟩

theorem bwdLoop_bound (cx : Cx) (lastscan scan pos f i s sb lenb : Nat)
    (h1 : lenb ≤ scan - lastscan) (h2 : lenb ≤ pos) :
    bwdLoop cx lastscan scan pos f i s sb lenb ≤ scan - lastscan ∧
    bwdLoop cx lastscan scan pos f i s sb lenb ≤ pos := by
  induction f generalizing i s sb lenb with
  | zero => exact ⟨h1, h2⟩
  | succ f ih =>
    unfold bwdLoop
    by_cases hc : scan ≥ lastscan + i ∧ pos ≥ i
    · simp only [hc, and_self, if_true]
      split <;> split <;> first | exact ih _ _ _ _ h1 h2 | exact ih _ _ _ _ (by omega) (by omega)
    · simp only [hc, if_false]
      exact ⟨h1, h2⟩

theorem ovLoop_bound (cx : Cx) (a b c d n i : Nat) (s ss : Int) (lens : Nat) (h : lens ≤ i) :
    ovLoop cx a b c d n i s ss lens ≤ i + n := by
  induction n generalizing i s ss lens with
  | zero => simpa [ovLoop] using h
  | succ n ih =>
    unfold ovLoop
    simp only
    repeat' split
    all_goals first
      | exact Nat.le_trans (ih _ _ _ _ (Nat.le_refl _)) (by omega)
      | exact Nat.le_trans (ih _ _ _ _ (by omega)) (by omega)

/-- what forward extension, backward extension and overlap resolution guarantee. -/
theorem extents_spec (cx : Cx) (lastscan lastpos scan pos : Nat) (h1 : lastscan ≤ scan)
    (h2 : lastpos ≤ cx.osz) :
    lastscan + (extents cx lastscan lastpos scan pos).1 ≤ scan - (extents cx lastscan lastpos scan pos).2 ∧
    lastpos + (extents cx lastscan lastpos scan pos).1 ≤ cx.osz ∧
    (extents cx lastscan lastpos scan pos).2 ≤ pos ∧
    (extents cx lastscan lastpos scan pos).2 ≤ scan - lastscan ∧
    (¬ scan < cx.nsz → (extents cx lastscan lastpos scan pos).2 = 0) := by
  unfold extents
  have hf := fwdLoop_bound cx lastscan lastpos scan (scan - lastscan) 0 0 0 0 (Nat.zero_le _) (Nat.zero_le _)
  generalize fwdLoop cx lastscan lastpos scan (scan - lastscan) 0 0 0 0 = lenf0 at hf
  have hb : (if scan < cx.nsz then bwdLoop cx lastscan scan pos (scan - lastscan) 1 0 0 0 else 0) ≤ scan - lastscan ∧
      (if scan < cx.nsz then bwdLoop cx lastscan scan pos (scan - lastscan) 1 0 0 0 else 0) ≤ pos ∧
      (¬ scan < cx.nsz → (if scan < cx.nsz then bwdLoop cx lastscan scan pos (scan - lastscan) 1 0 0 0 else 0) = 0) := by
    split
    · have := bwdLoop_bound cx lastscan scan pos (scan - lastscan) 1 0 0 0 (Nat.zero_le _) (Nat.zero_le _)
      exact ⟨this.1, this.2, fun h => absurd ‹scan < cx.nsz› h⟩
    · exact ⟨Nat.zero_le _, Nat.zero_le _, fun _ => rfl⟩
  generalize (if scan < cx.nsz then bwdLoop cx lastscan scan pos (scan - lastscan) 1 0 0 0 else 0) = lenb0 at hb
  simp only
  by_cases hov : lastscan + lenf0 > scan - lenb0
  · simp only [hov, if_true]
    have hl := ovLoop_bound cx (lastscan + lenf0 - (lastscan + lenf0 - (scan - lenb0)))
      (lastpos + lenf0 - (lastscan + lenf0 - (scan - lenb0))) (scan - lenb0) (pos - lenb0)
      (lastscan + lenf0 - (scan - lenb0)) 0 0 0 0 (Nat.le_refl _)
    generalize ovLoop cx _ _ _ _ (lastscan + lenf0 - (scan - lenb0)) 0 0 0 0 = lens at hl
    refine ⟨by omega, by omega, by omega, by omega, fun h => by have := hb.2.2 h; omega⟩
  · simp only [hov, if_false]
    refine ⟨by omega, by omega, by omega, by omega, hb.2.2⟩

/-- loop invariant of the outer `while scan < new_size` (DESIGN App. A.3). -/
structure Inv (cx : Cx) (s : OutSt) : Prop where
  h1 : s.lastscan ≤ s.scan
  h2 : s.scan ≤ cx.nsz
  h3 : s.scan < cx.nsz → s.scan + s.len ≤ cx.nsz
  h4 : s.lastpos ≤ cx.osz
  h5 : s.pos ≤ cx.osz
  h6 : s.scan = cx.nsz → s.lastscan = cx.nsz

/-- progress measure of the outer loop: every round ends with `scan` larger, or with the same
`scan` and a pending non-zero `len` that the next round adds. -/
def measure (cx : Cx) (s : OutSt) : Nat := 2 * (cx.nsz - s.scan) + (if s.len = 0 then 1 else 0)

theorem outer_correct (cx : Cx) (wf : WfCx cx) (law : SearchLaw cx) (f : Nat) (s : OutSt)
    (inv : Inv cx s) (hf : measure cx s < f) :
    applyFrom cx.old (outer cx f s).ctl s.lastpos (outer cx f s).diff (outer cx f s).extra =
      some (cx.new.drop s.lastscan) := by
  induction f generalizing s with
  | zero => omega
  | succ f ih =>
    obtain ⟨wo, wn, wu⟩ := wf
    have wo : cx.osz = cx.old.length := wo
    have wn : cx.nsz = cx.new.length := wn
    unfold outer
    by_cases hlt : s.scan < cx.nsz
    · simp only [hlt, if_true]
      have h3 := inv.h3 hlt
      have hs := scanLoop_spec cx law s.lastoffset (cx.nsz - (s.scan + s.len))
        { scan := s.scan + s.len, scsc := s.scan + s.len, pos := s.pos, len := s.len, oldscore := 0 }
        h3 inv.h5 (Nat.le_refl _)
      generalize scanLoop cx s.lastoffset (cx.nsz - (s.scan + s.len))
        { scan := s.scan + s.len, scsc := s.scan + s.len, pos := s.pos, len := s.len, oldscore := 0 } = r at hs
      simp only at hs
      obtain ⟨hs1, hs2, hs3, hs4⟩ := hs
      have i1 := inv.h1
      -- the measure decreases whatever branch is taken
      have hmeas : ∀ s' : OutSt, s'.scan = r.scan → s'.len = r.len → measure cx s' < f := by
        intro s' e1 e2
        unfold measure at hf ⊢
        rw [e1, e2]
        by_cases hl0 : s.len = 0
        · simp only [hl0, if_true] at hf
          by_cases hr0 : r.len = 0
          · simp only [hr0, if_true]; omega
          · simp only [hr0, if_false]; omega
        · simp only [hl0, if_false] at hf
          split <;> omega
      by_cases hem : r.len ≠ r.oldscore ∨ r.scan = cx.nsz
      · simp only [hem, if_true]
        have he := extents_spec cx s.lastscan s.lastpos r.scan r.pos (by omega) inv.h4
        generalize extents cx s.lastscan s.lastpos r.scan r.pos = fb at he
        obtain ⟨lenf, lenb⟩ := fb
        simp only at he ⊢
        obtain ⟨e1, e2, e3, e4, e5⟩ := he
        have hrec := ih
          { scan := r.scan, len := r.len, pos := r.pos, lastscan := r.scan - lenb, lastpos := r.pos - lenb,
            lastoffset := (r.pos : Int) - (r.scan : Int) }
          ⟨by simp only; omega, by simp only; omega, by simp only; omega, by simp only; omega,
            by simp only; omega, by simp only; intro h; have := e5 (by omega); omega⟩
          (hmeas _ rfl rfl)
        generalize outer cx f
          { scan := r.scan, len := r.len, pos := r.pos, lastscan := r.scan - lenb, lastpos := r.pos - lenb,
            lastoffset := (r.pos : Int) - (r.scan : Int) } = rest at hrec
        simp only at hrec
        have hseek : ((r.pos : Int) - (lenb : Int)) - ((s.lastpos : Int) + (lenf : Int)) =
            ((r.pos - lenb : Nat) : Int) - ((s.lastpos : Int) + (lenf : Int)) := by omega
        rw [hseek]
        rw [wo] at e2
        rw [wn] at hs2
        have hsum : r.scan - lenb = s.lastscan + (lenf + (r.scan - lenb - (s.lastscan + lenf))) := by omega
        generalize r.scan - lenb - (s.lastscan + lenf) = ext at hsum ⊢
        rw [emit_step cx.old cx.new rest.ctl s.lastscan s.lastpos lenf ext
          (r.pos - lenb) rest.diff rest.extra (by omega) e2 (by omega)]
        rw [hrec]
        simp only [Option.map_some, Option.some.injEq]
        rw [hsum, ← List.drop_drop]
        exact List.take_append_drop _ _
      · simp only [hem, if_false]
        have hne : r.scan ≠ cx.nsz := fun h => hem (Or.inr h)
        have hrec := ih { s with scan := r.scan, len := r.len, pos := r.pos }
          ⟨by simp only; omega, by simp only; omega, by simp only; omega, inv.h4, by simp only; omega,
            by simp only; intro h; exact absurd h hne⟩
          (hmeas _ rfl rfl)
        exact hrec
    · simp only [hlt, if_false, applyFrom]
      have : s.lastscan = cx.nsz := inv.h6 (by have := inv.h2; omega)
      rw [this, wn, List.drop_length]

theorem computeDiff_correct (cx : Cx) (wf : WfCx cx) (law : SearchLaw cx) :
    applyFrom cx.old (computeDiff cx).ctl 0 (computeDiff cx).diff (computeDiff cx).extra = some cx.new := by
  have := outer_correct cx wf law (2 * cx.nsz + 2) initSt
    ⟨Nat.le_refl _, Nat.zero_le _, fun _ => Nat.zero_le _, Nat.zero_le _, Nat.zero_le _, fun h => h⟩
    (by simp [measure, initSt] <;> omega)
  simpa [computeDiff, initSt] using this

/-! ### the real match finder obeys the law -/

theorem matchLenAt_bound (oa na : Array Byte) (f p q : Nat) (hp : p ≤ oa.size) (hq : q ≤ na.size) :
    p + matchLenAt oa na f p q ≤ oa.size ∧ q + matchLenAt oa na f p q ≤ na.size := by
  induction f generalizing p q with
  | zero => simp [matchLenAt, hp, hq]
  | succ f ih =>
    unfold matchLenAt
    split
    · rename_i h
      have := ih (p + 1) (q + 1) (by omega) (by omega)
      omega
    · simp [hp, hq]

theorem searchSA_law (sa : Array Nat) (oa na : Array Byte) (hsa : ∀ i, sa.getD i 0 ≤ oa.size)
    (scan : Nat) (hs : scan < na.size) :
    (searchSA sa oa na scan).1 + (searchSA sa oa na scan).2 ≤ oa.size ∧
    scan + (searchSA sa oa na scan).2 ≤ na.size := by
  unfold searchSA
  split
  · simp; omega
  · simp only
    split
    · exact matchLenAt_bound oa na _ _ scan (hsa _) (by omega)
    · exact matchLenAt_bound oa na _ _ scan (hsa _) (by omega)

theorem getD_le_of_mem (sa : Array Nat) (n : Nat) (h : ∀ x ∈ sa, x ≤ n) (i : Nat) : sa.getD i 0 ≤ n := by
  unfold Array.getD
  split
  · exact h _ (Array.getElem_mem _)
  · exact Nat.zero_le _

/-! ### control-block codec, entry bounds, bytes-level application -/

theorem offtout_length (v : Int) : (offtout v).length = 8 := by simp [offtout, natLe]

theorem offtin_offtout (v : Int) (h : v.natAbs < 2 ^ 63) : offtin (offtout v) = v := by
  unfold offtout
  simp only [natLe, List.cons_append, List.nil_append, offtin, leNat, BitVec.toNat_ofNat]
  generalize hm : v.natAbs = m at h
  by_cases hv : v < 0
  · simp only [hv, if_true]
    split <;> omega
  · simp only [hv, if_false]
    split <;> omega

/-- an entry the codec can carry: sizes within `ControlEntry::validate`, seek a sign-magnitude i64. -/
def ValidCtl (c : Ctl) : Prop := c.diff ≤ maxOp ∧ c.extra ≤ maxOp ∧ c.seek.natAbs < 2 ^ 63

theorem parseRecords_encode (cs : List Ctl) (h : ∀ c ∈ cs, ValidCtl c) :
    parseRecords (encodeCtl cs) = .ok cs := by
  induction cs with
  | nil => rw [parseRecords]; simp [encodeCtl]
  | cons c cs ih =>
    obtain ⟨hd, he, hs⟩ := h c (List.mem_cons_self ..)
    have ih := ih (fun c' hc' => h c' (List.mem_cons_of_mem _ hc'))
    rw [parseRecords]
    simp only [encodeCtl, List.append_assoc]
    have lA := offtout_length (c.diff : Int)
    have lB := offtout_length (c.extra : Int)
    have lC := offtout_length c.seek
    generalize hA : offtout (c.diff : Int) = A at lA
    generalize hB : offtout (c.extra : Int) = B at lB
    generalize hC : offtout c.seek = C at lC
    have t1 : (A ++ (B ++ (C ++ encodeCtl cs))).take 8 = A := List.take_left' lA
    have d1 : (A ++ (B ++ (C ++ encodeCtl cs))).drop 8 = B ++ (C ++ encodeCtl cs) := List.drop_left' lA
    have d2 : (A ++ (B ++ (C ++ encodeCtl cs))).drop 16 = C ++ encodeCtl cs := by
      rw [show (16 : Nat) = 8 + 8 from rfl, ← List.drop_drop, d1]; exact List.drop_left' lB
    have d3 : (A ++ (B ++ (C ++ encodeCtl cs))).drop 24 = encodeCtl cs := by
      rw [show (24 : Nat) = 16 + 8 from rfl, ← List.drop_drop, d2]; exact List.drop_left' lC
    have len : (A ++ (B ++ (C ++ encodeCtl cs))).length = 24 + (encodeCtl cs).length := by
      simp only [List.length_append, lA, lB, lC]; omega
    rw [len, t1, d1, d2, d3, List.take_left' lB, List.take_left' lC, ih, ← hA, ← hB, ← hC,
      offtin_offtout _ (by unfold maxOp at hd; omega), offtin_offtout _ (by unfold maxOp at he; omega),
      offtin_offtout _ hs]
    have g1 : ¬ (24 + (encodeCtl cs).length = 0) := by omega
    have g2 : ¬ (24 + (encodeCtl cs).length < 24) := by omega
    have g3 : ¬ ((c.diff : Int) < 0 ∨ (c.extra : Int) < 0 ∨ (c.diff : Int) > (maxOp : Nat) ∨ (c.extra : Int) > (maxOp : Nat)) := by omega
    simp only [g1, g2, g3, if_false, Int.toNat_natCast]

theorem parseCtl_encode (cs : List Ctl) (hne : cs ≠ []) (h : ∀ c ∈ cs, ValidCtl c) :
    parseCtl (encodeCtl cs) = .ok cs := by
  unfold parseCtl
  rw [parseRecords_encode cs h]
  cases cs with
  | nil => exact absurd rfl hne
  | cons c cs => rfl

theorem chunkedLoop_entries (maxBlk xcap f p : Nat) (o n : Bytes) :
    ∀ c ∈ (chunkedLoop maxBlk xcap (fun _ => 0) f p o n).ctl, c.seek = 0 ∧ c.diff ≤ maxBlk ∧ c.extra ≤ xcap := by
  induction f generalizing p o n with
  | zero => simp [chunkedLoop]
  | succ f ih =>
    unfold chunkedLoop
    by_cases hn : n = []
    · simp [hn]
    · simp only [hn, if_false]
      have hk := matchLen_le maxBlk o n
      generalize matchLen maxBlk o n = k at hk
      by_cases h4 : k ≥ 4
      · simp only [h4, if_true, List.mem_cons]
        rintro c (rfl | hc)
        · exact ⟨rfl, hk.2.2, Nat.zero_le _⟩
        · exact ih _ _ _ c hc
      · simp only [h4, if_false, List.mem_cons]
        rintro c (rfl | hc)
        · exact ⟨rfl, Nat.zero_le _, Nat.min_le_right _ _⟩
        · exact ih _ _ _ c hc

theorem chunkedLoop_nonempty (maxBlk xcap : Nat) (seekOf : Nat → Int) (f p : Nat) (o n : Bytes) (hn : n ≠ []) :
    (chunkedLoop maxBlk xcap seekOf (f + 1) p o n).ctl ≠ [] := by
  unfold chunkedLoop
  simp only [hn, if_false]
  split <;> simp

theorem outer_seek_bound (cx : Cx) (law : SearchLaw cx) (f : Nat) (s : OutSt) (inv : Inv cx s) :
    ∀ c ∈ (outer cx f s).ctl, c.seek.natAbs ≤ cx.osz := by
  induction f generalizing s with
  | zero => simp [outer]
  | succ f ih =>
    unfold outer
    by_cases hlt : s.scan < cx.nsz
    · simp only [hlt, if_true]
      have h3 := inv.h3 hlt
      have hs := scanLoop_spec cx law s.lastoffset (cx.nsz - (s.scan + s.len))
        { scan := s.scan + s.len, scsc := s.scan + s.len, pos := s.pos, len := s.len, oldscore := 0 }
        h3 inv.h5 (Nat.le_refl _)
      generalize scanLoop cx s.lastoffset (cx.nsz - (s.scan + s.len))
        { scan := s.scan + s.len, scsc := s.scan + s.len, pos := s.pos, len := s.len, oldscore := 0 } = r at hs
      simp only at hs
      obtain ⟨hs1, hs2, hs3, hs4⟩ := hs
      have i1 := inv.h1
      by_cases hem : r.len ≠ r.oldscore ∨ r.scan = cx.nsz
      · simp only [hem, if_true]
        have he := extents_spec cx s.lastscan s.lastpos r.scan r.pos (by omega) inv.h4
        generalize extents cx s.lastscan s.lastpos r.scan r.pos = fb at he
        obtain ⟨lenf, lenb⟩ := fb
        simp only at he ⊢
        obtain ⟨e1, e2, e3, e4, e5⟩ := he
        simp only [List.mem_cons]
        rintro c (rfl | hc)
        · simp only; omega
        · exact ih
            { scan := r.scan, len := r.len, pos := r.pos, lastscan := r.scan - lenb, lastpos := r.pos - lenb,
              lastoffset := (r.pos : Int) - (r.scan : Int) }
            ⟨by simp only; omega, by simp only; omega, by simp only; omega, by simp only; omega,
              by simp only; omega, by simp only; intro h; have := e5 (by omega); omega⟩ c hc
      · simp only [hem, if_false]
        have hne : r.scan ≠ cx.nsz := fun h => hem (Or.inr h)
        exact ih { s with scan := r.scan, len := r.len, pos := r.pos }
          ⟨by simp only; omega, by simp only; omega, by simp only; omega, inv.h4, by simp only; omega,
            by simp only; intro h; exact absurd h hne⟩
    · simp [hlt]

theorem computeDiff_seek_bound (cx : Cx) (law : SearchLaw cx) :
    ∀ c ∈ (computeDiff cx).ctl, c.seek.natAbs ≤ cx.osz :=
  outer_seek_bound cx law _ initSt
    ⟨Nat.le_refl _, Nat.zero_le _, fun _ => Nat.zero_le _, Nat.zero_le _, Nat.zero_le _, fun h => h⟩

/-- a patch whose entries the codec can carry is read back from its control BYTES unchanged,
so `apply_patch_memory` / `apply_patch_from_data` run the patcher on exactly its entries. -/
theorem applyBytes_encode (buf : Option Nat) (old : Bytes) (p : Patch) (hne : p.ctl ≠ [])
    (hsz : p.outSize ≤ maxSize) (hv : ∀ c ∈ p.ctl, ValidCtl c) :
    applyBytes buf old (encodeCtl p.ctl) p.diff p.extra p.outSize =
      match buf with
      | none => memApply old p.ctl p.diff p.extra p.outSize
      | some b => streamApply b old p.ctl p.diff p.extra p.outSize := by
  unfold applyBytes
  have : ¬ p.outSize > maxSize := by omega
  simp only [this, if_false, parseCtl_encode p.ctl hne hv]
  cases buf <;> rfl

end Cascette.Proofs.Bspatch
