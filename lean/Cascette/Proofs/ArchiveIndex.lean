/-
Proofs/ArchiveIndex — binary search over a strictly ascending record list = linear scan (archive
group lookups, and the in-block search of the CDN index); soundness of the TOC-guided search.
-/
import Cascette.Proofs.Paged
import Cascette.Model.ArchiveIndex
namespace Cascette.Proofs.ArchiveIndex
open Cascette.Model.Paged Cascette.Model.ArchiveIndex Cascette.Proofs.Paged

theorem takeWhile_append_dropWhile' {α : Type} (p : α → Bool) (l : List α) :
    l = l.takeWhile p ++ l.dropWhile p := (List.takeWhile_append_dropWhile).symm

theorem dropWhile_head_not {α : Type} (p : α → Bool) : ∀ (l : List α) (x : α) (r : List α),
    l.dropWhile p = x :: r → p x = false := by
  intro l
  induction l with
  | nil => intro x r h; simp at h
  | cons a l ih =>
    intro x r h
    rw [List.dropWhile_cons] at h
    by_cases ha : p a = true
    · simp only [ha, ↓reduceIte] at h; exact ih x r h
    · have ha' : p a = false := by simpa using ha
      simp only [ha', Bool.false_eq_true, ↓reduceIte, List.cons.injEq] at h
      rw [← h.1]; exact ha'

/-- `binary_search_by(|e| key(e).cmp(k))` over a strictly ascending list: `Ok(i)` with the element of
key `k` if there is one, `Err` otherwise — i.e. a linear scan. -/
theorem binarySearch_eq_scan {ε : Type} (key : ε → Key) (l : List ε) (k : Key)
    (hs : l.Pairwise (fun a b => klt (key a) (key b) = true)) :
    (match binarySearchBy (fun e => kcmp (key e) k) l with
     | .ok i => l[i]?
     | .error _ => none) = l.find? (fun e => key e == k) := by
  unfold binarySearchBy
  have hmono : l.Pairwise (fun a b => (kcmp (key b) k == .lt) = true → (kcmp (key a) k == .lt) = true) :=
    hs.imp fun {a b} hab hb => by
      have : klt (key b) k = true := hb
      exact klt_trans hab this
  rw [partitionPoint_eq _ _ hmono]
  have hsplit := takeWhile_append_dropWhile' (fun e => kcmp (key e) k == .lt) l
  have hA : ∀ x ∈ l.takeWhile (fun e => kcmp (key e) k == .lt), key x ≠ k := by
    intro x hx
    have := mem_takeWhile_sat _ _ _ hx
    exact klt_ne this
  have hfind : l.find? (fun e => key e == k) = (l.dropWhile (fun e => kcmp (key e) k == .lt)).find? (fun e => key e == k) := by
    conv => lhs; rw [hsplit]
    rw [List.find?_append, find?_none_of_lt key _ k hA]
    simp
  have hget : l[(l.takeWhile (fun e => kcmp (key e) k == .lt)).length]? = (l.dropWhile (fun e => kcmp (key e) k == .lt)).head? := by
    conv => lhs; arg 1; rw [hsplit]
    rw [List.getElem?_append_right (Nat.le_refl _)]
    simp [List.head?_eq_getElem?]
  dsimp only
  rw [hget, hfind]
  cases hd : l.dropWhile (fun e => kcmp (key e) k == .lt) with
  | nil => simp
  | cons x r =>
    simp only [List.head?_cons]
    have hx := dropWhile_head_not _ l x r hd
    by_cases he : kcmp (key x) k = .eq
    · simp only [he, beq_self_eq_true, ↓reduceIte]
      rw [hget, hd]
      simp [(kcmp_eq_iff _ _).1 he]
    · have he' : (kcmp (key x) k == Ordering.eq) = false := by simpa using he
      simp only [he', Bool.false_eq_true, ↓reduceIte]
      symm
      apply find?_none_of_lt
      intro y hy e'
      have hsorted : (x :: r).Pairwise (fun a b => klt (key a) (key b) = true) := by
        rw [← hd]; exact hs.sublist (List.dropWhile_sublist _)
      simp only [List.mem_cons] at hy
      have hxgt : klt k (key x) = true := by
        rw [klt_iff, ← kcmp_gt_iff]
        simp only [beq_eq_false_iff_ne, ne_eq] at hx
        cases hc : kcmp (key x) k with
        | lt => exact absurd hc hx
        | eq => exact absurd hc he
        | gt => rfl
      rcases hy with hy | hy
      · subst hy; exact he ((kcmp_eq_iff _ _).2 e')
      · have := (List.pairwise_cons.1 hsorted).1 y hy
        rw [e'] at this
        have := klt_trans hxgt this
        rw [klt_irrefl] at this; cases this

/-- `ArchiveGroup::find_entry` on a strictly ascending entry list = linear scan -/
theorem groupFind_eq_scan (g : List GEntry) (k : Key)
    (hs : g.Pairwise (fun a b => klt a.key b.key = true)) :
    groupFind g k = g.find? (fun e => e.key == k) := by
  unfold groupFind
  exact binarySearch_eq_scan GEntry.key g k hs

/-- soundness of the TOC-guided search for EVERY index structure (consistent TOC or not) and every
probe (any length): a returned record is one of the parsed records and carries exactly the probe key
— never a value for a key that is not there. -/
theorem chunked_find_sound {ε : Type} (key : ε → Key) (c : Chunked ε) (k : Key) (e : ε)
    (h : Chunked.find key c k = some (some e)) : e ∈ c.entries ∧ key e = k := by
  unfold Chunked.find at h
  simp only at h
  split at h
  · cases h
  · rename_i ci _
    split at h
    · cases h
    · split at h
      · rename_i i hi
        simp only [Option.some.injEq] at h
        unfold binarySearchBy at hi
        simp only at hi
        split at hi
        · rename_i x hx
          split at hi
          · rename_i hc
            simp only [Except.ok.injEq] at hi
            subst hi
            rw [hx] at h
            simp only [Option.some.injEq] at h
            subst h
            refine ⟨?_, (kcmp_eq_iff _ _).1 (by simpa using hc)⟩
            have hm := List.mem_of_getElem? hx
            exact (List.drop_sublist _ _).subset ((List.take_sublist _ _).subset hm)
          · cases hi
        · cases hi
      · cases h

end Cascette.Proofs.ArchiveIndex
