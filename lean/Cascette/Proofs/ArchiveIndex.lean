/-
Proofs/ArchiveIndex — binary search over a strictly ascending record list = linear scan (archive
group lookups, and the in-block search of the CDN index); soundness of the TOC-guided search; its
completeness under `validate_toc_consistency` (the TOC search selects the block that holds the key);
the builder→parser model returns the sorted input.
-/
import Cascette.Proofs.Paged
import Cascette.Model.ArchiveIndex
namespace Cascette.Proofs.ArchiveIndex
open Cascette.Model.Paged Cascette.Model.ArchiveIndex Cascette.Proofs.Paged

theorem takeWhile_append_dropWhile' {α : Type} (p : α → Bool) (l : List α) :
    l = l.takeWhile p ++ l.dropWhile p := (List.takeWhile_append_dropWhile).symm

theorem dropWhile_head_not {α : Type} (p : α → Bool) : ∀ (l : List α) (x : α) (r : List α),
    l.dropWhile p = x :: r → p x = false := by
  intro l
  induction l with
  | nil => intro x r h; simp at h
  | cons a l ih =>
    intro x r h
    rw [List.dropWhile_cons] at h
    by_cases ha : p a = true
    · simp only [ha, ↓reduceIte] at h; exact ih x r h
    · have ha' : p a = false := by simpa using ha
      simp only [ha', Bool.false_eq_true, ↓reduceIte, List.cons.injEq] at h
      rw [← h.1]; exact ha'

/-- `binary_search_by(|e| key(e).cmp(k))` over a strictly ascending list: `Ok(i)` with the element of
key `k` if there is one, `Err` otherwise — i.e. a linear scan. -/
theorem binarySearch_eq_scan {ε : Type} (key : ε → Key) (l : List ε) (k : Key)
    (hs : l.Pairwise (fun a b => klt (key a) (key b) = true)) :
    (match binarySearchBy (fun e => kcmp (key e) k) l with
     | .ok i => l[i]?
     | .error _ => none) = l.find? (fun e => key e == k) := by
  unfold binarySearchBy
  have hmono : l.Pairwise (fun a b => (kcmp (key b) k == .lt) = true → (kcmp (key a) k == .lt) = true) :=
    hs.imp fun {a b} hab hb => by
      have : klt (key b) k = true := hb
      exact klt_trans hab this
  rw [partitionPoint_eq _ _ hmono]
  have hsplit := takeWhile_append_dropWhile' (fun e => kcmp (key e) k == .lt) l
  have hA : ∀ x ∈ l.takeWhile (fun e => kcmp (key e) k == .lt), key x ≠ k := by
    intro x hx
    have := mem_takeWhile_sat _ _ _ hx
    exact klt_ne this
  have hfind : l.find? (fun e => key e == k) = (l.dropWhile (fun e => kcmp (key e) k == .lt)).find? (fun e => key e == k) := by
    conv => lhs; rw [hsplit]
    rw [List.find?_append, find?_none_of_lt key _ k hA]
    simp
  have hget : l[(l.takeWhile (fun e => kcmp (key e) k == .lt)).length]? = (l.dropWhile (fun e => kcmp (key e) k == .lt)).head? := by
    conv => lhs; arg 1; rw [hsplit]
    rw [List.getElem?_append_right (Nat.le_refl _)]
    simp [List.head?_eq_getElem?]
  dsimp only
  rw [hget, hfind]
  cases hd : l.dropWhile (fun e => kcmp (key e) k == .lt) with
  | nil => simp
  | cons x r =>
    simp only [List.head?_cons]
    have hx := dropWhile_head_not _ l x r hd
    by_cases he : kcmp (key x) k = .eq
    · simp only [he, beq_self_eq_true, ↓reduceIte]
      rw [hget, hd]
      simp [(kcmp_eq_iff _ _).1 he]
    · have he' : (kcmp (key x) k == Ordering.eq) = false := by simpa using he
      simp only [he', Bool.false_eq_true, ↓reduceIte]
      symm
      apply find?_none_of_lt
      intro y hy e'
      have hsorted : (x :: r).Pairwise (fun a b => klt (key a) (key b) = true) := by
        rw [← hd]; exact hs.sublist (List.dropWhile_sublist _)
      simp only [List.mem_cons] at hy
      have hxgt : klt k (key x) = true := by
        rw [klt_iff, ← kcmp_gt_iff]
        simp only [beq_eq_false_iff_ne, ne_eq] at hx
        cases hc : kcmp (key x) k with
        | lt => exact absurd hc hx
        | eq => exact absurd hc he
        | gt => rfl
      rcases hy with hy | hy
      · subst hy; exact he ((kcmp_eq_iff _ _).2 e')
      · have := (List.pairwise_cons.1 hsorted).1 y hy
        rw [e'] at this
        have := klt_trans hxgt this
        rw [klt_irrefl] at this; cases this

/-- `ArchiveGroup::find_entry` on a strictly ascending entry list = linear scan -/
theorem groupFind_eq_scan (g : List GEntry) (k : Key)
    (hs : g.Pairwise (fun a b => klt a.key b.key = true)) :
    groupFind g k = g.find? (fun e => e.key == k) := by
  unfold groupFind
  exact binarySearch_eq_scan GEntry.key g k hs

/-- soundness of the TOC-guided search for EVERY index structure (consistent TOC or not) and every
probe (any length): a returned record is one of the parsed records and carries exactly the probe key
— never a value for a key that is not there. -/
theorem chunked_find_sound {ε : Type} (key : ε → Key) (c : Chunked ε) (k : Key) (e : ε)
    (h : Chunked.find key c k = some (some e)) : e ∈ c.entries ∧ key e = k := by
  unfold Chunked.find at h
  simp only at h
  split at h
  · cases h
  · rename_i ci _
    split at h
    · cases h
    · split at h
      · rename_i i hi
        simp only [Option.some.injEq] at h
        unfold binarySearchBy at hi
        simp only at hi
        split at hi
        · rename_i x hx
          split at hi
          · rename_i hc
            simp only [Except.ok.injEq] at hi
            subst hi
            rw [hx] at h
            simp only [Option.some.injEq] at h
            subst h
            refine ⟨?_, (kcmp_eq_iff _ _).1 (by simpa using hc)⟩
            have hm := List.mem_of_getElem? hx
            exact (List.drop_sublist _ _).subset ((List.take_sublist _ _).subset hm)
          · cases hi
        · cases hi
      · cases h

/-! ## completeness of the TOC-guided search (block selection) -/

/-- contract of `partition_point` in index form -/
theorem partitionPoint_spec {α : Type} (p : α → Bool) (l : List α)
    (hm : l.Pairwise (fun a b => p b = true → p a = true)) :
    partitionPoint p l ≤ l.length ∧
    (∀ j (h : j < l.length), j < partitionPoint p l → p l[j] = true) ∧
    (∀ j (h : j < l.length), partitionPoint p l ≤ j → p l[j] = false) := by
  unfold partitionPoint
  simp only [List.getElem?_toArray]
  have hmono : ∀ i j, 0 ≤ i → i ≤ j → j < l.length →
      (match l[j]? with | some x => p x | none => false) = true →
      (match l[i]? with | some x => p x | none => false) = true := by
    intro i j _ hij hj
    have hi : i < l.length := by omega
    rw [List.getElem?_eq_getElem hj, List.getElem?_eq_getElem hi]
    simp only
    intro hpj
    by_cases e : i = j
    · subst e; exact hpj
    · exact (List.pairwise_iff_getElem.1 hm) i j hi hj (by omega) hpj
  obtain ⟨_, b, c, d⟩ := bisect_spec _ l.length 0 l.length (Nat.zero_le _) (by omega) hmono
  refine ⟨b, ?_, ?_⟩
  · intro i hi hir
    have := c i (Nat.zero_le _) hir
    rw [List.getElem?_eq_getElem hi] at this
    exact this
  · intro i hi hir
    have := d i hir hi
    rw [List.getElem?_eq_getElem hi] at this
    exact this

theorem prefixCmp_same_len (t k : Key) (h : t.length = k.length) : prefixCmp t k = kcmp t k := by
  unfold prefixCmp
  simp only [h, Nat.min_self]
  rw [List.take_of_length_le (by omega), List.take_of_length_le (by omega)]

/-- the block selection of `binary_search_key` -/
def tocSel (toc : List Key) (k : Key) : Option Nat :=
  match binarySearchBy (fun t => prefixCmp t k) toc with
  | .ok i => some i
  | .error i => if i ≥ toc.length then none else some i

theorem tocSel_eq (toc : List Key) (k : Key) :
    tocSel toc k = (if partitionPoint (fun t => prefixCmp t k == .lt) toc < toc.length
      then some (partitionPoint (fun t => prefixCmp t k == .lt) toc) else none) := by
  unfold tocSel binarySearchBy
  simp only
  cases h : toc[partitionPoint (fun t => prefixCmp t k == .lt) toc]? with
  | none =>
    have := List.getElem?_eq_none_iff.1 h
    simp only [ge_iff_le, this, ↓reduceIte]
    rw [if_neg (by omega)]
  | some x =>
    have : partitionPoint (fun t => prefixCmp t k == .lt) toc < toc.length := by
      cases Nat.lt_or_ge (partitionPoint (fun t => prefixCmp t k == .lt) toc) toc.length with
      | inl h' => exact h'
      | inr h' => rw [List.getElem?_eq_none_iff.2 h'] at h; cases h
    simp only [this, ↓reduceIte]
    by_cases hc : (prefixCmp x k == Ordering.eq) = true
    · simp only [hc, ↓reduceIte]
    · simp only [hc, Bool.false_eq_true, ↓reduceIte, ge_iff_le]
      rw [if_neg (by omega)]

theorem find_unfold {ε : Type} (key : ε → Key) (c : Chunked ε) (k : Key) :
    Chunked.find key c k =
      (match tocSel c.toc k with
      | none => some none
      | some ci =>
        if ci * c.rpb > min (ci * c.rpb + c.rpb) c.entries.length then none else
        match binarySearchBy (fun e => kcmp (key e) k) ((c.entries.drop (ci * c.rpb)).take (min (ci * c.rpb + c.rpb) c.entries.length - ci * c.rpb)) with
        | .ok i => some ((c.entries.drop (ci * c.rpb)).take (min (ci * c.rpb + c.rpb) c.entries.length - ci * c.rpb))[i]?
        | .error _ => some none) := rfl


/-! ### completeness of the TOC-guided search -/

theorem blk_lt (n rpb ci : Nat) (h0 : 0 < rpb) (h : ci < divCeil n rpb) : ci * rpb < n := by
  unfold divCeil at h
  have h1 : ci + 1 ≤ (n + rpb - 1) / rpb := h
  rw [Nat.le_div_iff_mul_le h0, Nat.succ_mul] at h1
  omega

theorem blk_cover (n rpb : Nat) (h0 : 0 < rpb) : n ≤ divCeil n rpb * rpb := by
  unfold divCeil
  have := Nat.lt_mul_div_succ (n + rpb - 1) h0
  rw [Nat.mul_succ, Nat.mul_comm] at this
  omega

/-- `validate_toc_consistency` (+ a positive block capacity) as a proposition -/
structure TocOK {ε : Type} (key : ε → Key) (c : Chunked ε) : Prop where
  rpb_pos : 0 < c.rpb
  len : c.toc.length = divCeil c.entries.length c.rpb
  last : ∀ ci (h : ci < c.toc.length),
    (c.entries[min (ci * c.rpb + c.rpb) c.entries.length - 1]?).map key = some c.toc[ci]

theorem lt_of_idx_le {ε : Type} (key : ε → Key) (l : List ε)
    (hs : l.Pairwise (fun a b => klt (key a) (key b) = true)) (k : Key) (j q : Nat) (hq : q < l.length)
    (hjq : j ≤ q) (h : klt (key l[q]) k = true) : klt (key (l[j]'(by omega))) k = true := by
  by_cases e : j = q
  · subst e; exact h
  · exact klt_trans ((List.pairwise_iff_getElem.1 hs) j q (by omega) hq (by omega)) h

theorem gt_of_idx_ge {ε : Type} (key : ε → Key) (l : List ε)
    (hs : l.Pairwise (fun a b => klt (key a) (key b) = true)) (k : Key) (j q : Nat) (hj : j < l.length)
    (hjq : q < j) (h : klt (key (l[q]'(by omega))) k = false) : klt k (key l[j]) = true := by
  have h1 := (List.pairwise_iff_getElem.1 hs) q j (by omega) hj hjq
  have h2 : kle k (key (l[q]'(by omega))) = true := by
    have := klt_eq_not_kle (key (l[q]'(by omega))) k
    rw [h] at this
    simpa using this.symm
  exact klt_of_kle_of_klt h2 h1

theorem find?_mid {α : Type} (p : α → Bool) (l : List α) (a b : Nat)
    (h1 : ∀ x ∈ l.take a, p x = false) (h2 : ∀ x ∈ (l.drop a).drop b, p x = false) :
    l.find? p = ((l.drop a).take b).find? p := by
  have e : l = l.take a ++ (((l.drop a).take b) ++ (l.drop a).drop b) := by
    rw [List.take_append_drop, List.take_append_drop]
  have n1 : (l.take a).find? p = none := List.find?_eq_none.2 (by simpa using h1)
  have n2 : ((l.drop a).drop b).find? p = none := List.find?_eq_none.2 (by simpa using h2)
  conv => lhs; rw [e]
  rw [List.find?_append, List.find?_append, n1, n2]
  simp

theorem tocSel_lt (toc : List Key) (k : Key) (ci : Nat) (h : tocSel toc k = some ci) : ci < toc.length := by
  rw [tocSel_eq] at h
  split at h
  · cases h; assumption
  · cases h

/-- under `validate_toc_consistency` the slice `entries[start..end]` never panics -/
theorem find_ne_none {ε : Type} (key : ε → Key) (c : Chunked ε) (ht : TocOK key c) (k : Key) :
    Chunked.find key c k ≠ none := by
  rw [find_unfold]
  cases hsel : tocSel c.toc k with
  | none => simp
  | some ci =>
    have h1 := tocSel_lt _ _ _ hsel
    rw [ht.len] at h1
    have h2 := blk_lt _ _ _ ht.rpb_pos h1
    simp only
    rw [if_neg (by omega)]
    split <;> simp


theorem chunked_find_eq_scan {ε : Type} (key : ε → Key) (c : Chunked ε) (ks : Nat)
    (hs : c.entries.Pairwise (fun a b => klt (key a) (key b) = true))
    (hlen : ∀ e ∈ c.entries, (key e).length = ks)
    (ht : TocOK key c) (k : Key) :
    Chunked.find key c k = some (c.entries.find? (fun e => key e == k)) := by
  by_cases hk : k.length = ks
  · -- probe of the index's key size: the TOC comparison is the full comparison
    obtain ⟨entries, toc, rpb⟩ := c
    have hr : 0 < rpb := ht.rpb_pos
    have hl : toc.length = divCeil entries.length rpb := ht.len
    have hlast : ∀ ci (h : ci < toc.length),
        (entries[min (ci * rpb + rpb) entries.length - 1]?).map key = some toc[ci] := ht.last
    simp only at hs hlen
    -- per block: it is non-empty and its last record's key is the TOC key
    have hblk : ∀ ci (h : ci < toc.length), ci * rpb < entries.length ∧
        ∃ (h2 : min (ci * rpb + rpb) entries.length - 1 < entries.length),
          key entries[min (ci * rpb + rpb) entries.length - 1] = toc[ci] := by
      intro ci h
      have h1 := blk_lt _ _ _ hr (hl ▸ h)
      have h2 : min (ci * rpb + rpb) entries.length - 1 < entries.length := by omega
      refine ⟨h1, h2, ?_⟩
      have := hlast ci h
      rw [List.getElem?_eq_getElem h2] at this
      simpa using this
    have htlen : ∀ j (h : j < toc.length), toc[j].length = k.length := by
      intro j h
      obtain ⟨_, h2, e⟩ := hblk j h
      rw [← e, hk]
      exact hlen _ (List.getElem_mem h2)
    have hp : ∀ j (h : j < toc.length), (prefixCmp toc[j] k == Ordering.lt) = klt toc[j] k := by
      intro j h
      rw [prefixCmp_same_len _ _ (htlen j h)]; rfl
    have htoc : ∀ j1 j2 (h1 : j1 < toc.length) (h2 : j2 < toc.length), j1 < j2 → klt toc[j1] toc[j2] = true := by
      intro j1 j2 h1 h2 h12
      obtain ⟨a1, b1, e1⟩ := hblk j1 h1
      obtain ⟨a2, b2, e2⟩ := hblk j2 h2
      rw [← e1, ← e2]
      apply (List.pairwise_iff_getElem.1 hs) _ _ b1 b2
      have : (j1 + 1) * rpb ≤ j2 * rpb := Nat.mul_le_mul_right _ h12
      rw [Nat.succ_mul] at this
      omega
    have hm : toc.Pairwise (fun a b => (prefixCmp b k == Ordering.lt) = true → (prefixCmp a k == Ordering.lt) = true) := by
      rw [List.pairwise_iff_getElem]
      intro i j hi hj hij hpj
      rw [hp j hj] at hpj
      rw [hp i hi]
      exact klt_trans (htoc i j hi hj hij) hpj
    obtain ⟨hle, hlt, hge⟩ := partitionPoint_spec _ toc hm
    rw [find_unfold, tocSel_eq]
    simp only
    generalize partitionPoint (fun t => prefixCmp t k == Ordering.lt) toc = i at hle hlt hge ⊢
    by_cases hi : i < toc.length
    · rw [if_pos hi]
      simp only
      obtain ⟨hstart, hstop, elast⟩ := hblk i hi
      rw [if_neg (by omega)]
      have hsorted : ((entries.drop (i * rpb)).take (min (i * rpb + rpb) entries.length - i * rpb)).Pairwise
          (fun a b => klt (key a) (key b) = true) :=
        (hs.sublist (List.drop_sublist _ _)).sublist (List.take_sublist _ _)
      have hbs := binarySearch_eq_scan key _ k hsorted
      have hfind : entries.find? (fun e => key e == k) =
          ((entries.drop (i * rpb)).take (min (i * rpb + rpb) entries.length - i * rpb)).find? (fun e => key e == k) := by
        apply find?_mid
        · intro x hx
          obtain ⟨j, hj, rfl⟩ := List.mem_take_iff_getElem.1 hx
          have hj1 : j < i * rpb := by omega
          cases i with
          | zero => omega
          | succ i' =>
            have hi' : i' < toc.length := by omega
            obtain ⟨a1, b1, e1⟩ := hblk i' hi'
            have hlt' := hlt i' hi' (by omega)
            rw [hp i' hi', ← e1] at hlt'
            rw [Nat.succ_mul] at hj1 hstart
            have := lt_of_idx_le key entries hs k j _ b1 (by omega) hlt'
            simpa using klt_ne this
        · intro x hx
          rw [List.drop_drop] at hx
          obtain ⟨j, hj, rfl⟩ := List.mem_drop_iff_getElem.1 hx
          have hge' := hge i hi (Nat.le_refl _)
          rw [hp i hi, ← elast] at hge'
          have hj' : i * rpb + (min (i * rpb + rpb) entries.length - i * rpb) + j < entries.length := by
            omega
          have := gt_of_idx_ge key entries hs k (i * rpb + (min (i * rpb + rpb) entries.length - i * rpb) + j)
            (min (i * rpb + rpb) entries.length - 1) hj' (by omega) hge'
          have hne := klt_ne this
          exact beq_eq_false_iff_ne.2 (fun e => hne e.symm)
      rw [hfind, ← hbs]
      cases binarySearchBy (fun e => kcmp (key e) k)
        ((entries.drop (i * rpb)).take (min (i * rpb + rpb) entries.length - i * rpb)) <;> rfl
    · rw [if_neg hi]
      simp only [Option.some.injEq]
      symm
      apply find?_none_of_lt
      intro x hx
      obtain ⟨j, hj, rfl⟩ := List.mem_iff_getElem.1 hx
      have hcov := blk_cover entries.length rpb hr
      rw [← hl] at hcov
      cases hm' : toc.length with
      | zero => rw [hm'] at hcov; omega
      | succ m =>
        have hmlt : m < toc.length := by omega
        obtain ⟨a1, b1, e1⟩ := hblk m hmlt
        have hlt' := hlt m hmlt (by omega)
        rw [hp m hmlt, ← e1] at hlt'
        rw [hm', Nat.succ_mul] at hcov
        exact klt_ne (lt_of_idx_le key entries hs k j _ b1 (by omega) hlt')
  · -- probe of another length: no record has it, and the search cannot invent one
    have hnone : c.entries.find? (fun e => key e == k) = none := by
      apply find?_none_of_lt
      intro x hx e
      exact hk (e ▸ hlen x hx)
    rw [hnone]
    cases hf : Chunked.find key c k with
    | none => exact absurd hf (find_ne_none key c ht k)
    | some r =>
      cases r with
      | none => rfl
      | some e =>
        obtain ⟨hm, he⟩ := chunked_find_sound key c k e hf
        exact absurd (he ▸ hlen e hm) hk


/-! ### from the executable checks of `ArchiveIndex::parse` to the hypotheses above -/

theorem tocOK_of_check (entries : List Entry) (toc : List Key) (rpb : Nat) (h0 : 0 < rpb)
    (h : tocConsistent entries toc rpb = true) :
    TocOK Entry.key { entries := entries, toc := toc, rpb := rpb } := by
  unfold tocConsistent at h
  simp only [Bool.and_eq_true, beq_iff_eq, List.all_eq_true] at h
  obtain ⟨hl, hall⟩ := h
  refine ⟨h0, hl, ?_⟩
  intro ci hci
  simp only at hci ⊢
  have hmem : (toc[ci], ci) ∈ toc.zipIdx := by
    rw [List.mem_zipIdx_iff_getElem?]
    exact List.getElem?_eq_getElem hci
  have := hall _ hmem
  simp only at this
  have h1 := blk_lt _ _ _ h0 (hl ▸ hci)
  rw [if_pos (by omega)] at this
  split at this
  · rename_i e he
    rw [he]
    simpa using this
  · cases this

theorem chunksOf_flatten {ε : Type} (n : Nat) (h0 : 0 < n) : ∀ (fuel : Nat) (l : List ε), l.length ≤ fuel →
    (chunksOf n fuel l).flatten = l := by
  intro fuel
  induction fuel with
  | zero => intro l h; have : l = [] := List.length_eq_zero_iff.1 (by omega); subst this; rfl
  | succ f ih =>
    intro l h
    unfold chunksOf
    cases l with
    | nil => rfl
    | cons a t =>
      simp only [List.isEmpty_cons, Bool.false_eq_true, ↓reduceIte, List.flatten_cons]
      rw [ih _ (by simp only [List.length_drop, List.length_cons] at h ⊢; omega), List.take_append_drop]

theorem mem_chunksOf {ε : Type} (n : Nat) : ∀ (fuel : Nat) (l : List ε) (b : List ε) (x : ε),
    b ∈ chunksOf n fuel l → x ∈ b → x ∈ l := by
  intro fuel
  induction fuel with
  | zero => intro l b x hb; simp [chunksOf] at hb
  | succ f ih =>
    intro l b x hb hx
    unfold chunksOf at hb
    split at hb
    · cases hb
    · simp only [List.mem_cons] at hb
      rcases hb with rfl | hb
      · exact (List.take_sublist _ _).subset hx
      · exact (List.drop_sublist _ _).subset (ih _ b x hb hx)

/-- with records that fit their fields and no padding look-alike, the block parser reads back exactly
the sorted input -/
theorem parsed_eq_sorted (ob rpb : Nat) (h0 : 0 < rpb) (sorted : List Entry)
    (hfit : ∀ e ∈ sorted, stored ob e = e) (hnz : ∀ e ∈ sorted, e.isZero = false) :
    ((chunksOf rpb sorted.length sorted).map fun b => (b.map (stored ob)).takeWhile (fun e => !e.isZero)).flatten
      = sorted := by
  have : ((chunksOf rpb sorted.length sorted).map fun b => (b.map (stored ob)).takeWhile (fun e => !e.isZero))
      = chunksOf rpb sorted.length sorted := by
    conv => rhs; rw [← List.map_id (chunksOf rpb sorted.length sorted)]
    apply List.map_congr_left
    intro b hb
    have hb' : ∀ x ∈ b, x ∈ sorted := fun x hx => mem_chunksOf rpb _ _ b x hb hx
    have e1 : b.map (stored ob) = b := by
      conv => rhs; rw [← List.map_id b]
      exact List.map_congr_left fun x hx => hfit x (hb' x hx)
    rw [e1]
    apply takeWhile_all
    intro x hx
    simp [hnz x (hb' x hx)]
  rw [this, chunksOf_flatten rpb h0 _ _ (Nat.le_refl _)]

theorem buildParse_find_eq_lookup (ks ob rpb : Nat) (input : List Entry) (hrpb : 0 < rpb)
    (hlen : ∀ e ∈ input, e.key.length = ks) (hd : Distinct Entry.key input)
    (hfit : ∀ e ∈ input, stored ob e = e) (hnz : ∀ e ∈ input, e.isZero = false)
    (c : Chunked Entry) (hb : buildParse ks ob rpb input = some c) (k : Key) :
    Cascette.Model.ArchiveIndex.find c k = some (Cascette.Spec.Lookup.lookup Entry.key input k) := by
  have hperm : (sortEntries input).Perm input := List.mergeSort_perm _ _
  have hpar := parsed_eq_sorted ob rpb hrpb (sortEntries input)
    (fun e he => hfit e (hperm.mem_iff.1 he)) (fun e he => hnz e (hperm.mem_iff.1 he))
  unfold buildParse at hb
  simp only [hpar] at hb
  split at hb
  · cases hb
  · split at hb
    · cases hb
    · rename_i _ htc
      simp only [Bool.not_eq_true, Bool.not_eq_false'] at htc
      simp only [Option.some.injEq] at hb
      subst hb
      have hok := tocOK_of_check _ _ _ hrpb htc
      unfold Cascette.Model.ArchiveIndex.find
      rw [chunked_find_eq_scan Entry.key _ ks (sort_strict Entry.key input hd)
        (fun e he => hlen e (hperm.mem_iff.1 he)) hok k]
      simp only [Cascette.Spec.Lookup.lookup]
      congr 1
      exact (scan_perm Entry.key hperm.symm hd k).symm


end Cascette.Proofs.ArchiveIndex
