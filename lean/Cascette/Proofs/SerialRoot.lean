/-
Proofs/SerialRoot — helper lemmas for the root / archive-index theorems of Props/C08 (on the
byte-level root model and the record-level archive-index model that C03 owns): the records a
built-then-parsed root holds are a permutation of the records the builder was given.
-/
import Cascette.Proofs.RootFile
namespace Cascette.Proofs.SerialRoot
open Cascette.Model.RootFile Cascette.Proofs.RootFile

/-- all records of a block list, each with the (locale, content) flags of its block — the logical
content of a root manifest as C08's oracle compares it (a multiset: order is not content) -/
def flagged (blocks : List (Nat × Nat × List Rec)) : List (Nat × Nat × Rec) :=
  blocks.flatMap fun b => b.2.2.map fun r => (b.1, b.2.1, r)

/-- the same for a parsed file -/
def parsedRecs (p : Parsed) : List (Nat × Nat × Rec) :=
  p.blocks.flatMap fun b => b.recs.map fun r => (b.locale, b.content, r)

theorem flatMap_perm_pointwise {α β : Type} (f g : α → List β) (l : List α)
    (h : ∀ a ∈ l, (f a).Perm (g a)) : (l.flatMap f).Perm (l.flatMap g) := by
  induction l with
  | nil => exact List.Perm.refl _
  | cons a t ih =>
    simp only [List.flatMap_cons]
    exact (h a (List.mem_cons_self ..)).append (ih fun b hb => h b (List.mem_cons_of_mem _ hb))

/-- sorting the blocks and the records of each block (what `RootBuilder::build` does) permutes the
flagged records -/
theorem flagged_perm_builtBlocks (blocks : List (Nat × Nat × List Rec)) :
    (flagged (builtBlocks blocks)).Perm (flagged blocks) := by
  unfold flagged builtBlocks
  rw [List.flatMap_map]
  refine List.Perm.trans (flatMap_perm_pointwise _ (fun b => b.2.2.map fun r => (b.1, b.2.1, r)) _ (fun b _ => ?_))
    ((List.mergeSort_perm blocks _).flatMap_right _)
  exact (List.mergeSort_perm b.2.2 _).map _

theorem parsedRecs_mkBlocks (v : Version) (h : Option Header) (bl : List (Nat × Nat × List Rec)) :
    parsedRecs { version := v, header := h, blocks := bl.map fun b => mkBlock b.1 b.2.1 b.2.2 } = flagged bl := by
  unfold parsedRecs flagged
  rw [List.flatMap_map]
  rfl

end Cascette.Proofs.SerialRoot
