/-
Proofs/SerialBuilders — the invariant of `InstallManifestBuilder` programs that start from ANY
accepted manifest (C08's builder-as-mutator clause): every editing call keeps each tag mask at the
size of the entry count and every entry storable (`BInv`), a V1-sourced or new builder never holds an
entry with a type byte (`NoType`), and `build` turns such a state into a well-formed manifest under
the SOURCE's version — filling the type byte of every entry when that version is 2 (`build_wf`).
Names are not required to be distinct and masks may carry padding bits: a parsed manifest promises
neither (C19's `IInv`, which needs both, is about programs from the empty builder).
-/
import Cascette.Proofs.Serial
import Cascette.Model.SerialBuilders
namespace Cascette.Proofs.SerialBuilders
open Cascette Cascette.Model.Manifest Cascette.Model.Serial Cascette.Proofs.Manifest
open Cascette.Proofs.Serial Cascette.Model.SerialBuilders


/-- a tag as the builder must hold it for `n` entries, with a name a Rust `String` can hold -/
def TagOk (n : Nat) (t : Tag) : Prop := TagWf n t ∧ validUtf8 t.name = true

/-- an entry as `add_file` creates it (`InstallFileEntry::new`: no file type), or as a V1/V2 parse
gives it: NUL-free valid UTF-8 path, 16-byte key, u32 size, type byte (if any) a byte -/
structure EntryOk (e : IEntry) : Prop where
  path : (0 : Byte) ∉ e.path
  utf8 : validUtf8 e.path = true
  key : e.key.length = 16
  size : e.size < 4294967296
  ft : ∀ f, e.ftype = some f → f < 256

theorem maskSize_le_succ (n : Nat) : maskSize n ≤ maskSize (n + 1) := by unfold maskSize; omega

theorem resizeZ_length (m : Bytes) (n : Nat) (h : m.length ≤ n) : (resizeZ m n).length = n := by
  unfold resizeZ
  simp only [List.length_append, List.length_take, List.length_replicate]
  omega

theorem growMasks_ok (tags : List Tag) (n : Nat) (h : ∀ t ∈ tags, TagOk n t) :
    ∀ t ∈ growMasks tags (maskSize (n + 1)), TagOk (n + 1) t := by
  intro t ht
  unfold growMasks at ht
  rw [List.mem_map] at ht
  obtain ⟨t0, ht0, rfl⟩ := ht
  have h0 := h t0 ht0
  have hl := h0.1.len
  have hm := maskSize_le_succ n
  by_cases hc : t0.mask.length < maskSize (n + 1)
  · rw [if_pos hc]
    exact ⟨⟨h0.1.name, h0.1.typ, resizeZ_length _ _ (by omega)⟩, h0.2⟩
  · rw [if_neg hc]
    exact ⟨⟨h0.1.name, h0.1.typ, by omega⟩, h0.2⟩

/-- the builder invariant the editing calls keep: every tag fits the entry count, every entry is
storable; nothing is said about file types — `build` settles those -/
structure BInv (b : IBuilder) : Prop where
  tags : ∀ t ∈ b.tags, TagOk b.entries.length t
  entries : ∀ e ∈ b.entries, EntryOk e

theorem addFile_inv (b : IBuilder) (hI : BInv b) (e : IEntry) (he : EntryOk e) : BInv (b.addFile e) := by
  unfold IBuilder.addFile
  refine ⟨?_, ?_⟩
  · simp only [List.length_append, List.length_cons, List.length_nil, Nat.zero_add]
    exact growMasks_ok b.tags b.entries.length hI.tags
  · intro x hx
    simp only [List.mem_append, List.mem_singleton] at hx
    rcases hx with hx | hx
    · exact hI.entries x hx
    · subst hx; exact he


theorem mem_modify {α : Type} (g : α → α) : ∀ (l : List α) (i : Nat) (x : α), x ∈ l.modify i g →
    x ∈ l ∨ ∃ y ∈ l, x = g y := by
  intro l
  induction l with
  | nil => intro i x h; simp at h
  | cons a l ih =>
    intro i x h
    cases i with
    | zero =>
      simp only [List.modify_zero_cons, List.mem_cons] at h
      rcases h with h | h
      · exact Or.inr ⟨a, List.mem_cons_self, h⟩
      · exact Or.inl (List.mem_cons_of_mem _ h)
    | succ i =>
      simp only [List.modify_succ_cons, List.mem_cons] at h
      rcases h with h | h
      · exact Or.inl (h ▸ List.mem_cons_self)
      · rcases ih i x h with h' | ⟨y, hy, rfl⟩
        · exact Or.inl (List.mem_cons_of_mem _ h')
        · exact Or.inr ⟨y, List.mem_cons_of_mem _ hy, rfl⟩

theorem maskAdd_length (n i : Nat) (m : Bytes) (hi : i < n) (hl : m.length = maskSize n) :
    (Cascette.Model.Manifest.addFile m i).length = maskSize n := by
  unfold Cascette.Model.Manifest.addFile
  have : ¬ i / 8 ≥ m.length := by rw [hl]; unfold maskSize; omega
  rw [if_neg this]
  simp only [List.length_modify, hl]

theorem maskRemove_length (i : Nat) (m : Bytes) : (Cascette.Model.Manifest.removeFile m i).length = m.length := by
  unfold Cascette.Model.Manifest.removeFile
  split
  · rfl
  · simp only [List.length_modify]

theorem modTag_inv (b : IBuilder) (hI : BInv b) (ti : Nat) (f : Bytes → Bytes)
    (hf : ∀ m, m.length = maskSize b.entries.length → (f m).length = maskSize b.entries.length)
    (ts : List Tag) (h : modTag b.tags ti f = .ok ts) : BInv { b with tags := ts } := by
  unfold modTag at h
  split at h
  · cases h
  · cases h
    refine ⟨?_, hI.entries⟩
    intro t ht
    rcases mem_modify _ _ _ _ ht with h' | ⟨y, hy, rfl⟩
    · exact hI.tags t h'
    · have hy' := hI.tags y hy
      exact ⟨⟨hy'.1.name, hy'.1.typ, hf _ hy'.1.len⟩, hy'.2⟩

theorem assoc_inv (b : IBuilder) (hI : BInv b) (i : Nat) (name : Bytes) (b' : IBuilder)
    (h : b.assoc i name = .ok b') : BInv b' := by
  unfold IBuilder.assoc at h
  split at h
  · cases h
  · rename_i hi
    split at h
    · cases h
    · split at h
      · cases h
      · rename_i ts hts
        cases h
        exact modTag_inv b hI _ _ (fun m hm => maskAdd_length b.entries.length i m (by omega) hm) ts hts

theorem dissoc_inv (b : IBuilder) (hI : BInv b) (i : Nat) (name : Bytes) (b' : IBuilder)
    (h : b.dissoc i name = .ok b') : BInv b' := by
  unfold IBuilder.dissoc at h
  split at h
  · cases h
  · split at h
    · cases h
    · split at h
      · cases h
      · rename_i ts hts
        cases h
        exact modTag_inv b hI _ _ (fun m hm => by rw [maskRemove_length]; exact hm) ts hts

theorem removeTag_inv (b : IBuilder) (hI : BInv b) (name : Bytes) (b' : IBuilder)
    (h : b.removeTag name = .ok b') : BInv b' := by
  unfold IBuilder.removeTag at h
  split at h
  · cases h
  · split at h
    · cases h
    · cases h
      exact ⟨fun t ht => hI.tags t (List.mem_of_mem_eraseIdx ht), hI.entries⟩

theorem removeFile_inv (b : IBuilder) (hI : BInv b) (k : Nat) (b' : IBuilder)
    (h : b.removeFile k = .ok b') : BInv b' := by
  unfold IBuilder.removeFile at h
  split at h
  · cases h
  · cases h
    refine ⟨?_, fun e he => hI.entries e (List.mem_of_mem_eraseIdx he)⟩
    intro t ht
    simp only [List.mem_map] at ht
    obtain ⟨t0, ht0, rfl⟩ := ht
    have h0 := hI.tags t0 ht0
    refine ⟨⟨h0.1.name, h0.1.typ, ?_⟩, h0.2⟩
    simp only [instRemoveMask, List.length_map, List.length_range]

theorem addTag_inv (b : IBuilder) (hI : BInv b) (name : Bytes) (typ : Nat)
    (hn : (0 : Byte) ∉ name) (hu : validUtf8 name = true) (ht : validType typ = true) :
    BInv (b.addTag name typ) := by
  unfold IBuilder.addTag
  refine ⟨?_, hI.entries⟩
  intro t h
  simp only [List.mem_append, List.mem_singleton] at h
  rcases h with h | h
  · exact hI.tags t h
  · subst h
    exact ⟨⟨hn, ht, by simp⟩, hu⟩


/-- the editing calls of `InstallManifestBuilder` -/
inductive MOp
  | addFile (path key : Bytes) (size : Nat)
  | removeFile (k : Nat)
  | addTag (name : Bytes) (typ : Nat)
  | removeTag (name : Bytes)
  | assoc (i : Nat) (name : Bytes)
  | dissoc (i : Nat) (name : Bytes)

/-- arguments a Rust caller can pass: `String`s without NUL (NUL terminates the stored string),
a `ContentKey`, a `u32`, a `TagType` -/
def MOp.argsOk : MOp → Prop
  | .addFile path key size => (0 : Byte) ∉ path ∧ validUtf8 path = true ∧ key.length = 16 ∧ size < 4294967296
  | .addTag name typ => (0 : Byte) ∉ name ∧ validUtf8 name = true ∧ validType typ = true
  | _ => True

/-- one call; the builder methods take `self` by value, so a failing call ends the program -/
def mstep (s : IBuilderS) : MOp → Except Err IBuilderS
  | .addFile path key size => .ok (s.addFile path key size)
  | .removeFile k => s.lift (·.removeFile k)
  | .addTag name typ => .ok { s with b := s.b.addTag name typ }
  | .removeTag name => s.lift (·.removeTag name)
  | .assoc i name => s.lift (·.assoc i name)
  | .dissoc i name => s.lift (·.dissoc i name)

def mrun (s : IBuilderS) : List MOp → Except Err IBuilderS
  | [] => .ok s
  | o :: os => match mstep s o with
    | .ok s' => mrun s' os
    | .error e => .error e

theorem lift_ok (s s' : IBuilderS) (f : IBuilder → Except Err IBuilder) (h : s.lift f = .ok s') :
    ∃ b', f s.b = .ok b' ∧ s' = { s with b := b' } := by
  unfold IBuilderS.lift at h
  split at h
  · rename_i b' hb; cases h; exact ⟨b', hb, rfl⟩
  · cases h

theorem mstep_inv (s s' : IBuilderS) (o : MOp) (ho : o.argsOk) (hI : BInv s.b) (h : mstep s o = .ok s') :
    BInv s'.b ∧ s'.src = s.src := by
  cases o with
  | addFile path key size =>
    simp only [mstep, Except.ok.injEq] at h
    subst h
    obtain ⟨h1, h2, h3, h4⟩ := ho
    exact ⟨addFile_inv s.b hI _ ⟨h1, h2, h3, h4, fun f hf => by cases hf⟩, rfl⟩
  | removeFile k =>
    simp only [mstep] at h
    obtain ⟨b', hb, rfl⟩ := lift_ok _ _ _ h
    exact ⟨removeFile_inv s.b hI k b' hb, rfl⟩
  | addTag name typ =>
    simp only [mstep, Except.ok.injEq] at h
    subst h
    obtain ⟨h1, h2, h3⟩ := ho
    exact ⟨addTag_inv s.b hI name typ h1 h2 h3, rfl⟩
  | removeTag name =>
    simp only [mstep] at h
    obtain ⟨b', hb, rfl⟩ := lift_ok _ _ _ h
    exact ⟨removeTag_inv s.b hI name b' hb, rfl⟩
  | assoc i name =>
    simp only [mstep] at h
    obtain ⟨b', hb, rfl⟩ := lift_ok _ _ _ h
    exact ⟨assoc_inv s.b hI i name b' hb, rfl⟩
  | dissoc i name =>
    simp only [mstep] at h
    obtain ⟨b', hb, rfl⟩ := lift_ok _ _ _ h
    exact ⟨dissoc_inv s.b hI i name b' hb, rfl⟩

theorem mrun_inv : ∀ (ops : List MOp) (s s' : IBuilderS), (∀ o ∈ ops, o.argsOk) → BInv s.b →
    mrun s ops = .ok s' → BInv s'.b ∧ s'.src = s.src := by
  intro ops
  induction ops with
  | nil => intro s s' _ hI h; simp only [mrun, Except.ok.injEq] at h; subst h; exact ⟨hI, rfl⟩
  | cons o os ih =>
    intro s s' ho hI h
    simp only [mrun] at h
    split at h
    · rename_i s1 h1
      have := mstep_inv s s1 o (ho o List.mem_cons_self) hI h1
      have r := ih s1 s' (fun o' ho' => ho o' (List.mem_cons_of_mem _ ho')) this.1 h
      exact ⟨r.1, r.2.trans this.2⟩
    · cases h


theorem all_utf8_tags (tags : List Tag) (h : ∀ t ∈ tags, validUtf8 t.name = true) :
    tags.all (fun t => validUtf8 t.name) = true := by
  simp only [List.all_eq_true]; exact h

/-- what `build` returns for a builder state that satisfies the invariant, given the source header -/
theorem build_wf (s : IBuilderS) (hI : BInv s.b) (m : IManifest) (hb : s.build = .ok m)
    (hsrc : ∀ v v2, s.src = some (v, v2) →
      (v = 1 ∨ v = 2) ∧ (if v = 2 then ∃ c e u, v2 = some (c, e, u) ∧ c < 256 ∧ e < 4294967296 ∧ u < 256 else v2 = none) ∧
      (v = 1 → ∀ e ∈ s.b.entries, e.ftype = none))
    (hnew : s.src = none → ∀ e ∈ s.b.entries, e.ftype = none) :
    (IManifestWf m ∧ installNamesOk m = true) ∧ m.tags = s.b.tags ∧
      (∀ v v2, s.src = some (v, v2) → m.version = v ∧ m.v2 = v2 ∧
        m.entries = if v = 2 then s.b.entries.map fillType else s.b.entries) ∧
      (s.src = none → m.version = 1 ∧ m.entries = s.b.entries) := by
  unfold IBuilderS.build at hb
  cases hbb : s.b.build with
  | error e => rw [hbb] at hb; cases hb
  | ok mb =>
    rw [hbb] at hb
    -- the V1 value of C19's builder
    unfold IBuilder.build at hbb
    split at hbb
    · cases hbb
    · rename_i htc
      split at hbb
      · cases hbb
      · rename_i hec
        split at hbb
        · cases hbb
          have tagsWf : ∀ t ∈ s.b.tags, TagWf s.b.entries.length t := fun t ht => (hI.tags t ht).1
          have namesOk : ∀ (es : List IEntry), (∀ e ∈ es, validUtf8 e.path = true) →
              installNamesOk ⟨1, none, s.b.tags, es⟩ = true := by
            intro es hes
            simp only [installNamesOk, Bool.and_eq_true, List.all_eq_true]
            exact ⟨fun t ht => (hI.tags t ht).2, hes⟩
          cases hs : s.src with
          | none =>
            rw [hs] at hb
            cases hb
            have hnone := hnew hs
            refine ⟨⟨⟨Or.inl rfl, by simp, by simpa using htc, by simpa using hec, tagsWf, ?_⟩, ?_⟩, rfl, ?_, fun _ => ⟨rfl, rfl⟩⟩
            · intro e he
              have := hI.entries e he
              exact ⟨this.path, this.key, this.size, by simp [hnone e he]⟩
            · exact namesOk _ (fun e he => (hI.entries e he).utf8)
            · intro v v2 h; cases h
          | some p =>
            obtain ⟨v, v2⟩ := p
            rw [hs] at hb
            obtain ⟨hv, hv2, hv1⟩ := hsrc v v2 hs
            by_cases hge : v ≥ 2
            · simp only [hge, if_true] at hb
              cases hb
              have hv2' : v = 2 := by omega
              subst hv2'
              simp only [if_true] at hv2
              refine ⟨⟨⟨Or.inr rfl, by simpa using hv2, by simpa using htc, by simpa using hec, ?_, ?_⟩, ?_⟩, rfl, ?_, ?_⟩
              · intro t ht
                have := tagsWf t ht
                exact ⟨this.name, this.typ, by simpa using this.len⟩
              · intro e he
                simp only [List.mem_map] at he
                obtain ⟨e0, he0, rfl⟩ := he
                have h0 := hI.entries e0 he0
                refine ⟨h0.path, h0.key, h0.size, ?_⟩
                simp only [fillType, ge_iff_le, Nat.le_refl, if_true]
                cases hf : e0.ftype with
                | none => exact ⟨0, by simp, by omega⟩
                | some f => exact ⟨f, by simp, h0.ft f hf⟩
              · simp only [installNamesOk, Bool.and_eq_true, List.all_eq_true]
                refine ⟨fun t ht => (hI.tags t ht).2, ?_⟩
                intro e he
                simp only [List.mem_map] at he
                obtain ⟨e0, he0, rfl⟩ := he
                exact (hI.entries e0 he0).utf8
              · intro v' v2' h; cases h; exact ⟨rfl, rfl, by simp⟩
              · intro h; cases h
            · simp only [hge, if_false] at hb
              cases hb
              have hv1' : v = 1 := by omega
              subst hv1'
              simp only [show ¬ (1 = 2) by omega, if_false] at hv2
              have hnone := hv1 rfl
              refine ⟨⟨⟨Or.inl rfl, by simp, by simpa using htc, by simpa using hec, tagsWf, ?_⟩, ?_⟩, rfl, ?_, ?_⟩
              · intro e he
                have := hI.entries e he
                exact ⟨this.path, this.key, this.size, by simp [hnone e he]⟩
              · exact namesOk _ (fun e he => (hI.entries e he).utf8)
              · intro v' v2' h; cases h; exact ⟨rfl, hv2.symm, by simp⟩
              · intro h; cases h
        · cases hbb


def NoType (b : IBuilder) : Prop := ∀ e ∈ b.entries, e.ftype = none

theorem modTag_entries (b : IBuilder) (ti : Nat) (f : Bytes → Bytes) (ts : List Tag)
    (_h : modTag b.tags ti f = .ok ts) : ({ b with tags := ts } : IBuilder).entries = b.entries := rfl

theorem mstep_notype (s s' : IBuilderS) (o : MOp) (hN : NoType s.b) (h : mstep s o = .ok s') : NoType s'.b := by
  cases o with
  | addFile path key size =>
    simp only [mstep, Except.ok.injEq] at h
    subst h
    intro e he
    simp only [IBuilderS.addFile, IBuilder.addFile, List.mem_append, List.mem_singleton] at he
    rcases he with he | he
    · exact hN e he
    · subst he; rfl
  | removeFile k =>
    simp only [mstep] at h
    obtain ⟨b', hb, rfl⟩ := lift_ok _ _ _ h
    unfold IBuilder.removeFile at hb
    split at hb
    · cases hb
    · cases hb; exact fun e he => hN e (List.mem_of_mem_eraseIdx he)
  | addTag name typ =>
    simp only [mstep, Except.ok.injEq] at h
    subst h
    exact hN
  | removeTag name =>
    simp only [mstep] at h
    obtain ⟨b', hb, rfl⟩ := lift_ok _ _ _ h
    unfold IBuilder.removeTag at hb
    split at hb
    · cases hb
    · split at hb
      · cases hb
      · cases hb; exact hN
  | assoc i name =>
    simp only [mstep] at h
    obtain ⟨b', hb, rfl⟩ := lift_ok _ _ _ h
    unfold IBuilder.assoc at hb
    split at hb
    · cases hb
    · split at hb
      · cases hb
      · split at hb
        · cases hb
        · cases hb; exact hN
  | dissoc i name =>
    simp only [mstep] at h
    obtain ⟨b', hb, rfl⟩ := lift_ok _ _ _ h
    unfold IBuilder.dissoc at hb
    split at hb
    · cases hb
    · split at hb
      · cases hb
      · split at hb
        · cases hb
        · cases hb; exact hN

theorem mrun_notype : ∀ (ops : List MOp) (s s' : IBuilderS), NoType s.b → mrun s ops = .ok s' → NoType s'.b := by
  intro ops
  induction ops with
  | nil => intro s s' hN h; simp only [mrun, Except.ok.injEq] at h; subst h; exact hN
  | cons o os ih =>
    intro s s' hN h
    simp only [mrun] at h
    split at h
    · rename_i s1 h1
      exact ih s1 s' (mstep_notype s s1 o hN h1) h
    · cases h

theorem fromManifest_inv (m0 : IManifest) (h0 : IManifestWf m0) (hu : installNamesOk m0 = true) :
    BInv (IBuilderS.fromManifest m0).b := by
  simp only [installNamesOk, Bool.and_eq_true, List.all_eq_true] at hu
  refine ⟨fun t ht => ⟨h0.tags t ht, hu.1 t ht⟩, ?_⟩
  intro e he
  have hw := h0.entries e he
  refine ⟨hw.path, hu.2 e he, hw.key, hw.size, ?_⟩
  intro f hf
  have hft := hw.ft
  split at hft
  · obtain ⟨f', hf', hlt⟩ := hft
    rw [hf] at hf'; cases hf'; exact hlt
  · rw [hf] at hft; cases hft


end Cascette.Proofs.SerialBuilders
