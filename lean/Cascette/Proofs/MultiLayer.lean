/-
Proofs/MultiLayer — lemmas about Model/MultiLayer:
 * layer level: `Absent` (the layer has nothing for a key: it cannot answer a `get` with a value)
   is established by remove / clear / fdel and kept by every operation on another key;
   `LRef` (the layer serves only the reference map's values; = C10's `RefInv` / `RefD`) is kept
   by every layer operation with the matching reference step
 * the layer scan of `get` / `get_with_validation` = first layer, in order, whose own `get`
   answers with a value
 * lock traces: every call's trace on the tracker lock is a sequence of `acqW, relW` pairs
 * memory layers with the Ttl eviction policy: a put does not depend on the victims function and
   keeps every live entry of every other key
-/
import Cascette.Model.MultiLayer
import Cascette.Proofs.MemCache
import Cascette.Proofs.DiskCache
namespace Cascette.Proofs.MultiLayer
open Cascette.Spec.CacheMap (Key Val Ref)
open Cascette.Spec
open Cascette.Model.CacheAssoc Cascette.Model.MultiLayer Cascette.Proofs.CacheAssoc
open Cascette.Model
open Cascette.Proofs.MemCache (RefInv)
open Cascette.Proofs.DiskCache (RefD)

/-! ### layers: absence -/

/-- the layer has nothing it could answer a `get k` with: no stored entry (memory), no file (disk) -/
def absentB : Layer → Key → Bool
  | .mem _ s, k => (lookup k s.store).isNone
  | .disk _ s, k => (lookup k s.files).isNone

abbrev Absent (l : Layer) (k : Key) : Prop := absentB l k = true

theorem isNone_of_mono {α : Type} {a b : Option α} (h : ∀ e, a = some e → b = some e) (hb : b.isNone = true) :
    a.isNone = true := by
  cases a with
  | none => rfl
  | some e => rw [h e rfl] at hb; cases hb

theorem absent_peek {l : Layer} {k : Key} (h : Absent l k) : ∀ v, l.peek k ≠ .hit v := by
  intro v
  cases l with
  | mem cfg s =>
    have h : (lookup k s.store).isNone = true := h
    have hl : lookup k (MemCache.tick s).store = none := by
      cases hq : lookup k s.store with
      | none => exact hq
      | some e => rw [hq] at h; cases h
    unfold Layer.peek Layer.get
    dsimp only
    rw [Proofs.MemCache.get_out, hl]
    intro hc; cases hc
  | disk cfg s =>
    have h : (lookup k s.files).isNone = true := h
    have hl : lookup k s.files = none := by
      cases hq : lookup k s.files with
      | none => rfl
      | some e => rw [hq] at h; cases h
    unfold Layer.peek Layer.get DiskCache.get
    dsimp only
    cases hi : lookup k s.index with
    | some e =>
      dsimp only
      by_cases hs : e.short = true
      · simp [hs]
      · simp [hs, hl]
    | none => simp [hl]

theorem mem_get_store_mono (s : MemCache.State) (k k' : Key) (e : MemCache.Entry)
    (h : lookup k' (MemCache.get s k).1.store = some e) : ∃ e', lookup k' s.store = some e' := by
  unfold MemCache.get at h
  split at h
  · exact ⟨e, h⟩
  · rename_i e0 he
    split at h
    · rw [Proofs.MemCache.sweep_store he] at h; exact ⟨e, lookup_erase_some h⟩
    · by_cases hk : k' = k
      · subst hk; exact ⟨e0, he⟩
      · have h : lookup k' ((k, { e0 with last := s.clock, hits := e0.hits + 1 }) :: erase k s.store) = some e := h
        rw [lookup_cons_ne hk] at h
        exact ⟨e, lookup_erase_some h⟩

theorem isNone_of_mono' {α β : Type} {a : Option α} {b : Option β} (h : ∀ e, a = some e → ∃ e', b = some e')
    (hb : b.isNone = true) : a.isNone = true := by
  cases a with
  | none => rfl
  | some e => obtain ⟨e', he'⟩ := h e rfl; rw [he'] at hb; cases hb

theorem disk_get_files_mono (s : DiskCache.State) (k k' : Key) (v : Val)
    (h : lookup k' (DiskCache.get s k).1.files = some v) : lookup k' s.files = some v := by
  unfold DiskCache.get at h
  split at h
  · split at h
    · exact lookup_erase_some h
    · split at h
      · exact h
      · exact h
  · split at h
    · exact h
    · exact h

theorem absent_get {l : Layer} {k : Key} (k' : Key) (h : Absent l k) : Absent (l.get k').1 k := by
  cases l with
  | mem cfg s =>
    exact isNone_of_mono' (fun e he => mem_get_store_mono (MemCache.tick s) k' k e he) h
  | disk cfg s =>
    exact isNone_of_mono (fun v hv => disk_get_files_mono s k' k v hv) h

theorem absent_putTtl {l : Layer} {k : Key} (vc : Victims) (k' : Key) (v : Val) (c : Bool) (hne : k ≠ k')
    (h : Absent l k) : Absent (l.putTtl vc k' v c) k := by
  cases l with
  | mem cfg s =>
    refine isNone_of_mono (b := lookup k s.store) ?_ h
    intro e he
    have he : lookup k (MemCache.putCore cfg (MemCache.tick s) k' v c (vc cfg (MemCache.tick s))).store = some e := he
    unfold MemCache.putCore at he
    rw [Proofs.MemCache.insertCounted_store, lookup_cons_ne hne] at he
    exact Proofs.MemCache.mono_preEvict cfg (s := MemCache.tick s) _ (lookup_erase_some he)
  | disk cfg s =>
    refine isNone_of_mono (b := lookup k s.files) ?_ h
    intro e he
    have hfiles : (DiskCache.putCore s k' v c).files = (k', v) :: erase k' s.files := by
      unfold DiskCache.putCore; split <;> rfl
    have he : lookup k (DiskCache.putCore s k' v c).files = some e := he
    rw [hfiles, lookup_cons_ne hne] at he
    exact lookup_erase_some he

theorem absent_put {l : Layer} {k : Key} (vc : Victims) (k' : Key) (v : Val) (hne : k ≠ k')
    (h : Absent l k) : Absent (l.put vc k' v) k := absent_putTtl vc k' v _ hne h

theorem mem_remove_store_mono (s : MemCache.State) (k k' : Key) (e : MemCache.Entry)
    (h : lookup k' (MemCache.remove s k).1.store = some e) : lookup k' s.store = some e := by
  unfold MemCache.remove at h
  split at h
  · exact Proofs.MemCache.mono_removeCounted h
  · exact h

theorem disk_remove_files (s : DiskCache.State) (k : Key) : (DiskCache.remove s k).1.files = erase k s.files := by
  unfold DiskCache.remove
  split
  · rfl
  · split
    · rfl
    · rename_i hf; exact (erase_of_lookup_none hf).symm

theorem absent_remove_other {l : Layer} {k : Key} (k' : Key) (h : Absent l k) : Absent (l.remove k').1 k := by
  cases l with
  | mem cfg s =>
    exact isNone_of_mono (fun e he => mem_remove_store_mono (MemCache.tick s) k' k e he) h
  | disk cfg s =>
    refine isNone_of_mono (b := lookup k s.files) ?_ h
    intro e he
    have he : lookup k (DiskCache.remove s k').1.files = some e := he
    rw [disk_remove_files] at he
    exact lookup_erase_some he

theorem absent_remove_self (l : Layer) (k : Key) : Absent (l.remove k).1 k := by
  cases l with
  | mem cfg s =>
    show (lookup k (MemCache.remove (MemCache.tick s) k).1.store).isNone = true
    unfold MemCache.remove
    split
    · rename_i e he
      unfold MemCache.removeCounted
      rw [he]
      show (lookup k (erase k (MemCache.tick s).store)).isNone = true
      rw [lookup_erase_self]; rfl
    · rename_i he; rw [he]; rfl
  | disk cfg s =>
    show (lookup k (DiskCache.remove s k).1.files).isNone = true
    rw [disk_remove_files, lookup_erase_self]; rfl

theorem absent_clear (l : Layer) (k : Key) : Absent l.clear k := by
  cases l <;> rfl

theorem absent_fdel_self (l : Layer) (k : Key) (h : ∀ cfg s, l ≠ .mem cfg s) : Absent (l.fdel k) k := by
  cases l with
  | mem cfg s => exact absurd rfl (h cfg s)
  | disk cfg s =>
    show (lookup k (erase k s.files)).isNone = true
    rw [lookup_erase_self]; rfl

theorem absent_fdel {l : Layer} {k : Key} (k' : Key) (h : Absent l k) : Absent (l.fdel k') k := by
  cases l with
  | mem cfg s => exact h
  | disk cfg s =>
    refine isNone_of_mono (b := lookup k s.files) ?_ h
    intro e he
    exact lookup_erase_some (k := k') he

theorem absent_fset {l : Layer} {k : Key} (k' : Key) (v : Val) (hne : k ≠ k') (h : Absent l k) :
    Absent (l.fset k' v) k := by
  cases l with
  | mem cfg s => exact h
  | disk cfg s =>
    refine isNone_of_mono (b := lookup k s.files) ?_ h
    intro e he
    have he : lookup k ((k', v) :: erase k' s.files) = some e := he
    rw [lookup_cons_ne hne] at he
    exact lookup_erase_some he

/-! ### layers: what a put leaves -/

theorem peek_putTtl_self (vc : Victims) (l : Layer) (k : Key) (v : Val) :
    (l.putTtl vc k v false).peek k = .hit v := by
  cases l with
  | mem cfg s =>
    unfold Layer.peek Layer.putTtl Layer.get
    dsimp only
    rw [Proofs.MemCache.get_out]
    have : lookup k (MemCache.tick (MemCache.putCore cfg (MemCache.tick s) k v false (vc cfg (MemCache.tick s)))).store
        = some (MemCache.newEntry (MemCache.preEvict cfg (MemCache.tick s) (vc cfg (MemCache.tick s))) v false) := by
      show lookup k (MemCache.putCore cfg (MemCache.tick s) k v false (vc cfg (MemCache.tick s))).store = _
      unfold MemCache.putCore
      rw [Proofs.MemCache.insertCounted_store, lookup_cons_self]
    rw [this]
    rfl
  | disk cfg s =>
    have hfiles : (DiskCache.putCore s k v false).files = (k, v) :: erase k s.files := by
      unfold DiskCache.putCore; split <;> rfl
    have hindex : (DiskCache.putCore s k v false).index = (k, { size := v.length, short := false }) :: erase k s.index := by
      unfold DiskCache.putCore; split <;> rfl
    unfold Layer.peek Layer.putTtl Layer.get DiskCache.get
    dsimp only
    rw [hindex, hfiles, lookup_cons_self, lookup_cons_self]
    rfl

/-! ### layers: reference map -/

def LRef : Layer → Ref → Prop
  | .mem _ s, r => RefInv s r
  | .disk _ s, r => RefD s r

theorem lref_peek {l : Layer} {r : Ref} {k : Key} {v : Val} (h : LRef l r) (hp : l.peek k = .hit v) : r k = some v := by
  cases l with
  | mem cfg s =>
    have h : RefInv s r := h
    unfold Layer.peek Layer.get at hp
    dsimp only at hp
    rw [Proofs.MemCache.get_out] at hp
    cases hl : lookup k (MemCache.tick s).store with
    | none => rw [hl] at hp; cases hp
    | some e =>
      rw [hl] at hp
      dsimp only at hp
      by_cases hs : e.short = true
      · rw [if_pos hs] at hp; cases hp
      · rw [if_neg hs] at hp
        cases hp
        exact h k e hl (by simpa using hs)
  | disk cfg s =>
    have h : RefD s r := h
    unfold Layer.peek Layer.get at hp
    dsimp only at hp
    cases hg : (DiskCache.get s k).2 with
    | miss => rw [hg] at hp; cases hp
    | ioErr => rw [hg] at hp; cases hp
    | hit w =>
      rw [hg] at hp
      cases hp
      exact Proofs.DiskCache.refd_get_out k h hg

theorem lref_get {l : Layer} {r : Ref} (k : Key) (h : LRef l r) : LRef (l.get k).1 r := by
  cases l with
  | mem cfg s => exact Proofs.MemCache.ref_get k (Proofs.MemCache.ref_tick h)
  | disk cfg s => exact Proofs.DiskCache.refd_get k h

theorem lref_putTtl {l : Layer} {r : Ref} (vc : Victims) (k : Key) (v : Val) (c : Bool) (h : LRef l r) :
    LRef (l.putTtl vc k v c) (CacheMap.step r (.put k v (!c))) := by
  cases l with
  | mem cfg s => exact Proofs.MemCache.ref_putCore cfg k v c _ (Proofs.MemCache.ref_tick h)
  | disk cfg s => exact Proofs.DiskCache.refd_putCore k v c h

theorem lref_remove {l : Layer} {r : Ref} (k : Key) (h : LRef l r) :
    LRef (l.remove k).1 (CacheMap.step r (.remove k)) := by
  cases l with
  | mem cfg s => exact Proofs.MemCache.ref_remove k (Proofs.MemCache.ref_tick h)
  | disk cfg s => exact Proofs.DiskCache.refd_remove k h

theorem lref_clear (l : Layer) (r : Ref) : LRef l.clear r := by
  cases l with
  | mem cfg s => intro k e hl _; cases hl
  | disk cfg s => intro k v hl; cases hl

theorem lref_fdel {l : Layer} {r : Ref} (k : Key) (h : LRef l r) : LRef (l.fdel k) r := by
  cases l with
  | mem cfg s => exact h
  | disk cfg s =>
    intro k' v hl
    exact h k' v (lookup_erase_some (k := k) hl)

/-- a layer that has nothing for `k` does not care what the reference map says about `k` -/
theorem lref_congr {l : Layer} {r r' : Ref} {k : Key} (h : LRef l r) (ha : Absent l k)
    (hr : ∀ k', k' ≠ k → r' k' = r k') : LRef l r' := by
  cases l with
  | mem cfg s =>
    intro k' e hl hs
    have hne : k' ≠ k := by
      intro heq; subst heq
      have ha : (lookup k' s.store).isNone = true := ha
      rw [hl] at ha; cases ha
    rw [hr k' hne]; exact h k' e hl hs
  | disk cfg s =>
    intro k' v hl
    have hne : k' ≠ k := by
      intro heq; subst heq
      have ha : (lookup k' s.files).isNone = true := ha
      rw [hl] at ha; cases ha
    rw [hr k' hne]; exact h k' v hl

/-- the layer keeps serving reference values when the reference map only gains agreement -/
theorem lref_weaken {l : Layer} {r r' : Ref} (h : LRef l r') (hr : ∀ k w, r' k = some w → r k = some w) :
    LRef l r := by
  cases l with
  | mem cfg s => intro k e hl hs; exact hr _ _ (h k e hl hs)
  | disk cfg s =>
    intro k v hl
    have := h k v hl
    cases hi : lookup k s.index with
    | some e => rw [hi] at this; exact fun hs => hr _ _ (this hs)
    | none => rw [hi] at this; exact hr _ _ this

/-- re-putting the reference value of a key (promotion) keeps the reference map -/
theorem lref_put_same {l : Layer} {r : Ref} (vc : Victims) {k : Key} {v : Val} (c : Bool) (h : LRef l r)
    (hk : r k = some v) : LRef (l.putTtl vc k v c) r := by
  refine lref_weaken (lref_putTtl vc k v c h) ?_
  intro k' w hw
  unfold CacheMap.step at hw
  by_cases hkk : k' = k
  · subst hkk
    simp only [if_true] at hw
    cases c with
    | true => simp at hw
    | false => simp at hw; rw [hk, hw]
  · simp only [hkk, if_false] at hw; exact hw

/-! ### the layer scan -/

theorem scan_out (k : Key) : ∀ (slots : List Slot) (i : Nat),
    ((scan k slots i).2).map (·.2) = firstHit (slots.map (fun sl => sl.layer.peek k)) := by
  intro slots
  induction slots with
  | nil => intro i; rfl
  | cons sl rest ih =>
    intro i
    unfold scan
    simp only [List.map_cons]
    unfold Layer.peek
    cases hg : (sl.layer.get k).2 with
    | hit v => simp [firstHit]
    | miss => simp only [firstHit]; exact ih (i + 1)
    | err => simp only [firstHit]; exact ih (i + 1)

theorem scan_cons_hit (k : Key) (sl : Slot) (rest : List Slot) (i : Nat) {v : Val}
    (h : (sl.layer.get k).2 = .hit v) :
    scan k (sl :: rest) i =
      ({ layer := (sl.layer.get k).1, hits := sl.hits + 1, misses := sl.misses } :: rest, some (i, v)) := by
  conv => lhs; unfold scan
  dsimp only; rw [h]

theorem scan_cons_nohit (k : Key) (sl : Slot) (rest : List Slot) (i : Nat)
    (h : ∀ v, (sl.layer.get k).2 ≠ .hit v) :
    scan k (sl :: rest) i =
      ({ layer := (sl.layer.get k).1, hits := sl.hits, misses := sl.misses + 1 } :: (scan k rest (i + 1)).1,
       (scan k rest (i + 1)).2) := by
  conv => lhs; unfold scan
  dsimp only
  cases hg : (sl.layer.get k).2 with
  | hit v => exact absurd hg (h v)
  | miss => rfl
  | err => rfl

/-- a property of layers kept by `Layer.get` is kept by the scan -/
theorem scan_pres (P : Layer → Prop) (k : Key) (hP : ∀ l, P l → P (l.get k).1) :
    ∀ (slots : List Slot) (i : Nat), (∀ sl ∈ slots, P sl.layer) → ∀ sl ∈ (scan k slots i).1, P sl.layer := by
  intro slots
  induction slots with
  | nil => intro i _ sl hsl; cases hsl
  | cons sl0 rest ih =>
    intro i h sl hsl
    have h0 := hP _ (h sl0 List.mem_cons_self)
    by_cases hh : ∃ v, (sl0.layer.get k).2 = .hit v
    · obtain ⟨v, hv⟩ := hh
      rw [scan_cons_hit k sl0 rest i hv] at hsl
      rcases List.mem_cons.mp hsl with heq | hm
      · subst heq; exact h0
      · exact h sl (List.mem_cons_of_mem _ hm)
    · have hn : ∀ v, (sl0.layer.get k).2 ≠ .hit v := fun v hv => hh ⟨v, hv⟩
      rw [scan_cons_nohit k sl0 rest i hn] at hsl
      rcases List.mem_cons.mp hsl with heq | hm
      · subst heq; exact h0
      · exact ih (i + 1) (fun s hs => h s (List.mem_cons_of_mem _ hs)) sl hm

theorem firstHit_none {l : List LGet} (h : ∀ x ∈ l, ∀ v, x ≠ .hit v) : firstHit l = none := by
  induction l with
  | nil => rfl
  | cons x t ih =>
    cases x with
    | hit v => exact absurd rfl (h _ List.mem_cons_self v)
    | miss => exact ih (fun y hy => h y (List.mem_cons_of_mem _ hy))
    | err => exact ih (fun y hy => h y (List.mem_cons_of_mem _ hy))

theorem firstHit_mem {l : List LGet} {v : Val} (h : firstHit l = some v) : LGet.hit v ∈ l := by
  induction l with
  | nil => cases h
  | cons x t ih =>
    cases x with
    | hit w => simp only [firstHit] at h; cases h; exact List.mem_cons_self
    | miss => exact List.mem_cons_of_mem _ (ih h)
    | err => exact List.mem_cons_of_mem _ (ih h)

theorem firstHit_append {pre post : List LGet} (h : ∀ x ∈ pre, ∀ v, x ≠ .hit v) :
    firstHit (pre ++ post) = firstHit post := by
  induction pre with
  | nil => rfl
  | cons x t ih =>
    have ht := ih (fun y hy => h y (List.mem_cons_of_mem _ hy))
    cases x with
    | hit v => exact absurd rfl (h _ List.mem_cons_self v)
    | miss => exact ht
    | err => exact ht

/-! ### modifyAt -/

theorem modifyAt_pres (P : Layer → Prop) (f : Layer → Layer) (hf : ∀ l, P l → P (f l)) :
    ∀ (slots : List Slot) (i : Nat), (∀ sl ∈ slots, P sl.layer) → ∀ sl ∈ modifyAt f slots i, P sl.layer := by
  intro slots
  induction slots with
  | nil => intro i _ sl hsl; cases i <;> cases hsl
  | cons sl0 rest ih =>
    intro i h sl hsl
    cases i with
    | zero =>
      rcases List.mem_cons.mp hsl with heq | hm
      · subst heq; exact hf _ (h sl0 List.mem_cons_self)
      · exact h sl (List.mem_cons_of_mem _ hm)
    | succ j =>
      rcases List.mem_cons.mp hsl with heq | hm
      · subst heq; exact h _ List.mem_cons_self
      · exact ih j (fun s hs => h s (List.mem_cons_of_mem _ hs)) sl hm

/-- all layers except number `i` have nothing for `k` -/
def othersAbsent (k : Key) : List Slot → Nat → Bool
  | [], _ => true
  | _ :: rest, 0 => rest.all (fun s => absentB s.layer k)
  | sl :: rest, i + 1 => absentB sl.layer k && othersAbsent k rest i

/-- write into layer `i` with reference step `r ↦ r'` that only changes key `k` -/
theorem modifyAt_write {r r' : Ref} {k : Key} (f : Layer → Layer)
    (hf : ∀ l, LRef l r → LRef (f l) r') (hr : ∀ k', k' ≠ k → r' k' = r k') :
    ∀ (slots : List Slot) (i : Nat), (∀ sl ∈ slots, LRef sl.layer r) → othersAbsent k slots i = true →
      ∀ sl ∈ modifyAt f slots i, LRef sl.layer r' := by
  intro slots
  induction slots with
  | nil => intro i _ _ sl hsl; cases i <;> cases hsl
  | cons sl0 rest ih =>
    intro i h ho sl hsl
    cases i with
    | zero =>
      rcases List.mem_cons.mp hsl with heq | hm
      · subst heq; exact hf _ (h sl0 List.mem_cons_self)
      · have ho : rest.all (fun s => absentB s.layer k) = true := ho
        exact lref_congr (h sl (List.mem_cons_of_mem _ hm)) (List.all_eq_true.mp ho sl hm) hr
    | succ j =>
      have ho : (absentB sl0.layer k && othersAbsent k rest j) = true := ho
      rw [Bool.and_eq_true] at ho
      rcases List.mem_cons.mp hsl with heq | hm
      · subst heq; exact lref_congr (h _ List.mem_cons_self) ho.1 hr
      · exact ih j (fun s hs => h s (List.mem_cons_of_mem _ hs)) ho.2 sl hm

/-! ### lock traces -/

theorem replay_append : ∀ (a b : Trace) (h : Held), replay h (a ++ b) = (replay h a).bind (fun h' => replay h' b) := by
  intro a
  induction a with
  | nil => intro b h; rfl
  | cons e t ih =>
    intro b h
    cases e <;> simp only [List.cons_append, replay] <;> split <;> first | exact ih b _ | rfl

theorem lockOk_append {a b : Trace} (ha : lockOk a = true) (hb : lockOk b = true) : lockOk (a ++ b) = true := by
  unfold lockOk at *
  rw [replay_append]
  have ha : replay ⟨0, 0⟩ a = some ⟨0, 0⟩ := by simpa using ha
  rw [ha]
  exact hb

theorem lockOk_nil : lockOk [] = true := rfl
theorem lockOk_pair : lockOk [.acqW, .relW] = true := by decide

/-! ### `get` / `get_with_validation` by scan result -/

theorem get_of_none (env : Env) (s : State) (k : Key) (h : (scan k s.slots 0).2 = none) :
    MultiLayer.get env s k = ⟨{ s with slots := (scan k s.slots 0).1 }, .val none, []⟩ := by
  simp only [MultiLayer.get, h]

theorem get_of_some (env : Env) (s : State) (k : Key) {i : Nat} {v : Val} (h : (scan k s.slots 0).2 = some (i, v)) :
    MultiLayer.get env s k =
      ⟨{ s with slots := (scan k s.slots 0).1, tracker := touch s.tracker k i }, .val (some v), [.acqW, .relW]⟩ := by
  simp only [MultiLayer.get, h]

theorem getv_of_none (env : Env) (s : State) (k : Key) (ock : Option CK) (h : (scan k s.slots 0).2 = none) :
    getv env s k ock = ⟨{ s with slots := (scan k s.slots 0).1 }, .val none, []⟩ := by
  simp only [getv, h]

/-- state after the scan and the tracker update -/
def afterHit (s : State) (k : Key) (i : Nat) : State :=
  { s with slots := (scan k s.slots 0).1, tracker := touch s.tracker k i }

theorem getv_of_some (env : Env) (s : State) (k : Key) (ock : Option CK) {i : Nat} {v : Val}
    (h : (scan k s.slots 0).2 = some (i, v)) :
    getv env s k ock =
      match env.hooks, ock with
      | some hk, some ck =>
        match validate hk ck v with
        | .ok => ⟨afterHit s k i, .val (some v), [.acqW, .relW]⟩
        | .failed => ⟨(remove (afterHit s k i) k).st, .err .corruption, [.acqW, .relW] ++ (remove (afterHit s k i) k).trace⟩
        | .hookErr => ⟨(remove (afterHit s k i) k).st, .err .backend, [.acqW, .relW] ++ (remove (afterHit s k i) k).trace⟩
      | _, _ => ⟨afterHit s k i, .val (some v), [.acqW, .relW]⟩ := by
  simp only [getv, h, afterHit]
  cases env.hooks <;> cases ock <;> rfl

/-! ### the Ttl eviction policy: only expired entries leave, the victims function plays no role -/

theorem performEviction_ttl (cfg : MemCache.Config) (hp : cfg.policy = .ttl) (s : MemCache.State) (vs vs' : List Key) :
    MemCache.performEviction cfg s vs = MemCache.performEviction cfg s vs' := by
  unfold MemCache.performEviction
  rw [hp]

theorem putCore_ttl (cfg : MemCache.Config) (hp : cfg.policy = .ttl) (s : MemCache.State) (k : Key) (v : Val)
    (c : Bool) (vs vs' : List Key) : MemCache.putCore cfg s k v c vs = MemCache.putCore cfg s k v c vs' := by
  unfold MemCache.putCore MemCache.preEvict
  rw [performEviction_ttl cfg hp s vs vs']

theorem putTtl_ttl_victims_irrelevant (vc vc' : Victims) (cfg : MemCache.Config) (ms : MemCache.State)
    (hp : cfg.policy = .ttl) (k : Key) (v : Val) (c : Bool) :
    Layer.putTtl vc (.mem cfg ms) k v c = Layer.putTtl vc' (.mem cfg ms) k v c := by
  unfold Layer.putTtl
  simp only
  rw [putCore_ttl cfg hp _ k v c (vc cfg (MemCache.tick ms)) (vc' cfg (MemCache.tick ms))]

theorem lookup_removeCounted_ne {s : MemCache.State} {q k' : Key} (hne : k' ≠ q) :
    lookup k' (MemCache.removeCounted s q).store = lookup k' s.store := by
  unfold MemCache.removeCounted
  split
  · exact lookup_erase_ne hne _
  · rfl

theorem lookup_evictKeys_notin (ks : List Key) : ∀ (s : MemCache.State) {k' : Key}, k' ∉ ks →
    lookup k' (MemCache.evictKeys s ks).store = lookup k' s.store := by
  induction ks with
  | nil => intro s k' _; rfl
  | cons q t ih =>
    intro s k' hn
    have h1 : k' ≠ q := fun h => hn (h ▸ List.mem_cons_self)
    have h2 : k' ∉ t := fun h => hn (List.mem_cons_of_mem _ h)
    show lookup k' (MemCache.evictKeys (MemCache.removeCounted s q) t).store = _
    rw [ih _ h2, lookup_removeCounted_ne h1]

theorem notin_expiredKeys {st : MemCache.Store} (hn : NoDup st) {k' : Key} {e : MemCache.Entry}
    (he : lookup k' st = some e) (hl : e.short = false) : k' ∉ MemCache.expiredKeys st := by
  intro hm
  unfold MemCache.expiredKeys at hm
  rcases List.mem_map.mp hm with ⟨⟨q, e'⟩, hf, hq⟩
  rcases List.mem_filter.mp hf with ⟨hmem, hs⟩
  simp only at hq hs
  subst hq
  have := lookup_of_mem hn hmem
  rw [he] at this
  cases this
  rw [hl] at hs
  cases hs

theorem lookup_putCore_ttl_live (cfg : MemCache.Config) (hp : cfg.policy = .ttl) {s : MemCache.State}
    (hinv : Proofs.MemCache.Inv s) (k k' : Key) (v : Val) (c : Bool) (vs : List Key) (hne : k' ≠ k)
    {e : MemCache.Entry} (he : lookup k' s.store = some e) (hl : e.short = false) :
    lookup k' (MemCache.putCore cfg s k v c vs).store = some e := by
  unfold MemCache.putCore
  rw [Proofs.MemCache.insertCounted_store, lookup_cons_ne hne, lookup_erase_ne hne]
  unfold MemCache.preEvict MemCache.performEviction
  rw [hp]
  split
  · split
    · exact he
    · split
      · exact he
      · rw [lookup_evictKeys_notin _ _ (notin_expiredKeys hinv.nodup he hl)]; exact he
  · exact he

theorem mem_peek_hit {cfg : MemCache.Config} {s : MemCache.State} {k : Key} {v : Val}
    (h : (Layer.mem cfg s).peek k = .hit v) :
    ∃ e, lookup k s.store = some e ∧ e.short = false ∧ e.val = v := by
  unfold Layer.peek Layer.get at h
  dsimp only at h
  rw [Cascette.Proofs.MemCache.get_out] at h
  change (match (match lookup k s.store with
                  | some e => if e.short then none else some e.val
                  | none => none) with | some v => LGet.hit v | none => LGet.miss) = LGet.hit v at h
  cases hl : lookup k s.store with
  | none => rw [hl] at h; cases h
  | some e =>
    rw [hl] at h
    by_cases hs : e.short = true
    · simp [hs] at h
    · simp [hs] at h
      exact ⟨e, rfl, by simpa using hs, h⟩

theorem mem_peek_of_lookup {cfg : MemCache.Config} {s : MemCache.State} {k : Key} {e : MemCache.Entry}
    (hl : lookup k s.store = some e) (hs : e.short = false) : (Layer.mem cfg s).peek k = .hit e.val := by
  unfold Layer.peek Layer.get
  dsimp only
  rw [Cascette.Proofs.MemCache.get_out]
  change (match (match lookup k s.store with
                  | some e => if e.short then none else some e.val
                  | none => none) with | some v => LGet.hit v | none => LGet.miss) = _
  rw [hl]
  simp [hs]

theorem peek_putTtl_ttl_keeps_live (vc : Victims) (cfg : MemCache.Config) (ms : MemCache.State)
    (hp : cfg.policy = .ttl) (hinv : Proofs.MemCache.Inv ms) (k k' : Key) (v v' : Val) (c : Bool) (hne : k' ≠ k)
    (h : (Layer.mem cfg ms).peek k' = .hit v') :
    (Layer.putTtl vc (.mem cfg ms) k v c).peek k' = .hit v' := by
  rcases mem_peek_hit h with ⟨e, hl, hs, hv⟩
  unfold Layer.putTtl
  dsimp only
  have := lookup_putCore_ttl_live cfg hp (Proofs.MemCache.inv_tick hinv) k k' v c (vc cfg (MemCache.tick ms)) hne
    (show lookup k' (MemCache.tick ms).store = some e from hl) hs
  rw [← hv]
  exact mem_peek_of_lookup this hs

theorem ttl_first_layer_put_keeps_served (env : Env) (s : State) (sl : Slot) (rest : List Slot)
    (cfg : MemCache.Config) (ms : MemCache.State) (hs : s.slots = sl :: rest) (hl : sl.layer = .mem cfg ms)
    (hp : cfg.policy = .ttl) (hinv : Proofs.MemCache.Inv ms) (k k' : Key) (v v' : Val) (hne : k' ≠ k)
    (h : sl.layer.peek k' = .hit v') :
    firstHit (peeks (MultiLayer.put env s k v).st k') = some v' := by
  unfold MultiLayer.put putWith peeks
  dsimp only
  rw [hs]
  show firstHit (List.map (fun sl => sl.layer.peek k') ({ sl with layer := sl.layer.put env.victims k v } :: rest)) = some v'
  rw [List.map_cons]
  dsimp only
  rw [hl] at h ⊢
  unfold Layer.put
  rw [peek_putTtl_ttl_keeps_live env.victims cfg ms hp hinv k k' v v' _ hne h]
  rfl

end Cascette.Proofs.MultiLayer
