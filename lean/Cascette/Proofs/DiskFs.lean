/-
Proofs/DiskFs — every file `DiskCache::put` leaves behind and every file a cold `get` opens lies
below the root, for key texts that are relative and have no ".." segment (C20).
-/
import Cascette.Model.DiskFs
import Cascette.Proofs.Path
namespace Cascette.Proofs.DiskFs
open Cascette.Model.Path Cascette.Model.DiskFs Cascette.Proofs.Path

theorem normAux_append_of_no_dotdot (st cs rest : List Comp) (h : dotdot ∉ cs) :
    normAux st (cs ++ rest) = normAux (cs.reverse ++ st) rest := by
  induction cs generalizing st with
  | nil => simp
  | cons c r ih =>
    have hc : c ≠ dotdot := fun e => h (by simp [e])
    have hr : dotdot ∉ r := fun e => h (by simp [e])
    simp only [List.cons_append]
    rw [normAux, if_neg hc, ih _ hr]
    simp

/-- a trailing ".." on a clean path removes its last component. -/
theorem normalize_append_dotdot (d : APath) (h : dotdot ∉ d) :
    normalize (d ++ [dotdot]) = d.dropLast := by
  unfold normalize
  rw [normAux_append_of_no_dotdot [] d [dotdot] h]
  simp only [List.append_nil]
  rw [normAux, if_pos rfl, normAux]
  simp [List.tail_reverse]

/-- the shape of `with_extension("tmp")` on a path with a file name: the directory part stays,
the new last component is "..", or a name ending in ".tmp". -/
theorem withExtTmpRaw_shape (tr : Bool) (d : APath) (n : Comp) (hn : n ≠ dotdot) :
    (withExtTmpRaw tr (d ++ [n]) = d ++ [dotdot] ∧ tr = false) ∨
    ∃ x, withExtTmpRaw tr (d ++ [n]) = d ++ [x ++ tmpExt] := by
  unfold withExtTmpRaw
  simp only [fileName_append_singleton d n hn, List.dropLast_concat]
  cases splitLastDot n with
  | none => exact Or.inr ⟨n, rfl⟩
  | some ba =>
    obtain ⟨before, after⟩ := ba
    simp only
    by_cases h1 : before = []
    · simp only [h1, if_true]; exact Or.inr ⟨n, rfl⟩
    · simp only [h1, if_false]
      by_cases h2 : before = dot
      · simp only [h2, if_true]
        cases tr with
        | false => exact Or.inl ⟨by simp, rfl⟩
        | true => exact Or.inr ⟨dot, by simp⟩
      · simp only [h2, if_false]; exact Or.inr ⟨before, rfl⟩

theorem tmp_name_ne_dotdot (x : Comp) : x ++ tmpExt ≠ dotdot := by
  intro e
  have := congrArg List.length e
  simp [tmpExt, dotdot] at this

theorem mem_mkdirAll (fs : Fs) (p : APath) (i : Nat) (hi : i ≤ p.length) :
    normalize (p.take i) ∈ (mkdirAll fs p).dirs := by
  unfold mkdirAll
  simp only [List.mem_append, List.mem_map, List.mem_range]
  exact Or.inr ⟨i, by omega, rfl⟩

/-- a path without ".." is resolved to itself. -/
theorem walk_of_no_dotdot (fs : Fs) (cur r loc : APath) (h : dotdot ∉ r)
    (hw : walk fs cur r = some loc) : loc = cur ++ r := by
  induction r generalizing cur with
  | nil => simp [walk] at hw; simp [hw]
  | cons c r ih =>
    have hc : c ≠ dotdot := fun e => h (by simp [e])
    have hr : dotdot ∉ r := fun e => h (by simp [e])
    rw [walk] at hw
    split at hw
    · cases hw
    · have := ih (cur ++ [c]) hr hw
      simp [this]

/-- For every file-system state, root, layout and key text that is relative, has no ".."
segment and contributes at least one component: the file a successful `put` writes, the temporary
file a failed `put` leaves behind, and the file a cold `get` opens all lie below the root. -/
theorem put_get_confined (fs : Fs) (root sub : APath) (key : Str)
    (hr : dotdot ∉ root) (hsub : dotdot ∉ sub)
    (habs : isAbs key = false) (hk : dotdot ∉ segs key) (hne : comps key ≠ []) :
    (∀ f, put fs root sub key = .ok f → root <+: f) ∧
    (∀ t, put fs root sub key = .err (some t) → root <+: t) ∧
    (∀ loc, getCold fs root sub key = some loc → root <+: loc) := by
  have hkc : dotdot ∉ comps key := fun h => hk ((dotdot_mem_comps key).mp h)
  have hp : diskPath root sub key = root ++ (sub ++ comps key) := by
    unfold diskPath join
    rw [habs]
    simp
  have hpd : dotdot ∉ diskPath root sub key := by
    rw [hp]; simp [hr, hsub, hkc]
  -- split the path into directory part and file name
  obtain ⟨cs, n, hcs⟩ : ∃ cs n, comps key = cs ++ [n] :=
    ⟨(comps key).dropLast, (comps key).getLast hne, (List.dropLast_concat_getLast hne).symm⟩
  have hn : n ≠ dotdot := fun e => hkc (by rw [hcs, e]; simp)
  have hcsd : dotdot ∉ cs := fun h => hkc (by rw [hcs]; simp [h])
  let d := root ++ (sub ++ cs)
  have hpdn : diskPath root sub key = d ++ [n] := by rw [hp, hcs]; simp [d]
  have hd : dotdot ∉ d := by simp [d, hr, hsub, hcsd]
  have hrootd : root <+: d := List.prefix_append root _
  refine ⟨?_, ?_, ?_⟩
  · intro f hf
    unfold put at hf
    simp only at hf
    split at hf
    · cases hf
    · split at hf
      · cases hf
      · split at hf
        · cases hf
        · split at hf
          · cases hf
          · injection hf with hf
            rw [← hf, normalize_of_no_dotdot _ hpd, hp]
            exact List.prefix_append root _
  · intro t ht
    unfold put at ht
    simp only at ht
    split at ht
    · cases ht
    · split at ht
      · cases ht
      · split at ht
        · cases ht
        · rename_i hnotdir
          have hshape := withExtTmpRaw_shape (lastSeg key == [] || lastSeg key == dot) d n hn
          rw [← hpdn] at hshape
          rcases hshape with ⟨hdd, _⟩ | ⟨x, hx⟩
          · -- "..x": the temporary path is the parent directory, which exists: open fails
            exfalso
            apply hnotdir
            rw [hdd, normalize_append_dotdot d hd]
            simp only [List.contains_eq_mem, decide_eq_true_eq]
            have hpar : parent (d ++ [dotdot]) = d := by simp [parent]
            rw [hpar]
            have := mem_mkdirAll (mkdirAll fs (root ++ sub)) d (d.length - 1) (by omega)
            rw [normalize_of_no_dotdot _ (fun h => hd (List.mem_of_mem_take h))] at this
            rw [List.dropLast_eq_take]
            exact this
          · split at ht
            · injection ht with ht
              injection ht with ht
              rw [← ht, hx, normalize_of_no_dotdot]
              · exact List.IsPrefix.trans hrootd (List.prefix_append d _)
              · simp only [List.mem_append, List.mem_cons, List.not_mem_nil, or_false, not_or]
                exact ⟨hd, fun e => tmp_name_ne_dotdot x e.symm⟩
            · cases ht
  · intro loc hloc
    unfold getCold at hloc
    split at hloc
    · cases hloc
    · split at hloc
      · cases hloc
      · split at hloc
        · rename_i loc' hw
          split at hloc
          · injection hloc with hloc
            have := walk_of_no_dotdot fs [] _ loc' hpd hw
            rw [← hloc, this, hp]
            simp
          · cases hloc
        · cases hloc

/-- the temporary path of ANY `put` (successful or not) under the same hypotheses: it lies below
the root, or it is the directory path `<dir>/..` on which nothing can be created. -/
theorem tmp_confined (tr : Bool) (root sub : APath) (key : Str)
    (hr : dotdot ∉ root) (hsub : dotdot ∉ sub)
    (habs : isAbs key = false) (hk : dotdot ∉ segs key) (hne : comps key ≠ []) :
    root <+: normalize (withExtTmpRaw tr (diskPath root sub key)) ∨
    withExtTmpRaw tr (diskPath root sub key) = (diskPath root sub key).dropLast ++ [dotdot] := by
  have hkc : dotdot ∉ comps key := fun h => hk ((dotdot_mem_comps key).mp h)
  have hp : diskPath root sub key = root ++ (sub ++ comps key) := by
    unfold diskPath join
    rw [habs]
    simp
  obtain ⟨cs, n, hcs⟩ : ∃ cs n, comps key = cs ++ [n] :=
    ⟨(comps key).dropLast, (comps key).getLast hne, (List.dropLast_concat_getLast hne).symm⟩
  have hn : n ≠ dotdot := fun e => hkc (by rw [hcs, e]; simp)
  have hcsd : dotdot ∉ cs := fun h => hkc (by rw [hcs]; simp [h])
  have hpdn : diskPath root sub key = (root ++ (sub ++ cs)) ++ [n] := by rw [hp, hcs]; simp
  have hd : dotdot ∉ root ++ (sub ++ cs) := by simp [hr, hsub, hcsd]
  rcases withExtTmpRaw_shape tr (root ++ (sub ++ cs)) n hn with ⟨hdd, _⟩ | ⟨x, hx⟩
  · right
    rw [hpdn, hdd]
    simp
  · left
    rw [hpdn, hx, normalize_of_no_dotdot]
    · simp only [List.append_assoc]
      exact List.prefix_append root _
    · simp only [List.mem_append, List.mem_cons, List.not_mem_nil, or_false, not_or]
      exact ⟨⟨hr, hsub, hcsd⟩, fun e => tmp_name_ne_dotdot x e.symm⟩

end Cascette.Proofs.DiskFs
