/-
Proofs/Salsa20 — the model of the Rust cipher computes DJB's Salsa20 stream.
-/
import Cascette.Model.Salsa20
namespace Cascette.Proofs.Salsa20
open Cascette
open Cascette.Spec.Salsa20
open Cascette.Model.Salsa20

/-- The eight in-place quarter rounds of the Rust loop body are DJB's doubleround. -/
theorem roundPair_eq_doubleround (s : S) : roundPair s = doubleround s := by
  cases s; rfl

theorem rounds_eq_iter (n : Nat) (s : S) : rounds n s = iter doubleround n s := by
  induction n generalizing s with
  | zero => rfl
  | succ n ih => simp only [rounds, iter, roundPair_eq_doubleround, ih]

/-- the 32-bit counter with carry is the 64-bit little-endian counter. -/
theorem counter_lo (c : BitVec 64) : c.setWidth 32 + 1 = (c + 1).setWidth 32 := by
  bv_omega

theorem counter_hi (c : BitVec 64) :
    (if c.setWidth 32 + 1 = (0 : W32) then (c >>> 32).setWidth 32 + 1 else (c >>> 32).setWidth 32)
      = ((c + 1) >>> 32).setWidth 32 := by
  split <;> bv_omega

/-- What the model's cipher state means: `cnt` blocks have been generated (`cnt ≥ 1`), the state
holds the spec's input matrix for block `cnt`, the buffer holds block `cnt-1`. -/
def Inv (k : Key) (v0 v1 : W32) (c : Cipher) (cnt : Nat) : Prop :=
  1 ≤ cnt ∧ c.state = expand16 k v0 v1 (BitVec.ofNat 64 cnt) ∧
  c.keystream = block k v0 v1 (cnt - 1) ∧ c.pos ≤ 64

/-- absolute stream offset of the next byte. -/
def offset (c : Cipher) (cnt : Nat) : Nat := 64 * (cnt - 1) + c.pos

theorem generate_spec (k : Key) (v0 v1 : W32) (c : Cipher) (i : Nat)
    (h : c.state = expand16 k v0 v1 (BitVec.ofNat 64 i)) :
    generate c = { state := expand16 k v0 v1 (BitVec.ofNat 64 (i + 1)),
                   keystream := block k v0 v1 i, pos := 0 } := by
  have hadd : BitVec.ofNat 64 (i + 1) = BitVec.ofNat 64 i + 1 := by
    simp [BitVec.ofNat_add]
  have hlo := counter_lo (BitVec.ofNat 64 i)
  have hhi := counter_hi (BitVec.ofNat 64 i)
  obtain ⟨st, ks, pos⟩ := c
  simp only at h
  subst h
  simp only [generate, rounds_eq_iter, block, core, hadd, expand16, Cipher.mk.injEq, S.mk.injEq,
    true_and, and_true]
  exact ⟨hlo, hhi⟩

theorem stepByte_spec (k : Key) (v0 v1 : W32) (c : Cipher) (cnt : Nat) (b : Byte)
    (h : Inv k v0 v1 c cnt) :
    ∃ cnt', (stepByte c b).2 = b ^^^ streamByte k v0 v1 (offset c cnt) ∧
      Inv k v0 v1 (stepByte c b).1 cnt' ∧ offset (stepByte c b).1 cnt' = offset c cnt + 1 := by
  obtain ⟨h1, hs, hk, hp⟩ := h
  by_cases hpos : c.pos ≥ 64
  · have hp64 : c.pos = 64 := by omega
    have hstep : stepByte c b =
        ({ state := expand16 k v0 v1 (BitVec.ofNat 64 (cnt + 1)),
           keystream := block k v0 v1 cnt, pos := 1 },
         b ^^^ (block k v0 v1 cnt).getD 0 0) := by
      unfold stepByte
      rw [if_pos hpos, generate_spec k v0 v1 c cnt hs]
    have e1 : (64 * (cnt - 1) + 64) / 64 = cnt := by omega
    have e2 : (64 * (cnt - 1) + 64) % 64 = 0 := by omega
    refine ⟨cnt + 1, ?_, ?_, ?_⟩
    · rw [hstep]; simp only [streamByte, offset, hp64, e1, e2]
    · rw [hstep]; exact ⟨by omega, rfl, by simp, by simp⟩
    · rw [hstep]; simp only [offset, hp64]; omega
  · have hstep : stepByte c b = ({ c with pos := c.pos + 1 }, b ^^^ c.keystream.getD c.pos 0) := by
      unfold stepByte
      rw [if_neg hpos]
    have e1 : (64 * (cnt - 1) + c.pos) / 64 = cnt - 1 := by omega
    have e2 : (64 * (cnt - 1) + c.pos) % 64 = c.pos := by omega
    refine ⟨cnt, ?_, ?_, ?_⟩
    · rw [hstep]; simp only [streamByte, offset, hk, e1, e2]
    · rw [hstep]; exact ⟨h1, hs, hk, by simp only; omega⟩
    · rw [hstep]; simp only [offset]; omega

theorem apply_spec (k : Key) (v0 v1 : W32) (msg : Bytes) :
    ∀ (c : Cipher) (cnt : Nat), Inv k v0 v1 c cnt →
      (apply c msg).2 = xorStream k v0 v1 (offset c cnt) msg ∧
      ∃ cnt', Inv k v0 v1 (apply c msg).1 cnt' ∧
        offset (apply c msg).1 cnt' = offset c cnt + msg.length := by
  induction msg with
  | nil => intro c cnt h; exact ⟨rfl, cnt, h, rfl⟩
  | cons b bs ih =>
    intro c cnt h
    obtain ⟨cnt1, ho, hi, hoff⟩ := stepByte_spec k v0 v1 c cnt b h
    obtain ⟨hx, cnt2, hi2, hoff2⟩ := ih (stepByte c b).1 cnt1 hi
    simp only [apply, xorStream]
    refine ⟨?_, cnt2, hi2, ?_⟩
    · rw [ho, hx, hoff]
    · rw [hoff2, hoff]; simp only [List.length_cons]; omega

theorem toLe32_eq (w : W32) : toLe32 w = [byteOf w 0, byteOf w 1, byteOf w 2, byteOf w 3] := rfl
theorem le32_zero : le32 0 0 0 0 = 0 := by decide

theorem new_spec16 (a0 a1 a2 a3 b0 b1 b2 b3 c0 c1 c2 c3 d0 d1 d2 d3 : Byte) (e0 e1 e2 e3 e4 e5 e6 e7 : Byte) (idx : Nat) (iv : Bytes)
    (hiv : iv = [e0,e1,e2,e3] ∧ e4 = 0 ∧ e5 = 0 ∧ e6 = 0 ∧ e7 = 0 ∨ iv = [e0,e1,e2,e3,e4,e5,e6,e7]) :
    ∃ c, new [a0,a1,a2,a3,b0,b1,b2,b3,c0,c1,c2,c3,d0,d1,d2,d3] iv idx = some c ∧
      c.pos = 0 ∧
      Inv ⟨le32 a0 a1 a2 a3, le32 b0 b1 b2 b3, le32 c0 c1 c2 c3, le32 d0 d1 d2 d3⟩
        (le32 e0 e1 e2 e3 ^^^ BitVec.ofNat 32 idx) (le32 e4 e5 e6 e7) c 1 := by
  have hx : le32 (e0 ^^^ byteOf (BitVec.ofNat 32 idx) 0) (e1 ^^^ byteOf (BitVec.ofNat 32 idx) 1)
      (e2 ^^^ byteOf (BitVec.ofNat 32 idx) 2) (e3 ^^^ byteOf (BitVec.ofNat 32 idx) 3)
      = le32 e0 e1 e2 e3 ^^^ BitVec.ofNat 32 idx := by
    rw [le32_xor, le32_toLe32]
  have hg := fun ks pos => generate_spec ⟨le32 a0 a1 a2 a3, le32 b0 b1 b2 b3, le32 c0 c1 c2 c3, le32 d0 d1 d2 d3⟩
    (le32 e0 e1 e2 e3 ^^^ BitVec.ofNat 32 idx) (le32 e4 e5 e6 e7)
    ⟨expand16 ⟨le32 a0 a1 a2 a3, le32 b0 b1 b2 b3, le32 c0 c1 c2 c3, le32 d0 d1 d2 d3⟩
      (le32 e0 e1 e2 e3 ^^^ BitVec.ofNat 32 idx) (le32 e4 e5 e6 e7) (BitVec.ofNat 64 0), ks, pos⟩ 0 rfl
  rcases hiv with ⟨rfl, rfl, rfl, rfl, rfl⟩ | rfl
  all_goals
    simp only [new, toLe32_eq, hx]
    refine ⟨_, rfl, ?_, ?_⟩
    · exact congrArg Cipher.pos (hg _ _)
    · have := hg (List.replicate 64 0) 64
      refine ⟨by omega, ?_, ?_, ?_⟩
      · exact congrArg Cipher.state this
      · exact congrArg Cipher.keystream this
      · exact Nat.le_trans (Nat.le_of_eq (congrArg Cipher.pos this)) (Nat.zero_le 64)

theorem len16 {α : Type} (l : List α) (h : l.length = 16) :
    ∃ a0 a1 a2 a3 b0 b1 b2 b3 c0 c1 c2 c3 d0 d1 d2 d3,
      l = [a0,a1,a2,a3,b0,b1,b2,b3,c0,c1,c2,c3,d0,d1,d2,d3] := by
  match l, h with
  | [a0,a1,a2,a3,b0,b1,b2,b3,c0,c1,c2,c3,d0,d1,d2,d3], _ =>
    exact ⟨a0,a1,a2,a3,b0,b1,b2,b3,c0,c1,c2,c3,d0,d1,d2,d3, rfl⟩

/-- C09 `salsa20_model_eq_spec`: for every 16-byte key, every IV, every block index and every
message, the model of the Rust cipher returns what DJB's Salsa20 with the CASC nonce rule returns
(and rejects exactly the IV lengths the spec rejects). -/
theorem crypt_eq_casc (key iv : Bytes) (idx : Nat) (msg : Bytes) (hk : key.length = 16) :
    crypt key iv idx msg = casc key iv idx msg := by
  obtain ⟨a0,a1,a2,a3,b0,b1,b2,b3,c0,c1,c2,c3,d0,d1,d2,d3, rfl⟩ := len16 key hk
  unfold crypt casc
  match iv with
  | [e0,e1,e2,e3] =>
    obtain ⟨c, hc, hp, hinv⟩ := new_spec16 a0 a1 a2 a3 b0 b1 b2 b3 c0 c1 c2 c3 d0 d1 d2 d3 e0 e1 e2 e3 0 0 0 0 idx _ (Or.inl ⟨rfl, rfl, rfl, rfl, rfl⟩)
    have := (apply_spec _ _ _ msg c 1 hinv).1
    simp only [hc, keyOfBytes, cascNonce, Option.map_some, this, offset, hp, le32_zero]
  | [e0,e1,e2,e3,e4,e5,e6,e7] =>
    obtain ⟨c, hc, hp, hinv⟩ := new_spec16 a0 a1 a2 a3 b0 b1 b2 b3 c0 c1 c2 c3 d0 d1 d2 d3 e0 e1 e2 e3 e4 e5 e6 e7 idx _ (Or.inr rfl)
    have := (apply_spec _ _ _ msg c 1 hinv).1
    simp only [hc, keyOfBytes, cascNonce, Option.map_some, this, offset, hp]
  | [] | [_] | [_,_] | [_,_,_] | [_,_,_,_,_] | [_,_,_,_,_,_] | [_,_,_,_,_,_,_] | _::_::_::_::_::_::_::_::_::_ =>
    simp [new, keyOfBytes, cascNonce]

/-- a keystream applied in pieces equals the keystream applied at once (any split point). -/
theorem apply_append (c : Cipher) (a b : Bytes) :
    apply c (a ++ b) =
      ((apply (apply c a).1 b).1, (apply c a).2 ++ (apply (apply c a).1 b).2) := by
  induction a generalizing c with
  | nil => simp [apply]
  | cons x xs ih => simp only [List.cons_append, apply, ih]

theorem xorStream_involutive (k : Key) (v0 v1 : W32) (off : Nat) (msg : Bytes) :
    xorStream k v0 v1 off (xorStream k v0 v1 off msg) = msg := by
  induction msg generalizing off with
  | nil => rfl
  | cons b bs ih => simp only [xorStream, ih, BitVec.xor_assoc, BitVec.xor_self, BitVec.xor_zero]

theorem xorStream_length (k : Key) (v0 v1 : W32) (off : Nat) (msg : Bytes) :
    (xorStream k v0 v1 off msg).length = msg.length := by
  induction msg generalizing off with
  | nil => rfl
  | cons b bs ih => simp only [xorStream, List.length_cons, ih]

end Cascette.Proofs.Salsa20
